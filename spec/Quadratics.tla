------------------------------ MODULE Quadratics ------------------------------
(***************************************************************************)
(* C07 - objective FAMILIES with exactly known optima (model -> code).     *)
(* TLC enumerates every member within the bounds, checks the optimality    *)
(* certificate on the model with exact integer / rational arithmetic and   *)
(* PRINTS one case per member: parameters, exact optimum, the ingredients  *)
(* of the distance tolerance, start points (corners and centre of a box),  *)
(* and per start point the two constraint sets (an integer box that        *)
(* contains start and optimum; an axis-parallel half-space that contains   *)
(* the start and excludes the optimum).  The Go driver builds the          *)
(* objective from the printed parameters and runs every applicable routine.*)
(*                                                                         *)
(* quad      f(x) = 1/2 x'Ax - b'x,  A = L L' + d I (L lower triangular,   *)
(*           positive diagonal, small integers; d >= 0), b = L c.          *)
(*           Certificate: A symmetric, leading principal minors > 0,       *)
(*           A x* = b with x* = adj(A) b / det(A).  invb2 = ||A^-1||_F^2   *)
(*           (>= ||A^-1||_2^2), lip2 = ||A||_F^2 (>= ||A||_2^2).           *)
(*           As a finite sum (SAGA): f = sum_i 1/2 (l_i'x - c_i)^2 + d/2   *)
(*           |x|^2 + const with l_i the columns of L.                      *)
(* sepconv   f(x) = sum_i (x_i - m_i)^2 + k_i (x_i - m_i)^4, minimiser m   *)
(*           (rational), strong convexity modulus 2.                       *)
(* quartic   f(x) = sum_i (x_i - m_i)^4: strictly convex, singular Hessian *)
(*           at the minimiser m (no distance tolerance: sc = FALSE).       *)
(* logistic  f(x) = sum_i [log(1+exp(a_i'z)) + log(1+exp(-a_i'z))]         *)
(*           + lambda/2 |z|^2, z = x - m: even in z and strictly convex,   *)
(*           so the unique minimiser is m; modulus lambda; gradient        *)
(*           Lipschitz constant <= sum_i |a_i|^2 / 2 + lambda.             *)
(* rosen     f(x) = (a - x1)^2 + b (x2 - x1^2)^2, minimiser (a, a^2).      *)
(* polyroot  F(x) = x^k - a^k (one dimension) and                          *)
(*           F(x) = (x1^2 - a^2, x1 x2 - a b): planted integer roots.      *)
(* channel   discrete memoryless channels that are invariant under a       *)
(*           transitive group of input permutations (each paired with an   *)
(*           output permutation): by concavity of the mutual information   *)
(*           the uniform input distribution achieves capacity.  Printed:   *)
(*           W as rationals, p* uniform, the output distribution under p*. *)
(*                                                                         *)
(* The option combinations every routine is run with are printed as well   *)
(* (kind "options"): epsilon = 10^-epsexp; maxit 3 / -1 (the default, or a *)
(* large routine-specific cap for the slowly converging routines);         *)
(* hookstop -1: no hook, 0: a hook that never stops, k: a hook that asks   *)
(* to stop at its k-th call; cons: none / box / half.                      *)
(***************************************************************************)
EXTENDS Rat, FiniteSets, SequencesExt, Json

CONSTANTS MaxDim,     \* quadratics in 1..MaxDim dimensions
          Diag,       \* diagonal entries of L (positive)
          OffP,       \* magnitudes of the off-diagonal entries of L (entries are in -OffP \cup OffP)
          Shifts,     \* diagonal shifts d
          CsP,        \* magnitudes of the components of c
          Box,        \* start points: corners and centre of [-Box, Box]^n
          KappaMax    \* bound on the Frobenius condition number ||A||_F ||A^-1||_F

VARIABLE case

Neg(S) == {0 - x : x \in S}
Off == OffP \cup Neg(OffP)
Cs  == CsP \cup Neg(CsP)

(* ------------------------- integer linear algebra ---------------------- *)
Mat(n, F(_, _)) == TLCEval([i \in 1..n |-> TLCEval([j \in 1..n |-> F(i, j)])])
RECURSIVE SumTo(_, _)
SumTo(n, F) == IF n = 0 THEN 0 ELSE F[n] + SumTo(n - 1, F)
Sum(n, F(_)) == SumTo(n, TLCEval([k \in 1..n |-> F(k)]))

(* minor: drop row r and column c *)
Minor(n, M, r, c) ==
  LET ri(i) == IF i < r THEN i ELSE i + 1
      ci(j) == IF j < c THEN j ELSE j + 1
  IN Mat(n - 1, LAMBDA i, j : M[ri(i)][ci(j)])
Sgn(k) == IF k % 2 = 0 THEN 1 ELSE -1
RECURSIVE Det(_, _)
Det(n, M) == IF n = 0 THEN 1
             ELSE IF n = 1 THEN M[1][1]
             ELSE Sum(n, LAMBDA j : Sgn(1 + j) * M[1][j] * Det(n - 1, Minor(n, M, 1, j)))
Adj(n, M) == Mat(n, LAMBDA i, j : Sgn(i + j) * Det(n - 1, Minor(n, M, j, i)))
Lead(n, M, k) == Mat(k, LAMBDA i, j : M[i][j])

(* ------------------------------ quadratics ----------------------------- *)
LowerIdx(n) == {ij \in (1..n) \X (1..n) : ij[2] < ij[1]}
Ls(n) == {Mat(n, LAMBDA i, j : IF i = j THEN dg[i] ELSE IF j < i THEN lo[<<i, j>>] ELSE 0) :
            dg \in [1..n -> Diag], lo \in [LowerIdx(n) -> Off]}
AOf(n, L, d) == Mat(n, LAMBDA i, j : Sum(n, LAMBDA k : L[i][k] * L[j][k]) + (IF i = j THEN d ELSE 0))
BOf(n, L, c) == TLCEval([i \in 1..n |-> Sum(n, LAMBDA k : L[i][k] * c[k])])
Frob2(n, M) == Sum(n, LAMBDA i : Sum(n, LAMBDA j : M[i][j] * M[i][j]))

Starts(n) == {TLCEval([i \in 1..n |-> 0])} \cup [1..n -> {0 - Box, Box}]

FloorR(r) == r.n \div r.d
CeilR(r)  == 0 - ((0 - r.n) \div r.d)
IMin(a, b) == IF a < b THEN a ELSE b
IMax(a, b) == IF a < b THEN b ELSE a

(* constraint sets for a start s and an optimum xs (sequence of rationals) *)
BoxFor(n, s, xs) == [lo |-> [i \in 1..n |-> IMin(FloorR(xs[i]), s[i]) - 1],
                     hi |-> [i \in 1..n |-> IMax(CeilR(xs[i]), s[i]) + 1]]
HalfFor(n, s, xs) ==
  LET diff == {i \in 1..n : ~REq(RInt(s[i]), xs[i])} IN
  IF diff = {} THEN [has |-> FALSE, k |-> 1, t |-> RZero, side |-> 1]
  ELSE LET k == CHOOSE i \in diff : \A j \in diff : i <= j IN
       [has |-> TRUE, k |-> k, t |-> RDiv(RAdd(RInt(s[k]), xs[k]), RInt(2)),
        side |-> IF RLt(xs[k], RInt(s[k])) THEN 1 ELSE -1]          \* side 1: feasible iff x_k >= t
StartRecsFrom(S, n, xs) ==
                    LET sq == SetToSeq(S)
                    IN [i \in 1..Cardinality(S) |-> [x |-> sq[i], box |-> BoxFor(n, sq[i], xs), half |-> HalfFor(n, sq[i], xs)]]
StartRecs(n, xs) == StartRecsFrom(Starts(n), n, xs)

QuadCase(n, L, d, c) ==
  LET A == AOf(n, L, d)
      b == BOf(n, L, c)
      dt == Det(n, A)
      ad == Adj(n, A)
      xs == [i \in 1..n |-> Rat(Sum(n, LAMBDA j : ad[i][j] * b[j]), dt)]
  IN [kind |-> "quad", n |-> n, L |-> L, d |-> d, c |-> c, A |-> A, b |-> b, det |-> dt, adj |-> ad,
      xstar |-> xs, invb2 |-> Rat(Frob2(n, ad), dt * dt), lip2 |-> RInt(Frob2(n, A)), sc |-> TRUE,
      starts |-> StartRecs(n, xs)]
WellConditioned(q) == Frob2(q.n, q.A) * Frob2(q.n, q.adj) <= KappaMax * KappaMax * q.det * q.det
(* badly scaled quadratics for the option class "unreachable epsilon" (1e-12, 1e-14): L = [[1,0],[o,s]] with a *)
(* large s (condition number of A about s^2 >= 900) and a large c, so that the minimiser has magnitude >= 100 *)
(* and the gradient cannot be evaluated to 1e-12 in float64.  The exact minimiser is still rational.  A routine *)
(* that cannot reach epsilon must say so with an error (or stop at its cap): nil error needs stopOK.            *)
HardCase(o, sc, c) == [QuadCase(2, << <<1, 0>>, <<o, sc>> >>, 0, c) EXCEPT !.kind = "quadhard"]
HardCases == {HardCase(o, sc, c) : o \in {-1, 1}, sc \in {30, 50}, c \in {<<200, -300>>, <<300, 100>>}}
QuadCases == UNION {{QuadCase(n, L, d, c) : L \in Ls(n), d \in Shifts, c \in [1..n -> Cs]} : n \in 1..MaxDim}

(* certificate of optimality, exact *)
QuadCertificate(q) ==
  /\ \A i, j \in 1..q.n : q.A[i][j] = q.A[j][i]
  /\ \A k \in 1..q.n : Det(k, Lead(q.n, q.A, k)) > 0                        \* Sylvester: A is positive definite
  /\ \A i \in 1..q.n : REq(RSumSeq([j \in 1..q.n |-> RMul(RInt(q.A[i][j]), q.xstar[j])]), RInt(q.b[i]))   \* A x* = b
  /\ \A i \in 1..Len(q.starts) : LET s == q.starts[i] IN
       /\ \A k \in 1..q.n : /\ s.box.lo[k] < s.x[k] /\ s.x[k] < s.box.hi[k]
                            /\ RLt(RInt(s.box.lo[k]), q.xstar[k]) /\ RLt(q.xstar[k], RInt(s.box.hi[k]))
       /\ s.half.has => LET k == s.half.k IN
            IF s.half.side = 1 THEN RLt(q.xstar[k], s.half.t) /\ RLt(s.half.t, RInt(s.x[k]))
            ELSE RLt(s.half.t, q.xstar[k]) /\ RLt(RInt(s.x[k]), s.half.t)

HardCertificate(q) == /\ QuadCertificate(q)
                      /\ Frob2(q.n, q.A) >= 810000                                   \* ||A||_F >= 900
                      /\ \E i \in 1..q.n : RAbs(q.xstar[i].n) >= 100 * q.xstar[i].d    \* |x*_i| >= 100

(* --------------------------- the other families ------------------------ *)
Ms == {Rat(-3, 2), Rat(1, 3), RInt(2)}
SepCase(n, m, k) == [kind |-> "sepconv", n |-> n, m |-> m, k |-> k, xstar |-> m, invb2 |-> Rat(1, 4),
                     lip2 |-> IF \A i \in 1..n : k[i] = 0 THEN RInt(4) ELSE RZero,    \* 0: no global Lipschitz bound
                     sc |-> TRUE, starts |-> StartRecs(n, m)]
SepCases == UNION {{SepCase(n, m, k) : m \in [1..n -> Ms], k \in [1..n -> {0, 1}]} : n \in 1..IMin(MaxDim, 2)}

(* pure quartics: strictly but not strongly convex (singular Hessian at the minimiser m): Newton and the     *)
(* quasi-Newton methods converge only linearly, so the last iterates approach the stopping threshold slowly *)
QuarticCase(n, m) == [kind |-> "quartic", n |-> n, m |-> m, k |-> [i \in 1..n |-> 1], xstar |-> m, invb2 |-> RZero,
                      lip2 |-> RZero, sc |-> FALSE, starts |-> StartRecs(n, m)]
QuarticCases == UNION {{QuarticCase(n, m) : m \in [1..n -> Ms]} : n \in 1..IMin(MaxDim, 2)}

(* objectives with a BOUNDED DOMAIN: outside of it value and every partial derivative are NaN.  A routine   *)
(* whose iterate leaves the domain must fail (error / panic) or come back; a point outside the domain never   *)
(* meets a stopping condition.                                                                                 *)
(* bowl   f(x) = -sqrt(R^2 - |x - c|^2) on the open ball |x - c| < R: gradient (x-c)/sqrt(R^2-|x-c|^2), zero   *)
(*        only at c; Hessian >= I/R, so |x - c| <= R |grad f(x)|; curvature at the centre 1/R (lip2, used for  *)
(*        the step sizes of gradient descent: steps R/2, R, 3R/2 leave the ball from the starts near the rim). *)
(* xlogx  f(x) = x log x - x on x > 0: f' = log x, minimiser 1.                                                *)
BowlStarts(n, c) == IF n = 1 THEN {<<c[1] + 3>>, <<c[1] - 4>>, <<c[1]>>}
                    ELSE {<<c[1] + 3, c[2] + 2>>, <<c[1] + 4, c[2] + 2>>, <<c[1] - 4, c[2] - 2>>, <<c[1], c[2]>>, <<c[1], c[2] - 4>>}
BowlCase(n, c) == LET cs == [i \in 1..n |-> RInt(c[i])] IN
  [kind |-> "bowl", n |-> n, m |-> cs, rad |-> 5, xstar |-> cs, invb2 |-> RInt(25), lip2 |-> Rat(1, 25), sc |-> TRUE,
   starts |-> StartRecsFrom(BowlStarts(n, c), n, cs)]
BowlCases == {BowlCase(1, <<0>>), BowlCase(1, <<2>>), BowlCase(2, <<0, 0>>), BowlCase(2, <<1, -2>>)}
BowlCertificate(b) == \A i \in 1..Len(b.starts) :                        \* every start lies strictly inside the ball
                        Sum(b.n, LAMBDA k : (b.starts[i].x[k] - b.m[k].n) * (b.starts[i].x[k] - b.m[k].n)) < b.rad * b.rad
XlogxCase == [kind |-> "xlogx", n |-> 1, xstar |-> <<ROne>>, invb2 |-> RZero, lip2 |-> Rat(1, 9), sc |-> FALSE,
              starts |-> StartRecsFrom({<<3>>, <<2>>, <<5>>}, 1, <<ROne>>)]
XlogxCertificate(c) == \A i \in 1..Len(c.starts) : c.starts[i].x[1] > 0

(* lattice  "the unconstrained minimiser lies just outside the feasible set and is reached EXACTLY by the     *)
(* routine's step lattice": f(x) = w sum_i (x_i - m_i)^2, start x0 (integers), half-space through the midpoint   *)
(* of x0 and m in the first coordinate (feasible: the start's side).  The sign-based routines move every          *)
(* coordinate by the same amount: rprop.RunGradient by step, step eta0, step eta0^2, ...; rprop.Run by step eta0, *)
(* step eta0^2, ... (its first comparison is against a positive placeholder gradient and x0 > m); Adam's first    *)
(* step is alpha g/(|g| + 1e-8), i.e. alpha up to a relative 1e-8/|g| (|g| = 2 w alpha >= 0.1: the residual        *)
(* gradient 1e-8 is far below every epsilon).  m is the K-th lattice point (K = 1, 2); TLC certifies the lattice  *)
(* distance over the rationals and that the lattice points before m are feasible and m is not.  The trial point   *)
(* m has a gradient below epsilon but violates the constraint: it must never be returned with a nil error.        *)
LatticePoint(x0, first, eta, j) == \* x0 - first (1 + eta + ... + eta^(j-1))
  RSub(RInt(x0), RMul(first, RSumSeq([i \in 1..j |-> RPow(eta, i - 1)])))
LatticeCase(n, x0, routine, variant, step, first, eta, K, w) ==
  LET m == [i \in 1..n |-> LatticePoint(x0, first, eta, K)]
      st == {[i \in 1..n |-> x0]}
  IN [kind |-> "lattice", n |-> n, m |-> m, w |-> w, k |-> [i \in 1..n |-> 0], xstar |-> m,
      for |-> routine, variant |-> variant, step |-> step, first |-> first, eta |-> eta, latk |-> K, x0 |-> x0,
      invb2 |-> Rat(1, 4 * w * w), lip2 |-> RInt(4 * w * w), sc |-> TRUE, starts |-> StartRecsFrom(st, n, m)]
Etas == {<<"2/0.1", RInt(2)>>, <<"1.5/0.8", Rat(3, 2)>>, <<"1.2/0.5", Rat(6, 5)>>}
LatticeCases ==
  {LatticeCase(n, 3, "rprop.gradient", e[1], ROne, ROne, e[2], K, 1) : n \in {1, 2}, e \in Etas, K \in {1, 2}}
  \cup {LatticeCase(n, 3, "rprop", e[1], ROne, e[2], e[2], K, 1) : n \in {1, 2}, e \in Etas, K \in {1, 2}}
  \cup {LatticeCase(n, 2, "adam.gradient", "", Rat(1, 1000), Rat(1, 1000), ROne, 1, 50) : n \in {1, 2}}
  \cup {LatticeCase(n, 2, "adam", "0.05", Rat(1, 20), Rat(1, 20), ROne, 1, 1) : n \in {1, 2}}
LatticeCertificate(c) ==
  LET h == c.starts[1].half IN
  /\ Len(c.starts) = 1 /\ h.has /\ h.k = 1 /\ h.side = 1                 \* feasible: x_1 >= t
  /\ \A i \in 1..c.n : REq(c.m[i], LatticePoint(c.x0, c.first, c.eta, c.latk))          \* m is the K-th lattice point ...
  /\ RLt(c.m[1], h.t)                                                     \* ... and infeasible,
  /\ \A j \in 0..(c.latk - 1) : RLt(h.t, LatticePoint(c.x0, c.first, c.eta, j))         \* the lattice points before it are feasible
  /\ 20 * c.w * c.step.n >= c.step.d                                      \* |g(x0)| = 2 w |x0 - p_1| >= 0.1 for Adam (step = alpha)

DataSets == {<< <<1>> >>, << <<1>>, <<2>> >>, << <<1, 0>>, <<1, 1>> >>, << <<1, -1>>, <<2, 1>>, <<0, 1>> >>}
Lambdas == {Rat(1, 10), ROne}
Shifts2 == {<<0, 0>>, <<1, -2>>}
LogCase(a, lam, m) ==
  LET n == Len(a[1])
      ms == [i \in 1..n |-> RInt(m[i])]
      s2 == RSumSeq([i \in 1..Len(a) |-> RInt(Sum(n, LAMBDA j : a[i][j] * a[i][j]))])
      lip == RAdd(RDiv(s2, RInt(2)), lam)
  IN [kind |-> "logistic", n |-> n, data |-> a, lambda |-> lam, m |-> ms, xstar |-> ms,
      invb2 |-> RDiv(ROne, RMul(lam, lam)), lip2 |-> RMul(lip, lip), sc |-> TRUE, starts |-> StartRecs(n, ms)]
LogCases == {LogCase(a, lam, m) : a \in DataSets, lam \in Lambdas, m \in Shifts2}

RosenCase(a, b) == LET xs == <<RInt(a), RInt(a * a)>> IN
  [kind |-> "rosen", n |-> 2, ra |-> a, rb |-> b, xstar |-> xs, invb2 |-> RZero, lip2 |-> RZero, sc |-> FALSE,
   starts |-> StartRecs(2, xs)]
RosenCases == {RosenCase(a, b) : a \in {1, 2}, b \in {1, 10, 100}}

(* polynomial systems with planted roots: F(r) = 0 is checked on the model *)
Pow(x, k) == IF k = 2 THEN x * x ELSE x * x * x
Poly1Case(a, k) == [kind |-> "polyroot", n |-> 1, form |-> "power", ra |-> a, rb |-> 0, deg |-> k,
                    roots |-> IF k = 2 THEN << <<a>>, <<0 - a>> >> ELSE << <<a>> >>,
                    xstar |-> <<RInt(a)>>, invb2 |-> RZero, lip2 |-> RZero, sc |-> FALSE, starts |-> StartRecs(1, <<RInt(a)>>)]
Poly2Case(a, b) == [kind |-> "polyroot", n |-> 2, form |-> "pair", ra |-> a, rb |-> b, deg |-> 2,
                    roots |-> << <<a, b>>, <<0 - a, 0 - b>> >>,
                    xstar |-> <<RInt(a), RInt(b)>>, invb2 |-> RZero, lip2 |-> RZero, sc |-> FALSE,
                    starts |-> StartRecs(2, <<RInt(a), RInt(b)>>)]
PolyCases == {Poly1Case(a, k) : a \in {1, 2}, k \in {2, 3}} \cup {Poly2Case(a, b) : a \in {1, 2}, b \in {-1, 2}}
PolyResidual(p, r) == IF p.form = "power" THEN <<Pow(r[1], p.deg) - Pow(p.ra, p.deg)>>
                      ELSE <<r[1] * r[1] - p.ra * p.ra, r[1] * r[2] - p.ra * p.rb>>
PolyCertificate(p) == \A i \in 1..Len(p.roots) : \A j \in 1..p.n : PolyResidual(p, p.roots[i])[j] = 0

(* channels: W[x][y] = P(y | x) *)
Bsc(e) == << <<RSub(ROne, e), e>>, <<e, RSub(ROne, e)>> >>
Bec(e) == << <<RSub(ROne, e), e, RZero>>, <<RZero, e, RSub(ROne, e)>> >>
Cyc3(a, b) == LET c == RSub(ROne, RAdd(a, b)) IN << <<a, b, c>>, <<c, a, b>>, <<b, c, a>> >>
Channels == {[name |-> "bsc", W |-> Bsc(e)] : e \in {Rat(1, 10), Rat(1, 4), Rat(2, 5)}}
       \cup {[name |-> "bec", W |-> Bec(e)] : e \in {Rat(1, 4), Rat(1, 2)}}
       \cup {[name |-> "cyc3", W |-> Cyc3(Rat(1, 2), Rat(1, 3))], [name |-> "cyc3", W |-> Cyc3(Rat(7, 10), Rat(1, 5))]}
(* start distributions, one of them with an exact zero entry (the iteration then stays on that face) *)
P0s(n) == IF n = 2 THEN {<<Rat(1, 2), Rat(1, 2)>>, <<Rat(1, 4), Rat(3, 4)>>, <<Rat(9, 10), Rat(1, 10)>>, <<RZero, ROne>>}
          ELSE {<<Rat(1, 3), Rat(1, 3), Rat(1, 3)>>, <<Rat(1, 2), Rat(1, 4), Rat(1, 4)>>, <<Rat(1, 10), Rat(1, 5), Rat(7, 10)>>,
                <<RZero, Rat(1, 2), Rat(1, 2)>>}
(* NON-SQUARE channels with exactly known capacity-achieving input: a symmetric base channel B whose output      *)
(* columns are split into proportional columns (W[x][y] = ts[y] B[x][cm[y]], a sufficient statistic: the mutual  *)
(* information is that of B for every input distribution) and / or whose input rows are duplicated (rm); the     *)
(* split fractions differ between the columns, so no output column can be dropped without changing the result.  *)
Ident(n) == [i \in 1..n |-> i]
SplitDup(B, rm, cm, ts) == [x \in 1..Len(rm) |-> [y \in 1..Len(cm) |-> RMul(ts[y], B[rm[x]][cm[y]])]]
NonSquare ==
  {[name |-> "bsc_split_2x3", base |-> Bsc(e), rm |-> <<1, 2>>, cm |-> <<1, 2, 2>>, ts |-> <<ROne, Rat(1, 3), Rat(2, 3)>>,
    pstar |-> <<Rat(1, 2), Rat(1, 2)>>] : e \in {Rat(1, 10), Rat(1, 4)}}
  \cup {[name |-> "bsc_split_2x4", base |-> Bsc(Rat(1, 5)), rm |-> <<1, 2>>, cm |-> <<1, 1, 2, 2>>,
         ts |-> <<Rat(1, 4), Rat(3, 4), Rat(1, 3), Rat(2, 3)>>, pstar |-> <<Rat(1, 2), Rat(1, 2)>>]}
  \cup {[name |-> "cyc3_split_3x5", base |-> Cyc3(Rat(1, 2), Rat(1, 3)), rm |-> <<1, 2, 3>>, cm |-> <<1, 2, 2, 3, 3>>,
         ts |-> <<ROne, Rat(1, 4), Rat(3, 4), Rat(1, 2), Rat(1, 2)>>, pstar |-> <<Rat(1, 3), Rat(1, 3), Rat(1, 3)>>]}
  \cup {[name |-> "bsc_dup_3x2", base |-> Bsc(Rat(1, 10)), rm |-> <<1, 1, 2>>, cm |-> <<1, 2>>, ts |-> <<ROne, ROne>>,
         pstar |-> <<Rat(1, 4), Rat(1, 4), Rat(1, 2)>>]}
AllChannels == {[name |-> ch.name, W |-> ch.W, base |-> ch.W, rm |-> Ident(Len(ch.W)), cm |-> Ident(Len(ch.W[1])),
                 pstar |-> [x \in 1..Len(ch.W) |-> Rat(1, Len(ch.W))]] : ch \in Channels}
          \cup {[name |-> r.name, W |-> SplitDup(r.base, r.rm, r.cm, r.ts), base |-> r.base, rm |-> r.rm, cm |-> r.cm, pstar |-> r.pstar] : r \in NonSquare}
ChanCase(ch) ==
  LET nx == Len(ch.W)
      ny == Len(ch.W[1])
      u == ch.pstar
  IN [kind |-> "channel", name |-> ch.name, nx |-> nx, ny |-> ny, W |-> ch.W, pstar |-> u,
      base |-> ch.base, rm |-> ch.rm, cm |-> ch.cm,
      qstar |-> [y \in 1..ny |-> RSumSeq([x \in 1..nx |-> RMul(u[x], ch.W[x][y])])],
      \* admissible starts: every output symbol keeps positive probability (else the posterior q(x|y) is 0/0)
      p0s |-> SetToSeq({p \in P0s(nx) : \A y \in 1..ny : ~RIsZero(RSumSeq([x \in 1..nx |-> RMul(p[x], ch.W[x][y])]))}),
      steps |-> <<1, 10, 200>>,
      \* the relaxation option Lambda on both sides of 1 (1: plain Blahut-Arimoto, the only value with a rate bound)
      lambdas |-> <<Rat(1, 2), ROne, Rat(5, 4), Rat(3, 2)>>]
ChanCases == {ChanCase(ch) : ch \in AllChannels}
Perms(n) == {f \in [1..n -> 1..n] : \A i, j \in 1..n : i # j => f[i] # f[j]}
ChanCertificate(c) ==
  /\ \A x \in 1..c.nx : REq(RSumSeq(c.W[x]), ROne) /\ \A y \in 1..c.ny : ~RLt(c.W[x][y], RZero)
  /\ REq(RSumSeq(c.qstar), ROne)
  /\ LET B == c.base  nb == Len(c.base)  mb == Len(c.base[1]) IN
     \* merging the proportional output columns and the duplicated input rows yields the base channel ...
     /\ \A x \in 1..c.nx, k \in 1..mb :
          REq(RSumSeq([y \in 1..c.ny |-> IF c.cm[y] = k THEN c.W[x][y] ELSE RZero]), B[c.rm[x]][k])
     /\ \A y \in 1..c.ny, x1 \in 1..c.nx, x2 \in 1..c.nx :
          REq(RMul(c.W[x1][y], B[c.rm[x2]][c.cm[y]]), RMul(c.W[x2][y], B[c.rm[x1]][c.cm[y]]))
     \* ... on which the printed input distribution is uniform ...
     /\ \A k \in 1..nb : REq(RSumSeq([x \in 1..c.nx |-> IF c.rm[x] = k THEN c.pstar[x] ELSE RZero]), Rat(1, nb))
     \* ... and which has a transitive family of symmetries: for every input x there is a symmetry moving input 1 to x
     /\ \A x0 \in 1..nb : \E s \in Perms(nb), t \in Perms(mb) :
          /\ s[1] = x0
          /\ \A x \in 1..nb, y \in 1..mb : REq(B[s[x]][t[y]], B[x][y])

(* ------------------------- option combinations ------------------------- *)
Options == [kind |-> "options",
            combos |-> SetToSeq([epsexp : {6, 10}, maxit : {3, -1}, hookstop : {-1, 0, 1, 3}, cons : {"none", "box", "half"}]),
            \* the storage of the START VECTOR: result and stopping condition must not depend on it (the start points
            \* are integer vectors, exactly representable in every element type)
            starttypes |-> <<"float64", "real64", "float32", "real32", "int", "int64", "int32", "int16", "int8",
                             "sparse_float64", "sparse_real64", "sparse_int", "sparse_int16">>]

(* ------------------------------ enumeration ---------------------------- *)
Init == \/ case \in {q \in QuadCases : WellConditioned(q)}
        \/ case \in HardCases
        \/ case \in SepCases
        \/ case \in QuarticCases
        \/ case \in LogCases
        \/ case \in RosenCases
        \/ case \in BowlCases
        \/ case = XlogxCase
        \/ case \in LatticeCases
        \/ case \in PolyCases
        \/ case \in ChanCases
        \/ case = Options
Next == UNCHANGED case
Spec == Init /\ [][Next]_case

Certificates ==
  CASE case.kind = "quad" -> QuadCertificate(case)
    [] case.kind = "quadhard" -> HardCertificate(case)
    [] case.kind = "polyroot" -> PolyCertificate(case)
    [] case.kind = "channel" -> ChanCertificate(case)
    [] case.kind = "bowl" -> BowlCertificate(case)
    [] case.kind = "xlogx" -> XlogxCertificate(case)
    [] case.kind = "lattice" -> LatticeCertificate(case)
    [] OTHER -> TRUE
(* the printed minimiser of the separable / logistic / Rosenbrock families is the planted parameter *)
Emit == PrintT(ToJson(case))
=============================================================================
