------------------------------ MODULE FrameTrace ------------------------------
(***************************************************************************)
(* Trace validation (code -> model) for C12 part B.                        *)
(* harness/cmd/copysem `frame' logs one event per executed call:           *)
(*   entry, op, mode, opts, outcome ("ok" | "error" | "panic"),            *)
(*   roles : [role, changed]   changed = the digest of that argument       *)
(*           (bit patterns of all elements, derivatives, order/N,          *)
(*           dimensions, concrete type) differs before / after the call    *)
(* An event is accepted iff every changed role is in MayModify(entry,mode) *)
(* of FrameConditions (the state after a panic is not specified).  The     *)
(* first event that breaks its frame condition stops the trace.            *)
(***************************************************************************)
EXTENDS FrameConditions

Trace == ndJsonDeserialize("frame_trace.ndjson")

VARIABLE l
tvars == <<c, l>>

Known == AllEntries \cup {OpEntry("matrix.op"), OpEntry("scalar.op")}
EntryOf(ev) == CHOOSE e \in Known : e.name = ev.entry
EventOK(ev) ==
  /\ \E e \in Known : e.name = ev.entry
  /\ ev.mode \in EntryOf(ev).modes
  /\ \/ ev.outcome = "panic"
     \/ \A i \in 1..Len(ev.roles) :
          ev.roles[i].changed => ev.roles[i].role \in Rng(MayModify(EntryOf(ev), ev.mode))
  /\ \/ ev.outcome = "panic"
     \/ ev.shared = <<>>      \* logged pairs of roles (IS~input, source~clone) whose share set was not empty

TStep == /\ l <= Len(Trace)
         /\ EventOK(Trace[l])
         /\ l' = l + 1 /\ UNCHANGED c
TraceInit == c = 0 /\ l = 1
TraceSpec == TraceInit /\ [][TStep]_tvars

TraceAccepted ==
  IF TLCGet("stats").diameter - 1 = Len(Trace) THEN TRUE
  ELSE Print(<<"TRACE_REJECTED_AT", TLCGet("stats").diameter, "OF", Len(Trace)>>, FALSE)
=============================================================================
