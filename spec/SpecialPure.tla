------------------------------ MODULE SpecialPure ------------------------------
(***************************************************************************)
(* C13 - "a special function is a function of its arguments only".          *)
(*                                                                         *)
(* Contract: the value returned for (f, args) does not depend on what was   *)
(* evaluated before, or is being evaluated at the same time, in the same    *)
(* process.  The only way the implementation could break it is hidden       *)
(* state: tables built lazily on first use (Boost keeps the coefficient     *)
(* rows of the derivatives of cot(pi x), the Bernoulli numbers, ... in such *)
(* caches, guarded by a lock).  This module states what a lazily extended   *)
(* table must satisfy and shows what goes wrong without the guard; it is    *)
(* the model behind the "pure" families of SpecialDefs.tla, which the       *)
(* driver executes in fresh processes sequentially (forward / backward) and *)
(* from several goroutines at once, requiring bit-identical results.        *)
(*                                                                         *)
(* Model: row k of the table is needed by a request of order k.  A correct   *)
(* row k is [ord |-> k, acc |-> 1]: it belongs to order k and every          *)
(* contribution was accumulated into it exactly once.  An evaluator extends  *)
(* the table row by row up to its order (read length, append an empty row,   *)
(* accumulate into it) and then reads row k.  With Locked the extension is   *)
(* one critical section; without it the three steps interleave.              *)
(***************************************************************************)
EXTENDS Integers, Sequences, TLC

CONSTANTS Evaluators,   \* e.g. {1, 2}
          Orders,       \* orders that may be requested, e.g. {2, 3}
          Locked        \* TRUE: the table extension is guarded

VARIABLES tab,    \* the shared table: sequence of [ord, acc]
          pc,     \* pc[e] in {"idle", "len", "append", "acc", "read", "done"}
          want,   \* want[e]: requested order
          i,      \* i[e]: the length read by e (local copy)
          res,    \* res[e]: the row e finally used
          lock    \* 0 or the evaluator holding the lock

vars == <<tab, pc, want, i, res, lock>>
Row(k) == [ord |-> k, acc |-> 1]
NoRow  == [ord |-> 0, acc |-> 0]

Init == /\ tab = <<Row(1)>>                     \* order 1 is tabulated in the code
        /\ pc = [e \in Evaluators |-> "idle"]
        /\ want \in [Evaluators -> Orders]
        /\ i = [e \in Evaluators |-> 0]
        /\ res = [e \in Evaluators |-> NoRow]
        /\ lock = 0

Free(e) == ~Locked \/ lock = e
Begin(e) == /\ pc[e] = "idle" /\ (Locked => lock = 0)
            /\ lock' = IF Locked THEN e ELSE lock
            /\ pc' = [pc EXCEPT ![e] = "len"]
            /\ UNCHANGED <<tab, want, i, res>>
ReadLen(e) == /\ pc[e] = "len" /\ Free(e)
              /\ i' = [i EXCEPT ![e] = Len(tab)]
              /\ pc' = [pc EXCEPT ![e] = IF Len(tab) >= want[e] THEN "read" ELSE "append"]
              /\ UNCHANGED <<tab, want, res, lock>>
AppendRow(e) == /\ pc[e] = "append" /\ Free(e)
                /\ tab' = Append(tab, [ord |-> i[e] + 1, acc |-> 0])
                /\ pc' = [pc EXCEPT ![e] = "acc"]
                /\ UNCHANGED <<want, i, res, lock>>
Accumulate(e) == /\ pc[e] = "acc" /\ Free(e)
                 /\ tab' = [tab EXCEPT ![i[e] + 1].acc = @ + 1]
                 /\ pc' = [pc EXCEPT ![e] = "len"]
                 /\ UNCHANGED <<want, i, res, lock>>
ReadRow(e) == /\ pc[e] = "read" /\ Free(e)
              /\ res' = [res EXCEPT ![e] = tab[want[e]]]
              /\ pc' = [pc EXCEPT ![e] = "done"]
              /\ lock' = IF Locked THEN 0 ELSE lock
              /\ UNCHANGED <<tab, want, i>>
Next == \E e \in Evaluators : Begin(e) \/ ReadLen(e) \/ AppendRow(e) \/ Accumulate(e) \/ ReadRow(e)
Spec == Init /\ [][Next]_vars

(* the value an evaluator obtains is the function of its argument, whatever the others do *)
Pure == \A e \in Evaluators : pc[e] = "done" => res[e] = Row(want[e])
(* and the table never holds a wrong row once nobody is extending it (history independence) *)
TableSound == (\A e \in Evaluators : pc[e] \in {"idle", "done"}) => \A k \in 1..Len(tab) : tab[k] = Row(k)
=============================================================================
