---------------------------- MODULE CopySemantics ----------------------------
(***************************************************************************)
(* CONTRACT layer for C12, part A: "copies are independent".               *)
(*                                                                         *)
(* A HEAP model of the autodiff containers.  Every scalar slot that a      *)
(* program can observe is a CELL  mem[c] = [v, d]  (v = value, d = the     *)
(* abstract derivative state of a Real scalar, see DerCode below).  An     *)
(* OBJECT (scalar, vector, matrix, iterator) is a header  [k, r, c, cells] *)
(* whose `cells' lists, in row-major order of the object's own             *)
(* coordinates, the cells it denotes.  Every constructor-like operation    *)
(* of the public API is classified BY THE DOCUMENTATION (README tables,    *)
(* doc comments of vector.go / matrix.go / scalar.go), never by the code:  *)
(*                                                                         *)
(*   copy      Clone*, As{Dense,Sparse}<T>{Vector,Matrix} ("Convert vector *)
(*             type", the property text: "Clone and As-conversion results  *)
(*             are deep copies"), ConvertScalar to another type, Row, Col  *)
(*             (README: "Returns a copy of the ith row"), iterator Clone   *)
(*             (its POSITION is a copy; the container stays shared)        *)
(*             -> FRESH cells holding the same content, same dimensions    *)
(*   reference Slice, T ("Return a slice", "Returns a transposed matrix":  *)
(*             views, C10), At/MagicAt (README: "return a reference to     *)
(*             the scalar"), iterators                                     *)
(*             -> the SAME cells under a new header                        *)
(*   probe     Diag, AsVector, AsMatrix, ConstRow, ConstCol: the content   *)
(*             of the result is specified, whether it shares storage is    *)
(*             not documented (DESIGN 3.6) -> compared at creation only,   *)
(*             never kept                                                  *)
(*                                                                         *)
(* Mutators write cells (or, for Append, give the object a fresh cell).    *)
(* The contract "a later mutation of either object is never visible        *)
(* through the other" is then the heap invariant  CopiesDisjoint  plus     *)
(* the frame assertion in Next: a mutation through object s changes the    *)
(* content of no object outside the reference closure of s.                *)
(*                                                                         *)
(* Effect(O, M, st) is the single definition of what a call does; it is    *)
(* used by Next (enumeration with the guards of Legal, transition mode:    *)
(* every transition of the canonical state graph is printed as a call      *)
(* history with the content of EVERY live object after the last call) and  *)
(* by CopySemanticsTrace.tla (validation of recorded real histories).      *)
(***************************************************************************)
EXTENDS Integers, Sequences, FiniteSets, TLC, Json

CONSTANTS Fam,      \* "sca" | "vec" | "mat" | "avl" : family of the first object
          Mode,     \* "heap": derivations, then mutations (copies, views, conversions)
                    \* "iter": iterator protocol - iterators, joint iterators, safe (snapshot) iterators and
                    \*         their clones may be made at any time, in between Next() calls on any of them
          Pat,      \* "z": initial content with zero cells, zero writes, Reset, no iterators
                    \* "f": all cells non-zero, no zero writes, iterators enabled
          MaxObj,   \* live objects
          MaxMut,   \* mutations after the first derivation
          Emit      \* print the cases

VARIABLES objs,     \* sequence of object headers (index = object id)
          mem,      \* sequence of cells
          ph,       \* [pre, nm] : bookkeeping of the enumeration discipline
          hist      \* call history (outside the VIEW)

vars == <<objs, mem, ph, hist>>
View == <<objs, mem, ph>>

Cell(v, d) == [v |-> v, d |-> d]
Obj(k, of, r, c, cells, fl, pt, cls, src, pos, via, c2, uses) ==
  [k |-> k, of |-> of, r |-> r, c |-> c, cells |-> cells, fl |-> fl, pt |-> pt,
   cls |-> cls, src |-> src, pos |-> pos, via |-> via, c2 |-> c2, uses |-> uses]
   \* c2   = cells of the second operand of a joint iterator
   \* uses = the STORAGE reachable from the object, named by the object that allocated it: every
   \*        copy-class call and every iterator (its cursor) allocates storage of its own (backing
   \*        arrays, maps, index trees, scratch vectors, derivative slices); views and element
   \*        references allocate a header of their own and reach what their source reaches.
   \*        ShareSet(a, b) = uses(a) \cap uses(b) is all that two live objects may have in common.
   \* via = the call that made the object: Clone and As<same type> reach the same heap, but are different
   \* code paths, so they must remain different states of the enumeration
St(op, s, a, b, c, d, w) == [op |-> op, s |-> s, a |-> a, b |-> b, c |-> c, d |-> d, w |-> w]

(* ---- abstract derivative state -----------------------------------------
   d = 0           order 0, N = 0 (a constant)
   d = 100*N + q   order 2, N variables;  q = 0: all derivatives zero;
                   q = 1..N: the q-th unit gradient, zero Hessian (what
                   Variables(2) / SetVariable(q-1, N, 2) produce);
                   q = 50+k: gradient (k,0,..), Hessian[0][1] = k (written with
                   SetDerivative / SetHessian).
   "Set the value ... All derivatives are reset to zero" (SetFloat64 & co, Reset):
   the allocation stays, the entries become zero.                            *)
Zeroed(d) == IF d = 0 THEN 0 ELSE (d \div 100) * 100
DerPat(k) == 250 + k

(* ---- header arithmetic --------------------------------------------------- *)
NC(o) == Len(o.cells)
CellAt(o, i, j) == o.cells[i * o.c + j + 1]                       \* 0-based (i,j)
TCells(o)      == [p \in 1..NC(o) |-> CellAt(o, (p-1) % o.r, (p-1) \div o.r)]
SliceCells(o, r0, r1, c0, c1) ==
  [p \in 1..((r1-r0)*(c1-c0)) |-> CellAt(o, r0 + ((p-1) \div (c1-c0)), c0 + ((p-1) % (c1-c0)))]
RowCells(o, i) == [j \in 1..o.c |-> CellAt(o, i, j-1)]
ColCells(o, j) == [i \in 1..o.r |-> CellAt(o, i-1, j)]
DiagCells(o)   == [i \in 1..o.r |-> CellAt(o, i-1, i-1)]
Vals(M, cs)    == [p \in 1..Len(cs) |-> M[cs[p]].v]
Ders(M, cs)    == [p \in 1..Len(cs) |-> M[cs[p]].d]
Fresh(M, n)    == [p \in 1..n |-> Len(M) + p]

(* the gradient of a scalar as a read-only vector (DenseGradient{s}): N entries read from the       *)
(* derivative state of the scalar's cell                                                          *)
Grad(d) == IF d = 0 THEN <<>>
           ELSE LET N == d \div 100  q == d % 100 IN
                [i \in 1..N |-> IF q >= 1 /\ q <= N /\ i = q THEN 1 ELSE IF q > 50 /\ i = 1 THEN q - 50 ELSE 0]
Content(O, M, x) ==
  IF O[x].k = "g"
  THEN LET g == Grad(M[O[x].cells[1]].d) IN
       [k |-> "g", of |-> "", r |-> 1, c |-> Len(g), fl |-> O[x].fl, pt |-> O[x].pt, pos |-> 0,
        v |-> g, d |-> [i \in 1..Len(g) |-> 0], v2 |-> <<>>]
  ELSE
  [k |-> O[x].k, of |-> O[x].of, r |-> O[x].r, c |-> O[x].c, fl |-> O[x].fl, pt |-> O[x].pt,
   pos |-> O[x].pos, v |-> Vals(M, O[x].cells), d |-> Ders(M, O[x].cells), v2 |-> Vals(M, O[x].c2)]
AllContent(O, M) == [x \in 1..Len(O) |-> Content(O, M, x)]

(* content of position p after the move = content of position f[p] before *)
Permuted(M, cs, f) ==
  [x \in 1..Len(M) |->
     IF \E p \in 1..Len(cs) : cs[p] = x
     THEN M[cs[f[CHOOSE p \in 1..Len(cs) : cs[p] = x]]] ELSE M[x]]
Rank(M, cs, q) == 1 + Cardinality({x \in 1..Len(cs) : M[cs[x]].v < M[cs[q]].v})

AddCopy(O, M, s, k, r, c, cs, fl, pt, keepd, via) ==
  [O |-> Append(O, Obj(k, "", r, c, Fresh(M, Len(cs)), fl, pt, "copy", s, 0, via, <<>>, {Len(O) + 1})),
   M |-> M \o [p \in 1..Len(cs) |-> Cell(M[cs[p]].v, IF keepd THEN M[cs[p]].d ELSE 0)],
   res |-> <<>>]
AddRef(O, M, s, k, of, r, c, cs, pos, via) ==
  [O |-> Append(O, Obj(k, of, r, c, cs, O[s].fl, O[s].pt, "ref", s, pos, via, <<>>,
                       {Len(O) + 1} \cup O[s].uses)), M |-> M, res |-> <<>>]
(* an iterator that owns a snapshot of the tree ("safe"): copy class *)
AddSnap(O, M, s, cs, pos, via) ==
  [O |-> Append(O, Obj("i", "t", 1, Len(cs), Fresh(M, Len(cs)), O[s].fl, O[s].pt, "copy", s, pos, via, <<>>, {Len(O) + 1})),
   M |-> M \o [p \in 1..Len(cs) |-> Cell(M[cs[p]].v, 0)], res |-> <<>>]
Below(M, cs, key) == Cardinality({p \in 1..Len(cs) : M[cs[p]].v < key})
Probe(O, M, cs) == [O |-> O, M |-> M, res |-> Vals(M, cs)]
Wr(O, M2) == [O |-> O, M |-> M2, res |-> <<>>]
OnCells(M, cs, F(_)) == [x \in 1..Len(M) |-> IF \E p \in 1..Len(cs) : cs[p] = x THEN F(M[x]) ELSE M[x]]

(* ---- what every call does ------------------------------------------------ *)
Effect(O, M, st) ==
  LET o  == O[st.s]
      n  == NC(o)
      op == st.op
  IN
  CASE op \in {"clone", "asSame"} ->
         LET e == AddCopy(O, M, st.s, o.k, o.r, o.c, o.cells, o.fl, o.pt, TRUE, op) IN
         IF o.k = "c"     \* a constant vector has no mutator: its clone may keep the (read-only) storage of its source
         THEN [e EXCEPT !.O[Len(e.O)].uses = @ \cup o.uses] ELSE e
    [] op = "asConst" -> AddCopy(O, M, st.s, "c", o.r, o.c, o.cells, o.fl, o.pt, FALSE, op)   \* AsSparseConst<T>Vector: read-only copy
    [] op = "grad"    -> AddRef(O, M, st.s, "g", "", 1, 1, o.cells, 0, op)                     \* DenseGradient{s}: follows the scalar
    [] op = "asFlip"  -> AddCopy(O, M, st.s, o.k, o.r, o.c, o.cells, ~o.fl, o.pt, TRUE, op)
    [] op = "asType"  -> AddCopy(O, M, st.s, o.k, o.r, o.c, o.cells, o.fl, ~o.pt, FALSE, op)
    [] op = "row"     -> AddCopy(O, M, st.s, "v", 1, o.c, RowCells(o, st.a), o.fl, o.pt, TRUE, op)
    [] op = "col"     -> AddCopy(O, M, st.s, "v", 1, o.r, ColCells(o, st.a), o.fl, o.pt, TRUE, op)
    [] op = "slice"   -> AddRef(O, M, st.s, "v", "", 1, st.b - st.a, SubSeq(o.cells, st.a + 1, st.b), 0, op)
    [] op = "mslice"  -> AddRef(O, M, st.s, "m", "", st.b - st.a, st.d - st.c,
                                SliceCells(o, st.a, st.b, st.c, st.d), 0, op)
    [] op = "T"       -> AddRef(O, M, st.s, "m", "", o.c, o.r, TCells(o), 0, op)
    [] op = "elem"    -> AddRef(O, M, st.s, "s", "", 1, 1, <<CellAt(o, st.a, st.b)>>, 0, op)
    [] op = "iter"    -> AddRef(O, M, st.s, "i", o.k, o.r, o.c, o.cells, 1, op)
    [] op = "itclone" -> [O |-> Append(O, Obj("i", o.of, o.r, o.c, o.cells, o.fl, o.pt, "ref", st.s, o.pos, op, o.c2,
                                               {Len(O) + 1} \cup (IF o.cls = "ref" THEN o.uses \ {st.s} ELSE o.uses))),
                           M |-> M, res |-> <<>>]     \* the cursor is copied, what it walks over is shared
    [] op = "jiter"   -> [O |-> Append(O, Obj("i", IF o.k = "v" THEN "jv" ELSE "jm", o.r, o.c, o.cells, o.fl, o.pt,
                                               "ref", st.s, 1, op, O[st.a].cells,
                                               {Len(O) + 1} \cup o.uses \cup O[st.a].uses)),
                           M |-> M, res |-> <<>>]
    (* the ordered integer index: a tree is the ascending sequence of its keys *)
    [] op = "tclone"   -> AddCopy(O, M, st.s, "t", 1, n, o.cells, o.fl, o.pt, TRUE, op)
    [] op = "titer"    -> AddRef(O, M, st.s, "i", "t", 1, n, o.cells, 1, op)
    [] op = "safeiter" -> AddSnap(O, M, st.s, o.cells, 1, op)
    [] op = "safefrom" -> AddSnap(O, M, st.s, o.cells, 1 + Below(M, o.cells, st.a), op)
    [] op = "tins"     -> IF \E p \in 1..n : M[o.cells[p]].v = st.w THEN [O |-> O, M |-> M, res |-> <<>>]
                          ELSE LET k == Below(M, o.cells, st.w) IN
                               [O |-> [O EXCEPT ![st.s].cells = SubSeq(@, 1, k) \o <<Len(M) + 1>> \o SubSeq(@, k + 1, n),
                                                ![st.s].c = @ + 1],
                                M |-> Append(M, Cell(st.w, 0)), res |-> <<>>]
    [] op = "tdel"     -> [O |-> [O EXCEPT ![st.s].cells = SelectSeq(@, LAMBDA x : M[x].v # st.w),
                                           ![st.s].c = Len(SelectSeq(o.cells, LAMBDA x : M[x].v # st.w))],
                           M |-> M, res |-> <<>>]
    (* probes *)
    [] op = "diag"     -> Probe(O, M, DiagCells(o))
    [] op \in {"asvector", "asmatrix"} -> Probe(O, M, o.cells)
    [] op = "constrow" -> Probe(O, M, RowCells(o, st.a))
    [] op = "constcol" -> Probe(O, M, ColCells(o, st.a))
    (* mutators *)
    [] op = "set"     -> Wr(O, [M EXCEPT ![o.cells[st.a]] = Cell(st.w, Zeroed(@.d))])
    [] op = "assign"  -> Wr(O, [M EXCEPT ![o.cells[st.a]] = Cell(st.w, 0)])
    [] op = "der"     -> Wr(O, [M EXCEPT ![o.cells[st.a]] = Cell(@.v, DerPat(st.w))])
    [] op = "vars"    -> Wr(O, [x \in 1..Len(M) |->
                                  IF \E p \in 1..n : o.cells[p] = x
                                  THEN Cell(M[x].v, 100 * n + (CHOOSE p \in 1..n : o.cells[p] = x))
                                  ELSE M[x]])
    [] op = "fill"    -> Wr(O, OnCells(M, o.cells, LAMBDA q : Cell(st.w, 0)))
    [] op = "reset"   -> Wr(O, OnCells(M, o.cells, LAMBDA q : Cell(0, Zeroed(q.d))))
    [] op = "swap"    -> Wr(O, Permuted(M, o.cells,
                               [p \in 1..n |-> IF p = st.a THEN st.b ELSE IF p = st.b THEN st.a ELSE p]))
    [] op = "reverse" -> Wr(O, Permuted(M, o.cells, [p \in 1..n |-> n + 1 - p]))
    [] op = "sort"    -> Wr(O, Permuted(M, o.cells,
                               [p \in 1..n |-> CHOOSE q \in 1..n : Rank(M, o.cells, q) = p]))
    [] op = "swaprows" -> Wr(O, Permuted(M, o.cells,
                               [p \in 1..n |-> LET i == (p-1) \div o.c  j == (p-1) % o.c IN
                                               IF i = st.a THEN st.b * o.c + j + 1
                                               ELSE IF i = st.b THEN st.a * o.c + j + 1 ELSE p]))
    [] op = "append"  -> [O |-> [O EXCEPT ![st.s].cells = Append(@, Len(M) + 1), ![st.s].c = @ + 1],
                          M |-> Append(M, Cell(st.w, 0)), res |-> <<>>]
    [] op = "itnext"  -> [O |-> [O EXCEPT ![st.s].pos = @ + 1], M |-> M, res |-> <<>>]
    [] op = "itset"   -> Wr(O, [M EXCEPT ![o.cells[o.pos]] = Cell(st.w, Zeroed(@.d))])

Derives  == {"asConst", "grad", "clone", "asSame", "asFlip", "asType", "row", "col", "slice", "mslice", "T", "elem", "iter", "itclone",
             "jiter", "tclone", "titer", "safeiter", "safefrom"}
Probes   == {"diag", "asvector", "asmatrix", "constrow", "constcol"}
Struct   == {"swap", "reverse", "sort", "swaprows"}
Mutators == {"set", "assign", "der", "vars", "fill", "reset", "append", "itnext", "itset", "tins", "tdel"} \cup Struct

(* ---- sharing -------------------------------------------------------------- *)
CellSet(o) == {o.cells[p] : p \in 1..NC(o)}
Shares(O, a, b) == CellSet(O[a]) \cap CellSet(O[b]) # {}
RECURSIVE Root(_, _)
Root(O, a) == IF O[a].cls = "ref" THEN Root(O, O[a].src) ELSE a
Others(O, s) == {b \in 1..Len(O) : b # s /\ Shares(O, s, b)}

(* ---- where the documentation is silent (DESIGN 3.6): such calls are not   *)
(* generated, and a recorded history containing one is not a legal input     *)
Legal(O, M, st) ==
  LET o == O[st.s]  n == NC(o)  op == st.op IN
  CASE op = "asType" -> \A p \in 1..n : M[o.cells[p]].d = 0      \* derivatives across element types: unspecified
    [] op = "asConst" -> ~o.pt /\ \A p \in 1..n : M[o.cells[p]].d = 0
    [] op = "grad" -> ~o.pt /\ M[o.cells[1]].d # 0
    [] op = "der" -> ~o.pt                                         \* derivative state exists for the Real types only
    [] op = "vars" -> ~o.pt /\ \A p \in 1..n : M[o.cells[p]].d = 0 \/ (M[o.cells[p]].d \div 100) # n
        \* SetVariable only (re)allocates when N or the order change; what it does to derivatives
        \* that are already there is not documented
    [] op = "iter" -> \A p \in 1..n : M[o.cells[p]].v # 0        \* whether iterators visit zeros is unspecified
    [] op = "itnext" -> o.pos <= n /\ \A p \in 1..n : M[o.cells[p]].v # 0
                        /\ \A q \in 1..Len(o.c2) : M[o.c2[q]].v # 0
    [] op = "jiter" -> /\ st.a # st.s /\ O[st.a].k = o.k /\ O[st.a].r = o.r /\ O[st.a].c = o.c
                       /\ \A p \in 1..n : M[o.cells[p]].v # 0 /\ M[O[st.a].cells[p]].v # 0
    [] op \in {"tins", "tdel"} ->    \* a live (unsafe) iterator under insertions and deletions is C19's subject
         \A b \in 1..Len(O) : ~(O[b].k = "i" /\ O[b].cls = "ref" /\ Root(O, b) = Root(O, st.s))
    [] op = "itset"  -> o.pos <= n /\ st.w # 0
    [] op = "sort" -> /\ \A p, q \in 1..n : p # q => M[o.cells[p]].v # M[o.cells[q]].v   \* ties
                      /\ \A b \in Others(O, st.s) : O[b].k \notin {"s", "i"}
    [] op \in Struct \ {"sort"} -> \A b \in Others(O, st.s) : O[b].k \notin {"s", "i"}
        \* a scalar reference follows the element or the position depending on the storage; iterators
        \* over a container whose order is changed are not specified
    [] op = "append" -> Others(O, st.s) = {} /\ o.cls # "ref"    \* Go append semantics: sharing of the result unspecified
    [] op \in {"set", "reset", "fill"} ->
         (st.w = 0 \/ op = "reset") => \A b \in 1..Len(O) : O[b].k # "i"
    [] OTHER -> TRUE

(* ---- the contract, as properties of the heap ------------------------------ *)
CopiesDisjoint ==
  \A a, b \in 1..Len(objs) : (a # b /\ Shares(objs, a, b)) => Root(objs, a) = Root(objs, b)
(* the share set: storage two live objects may have in common.  A copy reaches storage of its own  *)
(* only (so it shares nothing with its source, nor with anything made before it); two iterators      *)
(* share what they walk over, never a cursor.                                                        *)
ShareSet(O, a, b) == O[a].uses \cap O[b].uses
ShareOK ==
  /\ \A a \in 1..Len(objs) : (objs[a].cls \in {"copy", "own"} /\ objs[a].k # "c") => objs[a].uses = {a}
  /\ \A a, b \in 1..Len(objs) : (a # b /\ objs[a].k = "i" /\ objs[b].k = "i") =>
        \A x \in ShareSet(objs, a, b) : objs[x].k # "i" \/ objs[x].cls = "copy"
Nth(S, i) == CHOOSE x \in S : Cardinality({y \in S : y < x}) = i - 1
SortedSeq(S) == [i \in 1..Cardinality(S) |-> Nth(S, i)]
ShareList(O) ==
  LET P == {a * 100 + b : a \in 1..Len(O), b \in 1..Len(O)}
      Q == {e \in P : (e \div 100) < (e % 100)} IN
  [i \in 1..Cardinality(Q) |-> LET e == Nth(Q, i) IN
     [a |-> e \div 100, b |-> e % 100, own |-> SortedSeq(ShareSet(O, e \div 100, e % 100))]]
TypeOK ==
  /\ \A x \in 1..Len(objs) : /\ objs[x].k = "g" \/ objs[x].r * objs[x].c = NC(objs[x])
                             /\ \A p \in 1..NC(objs[x]) : objs[x].cells[p] \in 1..Len(mem)
                             /\ \A p, q \in 1..NC(objs[x]) : p # q => objs[x].cells[p] # objs[x].cells[q]

(* ---- enumeration ------------------------------------------------------------ *)
NewV(v) == IF v = 7 THEN 8 ELSE 7
InitVals ==
  CASE Fam = "sca" -> <<3>>
    [] Fam = "vec" -> IF Pat = "z" THEN <<1, 0, 2>> ELSE <<1, 2, 3>>
    [] Fam = "mat" -> IF Pat = "z" THEN <<1, 0, 2, 0, 3, 4>> ELSE <<1, 2, 3, 4, 5, 6>>
    [] Fam = "avl" -> <<10, 20, 30>>
InitObj ==
  CASE Fam = "sca" -> Obj("s", "", 1, 1, <<1>>, FALSE, FALSE, "own", 0, 0, "make", <<>>, {1})
    [] Fam = "vec" -> Obj("v", "", 1, 3, <<1, 2, 3>>, FALSE, FALSE, "own", 0, 0, "make", <<>>, {1})
    [] Fam = "mat" -> Obj("m", "", 2, 3, <<1, 2, 3, 4, 5, 6>>, FALSE, FALSE, "own", 0, 0, "make", <<>>, {1})
    [] Fam = "avl" -> Obj("t", "", 1, 3, <<1, 2, 3>>, FALSE, FALSE, "own", 0, 0, "make", <<>>, {1})

DeriveCands(O, M, s) ==
  LET o == O[s]  n == NC(o) IN
  CASE o.k = "s" -> {St("clone", s, 0, 0, 0, 0, 0), St("asType", s, 0, 0, 0, 0, 0), St("grad", s, 0, 0, 0, 0, 0)}
    [] o.k \in {"c", "g"} -> {St("clone", s, 0, 0, 0, 0, 0)}      \* read-only vectors: CloneConstVector
                             \cup (IF Pat = "f" /\ o.k = "c" THEN {St("iter", s, 0, 0, 0, 0, 0)} ELSE {})
    [] o.k = "v" ->
         {St(op, s, 0, 0, 0, 0, 0) : op \in {"clone", "asSame", "asFlip", "asType", "asConst"}}
         \cup ({St("slice", s, a, b, 0, 0, 0) : a \in {0, 1}, b \in {n - 1, n}} \ {St("slice", s, 0, n, 0, 0, 0)})
         \cup (IF n >= 2 THEN {St("elem", s, 0, 1, 0, 0, 0)} ELSE {})
         \cup (IF Pat = "f" THEN {St("iter", s, 0, 0, 0, 0, 0)} ELSE {})
    [] o.k = "m" ->
         {St(op, s, 0, 0, 0, 0, 0) : op \in {"clone", "asSame", "asFlip", "asType", "T"}}
         \cup {St("row", s, i, 0, 0, 0, 0) : i \in {0, o.r - 1}}
         \cup {St("col", s, o.c - 1, 0, 0, 0, 0)}
         \cup (IF o.c >= 2 THEN {St("mslice", s, 0, o.r, 1, o.c, 0)} ELSE {})
         \cup (IF o.r >= 2 /\ o.c >= 2 THEN {St("mslice", s, 1, o.r, 0, o.c - 1, 0)} ELSE {})
         \cup (IF o.r >= 2 THEN {St("mslice", s, 1, o.r, 0, o.c, 0)} ELSE {})     \* a pure row slice (all columns)
         \cup {St("elem", s, o.r - 1, 0, 0, 0, 0)}
         \cup (IF Pat = "f" THEN {St("iter", s, 0, 0, 0, 0, 0)} ELSE {})
    [] o.k = "i" -> {St("itclone", s, 0, 0, 0, 0, 0)}
    [] o.k = "t" -> {St(op, s, 0, 0, 0, 0, 0) : op \in {"tclone", "titer", "safeiter"}}
                    \cup {St("safefrom", s, key, 0, 0, 0, 0) : key \in {15, 20, 35}}

(* iterator protocol: what may be made in between Next() calls *)
IterDeriveCands(O, M, s) ==
  LET o == O[s] IN
  CASE o.k \in {"v", "m"} ->
         (IF Len(O) = 1 THEN {St("clone", s, 0, 0, 0, 0, 0)} ELSE {})
         \cup {St("iter", s, 0, 0, 0, 0, 0)}
         \cup {St("jiter", s, a, 0, 0, 0, 0) : a \in 1..Len(O)}
    [] o.k = "t" -> {St(op, s, 0, 0, 0, 0, 0) : op \in {"titer", "safeiter"}}
                    \cup {St("safefrom", s, key, 0, 0, 0, 0) : key \in {15, 20}}
    [] o.k = "i" -> {St("itclone", s, 0, 0, 0, 0, 0)}
    [] OTHER -> {}
IterMutCands(O, M, s) ==
  LET o == O[s] IN
  CASE o.k = "i" -> {St("itnext", s, 0, 0, 0, 0, 0)} \cup
                    (IF o.pos <= NC(o) /\ o.of \notin {"t", "c"} THEN {St("itset", s, 0, 0, 0, 0, NewV(M[o.cells[o.pos]].v))} ELSE {})
    [] o.k = "t" -> {St("tins", s, 0, 0, 0, 0, 25), St("tdel", s, 0, 0, 0, 0, 20)}
    [] OTHER -> {}

ProbeCands(O, s) ==
  LET o == O[s] IN
  CASE o.k = "v" -> {St("asmatrix", s, 1, NC(o), 0, 0, 0), St("asmatrix", s, NC(o), 1, 0, 0, 0)}
    [] o.k = "m" -> {St("asvector", s, 0, 0, 0, 0, 0), St("constrow", s, o.r - 1, 0, 0, 0, 0),
                     St("constcol", s, 0, 0, 0, 0, 0)}
                    \cup (IF o.r = o.c THEN {St("diag", s, 0, 0, 0, 0, 0)} ELSE {})
    [] OTHER -> {}

Positions(o) == {1, NC(o)} \cup (IF NC(o) >= 2 THEN {2} ELSE {})
MutCands(O, M, s) ==
  LET o == O[s]  n == NC(o) IN
  IF o.k = "i" THEN {St("itnext", s, 0, 0, 0, 0, 0)} \cup
                    (IF o.pos <= n /\ o.of \notin {"t", "c"} THEN {St("itset", s, 0, 0, 0, 0, NewV(M[o.cells[o.pos]].v))} ELSE {})
  ELSE IF o.k \in {"c", "g"} THEN {}
  ELSE IF o.k = "t" THEN {St("tins", s, 0, 0, 0, 0, key) : key \in {15, 35}} \cup {St("tdel", s, 0, 0, 0, 0, key) : key \in {10, 20}}
  ELSE
       {St("set", s, p, 0, 0, 0, NewV(M[o.cells[p]].v)) : p \in Positions(o)}
  \cup (IF Pat = "z" THEN {St("set", s, p, 0, 0, 0, 0) : p \in {q \in Positions(o) : M[o.cells[q]].v # 0}} ELSE {})
  \cup {St("assign", s, p, 0, 0, 0, NewV(M[o.cells[p]].v)) : p \in {q \in Positions(o) : M[o.cells[q]].d # 0}}
  \cup {St("der", s, p, 0, 0, 0, IF M[o.cells[p]].d = DerPat(1) THEN 2 ELSE 1) : p \in {1, n}}
  \cup (IF o.k # "s" THEN {St("vars", s, 0, 0, 0, 0, 0), St("fill", s, 0, 0, 0, 0, 9)} ELSE {})
  \cup (IF Pat = "z" THEN {St("reset", s, 0, 0, 0, 0, 0)} ELSE {})
  \cup (IF o.k # "s" /\ n >= 2 THEN {St("swap", s, 1, n, 0, 0, 0)} ELSE {})
  \cup (IF o.k = "v" /\ n >= 2 THEN {St("reverse", s, 0, 0, 0, 0, 0), St("sort", s, 0, 0, 0, 0, 0)} ELSE {})
  \cup (IF o.k = "v" THEN {St("append", s, 0, 0, 0, 0, 6)} ELSE {})
  \cup (IF o.k = "m" /\ o.r >= 2 /\ o.r = o.c THEN {St("swaprows", s, 0, o.r - 1, 0, 0, 0)} ELSE {})
       \* SwapRows is defined for square matrices only (it returns an error otherwise)

WellFormed(O, st) ==      \* drop the place-holder candidates
  st.op = "slice" => (0 <= st.a /\ st.a < st.b /\ st.b <= NC(O[st.s]))

(* frame: what a call may change *)
FrameOK(O, M, st, ef) ==
  /\ \A b \in 1..Len(O) :
       \/ (st.op \in Mutators /\ ShareSet(O, b, st.s) # {})     \* only what reaches common storage may see it
       \/ Content(ef.O, ef.M, b) = Content(O, M, b)
  /\ (st.op \in Derives /\ ef.O[Len(ef.O)].cls = "copy" /\ st.op \notin {"asType", "row", "col"}) =>
       /\ Vals(ef.M, ef.O[Len(ef.O)].cells) = Vals(M, O[st.s].cells)
       /\ Ders(ef.M, ef.O[Len(ef.O)].cells) = Ders(M, O[st.s].cells)
       /\ ef.O[Len(ef.O)].r = O[st.s].r /\ ef.O[Len(ef.O)].c = O[st.s].c

Take(st, pre2, nm2) ==
  /\ WellFormed(objs, st) /\ Legal(objs, mem, st)
  /\ LET ef == Effect(objs, mem, st) IN
       /\ Assert(FrameOK(objs, mem, st, ef), <<"frame condition of the heap model", st>>)
       /\ objs' = ef.O /\ mem' = ef.M
       /\ ph' = [pre |-> pre2, nm |-> nm2]
       /\ hist' = Append(hist, st)
       /\ (Emit => PrintT(ToJson([fam |-> Fam, pat |-> Pat, init |-> InitVals, steps |-> hist',
                                  prev |-> AllContent(objs, mem),
                                  exp |-> AllContent(ef.O, ef.M), res |-> ef.res,
                                  share |-> ShareList(ef.O)])))

Init == /\ objs = <<InitObj>>
        /\ mem = [p \in 1..Len(InitVals) |-> Cell(InitVals[p], 0)]
        /\ ph = [pre |-> 0, nm |-> 0]
        /\ hist = <<St("make", 0, InitObj.r, InitObj.c, 0, 0, 0)>>

PreMutate == /\ Len(objs) = 1 /\ ph.pre = 0 /\ ph.nm = 0 /\ Fam # "avl"
             /\ \E st \in {St("der", 1, 1, 0, 0, 0, 1)} \cup
                          (IF Fam # "sca" THEN {St("vars", 1, 0, 0, 0, 0, 0)} ELSE {}) :
                   Take(st, 1, 0)
Derive == /\ Len(objs) < MaxObj /\ ph.nm = 0
          /\ \E s \in 1..Len(objs) : \E st \in DeriveCands(objs, mem, s) : Take(st, ph.pre, 0)
Mutate == /\ Len(objs) >= 2 /\ ph.nm < MaxMut
          /\ \E s \in 1..Len(objs) : \E st \in MutCands(objs, mem, s) : Take(st, ph.pre, ph.nm + 1)
Observe == /\ Len(objs) >= 2 /\ ph.nm = 0
           /\ \E s \in 1..Len(objs) : \E st \in ProbeCands(objs, s) : Take(st, ph.pre, ph.nm)

IterDerive == /\ Len(objs) < MaxObj
              /\ \E s \in 1..Len(objs) : \E st \in IterDeriveCands(objs, mem, s) : Take(st, ph.pre, ph.nm)
IterMutate == /\ Len(objs) >= 2 /\ ph.nm < MaxMut
              /\ \E s \in 1..Len(objs) : \E st \in IterMutCands(objs, mem, s) : Take(st, ph.pre, ph.nm + 1)

Next == IF Mode = "iter" THEN IterDerive \/ IterMutate
        ELSE PreMutate \/ Derive \/ Mutate \/ Observe
Spec == Init /\ [][Next]_vars
=============================================================================
