------------------------------ MODULE VectorView ------------------------------
(* C10, vector side: "vector/matrix reinterpretations address exactly the elements
   their definition says".  A vector owner of n cells (cell k holds Val(pat,k)),
   a word of vector slices Slice(a,b) (element i of the slice is element a+i), and
   the reinterpretation AsMatrix(r,c), r*c = length, whose element (i,j) is element
   i*c+j of the vector (row-major; README: "Convert vector to a matrix").
   Mechanism: a dense vector slice is a window [off, off+len) of the owner's
   storage and ToDense*Matrix wraps that window in a fresh header
   {rows r, cols c, offsets 0, rowMax r, colMax c}.  TLC checks window arithmetic
   = denotation and prints the expected tables. *)
EXTENDS Integers, Sequences, FiniteSets, TLC, Json, SequencesExt

CONSTANTS MaxN, MaxDepth, Emit
VARIABLES n, sl, off, len
vars == <<n, sl, off, len>>

ZeroCells == {1, 3, 4, 8, 10, 15}
Val(pat, k) == IF pat = "z" /\ k \in ZeroCells THEN 0 ELSE k + 1
Pats == {"f", "z"}

(* contract: element i of the sliced vector, as a cell of the owner *)
RECURSIVE VDen(_, _)
VDen(word, i) == IF Len(word) = 0 THEN i
                 ELSE VDen(SubSeq(word, 1, Len(word) - 1), word[Len(word)].a + i)
RECURSIVE VLen(_, _)
VLen(word, m) == IF Len(word) = 0 THEN m ELSE word[Len(word)].b - word[Len(word)].a
MDen(word, c, i, j) == VDen(word, i * c + j)

Shapes == {rc \in (0..MaxN) \X (0..MaxN) : rc[1] * rc[2] = len /\ (len = 0 => rc[1] + rc[2] <= 2)}

Init == n \in 1..MaxN /\ sl = <<>> /\ off = 0 /\ len = n
DoSlice == /\ Len(sl) < MaxDepth
           /\ \E a \in 0..len, b \in 0..len :
                /\ a <= b
                /\ sl' = Append(sl, [a |-> a, b |-> b])
                /\ off' = off + a /\ len' = b - a
           /\ UNCHANGED n
Next == DoSlice
Spec == Init /\ [][Next]_vars

(* mechanism = contract *)
LenOK == len = VLen(sl, n) /\ off >= 0 /\ off + len <= n
WindowOK == \A i \in 0..(len - 1) : off + i = VDen(sl, i)
MatrixOK == \A rc \in Shapes : \A i \in 0..(rc[1] - 1), j \in 0..(rc[2] - 1) :
              off + (i * rc[2] + j) = MDen(sl, rc[2], i, j)

Case == [n |-> n, sl |-> sl, len |-> len,
         den |-> [i \in 1..len |-> VDen(sl, i - 1)],
         par |-> [pat \in Pats |-> [k \in 1..n |-> Val(pat, k - 1)]],
         mats |-> SetToSeq({[r |-> rc[1], c |-> rc[2],
                             den |-> [i \in 1..rc[1] |-> [j \in 1..rc[2] |-> MDen(sl, rc[2], i - 1, j - 1)]]] : rc \in Shapes})]
EmitCase == Emit => PrintT(ToJson(Case))
=============================================================================
