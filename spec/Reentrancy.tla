----------------------------- MODULE Reentrancy -----------------------------
(***************************************************************************)
(* Contract behind the concurrent conformance runs of C04 / C06:           *)
(*                                                                         *)
(*   a routine is a function of its arguments and of its caller-supplied   *)
(*   work space only.                                                      *)
(*                                                                         *)
(* Mechanism sketch of what breaks it: a routine that accumulates into a   *)
(* temporary (the accumulator s of cholesky, the pivot arrays of           *)
(* gaussJordan).  With Shared = FALSE every call owns its temporary (per   *)
(* call allocation or caller-supplied InSitu); with Shared = TRUE the      *)
(* temporary is a hidden package-level variable.  Callers run interleaved  *)
(* (any schedule).  Invariant FunctionOfArguments: a finished call returns *)
(* the sum of ITS inputs.  TLC proves it for Shared = FALSE and refutes it *)
(* for Shared = TRUE (vacuity control of the check); sequential schedules  *)
(* alone (Sequential = TRUE) do not expose the shared variant, which is    *)
(* why the ordinary replay cannot see such a defect and the driver runs    *)
(* the fast-path routines from several goroutines at once (race detector   *)
(* on, results compared bit for bit with the sequential ones).             *)
(***************************************************************************)
EXTENDS Integers, Sequences, TLC

CONSTANTS Shared,       \* TRUE: the accumulator is a hidden shared variable
          Sequential    \* TRUE: a call starts only when no other call is running

Callers == {1, 2}
Input == [c \in Callers |-> IF c = 1 THEN <<1, 2, 4>> ELSE <<8, 16>>]

VARIABLES pc, i, shared, local, result
vars == <<pc, i, shared, local, result>>

RECURSIVE SumSeq(_)
SumSeq(s) == IF s = <<>> THEN 0 ELSE Head(s) + SumSeq(Tail(s))

Acc(c) == IF Shared THEN shared ELSE local[c]
SetAcc(c, v) == IF Shared THEN shared' = v /\ UNCHANGED local
                ELSE local' = [local EXCEPT ![c] = v] /\ UNCHANGED shared

Init == /\ pc = [c \in Callers |-> "idle"] /\ i = [c \in Callers |-> 1]
        /\ shared = 0 /\ local = [c \in Callers |-> 0] /\ result = [c \in Callers |-> -1]

Start(c) == /\ pc[c] = "idle"
            /\ Sequential => \A d \in Callers : pc[d] \in {"idle", "done"}
            /\ SetAcc(c, 0)                                  \* s.Reset()
            /\ pc' = [pc EXCEPT ![c] = "run"] /\ UNCHANGED <<i, result>>
Add(c) == /\ pc[c] = "run" /\ i[c] <= Len(Input[c])
          /\ SetAcc(c, Acc(c) + Input[c][i[c]])              \* s.Add(s, t)
          /\ i' = [i EXCEPT ![c] = @ + 1] /\ UNCHANGED <<pc, result>>
Finish(c) == /\ pc[c] = "run" /\ i[c] > Len(Input[c])
             /\ result' = [result EXCEPT ![c] = Acc(c)]
             /\ pc' = [pc EXCEPT ![c] = "done"] /\ UNCHANGED <<i, shared, local>>

Next == \E c \in Callers : Start(c) \/ Add(c) \/ Finish(c)
Spec == Init /\ [][Next]_vars

FunctionOfArguments == \A c \in Callers : pc[c] = "done" => result[c] = SumSeq(Input[c])
=============================================================================
