------------------------------ MODULE Estimators ------------------------------
(***************************************************************************)
(* C16 (first half) - closed-form estimators return the weighted maximum-  *)
(* likelihood parameters of their family, within the configured bounds.    *)
(*                                                                         *)
(* CONTRACT, written from the textbook likelihoods: for observations x_i   *)
(* with non-negative weights w_i (the library takes log-weights gamma_i =  *)
(* log w_i) the weighted log-likelihood sum_i w_i log f(x_i | theta) is    *)
(* maximised by                                                            *)
(*   Normal       mu = sum w x / sum w,  var = sum w x^2 / sum w - mu^2,   *)
(*                sigma = max(sqrt(var), sigmaMin)                         *)
(*   Exponential  lambda = min(sum w / sum w x, lambdaMax)      (rate;     *)
(*                lambdaMax if every weighted observation is 0)            *)
(*   Poisson      lambda = sum w x / sum w                                 *)
(*   Geometric    p = sum w / sum w (x + 1)     (x = failures before the   *)
(*                first success, pmf (1-p)^x p)                            *)
(*   Categorical  theta_k = sum_{x_i = k} w_i / sum w                      *)
(*   NegBinomial  (r fixed, pmf Gamma(r+x)/Gamma(x+1)/Gamma(r) p^x (1-p)^r) *)
(*                p = sum w x / (r sum w + sum w x)                         *)
(* Invariances every weighted estimator must have (checked by the driver on *)
(* every case): multiplying all weights by one constant (adding a constant  *)
(* to all log-weights, however large or small) does not change the         *)
(* estimate; Translation(E, c) applied to x equals E applied to x + c.     *)
(* All values are exact rationals (Rat.tla).  TLC enumerates every data    *)
(* multiset up to MaxN observations over the value grid Xs with weights Ws *)
(* and prints one case per multiset; the Go driver runs the real           *)
(* estimators (plain and batch interface, with and without weights,        *)
(* bounds active and inactive) and compares.                               *)
(***************************************************************************)
EXTENDS Rat, FiniteSets, Json

CONSTANTS MaxN,       \* largest data set
          Xs,         \* value grid (non-negative integers)
          Ws,         \* weight grid (positive integers)
          K           \* categories 0..K-1 (K > max Xs)

VARIABLE data         \* sequence of [x, w], non-decreasing (a multiset)

Pairs == {<<x, w>> : x \in Xs, w \in Ws}
Leq(a, b) == a[1] < b[1] \/ (a[1] = b[1] /\ a[2] <= b[2])
Sorted(s) == \A i \in 1..(Len(s) - 1) : Leq(s[i], s[i+1])
DataSets == UNION {{s \in [1..n -> Pairs] : Sorted(s)} : n \in 1..MaxN}

SumW(d)    == RSumSeq([i \in 1..Len(d) |-> RInt(d[i][2])])
SumWX(d)   == RSumSeq([i \in 1..Len(d) |-> RInt(d[i][2] * d[i][1])])
SumWXX(d)  == RSumSeq([i \in 1..Len(d) |-> RInt(d[i][2] * d[i][1] * d[i][1])])
SumWX1(d)  == RSumSeq([i \in 1..Len(d) |-> RInt(d[i][2] * (d[i][1] + 1))])
SumWAt(d, k) == RSumSeq([i \in 1..Len(d) |-> IF d[i][1] = k THEN RInt(d[i][2]) ELSE RZero])

Mean(d)     == RDiv(SumWX(d), SumW(d))
Variance(d) == RSub(RDiv(SumWXX(d), SumW(d)), RMul(Mean(d), Mean(d)))

(* bounds the estimators are configured with in the replay (rationals) *)
SigmaMins  == <<Rat(1, 1000), Rat(3, 2)>>
LambdaMaxs == <<RInt(100), Rat(1, 2)>>

NormalMLE(d) == [mu |-> Mean(d), var |-> Variance(d),
                 \* sigma^2 after the lower bound: max(var, sigmaMin^2)
                 var_bounded |-> [b \in 1..Len(SigmaMins) |-> RMax(Variance(d), RMul(SigmaMins[b], SigmaMins[b]))]]
(* observations equal to 0 are admissible (density lambda at 0); if ALL weighted observations are 0 the      *)
(* likelihood lambda^(sum w) has no maximiser and the estimate within the bound is the bound itself         *)
ExponentialMLE(d) ==
  IF RIsZero(SumWX(d))
  THEN [defined |-> TRUE, interior |-> FALSE, lambda |-> RZero, lambda_bounded |-> [b \in 1..Len(LambdaMaxs) |-> LambdaMaxs[b]]]
  ELSE LET l == RDiv(SumW(d), SumWX(d)) IN
       [defined |-> TRUE, interior |-> TRUE, lambda |-> l,
        lambda_bounded |-> [b \in 1..Len(LambdaMaxs) |-> RMin(l, LambdaMaxs[b])]]
PoissonMLE(d) == [defined |-> ~RIsZero(SumWX(d)), lambda |-> Mean(d)]
GeometricMLE(d) == [p |-> RDiv(SumW(d), SumWX1(d))]
(* fixed shape parameters r the negative binomial estimator is run with *)
NBRs == <<RInt(1), Rat(7, 2), Rat(2, 5)>>
NegBinMLE(d) == [defined |-> ~RIsZero(SumWX(d)),
                 p |-> [b \in 1..Len(NBRs) |-> RDiv(SumWX(d), RAdd(RMul(NBRs[b], SumW(d)), SumWX(d)))]]
(* translation by c: the normal estimator sees x + c *)
TransC == 3
TranslatedMean(d) == RAdd(Mean(d), RInt(TransC))
CategoricalMLE(d) == [theta |-> [k \in 1..K |-> RDiv(SumWAt(d, k - 1), SumW(d))]]

Case(d) == [data |-> [i \in 1..Len(d) |-> [x |-> d[i][1], w |-> d[i][2]]],
            unit_weights |-> \A i \in 1..Len(d) : d[i][2] = 1,
            normal |-> NormalMLE(d), exponential |-> ExponentialMLE(d), poisson |-> PoissonMLE(d),
            geometric |-> GeometricMLE(d), categorical |-> CategoricalMLE(d),
            negbin |-> NegBinMLE(d), translated_mu |-> TranslatedMean(d)]

Init == data \in DataSets
Next == UNCHANGED data
Spec == Init /\ [][Next]_data

(* model-level sanity of the contract (TLC checks them on every data set):  *)
(* the variance is non-negative, the categorical estimate is a distribution, *)
(* the geometric estimate is a probability, and the normal equations hold:   *)
(* the weighted score of each family vanishes at the unbounded estimate.     *)
VarNonNeg == ~RLt(Variance(data), RZero)
ThetaSumsToOne == REq(RSumSeq(CategoricalMLE(data).theta), ROne)
GeomIsProb == LET p == GeometricMLE(data).p IN RLt(RZero, p) /\ RLe(p, ROne)
\* d/dmu sum w (x-mu)^2 = 0   <=>   sum w x - mu sum w = 0
NormalScoreZero == REq(RSub(SumWX(data), RMul(Mean(data), SumW(data))), RZero)
\* Poisson: d/dlambda sum w (x log lambda - lambda) = sum w x / lambda - sum w = 0
PoissonScoreZero == PoissonMLE(data).defined =>
                      REq(RSub(RDiv(SumWX(data), Mean(data)), SumW(data)), RZero)
\* Geometric: d/dp sum w (x log(1-p) + log p) = -sum w x/(1-p) + sum w / p = 0  (p < 1)
GeomScoreZero == LET p == GeometricMLE(data).p IN
                   RLt(p, ROne) => REq(RSub(RDiv(SumW(data), p), RDiv(SumWX(data), RSub(ROne, p))), RZero)
\* Exponential: d/dlambda sum w (log lambda - lambda x) = sum w / lambda - sum w x = 0
ExpScoreZero == ExponentialMLE(data).interior =>
                  REq(RSub(RDiv(SumW(data), ExponentialMLE(data).lambda), SumWX(data)), RZero)

\* NegBinomial: d/dp sum w (x log p + r log(1-p)) = sum w x / p - r sum w / (1-p) = 0
NegBinScoreZero == NegBinMLE(data).defined =>
                     \A b \in 1..Len(NBRs) :
                        LET p == NegBinMLE(data).p[b] IN
                        /\ RLt(RZero, p) /\ RLt(p, ROne)
                        /\ REq(RSub(RDiv(SumWX(data), p), RDiv(RMul(NBRs[b], SumW(data)), RSub(ROne, p))), RZero)

(* one printed case per data multiset (evaluated once per distinct initial state) *)
Emit == PrintT(ToJson(Case(data)))
=============================================================================
