------------------------------- MODULE HMMHist -------------------------------
(***************************************************************************)
(* C15, model -> code, HISTORIES on one object.  The cases of HMM.tla and  *)
(* Mixture.tla evaluate every inference call on a freshly built object;    *)
(* here ONE mixture or HMM object lives through a history of inference     *)
(* calls and parameter changes.  State: `cur` = the current parameters of  *)
(* the object, `log` = the calls made so far, each with the result the     *)
(* contract of HMMCore demands FOR THE PARAMETERS CURRENT AT THAT MOMENT   *)
(* (no state is carried from one call to the next).  A history is a word   *)
(* of length Steps over a small alphabet fixed per history: NCalls         *)
(* inference calls (the same arguments every time they recur: repeated     *)
(* identical calls, calls alternating between two component lists / state  *)
(* sets) and NChanges parameter changes (SetParameters, SetStartStates,    *)
(* SetFinalStates, Clone).  One call letter stands for all inference entry *)
(* points on the same arguments: mixture LogPdf(x), Posterior(x, S),       *)
(* Likelihood(x, S); HMM LogPdf, PosteriorMarginals, Posterior (three      *)
(* state-set sequences built from A, B), Viterbi for the sequence x.       *)
(* The finished history is printed as one JSON line and replayed on ONE    *)
(* real object per implementation by harness/cmd/hmm (kind "hist").        *)
(***************************************************************************)
EXTENDS HMMCore, Json

CONSTANTS
  Kind,            \* "mix" | "hmm"
  MinM, MaxM,      \* components / states
  MaxN,            \* length of the observation vectors / sequences
  WVals, EVals, EDen, NSym,
  SmapMode,        \* "all" | "id"                                 (hmm)
  NCalls, NChanges, Steps,
  PoolMode,        \* "free": calls and changes are chosen; "fixed": a fixed alphabet (exhaustive words)
  Emit

VARIABLES st, ok
vars == <<st, ok>>

TAB == Tup([m \in 1..MaxM |-> Tup([n \in 1..MaxN |-> Tables(m, n)], MaxN)], MaxM)
ASSUME \A m \in 1..MaxM : \A n \in 1..MaxN : (NPaths(m, n) <= 300) => TablesOK(TAB[m][n], m, n)

Rows(m) == {r \in [1..m -> WVals] : SumInts(r, 1, m) > 0}
Smaps(m) == IF SmapMode = "id" THEN {[i \in 1..m |-> i]} ELSE [1..m -> 1..m]
NClasses(smap, m) == MaxInts(smap, 1, m)
Rev(s) == Tup([i \in 1..Len(s) |-> s[Len(s) + 1 - i]], Len(s))
Rot(i, r, m) == ((i - 1 + r) % m) + 1
Subsets(m) == SUBSET (1..m) \ {{}}
Symbols(n) == [1..n -> 0..(NSym - 1)]

Blank(mm) == [stage |-> IF Kind = "mix" THEN "w" ELSE "pi", m |-> mm, w |-> <<>>, pi |-> <<>>, tr |-> <<>>,
              smap |-> <<>>, em |-> <<>>, d |-> 0, calls |-> <<>>, changes |-> <<>>, ckind |-> "",
              cur |-> <<>>, log |-> <<>>]

Init == st \in {Blank(mm) : mm \in MinM..MaxM} /\ ok = TRUE

(* ------------------------------------------------------------ initial object *)
ChooseW  == st.stage = "w" /\ \E w \in Rows(st.m) : st' = [st EXCEPT !.w = w, !.stage = "em"]
ChoosePi == st.stage = "pi" /\ \E p \in Rows(st.m) : st' = [st EXCEPT !.pi = p, !.stage = "tr"]
ChooseTrRow ==
  st.stage = "tr" /\ \E r \in Rows(st.m) :
    st' = [st EXCEPT !.tr = Append(@, r), !.stage = IF Len(st.tr) + 1 = st.m THEN "smap" ELSE "tr"]
ChooseSmap == st.stage = "smap" /\ \E f \in Smaps(st.m) : st' = [st EXCEPT !.smap = f, !.stage = "em"]
NEm == IF Kind = "mix" THEN st.m ELSE NClasses(st.smap, st.m)
ChooseEmRow ==
  st.stage = "em" /\ \E e \in [1..NSym -> EVals] :
    st' = [st EXCEPT !.em = Append(@, e), !.stage = IF Len(st.em) + 1 = NEm THEN "d" ELSE "em"]

InitCur(s) == IF Kind = "mix" THEN [w |-> s.w, em |-> s.em]
              ELSE [pi |-> s.pi, tr |-> s.tr, start |-> {}, final |-> {}]

(* mixtures: one vector length per history (the wrapper components have a fixed dimension) *)
FixedCalls(s) ==
  IF Kind = "mix"
  THEN << [x |-> [t \in 1..s.d |-> 0], s |-> {1}], [x |-> [t \in 1..s.d |-> (NSym - 1)], s |-> 1..s.m] >>
  ELSE << [x |-> [t \in 1..MaxN |-> t % 2], A |-> {1}, B |-> {s.m}],
          [x |-> [t \in 1..2 |-> 1], A |-> 1..s.m, B |-> {1}] >>
FixedChanges(s) ==
  IF Kind = "mix"
  THEN << [k |-> "set", w |-> Rev(s.w), rev |-> FALSE], [k |-> "clone"] >>
  ELSE << [k |-> "set", pi |-> Rev(s.pi), r |-> 1, c |-> 1], [k |-> "final", s |-> {s.m}], [k |-> "clone"] >>

ChooseD ==
  st.stage = "d" /\ \E d \in 1..(IF Kind = "mix" THEN MaxN ELSE 1) :
    st' = IF PoolMode = "fixed"
          THEN LET s1 == [st EXCEPT !.d = d] IN
               [s1 EXCEPT !.calls = FixedCalls(s1), !.changes = FixedChanges(s1), !.cur = InitCur(s1), !.stage = "steps"]
          ELSE [st EXCEPT !.d = d, !.stage = "calls"]

(* ------------------------------------------------------------ the alphabet *)
ChooseCall ==
  /\ st.stage = "calls"
  /\ \/ /\ Kind = "mix"
        /\ \E x \in Symbols(st.d) : \E S \in Subsets(st.m) :
             st' = [st EXCEPT !.calls = Append(@, [x |-> x, s |-> S]),
                              !.stage = IF Len(st.calls) + 1 = NCalls THEN "ckind" ELSE "calls"]
     \/ /\ Kind = "hmm"
        /\ \E n \in 1..MaxN : \E x \in Symbols(n) : \E A \in SUBSET (1..st.m) : \E B \in SUBSET (1..st.m) :
             st' = [st EXCEPT !.calls = Append(@, [x |-> x, A |-> A, B |-> B]),
                              !.stage = IF Len(st.calls) + 1 = NCalls THEN "ckind" ELSE "calls"]

ChangeKinds == IF Kind = "mix" THEN {"set", "setem", "clone"} ELSE {"set", "start", "final", "clone"}
ChooseChangeKind ==
  st.stage = "ckind" /\ \E k \in ChangeKinds : st' = [st EXCEPT !.ckind = k, !.stage = "cinst"]
AfterChange(s) == IF Len(s.changes) + 1 = NChanges THEN "steps" ELSE "ckind"
ChooseChange ==
  /\ st.stage = "cinst"
  /\ LET put(ch) == [st EXCEPT !.changes = Append(@, ch), !.stage = AfterChange(st),
                               !.cur = IF AfterChange(st) = "steps" THEN InitCur(st) ELSE @]
     IN \/ st.ckind = "clone" /\ st' = put([k |-> "clone"])
        \/ Kind = "mix" /\ st.ckind = "set" /\ \E w \in Rows(st.m) : st' = put([k |-> "set", w |-> w, rev |-> FALSE])
        \/ Kind = "mix" /\ st.ckind = "setem" /\ \E w \in Rows(st.m) : st' = put([k |-> "set", w |-> w, rev |-> TRUE])
        \/ Kind = "hmm" /\ st.ckind = "set" /\ \E p \in Rows(st.m) : \E r \in 0..(st.m - 1) : \E c \in 0..(st.m - 1) :
             st' = put([k |-> "set", pi |-> p, r |-> r, c |-> c])
        \/ Kind = "hmm" /\ st.ckind = "start" /\ \E S \in Subsets(st.m) : st' = put([k |-> "start", s |-> S])
        \/ Kind = "hmm" /\ st.ckind = "final" /\ \E F \in Subsets(st.m) : st' = put([k |-> "final", s |-> F])

(* ------------------------------------------------------------ the history *)
(* parameters after a change (the current ones if the change is `clone`) *)
Apply(s, ch) ==
  IF ch.k = "clone" THEN s.cur
  ELSE IF Kind = "mix" THEN [w |-> ch.w, em |-> IF ch.rev THEN Rev(s.em) ELSE s.em]
  ELSE IF ch.k = "start" THEN ApplyStart(s.m, s.cur, ch.s)
  ELSE IF ch.k = "final" THEN ApplyFinal(s.cur, ch.s)
  ELSE ApplySet(s.cur, ch.pi,
                Tup([i \in 1..s.m |-> Tup([j \in 1..s.m |-> s.tr[Rot(i, ch.r, s.m)][Rot(j, ch.c, s.m)]], s.m)], s.m))

ChangeEnabled(s, ch) ==
  \/ ch.k = "clone"
  \/ Kind = "mix"
  \/ /\ Kind = "hmm"
     /\ (ch.k = "set" => SetAdmissible(s.m, s.cur, ch.pi))
     /\ ValidCur(s.m, Apply(s, ch))

CallResult(s, c) ==
  IF Kind = "mix" THEN MixCall(s.m, s.cur.w, s.cur.em, EDen, c.x, c.s)
  ELSE Solve(Prep(HmmModel(s.m, s.smap, s.em, EDen, s.cur)), c.x, c.A, c.B, s.cur.final, TAB[s.m][Len(c.x)])

(* one letter: 1..NCalls = the calls, NCalls+1.. = the changes; evaluated as a value (cached LETs) *)
StepResult(s, a) ==
  IF a <= Len(s.calls)
  THEN LET r == CallResult(s, s.calls[a])
       IN [st |-> [s EXCEPT !.log = Append(@, [t |-> "call", c |-> a, exp |-> r]),
                            !.stage = IF Len(s.log) + 1 = Steps THEN "emit" ELSE "steps"],
           good |-> r.mech]
  ELSE LET ch  == s.changes[a - Len(s.calls)]
           nxt == Apply(s, ch)
       IN [st |-> [s EXCEPT !.cur = nxt, !.log = Append(@, [t |-> "change", ch |-> ch, after |-> nxt]),
                            !.stage = IF Len(s.log) + 1 = Steps THEN "emit" ELSE "steps"],
           good |-> TRUE]

Step ==
  /\ st.stage = "steps"
  /\ \E a \in 1..(Len(st.calls) + Len(st.changes)) :
       /\ (a > Len(st.calls) => (ChangeEnabled(st, st.changes[a - Len(st.calls)]) = TRUE))
       /\ LET r == StepResult(st, a) IN st' = r.st /\ ok' = (ok /\ r.good)

HistOut(s) ==
  [kind |-> Kind, m |-> s.m, w |-> s.w, pi |-> s.pi, tr |-> s.tr, smap |-> s.smap, em |-> s.em, eden |-> EDen,
   d |-> s.d, steps |-> s.log]

EmitCase ==
  /\ st.stage = "emit"
  /\ (Emit => PrintT(ToJson(HistOut(st))))
  /\ st' = [st EXCEPT !.stage = "done"]
  /\ UNCHANGED ok

Build == (ChooseW \/ ChoosePi \/ ChooseTrRow \/ ChooseSmap \/ ChooseEmRow \/ ChooseD \/ ChooseCall
          \/ ChooseChangeKind \/ ChooseChange) /\ UNCHANGED ok
Next == Build \/ Step \/ EmitCase
Spec == Init /\ [][Next]_vars

(* every call of every history: mechanism = contract for the parameters current at the call *)
MechRefinesContract == ok
=============================================================================
