--------------------------- MODULE MatrixViewTrace ---------------------------
(* Trace validation (code -> model) for C10.  harness/cmd/views record drives the
   REAL matrices with seeded random histories on owners larger than the exhaustive
   bounds (up to 9 x 8 cells, words up to length 6): reset (a new owner with logged
   values; sparse owners may store their zero elements explicitly), Slice, T, writes
   through the current view and iterations of the view (logged sequence of
   (i, j, value)).  After every call it logs
   the dimensions of the view, the content of the view read through At(i,j) and the
   content of the owner.  Each event must be the corresponding step of the contract
   of MatrixView.tla (word w, denotation Den) extended by the owner's content `par';
   the logged observations must equal what the contract says, and the mechanism
   invariants of MatrixView (header arithmetic = denotation, iterators, shortcuts,
   JSON re-pack, AsVector, Reset) are evaluated on every header that is reached. *)
EXTENDS MatrixView

Trace == ndJsonDeserialize("views_trace.ndjson")

VARIABLES l,       \* next event to consume
          par      \* content of the owner: cell -> value
tvars == <<pr, pc, w, dims, hd, sp, l, par>>
Ev == Trace[l]
Step(name) == l <= Len(Trace) /\ Ev.e = name /\ l' = l + 1

TReset == /\ Step("reset")
          /\ Ev.pr >= 1 /\ Ev.pc >= 1 /\ Len(Ev.par) = Ev.pr * Ev.pc
          /\ pr' = Ev.pr /\ pc' = Ev.pc /\ w' = <<>> /\ dims' = <<Ev.pr, Ev.pc>>
          /\ hd' = Hdr(Ev.pr, Ev.pc, 0, Ev.pr, 0, Ev.pc, FALSE)
          /\ sp' = [h |-> Hdr(Ev.pr, Ev.pc, 0, Ev.pr, 0, Ev.pc, FALSE), st |-> [k \in 0..(Ev.pr * Ev.pc - 1) |-> k]]
          /\ par' = [k \in 0..(Ev.pr * Ev.pc - 1) |-> Ev.par[k + 1]]
TSlice == /\ Step("slice")
          /\ 0 <= Ev.a /\ Ev.a <= Ev.b /\ Ev.b <= dims[1] /\ 0 <= Ev.c /\ Ev.c <= Ev.d /\ Ev.d <= dims[2]
          /\ w' = Append(w, SOp(Ev.a, Ev.b, Ev.c, Ev.d))
          /\ dims' = <<Ev.b - Ev.a, Ev.d - Ev.c>>
          /\ hd' = DSlice(hd, Ev.a, Ev.b, Ev.c, Ev.d)
          /\ sp' = SSlice(sp, Ev.a, Ev.b, Ev.c, Ev.d)
          /\ UNCHANGED <<pr, pc, par>>
TT == /\ Step("T")
      /\ w' = Append(w, TOp) /\ dims' = <<dims[2], dims[1]>>
      /\ hd' = DT(hd) /\ sp' = ST(sp)
      /\ UNCHANGED <<pr, pc, par>>
(* a write through the view reaches exactly the owner cell the element denotes *)
TWrite == /\ Step("write")
          /\ Ev.i \in 0..(dims[1] - 1) /\ Ev.j \in 0..(dims[2] - 1)
          /\ par' = [par EXCEPT ![Cell(w, Ev.i, Ev.j)] = Ev.v]
          /\ UNCHANGED <<pr, pc, w, dims, hd, sp>>

(* iterating the view: no change of the contract state; the logged sequence is checked in ObsOK *)
TIter == /\ Step("iter")
         /\ UNCHANGED <<pr, pc, w, dims, hd, sp, par>>

TraceInit == /\ l = 1 /\ pr = 1 /\ pc = 1 /\ w = <<>> /\ dims = <<1, 1>>
             /\ hd = Hdr(1, 1, 0, 1, 0, 1, FALSE)
             /\ sp = [h |-> Hdr(1, 1, 0, 1, 0, 1, FALSE), st |-> [k \in 0..0 |-> k]]
             /\ par = [k \in 0..0 |-> 0]
TraceNext == TReset \/ TSlice \/ TT \/ TWrite \/ TIter
TraceSpec == TraceInit /\ [][TraceNext]_tvars

(* what the real code showed after the event that produced the current state *)
ObsOK ==
  l > 1 =>
    LET e == Trace[l - 1] IN
      /\ e.dims = dims
      /\ e.obs = [i \in 1..dims[1] |-> [j \in 1..dims[2] |-> par[Cell(w, i - 1, j - 1)]]]
      /\ e.par = [k \in 1..NCells |-> par[k - 1]]
      \* iteration after any history of writes: exactly the non-zero elements, row-major
      /\ e.e = "iter" =>
           e.it = SelectSeq([p \in 1..(dims[1] * dims[2]) |->
                               <<(p - 1) \div dims[2], (p - 1) % dims[2],
                                 par[Cell(w, (p - 1) \div dims[2], (p - 1) % dims[2])]>>], NonZero)

TraceAccepted ==
  IF TLCGet("stats").diameter - 1 = Len(Trace) THEN TRUE
  ELSE Print(<<"TRACE_REJECTED_AT", TLCGet("stats").diameter, "OF", Len(Trace)>>, FALSE)
=============================================================================
