--------------------------- MODULE SparseVectorTrace ---------------------------
(***************************************************************************)
(* Trace validation (code -> model) for C11.  The Go recorder              *)
(* (harness/cmd/sparsevec record) drives the REAL sparse vectors of every  *)
(* element type (and 4 x n/4 sparse matrices) through seeded random        *)
(* histories of ~300 operations over length 16 with three partially        *)
(* consumed iterators and logs one event per call: name, arguments, the    *)
(* observed Dim(), ALL element reads after the call, the observed result   *)
(* (iterator position, iteration sequences), and whether the private map / *)
(* index broke a mechanism invariant.  Every event must be the             *)
(* corresponding step of the dense CONTRACT (SparseVecContract) and every  *)
(* logged observation must equal what the contract state says.  All        *)
(* arguments are logged, so the search is linear.                          *)
(***************************************************************************)
EXTENDS SparseMatrixView, Json

Trace == ndJsonDeserialize("sparsevec_trace.ndjson")

VARIABLE l          \* next event to consume
NI == 3
Objs == {1}
tvars == <<n, content, cit, must, taint, l>>

Ev == Trace[l]
Step(name) == l <= Len(Trace) /\ Ev.e = name /\ l' = l + 1
C == content[1]
M == n[1]
(* one vector at a time (the recorder continues with the result of Slice / Append): nothing is shared *)
Val1(nc)        == ValueStepC(Objs, 1, nc)
Struct1(nc)     == StructStepC(Objs, 1, nc, [i \in Idx(M) |-> i], FALSE)
Repl1(nn, nc)   == ReplaceStepC(Objs, 1, nn, nc)
Same            == UNCHANGED <<n, content, must, taint>>
ArithNames == VecOps \cup ScalarOps \cup SelfOps

TNew     == Step("new")     /\ Repl1(Ev.x, [i \in Idx(Ev.x) |-> 0]) /\ cit' = [j \in 1..NI |-> IterDead]
TWrite   == Step("write")   /\ Ev.i \in Idx(M) /\ Val1(CWrite(C, Ev.i, Ev.x)) /\ UNCHANGED cit
TReset   == Step("reset")   /\ Val1(CReset(C)) /\ UNCHANGED cit
TSwap    == Step("swap")    /\ Ev.i \in Idx(M) /\ Ev.k \in Idx(M) /\ Struct1(CSwap(C, Ev.i, Ev.k)) /\ UNCHANGED cit
(* square sparse matrices only: x = number of columns *)
TSwapRows == Step("swaprows") /\ Ev.x * Ev.x = M /\ Ev.i \in Idx(Ev.x) /\ Ev.k \in Idx(Ev.x)
                              /\ Struct1(CSwapRows(C, Ev.x, Ev.i, Ev.k)) /\ UNCHANGED cit
TSwapCols == Step("swapcols") /\ Ev.x * Ev.x = M /\ Ev.i \in Idx(Ev.x) /\ Ev.k \in Idx(Ev.x)
                              /\ Struct1(CSwapCols(C, Ev.x, Ev.i, Ev.k)) /\ UNCHANGED cit
TReverse == Step("reverse") /\ Struct1(CReverse(C, M)) /\ UNCHANGED cit
TPermute == Step("permute") /\ Len(Ev.p) = M /\ Struct1(CPermute(C, Ev.p, M)) /\ UNCHANGED cit
TSort    == Step("sort")    /\ Struct1(CSort(C, M, Ev.x = 1)) /\ UNCHANGED cit
(* the recorder continues with the result of Slice / Append and abandons the old vector and its iterators *)
TSlice   == Step("slice")   /\ 0 <= Ev.i /\ Ev.i <= Ev.k /\ Ev.k <= M
                            /\ Repl1(Ev.k - Ev.i, CSlice(C, Ev.i, Ev.k)) /\ cit' = KillIters(cit, {1})
TAppendS == Step("appends") /\ Repl1(M + 1, CAppend(C, M, <<Ev.x>>)) /\ cit' = KillIters(cit, {1})
TAppendV == Step("appendv") /\ Repl1(M + Len(Ev.w), CAppend(C, M, Ev.w)) /\ cit' = KillIters(cit, {1})
TArith   == /\ l <= Len(Trace) /\ Ev.e \in ArithNames /\ l' = l + 1
            /\ (Ev.e \in VecOps => Len(Ev.w) = M)
            /\ Val1(CArith(Ev.e, C, IF Ev.e \in VecOps THEN FunOf(Ev.w) ELSE ConstFun(M, Ev.x)))
            /\ UNCHANGED cit
TIter    == Step("iter")    /\ CIterNew(Ev.j, 1, 0) /\ Same
TFrom    == Step("from")    /\ Ev.i \in Idx(M) /\ CIterNew(Ev.j, 1, Ev.i) /\ Same
TNext    == Step("next")    /\ cit[Ev.j].live /\ cit[Ev.j].pos # Done /\ CIterAdvance(Ev.j) /\ Same
TWalk    == Step("walk")    /\ Same /\ UNCHANGED cit
(* a complete loop over an iterator of a (nested, possibly transposed) view of the matrix; w = the view's word,   *)
(* p = <<fi, fj>> (fi = -1: Iterator(), else IteratorFrom), x = columns of the matrix                             *)
TVWalk   == Step("vwalk")   /\ Ev.x > 0 /\ M % Ev.x = 0 /\ ValidWord(UnflatWord(Ev.w), M \div Ev.x, Ev.x)
                            /\ Same /\ UNCHANGED cit
(* a write through a view made of slices *)
TVWrite  == Step("vwrite")  /\ Ev.x > 0 /\ M % Ev.x = 0 /\ ValidWord(UnflatWord(Ev.w), M \div Ev.x, Ev.x)
                            /\ ~HasT(UnflatWord(Ev.w))
                            /\ LET v == DenView(UnflatWord(Ev.w), M \div Ev.x, Ev.x)
                               IN Ev.i < v.vr /\ Ev.k < v.vc /\ Val1(CWrite(C, v.map[<<Ev.i, Ev.k>>], Ev.p[1]))
                            /\ UNCHANGED cit
(* Real element types: the element gets a non-zero derivative, its value stays (written value + Tag, see SparseVecContract.tla) *)
TSetVar  == Step("setvar")  /\ Ev.i \in Idx(M) /\ ~Tagged(C[Ev.i]) /\ Val1([C EXCEPT ![Ev.i] = C[Ev.i] + Tag]) /\ UNCHANGED cit
(* a whole-view operation with a slice view as receiver; w = word, k = columns, p = operand matrix, x = scalar *)
TBulk    == /\ l <= Len(Trace) /\ Ev.e \in BulkOps /\ l' = l + 1
            /\ Ev.k > 0 /\ M % Ev.k = 0 /\ ValidWord(UnflatWord(Ev.w), M \div Ev.k, Ev.k) /\ ~HasT(UnflatWord(Ev.w))
            /\ (Ev.e \in BulkOperandOps => Len(Ev.p) = M)
            /\ Val1(CViewBulk(C, DenView(UnflatWord(Ev.w), M \div Ev.k, Ev.k), Ev.e,
                              IF Ev.e \in BulkOperandOps THEN FunOf(Ev.p) ELSE ConstFun(M, 0), Ev.x))
            /\ UNCHANGED cit
TJWalk   == Step("jwalk")   /\ Len(Ev.w) = M /\ Same /\ UNCHANGED cit

TraceInit == /\ l = 1 /\ n = [o \in Objs |-> 0] /\ content = [o \in Objs |-> <<>>]
             /\ cit = [j \in 1..NI |-> IterDead] /\ must = {} /\ taint = [o \in Objs |-> {}]
TraceNext == TNew \/ TWrite \/ TReset \/ TSwap \/ TSwapRows \/ TSwapCols \/ TReverse \/ TPermute \/ TSort \/ TSlice \/ TAppendS
             \/ TAppendV \/ TArith \/ TIter \/ TFrom \/ TNext \/ TWalk \/ TVWalk \/ TVWrite \/ TSetVar \/ TBulk \/ TJWalk
TraceSpec == TraceInit /\ [][TraceNext]_tvars

(* observations logged with the event that produced the current state *)
ObsOK ==
  l > 1 =>
    LET e == Trace[l-1] IN
    /\ e.bad = ""                                   \* no panic, no placeholder cell, every non-zero cell indexed
    /\ e.dim = n[1]                                 \* the length changes only as the contract says
    /\ e.c = SeqOf(content[1], n[1])                \* every read agrees with the dense model
    /\ (e.e = "walk"  => e.r = CWalk(content[1]))   \* exactly the non-zero positions, ascending, once
    /\ (e.e = "vwalk" =>                            \* exactly the non-zero elements of the view, in its order
          LET v == DenView(UnflatWord(e.w), n[1] \div e.x, e.x) IN
          /\ e.r = CViewIter(content[1], v, e.p[1], e.p[2])
          /\ e.d = CViewSeq(content[1], v))                      \* and the reads through the view
    /\ (e.e = "jwalk" => e.r = CJointWalk(content[1], FunOf(e.w)))
    /\ (e.e \in {"iter", "from", "next"} => e.r = <<<<cit[e.j].pos>>>>)

TraceAccepted ==
  IF TLCGet("stats").diameter - 1 = Len(Trace) THEN TRUE
  ELSE Print(<<"TRACE_REJECTED_AT", TLCGet("stats").diameter, "OF", Len(Trace)>>, FALSE)
=============================================================================
