--------------------------- MODULE SparseVecContract ---------------------------
(***************************************************************************)
(* CONTRACT layer of C11: a sparse vector IS a total function              *)
(* 0..n-1 -> Val (the "plain dense model of the same history").  Written   *)
(* from the property text, the README method table and the behaviour of    *)
(* the dense vectors (Permute = interchange sequence "swap i with pi[i]    *)
(* iff pi[i] > i", Sort = ascending / descending by value), never from the *)
(* sparse code.  Nothing here knows which entries are stored.              *)
(*                                                                         *)
(* Up to two vector objects exist (a main vector and a slice of it); n[o]  *)
(* is the length (-1: no such object), content[o] the dense model and      *)
(* cit[j] the position of a (partially consumed) iterator.                 *)
(*                                                                         *)
(* Slices.  README: At returns a reference to the scalar, Slice returns a  *)
(* slice (not a deep copy).  A slice therefore denotes the SAME scalars as *)
(* its parent - as far as scalars exist: a sparse vector need not keep a   *)
(* scalar for a zero element, and it may drop one that became zero.  The   *)
(* contract is exact about what follows from that and silent about the     *)
(* rest:                                                                   *)
(*   must   pairs <<p, q>> (position p of vector 1, q of its slice 2)      *)
(*          holding the same NON-ZERO scalar ever since the slice was      *)
(*          taken: a write through one is seen through the other;          *)
(*   taint  positions whose (zero) scalar may or may not still be shared.  *)
(*          Writing a non-zero value there would make the other vector's   *)
(*          content depend on representation choices, so the contract      *)
(*          says nothing about such a step and the specification does not  *)
(*          take it (guard in ValueStepC).                                 *)
(*                                                                         *)
(* This module is used twice: as one half of the product specification     *)
(* SparseVector.tla (mechanism refines contract, case generation) and by   *)
(* SparseVectorTrace.tla (recorded histories of the real code).            *)
(***************************************************************************)
EXTENDS Integers, Sequences, FiniteSets, FiniteSetsExt, TLC

Done == -1                      \* iterator position "exhausted"
(* Real element types: an element carrying a non-zero derivative is written value + Tag (a non-zero element even  *)
(* when its value is 0); values proper stay far below Tag / 2                                                      *)
Tag == 1000
Tagged(x) == x >= 500
Idx(m) == 0..(m-1)

VARIABLES n,        \* n[o]       length of object o, -1 = object does not exist
          content,  \* content[o] \in [Idx(n[o]) -> Int]
          cit,      \* cit[j] = [live, o, pos]
          must,     \* pairs <<p, q>> that certainly denote one (non-zero) scalar
          taint     \* taint[o]: zero positions whose scalar is possibly shared

(* ------------------------------------------------------------ helpers *)
(* TLCEval forces TLC to build a function explicitly; without it chains of  *)
(* lazily applied function constructors are re-evaluated exponentially.     *)
NZ(c) == {i \in DOMAIN c : c[i] # 0}
MinGE(T, x) == LET C == {k \in T : k >= x} IN IF C = {} THEN Done ELSE Min(C)
MinGT(T, x) == MinGE(T, x + 1)
RECURSIVE Asc(_)
Asc(S) == IF S = {} THEN <<>> ELSE LET m == Min(S) IN <<m>> \o Asc(S \ {m})
SeqOf(c, m) == IF m <= 0 THEN <<>> ELSE TLCEval([k \in 1..m |-> c[k-1]])
FunOf(s) == TLCEval([i \in Idx(Len(s)) |-> s[i+1]])
MapSeq(s, F(_)) == IF Len(s) = 0 THEN <<>> ELSE [k \in 1..Len(s) |-> F(s[k])]

(* stable insertion sort of a sequence of pairs <<key, value>> by value *)
RECURSIVE InsStable(_, _, _)
InsStable(s, e, rev) ==
  IF s = <<>> THEN <<e>>
  ELSE IF (IF rev THEN e[2] > Head(s)[2] ELSE e[2] < Head(s)[2]) THEN <<e>> \o s
  ELSE <<Head(s)>> \o InsStable(Tail(s), e, rev)
RECURSIVE StableSortPairs(_, _, _)
StableSortPairs(acc, rest, rev) ==
  IF rest = <<>> THEN acc ELSE StableSortPairs(InsStable(acc, Head(rest), rev), Tail(rest), rev)

(* ------------------------------------------------ what operations MEAN *)
CWrite(c, i, x)   == [c EXCEPT ![i] = x]
CReset(c)         == TLCEval([i \in DOMAIN c |-> 0])
CSwap(c, i, j)    == [c EXCEPT ![i] = c[j], ![j] = c[i]]
CReverse(c, m)    == TLCEval([i \in Idx(m) |-> c[m - 1 - i]])
RECURSIVE CPermuteFrom(_, _, _, _)
CPermuteFrom(c, pi, i, m) ==          \* pi: sequence 1..m of positions 0..m-1
  IF i >= m THEN c
  ELSE IF pi[i+1] > i THEN CPermuteFrom([c EXCEPT ![i] = c[pi[i+1]], ![pi[i+1]] = c[i]], pi, i + 1, m)
  ELSE CPermuteFrom(c, pi, i + 1, m)
CPermute(c, pi, m) == CPermuteFrom(c, pi, 0, m)
CSort(c, m, rev)  == LET s == StableSortPairs(<<>>, SeqOf([i \in Idx(m) |-> <<i, c[i]>>], m), rev)
                     IN TLCEval([i \in Idx(m) |-> s[i+1][2]])
(* a sparse matrix stores position (r, q) of a rows x cols matrix at r * cols + q of one sparse vector *)
CSwapRows(c, cols, i, j) == TLCEval([p \in DOMAIN c |-> LET r == p \div cols  q == p % cols
                                               IN IF r = i THEN c[j * cols + q] ELSE IF r = j THEN c[i * cols + q] ELSE c[p]])
CSwapCols(c, cols, i, j) == TLCEval([p \in DOMAIN c |-> LET r == p \div cols  q == p % cols
                                               IN IF q = i THEN c[r * cols + j] ELSE IF q = j THEN c[r * cols + i] ELSE c[p]])
CSlice(c, a, b)   == TLCEval([i \in Idx(b - a) |-> c[a + i]])
CAppend(c, m, w)  == TLCEval([i \in Idx(m + Len(w)) |-> IF i < m THEN c[i] ELSE w[i - m + 1]])

(* element-wise arithmetic with the receiver as first operand:            *)
(*   v.VaddV(v,w) v.VsubV(v,w) v.VmulV(v,w) v.Set(w)                       *)
(*   v.VmulS(v,x) v.VaddS(v,x) v.VsubS(v,x) v.VdivS(v,x) (x = +-1)         *)
(*   v.VsubV(v,v) v.VmulV(v,v)                                             *)
AOp(name, a, b) ==
  CASE name = "vaddv" -> a + b
    [] name = "vsubv" -> a - b
    [] name = "vmulv" -> a * b
    [] name = "set"   -> b
    [] name = "vmuls" -> a * b
    [] name = "vadds" -> a + b
    [] name = "vsubs" -> a - b
    [] name = "vdivs" -> a * b          \* only b \in {-1, 1}: a / b = a * b exactly, in every element type
    [] name = "vsubself" -> 0
    [] name = "vmulself" -> a * a
ScalarOps == {"vmuls", "vadds", "vsubs", "vdivs"}
SelfOps   == {"vsubself", "vmulself"}
VecOps    == {"vaddv", "vsubv", "vmulv", "set"}
(* w: operand as a function on the same domain (for scalar ops the constant function) *)
CArith(name, c, w) == TLCEval([i \in DOMAIN c |-> AOp(name, c[i], w[i])])
ConstFun(m, x) == TLCEval([i \in Idx(m) |-> x])

(* iteration: exactly the non-zero positions, ascending, with their values *)
CWalk(c) == LET a == Asc(NZ(c)) IN IF a = <<>> THEN <<>> ELSE [k \in 1..Len(a) |-> <<a[k], c[a[k]]>>]
CJointWalk(c, w) == LET a == Asc(NZ(c) \cup NZ(w))
                    IN IF a = <<>> THEN <<>> ELSE [k \in 1..Len(a) |-> <<a[k], c[a[k]], w[a[k]]>>]
CIterStart(c, from) == MinGE(NZ(c), from)
CIterNext(c, pos)   == MinGT(NZ(c), pos)
CRest(c, pos)       == Asc({i \in NZ(c) : i > pos})     \* what a live iterator still has to visit

(* ----------------------------------------------------- sharing relation *)
(* S: set of pairs <<p, q>>: position p of object 1 and position q of     *)
(* object 2 denote the same scalar.                                        *)
PartnerOf(S, o, q) ==   \* the position of object o sharing with position q of the other object
  LET C == {pr[o] : pr \in {r \in S : r[3 - o] = q}}
  IN IF C = {} THEN Done ELSE CHOOSE p \in C : TRUE
Through(S, o, f, g) ==  \* g (other object) follows f (object o) at shared positions
  TLCEval([q \in DOMAIN g |-> LET p == PartnerOf(S, o, q) IN IF p = Done THEN g[q] ELSE f[p]])
RenamePairs(S, o, f) == {IF o = 1 THEN <<f[pr[1]], pr[2]>> ELSE <<pr[1], f[pr[2]]>> : pr \in S}

(* ------------------------------------------------------ contract steps *)
(* object o gets length nn and content nc; a second object sees the new   *)
(* values of the scalars it shares with o (relation S)                    *)
CommitC(Objs, o, nn, nc, S) ==
  /\ n' = [n EXCEPT ![o] = nn]
  /\ content' = [oo \in Objs |-> IF oo = o THEN nc
                                 ELSE IF n[oo] < 0 THEN <<>>
                                 ELSE Through(S, o, nc, content[oo])]

(* an operation that changes VALUES of object o in place (positions keep their scalars) *)
ValueStepC(Objs, o, nc) ==
  LET dead == {pr \in must : nc[pr[o]] = 0}        \* shared scalars that become zero: sharing no longer certain
  IN /\ \A i \in taint[o] : nc[i] = 0             \* the contract is silent about writes to possibly shared zeros
     /\ CommitC(Objs, o, n[o], nc, must)
     /\ must' = must \ dead
     /\ taint' = [oo \in Objs |-> taint[oo] \cup {pr[oo] : pr \in dead}]
(* an operation that MOVES the scalars of object o: the scalar of position k goes to f[k].  *)
(* Sort moves zero elements in a way the contract does not fix: every zero may be tainted.  *)
StructStepC(Objs, o, nc, f, sortlike) ==
  /\ n' = n
  /\ content' = [content EXCEPT ![o] = nc]
  /\ must' = RenamePairs(must, o, f)
  /\ taint' = [taint EXCEPT ![o] = IF sortlike THEN (IF taint[o] = {} THEN {} ELSE {i \in DOMAIN nc : nc[i] = 0})
                                   ELSE {f[i] : i \in taint[o]}]
(* object o is replaced by a new vector that shares nothing the contract knows of *)
ReplaceStepC(Objs, o, nn, nc) ==
  /\ n' = [n EXCEPT ![o] = nn]
  /\ content' = [content EXCEPT ![o] = nc]
  /\ must' = {}
  /\ taint' = [oo \in Objs |-> {}]
(* where the element of position i goes under Sort (stable among equal values) *)
CSortMap(c, m, rev) == LET s == StableSortPairs(<<>>, SeqOf([i \in Idx(m) |-> <<i, c[i]>>], m), rev)
                       IN TLCEval([i \in Idx(m) |-> (CHOOSE t \in 1..m : s[t][1] = i) - 1])
RECURSIVE CPermuteMapFrom(_, _, _, _)
CPermuteMapFrom(f, pi, i, m) ==
  IF i >= m THEN f
  ELSE IF pi[i+1] > i
       THEN CPermuteMapFrom(TLCEval([k \in DOMAIN f |-> IF f[k] = i THEN pi[i+1] ELSE IF f[k] = pi[i+1] THEN i ELSE f[k]]), pi, i + 1, m)
       ELSE CPermuteMapFrom(f, pi, i + 1, m)
CPermuteMap(pi, m) == CPermuteMapFrom(TLCEval([k \in Idx(m) |-> k]), pi, 0, m)

IterDead == [live |-> FALSE, o |-> 1, pos |-> Done]
(* iterators bound to an object that is replaced are abandoned *)
KillIters(its, objs) == [j \in DOMAIN its |-> IF its[j].live /\ its[j].o \in objs THEN IterDead ELSE its[j]]

CIterNew(j, o, from) == cit' = [cit EXCEPT ![j] = [live |-> TRUE, o |-> o, pos |-> CIterStart(content[o], from)]]
CIterAdvance(j)      == cit' = [cit EXCEPT ![j].pos = CIterNext(content[cit[j].o], cit[j].pos)]
=============================================================================
