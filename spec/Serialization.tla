--------------------------- MODULE Serialization ---------------------------
(***************************************************************************)
(* C18 - serialisation round-trips every value; malformed input is         *)
(* answered with an error or a well-formed object.                         *)
(*                                                                         *)
(* The model knows OBJECTS (scalars, vectors, matrices - possibly views    *)
(* onto a larger parent - and distribution configurations), abstract       *)
(* DOCUMENTS (what an encoder writes: a JSON tree or a table of tokens),   *)
(* the two directions Encode / Decode of every format and FAULT actions    *)
(* that damage a document.  Element values are opaque ATOMS: the model     *)
(* only moves them around, the Go driver maps an atom to a concrete value  *)
(* of each element type and compares bit patterns.                         *)
(*                                                                         *)
(* Contract (checked by TLC on the model, and by the driver on the code):  *)
(*   RoundTrip   Decode(Encode(x)) = the denotation of x (dimensions, atom *)
(*               at every position, hence the non-zero set; derivatives    *)
(*               where the format carries them)                            *)
(*   Repacked    the document of a view holds the denotation of the view,  *)
(*               never the raw storage of its parent                       *)
(*   FaultSafe   after any fault, Decode yields Error or a WellFormed      *)
(*               object (dimensions non-negative and consistent with the   *)
(*               content)                                                  *)
(* Every state (object, format, faults applied) is printed as one replay   *)
(* case with the outcome class the contract demands.                       *)
(***************************************************************************)
EXTENDS Integers, Sequences, FiniteSets, TLC, Json

CONSTANTS
  MaxDim,      \* largest dimension of an un-sliced container
  Family,      \* "round" : rich contents, no faults; "fault": small contents + faults; "dist": configurations
  MaxFaults,   \* number of faults applied in sequence
  Rich,        \* TRUE: special atom also at the last non-zero position, all atoms in derivative slots
  Emit,        \* print replay cases
  WideClasses  \* long-line classes of the table round trips ("64K", "1M", "4M")

VARIABLES obj, fmt, faults, doc,
          lay,         \* byte layout of a table document (the token structure is the same)
          rcv          \* pre-state of the object the document is read INTO
vars == <<obj, fmt, faults, doc, lay, rcv>>

(* ------------------------------------------------------------------ atoms *)
Atoms     == {"zero", "negzero", "subnormal", "maxfinite", "minfinite",
              "typeMaxInt", "typeMinInt", "one", "minusTwo", "half"}
FloatOnly == {"negzero", "subnormal", "maxfinite", "minfinite", "half"}
IsZero(a) == a \in {"zero", "negzero"}            \* numerically zero
Filler    == <<"one", "minusTwo", "typeMaxInt", "typeMinInt">>
FillAt(p) == Filler[(p % 4) + 1]

IntTypes   == {"Int", "Int8", "Int16", "Int32", "Int64"}
FloatTypes == {"Float64", "Float32"}
RealTypes  == {"Real64", "Real32"}
ConstTypes == {"ConstFloat64", "ConstFloat32", "ConstInt", "ConstInt8", "ConstInt16", "ConstInt32", "ConstInt64"}
IntLike    == IntTypes \cup {"ConstInt", "ConstInt8", "ConstInt16", "ConstInt32", "ConstInt64"}
AtomOK(ty, a) == (ty \in IntLike) => (a \notin FloatOnly)

(* a sparse container does not distinguish -0 from an absent entry (DESIGN 3.6) *)
Norm(st, a) == IF st = "sparse" /\ a = "negzero" THEN "zero" ELSE a

(* --------------------------------------------------------------- elements *)
(* element of a container: atom + which variable it is (hot = -1: constant) *)
El(a, n, hot) == [a |-> a, n |-> n, hot |-> hot]

(* ----------------------------------------------------------- abstract values *)
(* matrix value: rows, cols, c = row-major sequence of elements               *)
MT(m) == [rows |-> m.cols, cols |-> m.rows,
          c |-> [k \in 1..(m.rows * m.cols) |->
                   LET i == (k-1) \div m.rows
                       j == (k-1) % m.rows
                   IN m.c[j * m.cols + i + 1]]]
MSlice(m, r0, r1, c0, c1) ==
  [rows |-> r1 - r0, cols |-> c1 - c0,
   c |-> [k \in 1..((r1-r0) * (c1-c0)) |->
            LET i == (k-1) \div (c1-c0)
                j == (k-1) % (c1-c0)
            IN m.c[(r0+i) * m.cols + (c0+j) + 1]]]
VSlice(v, i, j) == [n |-> j - i, c |-> [k \in 1..(j-i) |-> v.c[i + k]]]

RECURSIVE ApplyM(_, _)
ApplyM(m, w) ==
  IF w = <<>> THEN m
  ELSE LET o == Head(w) IN
       ApplyM(IF o.op = "T" THEN MT(m) ELSE MSlice(m, o.r0, o.r1, o.c0, o.c1), Tail(w))

(* The denotation of an object: what At(..) shows. *)
Denote(x) ==
  CASE x.k = "scalar" -> [k |-> "scalar", v |-> x.v, order |-> x.order, n |-> x.n, grad |-> x.grad, hess |-> x.hess]
    [] x.k = "vector" ->
         LET p == [n |-> x.n, c |-> [q \in 1..x.n |-> El(Norm(x.st, x.c[q]), IF x.dv = "var" THEN x.n ELSE 0,
                                                          IF x.dv = "var" THEN q-1 ELSE -1)]]
             d == IF x.view = <<>> THEN p ELSE VSlice(p, x.view[1].i, x.view[1].j)
         IN [k |-> "vector", n |-> d.n, c |-> d.c]
    [] x.k = "matrix" ->
         LET p == [rows |-> x.rows, cols |-> x.cols,
                   c |-> [q \in 1..(x.rows * x.cols) |-> El(Norm(x.st, x.c[q]), IF x.dv = "var" THEN x.rows * x.cols ELSE 0,
                                                                   IF x.dv = "var" THEN q-1 ELSE -1)]]
             d == ApplyM(p, x.view)
         IN [k |-> "matrix", rows |-> d.rows, cols |-> d.cols, c |-> d.c]
    [] x.k = "dist" -> x

(* ------------------------------------------------------------- documents *)
(* node kinds: num (an atom), int, str, null, arr, obj, table, broken         *)
Num(a)  == [t |-> "num", a |-> a]
IntN(i) == [t |-> "int", i |-> i]
Arr(s)  == [t |-> "arr", v |-> s]
Obj(f)  == [t |-> "obj", f |-> f]
Str(s)  == [t |-> "str", s |-> s]
Tab(l)  == [t |-> "table", l |-> l]
Null    == [t |-> "null"]
Broken  == [t |-> "broken"]

AnyNZ(s) == \E q \in 1..Len(s) : ~IsZero(s[q])
AnyNZ2(h) == \E q \in 1..Len(h) : AnyNZ(h[q])

(* document of a real scalar: derivatives are written only when non-zero *)
ScalarDoc(v, order, n, grad, hess) ==
  LET t1 == order >= 1 /\ n > 0 /\ AnyNZ(grad)
      t2 == order >= 2 /\ n > 0 /\ AnyNZ2(hess)
      G  == Arr([q \in 1..Len(grad) |-> Num(grad[q])])
      H  == Arr([q \in 1..Len(hess) |-> Arr([r \in 1..Len(hess[q]) |-> Num(hess[q][r])])])
  IN IF t1 /\ t2 THEN Obj([Value |-> Num(v), Derivative |-> G, Hessian |-> H])
     ELSE IF t1  THEN Obj([Value |-> Num(v), Derivative |-> G])
     ELSE IF t2  THEN Obj([Value |-> Num(v), Hessian |-> H])
     ELSE Num(v)

Unit(n, hot) == [q \in 1..n |-> IF q - 1 = hot THEN "one" ELSE "zero"]
ZeroH(n)     == [q \in 1..n |-> [r \in 1..n |-> "zero"]]
(* an element of a dense real container is written like a real scalar of order 1 *)
ElemDoc(cls, e) == IF cls = "real" /\ e.n > 0 THEN ScalarDoc(e.a, 1, e.n, Unit(e.n, e.hot), <<>>) ELSE Num(e.a)

NZ(c)   == {q \in 1..Len(c) : ~IsZero(c[q].a)}                 \* non-zero positions (1-based)
RECURSIVE SetToSortedSeq(_)
SetToSortedSeq(S) == IF S = {} THEN <<>> ELSE
   LET m == CHOOSE x \in S : \A y \in S : x <= y IN <<m>> \o SetToSortedSeq(S \ {m})

Encode(x, f) ==
  LET d == Denote(x) IN
  CASE x.k = "scalar" ->
         IF x.cls = "real" THEN ScalarDoc(x.v, x.order, x.n, x.grad, x.hess) ELSE Num(x.v)
    [] x.k = "vector" /\ f = "json" /\ x.st = "dense" ->
         Arr([q \in 1..d.n |-> ElemDoc(x.cls, d.c[q])])
    [] x.k = "vector" /\ f = "json" /\ x.st = "sparse" ->
         LET nz == SetToSortedSeq(NZ(d.c)) IN
         Obj([Index |-> Arr([q \in 1..Len(nz) |-> IntN(nz[q] - 1)]),
              Value |-> Arr([q \in 1..Len(nz) |-> Num(d.c[nz[q]].a)]),
              Length |-> IntN(d.n)])
    [] x.k = "vector" /\ f = "table" /\ x.st = "dense" ->
         Tab([q \in 1..d.n |-> <<Num(d.c[q].a)>>])
    [] x.k = "vector" /\ f = "table" /\ x.st = "sparse" ->
         LET nz == SetToSortedSeq(NZ(d.c)) IN
         Tab(<<<<IntN(d.n)>>>> \o [q \in 1..Len(nz) |-> <<IntN(nz[q] - 1), Num(d.c[nz[q]].a)>>])
    [] x.k = "matrix" /\ f = "json" /\ x.st = "dense" ->
         Obj([Values |-> Arr([q \in 1..(d.rows * d.cols) |-> ElemDoc(x.cls, d.c[q])]),
              Rows |-> IntN(d.rows), Cols |-> IntN(d.cols)])
    [] x.k = "matrix" /\ f = "json" /\ x.st = "sparse" ->
         LET nz == SetToSortedSeq(NZ(d.c)) IN
         Obj([Index |-> Arr([q \in 1..Len(nz) |-> IntN(nz[q] - 1)]),
              Value |-> Arr([q \in 1..Len(nz) |-> Num(d.c[nz[q]].a)]),
              Rows |-> IntN(d.rows), Cols |-> IntN(d.cols)])
    [] x.k = "matrix" /\ f = "table" /\ x.st = "dense" ->
         (* one line per row; rows without columns leave no line behind *)
         Tab(IF d.cols = 0 THEN <<>> ELSE [i \in 1..d.rows |-> [j \in 1..d.cols |-> Num(d.c[(i-1) * d.cols + j].a)]])
    [] x.k = "matrix" /\ f = "table" /\ x.st = "sparse" ->
         LET nz == SetToSortedSeq(NZ(d.c)) IN
         Tab(<<<<IntN(d.rows), IntN(d.cols)>>>> \o
             [q \in 1..Len(nz) |-> <<IntN((nz[q]-1) \div d.cols), IntN((nz[q]-1) % d.cols), Num(d.c[nz[q]].a)>>])
    [] x.k = "dist" -> x.cfg

(* ---------------------------------------------------------------- decode *)
Err == [err |-> TRUE]
IsErr(o) == "err" \in DOMAIN o

IsNum(nd) == nd.t = "num"
IsInt(nd) == nd.t = "int"
IsArrOf(nd, P(_)) == nd.t = "arr" /\ \A q \in 1..Len(nd.v) : P(nd.v[q])
HasOnly(nd, req, opt) == nd.t = "obj" /\ req \subseteq DOMAIN nd.f /\ DOMAIN nd.f \subseteq (req \cup opt)

(* scalar document -> [v, order, n, grad, hess] or Err *)
DecScalar(nd, cls) ==
  IF nd.t = "num" THEN [k |-> "scalar", v |-> nd.a, order |-> 0, n |-> 0, grad |-> <<>>, hess |-> <<>>]
  ELSE IF cls # "real" \/ ~HasOnly(nd, {"Value"}, {"Derivative", "Hessian"}) \/ ~IsNum(nd.f.Value) THEN Err
  ELSE LET hasG == "Derivative" \in DOMAIN nd.f
           hasH == "Hessian" \in DOMAIN nd.f
           okG  == hasG => IsArrOf(nd.f.Derivative, IsNum)
           okH  == hasH => (nd.f.Hessian.t = "arr" /\ \A q \in 1..Len(nd.f.Hessian.v) :
                               /\ IsArrOf(nd.f.Hessian.v[q], IsNum)
                               /\ Len(nd.f.Hessian.v[q].v) = Len(nd.f.Hessian.v))
       IN IF ~okG \/ ~okH THEN Err
          ELSE LET g == IF hasG THEN [q \in 1..Len(nd.f.Derivative.v) |-> nd.f.Derivative.v[q].a] ELSE <<>>
                   h == IF hasH THEN [q \in 1..Len(nd.f.Hessian.v) |-> [r \in 1..Len(nd.f.Hessian.v[q].v) |-> nd.f.Hessian.v[q].v[r].a]] ELSE <<>>
                   n == IF hasH THEN Len(h) ELSE Len(g)
               IN IF hasG /\ hasH /\ Len(g) # Len(h) THEN Err
                  ELSE [k |-> "scalar", v |-> nd.f.Value.a, order |-> IF hasH THEN 2 ELSE IF hasG THEN 1 ELSE 0, n |-> n,
                        grad |-> IF hasG THEN g ELSE [q \in 1..n |-> "zero"], hess |-> h]

(* element document -> element or Err; only order-1 unit gradients appear in element position *)
DecElem(nd, cls) ==
  LET s == DecScalar(nd, cls) IN
  IF IsErr(s) THEN Err
  ELSE IF s.order = 0 THEN El(s.v, 0, -1)
  ELSE IF s.order = 1 /\ \E h \in 0..(s.n-1) : s.grad = Unit(s.n, h)
       THEN El(s.v, s.n, CHOOSE h \in 0..(s.n-1) : s.grad = Unit(s.n, h))
  ELSE El(s.v, s.n, -2)       \* some other derivative: not produced by Encode in this model

RECURSIVE Flat(_)
Flat(ls) == IF ls = <<>> THEN <<>> ELSE Head(ls) \o Flat(Tail(ls))
SparseContent(n, idx, val) ==
  [q \in 1..n |-> IF \E r \in 1..Len(idx) : idx[r].i = q-1
                  THEN El(val[CHOOSE r \in 1..Len(idx) : idx[r].i = q-1].a, 0, -1) ELSE El("zero", 0, -1)]
SparseOK(n, I, V) ==
  /\ IsArrOf(I, IsInt) /\ IsArrOf(V, IsNum) /\ Len(I.v) = Len(V.v) /\ n >= 0
  /\ \A r \in 1..Len(I.v) : I.v[r].i >= 0 /\ I.v[r].i < n
  /\ \A r, s \in 1..Len(I.v) : r # s => I.v[r].i # I.v[s].i

(* -------------------------------------------------- distribution configurations *)
(* A configuration is a tree Obj([Name, Parameters, Distributions]); the       *)
(* parameters are opaque (the driver owns valid parameter values), what the    *)
(* model moves around is the tree of family names.                             *)
ScalarFamilies == {"scalar:beta distribution", "scalar:binomial distribution", "scalar:categorical distribution",
  "scalar:cauchy distribution", "scalar:delta distribution", "scalar:exponential distribution",
  "scalar:gamma distribution", "scalar:generalized gamma distribution", "scalar:geometric distribution",
  "scalar:gev distribution", "scalar:laplace distribution", "scalar:negative binomial distribution",
  "scalar:normal distribution", "scalar:pareto distribution", "scalar:generalized pareto distribution",
  "scalar:poisson distribution", "scalar:power law distribution", "scalar:chi-squared distribution"}
VectorFamilies == {"vector:normal distribtion", "vector:skew normal distribtion", "vector:t distribtion",
  "vector:logistic regression"}
MatrixFamilies == {"matrix:inverse wishart distribtion"}
(* configurable, but not a matrix density that can be nested *)
Standalone     == {"matrix:normal inverse wishart distribtion"}
ScalarWrappers == {"scalar:mixture distribution", "scalar:pdf log transform", "scalar:pdf translation"}
ScalarToVector == {"vector:scalar id", "vector:scalar iid", "vector:hmm distribution",
  "vector:constrained hmm distribution", "vector:hierarchical hmm distribution"}
VectorWrappers == {"vector:mixture distribution", "vector:vector id", "vector:vector iid"}
VectorToMatrix == {"matrix:vector id", "matrix:vector iid", "matrix:hmm distribution",
  "matrix:constrained hmm distribution", "matrix:hierarchical hmm distribution"}
MatrixWrappers == {"matrix:mixture distribution", "matrix:shape hmm distribution"}
Wrappers   == ScalarWrappers \cup ScalarToVector \cup VectorWrappers \cup VectorToMatrix \cup MatrixWrappers
KnownNames == ScalarFamilies \cup VectorFamilies \cup MatrixFamilies \cup Standalone \cup Wrappers
Arity(name) == IF name \in {"vector:constrained hmm distribution", "vector:hierarchical hmm distribution",
                            "matrix:constrained hmm distribution", "matrix:hierarchical hmm distribution"} THEN 4
               ELSE IF name \in {"scalar:pdf log transform", "scalar:pdf translation", "vector:scalar iid",
                                 "vector:vector iid", "matrix:vector iid"} THEN 1
               ELSE IF name \in Wrappers THEN 2 ELSE 0

Cfg(name, kids) == Obj([Name |-> Str(name), Parameters |-> [t |-> "params"], Distributions |-> Arr(kids)])
(* an HMM whose parameters restrict the start states, the final states, both (to different sets), or permute the state map *)
HmmVariants == {"start", "final", "startfinal", "statemap"}
HmmCfg(name, kids, hv) == Obj([Name |-> Str(name), Parameters |-> [t |-> "params", hv |-> hv], Distributions |-> Arr(kids)])
Leaf(name) == Cfg(name, <<>>)
Wrap(w, c) == Cfg(w, [q \in 1..Arity(w) |-> c])

N1 == Leaf("scalar:normal distribution")
ScalarCfgs1(u) == {Leaf(f) : f \in ScalarFamilies}
ScalarCfgs2(u) == ScalarCfgs1(u) \cup {Wrap(w, c) : w \in ScalarWrappers, c \in ScalarCfgs1(u)}
(* vectors: the leaves, every scalar family under every scalar->vector wrapper *)
VectorBasic(u) == {Leaf(f) : f \in VectorFamilies} \cup {Wrap(w, N1) : w \in ScalarToVector}
VectorCfgs1(u) == VectorBasic(u) \cup {Wrap(w, c) : w \in ScalarToVector, c \in ScalarCfgs1(u)}
HmmNames == {"vector:hmm distribution", "vector:constrained hmm distribution", "vector:hierarchical hmm distribution"}
(* an iid wrapper needs a component of fixed dimension; HMMs accept sequences of any length *)
VectorCfgs2(u) == VectorCfgs1(u) \cup {Wrap(wc[1], wc[2]) : wc \in {wc \in VectorWrappers \X VectorBasic(u) :
                                                                      ~(wc[1] = "vector:vector iid" /\ wc[2].f.Name.s \in HmmNames)}}
                 \cup {Wrap(w, Wrap(v, N1)) : w \in ScalarToVector, v \in ScalarWrappers}
MatrixBasic(u) == {Leaf(f) : f \in MatrixFamilies} \cup {Wrap(w, c) : w \in VectorToMatrix, c \in VectorBasic(u)}
MatrixCfgs(u)  == MatrixBasic(u) \cup {Wrap(w, c) : w \in MatrixWrappers,
                                         c \in {Leaf(f) : f \in MatrixFamilies} \cup {Wrap(v, Leaf("vector:normal distribtion")) : v \in VectorToMatrix}}
HmmLikeV == {"vector:hmm distribution", "vector:constrained hmm distribution", "vector:hierarchical hmm distribution"}
HmmLikeM == {"matrix:hmm distribution", "matrix:constrained hmm distribution", "matrix:hierarchical hmm distribution"}
HmmVariantCfgs(u) ==
       {HmmCfg(w, [q \in 1..Arity(w) |-> N1], hv) : w \in HmmLikeV, hv \in HmmVariants}
  \cup {HmmCfg(w, [q \in 1..Arity(w) |-> Leaf("vector:normal distribtion")], hv) : w \in HmmLikeM, hv \in HmmVariants}
  \cup {HmmCfg("matrix:shape hmm distribution", [q \in 1..2 |-> Wrap("matrix:vector id", Leaf("vector:normal distribtion"))], hv) : hv \in HmmVariants}
DistCfgs(u)    == HmmVariantCfgs(u) \cup ScalarCfgs2(u) \cup VectorCfgs2(u) \cup MatrixCfgs(u) \cup {Leaf(f) : f \in Standalone}

RECURSIVE CfgOK(_)
CfgOK(nd) == /\ HasOnly(nd, {"Name", "Parameters", "Distributions"}, {})
             /\ nd.f.Name.t = "str" /\ nd.f.Name.s \in KnownNames
             /\ nd.f.Parameters.t = "params"
             /\ nd.f.Distributions.t = "arr"
             /\ Len(nd.f.Distributions.v) = Arity(nd.f.Name.s)
             /\ \A q \in 1..Len(nd.f.Distributions.v) : CfgOK(nd.f.Distributions.v[q])
DecodeCfg(nd) == IF nd.t = "obj" /\ CfgOK(nd) THEN [k |-> "dist", cfg |-> nd] ELSE Err

DecodeAs(nd, k, cls, st, f) ==
  IF nd.t = "broken" THEN Err
  ELSE CASE k = "scalar" -> DecScalar(nd, cls)
    [] k = "vector" /\ f = "json" /\ st = "dense" ->
         IF nd.t # "arr" THEN Err
         ELSE LET es == [q \in 1..Len(nd.v) |-> DecElem(nd.v[q], cls)] IN
              IF \E q \in 1..Len(es) : IsErr(es[q]) THEN Err ELSE [k |-> "vector", n |-> Len(es), c |-> es]
    [] k = "vector" /\ f = "json" /\ st = "sparse" ->
         IF ~HasOnly(nd, {"Index", "Value", "Length"}, {}) \/ ~IsInt(nd.f.Length) THEN Err
         ELSE IF ~SparseOK(nd.f.Length.i, nd.f.Index, nd.f.Value) THEN Err
         ELSE [k |-> "vector", n |-> nd.f.Length.i, c |-> SparseContent(nd.f.Length.i, nd.f.Index.v, nd.f.Value.v)]
    [] k = "matrix" /\ f = "json" /\ st = "dense" ->
         IF ~HasOnly(nd, {"Values", "Rows", "Cols"}, {}) \/ ~IsInt(nd.f.Rows) \/ ~IsInt(nd.f.Cols) \/ nd.f.Values.t # "arr" THEN Err
         ELSE LET es == [q \in 1..Len(nd.f.Values.v) |-> DecElem(nd.f.Values.v[q], cls)]
                  r == nd.f.Rows.i
                  c == nd.f.Cols.i
              IN IF (\E q \in 1..Len(es) : IsErr(es[q])) \/ r < 0 \/ c < 0 \/ Len(es) # r * c THEN Err
                 ELSE [k |-> "matrix", rows |-> r, cols |-> c, c |-> es]
    [] k = "matrix" /\ f = "json" /\ st = "sparse" ->
         IF ~HasOnly(nd, {"Index", "Value", "Rows", "Cols"}, {}) \/ ~IsInt(nd.f.Rows) \/ ~IsInt(nd.f.Cols) THEN Err
         ELSE LET r == nd.f.Rows.i
                  c == nd.f.Cols.i
              IN IF r < 0 \/ c < 0 \/ ~SparseOK(r * c, nd.f.Index, nd.f.Value) THEN Err
                 ELSE [k |-> "matrix", rows |-> r, cols |-> c, c |-> SparseContent(r * c, nd.f.Index.v, nd.f.Value.v)]
    [] k = "vector" /\ f = "table" /\ st = "dense" ->
         (* every token of every line is an element *)
         IF nd.t # "table" \/ \E q \in 1..Len(nd.l) : \E r \in 1..Len(nd.l[q]) : ~IsNum(nd.l[q][r]) THEN Err
         ELSE LET toks == Flat(nd.l)
              IN [k |-> "vector", n |-> Len(toks), c |-> [q \in 1..Len(toks) |-> El(toks[q].a, 0, -1)]]
    [] k = "vector" /\ f = "table" /\ st = "sparse" ->
         IF nd.t # "table" THEN Err
         ELSE IF nd.l = <<>> THEN [k |-> "vector", n |-> 0, c |-> <<>>]      \* an empty file is the empty vector
         ELSE IF Len(nd.l[1]) # 1 \/ ~IsInt(nd.l[1][1]) THEN Err
         ELSE LET body == Tail(nd.l)
                  n == nd.l[1][1].i
              IN IF \E q \in 1..Len(body) : Len(body[q]) # 2 \/ ~IsInt(body[q][1]) \/ ~IsNum(body[q][2]) THEN Err
                 ELSE LET I == Arr([q \in 1..Len(body) |-> body[q][1]])
                          V == Arr([q \in 1..Len(body) |-> body[q][2]])
                      IN IF ~SparseOK(n, I, V) THEN Err ELSE [k |-> "vector", n |-> n, c |-> SparseContent(n, I.v, V.v)]
    [] k = "matrix" /\ f = "table" /\ st = "dense" ->
         (* rows = lines, all of one length; a file without tokens is the 0 x 0 matrix *)
         IF nd.t # "table" \/ \E q \in 1..Len(nd.l) : \E r \in 1..Len(nd.l[q]) : ~IsNum(nd.l[q][r]) THEN Err
         ELSE LET ls == SelectSeq(nd.l, LAMBDA ln : ln # <<>>) IN
              IF ls = <<>> THEN [k |-> "matrix", rows |-> 0, cols |-> 0, c |-> <<>>]
              ELSE IF \E q \in 1..Len(ls) : Len(ls[q]) # Len(ls[1]) THEN Err
              ELSE [k |-> "matrix", rows |-> Len(ls), cols |-> Len(ls[1]),
                    c |-> [q \in 1..(Len(ls) * Len(ls[1])) |-> El(ls[((q-1) \div Len(ls[1])) + 1][((q-1) % Len(ls[1])) + 1].a, 0, -1)]]
    [] k = "matrix" /\ f = "table" /\ st = "sparse" ->
         IF nd.t # "table" THEN Err
         ELSE IF nd.l = <<>> THEN [k |-> "matrix", rows |-> 0, cols |-> 0, c |-> <<>>]
         ELSE IF Len(nd.l[1]) # 2 \/ ~IsInt(nd.l[1][1]) \/ ~IsInt(nd.l[1][2]) THEN Err
         ELSE LET body == Tail(nd.l)
                  r == nd.l[1][1].i
                  c == nd.l[1][2].i
              IN IF r < 0 \/ c < 0 \/ \E q \in 1..Len(body) : Len(body[q]) # 3 \/ ~IsInt(body[q][1]) \/ ~IsInt(body[q][2]) \/ ~IsNum(body[q][3]) THEN Err
                 ELSE IF \E q \in 1..Len(body) : body[q][1].i < 0 \/ body[q][1].i >= r \/ body[q][2].i < 0 \/ body[q][2].i >= c THEN Err
                 ELSE LET I == Arr([q \in 1..Len(body) |-> IntN(body[q][1].i * c + body[q][2].i)])
                          V == Arr([q \in 1..Len(body) |-> body[q][3]])
                      IN IF ~SparseOK(r * c, I, V) THEN Err ELSE [k |-> "matrix", rows |-> r, cols |-> c, c |-> SparseContent(r * c, I.v, V.v)]
    [] k = "dist" -> DecodeCfg(nd)

(* ----------------------------------------------------------------- contract *)
WellFormed(o) ==
  CASE o.k = "scalar" -> /\ o.n >= 0 /\ o.order \in 0..2
                         /\ Len(o.grad) = (IF o.order >= 1 THEN o.n ELSE 0)
                         /\ (o.order = 2 => Len(o.hess) = o.n /\ \A q \in 1..o.n : Len(o.hess[q]) = o.n)
    [] o.k = "vector" -> o.n >= 0 /\ Len(o.c) = o.n
    [] o.k = "matrix" -> o.rows >= 0 /\ o.cols >= 0 /\ Len(o.c) = o.rows * o.cols
    [] o.k = "dist"   -> CfgOK(o.cfg)

(* what the format carries of an object x *)
Carried(x, f) ==
  LET d == Denote(x)
      strip(c) == [q \in 1..Len(c) |-> El(c[q].a, 0, -1)]
      keep == f = "json" /\ x.st = "dense" /\ x.cls = "real"
  IN CASE x.k = "scalar" ->
            LET t1 == x.order >= 1 /\ x.n > 0 /\ AnyNZ(x.grad)
                t2 == x.order >= 2 /\ x.n > 0 /\ AnyNZ2(x.hess)
            IN IF x.cls = "real" /\ (t1 \/ t2)
               THEN [k |-> "scalar", v |-> x.v, order |-> IF t2 THEN 2 ELSE 1, n |-> x.n,
                     grad |-> IF t1 THEN x.grad ELSE [q \in 1..x.n |-> "zero"], hess |-> IF t2 THEN x.hess ELSE <<>>]
               ELSE [k |-> "scalar", v |-> x.v, order |-> 0, n |-> 0, grad |-> <<>>, hess |-> <<>>]
       [] x.k = "vector" -> [k |-> "vector", n |-> d.n, c |-> IF keep THEN d.c ELSE strip(d.c)]
       [] x.k = "matrix" -> [k |-> "matrix", rows |-> d.rows, cols |-> d.cols, c |-> IF keep THEN d.c ELSE strip(d.c)]
       [] x.k = "dist" -> [k |-> "dist", cfg |-> x.cfg]

(* The dense table format has no header: a matrix with a zero dimension has no *)
(* tokens and reads back as 0 x 0 (known deviation of the format).             *)
TableLosesDims(x, f) == x.k = "matrix" /\ f = "table" /\ x.st = "dense" /\
                        LET d == Denote(x) IN (d.rows = 0 \/ d.cols = 0) /\ (d.rows # 0 \/ d.cols # 0)
KnownDeviation_TableDims == [k |-> "matrix", rows |-> 0, cols |-> 0, c |-> <<>>]

Target(x) == IF x.k = "dist" THEN [k |-> "dist", cls |-> "none", st |-> "none"] ELSE [k |-> x.k, cls |-> x.cls, st |-> x.st]
Decoded == DecodeAs(doc, obj.k, Target(obj).cls, Target(obj).st, fmt)

RoundTrip == faults = <<>> =>
   IF TableLosesDims(obj, fmt) THEN Decoded = KnownDeviation_TableDims
   ELSE Decoded = Carried(obj, fmt)

(* the document of a view never holds more elements than the view denotes *)
Repacked == (faults = <<>> /\ obj.k = "matrix" /\ fmt = "json") =>
   LET d == Denote(obj) IN
   /\ doc.f.Rows.i = d.rows /\ doc.f.Cols.i = d.cols
   /\ obj.st = "dense"  => Len(doc.f.Values.v) = d.rows * d.cols
   /\ obj.st = "sparse" => \A q \in 1..Len(doc.f.Index.v) : doc.f.Index.v[q].i < d.rows * d.cols

FaultSafe == IsErr(Decoded) \/ WellFormed(Decoded)

(* ------------------------------------------------------------------ objects *)
(* (the dummy parameter u keeps TLC from evaluating the families a configuration does not use) *)
Pos(n) == 0..(n-1)
(* content over positions 0..n-1 with zero set Z and special atom s at position q (q = -1: none) *)
Content(n, Z, s, q) == [p \in 1..n |-> IF (p-1) \in Z THEN "zero" ELSE IF p-1 = q THEN s ELSE FillAt(p-1)]
MinOf(S) == CHOOSE x \in S : \A y \in S : x <= y
MaxOf(S) == CHOOSE x \in S : \A y \in S : x >= y
Specials(n, Z) == LET nz == Pos(n) \ Z IN
   IF nz = {} THEN {<<"one", -1>>}
   ELSE {<<"one", -1>>} \cup {<<s, MinOf(nz)>> : s \in Atoms \ {"zero", "one"}}
        \cup (IF Rich THEN {<<s, MaxOf(nz)>> : s \in Atoms \ {"zero", "one"}} ELSE {})
(* a few zero patterns for view / fault cases *)
Patterns(n) == {{}, {p \in Pos(n) : p % 2 = 1}, {p \in Pos(n) : p % 3 = 0}, Pos(n)}
(* all zero patterns up to 6 positions; beyond that the four patterns, every single zero and every single non-zero *)
ZeroSets(n) == IF n <= 6 THEN SUBSET Pos(n)
               ELSE Patterns(n) \cup {{p} : p \in Pos(n)} \cup {Pos(n) \ {p} : p \in Pos(n)}
RichContents(n) == UNION {{Content(n, Z, sq[1], sq[2]) : sq \in Specials(n, Z)} : Z \in ZeroSets(n)}

Windows(n) == {<<a, b>> \in (0..n) \X (0..n) : a < b} \cup {<<0, 0>>, <<n, n>>}   \* every non-empty window (incl. the full range), two empty ones
Classes == {<<"plain", "none">>, <<"real", "none">>, <<"real", "var">>}
Storages == {"dense", "sparse"}

Vec(cls, dv, st, n, c, view) == [k |-> "vector", cls |-> cls, dv |-> dv, st |-> st, n |-> n, c |-> c, view |-> view]
Mat(cls, dv, st, r, cc, c, view) == [k |-> "matrix", cls |-> cls, dv |-> dv, st |-> st, rows |-> r, cols |-> cc, c |-> c, view |-> view]
SOp(r0, r1, c0, c1) == [op |-> "S", r0 |-> r0, r1 |-> r1, c0 |-> c0, c1 |-> c1]
TOp == [op |-> "T"]

MatViews(r, c) ==
  {<<SOp(w[1], w[2], v[1], v[2])>> : w \in Windows(r), v \in Windows(c)} \cup
  {<<SOp(w[1], w[2], v[1], v[2]), TOp>> : w \in Windows(r), v \in Windows(c)} \cup
  {<<TOp, SOp(v[1], v[2], w[1], w[2])>> : w \in Windows(r), v \in Windows(c)}

VectorsRound(u) ==
  UNION {{Vec(cd[1], cd[2], st, n, c, <<>>) : cd \in Classes, st \in Storages, c \in RichContents(n)} : n \in 0..(MaxDim+1)}
VectorViews(u) ==
  UNION {{Vec(cd[1], cd[2], st, n, Content(n, Z, "one", -1), <<[op |-> "S", i |-> w[1], j |-> w[2]]>>) :
            cd \in Classes, st \in Storages, Z \in {{}, {1}, {0, 2}}, w \in Windows(n)} : n \in 1..(MaxDim+2)}

Dims == (0..MaxDim) \X (0..MaxDim)
MatricesRound(u) ==
  UNION {{Mat(cd[1], cd[2], st, rc[1], rc[2], c, v) : cd \in Classes, st \in Storages, c \in RichContents(rc[1] * rc[2]), v \in {<<>>, <<TOp>>}} : rc \in Dims}
(* views: plain elements and real elements that are variables; the all-zero parent shows nothing *)
ViewClasses == {<<"plain", "none">>, <<"real", "var">>}
ViewContents(n) == {Content(n, Z, "one", -1) : Z \in Patterns(n) \ {Pos(n)}}
MatricesViews(u) ==
  UNION {{Mat(cd[1], cd[2], st, rc[1], rc[2], c, v) : cd \in ViewClasses, st \in Storages, c \in ViewContents(rc[1] * rc[2]), v \in MatViews(rc[1], rc[2])}
           : rc \in (1..(MaxDim+1)) \X (1..(MaxDim+1))}

DerivAtoms == IF Rich THEN {"zero", "one", "negzero", "subnormal", "minusTwo"} ELSE {"zero", "one", "negzero"}
HessAtoms  == {"zero", "half"}
Scal(cls, v, order, n, g, h) == [k |-> "scalar", cls |-> cls, st |-> "none", v |-> v, order |-> order, n |-> n, grad |-> g, hess |-> h]
ScalarsRound(u) ==
  {Scal("bare", a, 0, 0, <<>>, <<>>) : a \in Atoms} \cup
  {Scal("real", a, 0, 0, <<>>, <<>>) : a \in Atoms} \cup
  UNION {{Scal("real", a, 1, n, g, <<>>) : a \in {"zero", "half", "maxfinite"}, g \in [1..n -> DerivAtoms]} : n \in 0..2} \cup
  UNION {{Scal("real", a, 2, n, g, h) : a \in {"half", "subnormal"}, g \in [1..n -> {"zero", "one"}], h \in [1..n -> [1..n -> HessAtoms]]} : n \in 0..2}

PlainAtoms == {"zero", "one", "minusTwo", "typeMaxInt", "typeMinInt"}
AtomsOfObj(x) == CASE x.k = "scalar" -> {x.v}
                   [] x.k \in {"vector", "matrix"} -> {x.c[q] : q \in 1..Len(x.c)}
                   [] OTHER -> {}

(* HISTORY: a sparse container may physically hold entries whose value is zero. *)
(* They arise when an element is overwritten with zero, when an absent position *)
(* is touched through At(i), when arithmetic cancels an entry (VsubV / MsubM)   *)
(* or when an element is Reset(); the object is then written WITHOUT any        *)
(* iteration in between.  A stored zero is not part of the denotation: Denote,  *)
(* Encode and Carried ignore the field hist, the document must be that of the   *)
(* same object without history.                                                 *)
HistWays == {"overwrite", "touch", "cancel", "reset"}
WithField(x, name, v) == [fl \in (DOMAIN x) \cup {name} |-> IF fl = name THEN v ELSE x[fl]]
ZeroPos(x) == {q - 1 : q \in {q \in 1..Len(x.c) : x.c[q] = "zero"}}
SparseHistory(u) ==
  UNION {{WithField(x, "hist", [how |-> h, pos |-> p]) : h \in HistWays, p \in {MinOf(ZeroPos(x)), MaxOf(ZeroPos(x))}} :
            x \in {x \in VectorsRound(u) \cup MatricesRound(u) :
                      x.st = "sparse" /\ x.view = <<>> /\ Len(x.c) <= 4 /\ ZeroPos(x) # {} /\ AtomsOfObj(x) \subseteq PlainAtoms}}

(* LONG LINES: a table row may be arbitrarily long.  A wide object is a small    *)
(* object whose columns (vector: elements) are repeated k times, Widen(x, k);    *)
(* the driver chooses k so that every row of the file exceeds the size class     *)
(* (64 KiB, 1 MiB, 4 MiB), the model checks k = 2.  Only dense tables have long  *)
(* rows (sparse tables hold one entry per line); a dense vector is presented in  *)
(* the layout OneLine (all elements in one line, which its reader accepts).      *)
Widen(x, k) ==
  IF x.k = "vector" THEN [x EXCEPT !.n = x.n * k, !.c = [q \in 1..(x.n * k) |-> x.c[((q-1) % x.n) + 1]]]
  ELSE IF x.view = <<>>
       THEN [x EXCEPT !.cols = x.cols * k,
                      !.c = [q \in 1..(x.rows * x.cols * k) |-> x.c[((q-1) \div (x.cols * k)) * x.cols + ((q-1) % x.cols) + 1]]]
       ELSE [x EXCEPT !.rows = x.rows * k,      \* transposed view: the parent grows in rows
                      !.c = [q \in 1..(x.rows * k * x.cols) |-> x.c[((q-1) % (x.rows * x.cols)) + 1]]]
WideObjects(u) ==
  UNION {{WithField(x, "wide", w) : w \in WideClasses} :
     x \in {Mat(cd[1], "none", "dense", rc[1], rc[2], Content(rc[1] * rc[2], {}, "one", -1), v) :
               cd \in {<<"plain">>, <<"real">>}, rc \in {<<1, 4>>, <<2, 4>>}, v \in {<<>>}}
        \cup {Mat(cd[1], "none", "dense", 4, 2, Content(8, {3}, "one", -1), <<TOp>>) : cd \in {<<"plain">>, <<"real">>}}
        \cup {Vec(cd[1], "none", "dense", 4, Content(4, {}, "one", -1), <<>>) : cd \in {<<"plain">>, <<"real">>}}}

RoundObjects(u) == ScalarsRound(u) \cup VectorsRound(u) \cup VectorViews(u) \cup MatricesRound(u) \cup MatricesViews(u)
                     \cup SparseHistory(u) \cup WideObjects(u)

(* small objects for the fault family: every document shape occurs *)
FaultObjects(u) ==
  {Scal("bare", "minusTwo", 0, 0, <<>>, <<>>), Scal("real", "half", 0, 0, <<>>, <<>>),
   Scal("real", "half", 1, 2, <<"one", "zero">>, <<>>),
   Scal("real", "half", 2, 2, <<"one", "zero">>, <<<<"zero", "half">>, <<"half", "zero">>>>),
   Scal("real", "half", 2, 2, <<"zero", "zero">>, <<<<"half", "zero">>, <<"zero", "zero">>>>)} \cup
  {Vec(cd[1], cd[2], st, n, Content(n, Z, "one", -1), <<>>) : cd \in Classes, st \in Storages, n \in {0, 3}, Z \in {{}, {1}}} \cup
  {Mat(cd[1], cd[2], st, 2, 2, Content(4, Z, "one", -1), <<>>) : cd \in Classes, st \in Storages, Z \in {{}, {1, 2}}} \cup
  {Mat("plain", "none", st, 0, 0, <<>>, <<>>) : st \in Storages} \cup
  {Mat("plain", "none", "sparse", 3, 4, Content(12, {1, 2, 5, 6, 7, 8, 10}, "one", -1), <<>>)} \cup
  {Mat("plain", "none", st, 2, 3, Content(6, {}, "one", -1), <<SOp(0, 2, 1, 3)>>) : st \in {"dense"}}

DistObjects(u) == {[k |-> "dist", cls |-> "none", st |-> "none", cfg |-> c] : c \in DistCfgs(u)}

Objects == CASE Family = "round" -> RoundObjects(0)
             [] Family = "fault" -> FaultObjects(0)
             [] Family = "dist"  -> DistObjects(0)
Formats(x) == IF x.k \in {"scalar", "dist"} THEN {"json"} ELSE IF "wide" \in DOMAIN x THEN {"table"} ELSE {"json", "table"}

(* ------------------------------------------------------------------- faults *)
(* A fault names a place of the document: a field of the top-level object     *)
(* ("" = the root), optionally an element of the array found there, or a      *)
(* line / token of a table.                                                  *)
OtherTypes(nd) == {"str", "num", "arr", "null", "obj"} \ {IF nd.t = "int" THEN "num" ELSE nd.t}
Blank(t) == CASE t = "str" -> Str("x") [] t = "num" -> Num("one") [] t = "arr" -> Arr(<<>>)
              [] t = "null" -> Null [] t = "obj" -> Obj([Bogus |-> Num("one")])

(* An entry of an INTEGER container at the bounds of its element type, written  *)
(* as decimal integer, with a fraction ("128.0") or in exponent notation        *)
(* ("1.28e2"): max and min must be read exactly or rejected, max+1 ("above")    *)
(* and min-1 ("below") must be rejected - never wrap around.  The notation is   *)
(* a matter of bytes; in the abstract document max/min are the type-bound atoms *)
(* and above/below are a token that is no element value.                        *)
RangeVals == {"max", "min", "above", "below"}
Notations == {"dec", "float", "exp"}
RangeTok(v) == IF v = "max" THEN Num("typeMaxInt") ELSE IF v = "min" THEN Num("typeMinInt") ELSE [t |-> "oor", w |-> v]

JsonFaults(nd) ==
  IF nd.t = "obj" THEN
       {[f |-> "DropField", field |-> fl] : fl \in DOMAIN nd.f}
  \cup {[f |-> "WrongType", field |-> fl, idx |-> -1, to |-> t] : <<fl, t>> \in {<<fl, t>> \in (DOMAIN nd.f) \X {"str", "num", "arr", "null", "obj"} : t \in OtherTypes(nd.f[fl])}}
  \cup {[f |-> "WrongType", field |-> fl, idx |-> 0, to |-> t] : <<fl, t>> \in {<<fl, t>> \in (DOMAIN nd.f) \X {"str", "arr", "null", "obj"} : nd.f[fl].t = "arr" /\ Len(nd.f[fl].v) > 0}}
  \cup {[f |-> "LenMismatch", field |-> fl, delta |-> d] : <<fl, d>> \in {<<fl, d>> \in (DOMAIN nd.f) \X {-1, 1} : nd.f[fl].t = "arr" /\ (d = 1 \/ Len(nd.f[fl].v) > 0)}}
  \cup {[f |-> "NegDim", field |-> fl] : fl \in (DOMAIN nd.f) \cap {"Rows", "Cols", "Length"}}
  \cup UNION {{[f |-> "EntryRange", field |-> fl, idx |-> Len(nd.f[fl].v) - 1, val |-> v, notation |-> nt] : v \in RangeVals, nt \in Notations} :
                 fl \in {fl \in (DOMAIN nd.f) \cap {"Values", "Value"} : nd.f[fl].t = "arr" /\ Len(nd.f[fl].v) > 0 /\ nd.f[fl].v[Len(nd.f[fl].v)].t = "num"}}
  \cup (IF {"Index", "Value"} \subseteq DOMAIN nd.f /\ nd.f.Index.t = "arr" /\ Len(nd.f.Index.v) > 0
        THEN {[f |-> "DupIndex"], [f |-> "IndexOutOfRange", how |-> "high"], [f |-> "IndexOutOfRange", how |-> "negative"], [f |-> "LengthTooSmall"]} ELSE {})
  \cup {[f |-> "Truncate"]}
  ELSE IF nd.t = "arr" THEN
       {[f |-> "WrongType", field |-> "", idx |-> -1, to |-> t] : t \in {"str", "num", "null", "obj"}}
  \cup (IF Len(nd.v) > 0 /\ nd.v[Len(nd.v)].t = "num"
        THEN {[f |-> "EntryRange", field |-> "", idx |-> Len(nd.v) - 1, val |-> v, notation |-> nt] : v \in RangeVals, nt \in Notations} ELSE {})
  \cup (IF Len(nd.v) > 0 THEN {[f |-> "WrongType", field |-> "", idx |-> 0, to |-> t] : t \in {"str", "arr", "null", "obj"}} ELSE {})
  \cup {[f |-> "Truncate"]}
  ELSE IF nd.t = "num" THEN
       {[f |-> "WrongType", field |-> "", idx |-> -1, to |-> t] : t \in {"str", "arr", "null", "obj"}} \cup {[f |-> "Truncate"]}
       (* a bare scalar document of an integer scalar type: bounds, a fraction, a huge number *)
       \cup {[f |-> "EntryRange", field |-> "", idx |-> -1, val |-> v, notation |-> nt] : v \in RangeVals \cup {"frac", "huge"}, nt \in Notations}
  ELSE {}

MaxZ(a) == IF a > 0 THEN a ELSE 0
CellOuts == {"col=cols", "col=cols+1", "col=-1", "row=rows", "row=-1"}
CellCoord(o, w, R, C) ==   \* <<i, j>> of the damaged entry for header R C
  LET vi == IF w = "first" THEN 0 ELSE MaxZ(R - 1)
      vj == IF w = "first" THEN 0 ELSE MaxZ(C - 1)
  IN CASE o = "col=cols" -> <<vi, C>> [] o = "col=cols+1" -> <<vi, C + 1>> [] o = "col=-1" -> <<vi, -1>>
       [] o = "row=rows" -> <<R, vj>> [] o = "row=-1" -> <<-1, vj>>

TableFaults(nd, x) ==
  IF nd.t # "table" THEN {} ELSE
       {[f |-> "EmptyFile"], [f |-> "BlankLine", line |-> 0], [f |-> "BlankLine", line |-> Len(nd.l)]}
  \cup (IF Len(nd.l) > 0 THEN {[f |-> "DropLine", line |-> 0], [f |-> "DropLine", line |-> Len(nd.l) - 1]} ELSE {})
  \cup UNION {{[f |-> "DropToken", line |-> q-1], [f |-> "ExtraToken", line |-> q-1], [f |-> "NonNumeric", line |-> q-1, tok |-> 0]} :
                 q \in {q \in 1..Len(nd.l) : Len(nd.l[q]) > 0}}
  \cup (IF x.cls = "plain" /\ Len(nd.l) > (IF x.st = "sparse" THEN 1 ELSE 0) /\ Len(nd.l[Len(nd.l)]) > 0
           /\ nd.l[Len(nd.l)][Len(nd.l[Len(nd.l)])].t = "num"
        THEN {[f |-> "EntryRange", line |-> Len(nd.l) - 1, tok |-> Len(nd.l[Len(nd.l)]) - 1, val |-> v, notation |-> nt] :
                 v \in RangeVals, nt \in Notations}
        ELSE {})
  (* sparse matrix entries around the bounds: one coordinate just outside, the other one valid *)
  \cup (IF x.k = "matrix" /\ x.st = "sparse" /\ Len(nd.l) > 1 /\ Len(nd.l[1]) = 2 /\ Len(nd.l[Len(nd.l)]) = 3
        THEN {[f |-> "CellIndex", out |-> o, other |-> w] : o \in CellOuts, w \in {"first", "last"}} ELSE {})
  \cup (IF x.st = "sparse" /\ Len(nd.l) > 0 /\ Len(nd.l[1]) > 0
        THEN {[f |-> "NegDim", field |-> "header"]} \cup
             (IF Len(nd.l) > 1 /\ Len(nd.l[2]) > 0 /\ Len(nd.l[Len(nd.l)]) > 0 THEN {[f |-> "DupIndex"], [f |-> "IndexOutOfRange", how |-> "high"], [f |-> "IndexOutOfRange", how |-> "negative"], [f |-> "LengthTooSmall"]} ELSE {})
        ELSE {})

CfgFaults(nd) ==
  IF nd.t # "obj" THEN {} ELSE
       {[f |-> "DropField", field |-> fl, depth |-> d] : <<fl, d>> \in {<<fl, d>> \in {"Name", "Parameters", "Distributions"} \X {0, 1} : d = 0 \/ (nd.f.Distributions.t = "arr" /\ Len(nd.f.Distributions.v) > 0)}}
  \cup {[f |-> "WrongType", field |-> fl, depth |-> d, to |-> t] :
          <<fl, d, t>> \in {<<fl, d, t>> \in {"Name", "Parameters", "Distributions"} \X {0, 1} \X {"str", "num", "arr", "null", "obj"} :
               /\ (d = 0 \/ (nd.f.Distributions.t = "arr" /\ Len(nd.f.Distributions.v) > 0))
               /\ ~(fl = "Name" /\ t = "str") /\ ~(fl = "Distributions" /\ t = "arr")}}
  \cup {[f |-> "UnknownName", depth |-> d] : d \in {d \in {0, 1} : d = 0 \/ Len(nd.f.Distributions.v) > 0}}
  \cup {[f |-> "ParamLen", depth |-> d, delta |-> dl] : <<d, dl>> \in {<<d, dl>> \in {0, 1} \X {-1, 1} : d = 0 \/ Len(nd.f.Distributions.v) > 0}}
  \cup {[f |-> "ParamElemType", depth |-> d, to |-> t] : <<d, t>> \in {<<d, t>> \in {0, 1} \X {"str", "null", "arr"} : d = 0 \/ Len(nd.f.Distributions.v) > 0}}
  \cup {[f |-> "ParamIndexRange", depth |-> d] : d \in {d \in {0, 1} : d = 0 \/ Len(nd.f.Distributions.v) > 0}}
  \cup {[f |-> "ChildCount", delta |-> dl] : dl \in {dl \in {-1, 1} : dl = 1 \/ Len(nd.f.Distributions.v) > 0}}
  \cup {[f |-> "Truncate"]}

FaultsOf(nd, x, fm) ==
  IF nd.t = "broken" THEN {}
  ELSE IF x.k = "dist" THEN CfgFaults(nd)
  ELSE IF fm = "json" THEN {ft \in JsonFaults(nd) : ft.f = "EntryRange" => ((x.k # "scalar" /\ x.cls = "plain") \/ (x.k = "scalar" /\ x.cls = "bare"))}
  ELSE TableFaults(nd, x)

(* effect of a fault on the abstract document *)
SetField(nd, fl, v) == Obj([y \in DOMAIN nd.f |-> IF y = fl THEN v ELSE nd.f[y]])
DropLast(s) == SubSeq(s, 1, Len(s) - 1)
MaxIdx(I) == MaxOf({I.v[q].i : q \in 1..Len(I.v)})
Neg(i) == IF i > 0 THEN 0 - i ELSE -1

SizeOf(nd) == IF "Length" \in DOMAIN nd.f /\ nd.f.Length.t = "int" THEN nd.f.Length.i
              ELSE IF {"Rows", "Cols"} \subseteq DOMAIN nd.f /\ nd.f.Rows.t = "int" /\ nd.f.Cols.t = "int" THEN nd.f.Rows.i * nd.f.Cols.i
              ELSE 1000
ApplyJson(nd, ft) ==
  CASE ft.f = "Truncate" -> Broken
    [] ft.f = "EntryRange" /\ ft.field = "" /\ ft.idx = -1 -> RangeTok(ft.val)
    [] ft.f = "EntryRange" /\ ft.field = "" /\ ft.idx >= 0 -> Arr([nd.v EXCEPT ![ft.idx + 1] = RangeTok(ft.val)])
    [] ft.f = "EntryRange" /\ ft.field # "" -> SetField(nd, ft.field, Arr([nd.f[ft.field].v EXCEPT ![ft.idx + 1] = RangeTok(ft.val)]))
    [] ft.f = "DropField" -> Obj([y \in (DOMAIN nd.f) \ {ft.field} |-> nd.f[y]])
    [] ft.f = "WrongType" /\ ft.field = "" /\ ft.idx = -1 -> Blank(ft.to)
    [] ft.f = "WrongType" /\ ft.field = "" /\ ft.idx >= 0 -> Arr([nd.v EXCEPT ![ft.idx + 1] = Blank(ft.to)])
    [] ft.f = "WrongType" /\ ft.field # "" /\ ft.idx = -1 -> SetField(nd, ft.field, Blank(ft.to))
    [] ft.f = "WrongType" /\ ft.field # "" /\ ft.idx >= 0 ->
         SetField(nd, ft.field, Arr([nd.f[ft.field].v EXCEPT ![ft.idx + 1] = Blank(ft.to)]))
    [] ft.f = "LenMismatch" ->
         LET a == nd.f[ft.field].v IN
         SetField(nd, ft.field, Arr(IF ft.delta = -1 THEN DropLast(a)
                                     ELSE Append(a, IF ft.field = "Index" THEN IntN(0)
                                                    ELSE IF ft.field = "Hessian" THEN Arr(<<>>) ELSE Num("one"))))
    [] ft.f = "NegDim" -> SetField(nd, ft.field, IF nd.f[ft.field].t = "int" THEN IntN(Neg(nd.f[ft.field].i)) ELSE nd.f[ft.field])
    [] ft.f = "DupIndex" ->
         (* the first entry is repeated at the end: index and value arrays stay equally long *)
         SetField(SetField(nd, "Index", Arr(Append(nd.f.Index.v, nd.f.Index.v[1]))),
                  "Value", IF nd.f.Value.t = "arr" THEN Arr(Append(nd.f.Value.v, Num("one"))) ELSE nd.f.Value)
    [] ft.f = "IndexOutOfRange" ->
         SetField(nd, "Index", Arr([nd.f.Index.v EXCEPT ![Len(nd.f.Index.v)] =
              IF ft.how = "negative" THEN IntN(-1) ELSE IntN(SizeOf(nd))]))
    [] ft.f = "LengthTooSmall" ->
         (* the dimension is reduced to the largest index (vector) / one row less (matrix) *)
         IF "Length" \in DOMAIN nd.f /\ nd.f.Length.t = "int" /\ IsArrOf(nd.f.Index, IsInt)
           THEN SetField(nd, "Length", IntN(MaxIdx(nd.f.Index)))
         ELSE IF "Rows" \in DOMAIN nd.f /\ nd.f.Rows.t = "int" /\ nd.f.Rows.i > 0
           THEN SetField(nd, "Rows", IntN(nd.f.Rows.i - 1))
         ELSE nd

TokStr == [t |-> "str", s |-> "x"]
ApplyTable(nd, ft, x) ==
  LET L == nd.l IN
  CASE ft.f = "EmptyFile" -> Tab(<<>>)
    [] ft.f = "BlankLine" -> Tab([q \in 1..(Len(L)+1) |-> IF q <= ft.line THEN L[q] ELSE IF q = ft.line + 1 THEN <<>> ELSE L[q-1]])   \* a line of white space
    [] ft.f = "DropLine" -> Tab([q \in 1..(Len(L)-1) |-> IF q <= ft.line THEN L[q] ELSE L[q+1]])
    [] ft.f = "DropToken" -> Tab([L EXCEPT ![ft.line + 1] = DropLast(@)])
    [] ft.f = "ExtraToken" -> Tab([L EXCEPT ![ft.line + 1] = Append(@, Num("one"))])
    [] ft.f = "NonNumeric" -> Tab([L EXCEPT ![ft.line + 1] = [@ EXCEPT ![ft.tok + 1] = TokStr]])
    [] ft.f = "EntryRange" -> Tab([L EXCEPT ![ft.line + 1] = [@ EXCEPT ![ft.tok + 1] = RangeTok(ft.val)]])
    [] ft.f = "CellIndex" ->
         IF L[1][1].t = "int" /\ L[1][2].t = "int"
         THEN LET ij == CellCoord(ft.out, ft.other, L[1][1].i, L[1][2].i) IN
              Tab([L EXCEPT ![Len(L)] = [@ EXCEPT ![1] = IntN(ij[1]), ![2] = IntN(ij[2])]])
         ELSE nd
    [] ft.f = "NegDim" -> Tab([L EXCEPT ![1] = [@ EXCEPT ![1] = IF @.t = "int" THEN IntN(Neg(@.i)) ELSE @]])
    [] ft.f = "DupIndex" -> Tab(Append(L, [L[2] EXCEPT ![Len(L[2])] = Num("one")]))
    [] ft.f = "IndexOutOfRange" ->
         Tab([L EXCEPT ![Len(L)] = [@ EXCEPT ![1] = IF ft.how = "negative" \/ L[1][1].t # "int" THEN IntN(-1) ELSE IntN(L[1][1].i)]])
    [] ft.f = "LengthTooSmall" ->
         Tab([L EXCEPT ![1] = [@ EXCEPT ![1] = IF @.t = "int" /\ L[Len(L)][1].t = "int" THEN IntN(L[Len(L)][1].i) ELSE @]])

(* descend to the configuration at the given depth (first child) and rebuild *)
AtDepth(nd, d, F(_)) ==
  IF d = 0 THEN F(nd)
  ELSE SetField(nd, "Distributions", Arr([nd.f.Distributions.v EXCEPT ![1] = F(@)]))
ApplyCfg(nd, ft) ==
  CASE ft.f = "Truncate" -> Broken
    [] ft.f = "DropField" -> AtDepth(nd, ft.depth, LAMBDA c : Obj([y \in (DOMAIN c.f) \ {ft.field} |-> c.f[y]]))
    [] ft.f = "WrongType" -> AtDepth(nd, ft.depth, LAMBDA c : SetField(c, ft.field, Blank(ft.to)))
    [] ft.f = "UnknownName" -> AtDepth(nd, ft.depth, LAMBDA c : SetField(c, "Name", Str("no such distribution")))
    [] ft.f = "ParamLen" -> AtDepth(nd, ft.depth, LAMBDA c : SetField(c, "Parameters", [t |-> "badparams"]))
    [] ft.f = "ParamIndexRange" -> AtDepth(nd, ft.depth, LAMBDA c : SetField(c, "Parameters", [t |-> "badparams"]))   \* an index parameter (constraint cell, state map) far out of range
    [] ft.f = "ParamElemType" -> AtDepth(nd, ft.depth, LAMBDA c : SetField(c, "Parameters", [t |-> "badparams"]))
    [] ft.f = "ChildCount" -> SetField(nd, "Distributions",
                                 Arr(IF ft.delta = -1 THEN DropLast(nd.f.Distributions.v)
                                     ELSE Append(nd.f.Distributions.v, Leaf("scalar:normal distribution"))))

ApplyFault(nd, ft, x, fm) ==
  IF x.k = "dist" THEN ApplyCfg(nd, ft) ELSE IF fm = "json" THEN ApplyJson(nd, ft) ELSE ApplyTable(nd, ft, x)

(* ------------------------------------------------------------------ layouts *)
(* A table document is a sequence of lines of blank-separated tokens; the     *)
(* readers split lines at "\n" (bufioReadLine explicitly accepts a last line  *)
(* without terminator) and tokens with strings.Fields.  The same abstract     *)
(* document therefore has several legal byte layouts.  The abstract document  *)
(* and hence Decode do not depend on the layout:                              *)
(*   NoFinalNewline  the last line is not terminated  -> roundtrip-equal      *)
(*   CRLF, TrailingBlanks  (not documented by the readers, but they fall out  *)
(*   of strings.Fields) -> roundtrip-equal or an error, never another object  *)
TableLayouts == {"canonical", "NoFinalNewline", "CRLF", "TrailingBlanks"}
(* OneLine (dense vectors of the long-line class only): all elements in a single line; the reader takes every token of a line *)
Special(x) == "wide" \in DOMAIN x \/ "hist" \in DOMAIN x
LayoutsOf(x, f) ==
  IF "wide" \in DOMAIN x THEN (IF x.k = "vector" THEN {"OneLine"} ELSE {"canonical"})
  ELSE IF "hist" \in DOMAIN x THEN {"canonical"}
  ELSE IF f = "table" /\ x.k \in {"vector", "matrix"} /\ x.view = <<>> /\ (Family = "fault" \/ (x.cls = "plain" /\ x.dv = "none"))
  THEN (IF Encode(x, f).l = <<>> THEN TableLayouts \ {"NoFinalNewline"} ELSE TableLayouts)   \* a file without lines has no last line
  ELSE {"canonical"}

(* ---------------------------------------------------------------- receivers *)
(* Every reader (UnmarshalJSON, Import, ImportConfig) writes INTO an existing *)
(* object.  Contract: after a successful read the receiver equals what the    *)
(* document carries, whatever the receiver was before - a fresh zero value, a *)
(* used object of another shape that holds other data (longer / shorter; for  *)
(* sparse storage: existing entries), a transposed view, a sliced view.  The  *)
(* contract decoder Decoded does not look at the receiver at all; the driver  *)
(* builds the receiver described here (all positions filled with non-zero     *)
(* data, real elements are variables) and reads into it.                      *)
Rcv(pre, r, c, v) == [pre |-> pre, rows |-> r, cols |-> c, view |-> v]
FreshRcv == Rcv("fresh", 0, 0, <<>>)
UsedReceivers(x) ==
  LET d == Denote(x) IN
  CASE x.k = "scalar" /\ x.cls # "real" -> {Rcv("used", 0, 0, <<>>)}
    [] x.k = "scalar" /\ x.cls = "real" ->
         (* rows = Order, cols = N of the used receiver: order 1 and 2, N equal to the N the document carries and different *)
         LET cn == Carried(x, "json").n
             same == IF cn > 0 THEN cn ELSE 2
         IN {Rcv("used-o1-sameN", 1, same, <<>>), Rcv("used-o2-sameN", 2, same, <<>>),
             Rcv("used-o1-otherN", 1, same + 1, <<>>), Rcv("used-o2-otherN", 2, same + 1, <<>>)}
    [] x.k = "dist"   -> {Rcv("used", 0, 0, <<>>)}
    [] x.k = "vector" ->
         {Rcv("longer", d.n + 2, 0, <<>>), Rcv("sliced", d.n + 2, 0, <<[op |-> "S", i |-> 1, j |-> d.n + 1]>>)}
         \cup (IF d.n >= 1 THEN {Rcv("shorter", d.n - 1, 0, <<>>)} ELSE {})
    [] x.k = "matrix" ->
         {Rcv("larger", d.rows + 1, d.cols + 2, <<>>),
          Rcv("transposed", d.cols + 2, d.rows + 1, <<TOp>>),
          Rcv("transposedSame", d.cols, d.rows, <<TOp>>),
          Rcv("sliced", d.rows + 2, d.cols + 2, <<SOp(1, d.rows + 1, 1, d.cols + 1)>>),
          Rcv("slicedT", d.cols + 2, d.rows + 2, <<SOp(1, d.cols + 1, 1, d.rows + 1), TOp>>)}
         \cup (IF d.rows >= 1 \/ d.cols >= 1 THEN {Rcv("smaller", MaxZ(d.rows - 1), MaxZ(d.cols - 1), <<>>)} ELSE {})
ReceiversOf(x, f) ==
  IF "wide" \in DOMAIN x \/ "hist" \in DOMAIN x THEN {FreshRcv}
  ELSE IF x.k \in {"scalar", "dist"} \/ Family = "fault"
     \/ (x.k \in {"vector", "matrix"} /\ x.view = <<>> /\ Len(x.c) <= 6 /\ AtomsOfObj(x) \subseteq PlainAtoms)
  THEN {FreshRcv} \cup UsedReceivers(x) ELSE {FreshRcv}

(* Mechanism layer for the one reader that keeps a header next to the storage: *)
(* the dense matrix (rows, cols, rowMax, colMax, offsets, transposed flag;     *)
(* index() transcribed from matrix_dense_template.in).  UnmarshalJSON must     *)
(* reset EVERY header field, otherwise the new storage is seen through the old *)
(* view of the receiver.                                                       *)
MHdr(vals, r, c) == [values |-> vals, rows |-> r, cols |-> c, rowMax |-> r, colMax |-> c,
                     rowOffset |-> 0, colOffset |-> 0, transposed |-> FALSE]
MechT(h) == [h EXCEPT !.rows = h.cols, !.cols = h.rows, !.transposed = ~h.transposed,
                      !.rowOffset = h.colOffset, !.rowMax = h.colMax, !.colOffset = h.rowOffset, !.colMax = h.rowMax]
MechSlice(h, r0, r1, c0, c1) == [h EXCEPT !.rowOffset = @ + r0, !.rows = r1 - r0, !.colOffset = @ + c0, !.cols = c1 - c0]
MechIndex(h, i, j) == IF h.transposed THEN (h.colOffset + j) * h.rowMax + (h.rowOffset + i)
                      ELSE (h.rowOffset + i) * h.colMax + (h.colOffset + j)
MechDenote(h) == [k |-> "matrix", rows |-> h.rows, cols |-> h.cols,
                  c |-> [q \in 1..(h.rows * h.cols) |-> h.values[MechIndex(h, (q-1) \div h.cols, (q-1) % h.cols) + 1]]]
RECURSIVE MechView(_, _)
MechView(h, w) == IF w = <<>> THEN h
                  ELSE MechView(IF Head(w).op = "T" THEN MechT(h) ELSE MechSlice(h, Head(w).r0, Head(w).r1, Head(w).c0, Head(w).c1), Tail(w))
MechReceiver(r) == MechView(MHdr([q \in 1..(r.rows * r.cols) |-> El("one", 0, -1)], r.rows, r.cols), r.view)
MechUnmarshal(h, d) == [h EXCEPT !.values = d.c, !.rows = d.rows, !.rowMax = d.rows, !.rowOffset = 0,
                                 !.cols = d.cols, !.colMax = d.cols, !.colOffset = 0, !.transposed = FALSE]
(* the header arithmetic refines the view contract, and the read is independent of the receiver *)
MechViewRefines == (obj.k = "matrix" /\ rcv.pre # "fresh") =>
   MechDenote(MechReceiver(rcv)) =
     LET m == ApplyM([rows |-> rcv.rows, cols |-> rcv.cols, c |-> [q \in 1..(rcv.rows * rcv.cols) |-> El("one", 0, -1)]], rcv.view)
     IN [k |-> "matrix", rows |-> m.rows, cols |-> m.cols, c |-> m.c]
ReceiverIndependent == (obj.k = "matrix" /\ obj.st = "dense" /\ fmt = "json" /\ ~IsErr(Decoded)) =>
   MechDenote(MechUnmarshal(MechReceiver(rcv), Decoded)) = Decoded

(* ------------------------------------------------------------------ machine *)
Init == /\ obj \in Objects
        /\ fmt \in Formats(obj)
        /\ faults = <<>>
        /\ doc = Encode(obj, fmt)
        /\ lay \in LayoutsOf(obj, fmt)
        /\ rcv \in (IF lay = "canonical" THEN ReceiversOf(obj, fmt) ELSE {FreshRcv})

(* the contract is independent of the width *)
WideRoundTrip == (faults = <<>> /\ "wide" \in DOMAIN obj) =>
   DecodeAs(Encode(Widen(obj, 2), fmt), obj.k, obj.cls, obj.st, fmt) = Carried(Widen(obj, 2), fmt)

Fault == /\ Len(faults) < MaxFaults
         /\ lay = "canonical"
         /\ rcv.pre = "fresh"
         /\ \E ft \in FaultsOf(doc, obj, fmt) :
              /\ faults' = Append(faults, ft)
              /\ doc' = ApplyFault(doc, ft, obj, fmt)
         /\ UNCHANGED <<obj, fmt, lay, rcv>>

Next == Fault
Spec == Init /\ [][Next]_vars

(* element types the case applies to: integer types only get integer atoms *)
AtomsOf(x) == CASE x.k = "scalar" -> {x.v}
                [] x.k \in {"vector", "matrix"} -> {x.c[q] : q \in 1..Len(x.c)}
                [] OTHER -> {}
TypesOf(x) ==
  LET all == CASE x.k = "scalar" /\ x.cls = "bare" -> FloatTypes \cup IntTypes \cup ConstTypes
               [] x.k = "scalar" /\ x.cls = "real" -> RealTypes
               [] x.k = "dist" -> {"Float64"}
               [] x.cls = "plain" -> FloatTypes \cup IntTypes
               [] x.cls = "real"  -> RealTypes
  IN {ty \in all : \A a \in AtomsOf(x) : AtomOK(ty, a)}

RangeFault == Len(faults) = 1 /\ faults[1].f \in {"EntryRange", "CellIndex"}
Case ==
  [obj |-> obj, fmt |-> fmt, faults |-> faults, layout |-> lay, rcv |-> rcv,
   types |-> IF \E q \in 1..Len(faults) : faults[q].f = "EntryRange" THEN TypesOf(obj) \cap IntLike ELSE TypesOf(obj),
   expect |-> IF RangeFault THEN (IF faults[1].f = "CellIndex" \/ faults[1].val \notin {"max", "min"} THEN "error" ELSE "exact-or-error")
              ELSE IF faults # <<>> THEN "error-or-wellformed"
              ELSE IF lay \in {"CRLF", "TrailingBlanks", "OneLine"} THEN "roundtrip-equal-or-error" ELSE "roundtrip-equal",
   exp |-> IF RangeFault /\ ~IsErr(Decoded) THEN Decoded
           ELSE IF faults # <<>> THEN [k |-> "none"] ELSE Carried(obj, fmt),
   dev |-> IF faults = <<>> /\ TableLosesDims(obj, fmt) THEN "table-dims" ELSE "none",
   model |-> IF IsErr(Decoded) THEN "error" ELSE "object"]

EmitCase == Emit => PrintT(ToJson(Case))
=============================================================================
