--------------------------- MODULE ContainersCases ---------------------------
(***************************************************************************)
(* Case enumeration for C03 / C09 over the contract Containers.tla.        *)
(*                                                                         *)
(* A case = operation x shapes x operand contents x REPRESENTATION of the  *)
(* receiver (storage kind + what it held before the call) and of every     *)
(* operand (storage kind + which zeros are stored explicitly).  TLC        *)
(* enumerates all cases inside the bounds and prints them together with    *)
(* the result content the contract demands (`exp`) -- the oracle of the    *)
(* conformance driver harness/cmd/containers.  One printed record carries  *)
(* ALL representations of each operand (`reps`: storage kind -> stored     *)
(* positions); the cases of a record are the members of                    *)
(* DOMAIN a.reps \X DOMAIN b.reps -- the same expected content for all of  *)
(* them: that IS the property.                                             *)
(*                                                                         *)
(* state graph:  start --> family (operation, shapes) --> receiver --> case*)
(*                                                                         *)
(* storage kinds  "d" dense                                                *)
(*                "s" sparse, exactly the non-zero entries are stored      *)
(*                "z" sparse, every zero is stored explicitly as well      *)
(*                "h" sparse, zeros at odd positions are stored explicitly *)
(* prior receiver content classes (pc): "zeros", "nz" (every entry         *)
(* non-zero), "mixo"/"mixe" (non-zero at odd / even positions).            *)
(***************************************************************************)
EXTENDS Containers, Json

CONSTANTS Mode,     \* "c03": all storage combinations; "c09": operands of the receiver's storage class + scalar cases
          MaxN,     \* vectors of length 0..MaxN
          Big,      \* 0: matrices up to 2x2;  1: additionally 2x3 and 3x2
          Rich,     \* 0: basic representations;  1: additionally "h" operands, more prior contents
          Cap,      \* bound on the number of content pairs per (family, receiver)
          Sim,      \* TRUE: contents are drawn at random (for -simulate), vector sizes up to SimN
          SimN,
          ZeroVar,  \* TRUE: operand a ranges over {0, zero-valued VARIABLE, 1}: an element <<0, d>> with d # 0
                    \* (value zero, derivative not: not a zero of a magic element type; the symbol 9 stands for it)
          Part,     \* "all", or one group of operation families: "vec" | "mat" | "prod" (to split large runs)
          Emit      \* print the cases

VARIABLES ph, fam, rcv, c, rx, ry
vars == <<ph, fam, rcv, c, rx, ry>>

V3    == {0, 1, -2}
V2a   == {0, 1}
VA3   == IF ZeroVar THEN {0, 9, 1} ELSE V3      \* domains of operand a
VA2   == IF ZeroVar THEN {9, 1} ELSE V2a
V2b   == {0, -2}
D3    == {0, 2, -4}         \* numerators: every quotient by a non-zero element of V3 is exact
D2    == {0, 2}
SVals == {0, 1, -2}         \* scalar operands of the broadcast operations

(* derivative weights per role and position (1-based) *)
Wa(k) == k
Wb(k) == 3 - 2 * k
Ws    == 3
DualOf(v, w) == IF v = 9 THEN <<0, w>> ELSE Dual(v, w)
MkA(vs) == SeqOf(Len(vs), LAMBDA k : DualOf(vs[k], Wa(k)))
MkB(vs) == SeqOf(Len(vs), LAMBDA k : Dual(vs[k], Wb(k)))
MkS(v)  == Dual(v, Ws)
MkV(vs) == SeqOf(Len(vs), LAMBDA k : <<vs[k], 0>>)     \* plain values (construction from value lists)
NoS     == Z

Tuples(n, D) == IF n = 0 THEN {<<>>} ELSE [1..n -> D]
Len2(rows, cols) == IF cols < 0 THEN rows ELSE rows * cols

(* ---- representations --------------------------------------------------- *)
NonZero(cc) == {i \in 1..Len(cc) : cc[i] # Z}
Stored(k, cc) == CASE k = "d" -> 1..Len(cc)
                   [] k = "s" -> NonZero(cc)
                   [] k = "z" -> 1..Len(cc)
                   [] k = "h" -> NonZero(cc) \cup {i \in 1..Len(cc) : i % 2 = 1}
IsSparse(k) == k \in {"s", "z", "h"}

\* a receiver: one representation and what it held before the call
Rep(k, rows, cols, cc, pc) ==
  [k |-> k, rows |-> rows, cols |-> cols, c |-> cc, st |-> Stored(k, cc), pc |-> pc]
None == [k |-> "-", rows |-> 0, cols |-> -1, c |-> <<>>, st |-> {}, pc |-> "-"]

\* the distinct representations of an operand with content cc
OpKinds(cc) ==
  {"d", "s"} \cup (IF NonZero(cc) # 1..Len(cc) THEN {"z"} ELSE {})
             \cup (IF Rich = 1 /\ Stored("h", cc) \notin {Stored("s", cc), Stored("z", cc)} THEN {"h"} ELSE {})
\* C09 compares the generic with the concrete-typed method: operands of the receiver's storage class
KindsFor(r, cc) == IF Mode = "c03" THEN OpKinds(cc)
                   ELSE IF r.k = "-" THEN OpKinds(cc)
                   ELSE {k \in OpKinds(cc) : IsSparse(k) = IsSparse(r.k)}
\* an operand: content + all its representations
Opd(r, rows, cols, cc) == [rows |-> rows, cols |-> cols, c |-> cc, reps |-> [k \in KindsFor(r, cc) |-> Stored(k, cc)]]
NoOpd == [rows |-> 0, cols |-> -1, c |-> <<>>, reps |-> [k \in {"-"} |-> {}]]

PZ(n)  == SeqOf(n, LAMBDA i : Z)
PN(n)  == SeqOf(n, LAMBDA i : IF i % 2 = 1 THEN <<2, 5>> ELSE <<-1, 5>>)
PMo(n) == SeqOf(n, LAMBDA i : IF i % 2 = 1 THEN <<2, 5>> ELSE Z)
PMe(n) == SeqOf(n, LAMBDA i : IF i % 2 = 0 THEN <<-1, 5>> ELSE Z)
\* receivers: storage kind x prior content (sampled by class)
Receivers(rows, cols) ==
  LET n == Len2(rows, cols) IN
  { Rep("d", rows, cols, PZ(n), "zeros"), Rep("d", rows, cols, PN(n), "nz"),
    Rep("s", rows, cols, PZ(n), "zeros"),       \* empty sparse receiver
    Rep("z", rows, cols, PZ(n), "zeros"),       \* explicit zeros only
    Rep("s", rows, cols, PN(n), "nz"),
    Rep("s", rows, cols, PMo(n), "mixo"),       \* unrelated non-zeros, other entries absent
    Rep("z", rows, cols, PMo(n), "mixo") }      \* unrelated non-zeros, other entries explicit zeros
  \cup (IF Rich = 1 THEN { Rep("d", rows, cols, PMo(n), "mixo"), Rep("d", rows, cols, PMe(n), "mixe"),
                           Rep("s", rows, cols, PMe(n), "mixe"), Rep("h", rows, cols, PMe(n), "mixe") } ELSE {})

Exp(t, cc, bb) == [t |-> t, c |-> cc, b |-> bb]
Case(op, r, a, b, s, dims) ==
  [op |-> op, r |-> r, a |-> a, b |-> b, s |-> s, dims |-> dims,
   exp |-> Exp("c", Result(op, a.c, b.c, s, dims), FALSE)]

(* ---- families ----------------------------------------------------------- *)
Fam(op, rows, cols, inner) == [op |-> op, rows |-> rows, cols |-> cols, inner |-> inner]
NoFam == Fam("-", 0, 0, 0)
VecLens   == 0..MaxN
MatShapes == {<<0, 0>>, <<1, 1>>, <<1, 2>>, <<2, 1>>, <<2, 2>>} \cup (IF Big = 1 THEN {<<2, 3>>, <<3, 2>>} ELSE {})
PosShapes == {sh \in MatShapes : sh[1] > 0}
Inner     == IF Big = 1 THEN 1..3 ELSE 1..2

AllFamilies ==
     {Fam(op, n, -1, 0) : op \in {"VaddV", "VsubV", "VmulV", "VdivV", "VaddS", "VsubS", "VmulS", "VdivS",
                                  "Set", "Reset", "Equals", "VdotV", "As", "New"}, n \in VecLens}
\cup {Fam(op, sh[1], -1, sh[2]) : op \in {"MdotV", "VdotM"}, sh \in PosShapes \cup {<<2, 0>>}}   \* <<2, 0>>: empty sums
\cup {Fam(op, sh[1], sh[2], 0) : op \in {"MaddM", "MsubM", "MmulM", "MdivM", "MaddS", "MsubS", "MmulS", "MdivS",
                                         "Set", "Reset", "SetIdentity", "Equals", "As", "New", "Outer"}, sh \in MatShapes}
\cup {Fam("MdotM", q[1][1], q[1][2], q[2]) : q \in {z \in PosShapes \X Inner : z[1][1] * z[2] <= 6 /\ z[2] * z[1][2] <= 6}}

\* the quotient of a zero-valued variable is not an integer and value lists carry no derivatives
PartOf(f) == IF f.op \in {"MdotV", "VdotM", "MdotM", "Outer", "VdotV"} THEN "prod"
             ELSE IF f.cols < 0 THEN "vec" ELSE "mat"
Families == {f \in AllFamilies :
               /\ (Part = "all" \/ PartOf(f) = Part)
               /\ (ZeroVar => f.op \notin {"VdivV", "VdivS", "MdivM", "MdivS", "New", "Reset", "SetIdentity"})}

\* receivers of a family (the second level of the state graph)
FamReceivers(f) ==
  CASE f.op \in {"As", "New"} -> {Rep(k, f.rows, f.cols, PZ(Len2(f.rows, f.cols)), "-") : k \in {"d", "s"}}
    [] f.op = "Equals" -> {Rep(k, f.rows, f.cols, <<>>, "-") : k \in {"d", "s", "z"} \cup (IF Rich = 1 THEN {"h"} ELSE {})}
    [] f.op = "VdotV"  -> {None}
    [] f.op \in {"MdotV", "VdotM"} -> Receivers(f.rows, -1)
    [] OTHER -> Receivers(f.rows, f.cols)

(* operand domains: the three-valued domain wherever the number of content *)
(* pairs stays below Cap, two-valued domains (zero / non-zero) beyond       *)
Doms(na, nb, A3, A2, B3, B2) ==
  IF (3 ^ na) * (3 ^ nb) <= Cap THEN <<A3, B3>>
  ELSE IF (3 ^ na) * (2 ^ nb) <= Cap THEN <<A3, B2>>
  ELSE <<A2, B2>>
DomsEw(f) ==       \* <<domain of a, domain of b>> for the two-operand element-wise families
  LET n == Len2(f.rows, f.cols) IN
  IF f.op \in {"VdivV", "MdivM"} THEN Doms(n, n, D3, D2, V3, V2b) ELSE Doms(n, n, VA3, VA2, V3, V2b)

EqCase(f, r, a) == [op |-> f.op, r |-> r, a |-> a, b |-> NoOpd, s |-> NoS, dims |-> <<f.rows, f.cols, f.inner>>,
                    exp |-> Exp("b", <<>>, SameValues(r.c, a.c))]
DotCase(f, a, b) == [op |-> f.op, r |-> None, a |-> a, b |-> b, s |-> NoS, dims |-> <<f.rows, f.cols, f.inner>>,
                     exp |-> Exp("s", <<Dot(a.c, b.c)>>, FALSE)]

\* P is applied to every case record of family f with receiver r
ForCases(f, r, P(_)) ==
  LET n    == Len2(f.rows, f.cols)
      dims == <<f.rows, f.cols, f.inner>>
      O(rows, cols, cc) == Opd(r, rows, cols, cc)
  IN
  CASE f.op \in {"VaddV", "VsubV", "VmulV", "VdivV", "MaddM", "MsubM", "MmulM", "MdivM"} ->
         \E x \in Tuples(n, DomsEw(f)[1]) : \E y \in Tuples(n, DomsEw(f)[2]) :
            P(Case(f.op, r, O(f.rows, f.cols, MkA(x)), O(f.rows, f.cols, MkB(y)), NoS, dims))
    [] f.op \in {"VaddS", "VsubS", "VmulS", "VdivS", "MaddS", "MsubS", "MmulS", "MdivS"} ->
         \E x \in Tuples(n, IF f.op \in {"VdivS", "MdivS"} THEN D3 ELSE VA3) : \E sv \in SVals :
            P(Case(f.op, r, O(f.rows, f.cols, MkA(x)), NoOpd, MkS(sv), dims))
    [] f.op \in {"Set", "As"} ->   \* As: conversion of a into storage r.k (the result is a new object)
         \E x \in Tuples(n, VA3) : P(Case(f.op, r, O(f.rows, f.cols, MkA(x)), NoOpd, NoS, dims))
    [] f.op \in {"Reset", "SetIdentity"} -> P(Case(f.op, r, NoOpd, NoOpd, NoS, dims))
    [] f.op = "New" ->    \* construction from index/value lists: reps = which indices are listed (zeros may be listed); s[1] = list order
         \E x \in Tuples(n, V3) : \E ord \in {0, 1} :
            P(Case(f.op, r, [rows |-> f.rows, cols |-> f.cols, c |-> MkV(x),
                             reps |-> [k \in (OpKinds(MkV(x)) \ {"d"}) |-> Stored(k, MkV(x))]], NoOpd, MkS(ord), dims))
    [] f.op = "Equals" ->  \* the receiver holds a content itself (storage r.k); the result is a boolean
         \E x \in Tuples(n, Doms(n, n, VA3, VA2, V3, {0, 1})[1]) : r.k \in OpKinds(MkA(x)) /\
           \E y \in Tuples(n, Doms(n, n, VA3, VA2, V3, {0, 1})[2]) :
            P(EqCase(f, Rep(r.k, f.rows, f.cols, MkA(x), "-"), O(f.rows, f.cols, MkB(y))))
    [] f.op = "VdotV" ->   \* the receiver is a scalar
         \E x \in Tuples(n, Doms(n, n, VA3, VA2, V3, V2b)[1]) : \E y \in Tuples(n, Doms(n, n, VA3, VA2, V3, V2b)[2]) :
            P(DotCase(f, O(n, -1, MkA(x)), O(n, -1, MkB(y))))
    [] f.op = "MdotV" ->   \* r: rows, A: rows x inner, b: inner
         \E x \in Tuples(f.rows * f.inner, Doms(f.rows * f.inner, f.inner, VA3, VA2, V3, V2b)[1]) :
           \E y \in Tuples(f.inner, Doms(f.rows * f.inner, f.inner, VA3, VA2, V3, V2b)[2]) :
            P(Case(f.op, r, O(f.rows, f.inner, MkA(x)), O(f.inner, -1, MkB(y)), NoS, dims))
    [] f.op = "VdotM" ->   \* r: rows (= columns of B), a: inner, B: inner x rows
         \E x \in Tuples(f.inner, Doms(f.inner, f.inner * f.rows, VA3, VA2, V3, V2b)[1]) :
           \E y \in Tuples(f.inner * f.rows, Doms(f.inner, f.inner * f.rows, VA3, VA2, V3, V2b)[2]) :
            P(Case(f.op, r, O(f.inner, -1, MkA(x)), O(f.inner, f.rows, MkB(y)), NoS, dims))
    [] f.op = "MdotM" ->   \* R: rows x cols, A: rows x inner, B: inner x cols
         \E x \in Tuples(f.rows * f.inner, Doms(f.rows * f.inner, f.inner * f.cols, VA3, VA2, V3, V2b)[1]) :
           \E y \in Tuples(f.inner * f.cols, Doms(f.rows * f.inner, f.inner * f.cols, VA3, VA2, V3, V2b)[2]) :
            P(Case(f.op, r, O(f.rows, f.inner, MkA(x)), O(f.inner, f.cols, MkB(y)), NoS, dims))
    [] f.op = "Outer" ->   \* R: rows x cols, a: rows, b: cols
         \E x \in Tuples(f.rows, VA3) : \E y \in Tuples(f.cols, V3) :
            P(Case(f.op, r, O(f.rows, -1, MkA(x)), O(f.cols, -1, MkB(y)), NoS, dims))

(* ---- scalar cases (C09): the value the contract demands for the ring    *)
(*      operations, a symbolic term (the MEANING) for the transcendental   *)
(*      ones; the driver evaluates the leaves of a term with Go math       *)
SGrid == -2..2
SExp(t, v, f, bb, term) == [t |-> t, v |-> v, f |-> f, b |-> bb, term |-> term]
SCase(op, p, x, y, e) == [op |-> op, p |-> p, x |-> x, y |-> y, sexp |-> e]
X == <<"x">>
Y == <<"y">>
ScalarCases ==
  LET P == {3, -3} IN   \* prior value of the receiver (never an operand: aliasing is C08)
     {SCase("Add", p, x, y, SExp("v", x + y, 0, FALSE, <<>>)) : p \in P, x \in SGrid, y \in SGrid}
\cup {SCase("Sub", p, x, y, SExp("v", x - y, 0, FALSE, <<>>)) : p \in P, x \in SGrid, y \in SGrid}
\cup {SCase("Mul", p, x, y, SExp("v", x * y, 0, FALSE, <<>>)) : p \in P, x \in SGrid, y \in SGrid}
\cup {SCase("Div", p, x, y, LET q == DDiv(<<x, 0>>, <<y, 0>>) IN SExp("v", q[1], q[3], FALSE, <<>>)) :
        p \in P, x \in {0, 2, -2, 4, -4}, y \in {0, 1, -1, 2, -2}}
\cup {SCase("Neg", p, x, 0, SExp("v", -x, 0, FALSE, <<>>)) : p \in P, x \in SGrid}
\cup {SCase("Abs", p, x, 0, SExp("v", SAbs(x), 0, FALSE, <<>>)) : p \in P, x \in SGrid}
\cup {SCase("Min", p, x, y, SExp("v", SMin(x, y), 0, FALSE, <<>>)) : p \in P, x \in SGrid, y \in SGrid}
\cup {SCase("Max", p, x, y, SExp("v", SMax(x, y), 0, FALSE, <<>>)) : p \in P, x \in SGrid, y \in SGrid}
\cup {SCase("Set", p, x, 0, SExp("v", x, 0, FALSE, <<>>)) : p \in P, x \in SGrid}
\cup {SCase("Sign", x, x, 0, SExp("i", SSign(x), 0, FALSE, <<>>)) : x \in SGrid}       \* the receiver IS the operand
\cup {SCase("Equals", x, x, y, SExp("b", 0, 0, x = y, <<>>)) : x \in SGrid, y \in SGrid}
\cup {SCase("Greater", x, x, y, SExp("b", 0, 0, x > y, <<>>)) : x \in SGrid, y \in SGrid}
\cup {SCase("Smaller", x, x, y, SExp("b", 0, 0, x < y, <<>>)) : x \in SGrid, y \in SGrid}
\cup {SCase("Exp", p, x, 0, SExp("term", 0, 0, FALSE, <<"exp", X>>)) : p \in P, x \in SGrid}
\cup {SCase("Log", p, x, 0, SExp("term", 0, 0, FALSE, <<"log", X>>)) : p \in P, x \in 1..4}
\cup {SCase("Log1p", p, x, 0, SExp("term", 0, 0, FALSE, <<"log", <<"add", <<"one">>, X>>>>)) : p \in P, x \in 0..4}
\cup {SCase("Sqrt", p, x, 0, SExp("term", 0, 0, FALSE, <<"sqrt", X>>)) : p \in P, x \in 1..4}
\cup {SCase("Pow", p, x, y, SExp("term", 0, 0, FALSE, <<"pow", X, Y>>)) : p \in P, x \in 1..3, y \in SGrid}
\cup {SCase("LogAdd", p, x, y, SExp("term", 0, 0, FALSE, <<"log", <<"add", <<"exp", X>>, <<"exp", Y>>>>>>)) :
        p \in P, x \in SGrid, y \in SGrid}
\cup {SCase("LogSub", p, xy[1], xy[2], SExp("term", 0, 0, FALSE, <<"log", <<"sub", <<"exp", X>>, <<"exp", Y>>>>>>)) :
        p \in P, xy \in {q \in SGrid \X SGrid : q[2] < q[1]}}

(* ---- simulation: random contents beyond the exhaustive bounds ---------- *)
RV(n, D) == SeqOf(n, LAMBDA i : RandomElement(D))
V5 == -2..2
SimShapes == (2..4) \X (2..4)
SimFamilies ==
     {Fam(op, n, -1, 0) : op \in {"VaddV", "VsubV", "VmulV", "VaddS", "VsubS", "VmulS", "Set", "Equals", "VdotV"},
                          n \in (MaxN + 1)..SimN}
\cup {Fam(op, sh[1], -1, sh[2]) : op \in {"MdotV", "VdotM"}, sh \in SimShapes}
\cup {Fam(op, sh[1], sh[2], 0) : op \in {"MaddM", "MsubM", "MmulM", "MmulS", "Set", "SetIdentity", "Equals", "Outer"},
                                 sh \in SimShapes}
\cup {Fam("MdotM", sh[1], sh[2], k) : sh \in (2..3) \X (2..3), k \in 2..3}

\* the simulation first draws operand VALUES into the state (so that they are
\* fixed values), then builds the case records like the exhaustive enumeration
SimDraw(f) ==
  LET n == Len2(f.rows, f.cols) IN
  CASE f.op = "MdotV" -> /\ rx' = RV(f.rows * f.inner, V3) /\ ry' = RV(f.inner, V3)
    [] f.op = "VdotM" -> /\ rx' = RV(f.inner, V3) /\ ry' = RV(f.inner * f.rows, V3)
    [] f.op = "MdotM" -> /\ rx' = RV(f.rows * f.inner, V2a) /\ ry' = RV(f.inner * f.cols, V2b)
    [] f.op = "Outer" -> /\ rx' = RV(f.rows, V3) /\ ry' = RV(f.cols, V3)
    [] f.op = "Equals" -> /\ rx' = RV(n, V2a) /\ ry' = RV(n, V2a)
    [] OTHER          -> /\ rx' = RV(n, V5) /\ ry' = RV(n, V5)

ForSim(f, r, x, y, P(_)) ==
  LET n    == Len2(f.rows, f.cols)
      dims == <<f.rows, f.cols, f.inner>>
      O(rows, cols, cc) == Opd(r, rows, cols, cc)
  IN
  CASE f.op \in {"VaddV", "VsubV", "VmulV", "MaddM", "MsubM", "MmulM"} ->
         P(Case(f.op, r, O(f.rows, f.cols, MkA(x)), O(f.rows, f.cols, MkB(y)), NoS, dims))
    [] f.op \in {"VaddS", "VsubS", "VmulS", "MmulS"} ->
         \E sv \in SVals : P(Case(f.op, r, O(f.rows, f.cols, MkA(x)), NoOpd, MkS(sv), dims))
    [] f.op = "Set" -> P(Case(f.op, r, O(f.rows, f.cols, MkA(x)), NoOpd, NoS, dims))
    [] f.op = "SetIdentity" -> P(Case(f.op, r, NoOpd, NoOpd, NoS, dims))
    [] f.op = "Equals" -> r.k \in OpKinds(MkA(x)) /\ P(EqCase(f, Rep(r.k, f.rows, f.cols, MkA(x), "-"), O(f.rows, f.cols, MkB(y))))
    [] f.op = "VdotV" -> P(DotCase(f, O(n, -1, MkA(x)), O(n, -1, MkB(y))))
    [] f.op = "MdotV" -> P(Case(f.op, r, O(f.rows, f.inner, MkA(x)), O(f.inner, -1, MkB(y)), NoS, dims))
    [] f.op = "VdotM" -> P(Case(f.op, r, O(f.inner, -1, MkA(x)), O(f.inner, f.rows, MkB(y)), NoS, dims))
    [] f.op = "MdotM" -> P(Case(f.op, r, O(f.rows, f.inner, MkA(x)), O(f.inner, f.cols, MkB(y)), NoS, dims))
    [] f.op = "Outer" -> P(Case(f.op, r, O(f.rows, -1, MkA(x)), O(f.cols, -1, MkB(y)), NoS, dims))

(* ---- the enumeration as a state machine -------------------------------- *)
NoCase == [op |-> "-"]
Init == ph = "start" /\ fam = NoFam /\ rcv = None /\ c = NoCase /\ rx = <<>> /\ ry = <<>>

PickFamily ==
  /\ ph = "start"
  /\ fam' \in (IF Sim THEN SimFamilies ELSE Families)
  /\ ph' = "family" /\ UNCHANGED <<rcv, c, rx, ry>>

PickReceiver ==
  /\ ph = "family"
  /\ rcv' \in FamReceivers(fam)
  /\ IF Sim THEN SimDraw(fam) ELSE UNCHANGED <<rx, ry>>
  /\ ph' = "receiver" /\ UNCHANGED <<fam, c>>

Put(k) == /\ c' = k
          /\ (Emit => PrintT(ToJson(k)))

EmitCase ==
  /\ ph = "receiver"
  /\ IF Sim THEN ForSim(fam, rcv, rx, ry, Put) ELSE ForCases(fam, rcv, Put)
  /\ ph' = "case" /\ UNCHANGED <<fam, rcv, rx, ry>>

EmitScalar ==
  /\ ph = "start" /\ Mode = "c09" /\ ~Sim
  /\ \E k \in ScalarCases : Put(k)
  /\ ph' = "case" /\ UNCHANGED <<fam, rcv, rx, ry>>

Next == PickFamily \/ PickReceiver \/ EmitCase \/ EmitScalar
Spec == Init /\ [][Next]_vars

(***************************************************************************)
(* StorageIndependence: the demanded content is the same for EVERY         *)
(* receiver representation / prior content; the operand representations    *)
(* are not even parameters of Result.  (True by construction -- Result     *)
(* cannot see `st`, `k` or the receiver -- and checked so that it stays    *)
(* true when the contract grows.)                                          *)
(***************************************************************************)
IsContainerCase == ph = "case" /\ "exp" \in DOMAIN c
StorageIndependence ==
  (IsContainerCase /\ c.exp.t = "c") =>
     \A r2 \in Receivers(c.r.rows, c.r.cols) : Case(c.op, r2, c.a, c.b, c.s, c.dims).exp = c.exp
\* every demanded value fits every element type (int8 included)
Small == IsContainerCase => \A i \in 1..Len(c.exp.c) : c.exp.c[i][1] \in -100..100
\* stored positions always cover the non-zero content
StoredCoversContent ==
  IsContainerCase => \A o \in {c.a, c.b} : \A k \in DOMAIN o.reps : NonZero(o.c) \subseteq o.reps[k]
=============================================================================
