--------------------------- MODULE ContainersCases ---------------------------
(***************************************************************************)
(* Case enumeration for C03 / C09 over the contract Containers.tla.        *)
(*                                                                         *)
(* A case = operation x shapes x operand contents x REPRESENTATION of the  *)
(* receiver (storage kind + what it held before the call) and of every     *)
(* operand (storage kind + which zeros are stored explicitly).  TLC        *)
(* enumerates all cases inside the bounds and prints them together with    *)
(* the result content the contract demands (`exp`) -- the oracle of the    *)
(* conformance driver harness/cmd/containers.  One printed record carries  *)
(* ALL representations of each operand (`reps`: storage kind -> stored     *)
(* positions); the cases of a record are the members of                    *)
(* DOMAIN a.reps \X DOMAIN b.reps -- the same expected content for all of  *)
(* them: that IS the property.                                             *)
(*                                                                         *)
(* state graph:  start --> family (operation, shapes) --> receiver --> case*)
(*                                                                         *)
(* storage kinds  "d" dense                                                *)
(*                "s" sparse, exactly the non-zero entries are stored      *)
(*                "z" sparse, every zero is stored explicitly as well      *)
(*                "h" sparse, zeros at odd positions are stored explicitly *)
(* prior receiver content classes (pc): "zeros", "nz" (every entry         *)
(* non-zero), "mixo"/"mixe" (non-zero at odd / even positions).            *)
(***************************************************************************)
EXTENDS Containers, Json

CONSTANTS Mode,     \* "c03": all storage combinations; "c09": operands of the receiver's storage class + scalar cases
          MaxN,     \* vectors of length 0..MaxN
          Big,      \* 0: matrices up to 2x2;  1: additionally 2x3 and 3x2
          Rich,     \* 0: basic representations;  1: additionally "h" operands, more prior contents
          Cap,      \* bound on the number of content pairs per (family, receiver)
          Sim,      \* TRUE: contents are drawn at random (for -simulate), vector sizes up to SimN
          SimN,
          ZeroVar,  \* TRUE: operand a ranges over {0, zero-valued VARIABLE, 1}: an element <<0, d>> with d # 0
                    \* (value zero, derivative not: not a zero of a magic element type; the symbol 9 stands for it)
          Special,  \* TRUE: the run enumerates SPECIAL operands only (C09): +-Inf, NaN, -0 in float/magic containers and
                    \* scalars, the bounds MinIntN/MaxIntN of the integer types, base 0 of Pow at derivative orders 1 and 2
          Part,     \* "all", or one group of operation families: "vec" | "mat" | "prod" (to split large runs)
          Emit      \* print the cases

VARIABLES ph, fam, rcv, c, rx, ry
vars == <<ph, fam, rcv, c, rx, ry>>

V3    == {0, 1, -2}
V2a   == {0, 1}
VA3   == IF ZeroVar THEN {0, 9, 1} ELSE V3      \* domains of operand a
VA2   == IF ZeroVar THEN {9, 1} ELSE V2a
V2b   == {0, -2}
D3    == {0, 2, -4}         \* numerators: every quotient by a non-zero element of V3 is exact
D2    == {0, 2}
SVals == {0, 1, -2}         \* scalar operands of the broadcast operations

(* derivative weights per role and position (1-based) *)
Wa(k) == k
Wb(k) == 3 - 2 * k
Ws    == 3
DualOf(v, w) == IF v = 9 THEN <<0, w>> ELSE Dual(v, w)       \* 9: value 0, derivative w (a variable that is currently 0)
MkA(vs) == SeqOf(Len(vs), LAMBDA k : DualOf(vs[k], Wa(k)))
MkB(vs) == SeqOf(Len(vs), LAMBDA k : Dual(vs[k], Wb(k)))
MkS(v)  == DualOf(v, Ws)
MkV(vs) == SeqOf(Len(vs), LAMBDA k : <<vs[k], 0>>)     \* plain values (construction from value lists)
NoS     == Z

Tuples(n, D) == IF n = 0 THEN {<<>>} ELSE [1..n -> D]
Len2(rows, cols) == IF cols < 0 THEN rows ELSE rows * cols

(* ---- representations --------------------------------------------------- *)
NonZero(cc) == {i \in 1..Len(cc) : cc[i] # Z}
Stored(k, cc) == CASE k = "d" -> 1..Len(cc)
                   [] k = "s" -> NonZero(cc)
                   [] k = "z" -> 1..Len(cc)
                   [] k = "h" -> NonZero(cc) \cup {i \in 1..Len(cc) : i % 2 = 1}
IsSparse(k) == k \in {"s", "z", "h"}

\* a receiver: one representation and what it held before the call
Rep(k, rows, cols, cc, pc) ==
  [k |-> k, rows |-> rows, cols |-> cols, c |-> cc, st |-> Stored(k, cc), pc |-> pc]
None == [k |-> "-", rows |-> 0, cols |-> -1, c |-> <<>>, st |-> {}, pc |-> "-"]

\* the distinct representations of an operand with content cc
OpKinds(cc) ==
  {"d", "s"} \cup (IF NonZero(cc) # 1..Len(cc) THEN {"z"} ELSE {})
             \cup (IF Rich = 1 /\ Stored("h", cc) \notin {Stored("s", cc), Stored("z", cc)} THEN {"h"} ELSE {})
\* C09 compares the generic with the concrete-typed method: operands of the receiver's storage class
KindsFor(r, cc) == IF Mode = "c03" THEN OpKinds(cc)
                   ELSE IF r.k = "-" THEN OpKinds(cc)
                   ELSE {k \in OpKinds(cc) : IsSparse(k) = IsSparse(r.k)}
\* an operand: content + all its representations
Opd(r, rows, cols, cc) == [rows |-> rows, cols |-> cols, c |-> cc, reps |-> [k \in KindsFor(r, cc) |-> Stored(k, cc)]]
NoOpd == [rows |-> 0, cols |-> -1, c |-> <<>>, reps |-> [k \in {"-"} |-> {}]]

PZ(n)  == SeqOf(n, LAMBDA i : Z)
PN(n)  == SeqOf(n, LAMBDA i : IF i % 2 = 1 THEN <<2, 5>> ELSE <<-1, 5>>)
PMo(n) == SeqOf(n, LAMBDA i : IF i % 2 = 1 THEN <<2, 5>> ELSE Z)
PMe(n) == SeqOf(n, LAMBDA i : IF i % 2 = 0 THEN <<-1, 5>> ELSE Z)
\* receivers: storage kind x prior content (sampled by class)
Receivers(rows, cols) ==
  LET n == Len2(rows, cols) IN
  { Rep("d", rows, cols, PZ(n), "zeros"), Rep("d", rows, cols, PN(n), "nz"),
    Rep("s", rows, cols, PZ(n), "zeros"),       \* empty sparse receiver
    Rep("z", rows, cols, PZ(n), "zeros"),       \* explicit zeros only
    Rep("s", rows, cols, PN(n), "nz"),
    Rep("s", rows, cols, PMo(n), "mixo"),       \* unrelated non-zeros, other entries absent
    Rep("z", rows, cols, PMo(n), "mixo") }      \* unrelated non-zeros, other entries explicit zeros
  \cup (IF Rich = 1 THEN { Rep("d", rows, cols, PMo(n), "mixo"), Rep("d", rows, cols, PMe(n), "mixe"),
                           Rep("s", rows, cols, PMe(n), "mixe"), Rep("h", rows, cols, PMe(n), "mixe") } ELSE {})

Exp(t, cc, bb) == [t |-> t, c |-> cc, b |-> bb]
Case(op, r, a, b, s, dims) ==
  [op |-> op, r |-> r, a |-> a, b |-> b, s |-> s, dims |-> dims,
   exp |-> Exp("c", Result(op, a.c, b.c, s, dims), FALSE)]

(* ---- families ----------------------------------------------------------- *)
Fam(op, rows, cols, inner) == [op |-> op, rows |-> rows, cols |-> cols, inner |-> inner]
NoFam == Fam("-", 0, 0, 0)
VecLens   == 0..MaxN
MatShapes == {<<0, 0>>, <<1, 1>>, <<1, 2>>, <<2, 1>>, <<2, 2>>} \cup (IF Big = 1 THEN {<<2, 3>>, <<3, 2>>} ELSE {})
PosShapes == {sh \in MatShapes : sh[1] > 0}
Inner     == IF Big = 1 THEN 1..3 ELSE 1..2

AllFamilies ==
     {Fam(op, n, -1, 0) : op \in {"VaddV", "VsubV", "VmulV", "VdivV", "VaddS", "VsubS", "VmulS", "VdivS",
                                  "Set", "Reset", "Equals", "VdotV", "As", "New"}, n \in VecLens}
\cup {Fam(op, sh[1], -1, sh[2]) : op \in {"MdotV", "VdotM"}, sh \in PosShapes \cup {<<2, 0>>}}   \* <<2, 0>>: empty sums
\cup {Fam(op, sh[1], sh[2], 0) : op \in {"MaddM", "MsubM", "MmulM", "MdivM", "MaddS", "MsubS", "MmulS", "MdivS",
                                         "Set", "Reset", "SetIdentity", "Equals", "As", "New", "Outer"}, sh \in MatShapes}
\cup {Fam("MdotM", q[1][1], q[1][2], q[2]) : q \in {z \in PosShapes \X Inner : z[1][1] * z[2] <= 6 /\ z[2] * z[1][2] <= 6}}

\* the quotient of a zero-valued variable is not an integer and value lists carry no derivatives
PartOf(f) == IF f.op \in {"MdotV", "VdotM", "MdotM", "Outer", "VdotV"} THEN "prod"
             ELSE IF f.cols < 0 THEN "vec" ELSE "mat"
Families == {f \in AllFamilies :
               /\ (Part = "all" \/ PartOf(f) = Part)
               /\ (ZeroVar => f.op \notin {"VdivV", "MdivM", "New", "Reset", "SetIdentity"})}

\* receivers of a family (the second level of the state graph)
FamReceivers(f) ==
  CASE f.op \in {"As", "New"} -> {Rep(k, f.rows, f.cols, PZ(Len2(f.rows, f.cols)), "-") : k \in {"d", "s"}}
    [] f.op = "Equals" -> {Rep(k, f.rows, f.cols, <<>>, "-") : k \in {"d", "s", "z"} \cup (IF Rich = 1 THEN {"h"} ELSE {})}
    [] f.op = "VdotV"  -> {None}
    [] f.op \in {"MdotV", "VdotM"} -> Receivers(f.rows, -1)
    [] OTHER -> Receivers(f.rows, f.cols)

(* operand domains: the three-valued domain wherever the number of content *)
(* pairs stays below Cap, two-valued domains (zero / non-zero) beyond       *)
Doms(na, nb, A3, A2, B3, B2) ==
  IF (3 ^ na) * (3 ^ nb) <= Cap THEN <<A3, B3>>
  ELSE IF (3 ^ na) * (2 ^ nb) <= Cap THEN <<A3, B2>>
  ELSE <<A2, B2>>
DomsEw(f) ==       \* <<domain of a, domain of b>> for the two-operand element-wise families
  LET n == Len2(f.rows, f.cols) IN
  IF f.op \in {"VdivV", "MdivM"} THEN Doms(n, n, D3, D2, V3, V2b) ELSE Doms(n, n, VA3, VA2, V3, V2b)

EqCase(f, r, a) == [op |-> f.op, r |-> r, a |-> a, b |-> NoOpd, s |-> NoS, dims |-> <<f.rows, f.cols, f.inner>>,
                    exp |-> Exp("b", <<>>, SameValues(r.c, a.c))]
DotCase(f, a, b) == [op |-> f.op, r |-> None, a |-> a, b |-> b, s |-> NoS, dims |-> <<f.rows, f.cols, f.inner>>,
                     exp |-> Exp("s", <<Dot(a.c, b.c)>>, FALSE)]

\* P is applied to every case record of family f with receiver r
ForCases(f, r, P(_)) ==
  LET n    == Len2(f.rows, f.cols)
      dims == <<f.rows, f.cols, f.inner>>
      O(rows, cols, cc) == Opd(r, rows, cols, cc)
  IN
  CASE f.op \in {"VaddV", "VsubV", "VmulV", "VdivV", "MaddM", "MsubM", "MmulM", "MdivM"} ->
         \E x \in Tuples(n, DomsEw(f)[1]) : \E y \in Tuples(n, DomsEw(f)[2]) :
            P(Case(f.op, r, O(f.rows, f.cols, MkA(x)), O(f.rows, f.cols, MkB(y)), NoS, dims))
    [] f.op \in {"VaddS", "VsubS", "VmulS", "VdivS", "MaddS", "MsubS", "MmulS", "MdivS"} ->
         \E x \in Tuples(n, IF f.op \in {"VdivS", "MdivS"} THEN D3 ELSE VA3) :
           \E sv \in (IF ~ZeroVar THEN SVals ELSE IF f.op \in {"VdivS", "MdivS"} THEN {9} ELSE {9, -2}) :   \* ZeroVar: the scalar is a variable at 0
            P(Case(f.op, r, O(f.rows, f.cols, MkA(x)), NoOpd, MkS(sv), dims))
    [] f.op \in {"Set", "As"} ->   \* As: conversion of a into storage r.k (the result is a new object)
         \E x \in Tuples(n, VA3) : P(Case(f.op, r, O(f.rows, f.cols, MkA(x)), NoOpd, NoS, dims))
    [] f.op \in {"Reset", "SetIdentity"} -> P(Case(f.op, r, NoOpd, NoOpd, NoS, dims))
    [] f.op = "New" ->    \* construction from index/value lists: reps = which indices are listed (zeros may be listed); s[1] = list order
         \E x \in Tuples(n, V3) : \E ord \in {0, 1} :
            P(Case(f.op, r, [rows |-> f.rows, cols |-> f.cols, c |-> MkV(x),
                             reps |-> [k \in (OpKinds(MkV(x)) \ {"d"}) |-> Stored(k, MkV(x))]], NoOpd, MkS(ord), dims))
    [] f.op = "Equals" ->  \* the receiver holds a content itself (storage r.k); the result is a boolean
         \E x \in Tuples(n, Doms(n, n, VA3, VA2, V3, {0, 1})[1]) : r.k \in OpKinds(MkA(x)) /\
           \E y \in Tuples(n, Doms(n, n, VA3, VA2, V3, {0, 1})[2]) :
            P(EqCase(f, Rep(r.k, f.rows, f.cols, MkA(x), "-"), O(f.rows, f.cols, MkB(y))))
    [] f.op = "VdotV" ->   \* the receiver is a scalar
         \E x \in Tuples(n, Doms(n, n, VA3, VA2, V3, V2b)[1]) : \E y \in Tuples(n, Doms(n, n, VA3, VA2, V3, V2b)[2]) :
            P(DotCase(f, O(n, -1, MkA(x)), O(n, -1, MkB(y))))
    [] f.op = "MdotV" ->   \* r: rows, A: rows x inner, b: inner
         \E x \in Tuples(f.rows * f.inner, Doms(f.rows * f.inner, f.inner, VA3, VA2, V3, V2b)[1]) :
           \E y \in Tuples(f.inner, Doms(f.rows * f.inner, f.inner, VA3, VA2, V3, V2b)[2]) :
            P(Case(f.op, r, O(f.rows, f.inner, MkA(x)), O(f.inner, -1, MkB(y)), NoS, dims))
    [] f.op = "VdotM" ->   \* r: rows (= columns of B), a: inner, B: inner x rows
         \E x \in Tuples(f.inner, Doms(f.inner, f.inner * f.rows, VA3, VA2, V3, V2b)[1]) :
           \E y \in Tuples(f.inner * f.rows, Doms(f.inner, f.inner * f.rows, VA3, VA2, V3, V2b)[2]) :
            P(Case(f.op, r, O(f.inner, -1, MkA(x)), O(f.inner, f.rows, MkB(y)), NoS, dims))
    [] f.op = "MdotM" ->   \* R: rows x cols, A: rows x inner, B: inner x cols
         \E x \in Tuples(f.rows * f.inner, Doms(f.rows * f.inner, f.inner * f.cols, VA3, VA2, V3, V2b)[1]) :
           \E y \in Tuples(f.inner * f.cols, Doms(f.rows * f.inner, f.inner * f.cols, VA3, VA2, V3, V2b)[2]) :
            P(Case(f.op, r, O(f.rows, f.inner, MkA(x)), O(f.inner, f.cols, MkB(y)), NoS, dims))
    [] f.op = "Outer" ->   \* R: rows x cols, a: rows, b: cols
         \E x \in Tuples(f.rows, VA3) : \E y \in Tuples(f.cols, V3) :
            P(Case(f.op, r, O(f.rows, -1, MkA(x)), O(f.cols, -1, MkB(y)), NoS, dims))

(* ---- scalar cases (C09): the value the contract demands for the ring    *)
(*      operations, a symbolic term (the MEANING) for the transcendental   *)
(*      ones; the driver evaluates the leaves of a term with Go math       *)
SGrid == -2..2
SExp(t, v, f, bb, term) == [t |-> t, v |-> v, f |-> f, b |-> bb, term |-> term]
SCase(op, p, x, y, e) == [op |-> op, p |-> p, x |-> x, y |-> y, alias |-> "-", sexp |-> e]
\* the receiver IS an operand (in-place update): alias = "ra" (r = x), "rb" (r = y), "rab" (r = x = y); the demanded
\* result is that of the operand values BEFORE the call
SCaseA(op, al, x, y, e) == [op |-> op, p |-> 3, x |-> x, y |-> y, alias |-> al, sexp |-> e]
X == <<"x">>
Y == <<"y">>
ScalarCases ==
  LET P == {3, -3} IN   \* prior value of the receiver (never an operand: aliasing is C08)
     {SCase("Add", p, x, y, SExp("v", x + y, 0, FALSE, <<>>)) : p \in P, x \in SGrid, y \in SGrid}
\cup {SCase("Sub", p, x, y, SExp("v", x - y, 0, FALSE, <<>>)) : p \in P, x \in SGrid, y \in SGrid}
\cup {SCase("Mul", p, x, y, SExp("v", x * y, 0, FALSE, <<>>)) : p \in P, x \in SGrid, y \in SGrid}
\cup {SCase("Div", p, x, y, LET q == DDiv(<<x, 0>>, <<y, 0>>) IN SExp("v", q[1], q[3], FALSE, <<>>)) :
        p \in P, x \in {0, 2, -2, 4, -4}, y \in {0, 1, -1, 2, -2}}
\cup {SCaseA("Add", al, x, IF al = "rab" THEN x ELSE y, SExp("v", x + (IF al = "rab" THEN x ELSE y), 0, FALSE, <<>>)) :
        al \in {"ra", "rb", "rab"}, x \in SGrid, y \in SGrid}
\cup {SCaseA("Sub", al, x, IF al = "rab" THEN x ELSE y, SExp("v", x - (IF al = "rab" THEN x ELSE y), 0, FALSE, <<>>)) :
        al \in {"ra", "rb", "rab"}, x \in SGrid, y \in SGrid}
\cup {SCaseA("Mul", al, x, IF al = "rab" THEN x ELSE y, SExp("v", x * (IF al = "rab" THEN x ELSE y), 0, FALSE, <<>>)) :
        al \in {"ra", "rb", "rab"}, x \in SGrid, y \in SGrid}
\cup {SCaseA("Div", al, x, IF al = "rab" THEN x ELSE y,
              LET q == DDiv(<<x, 0>>, <<IF al = "rab" THEN x ELSE y, 0>>) IN SExp("v", q[1], q[3], FALSE, <<>>)) :
        al \in {"ra", "rb", "rab"}, x \in {2, -2, 4, -4}, y \in {1, -1, 2, -2}}
\cup {SCase("Neg", p, x, 0, SExp("v", -x, 0, FALSE, <<>>)) : p \in P, x \in SGrid}
\cup {SCase("Abs", p, x, 0, SExp("v", SAbs(x), 0, FALSE, <<>>)) : p \in P, x \in SGrid}
\cup {SCase("Min", p, x, y, SExp("v", SMin(x, y), 0, FALSE, <<>>)) : p \in P, x \in SGrid, y \in SGrid}
\cup {SCase("Max", p, x, y, SExp("v", SMax(x, y), 0, FALSE, <<>>)) : p \in P, x \in SGrid, y \in SGrid}
\cup {SCase("Set", p, x, 0, SExp("v", x, 0, FALSE, <<>>)) : p \in P, x \in SGrid}
\cup {SCase("Sign", x, x, 0, SExp("i", SSign(x), 0, FALSE, <<>>)) : x \in SGrid}       \* the receiver IS the operand
\cup {SCase("Equals", x, x, y, SExp("b", 0, 0, x = y, <<>>)) : x \in SGrid, y \in SGrid}
\cup {SCase("Greater", x, x, y, SExp("b", 0, 0, x > y, <<>>)) : x \in SGrid, y \in SGrid}
\cup {SCase("Smaller", x, x, y, SExp("b", 0, 0, x < y, <<>>)) : x \in SGrid, y \in SGrid}
\cup {SCase("Exp", p, x, 0, SExp("term", 0, 0, FALSE, <<"exp", X>>)) : p \in P, x \in SGrid}
\cup {SCase("Log", p, x, 0, SExp("term", 0, 0, FALSE, <<"log", X>>)) : p \in P, x \in 1..4}
\cup {SCase("Log1p", p, x, 0, SExp("term", 0, 0, FALSE, <<"log", <<"add", <<"one">>, X>>>>)) : p \in P, x \in 0..4}
\cup {SCase("Sqrt", p, x, 0, SExp("term", 0, 0, FALSE, <<"sqrt", X>>)) : p \in P, x \in 1..4}
\cup {SCase("Pow", p, x, y, SExp("term", 0, 0, FALSE, <<"pow", X, Y>>)) : p \in P, x \in 1..3, y \in SGrid}
\cup {SCase("LogAdd", p, x, y, SExp("term", 0, 0, FALSE, <<"log", <<"add", <<"exp", X>>, <<"exp", Y>>>>>>)) :
        p \in P, x \in SGrid, y \in SGrid}
\cup {SCase("LogSub", p, xy[1], xy[2], SExp("term", 0, 0, FALSE, <<"log", <<"sub", <<"exp", X>>, <<"exp", Y>>>>>>)) :
        p \in P, xy \in {q \in SGrid \X SGrid : q[2] < q[1]}}

(***************************************************************************)
(* SPECIAL OPERANDS (Special = TRUE, C09).  Container elements and scalar  *)
(* operands are extended elements <<v, 0, f>> of Containers.tla (IEEE      *)
(* classes); the demanded class of every result element comes from the     *)
(* class algebra XAdd/XMul/... (0 * Inf = NaN, Inf - Inf = NaN, x / 0 ...). *)
(* Records carry sp = "fs" (float specials: instantiated for the floating  *)
(* point and magic element types) or sp = "ib" (integer bounds: integer    *)
(* types).  Operand records hold the finite values in c and the classes in *)
(* f.                                                                      *)
(***************************************************************************)
XA  == {XFin(0), XFin(1), XInf}                    \* operand a
XBe == {XFin(0), XFin(-1), XNInf, XNaN}            \* operand b, element-wise families
XBp == {XFin(0), XNInf, XNaN}                      \* operand b, products: a zero meets an Inf/NaN
XSs == {XFin(0), XFin(-1), XInf, XNaN, XNZero}     \* scalar operand of the broadcast families
XNonZero(xc) == {i \in 1..Len(xc) : xc[i][3] \in {1, 2, 3} \/ xc[i][1] # 0}
XStored(k, xc) == IF k \in {"d", "z"} THEN 1..Len(xc) ELSE XNonZero(xc)
XKinds(r, xc) == LET ks == {"d", "s"} \cup (IF XNonZero(xc) # 1..Len(xc) THEN {"z"} ELSE {})
                 IN IF Mode = "c03" \/ r.k = "-" THEN ks ELSE {k \in ks : IsSparse(k) = IsSparse(r.k)}
OpdX(r, rows, cols, xc) ==
  [rows |-> rows, cols |-> cols, c |-> SeqOf(Len(xc), LAMBDA i : <<xc[i][1], 0>>), f |-> SeqOf(Len(xc), LAMBDA i : xc[i][3]),
   reps |-> [k \in XKinds(r, xc) |-> XStored(k, xc)]]
NoOpdX == [rows |-> 0, cols |-> -1, c |-> <<>>, f |-> <<>>, reps |-> [k \in {"-"} |-> {}]]
CaseX(op, r, a, b, xa, xb, xs, dims) ==
  [op |-> op, sp |-> "fs", r |-> r, a |-> a, b |-> b, s |-> <<xs[1], 0>>, sf |-> xs[3], dims |-> dims,
   exp |-> Exp(IF op = "VdotV" THEN "s" ELSE "c", XResult(op, xa, xb, xs, dims), FALSE)]

SpecialFamilies ==
     {Fam(op, n, -1, 0) : op \in {"VaddV", "VsubV", "VmulV", "VdivV", "VaddS", "VsubS", "VmulS", "VdivS", "Set", "VdotV"}, n \in 1..2}
\cup {Fam(op, sh[1], sh[2], 0) : op \in {"MaddM", "MsubM", "MmulM", "MdivM", "MaddS", "MsubS", "MmulS", "MdivS", "Set"},
                                 sh \in {<<1, 1>>, <<1, 2>>, <<2, 1>>}}
\cup {Fam(op, sh[1], -1, sh[2]) : op \in {"MdotV", "VdotM"}, sh \in {<<1, 2>>, <<2, 1>>, <<2, 2>>}}
\cup {Fam("Outer", sh[1], sh[2], 0) : sh \in {<<1, 2>>, <<2, 1>>, <<2, 2>>}}
\cup {Fam("MdotM", q[1][1], q[1][2], q[2]) : q \in {<<1, 2>>, <<2, 1>>, <<2, 2>>} \X {1, 2}}

\* C03 (Mode = "c03"): the element-wise sums, products and quotients, where a zero (missing, explicitly stored or
\* dense) is opposite an Inf/NaN; the other families are C09's (operands of one storage class)
SpecialFams == IF Mode = "c09" THEN SpecialFamilies
               ELSE {f \in SpecialFamilies : f.op \in {"VaddV", "VsubV", "VmulV", "VdivV", "MaddM", "MsubM", "MmulM", "MdivM"}}

ForSpecial(f, r, P(_)) ==
  LET n    == Len2(f.rows, f.cols)
      dims == <<f.rows, f.cols, f.inner>>
      O(rows, cols, xc) == OpdX(r, rows, cols, xc)
  IN
  CASE f.op \in {"VaddV", "VsubV", "VmulV", "VdivV", "MaddM", "MsubM", "MmulM", "MdivM"} ->
         \E x \in Tuples(n, XA) : \E y \in Tuples(n, XBe) :
            P(CaseX(f.op, r, O(f.rows, f.cols, x), O(f.rows, f.cols, y), x, y, XFin(0), dims))
    [] f.op \in {"VaddS", "VsubS", "VmulS", "VdivS", "MaddS", "MsubS", "MmulS", "MdivS"} ->
         \E x \in Tuples(n, XA \cup {XNaN}) : \E sv \in XSs :
            P(CaseX(f.op, r, O(f.rows, f.cols, x), NoOpdX, x, <<>>, sv, dims))
    [] f.op = "Set" ->
         \E x \in Tuples(n, XA \cup {XNaN, XNInf}) : P(CaseX(f.op, r, O(f.rows, f.cols, x), NoOpdX, x, <<>>, XFin(0), dims))
    [] f.op = "VdotV" ->
         \E x \in Tuples(n, XA) : \E y \in Tuples(n, XBe) :
            P(CaseX(f.op, None, O(n, -1, x), O(n, -1, y), x, y, XFin(0), dims))
    [] f.op = "MdotV" ->
         \E x \in Tuples(f.rows * f.inner, XA) : \E y \in Tuples(f.inner, XBp) :
            P(CaseX(f.op, r, O(f.rows, f.inner, x), O(f.inner, -1, y), x, y, XFin(0), dims))
    [] f.op = "VdotM" ->
         \E x \in Tuples(f.inner, XA) : \E y \in Tuples(f.inner * f.rows, XBp) :
            P(CaseX(f.op, r, O(f.inner, -1, x), O(f.inner, f.rows, y), x, y, XFin(0), dims))
    [] f.op = "MdotM" ->
         \E x \in Tuples(f.rows * f.inner, XA) : \E y \in Tuples(f.inner * f.cols, XBp) :
            P(CaseX(f.op, r, O(f.rows, f.inner, x), O(f.inner, f.cols, y), x, y, XFin(0), dims))
    [] f.op = "Outer" ->
         \E x \in Tuples(f.rows, XA) : \E y \in Tuples(f.cols, XBe) :
            P(CaseX(f.op, r, O(f.rows, -1, x), O(f.cols, -1, y), x, y, XFin(0), dims))

(* ---- special scalar operands of the floating point and magic types ---- *)
XS == {XNInf, XFin(-1), XNZero, XFin(0), XFin(1), XFin(2), XInf, XNaN}
\* expectation: "x" an extended element (class from the IEEE algebra), "b" boolean, "i" integer, "term" the meaning
\* evaluated with Go math (IEEE), "any" only generic = concrete
XExp(t, e, bb, term) == [t |-> t, v |-> e[1], f |-> e[3], b |-> bb, term |-> term]
XCase(op, x, y, xo, yo, e) == [op |-> op, sp |-> "fs", p |-> 3, xx |-> x, yy |-> y, xo |-> xo, yo |-> yo, sexp |-> e]
DivOK(x, y) == ~(XIsFin(x) /\ XIsFin(y)) \/ y[1] = 0 \/ x[1] % (IF y[1] < 0 THEN -y[1] ELSE y[1]) = 0
XMinMax(x, y, isMin) == IF XIsNaN(x) \/ XIsNaN(y) THEN XAny
                        ELSE IF isMin THEN (IF XLess(x, y) THEN x ELSE y) ELSE (IF XLess(y, x) THEN x ELSE y)
Plain(e) == IF e[3] = 4 THEN XFin(0) ELSE e         \* the sign of a zero result is not demanded
XEq(x, y) == IF XIsInf(x) \/ XIsInf(y) THEN x[3] = y[3] ELSE x[1] = y[1]
Orders == {<<2, 2>>, <<1, 0>>, <<2, 0>>, <<1, 1>>, <<0, 2>>}   \* derivative orders of (x, y) for the magic types
SpecialScalarCases ==
     {XCase("Add", x, y, 2, 2, XExp("x", XAdd(x, y), FALSE, <<>>)) : x \in XS, y \in XS}
\cup {XCase("Sub", x, y, 2, 2, XExp("x", XSub(x, y), FALSE, <<>>)) : x \in XS, y \in XS}
\cup {XCase("Mul", x, y, o[1], o[2], XExp("x", XMul(x, y), FALSE, <<>>)) : x \in XS, y \in XS, o \in {<<2, 2>>, <<1, 0>>, <<0, 2>>}}
\cup {XCase("Div", xy[1], xy[2], 2, 2, XExp("x", XDiv(xy[1], xy[2]), FALSE, <<>>)) : xy \in {q \in XS \X XS : DivOK(q[1], q[2])}}
\cup {XCase("Neg", x, XFin(0), 2, 2, XExp("x", XNeg(x), FALSE, <<>>)) : x \in XS}
\cup {XCase("Abs", x, XFin(0), 2, 2, XExp("x", XAbs(x), FALSE, <<>>)) : x \in XS}
\cup {XCase("Set", x, XFin(0), 2, 2, XExp("x", Plain(x), FALSE, <<>>)) : x \in XS}
\cup {XCase("Min", x, y, 2, 2, XExp("x", Plain(XMinMax(x, y, TRUE)), FALSE, <<>>)) : x \in XS, y \in XS}
\cup {XCase("Max", x, y, 2, 2, XExp("x", Plain(XMinMax(x, y, FALSE)), FALSE, <<>>)) : x \in XS, y \in XS}
\cup {XCase("Sign", x, XFin(0), 2, 2, IF XIsNaN(x) THEN XExp("any", XAny, FALSE, <<>>) ELSE XExp("i", XFin(XSgn(x)), FALSE, <<>>)) : x \in XS}
\cup {XCase("Greater", x, y, 2, 2, XExp("b", XFin(0), XLess(y, x), <<>>)) : x \in XS, y \in XS}
\cup {XCase("Smaller", x, y, 2, 2, XExp("b", XFin(0), XLess(x, y), <<>>)) : x \in XS, y \in XS}
\cup {XCase("Equals", x, y, 2, 2, IF XIsNaN(x) \/ XIsNaN(y) THEN XExp("any", XAny, FALSE, <<>>)
                                  ELSE XExp("b", XFin(0), XEq(x, y), <<>>)) : x \in XS, y \in XS}
\cup {XCase("Exp", x, XFin(0), o, 0, XExp("term", XAny, FALSE, <<"exp", X>>)) : x \in XS, o \in {1, 2}}
\cup {XCase("Log", x, XFin(0), o, 0, XExp("term", XAny, FALSE, <<"log", X>>)) : x \in XS, o \in {1, 2}}
\cup {XCase("Log1p", x, XFin(0), o, 0, XExp("term", XAny, FALSE, <<"log", <<"add", <<"one">>, X>>>>)) : x \in XS, o \in {1, 2}}
\cup {XCase("Sqrt", x, XFin(0), o, 0, XExp("term", XAny, FALSE, <<"sqrt", X>>)) : x \in XS, o \in {1, 2}}
\cup {XCase("Pow", x, y, o[1], o[2], XExp("term", XAny, FALSE, <<"pow", X, Y>>)) : x \in XS, y \in XS, o \in Orders}
\cup {XCase("LogAdd", x, y, 2, 2, XExp("term", XAny, FALSE, <<"log", <<"add", <<"exp", X>>, <<"exp", Y>>>>>>)) : x \in XS, y \in XS}
\cup {XCase("LogSub", x, y, 2, 2, XExp("term", XAny, FALSE, <<"log", <<"sub", <<"exp", X>>, <<"exp", Y>>>>>>)) : x \in XS, y \in XS}

(* ---- bounds of the integer types: two's complement wrap-around ---------- *)
\* a value is written relative to MinIntN, 0 or MaxIntN: [b |-> "min" | "zero" | "max", o |-> offset]; the
\* arithmetic is carried out for N = 8 and must give the same symbolic result for N = 16 (width independent)
Sym(b, o) == [b |-> b, o |-> o]
ISyms == {Sym("min", 0), Sym("min", 1), Sym("zero", -1), Sym("zero", 0), Sym("zero", 1), Sym("zero", 2), Sym("max", -1), Sym("max", 0)}
SymVal(s, M) == CASE s.b = "min" -> s.o - M [] s.b = "max" -> M - 1 + s.o [] OTHER -> s.o
Wrap(x, M)   == ((x + M) % (2 * M)) - M
ToSym(r, M)  == IF r >= M \div 2 THEN Sym("max", r - (M - 1)) ELSE IF r < -(M \div 2) THEN Sym("min", r + M) ELSE Sym("zero", r)
IntOp(op, x, y) ==
  CASE op = "Add" -> x + y [] op = "Sub" -> x - y [] op = "Mul" -> x * y [] op = "Neg" -> -x
    [] op = "Abs" -> (IF x < 0 THEN -x ELSE x) [] op = "Min" -> SMin(x, y) [] op = "Max" -> SMax(x, y) [] op = "Set" -> x
    [] op = "Div" -> (IF y = 1 THEN x ELSE -x)           \* only divisors 1 and -1 (MinIntN / -1 wraps)
IntAt(op, xs, ys, M) == ToSym(Wrap(IntOp(op, SymVal(xs, M), SymVal(ys, M)), M), M)
IntRes(op, xs, ys) == LET r == IntAt(op, xs, ys, 128) IN
                      IF Assert(r = IntAt(op, xs, ys, 32768), <<"wrap-around result depends on the width", op, xs, ys>>) THEN r ELSE r
IExp(t, sym, bb, v) == [t |-> t, sym |-> sym, b |-> bb, v |-> v]
ICase(op, x, y, e) == [op |-> op, sp |-> "ib", p |-> 3, xb |-> x, yb |-> y, sexp |-> e]
IntBoundCases ==
     {ICase(op, x, y, IExp("sym", IntRes(op, x, y), FALSE, 0)) : op \in {"Add", "Sub", "Mul", "Min", "Max"}, x \in ISyms, y \in ISyms}
\cup {ICase(op, x, Sym("zero", 0), IExp("sym", IntRes(op, x, Sym("zero", 0)), FALSE, 0)) : op \in {"Neg", "Abs", "Set"}, x \in ISyms}
\cup {ICase("Div", x, y, IExp("sym", IntRes("Div", x, y), FALSE, 0)) : x \in ISyms, y \in {Sym("zero", 1), Sym("zero", -1)}}
\* powers beyond 2^53 (not exact in float64) and beyond MaxInt64: whatever the library does, generic = concrete
\cup {ICase("Pow", Sym("zero", xy[1]), Sym("zero", xy[2]), IExp("any", Sym("zero", 0), FALSE, 0)) :
        xy \in {<<3, 39>>, <<3, 40>>, <<3, 41>>, <<-3, 39>>, <<7, 22>>, <<2, 62>>, <<2, 63>>, <<2, 64>>, <<10, 18>>, <<10, 19>>, <<5, 3>>}}
\cup {ICase("Sign", x, Sym("zero", 0), IExp("i", x, FALSE, SSign(SymVal(x, 128)))) : x \in ISyms}
\cup {ICase("Equals", x, y, IExp("b", x, x = y, 0)) : x \in ISyms, y \in ISyms}
\cup {ICase("Greater", x, y, IExp("b", x, SymVal(x, 128) > SymVal(y, 128), 0)) : x \in ISyms, y \in ISyms}
\cup {ICase("Smaller", x, y, IExp("b", x, SymVal(x, 128) < SymVal(y, 128), 0)) : x \in ISyms, y \in ISyms}

(***************************************************************************)
(* GENERIC CONSTRUCTORS AND CONVERTERS (vector.go, matrix.go): functions   *)
(* that take the element type as an argument.  For EVERY element type T    *)
(* the case is instantiated for, the object built by ctor(T, ...) must     *)
(* have element type T (ElementType() and the dynamic type), the storage   *)
(* r.k, the shape and the content `exp`; `probe`: on an integer type,      *)
(* MaxIntN stored into the first element and incremented by one must wrap  *)
(* to MinIntN of THAT type (tells Int8 from Int16 containers).             *)
(***************************************************************************)
CtorRec(ctor, k, rows, cols, a, cc) ==
  [op |-> "Ctor", ctor |-> ctor, r |-> Rep(k, rows, cols, PZ(Len2(rows, cols)), "-"), a |-> a, b |-> NoOpd, s |-> NoS,
   dims |-> <<rows, cols, 0>>, exp |-> Exp("c", cc, FALSE),
   probe |-> [x |-> Sym("max", 0), y |-> Sym("zero", 1), res |-> IntRes("Add", Sym("max", 0), Sym("zero", 1))]]
CtorSrc(rows, cols, x) ==      \* the source of a conversion: content x in every representation
  [rows |-> rows, cols |-> cols, c |-> MkA(x), reps |-> [k \in OpKinds(MkA(x)) |-> Stored(k, MkA(x))]]
CtorCases ==
  LET VN == 0..2
      MS == {<<0, 0>>, <<1, 2>>, <<2, 1>>, <<2, 2>>}
      Sto(name) == IF name \in {"NullDenseVector", "AsDenseVector", "NullDenseMagicVector", "AsDenseMagicVector",
                                "NullDenseMatrix", "AsDenseMatrix", "NullDenseMagicMatrix", "AsDenseMagicMatrix",
                                "DenseIdentityMatrix", "DenseMagicIdentityMatrix"} THEN "d" ELSE "s"
  IN
     {CtorRec(cn, Sto(cn), n, -1, NoOpd, Zeros(n)) :
        cn \in {"NullDenseVector", "NullSparseVector", "NullDenseMagicVector", "NullSparseMagicVector"}, n \in VN}
\cup {CtorRec(cn, Sto(cn), Len(x), -1, CtorSrc(Len(x), -1, x), Copy(MkA(x))) :
        cn \in {"AsDenseVector", "AsSparseVector", "AsDenseMagicVector", "AsSparseMagicVector"}, x \in UNION {Tuples(n, V3) : n \in VN}}
\cup {CtorRec(cn, Sto(cn), sh[1], sh[2], NoOpd, Zeros(sh[1] * sh[2])) :
        cn \in {"NullDenseMatrix", "NullSparseMatrix", "NullDenseMagicMatrix", "NullSparseMagicMatrix"}, sh \in MS}
\cup {CtorRec(cn, Sto(cn), q[1][1], q[1][2], CtorSrc(q[1][1], q[1][2], q[2]), Copy(MkA(q[2]))) :
        cn \in {"AsDenseMatrix", "AsSparseMatrix", "AsDenseMagicMatrix", "AsSparseMagicMatrix"},
        q \in {z \in (MS \ {<<2, 2>>}) \X (Tuples(2, V3) \cup {<<>>}) : Len(z[2]) = z[1][1] * z[1][2]}}
\cup {CtorRec(cn, Sto(cn), n, n, NoOpd, Ident(n, n)) :
        cn \in {"DenseIdentityMatrix", "SparseIdentityMatrix", "DenseMagicIdentityMatrix", "SparseMagicIdentityMatrix"}, n \in 0..3}

(***************************************************************************)
(* Equals WITH AN EPSILON DIMENSION.  Values are integers in units of      *)
(* 2^EqScale (exact dyadic numbers in float32 and float64), epsilon is     *)
(* EqEps units.  Contract (doc comment of Equals, scalar Equals: strict    *)
(* comparison): Equals(r, a, eps) iff |r_i - a_i| < eps for every i --     *)
(* whatever the storage, and whichever of the two operands stores an entry *)
(* (an absent entry is 0).  Differences below (1023, 1), equal to (1024)   *)
(* and above epsilon occur at positions stored in both, in only one of the *)
(* operands, or as explicitly stored zeros (receiver kinds d, s, z x all   *)
(* operand representations).  Instantiated for the floating point and      *)
(* magic element types.                                                    *)
(***************************************************************************)
EqScale == -40
EqEps   == 1024                         \* 2^-30
EqVals  == {0, 1, 1024, 1048576}        \* 0, 2^-40, 2^-30 (= eps), 2^-20
AbsDiff(x, y) == IF x < y THEN y - x ELSE x - y
WithinEps(rc, ac) == \A i \in 1..Len(rc) : AbsDiff(rc[i][1], ac[i][1]) < EqEps
EqEpsCases ==
  LET shapes == {<<1, -1>>, <<2, -1>>, <<1, 1>>, <<1, 2>>, <<2, 1>>}
  IN UNION {
       {[op |-> "Equals", scale |-> EqScale, epsu |-> EqEps,
         r |-> Rep(k, sh[1], sh[2], MkV(xy[1]), "-"),
         a |-> Opd(Rep(k, sh[1], sh[2], MkV(xy[1]), "-"), sh[1], sh[2], MkV(xy[2])), b |-> NoOpd, s |-> NoS,
         dims |-> <<sh[1], sh[2], 0>>, exp |-> Exp("b", <<>>, WithinEps(MkV(xy[1]), MkV(xy[2])))] :
          xy \in {q \in Tuples(Len2(sh[1], sh[2]), EqVals) \X Tuples(Len2(sh[1], sh[2]), EqVals) : k \in OpKinds(MkV(q[1]))}}
       : sh \in shapes, k \in {"d", "s", "z"}}

(***************************************************************************)
(* QUOTIENTS THAT ARE NOT INTEGERS.  Every element-wise / broadcast        *)
(* quotient is ONE correctly rounded IEEE division per element (truncating *)
(* division for the integer types), so dense and sparse receivers must be  *)
(* bit-identical.  The demanded element is the triple <<num, den, 6>>:     *)
(* class 6 = "the quotient num/den, rounded once in the element type"      *)
(* (5/3, 7/3, 3/10 ...).  ascale/bscale: operand a / the divisor are       *)
(* multiplied by 2^scale (a subnormal divisor 2^-1074 under a numerator    *)
(* 2^-1000: the exact quotient 2^74 * num/den must come out, not           *)
(* a * (1/b) = Inf).  kind = "ratio".                                      *)
(***************************************************************************)
RNum == {0, 3, 5, 7}
RDen == {3, 10}
RatioOf(a, b) == IF a[1] = 0 THEN ZeroT ELSE <<a[1], b[1], 6>>
RatioRec(op, r, a, b, sv, rows, cols, asc, bsc, cc) ==
  [op |-> op, kind |-> "ratio", ascale |-> asc, bscale |-> bsc, r |-> r, a |-> a, b |-> b, s |-> <<sv, 0>>,
   dims |-> <<rows, cols, 0>>, exp |-> Exp("c", cc, FALSE)]
RatioFor(sh, sc, r) ==
       {RatioRec(IF sh[2] < 0 THEN "VdivS" ELSE "MdivS", r, Opd(r, sh[1], sh[2], MkV(x)), NoOpd, sv, sh[1], sh[2], sc[1], sc[2],
                 SeqOf(Len(x), LAMBDA i : RatioOf(<<x[i], 0>>, <<sv, 0>>))) :
          x \in Tuples(Len2(sh[1], sh[2]), IF sc[1] = 0 THEN RNum ELSE {0, 1, 3}), sv \in (IF sc[1] = 0 THEN RDen ELSE {1})}
       \cup
       {RatioRec(IF sh[2] < 0 THEN "VdivV" ELSE "MdivM", r, Opd(r, sh[1], sh[2], MkV(xy[1])), Opd(r, sh[1], sh[2], MkV(xy[2])), 0,
                 sh[1], sh[2], sc[1], sc[2], SeqOf(Len(xy[1]), LAMBDA i : RatioOf(<<xy[1][i], 0>>, <<xy[2][i], 0>>))) :
          xy \in Tuples(Len2(sh[1], sh[2]), IF sc[1] = 0 THEN RNum ELSE {0, 1, 3}) \X
                 Tuples(Len2(sh[1], sh[2]), IF sc[1] = 0 THEN RDen ELSE {1})}
RatioCases ==
  UNION {UNION {RatioFor(sh, sc, r) : r \in Receivers(sh[1], sh[2])} :
           sh \in {<<1, -1>>, <<2, -1>>, <<1, 2>>}, sc \in {<<0, 0>>, <<-1000, -1074>>}}

(***************************************************************************)
(* VALUES THAT DO NOT FIT SINGLE PRECISION (2^24 + 1).  Every typed        *)
(* accessor (Float64At, IntAt, ..., ConstAt().GetXxx) must deliver the     *)
(* stored element; a product reading a sparse operand through one of them  *)
(* must not round it.  Instantiated for the element types that hold the    *)
(* values exactly (Int32/64, Int, Float64, Real64).  kind = "big".         *)
(***************************************************************************)
BigV == {0, 1, 16777217}
BigRec(op, r, a, b, dims) == [Case(op, r, a, b, NoS, dims) EXCEPT !.s = NoS] @@ [kind |-> "big"]
BigCases ==
     {BigRec("Set", r, Opd(r, 2, -1, MkV(x)), NoOpd, <<2, -1, 0>>) : r \in Receivers(2, -1), x \in Tuples(2, BigV)}
\cup {BigRec("MdotV", r, Opd(r, 2, 2, MkV(x)), Opd(r, 2, -1, MkV(y)), <<2, -1, 2>>) : r \in Receivers(2, -1), x \in Tuples(4, V2a), y \in Tuples(2, BigV)}
\cup {BigRec("VdotM", r, Opd(r, 2, -1, MkV(x)), Opd(r, 2, 2, MkV(y)), <<2, -1, 2>>) : r \in Receivers(2, -1), x \in Tuples(2, BigV), y \in Tuples(4, V2a)}
\cup {BigRec("VaddV", r, Opd(r, 2, -1, MkV(x)), Opd(r, 2, -1, MkV(y)), <<2, -1, 0>>) : r \in Receivers(2, -1), x \in Tuples(2, BigV), y \in Tuples(2, V2a)}

(***************************************************************************)
(* OPERANDS THAT ARE DIFFERENT VIEWS OF ONE STORAGE (dense matrices: the   *)
(* concrete methods exist for them).  base = a matrix; v1, v2 = views      *)
(* [t: transposed, r0, r1, c0, c1: slice bounds applied before T()].  The  *)
(* content of a view is defined by the view arithmetic of the property     *)
(* text: Slice(r0,r1,c0,c1).At(i,j) = At(r0+i, c0+j), T().At(i,j) =        *)
(* At(j,i).  Equals: receiver = view v1, argument = view v2; MaddM/MmulM:  *)
(* fresh receiver, operands v1, v2.  kind = "view".                        *)
(***************************************************************************)
View(t, r0, r1, c0, c1) == [t |-> t, r0 |-> r0, r1 |-> r1, c0 |-> c0, c1 |-> c1]
VRows(v) == IF v.t THEN v.c1 - v.c0 ELSE v.r1 - v.r0
VCols(v) == IF v.t THEN v.r1 - v.r0 ELSE v.c1 - v.c0
ViewContent(base, bcols, v) ==
  SeqOf(VRows(v) * VCols(v), LAMBDA x :
     LET i == RowOf(x, VCols(v)) - 1
         j == ColOf(x, VCols(v)) - 1
     IN IF v.t THEN At(base, bcols, v.r0 + j + 1, v.c0 + i + 1) ELSE At(base, bcols, v.r0 + i + 1, v.c0 + j + 1))
ViewRec(op, r, brows, bcols, bc, v1, v2, cc) ==
  [op |-> op, kind |-> "view", r |-> r, a |-> [rows |-> brows, cols |-> bcols, c |-> bc, reps |-> [k \in {"d"} |-> 1..Len(bc)]],
   b |-> NoOpd, s |-> NoS, v1 |-> v1, v2 |-> v2, dims |-> <<VRows(v1), VCols(v1), 0>>, exp |-> cc]
ViewPairs3 == {<<View(FALSE, 0, 2, 0, 2), View(FALSE, 1, 3, 1, 3)>>,      \* two shifted slices
               <<View(FALSE, 0, 2, 1, 3), View(TRUE, 1, 3, 0, 2)>>,       \* a slice and the transposed mirror slice
               <<View(FALSE, 0, 3, 0, 3), View(TRUE, 0, 3, 0, 3)>>}       \* m and m.T()
ViewCases ==
  LET B2 == {MkA(x) : x \in Tuples(4, V3)}
      B3 == {MkA(x) : x \in Tuples(9, V2a)}
      W2 == <<View(FALSE, 0, 2, 0, 2), View(TRUE, 0, 2, 0, 2)>>
      EqRec(rows, cols, bc, vp) ==
        ViewRec("Equals", Rep("d", VRows(vp[1]), VCols(vp[1]), <<>>, "-"), rows, cols, bc, vp[1], vp[2],
                Exp("b", <<>>, SameValues(ViewContent(bc, cols, vp[1]), ViewContent(bc, cols, vp[2]))))
      OpRec(op, rows, cols, bc, vp, r) ==
        ViewRec(op, r, rows, cols, bc, vp[1], vp[2],
                Exp("c", Result(op, ViewContent(bc, cols, vp[1]), ViewContent(bc, cols, vp[2]), NoS, <<VRows(vp[1]), VCols(vp[1]), 0>>), FALSE))
  IN {EqRec(2, 2, bc, W2) : bc \in B2}
     \cup {EqRec(3, 3, bc, vp) : bc \in B3, vp \in ViewPairs3}
     \cup {OpRec(op, 2, 2, bc, W2, r) : op \in {"MaddM", "MmulM"}, bc \in B2, r \in {q \in Receivers(2, 2) : q.k = "d"}}

(* ---- simulation: random contents beyond the exhaustive bounds ---------- *)
RV(n, D) == SeqOf(n, LAMBDA i : RandomElement(D))
V5 == -2..2
SimShapes == (2..4) \X (2..4)
SimFamilies ==
     {Fam(op, n, -1, 0) : op \in {"VaddV", "VsubV", "VmulV", "VaddS", "VsubS", "VmulS", "Set", "Equals", "VdotV"},
                          n \in (MaxN + 1)..SimN}
\cup {Fam(op, sh[1], -1, sh[2]) : op \in {"MdotV", "VdotM"}, sh \in SimShapes}
\cup {Fam(op, sh[1], sh[2], 0) : op \in {"MaddM", "MsubM", "MmulM", "MmulS", "Set", "SetIdentity", "Equals", "Outer"},
                                 sh \in SimShapes}
\cup {Fam("MdotM", sh[1], sh[2], k) : sh \in (2..3) \X (2..3), k \in 2..3}

\* the simulation first draws operand VALUES into the state (so that they are
\* fixed values), then builds the case records like the exhaustive enumeration
SimDraw(f) ==
  LET n == Len2(f.rows, f.cols) IN
  CASE f.op = "MdotV" -> /\ rx' = RV(f.rows * f.inner, V3) /\ ry' = RV(f.inner, V3)
    [] f.op = "VdotM" -> /\ rx' = RV(f.inner, V3) /\ ry' = RV(f.inner * f.rows, V3)
    [] f.op = "MdotM" -> /\ rx' = RV(f.rows * f.inner, V2a) /\ ry' = RV(f.inner * f.cols, V2b)
    [] f.op = "Outer" -> /\ rx' = RV(f.rows, V3) /\ ry' = RV(f.cols, V3)
    [] f.op = "Equals" -> /\ rx' = RV(n, V2a) /\ ry' = RV(n, V2a)
    [] OTHER          -> /\ rx' = RV(n, V5) /\ ry' = RV(n, V5)

ForSim(f, r, x, y, P(_)) ==
  LET n    == Len2(f.rows, f.cols)
      dims == <<f.rows, f.cols, f.inner>>
      O(rows, cols, cc) == Opd(r, rows, cols, cc)
  IN
  CASE f.op \in {"VaddV", "VsubV", "VmulV", "MaddM", "MsubM", "MmulM"} ->
         P(Case(f.op, r, O(f.rows, f.cols, MkA(x)), O(f.rows, f.cols, MkB(y)), NoS, dims))
    [] f.op \in {"VaddS", "VsubS", "VmulS", "MmulS"} ->
         \E sv \in SVals : P(Case(f.op, r, O(f.rows, f.cols, MkA(x)), NoOpd, MkS(sv), dims))
    [] f.op = "Set" -> P(Case(f.op, r, O(f.rows, f.cols, MkA(x)), NoOpd, NoS, dims))
    [] f.op = "SetIdentity" -> P(Case(f.op, r, NoOpd, NoOpd, NoS, dims))
    [] f.op = "Equals" -> r.k \in OpKinds(MkA(x)) /\ P(EqCase(f, Rep(r.k, f.rows, f.cols, MkA(x), "-"), O(f.rows, f.cols, MkB(y))))
    [] f.op = "VdotV" -> P(DotCase(f, O(n, -1, MkA(x)), O(n, -1, MkB(y))))
    [] f.op = "MdotV" -> P(Case(f.op, r, O(f.rows, f.inner, MkA(x)), O(f.inner, -1, MkB(y)), NoS, dims))
    [] f.op = "VdotM" -> P(Case(f.op, r, O(f.inner, -1, MkA(x)), O(f.inner, f.rows, MkB(y)), NoS, dims))
    [] f.op = "MdotM" -> P(Case(f.op, r, O(f.rows, f.inner, MkA(x)), O(f.inner, f.cols, MkB(y)), NoS, dims))
    [] f.op = "Outer" -> P(Case(f.op, r, O(f.rows, -1, MkA(x)), O(f.cols, -1, MkB(y)), NoS, dims))

(* ---- the enumeration as a state machine -------------------------------- *)
NoCase == [op |-> "-"]
Init == ph = "start" /\ fam = NoFam /\ rcv = None /\ c = NoCase /\ rx = <<>> /\ ry = <<>>

PickFamily ==
  /\ ph = "start"
  /\ fam' \in (IF Sim THEN SimFamilies ELSE IF Special THEN SpecialFams ELSE Families)
  /\ ph' = "family" /\ UNCHANGED <<rcv, c, rx, ry>>

PickReceiver ==
  /\ ph = "family"
  /\ rcv' \in FamReceivers(fam)
  /\ IF Sim THEN SimDraw(fam) ELSE UNCHANGED <<rx, ry>>
  /\ ph' = "receiver" /\ UNCHANGED <<fam, c>>

Put(k) == /\ c' = k
          /\ (Emit => PrintT(ToJson(k)))

EmitCase ==
  /\ ph = "receiver"
  /\ IF Sim THEN ForSim(fam, rcv, rx, ry, Put) ELSE IF Special THEN ForSpecial(fam, rcv, Put) ELSE ForCases(fam, rcv, Put)
  /\ ph' = "case" /\ UNCHANGED <<fam, rcv, rx, ry>>

EmitScalar ==
  /\ ph = "start" /\ Mode = "c09" /\ ~Sim
  /\ \E k \in (IF Special THEN SpecialScalarCases \cup IntBoundCases ELSE ScalarCases) : Put(k)
  /\ ph' = "case" /\ UNCHANGED <<fam, rcv, rx, ry>>

EmitCtor ==
  /\ ph = "start" /\ Mode = "c03" /\ ~Sim /\ ~Special /\ ~ZeroVar /\ Part \in {"all", "vec"}
  /\ \E k \in CtorCases : Put(k)
  /\ ph' = "case" /\ UNCHANGED <<fam, rcv, rx, ry>>

EmitEqEps ==
  /\ ph = "start" /\ ~Sim /\ ~Special /\ ~ZeroVar /\ Part \in {"all", "vec"}
  /\ \E k \in EqEpsCases : Put(k)
  /\ ph' = "case" /\ UNCHANGED <<fam, rcv, rx, ry>>

EmitExtra ==
  /\ ph = "start" /\ ~Sim /\ ~Special /\ ~ZeroVar /\ Part \in {"all", "vec"}
  /\ \E k \in RatioCases \cup BigCases \cup ViewCases : Put(k)
  /\ ph' = "case" /\ UNCHANGED <<fam, rcv, rx, ry>>

Next == PickFamily \/ PickReceiver \/ EmitCase \/ EmitScalar \/ EmitCtor \/ EmitEqEps \/ EmitExtra
Spec == Init /\ [][Next]_vars

(***************************************************************************)
(* StorageIndependence: the demanded content is the same for EVERY         *)
(* receiver representation / prior content; the operand representations    *)
(* are not even parameters of Result.  (True by construction -- Result     *)
(* cannot see `st`, `k` or the receiver -- and checked so that it stays    *)
(* true when the contract grows.)                                          *)
(***************************************************************************)
IsContainerCase == ph = "case" /\ "exp" \in DOMAIN c
StorageIndependence ==
  (IsContainerCase /\ c.exp.t = "c" /\ c.op # "Ctor" /\ "kind" \notin DOMAIN c) =>
     \A r2 \in Receivers(c.r.rows, c.r.cols) : Case(c.op, r2, c.a, c.b, c.s, c.dims).exp = c.exp
\* every demanded value fits every element type (int8 included)
Small == (IsContainerCase /\ "kind" \notin DOMAIN c) => \A i \in 1..Len(c.exp.c) : c.exp.c[i][1] \in -100..100
\* stored positions always cover the non-zero content
StoredCoversContent ==
  IsContainerCase => \A o \in {c.a, c.b} : \A k \in DOMAIN o.reps : NonZero(o.c) \subseteq o.reps[k]
=============================================================================
