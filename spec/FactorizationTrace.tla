------------------------- MODULE FactorizationTrace -------------------------
(***************************************************************************)
(* Trace validation (code -> model) for C05.  harness/cmd/factor calls     *)
(* every real decomposition routine on every case of Factorization.tla,    *)
(* for every option combination, element type and buffer mode, and logs    *)
(* one event per call:                                                     *)
(*   gen, routine, options        what was called on what                  *)
(*   outcome                      ok | err | panic | timeout | fatal       *)
(*   f1, f2, f3, vals, afx        the returned factors / values and the    *)
(*                                input as fixed-point integers (2^10)     *)
(*   pat1..3, recon, eigpair,     the FINE observations of the harness     *)
(*   sorted, valsex, facex, ..    projection (float64 residuals)           *)
(* This specification re-derives the case from the logged generator with   *)
(* the operators of Factorization (matrix, input class, exact knowledge,   *)
(* contract of the routine) and decides every event:                       *)
(*   malformed   the event is not the one the case demands (binding: the   *)
(*               logged input is not Num/Den of the generator, the routine *)
(*               is not admissible, an observation that the contract       *)
(*               demands is reported 'not applicable')                     *)
(*   fine        clauses of the contract whose fine observation is false   *)
(*   coarse      the same clauses RE-COMPUTED here from the logged         *)
(*               integers (products in fixed point with a rounding bound   *)
(*               derived from the logged magnitudes).  A coarse failure    *)
(*               never decides alone: with the fine observation true it is *)
(*               reported as 'coarseonly' (a disagreement between harness  *)
(*               and model - infrastructure, exit 2); with the fine        *)
(*               observation false it is attached to the fine failure.     *)
(* Every event with a non-empty verdict is printed; the run continues so   *)
(* that every non-conforming call is classified (known findings must not   *)
(* hide other violations).  Acceptance: all events consumed.               *)
(***************************************************************************)
EXTENDS Factorization

Trace == ndJsonDeserialize("factor_trace.ndjson")

VARIABLE l
tvars == <<l, g>>
Ev == Trace[l]

S == 1024                                  \* fixed-point scale
ZT == 2                                    \* coarse zero tolerance (units of 1/S)

(* ------------------------------------------------------------ fixed point *)
(* nearest integer to S * r for a rational r (floor based; ties up) *)
FxOfRat(r) == LET q == r.n \div r.d  rem == r.n % r.d
              IN IF r.d <= 524288 THEN q * S + (2 * rem * S + r.d) \div (2 * r.d)
                 ELSE LET d2 == r.d \div S IN q * S + (rem + d2 \div 2) \div d2     \* large denominators: within one unit, no 32-bit overflow
AbsM(A) == IF Rows(A) = 0 THEN 0
           ELSE MaxInts(TLCEval([i \in 1..Rows(A) |-> MaxInts(TLCEval([j \in 1..Cols(A) |-> Abs(A[i][j])]))]))
Near(a, b, tol) == Abs(a - b) <= tol
NearM(A, B, tol) == /\ Rows(A) = Rows(B) /\ Cols(A) = Cols(B)
                    /\ \A i \in 1..Rows(A) : \A j \in 1..Cols(A) : Near(A[i][j], B[i][j], tol)
SIdent(n) == Mat(n, n, LAMBDA i, j : IF i = j THEN S ELSE 0)

(* a product is only formed when no intermediate can leave 32 bits *)
ProdSafe(X, Y) == Cols(X) = Rows(Y) /\ (AbsM(X) = 0 \/ AbsM(Y) <= (268435456 \div AbsM(X)))
FxMul(X, Y) == Mat(Rows(X), Cols(Y), LAMBDA i, j :
                 (SumInts(TLCEval([t \in 1..Cols(X) |-> X[i][t] * Y[t][j]])) + S \div 2) \div S)
(* rounding bound of FxMul(X, Y) when the entries of X, Y carry errors ex, ey (units of 1/S) *)
ErrMul(X, Y, ex, ey) == (Cols(X) * (ey * AbsM(X) + ex * AbsM(Y))) \div S + (Cols(X) * ex * ey) \div S + 2

(* ------------------------------------------------------------ patterns on fixed-point matrices *)
Z(x) == Abs(x) <= ZT
CPattern(name, F) ==
  LET m == Rows(F)  n == Cols(F)  k == IF m < n THEN m ELSE n
      ZeroWhere(P(_, _)) == \A i \in 1..m : \A j \in 1..n : P(i, j) => Z(F[i][j])
      Lower == ZeroWhere(LAMBDA i, j : j > i)
      Diag == ZeroWhere(LAMBDA i, j : i # j)
      Hess == ZeroWhere(LAMBDA i, j : i > j + 1)
  IN CASE name = "lower" -> Lower
       [] name = "unitlower" -> Lower /\ \A i \in 1..k : Near(F[i][i], S, ZT)
       [] name = "diag" -> Diag
       [] name = "posdiag" -> Diag /\ \A i \in 1..k : F[i][i] >= 0
       [] name = "nonnegdiag" -> Diag /\ \A i \in 1..k : F[i][i] >= 0 - ZT
       [] name = "upper" -> ZeroWhere(LAMBDA i, j : i > j)
       [] name = "upperbidiag" -> ZeroWhere(LAMBDA i, j : ~(j = i \/ j = i + 1))
       [] name = "tridiag" -> ZeroWhere(LAMBDA i, j : j > i + 1 \/ i > j + 1)
       [] name = "hessenberg" -> Hess
       [] name = "quasiupper" -> Hess /\ m = n /\ \A i \in 1..(m - 2) : Z(F[i + 1][i]) \/ Z(F[i + 2][i + 1])
       [] name \in {"orth", "orthcols"} ->
            /\ name = "orth" => m = n
            /\ ProdSafe(Tr(F), F) =>
                 LET GG == MMul(Tr(F), F)  tol == m * AbsM(F) + m + 2 * S
                 IN \A i \in 1..n : \A j \in 1..n : Near(GG[i][j], IF i = j THEN S * S ELSE 0, tol)
       [] OTHER -> TRUE

(* ------------------------------------------------------------ the event against the contract *)
Opt(c, o) == \E i \in 1..Len(c.opts) : c.opts[i] = o
Needs1(e, c) == c.f1 # "none" /\ (Opt(c, "cu") => e.cu) /\ (Opt(c, "vec") => e.vec)
Needs2(e, c) == c.f2 # "none"
Needs3(e, c) == c.f3 # "none" /\ (Opt(c, "cv") => e.cv)
Full(e, c) == (Opt(c, "cu") => e.cu) /\ (Opt(c, "cv") => e.cv) /\ (Opt(c, "vec") => e.vec)
EqDemanded(e, c) == Full(e, c) /\ (e.routine = "ldl_forcepd" => SuffPD(e.gen))
InvarExpected(e) == e.routine \in {"bidiag", "svd", "tridiag", "hessenberg", "qr", "qr_sym"}

AFx(g_) == LET A == Num(g_)  d == Den(g_) IN Mat(Rows(A), Cols(A), LAMBDA i, j : FxOfRat([n |-> A[i][j], d |-> d]))

(* exact values the construction yields for `vals`, as fixed point, sorted ascending *)
ExactVals(e) ==
  IF e.routine \in {"eigen", "eigen_sym"} /\ EigKnown(e.gen)
  THEN SortSeq(TLCEval([i \in 1..e.gen.n |-> FxOfRat((EigReal(e.gen) \o EigCRe(e.gen))[i])]), <)
  ELSE IF e.routine = "svd" /\ SvKnown(e.gen)
  THEN SortSeq(TLCEval([i \in 1..e.gen.n |-> FxOfRat(SingVals(e.gen)[i])]), <)
  ELSE <<>>
ValsKnown(e) == (e.routine \in {"eigen", "eigen_sym"} /\ EigKnown(e.gen)) \/ (e.routine = "svd" /\ SvKnown(e.gen))
ValTol(e) == IF Loose(e.gen) THEN 8 + AbsM(e.afx) \div 8 ELSE 8
LoggedVals(e) == IF e.routine = "svd" THEN SortSeq(TLCEval([i \in 1..Len(e.vals) |-> Abs(e.vals[i])]), <)
                 ELSE SortSeq(e.vals, <)
(* indices of `vals` that are REAL eigenvalues of the input: all of them for symmetric input, else   *)
(* those that match an exact real eigenvalue and no real part of a complex pair (the generator       *)
(* keeps the two apart)                                                                              *)
RealIdx(e) ==
  IF Symmetric(e.gen) THEN 1..Len(e.vals)
  ELSE LET re == EigReal(e.gen)  cr == EigCRe(e.gen)  tol == ValTol(e) + 64
       IN {j \in 1..Len(e.vals) :
             /\ \E i \in 1..Len(re) : Near(e.vals[j], FxOfRat(re[i]), tol)
             /\ \A i \in 1..Len(cr) : ~Near(e.vals[j], FxOfRat(cr[i]), tol)}

FacExDemanded(e) == \/ CholKnown(e.gen) /\ (e.routine \in {"cholesky", "ldl"} \/ (e.routine = "ldl_forcepd" /\ SuffPD(e.gen)))
                    \/ RootKnown(e.gen) /\ e.routine \in {"msqrt", "msqrtinv"}
ExactF1(e) == CASE e.routine = "cholesky" -> CholL(e.gen)
                [] e.routine = "msqrt" -> SqrtM(e.gen)
                [] e.routine = "msqrtinv" -> InvSqrtM(e.gen)
                [] OTHER -> LdlL(e.gen)
RMatFx(R) == TLCEval([i \in 1..Len(R) |-> TLCEval([j \in 1..Len(R[i]) |-> FxOfRat(R[i][j])])])

(* coarse re-computation of the defining equation; TRUE when it cannot be formed safely *)
CRecon(e, c) ==
  LET A == e.afx  n == e.gen.n
  IN CASE c.eq = "F1F1t" ->
            ProdSafe(e.f1, Tr(e.f1)) => NearM(FxMul(e.f1, Tr(e.f1)), A, ErrMul(e.f1, Tr(e.f1), 1, 1) + 1)
       [] c.eq = "F1F2" ->
            ProdSafe(e.f1, e.f2) => NearM(FxMul(e.f1, e.f2), A, ErrMul(e.f1, e.f2, 1, 1) + 1)
       [] c.eq = "F1F1" ->
            ProdSafe(e.f1, e.f1) => NearM(FxMul(e.f1, e.f1), A, ErrMul(e.f1, e.f1, 1, 1) + 1 + S \div 64)
       [] c.eq \in {"F1F2F1t", "F1F2F3t"} ->
            LET W == IF c.eq = "F1F2F1t" THEN Tr(e.f1) ELSE Tr(e.f3)
            IN ProdSafe(e.f1, e.f2) =>
                 LET Q == FxMul(e.f1, e.f2)  eq == ErrMul(e.f1, e.f2, 1, 1)
                 IN ProdSafe(Q, W) /\ eq < 4096 => NearM(FxMul(Q, W), A, ErrMul(Q, W, eq, 1) + 1)
       [] c.eq = "F1AF1" ->
            ProdSafe(e.f1, A) =>
                 LET Q == FxMul(e.f1, A)  eq == ErrMul(e.f1, A, 1, 1)
                 IN ProdSafe(Q, e.f1) /\ eq < 4096 => NearM(FxMul(Q, e.f1), SIdent(n), ErrMul(Q, e.f1, eq, 1) + 1 + S \div 64)
       [] OTHER -> TRUE
(* A v_j = lambda_j v_j, coarse *)
CEigPair(e, j) ==
  LET A == e.afx  n == e.gen.n
      v == Mat(n, 1, LAMBDA i, t : e.f1[i][j])
      lv == Mat(n, 1, LAMBDA i, t : (e.vals[j] * e.f1[i][j] + S \div 2) \div S)
  IN (ProdSafe(A, v) /\ Abs(e.vals[j]) <= 262144) =>
       NearM(FxMul(A, v), lv, ErrMul(A, v, 1, 1) + (Abs(e.vals[j]) + AbsM(v)) \div S + 3)

Clause(name, fine, coarse) == [name |-> name, fine |-> fine, coarse |-> coarse]

(* all clauses of the contract that apply to the event, each with its fine observation and its coarse re-computation *)
Clauses(e) ==
  LET c == ContractOf(e.routine)
      fx == e.fxok
      P(i, has, pat, F, want) ==
         {Clause("has" \o i, has, TRUE)} \cup
         (IF has THEN {Clause("pat" \o i \o "." \o want, pat[want], fx => CPattern(want, F))} ELSE {})
  IN (IF Needs1(e, c) THEN P("1", e.has1, e.pat1, e.f1, c.f1) ELSE {})
     \cup (IF Needs2(e, c) THEN P("2", e.has2, e.pat2, e.f2, c.f2) ELSE {})
     \cup (IF Needs3(e, c) THEN P("3", e.has3, e.pat3, e.f3, c.f3) ELSE {})
     \cup (IF c.eq # "eig" /\ EqDemanded(e, c) /\ e.recona
           THEN {Clause("recon", e.recon, fx => CRecon(e, c))} ELSE {})
     \cup (IF c.eq = "eig" /\ Full(e, c) /\ e.recona
           THEN {Clause("eigpair", \A j \in RealIdx(e) : e.eigpair[j],
                        (fx /\ e.has1) => \A j \in RealIdx(e) : CEigPair(e, j))} ELSE {})
     \cup (IF SortedVals(e.routine)
           THEN {Clause("sorted", e.sorted, fx => \A i \in 1..(Len(e.vals) - 1) : Abs(e.vals[i]) >= Abs(e.vals[i + 1]) - ZT)} ELSE {})
     \cup (IF ValsKnown(e) /\ e.valsexa
           THEN {Clause("valsexact", e.valsex,
                        fx => (Len(e.vals) = e.gen.n /\ \A i \in 1..e.gen.n : Near(LoggedVals(e)[i], ExactVals(e)[i], ValTol(e))))} ELSE {})
     \cup (IF FacExDemanded(e) /\ e.facexa /\ e.has1
           THEN {Clause("factorexact", e.facex,
                        fx => /\ NearM(e.f1, RMatFx(ExactF1(e)), ZT + (IF RootKnown(e.gen) THEN S \div 32 ELSE 0))
                              /\ (e.routine \in {"ldl", "ldl_forcepd"} /\ e.has2) =>
                                   \A i \in 1..e.gen.n : Near(e.f2[i][i], FxOfRat(LdlD(e.gen)[i]), ZT))} ELSE {})
     \cup (IF e.agreea THEN {Clause("typesagree", e.agree, TRUE)} ELSE {})
     \cup (IF e.middlea THEN {Clause("optionindependent", e.middle, TRUE)} ELSE {})
     \cup (IF e.invara THEN {Clause("invariant", e.invar, TRUE)} ELSE {})

(* observations the contract demands must not be reported 'not applicable'; the event must be the case's *)
Malformed(e) ==
  LET c == ContractOf(e.routine)  ok == e.outcome = "ok" IN
  {x \in {
     IF e.routine \in RoutineNames THEN "" ELSE "routine",
     IF WellFormed(e.gen) /\ Admissible(e.gen, e.routine) THEN "" ELSE "inadmissible",
     IF e.outcome \in {"ok", "err", "panic", "timeout", "fatal"} THEN "" ELSE "outcome",
     IF (~e.fxok) \/ NearM(e.afx, AFx(e.gen), 1) THEN "" ELSE "binding",
     IF ok /\ EqDemanded(e, c) /\ e.has1 /\ (Needs2(e, c) => e.has2) /\ (Needs3(e, c) => e.has3) /\ ~e.recona THEN "recon_na" ELSE "",
     IF ok /\ ValsKnown(e) /\ Len(e.vals) > 0 /\ ~e.valsexa THEN "valsexact_na" ELSE "",
     IF ok /\ FacExDemanded(e) /\ e.has1 /\ ~e.facexa THEN "factorexact_na" ELSE "",
     IF ok /\ InvarExpected(e) /\ e.has2 /\ e.pat2["any"] /\ ~e.invara THEN "invariant_na" ELSE "",
     IF ok /\ CondKnown(e.gen) /\ ~e.condtol THEN "condtol_na" ELSE "",
     IF (~ok) /\ (e.has1 \/ e.has2 \/ e.has3 \/ Len(e.vals) > 0) THEN "results_with_error" ELSE ""} : x # ""}

Verdict(e) ==
  IF e.outcome # "ok"
  THEN [malformed |-> Malformed(e), fine |-> {e.outcome}, coarse |-> {}, coarseonly |-> {}]      \* admissible input: must succeed
  ELSE LET cl == Clauses(e)
       IN [malformed |-> Malformed(e),
           fine |-> {x.name : x \in {y \in cl : ~y.fine}},
           coarse |-> {x.name : x \in {y \in cl : ~y.fine /\ ~y.coarse}},
           coarseonly |-> {x.name : x \in {y \in cl : y.fine /\ ~y.coarse}}]

(* the sub-class of the input that a finding about the routine may be narrowed to *)
CloseVals(e) == \E i, j \in 1..Len(e.vals) : i < j /\ Near(e.vals[i], e.vals[j], ZT)
SubClass(e) ==
  IF e.routine \in {"eigen", "eigen_sym"}
  THEN (IF EigCRe(e.gen) # <<>> THEN "complex_pairs"
        ELSE IF EigKnown(e.gen) THEN (IF HasRepeat(EigReal(e.gen)) THEN "repeated_eigenvalues" ELSE "distinct_real")
        ELSE IF e.outcome = "ok" /\ e.vfxok /\ CloseVals(e) THEN "repeated_eigenvalues" ELSE "unknown_spectrum")
  ELSE IF e.routine = "gramschmidt" THEN (IF FullColRank(e.gen) THEN "full_rank" ELSE "rank_deficient")
  ELSE IF e.routine \in {"msqrt", "msqrtinv"} /\ e.gen.cls = "spd" /\ e.gen.n = 4 THEN "spd_4x4"
  ELSE IF e.routine \in {"msqrt", "msqrtinv"} /\ e.gen.cls = "spdcond"
       THEN (IF e.gen.k >= 14 THEN "spd_cond_ge_1e4" ELSE "spd_cond_le_1e3")           \* prescribed condition number 4^j = 2^k
  ELSE IF e.routine = "qr" /\ e.gen.n >= 6 THEN "n_ge_6"
  ELSE "any"

Report(e, v) ==
  IF v.malformed = {} /\ v.fine = {} /\ v.coarseonly = {} THEN TRUE
  ELSE PrintT(ToJson([kind |-> "verdict", i |-> l, k |-> e.k, inclass |-> SubClass(e), malformed |-> v.malformed, fine |-> v.fine,
                      coarse |-> v.coarse, coarseonly |-> v.coarseonly]))

TStep == /\ l <= Len(Trace)
         /\ Report(Ev, Verdict(Ev))
         /\ l' = l + 1
         /\ UNCHANGED g

TraceInit == l = 1 /\ g = G("none", 0, 0, <<>>, <<>>, <<>>, 0)
TraceSpec == TraceInit /\ [][TStep]_tvars

TraceAccepted ==
  IF TLCGet("stats").diameter - 1 = Len(Trace) THEN TRUE
  ELSE Print(<<"TRACE_REJECTED_AT", TLCGet("stats").diameter, "OF", Len(Trace)>>, FALSE)
=============================================================================
