----------------------------- MODULE EstimatorsVec -----------------------------
(***************************************************************************)
(* C16 - closed-form estimator of the multivariate normal family           *)
(* (vectorEstimator.NormalEstimator): for observations x_i in R^2 with     *)
(* weights w_i the weighted maximum-likelihood estimate is                 *)
(*    mu = sum w x / sum w,   Sigma = sum w x x' / sum w - mu mu',         *)
(* with every diagonal entry raised to the configured lower bound.         *)
(* Exact rationals; TLC enumerates all data multisets over a 3 x 3 integer *)
(* grid and prints one case each.  Where the bounded Sigma is not positive *)
(* definite the family has no density and the estimator must answer with   *)
(* an error (defined = FALSE).                                             *)
(***************************************************************************)
EXTENDS Rat, FiniteSets, Json

CONSTANTS MaxN, G, Ws      \* data sets of 2..MaxN points over (0..G-1)^2 with weights Ws

VARIABLE data

Pts == {<<a, b, w>> : a \in 0..(G-1), b \in 0..(G-1), w \in Ws}
Key(p) == (p[1] * G + p[2]) * 10 + p[3]
Sorted(s) == \A i \in 1..(Len(s) - 1) : Key(s[i]) <= Key(s[i+1])
DataSets == UNION {{s \in [1..n -> Pts] : Sorted(s)} : n \in 2..MaxN}

SW(d)       == RSumSeq([i \in 1..Len(d) |-> RInt(d[i][3])])
S1(d, a)    == RSumSeq([i \in 1..Len(d) |-> RInt(d[i][3] * d[i][a])])
S2(d, a, b) == RSumSeq([i \in 1..Len(d) |-> RInt(d[i][3] * d[i][a] * d[i][b])])
Mu(d, a)    == RDiv(S1(d, a), SW(d))
Cov(d, a, b) == RSub(RDiv(S2(d, a, b), SW(d)), RMul(Mu(d, a), Mu(d, b)))

SigmaMins == <<Rat(1, 1000), Rat(3, 2)>>
CovB(d, a, b, m) == IF a = b THEN RMax(Cov(d, a, a), m) ELSE Cov(d, a, b)
DetB(d, m) == RSub(RMul(CovB(d, 1, 1, m), CovB(d, 2, 2, m)), RMul(CovB(d, 1, 2, m), CovB(d, 2, 1, m)))

Case(d) == [data |-> [i \in 1..Len(d) |-> [x1 |-> d[i][1], x2 |-> d[i][2], w |-> d[i][3]]],
            unit_weights |-> \A i \in 1..Len(d) : d[i][3] = 1,
            mu |-> <<Mu(d, 1), Mu(d, 2)>>,
            bounded |-> [m \in 1..Len(SigmaMins) |->
                           [defined |-> RLt(RZero, DetB(d, SigmaMins[m])),
                            s11 |-> CovB(d, 1, 1, SigmaMins[m]), s12 |-> CovB(d, 1, 2, SigmaMins[m]),
                            s22 |-> CovB(d, 2, 2, SigmaMins[m])]]]

Init == data \in DataSets
Next == UNCHANGED data
Spec == Init /\ [][Next]_data

(* model-level sanity: Sigma is symmetric and positive semi-definite (Cauchy-Schwarz) *)
CovSym == REq(Cov(data, 1, 2), Cov(data, 2, 1))
CovPSD == /\ ~RLt(Cov(data, 1, 1), RZero) /\ ~RLt(Cov(data, 2, 2), RZero)
          /\ ~RLt(RSub(RMul(Cov(data, 1, 1), Cov(data, 2, 2)), RMul(Cov(data, 1, 2), Cov(data, 1, 2))), RZero)
Emit == PrintT(ToJson(Case(data)))
=============================================================================
