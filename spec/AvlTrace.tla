------------------------------ MODULE AvlTrace ------------------------------
(***************************************************************************)
(* Trace validation (code -> model) for the ordered integer index, C19.    *)
(* The Go recorder (harness/cmd/avl record, and the verif hook behind the  *)
(* repository's own tests) writes one event per public call of the REAL    *)
(* AvlTree: name, arguments, returned value, iterator Ok()/Get() and the   *)
(* real tree shape read from the exported node fields.  Every event must   *)
(* be the corresponding action of the contract AvlSet, and the logged      *)
(* shape must be a height-balanced search tree holding exactly the         *)
(* contract's set, with consistent parent links and stored balance         *)
(* factors.  All arguments are logged, so the search is linear.            *)
(***************************************************************************)
EXTENDS AvlSet, Sequences, TLC, Json

Trace == ndJsonDeserialize("avl_trace.ndjson")

VARIABLE l          \* next event to consume

tvars == <<S, it, l>>
Ev == Trace[l]
Step(name) == l <= Len(Trace) /\ Ev.e = name /\ l' = l + 1

TIns   == Step("ins")   /\ Ev.res = InsertRet(Ev.t, Ev.k) /\ SetInsert(Ev.t, Ev.k)
TDel   == Step("del")   /\ Ev.res = DeleteRet(Ev.t, Ev.k) /\ SetDelete(Ev.t, Ev.k)
TFind  == Step("find")  /\ Ev.res = MemberRet(Ev.t, Ev.k) /\ UNCHANGED <<S, it>>
TClone == Step("clone") /\ SetClone(Ev.t, Ev.t2)
TIter  == Step("iter")  /\ SetIter(Ev.j, Ev.t)
TFrom  == Step("from")  /\ SetIterFrom(Ev.j, Ev.t, Ev.k)
TNext  == Step("next")  /\ SetNext(Ev.j)
TIClone == Step("iclone") /\ SetIterClone(Ev.j, Ev.j2)
TReset == Step("reset") /\ S' = [t \in Trees |-> {}]
                        /\ it' = [j \in Iters |-> [live |-> FALSE, tree |-> 1, cur |-> Done]]

TraceInit == SetInit /\ l = 1
TraceNext == TIns \/ TDel \/ TFind \/ TClone \/ TIter \/ TFrom \/ TNext \/ TIClone \/ TReset
TraceSpec == TraceInit /\ [][TraceNext]_tvars

(* ---- structural invariant evaluated on the LOGGED real shape *)
IsLeaf(t) == t.nil
RECURSIVE KeysOfShape(_)
KeysOfShape(t) == IF IsLeaf(t) THEN {} ELSE KeysOfShape(t.l) \cup {t.v} \cup KeysOfShape(t.r)
RECURSIVE CountOfShape(_)
CountOfShape(t) == IF IsLeaf(t) THEN 0 ELSE CountOfShape(t.l) + 1 + CountOfShape(t.r)
RECURSIVE HeightOfShape(_)
HeightOfShape(t) == IF IsLeaf(t) THEN 0 ELSE 1 + Max({HeightOfShape(t.l), HeightOfShape(t.r)})
RECURSIVE IsAvlShape(_)
IsAvlShape(t) ==
  IsLeaf(t) \/ ( /\ t.b = HeightOfShape(t.r) - HeightOfShape(t.l)
                 /\ t.b \in -1..1
                 /\ t.pok                       \* Parent points to the node above (nil at the root)
                 /\ ~t.del                      \* no tombstone is reachable
                 /\ \A a \in KeysOfShape(t.l) : a < t.v
                 /\ \A c \in KeysOfShape(t.r) : c > t.v
                 /\ IsAvlShape(t.l) /\ IsAvlShape(t.r) )

(* observations logged with the event that produced the current state *)
ObsOK ==
  l > 1 =>
    LET e  == Trace[l-1]
        tt == IF e.e = "clone" THEN e.t2 ELSE e.t
    IN /\ e.sh => /\ KeysOfShape(e.shape) = S[tt]
                  /\ CountOfShape(e.shape) = Cardinality(S[tt])
                  /\ IsAvlShape(e.shape)
       /\ e.e \in {"iter", "from", "next", "iclone"} =>
            LET oj == IF e.e = "iclone" THEN e.j2 ELSE e.j
                c  == it[oj].cur IN
            /\ e.ok = (c # Done)
            /\ (e.ok /\ c \in S[it[oj].tree]) => e.get = c

TraceAccepted ==
  IF TLCGet("stats").diameter - 1 = Len(Trace) THEN TRUE
  ELSE Print(<<"TRACE_REJECTED_AT", TLCGet("stats").diameter, "OF", Len(Trace)>>, FALSE)
=============================================================================
