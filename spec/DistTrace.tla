------------------------------ MODULE DistTrace ------------------------------
(***************************************************************************)
(* Trace validation (code -> model) of the cumulative distribution         *)
(* functions, C14.  The Go recorder (harness/cmd/dist record) walks an     *)
(* increasing grid of evaluation points for every family that offers       *)
(* Cdf/LogCdf and every valid parameter tuple of the Dist.tla grid and     *)
(* logs, per point, what the REAL library returned:                        *)
(*   cdf  - Cdf(x) in units of 1e-9 (an integer; -1 = outside [0,1])        *)
(*   nan  - a NaN, an error or a panic was observed                        *)
(*   dok  - the library's own derivative d/dx Cdf (Real64 x activated as   *)
(*          a variable) equals exp(LogPdf(x)); for discrete families the   *)
(*          increment of Cdf equals the mass                               *)
(*   lok  - exp(LogCdf(x)) = Cdf(x)                                         *)
(*   pos  - "lo": far below / left of the support, "hi": far above,        *)
(*          "in": anywhere in between (inside or outside the support)      *)
(* A cumulative distribution function is a behaviour of the machine below: *)
(* it starts near 0, never decreases, stays inside [0,1], ends near 1, and *)
(* every step carries the two consistency flags.  An event that no action  *)
(* explains stops the machine: the trace is rejected at that event.        *)
(***************************************************************************)
EXTENDS Integers, Sequences, TLC, Json

Trace == ndJsonDeserialize("dist_trace.ndjson")

Scale == 1000000000
Eps   == 1000            \* 1e-6 in units of 1e-9

VARIABLES l,        \* next event to consume
          open,     \* inside a begin .. end group
          last,     \* Cdf at the previous point of the group
          sawLo, sawHi

tvars == <<l, open, last, sawLo, sawHi>>
Ev == Trace[l]
Step(name) == l <= Len(Trace) /\ Ev.e = name /\ l' = l + 1

TBegin == /\ Step("begin") /\ ~open
          /\ open' = TRUE /\ last' = 0 /\ sawLo' = FALSE /\ sawHi' = FALSE

TPoint == /\ Step("pt") /\ open
          /\ ~Ev.nan
          /\ Ev.cdf \in 0..Scale
          /\ Ev.cdf >= last                      \* monotone non-decreasing
          /\ Ev.dok                              \* d/dx Cdf = pdf
          /\ Ev.lok                              \* LogCdf = log Cdf
          /\ (Ev.pos = "lo" => Ev.cdf <= Eps)    \* tends to 0 ...
          /\ (Ev.pos = "hi" => Ev.cdf >= Scale - Eps)   \* ... and to 1
          /\ (Ev.pos = "lo" => ~sawLo /\ ~sawHi) /\ (Ev.pos = "in" => sawLo /\ ~sawHi)
          /\ last' = Ev.cdf
          /\ sawLo' = (sawLo \/ Ev.pos = "lo")
          /\ sawHi' = (sawHi \/ Ev.pos = "hi")
          /\ UNCHANGED open

TEnd   == /\ Step("end") /\ open /\ sawLo /\ sawHi
          /\ open' = FALSE /\ UNCHANGED <<last, sawLo, sawHi>>

TraceInit == l = 1 /\ open = FALSE /\ last = 0 /\ sawLo = FALSE /\ sawHi = FALSE
TraceNext == TBegin \/ TPoint \/ TEnd
TraceSpec == TraceInit /\ [][TraceNext]_tvars

Range == last \in 0..Scale

TraceAccepted ==
  IF TLCGet("stats").diameter - 1 = Len(Trace) THEN TRUE
  ELSE Print(<<"TRACE_REJECTED_AT", TLCGet("stats").diameter, "OF", Len(Trace)>>, FALSE)
=============================================================================
