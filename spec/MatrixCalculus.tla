--------------------------- MODULE MatrixCalculus ---------------------------
(***************************************************************************)
(* Contract layer for C06: the exact derivatives of the linear-algebra     *)
(* routines with respect to activated matrix entries, over rationals.      *)
(* Every table is accompanied by its DEFINING equation, which TLC verifies *)
(* on every printed case (invariant CalculusOK):                           *)
(*   det     is affine in every single entry, hence                        *)
(*           d det/dA_v = det(A + E_v) - det(A)            (= cofactor)    *)
(*           d2 det/dA_v dA_w = mixed second difference    (v # w)         *)
(*   inverse A X = I differentiated:  A dX_v + E_v X = 0                   *)
(*           second order: A d2X_vw + E_v dX_w + E_w dX_v = 0              *)
(*   solve   A x = b differentiated:  A dx_v + E_v x = 0,  A dx/db_i = e_i *)
(*   product C = A B: dC/dA_v = E_v B, dC/dB_v = A E_v,                    *)
(*           d2C/dA_v dB_w = E_v E_w, all other second derivatives 0       *)
(*   log det d/dA_v ln det A = (d det/dA_v)/det = Inv[j_v][i_v]            *)
(*   Cholesky (A = L L', symmetric direction S_v = E_pq + E_qp or E_pp):   *)
(*           dL lower triangular with  S_v = dL L' + L dL'                 *)
(*   polynomial maps R^3 -> R^3: Jacobian and Hessian by term-wise         *)
(*           differentiation (for the Jacobian/Hessian helpers).           *)
(* The generator prints, per case, the activated entries and the tables.   *)
(***************************************************************************)
EXTENDS LinSolve

CONSTANTS ModD3,    \* one of ModD3 members of g/n=3
          ModD4,    \* one of ModD4 members of q4 and of spd/n=4
          ModP      \* one of ModP members of the polynomial family

(* All tables are ratios of integer "numerator" matrices over a power of the
   determinant (Inv = Adj/det); they are computed and verified over the integers
   and turned into normalised rationals only when printed. *)
IE(n, p, q) == TLCEval([i \in 1..n |-> TLCEval([j \in 1..n |-> IF i = p /\ j = q THEN 1 ELSE 0])])
IAdd(A, B) == TLCEval([i \in 1..Len(A) |-> TLCEval([j \in 1..Len(A[i]) |-> A[i][j] + B[i][j]])])
ISub(A, B) == TLCEval([i \in 1..Len(A) |-> TLCEval([j \in 1..Len(A[i]) |-> A[i][j] - B[i][j]])])
IZeroM(n) == TLCEval([i \in 1..n |-> TLCEval([j \in 1..n |-> 0])])
IZeroV(n) == TLCEval([i \in 1..n |-> 0])
IAddV(x, y) == TLCEval([i \in 1..Len(x) |-> x[i] + y[i]])
ITrace(A) == SumInts(TLCEval([i \in 1..Len(A) |-> A[i][i]]))
RatM(N, den) == TLCEval([i \in 1..Len(N) |-> TLCEval([j \in 1..Len(N[i]) |-> Rat(N[i][j], den)])])
RatV(x, den) == TLCEval([i \in 1..Len(x) |-> Rat(x[i], den)])

(* ------------------------------------------------------------ determinant *)
DDet(A, v) == Det(IAdd(A, IE(Len(A), v[1], v[2]))) - Det(A)
D2Det(A, v, w) ==
  IF v = w THEN 0
  ELSE LET n == Len(A)  Ev == IE(n, v[1], v[2])  Ew == IE(n, w[1], w[2])
       IN Det(IAdd(IAdd(A, Ev), Ew)) - Det(IAdd(A, Ev)) - Det(IAdd(A, Ew)) + Det(A)

(* ------------------------------------------------------------ inverse, solve *)
(* X = adj/det.  d X / d A_v = - X E_v X = NDInv / det^2 *)
NDInv(adj, v) == TLCEval([k \in 1..Len(adj) |-> TLCEval([l \in 1..Len(adj) |-> -(adj[k][v[1]] * adj[v[2]][l])])])
(* d2 X / dA_v dA_w = X E_v X E_w X + X E_w X E_v X = ND2Inv / det^3 *)
ND2Inv(adj, v, w) ==
  TLCEval([k \in 1..Len(adj) |-> TLCEval([l \in 1..Len(adj) |->
     adj[k][v[1]] * adj[v[2]][w[1]] * adj[w[2]][l] + adj[k][w[1]] * adj[w[2]][v[1]] * adj[v[2]][l]])])
(* x = xn/det (Cramer numerators).  dx/dA_v = - X E_v x = NDSolA / det^2 *)
NDSolA(adj, xn, v) == TLCEval([k \in 1..Len(adj) |-> -(adj[k][v[1]] * xn[v[2]])])

(* ------------------------------------------------------------ product *)
DProdA(B, v) == MulII(IE(Len(B), v[1], v[2]), B)
DProdB(A, v) == MulII(A, IE(Len(A), v[1], v[2]))
D2ProdAB(n, v, w) == MulII(IE(n, v[1], v[2]), IE(n, w[1], w[2]))

(* ------------------------------------------------------------ symmetric directions *)
SymDir(n, v) == TLCEval([i \in 1..n |-> TLCEval([j \in 1..n |->
                  IF (i = v[1] /\ j = v[2]) \/ (i = v[2] /\ j = v[1]) THEN 1 ELSE 0])])
(* d X = - X S X = NDInvSym / det^2 ;  d ln det = tr(X S) = NDLogDetSym / det *)
NDInvSym(adj, v) == ScaleM(-1, MulII(MulII(adj, SymDir(Len(adj), v)), adj))
NDLogDetSym(adj, v) == ITrace(MulII(adj, SymDir(Len(adj), v)))

(* Cholesky differential in closed form: dL = L Phi(L^-1 S L^-T), Phi = lower
   triangle with the diagonal halved.  With L^-1 = adj(L)/det(L):
   dL = NDChol / (2 det(L)^2).  The defining equation dL L' + L dL' = S is
   verified below (CalcHolds), the closed form is not taken on trust. *)
NDChol(L, v) ==
  LET n == Len(L)
      aL == Adj(L)
      M == MulII(MulII(aL, SymDir(n, v)), Transpose(aL))
      Phi2 == TLCEval([i \in 1..n |-> TLCEval([j \in 1..n |-> IF i > j THEN 2 * M[i][j] ELSE IF i = j THEN M[i][i] ELSE 0])])
  IN MulII(L, Phi2)
LowerPairs(n) == LET ps == {q \in (1..n) \X (1..n) : q[2] <= q[1]}
                 IN SortSeq(SetToSeq(ps), LAMBDA a, b : a[1] < b[1] \/ (a[1] = b[1] /\ a[2] < b[2]))

(* ------------------------------------------------------------ polynomials *)
(* a polynomial in NV = 3 variables is a sequence of terms [c, e] *)
NV == 3
RECURSIVE RPowI(_, _)
RPowI(a, k) == IF k = 0 THEN ROne ELSE RMul(a, RPowI(a, k - 1))
TermVal(t, x) == RMul(RInt(t.c), RProdSeq(TLCEval([i \in 1..NV |-> RPowI(x[i], t.e[i])])))
PolyVal(P, x) == RSumSeq(TLCEval([k \in 1..Len(P) |-> TermVal(P[k], x)]))
DTerm(t, i) == IF t.e[i] = 0 THEN [c |-> 0, e |-> t.e]
               ELSE [c |-> t.c * t.e[i], e |-> [t.e EXCEPT ![i] = @ - 1]]
DPoly(P, i) == TLCEval([k \in 1..Len(P) |-> DTerm(P[k], i)])

Coefs == <<-2, -1, 1, 2, 3>>
(* term number t (0-based) of polynomial idx: three exponents 0..2 and a coefficient *)
PolyTerm(idx, t) ==
  LET d == (idx \div Pow(7, t)) + 11 * t
  IN [c |-> Coefs[(d % 5) + 1], e |-> <<(d \div 5) % 3, (d \div 15) % 3, (d \div 45) % 3>>]
PolyOf(idx) == TLCEval([t \in 1..3 |-> PolyTerm(idx, t - 1)])
(* evaluation points: halves, away from nothing in particular (polynomials) *)
(* coordinate 0 is included on purpose: together with absent variables it gives
   partial derivatives that are EXACTLY zero (a helper that skips zero entries
   leaves stale values in a re-used result matrix) *)
Halves == <<-3, -2, -1, 0, 1, 2, 3, 5>>
PointOf(idx) == TLCEval([i \in 1..NV |-> Rat(Halves[((idx \div Pow(8, i - 1)) % 8) + 1], 2)])
PolyCount == 135 * 135
(* the map F = (P_idx, P_idx+1, P_idx+2) : R^3 -> R^3 *)
MapOf(idx) == TLCEval([k \in 1..3 |-> PolyOf(idx + 37 * (k - 1))])

(* ------------------------------------------------------------ cases *)
VarPos(n, idx) ==
  IF n <= 2 THEN TLCEval([t \in 1..(n * n) |-> <<((t - 1) \div n) + 1, ((t - 1) % n) + 1>>])
  ELSE LET step == IF n = 3 THEN 2 ELSE 3
       IN TLCEval([t \in 1..4 |-> LET pos == (idx + step * (t - 1)) % (n * n)
                          IN <<(pos \div n) + 1, (pos % n) + 1>>])
SymVarPos(n, idx) ==
  LET lp == LowerPairs(n)
  IN IF Len(lp) <= 4 THEN lp
     ELSE LET step == IF Len(lp) % 3 = 0 THEN 5 ELSE 3      \* coprime to Len(lp): four distinct pairs
          IN TLCEval([t \in 1..4 |-> lp[((idx + step * (t - 1)) % Len(lp)) + 1]])

(* second operand of the product: another member of the same family *)
Partner(c) ==
  CASE c.fam = "g" -> [c EXCEPT !.idx = (c.idx * 7 + 3) % GenCount(c.n)]
    [] c.fam = "q4" -> [c EXCEPT !.idx = (c.idx * 7 + 3) % P4Count]
    [] c.fam = "pd" -> [c EXCEPT !.idx = (c.idx * 7 + 3) % PdCount]
    [] OTHER -> c

DCasesOfBlock(b) ==
  CasesOfFam("g", 1, GenCount(1), 1, b) \cup CasesOfFam("g", 2, GenCount(2), 1, b)
  \cup CasesOfFam("g", 3, GenCount(3), ModD3, b)
  \cup CasesOfFam("pd", 3, PdCount, 1, b)
  \cup CasesOfFam("q4", 4, P4Count, ModD4, b)
  \cup CasesOfFam("spd", 1, SpdCount(1), 1, b) \cup CasesOfFam("spd", 2, SpdCount(2), 1, b)
  \cup CasesOfFam("spd", 3, SpdCount(3), 1, b) \cup CasesOfFam("spd", 4, SpdCount(4), ModD4, b)
  \cup CasesOfFam("poly", 3, PolyCount, ModP, b)

DMatRecord(c) ==
  LET A == MatOf(c)
      n == c.n
      det == Det(A)
      adj == Adj(A)
      vars == VarPos(n, c.idx)
      V == Len(vars)
      xn == CramerNum(A, Ramp(n))
      B == MatOf(Partner(c))
      o2 == n <= 2
  IN [k |-> "dmat", fam |-> c.fam, n |-> n, idx |-> c.idx, a |-> A, det |-> det, tri |-> IsUpperTri(A),
      vars |-> vars, kap |-> R2(KappaFrom(A, adj, det)), inv |-> RM2(InvFrom(adj, det)),
      sol |-> RV2(RatV(xn, det)),
      ddet |-> TLCEval([v \in 1..V |-> DDet(A, vars[v])]),
      d2det |-> TLCEval([v \in 1..V |-> TLCEval([w \in 1..V |-> D2Det(A, vars[v], vars[w])])]),
      dinv |-> TLCEval([v \in 1..V |-> RM2(RatM(NDInv(adj, vars[v]), det * det))]),
      d2inv |-> IF o2 THEN TLCEval([v \in 1..V |-> TLCEval([w \in 1..V |->
                              RM2(RatM(ND2Inv(adj, vars[v], vars[w]), det * det * det))])]) ELSE <<>>,
      dsola |-> TLCEval([v \in 1..V |-> RV2(RatV(NDSolA(adj, xn, vars[v]), det * det))]),
      b |-> B, c |-> MulII(A, B),
      dca |-> TLCEval([v \in 1..V |-> DProdA(B, vars[v])]),
      dcb |-> TLCEval([v \in 1..V |-> DProdB(A, vars[v])]),
      d2c |-> TLCEval([v \in 1..V |-> TLCEval([w \in 1..V |-> D2ProdAB(n, vars[v], vars[w])])])]

DSpdRecord(c) ==
  LET L == SpdL(c.n, c.idx)
      A == MatOf(c)
      n == c.n
      det == Det(A)
      adj == Adj(A)
      dl == Det(L)
      vars == SymVarPos(n, c.idx)
      V == Len(vars)
  IN [k |-> "dspd", fam |-> c.fam, n |-> n, idx |-> c.idx, a |-> A, L |-> L, det |-> det,
      vars |-> vars, kap |-> R2(KappaFrom(A, adj, det)), inv |-> RM2(InvFrom(adj, det)),
      dlogdet |-> TLCEval([v \in 1..V |-> R2(Rat(NDLogDetSym(adj, vars[v]), det))]),
      ddet |-> TLCEval([v \in 1..V |-> NDLogDetSym(adj, vars[v])]),
      dinv |-> TLCEval([v \in 1..V |-> RM2(RatM(NDInvSym(adj, vars[v]), det * det))]),
      dL |-> TLCEval([v \in 1..V |-> RM2(RatM(NDChol(L, vars[v]), 2 * dl * dl))])]

(* The helpers return the derivatives of f with respect to THEIR argument,
   whatever derivative state the evaluation point carries when it is handed
   in.  The contract therefore quantifies over the state of the point; the
   expected tables are the same for every state:
     fresh        no derivative information
     slice_o1/2   entries 2..4 of a vector of five that was activated as a whole
                  (order 1 / 2): N = 5, shifted variable indices
     computed_o1/2  computed from four other active variables (x_i = u_i u_4, u_4 = 1)
     sameN_o1     activated before with the same number of variables in the
                  reversed layout (order 1)
     sameN_o2     computed from three active variables of order 2 in the reversed
                  layout with non-zero second derivatives
                  (x_i = u_i + (u_j - value(u_j))^2): same N and order as the
                  helper's own activation *)
PointStates == <<"fresh", "slice_o1", "slice_o2", "computed_o1", "computed_o2", "sameN_o1", "sameN_o2">>

(* ... and over what the RESULT matrix held before the call: after the call it
   holds exactly the printed table, whatever it held before.
     fresh   newly allocated (zeros)
     junk    pre-filled with non-zero values
     reused  filled by a previous call of the same helper at another point (x2) *)
MatrixStates == <<"fresh", "junk", "reused">>
(* result matrices of the integer element types hold the derivatives truncated
   towards zero (the embedding of a real into an integer type) *)
Trunc(r) == IF r.n >= 0 THEN r.n \div r.d ELSE -((-r.n) \div r.d)
NZeros(T) == Cardinality({q \in (1..Len(T)) \X (1..Len(T[1])) : T[q[1]][q[2]].n = 0})

PolyRecord(c) ==
  LET F == MapOf(c.idx)
      x == PointOf(c.idx)
      J == TLCEval([k \in 1..3 |-> TLCEval([i \in 1..NV |-> PolyVal(DPoly(F[k], i), x)])])
      H == TLCEval([i \in 1..NV |-> TLCEval([j \in 1..NV |-> PolyVal(DPoly(DPoly(F[1], i), j), x)])])
  IN [k |-> "poly", fam |-> "poly", n |-> NV, idx |-> c.idx, f |-> F, x |-> RV2(x),
      x2 |-> RV2(PointOf((c.idx * 5 + 3) % PolyCount)),
      pstates |-> PointStates, mstates |-> MatrixStates,
      val |-> TLCEval([q \in 1..3 |-> R2(PolyVal(F[q], x))]),
      jac |-> RM2(J), hess |-> RM2(H),
      jaci |-> TLCEval([q \in 1..3 |-> TLCEval([i \in 1..NV |-> Trunc(J[q][i])])]),
      hessi |-> TLCEval([i \in 1..NV |-> TLCEval([j \in 1..NV |-> Trunc(H[i][j])])]),
      zj |-> NZeros(J), zh |-> NZeros(H)]

HasRecord(c) == c.fam = "poly" \/ Det(MatOf(c)) # 0
DRecord(c) == IF c.fam = "poly" THEN PolyRecord(c)
              ELSE IF c.fam = "spd" THEN DSpdRecord(c) ELSE DMatRecord(c)

(* the defining equations of the tables *)
CalcHolds(c) ==
  IF c.fam = "poly"
  THEN LET F == MapOf(c.idx)  P == F[1] IN
       (* mixed partials commute *)
       /\ \A i, j \in 1..NV :
            PolyVal(DPoly(DPoly(P, i), j), PointOf(c.idx)) = PolyVal(DPoly(DPoly(P, j), i), PointOf(c.idx))
       (* difference quotient of a polynomial of degree <= 2 per variable is exact:
          p(x+h e_i) - p(x-h e_i) = 2h dp/dx_i (x) for such polynomials *)
       /\ \A i \in 1..NV :
            LET x == PointOf(c.idx)
                xp == [x EXCEPT ![i] = RAdd(@, ROne)]
                xm == [x EXCEPT ![i] = RSub(@, ROne)]
            IN RSub(PolyVal(P, xp), PolyVal(P, xm)) = RMul(RInt(2), PolyVal(DPoly(P, i), x))
  ELSE
  LET A == MatOf(c)
      n == c.n
      det == Det(A)
      adj == Adj(A)
  IN det # 0 =>
     (* the matrix equations are checked for ONE activated entry (pair) per case,
        rotating with the case index so that every position is covered over the
        family; the printed tables hold all activated entries.  Every equation is
        the differentiated defining equation multiplied through by powers of det. *)
     IF c.fam = "spd"
     THEN LET L == SpdL(n, c.idx)
              dl == Det(L)
              sv == SymVarPos(n, c.idx)
              v == sv[(c.idx % Len(sv)) + 1]
              N == NDChol(L, v)
              S == SymDir(n, v)
          IN /\ Cardinality({sv[t] : t \in 1..Len(sv)}) = Len(sv)      \* activated pairs are distinct
             (* dL L' + L dL' = S  with dL = N / (2 dl^2) *)
             /\ IAdd(MulII(N, Transpose(L)), MulII(L, Transpose(N))) = ScaleM(2 * dl * dl, S)
             /\ IsLowerTri(N)
             (* A dX + S X = 0 *)
             /\ IAdd(MulII(A, NDInvSym(adj, v)), ScaleM(det, MulII(S, adj))) = IZeroM(n)
             (* d ln det = sum of the inverse's entries hit by the direction *)
             /\ NDLogDetSym(adj, v) = IF v[1] = v[2] THEN adj[v[1]][v[1]] ELSE adj[v[1]][v[2]] + adj[v[2]][v[1]]
             (* symmetric input: d det in a symmetric direction = sum of the two entry derivatives *)
             /\ NDLogDetSym(adj, v) = IF v[1] = v[2] THEN DDet(A, v) ELSE DDet(A, v) + DDet(A, <<v[2], v[1]>>)
     ELSE LET vars == VarPos(n, c.idx)
              xn == CramerNum(A, Ramp(n))
              v == vars[(c.idx % Len(vars)) + 1]
              w == vars[((c.idx \div 4) % Len(vars)) + 1]
              Ev == IE(n, v[1], v[2])
              Ew == IE(n, w[1], w[2])
          IN /\ Cardinality({vars[t] : t \in 1..Len(vars)}) = Len(vars)  \* activated entries are distinct
             /\ \A t \in 1..Len(vars) : DDet(A, vars[t]) = Cof(A, vars[t][1], vars[t][2])
             (* d ln det / dA_v = Inv[j][i] *)
             /\ \A t \in 1..Len(vars) : DDet(A, vars[t]) = adj[vars[t][2]][vars[t][1]]
             (* A dX_v + E_v X = 0 *)
             /\ IAdd(MulII(A, NDInv(adj, v)), ScaleM(det, MulII(Ev, adj))) = IZeroM(n)
             (* A dx_v + E_v x = 0 *)
             /\ IAddV(MulIV(A, NDSolA(adj, xn, v)), ScaleV(det, MulIV(Ev, xn))) = IZeroV(n)
             (* A d2X_vw + E_v dX_w + E_w dX_v = 0 *)
             /\ n <= 2 =>
                  IAdd(MulII(A, ND2Inv(adj, v, w)),
                       ScaleM(det, IAdd(MulII(Ev, NDInv(adj, w)), MulII(Ew, NDInv(adj, v))))) = IZeroM(n)
             (* product: first and mixed second differences of a bilinear map are exact *)
             /\ LET B == MatOf(Partner(c)) IN
                /\ ISub(MulII(IAdd(A, Ev), B), MulII(A, B)) = DProdA(B, v)
                /\ ISub(MulII(A, IAdd(B, Ew)), MulII(A, B)) = DProdB(A, w)
                /\ ISub(ISub(MulII(IAdd(A, Ev), IAdd(B, Ew)), MulII(IAdd(A, Ev), B)),
                        ISub(MulII(A, IAdd(B, Ew)), MulII(A, B))) = D2ProdAB(n, v, w)

DInit == blk = -1 /\ cs = Root
DNext == \/ /\ blk = -1
            /\ \E b \in 0..(NB - 1) : blk' = b /\ cs' = Block
         \/ /\ blk >= 0 /\ cs = Block
            /\ \E c \in {x \in DCasesOfBlock(blk) : HasRecord(x)} : cs' = c /\ blk' = blk
DSpec == DInit /\ [][DNext]_gvars

CalculusOK == IsCase(cs) => CalcHolds(cs)
DEmit == IsCase(cs) => PrintT(ToJson(DRecord(cs)))
=============================================================================
