------------------------------- MODULE AvlSet -------------------------------
(***************************************************************************)
(* CONTRACT layer for the ordered integer index (autodiff.AvlTree, C19).   *)
(*                                                                         *)
(* An index IS a finite set of integers.  Several indices may exist        *)
(* (Clone produces an independent one).  An iterator is bound to one index *)
(* and is positioned on a key or is Done.  Nothing here mentions nodes,    *)
(* rotations or balance factors: this module is written from the property  *)
(* text only and is what every implementation of the index must refine.    *)
(***************************************************************************)
EXTENDS Integers, FiniteSets, FiniteSetsExt

CONSTANTS NK, KOff,  \* key universe = NK consecutive integers starting at -KOff (negative keys are keys too)
          NT,        \* number of index ids (1 = no clones)
          NI         \* number of iterator ids

VARIABLES S,         \* S[t]  : the set held by index t
          it         \* it[j] : [live, tree, cur]   cur \in Keys \cup {Done}

Keys == (0 - KOff)..(NK - 1 - KOff)
Done == -999999            \* "finished"; outside every key universe used
Trees == 1..NT
Iters == 1..NI

MinOf(T) == IF T = {} THEN Done ELSE Min(T)

TypeOK == /\ S \in [Trees -> SUBSET Keys]
          /\ \A j \in Iters : /\ it[j].live \in BOOLEAN
                              /\ it[j].tree \in Trees
                              /\ it[j].cur \in Keys \cup {Done}

SetInit == /\ S = [t \in Trees |-> {}]
           /\ it = [j \in Iters |-> [live |-> FALSE, tree |-> 1, cur |-> Done]]

(* return values promised by the contract *)
InsertRet(t, k) == k \notin S[t]       \* "insert reports whether it changed the set"
DeleteRet(t, k) == k \in S[t]
MemberRet(t, k) == k \in S[t]

SetInsert(t, k) == /\ S' = [S EXCEPT ![t] = @ \cup {k}]
                   /\ UNCHANGED it
SetDelete(t, k) == /\ S' = [S EXCEPT ![t] = @ \ {k}]
                   /\ UNCHANGED it
(* Clone: t2 becomes an independent copy of t; iterators stay where they are *)
SetClone(t, t2) == /\ t # t2
                   /\ S' = [S EXCEPT ![t2] = S[t]]
                   /\ UNCHANGED it
(* Iterator(): positioned on the smallest element *)
SetIter(j, t) == /\ it' = [it EXCEPT ![j] = [live |-> TRUE, tree |-> t, cur |-> MinOf(S[t])]]
                 /\ UNCHANGED S
(* IteratorFrom(k): positioned on the smallest element >= k *)
SetIterFrom(j, t, k) ==
    /\ it' = [it EXCEPT ![j] = [live |-> TRUE, tree |-> t,
                               cur |-> MinOf({x \in S[t] : x >= k})]]
    /\ UNCHANGED S
(* Next(): the smallest element of the CURRENT set that is larger than the  *)
(* position, whatever was inserted or deleted since the iterator arrived;   *)
(* a finished iterator stays finished.                                      *)
SetNext(j) == /\ it[j].live
              /\ it' = [it EXCEPT ![j].cur =
                          IF it[j].cur = Done THEN Done
                          ELSE MinOf({x \in S[it[j].tree] : x > it[j].cur})]
              /\ UNCHANGED S

(* AvlIterator.Clone(): an independent cursor on the same index at the same  *)
(* position; advancing either one afterwards does not move the other.       *)
SetIterClone(j, j2) == /\ j # j2
                       /\ it[j].live
                       /\ it' = [it EXCEPT ![j2] = it[j]]
                       /\ UNCHANGED S

SetNextAction ==
    \/ \E t \in Trees, k \in Keys : SetInsert(t, k) \/ SetDelete(t, k)
    \/ \E t, t2 \in Trees : SetClone(t, t2)
    \/ \E j \in Iters, t \in Trees : SetIter(j, t)
    \/ \E j \in Iters, t \in Trees, k \in Keys : SetIterFrom(j, t, k)
    \/ \E j \in Iters : SetNext(j)
    \/ \E j, j2 \in Iters : SetIterClone(j, j2)

SetSpec == SetInit /\ [][SetNextAction]_<<S, it>>

(***************************************************************************)
(* Properties of the contract itself (checked by TLC on AvlSet.cfg): a     *)
(* Next step moves strictly forward, lands on an element of the current    *)
(* set, and skips no element that is in the set at the moment it moves;    *)
(* consequently a full iteration of an unchanged set enumerates it in      *)
(* ascending order, each element once.                                     *)
(***************************************************************************)
NoSkip == [][\A j \in Iters :
               (SetNext(j) /\ it[j].cur # Done /\ it'[j].cur # Done)
               => /\ it'[j].cur > it[j].cur
                  /\ it'[j].cur \in S[it[j].tree]
                  /\ ~\E x \in S[it[j].tree] : it[j].cur < x /\ x < it'[j].cur]_<<S, it>>
PositionedInUniverse == \A j \in Iters : it[j].cur \in Keys \cup {Done}
=============================================================================
