-------------------------- MODULE OptimizerSkeleton --------------------------
(***************************************************************************)
(* C07 - the CONTRACT of an iterative optimisation / root-finding routine  *)
(* (BFGS, Newton root / critical point / minimum, Rprop, gradient descent, *)
(* Adam, SAGA, line search, Blahut-Arimoto), written from the property     *)
(* statement and the doc comments, not from the code.                      *)
(*                                                                         *)
(* A routine is seen ONLY through what its caller can see: the callbacks   *)
(* the caller supplies (objective, Hook, Constraints) and the returned     *)
(* point / error.  Points, function values and derivative objects are      *)
(* opaque IDENTITIES (two objects have the same identity iff their float64 *)
(* contents are bit-identical); the specification never computes with      *)
(* them.  Number and order of evaluations, step sizes, iteration counts    *)
(* are deliberately unconstrained (DESIGN 3.6).                            *)
(*                                                                         *)
(*   Begin(c)                 a routine is called with configuration c     *)
(*   Constraint(p, res)       the user constraint callback was asked at p  *)
(*   Eval(p, y, g)            the user objective was evaluated at p and    *)
(*                            returned value y and derivative object g     *)
(*   Hook(p, g, y, stop, ok)  the user hook was called; it answered stop   *)
(*   Return(p, err, r)        the routine returned p; r = what the caller  *)
(*                            finds when it re-examines p:                 *)
(*       r.stopOK   the routine's documented stopping condition holds at p *)
(*                  when the ORIGINAL objective is re-evaluated there      *)
(*       r.consOK   the original constraint holds at p                     *)
(*       r.nearMin  p is within tolerance of the exactly known minimiser   *)
(*                  (resp. optimum of the fixed-step routine)              *)
(*       r.startOK  the caller's start vector is bitwise unmodified        *)
(*                                                                         *)
(* Contract:                                                               *)
(*  (H) the values passed to a hook are the function value and derivative  *)
(*      the objective returned at its LATEST evaluation at the point passed*)
(*      with them (hookKind "gy"; "g": derivative only, the interface has  *)
(*      no function value; "args": the routine has no user objective, the  *)
(*      harness re-computes the documented hook arguments: ok).            *)
(*  (S) after a hook answered stop nothing but the return may follow.      *)
(*  (R) a return without error leaves the start vector unmodified, returns *)
(*      a point that satisfies the user constraints, and is JUSTIFIED by   *)
(*        - a hook-requested stop, or                                      *)
(*        - the iteration cap: every iteration evaluates the objective     *)
(*          (resp. calls the per-iteration hook) at least once, so with    *)
(*          fewer than maxit such events the cap cannot be the reason;     *)
(*          with at least maxit it MAY be (accepted: sound), or            *)
(*        - the stopping condition holding at the returned point - and     *)
(*          then, on a strongly convex objective with known minimiser,     *)
(*          the point is near that minimiser.                              *)
(*      Routines with a fixed number of steps (no stopping condition) must *)
(*      be near their optimum (rate bound) when they end at the cap.       *)
(*  (E) a return with an error (or a panic) promises nothing.              *)
(*  (T) nothing happens after the return; a run that never returns is not  *)
(*      a behaviour (trace event "timeout" has no action).                 *)
(***************************************************************************)
EXTENDS Integers, Sequences, FiniteSets, TLC

VARIABLES st,           \* "idle" | "running" | "returned"
          cfg,          \* configuration of the running call
          evalOf,       \* point id -> latest evaluation [y, g] (a sequence indexed by the point id, padded with NoEval)
          consAt,       \* point id -> latest constraint answer (sequence; 0 never asked, 1 satisfied, 2 violated)
          nEvals, nHooks,
          hookStopped,
          ret           \* the return record (meaningful when st = "returned")

svars == <<st, cfg, evalOf, consAt, nEvals, nHooks, hookStopped, ret>>

None == 0                \* identity "absent"
NoEval == [y |-> -1, g |-> -1]      \* the point was never evaluated
(* sequences as maps from positive ids (TLC copies them at Java speed; sets of records were 3x slower) *)
Get(f, p, dflt) == IF p >= 1 /\ p <= Len(f) THEN f[p] ELSE dflt
Put(f, p, v, dflt) == IF p <= Len(f) THEN [f EXCEPT ![p] = v]
                      ELSE f \o [i \in 1..(p - Len(f)) |-> IF i = p - Len(f) THEN v ELSE dflt]
NoCfg == [algo |-> "none", maxit |-> -1, hasHook |-> FALSE, hasCons |-> FALSE, sc |-> FALSE,
          hookKind |-> "gy", iterBy |-> "eval", fixed |-> FALSE]
NoRet == [p |-> None, err |-> TRUE, stopOK |-> FALSE, consOK |-> FALSE, nearMin |-> FALSE, startOK |-> FALSE]

SkInit == /\ st = "idle" /\ cfg = NoCfg /\ evalOf = <<>> /\ consAt = <<>> /\ nEvals = 0 /\ nHooks = 0
          /\ hookStopped = FALSE /\ ret = NoRet

(* ----------------------------- guards --------------------------------- *)
BeginG == st \in {"idle", "returned"}
Live   == st = "running" /\ ~hookStopped                                   \* (S), (T)
ConstraintG == Live /\ cfg.hasCons
EvalG  == Live
HookFaithful(p, g, y, ok) ==                                               \* (H)
  CASE cfg.hookKind = "gy"   -> Get(evalOf, p, NoEval) = [y |-> y, g |-> g]
    [] cfg.hookKind = "g"    -> y = None /\ g # -1 /\ Get(evalOf, p, NoEval).g = g
    [] cfg.hookKind = "args" -> ok
    [] OTHER -> FALSE
HookG(p, g, y, ok) == Live /\ cfg.hasHook /\ HookFaithful(p, g, y, ok)

Iterations == IF cfg.iterBy = "hook" THEN nHooks ELSE nEvals
CapPossiblyReached == cfg.maxit >= 0 /\ Iterations >= cfg.maxit
Justified(r) ==
  \/ hookStopped
  \/ CapPossiblyReached /\ (cfg.fixed => r.nearMin)
  \/ ~cfg.fixed /\ r.stopOK /\ (cfg.sc => r.nearMin)
(* feasible: the caller's re-evaluation accepts p and the callback's latest answer at p was not "violated" *)
Feasible(r) == cfg.hasCons => (r.consOK /\ Get(consAt, r.p, 0) # 2)
ReturnClauses(r) == [running |-> st = "running", start |-> r.startOK, cons |-> Feasible(r), justified |-> Justified(r)]
ReturnG(r) == st = "running" /\ (r.err \/ (r.startOK /\ Feasible(r) /\ Justified(r)))   \* (R), (E)

(* ----------------------------- effects -------------------------------- *)
BeginE(c) == /\ st' = "running" /\ cfg' = c /\ evalOf' = <<>> /\ consAt' = <<>> /\ nEvals' = 0 /\ nHooks' = 0
             /\ hookStopped' = FALSE /\ ret' = NoRet
ConstraintE(p, res) == /\ consAt' = Put(consAt, p, IF res THEN 1 ELSE 2, 0)
                       /\ UNCHANGED <<st, cfg, evalOf, nEvals, nHooks, hookStopped, ret>>
EvalE(p, y, g) == /\ evalOf' = Put(evalOf, p, [y |-> y, g |-> g], NoEval)
                  /\ nEvals' = nEvals + 1
                  /\ UNCHANGED <<st, cfg, consAt, nHooks, hookStopped, ret>>
HookE(stop) == /\ nHooks' = nHooks + 1 /\ hookStopped' = stop
               /\ UNCHANGED <<st, cfg, evalOf, consAt, nEvals, ret>>
ReturnE(r) == /\ st' = "returned" /\ ret' = r /\ evalOf' = <<>> /\ consAt' = <<>>
              /\ UNCHANGED <<cfg, nEvals, nHooks, hookStopped>>

(* ----------------------------- actions -------------------------------- *)
Begin(c)              == BeginG /\ BeginE(c)
Constraint(p, res)    == ConstraintG /\ ConstraintE(p, res)
Eval(p, y, g)         == EvalG /\ EvalE(p, y, g)
Hook(p, g, y, stop, ok) == HookG(p, g, y, ok) /\ HookE(stop)
Return(r)             == ReturnG(r) /\ ReturnE(r)

=============================================================================
