--------------------------- MODULE SparseMatrixView ---------------------------
(***************************************************************************)
(* Views of a sparse MATRIX on top of the sparse-vector contract (C11).    *)
(*                                                                         *)
(* A sparse matrix stores element (r, q) of a rows x cols matrix at        *)
(* position r * cols + q of ONE sparse vector.  A view is a WORD of steps  *)
(* applied to the whole matrix, each step <<0, r0, r1, c0, c1>> =          *)
(* Slice(r0, r1, c0, c1) (empty ranges allowed) or <<1, 0, 0, 0, 0>> = T().*)
(*                                                                         *)
(* CONTRACT (from the property text of views: Slice(r0,r1,c0,c1).At(i,j)   *)
(* is At(r0+i, c0+j), T().At(i,j) is At(j,i)): a view is an index MAP from *)
(* view coordinates to positions of the dense model, obtained by composing *)
(* the steps (DenView).  Reading through the view reads the model there,   *)
(* writing through a view made of slices writes the model there, and an    *)
(* iteration of the view visits exactly its non-zero elements in row-major *)
(* order of the VIEW's coordinates, once each; an empty view (zero rows or *)
(* zero columns) yields nothing.                                           *)
(*                                                                         *)
(* MECHANISM (matrix_sparse_template.in): Slice copies the header and      *)
(* ADDS the offsets (HSlice); T() builds a NEW storage vector in which the *)
(* entry of key k1 is re-keyed to (k1 % colMax) * rowMax + k1 \div colMax, *)
(* its index is built from the map's keys, and the header swaps rows/cols, *)
(* offsets and maxima (HT).  The iterator of a view is the vector iterator *)
(* started at the storage key of the view's first cell (ITERATOR) or of    *)
(* cell (fi, fj) (ITERATOR_FROM), every step is a vector-iterator step     *)
(* with skip(), keys outside the view's columns are passed over (clip),    *)
(* the loop ends at the first key below the view's last row.               *)
(* SparseVector.tla runs both and compares (ViewWalk, ViewWrite).          *)
(***************************************************************************)
EXTENDS SparseVecContract

SliceStep(r0, r1, c0, c1) == <<0, r0, r1, c0, c1>>
TStep == <<1, 0, 0, 0, 0>>
IsT(s) == s[1] = 1

(* ------------------------------------------------------------ contract *)
(* view = [vr, vc, map]: map[<<i, j>>] = position in the dense model *)
WholeView(rows, cols) ==
  [vr |-> rows, vc |-> cols, map |-> TLCEval([ij \in (0..(rows-1)) \X (0..(cols-1)) |-> ij[1] * cols + ij[2]])]
StepView(v, s) ==
  IF IsT(s)
  THEN [vr |-> v.vc, vc |-> v.vr,
        map |-> TLCEval([ij \in (0..(v.vc-1)) \X (0..(v.vr-1)) |-> v.map[<<ij[2], ij[1]>>]])]
  ELSE [vr |-> s[3] - s[2], vc |-> s[5] - s[4],
        map |-> TLCEval([ij \in (0..(s[3]-s[2]-1)) \X (0..(s[5]-s[4]-1)) |-> v.map[<<s[2] + ij[1], s[4] + ij[2]>>]])]
RECURSIVE DenFrom(_, _, _)
DenFrom(v, word, t) == IF t > Len(word) THEN v ELSE DenFrom(StepView(v, word[t]), word, t + 1)
DenView(word, rows, cols) == DenFrom(WholeView(rows, cols), word, 1)

(* all elements of the view, row-major: what At(i, j) reads *)
CViewSeq(c, v) ==
  LET m == v.vr * v.vc IN
  IF m <= 0 THEN <<>> ELSE TLCEval([t \in 1..m |-> c[v.map[<<(t - 1) \div v.vc, (t - 1) % v.vc>>]]])
(* iteration of the view from (fi, fj) on (fi = -1: from the start): <<i, j, value>> of the non-zero elements *)
CViewIter(c, v, fi, fj) ==
  LET m  == v.vr * v.vc
      t0 == IF fi < 0 THEN 1 ELSE fi * v.vc + fj + 1
      T  == IF m <= 0 THEN {} ELSE {t \in t0..m : c[v.map[<<(t - 1) \div v.vc, (t - 1) % v.vc>>]] # 0}
      a  == Asc(T)
  IN IF a = <<>> THEN <<>>
     ELSE [u \in 1..Len(a) |-> <<(a[u] - 1) \div v.vc, (a[u] - 1) % v.vc,
                                 c[v.map[<<(a[u] - 1) \div v.vc, (a[u] - 1) % v.vc>>]]>>]

(* WHOLE-VIEW operations with the view as receiver; b = the elements of a second matrix of the same size (the   *)
(* operand is the SAME view of that matrix), x a scalar.  Every element of the view gets its new value, every   *)
(* element of the matrix OUTSIDE the view keeps its value (frame condition).                                    *)
BulkOps == {"w_reset", "w_identity", "w_set", "w_mdotm", "w_muls", "w_addm", "w_map"}
BulkOperandOps == {"w_set", "w_mdotm", "w_addm"}
BulkElem(name, i, j, a, bb, x) ==
  CASE name = "w_reset"    -> 0
    [] name = "w_identity" -> IF i = j THEN 1 ELSE 0
    [] name = "w_set"      -> bb
    [] name = "w_mdotm"    -> bb              \* view.MdotM(identity, the operand's view)
    [] name = "w_muls"     -> a * x
    [] name = "w_addm"     -> a + bb
    [] name = "w_map"      -> 0 - a           \* Map with a zero-preserving function (negation)
CViewBulk(c, v, name, b, x) ==
  LET cells == (0..(v.vr-1)) \X (0..(v.vc-1))
      at(k) == CHOOSE ij \in cells : v.map[ij] = k
      inview == {v.map[ij] : ij \in cells}
  IN TLCEval([k \in DOMAIN c |-> IF k \in inview THEN BulkElem(name, at(k)[1], at(k)[2], c[k], b[k], x) ELSE c[k]])

(* the words explored: up to `depth` steps, at most `nt` transpositions, every slice within the current   *)
(* dimensions (empty ranges included); an empty view is not sliced further                                  *)
Ranges(m) == {ab \in (0..m) \X (0..m) : ab[1] <= ab[2] /\ ~(ab[1] = 0 /\ ab[2] = m /\ m > 0)} \cup {<<0, m>>}
RECURSIVE Words(_, _, _, _)
Words(depth, nt, vr, vc) ==
  {<<>>} \cup
  (IF depth = 0 \/ vr = 0 \/ vc = 0 THEN {}
   ELSE UNION { {<<SliceStep(q[1][1], q[1][2], q[2][1], q[2][2])>> \o w :
                     w \in Words(depth - 1, nt, q[1][2] - q[1][1], q[2][2] - q[2][1])} :
                  q \in {x \in Ranges(vr) \X Ranges(vc) : ~(x[1] = <<0, vr>> /\ x[2] = <<0, vc>>)} }
        \cup (IF nt = 0 THEN {} ELSE {<<TStep>> \o w : w \in Words(depth - 1, nt - 1, vc, vr)}))
ValidWord(word, rows, cols) ==
  LET RECURSIVE Ok(_, _, _)
      Ok(t, vr, vc) == IF t > Len(word) THEN TRUE
                       ELSE IF IsT(word[t]) THEN Ok(t + 1, vc, vr)
                       ELSE /\ 0 <= word[t][2] /\ word[t][2] <= word[t][3] /\ word[t][3] <= vr
                            /\ 0 <= word[t][4] /\ word[t][4] <= word[t][5] /\ word[t][5] <= vc
                            /\ Ok(t + 1, word[t][3] - word[t][2], word[t][5] - word[t][4])
  IN Ok(1, rows, cols)
HasT(word) == \E t \in 1..Len(word) : IsT(word[t])
(* flat list of integers for the printed case *)
RECURSIVE FlatWord(_)
FlatWord(word) == IF word = <<>> THEN <<>> ELSE Head(word) \o FlatWord(Tail(word))
RECURSIVE UnflatWord(_)
UnflatWord(f) == IF Len(f) < 5 THEN <<>> ELSE <<SubSeq(f, 1, 5)>> \o UnflatWord(SubSeq(f, 6, Len(f)))

(* ----------------------------------------------------------- mechanism *)
(* header of a sparse matrix: window [ro, ro+rows) x [co, co+cols) of a storage with rmax x cmax cells *)
WholeHdr(rows, cols) == [rows |-> rows, cols |-> cols, ro |-> 0, co |-> 0, rmax |-> rows, cmax |-> cols]
HSlice(h, s) == [h EXCEPT !.ro = h.ro + s[2], !.rows = s[3] - s[2], !.co = h.co + s[4], !.cols = s[5] - s[4]]
HT(h) == [rows |-> h.cols, cols |-> h.rows, ro |-> h.co, co |-> h.ro, rmax |-> h.cmax, cmax |-> h.rmax]
HIndex(h, i, j) == (h.ro + i) * h.cmax + (h.co + j)
(* storage after T(): every entry of the value map re-keyed, index = keys of the new map *)
TKeys(vs, h) == TLCEval([k2 \in {(k1 % h.cmax) * h.rmax + (k1 \div h.cmax) : k1 \in DOMAIN vs}
                          |-> vs[(k2 % h.rmax) * h.cmax + (k2 \div h.rmax)]])
=============================================================================
