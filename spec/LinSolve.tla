------------------------------ MODULE LinSolve ------------------------------
(***************************************************************************)
(* Contract layer for C04 (and the value part of C06): what a determinant, *)
(* an inverse and the solution of a linear system ARE, over exact          *)
(* rationals (Rat.tla), written from the textbook definitions and not from *)
(* the library's algorithms:                                               *)
(*   Det   Leibniz sum over all permutations (DetLaplace, the expansion    *)
(*         along the LAST column, is a second definition; TLC checks that  *)
(*         both agree on every enumerated matrix),                         *)
(*   Adj   transposed cofactor matrix,  Inv = Adj / Det,                   *)
(*   Solve Cramer's rule,                                                  *)
(*   Kappa the exact condition proxy ||A||_1 ||adj A||_1 / |det A|,        *)
(*   SingClass  structural singularity (zero row, zero column, two equal   *)
(*         rows) as named by the property.                                 *)
(* TLC verifies the defining equations on every case it prints             *)
(* (A Inv = I, A Solve(A,b) = b, Det = DetLaplace) - invariant ContractOK. *)
(*                                                                         *)
(* The module is also the case generator of the conformance check: TLC     *)
(* enumerates the matrix families below and prints every case together     *)
(* with the results the contract demands (PrintT(ToJson(..))); the Go      *)
(* driver harness/cmd/linalg runs the real routines on the same input.     *)
(*                                                                         *)
(* Families (fam, n, idx):                                                 *)
(*   g    all n x n matrices, entries -2..2 (n <= 2), {-1,0,1,2} (n = 3)   *)
(*   pd   3x3 permutation matrix x {1,2}-diagonal                          *)
(*   p4   4x4 permutation matrix x {1,2,-1}-diagonal (every pivot order)   *)
(*   q4   4 * (p4 member) + one fixed dense perturbation                   *)
(*   tr   upper triangular, n = 3 entries {-1,0,1,2}; n = 4 diagonal       *)
(*        {1,2,-1} (unit and non-unit), strict upper part {-1,0,1}         *)
(*   spd  A = L L' for integer lower triangular L with positive diagonal   *)
(*   gr   GRADED matrices A = B0 + E: B0 a small integer matrix, E tiny     *)
(*        entries m * 2^e (e <= -40) in one column, printed symbolically    *)
(*        (mantissa, exponent); see the section "graded family"             *)
(*   sym  symmetric (mostly INDEFINITE) matrices: the tr members mirrored  *)
(*        into the lower triangle (inputs of the Cholesky option variants) *)
(***************************************************************************)
EXTENDS Rat, FiniteSets, SequencesExt, Json

CONSTANTS Seed,      \* VERIF_SEED: selects the slices
          Full,      \* TRUE: enumerate the families completely (thorough)
          Mod3,      \* quick: one of Mod3 members of g/n=3 (seeded)
          Mod4,      \* slices of the n = 4 triangular and SPD families
          NB         \* number of blocks (parallelism of the enumeration only)

VARIABLES blk, cs
gvars == <<blk, cs>>

(* ------------------------------------------------------------ integers *)
Sgn(k) == IF k % 2 = 0 THEN 1 ELSE -1
Abs(x) == IF x < 0 THEN -x ELSE x
RECURSIVE SumTo(_, _)
SumTo(s, k) == IF k = 0 THEN 0 ELSE s[k] + SumTo(s, k - 1)
SumInts(s) == SumTo(s, Len(s))
RECURSIVE ProdTo(_, _)
ProdTo(s, k) == IF k = 0 THEN 1 ELSE s[k] * ProdTo(s, k - 1)
ProdInts(s) == ProdTo(s, Len(s))
RECURSIVE MaxTo(_, _)
MaxTo(s, k) == IF k = 1 THEN s[1] ELSE LET m == MaxTo(s, k - 1) IN IF s[k] > m THEN s[k] ELSE m
MaxInts(s) == MaxTo(s, Len(s))
RECURSIVE Pow(_, _)
Pow(b, e) == IF e = 0 THEN 1 ELSE b * Pow(b, e - 1)
Digit(idx, base, pos) == (idx \div Pow(base, pos)) % base      \* pos = 0,1,..

(* ------------------------------------------------------------ matrices *)
(* a matrix is a sequence of rows; entries are integers *)
Dim(A) == Len(A)
DelAt(s, k) == SubSeq(s, 1, k - 1) \o SubSeq(s, k + 1, Len(s))
Minor(A, i, j) == LET B == DelAt(A, i) IN TLCEval([r \in 1..Len(B) |-> DelAt(B[r], j)])
Transpose(A) == TLCEval([i \in 1..Len(A) |-> TLCEval([j \in 1..Len(A) |-> A[j][i]])])
IdentityM(n) == TLCEval([i \in 1..n |-> TLCEval([j \in 1..n |-> IF i = j THEN 1 ELSE 0])])
MulII(A, B) == TLCEval([i \in 1..Len(A) |-> TLCEval([j \in 1..Len(B[1]) |->
                  SumInts(TLCEval([k \in 1..Len(B) |-> A[i][k] * B[k][j]]))])])

(* permutations of 1..n with their signs (constant definitions, evaluated once) *)
Inversions(f, n) == Cardinality({q \in (1..n) \X (1..n) : q[1] < q[2] /\ f[q[1]] > f[q[2]]})
SignedPerms(n) == LET ps == SetToSeq(Permutations(1..n))
                  IN TLCEval([k \in 1..Len(ps) |-> [f |-> ps[k], s |-> Sgn(Inversions(ps[k], n))]])
SP1 == SignedPerms(1)
SP2 == SignedPerms(2)
SP3 == SignedPerms(3)
SP4 == SignedPerms(4)
SPn(n) == CASE n = 1 -> SP1 [] n = 2 -> SP2 [] n = 3 -> SP3 [] n = 4 -> SP4 [] OTHER -> SignedPerms(n)

(* determinant: Leibniz *)
Det(A) ==
  IF Len(A) = 0 THEN 1
  ELSE LET n == Len(A)  sp == SPn(n)
       IN SumInts(TLCEval([k \in 1..Len(sp) |-> sp[k].s * ProdInts(TLCEval([i \in 1..n |-> A[i][sp[k].f[i]]]))]))

(* determinant: Laplace expansion along the last column (second definition) *)
RECURSIVE DetLaplace(_)
DetLaplace(A) ==
  IF Len(A) = 0 THEN 1
  ELSE IF Len(A) = 1 THEN A[1][1]
  ELSE LET n == Len(A)
       IN SumInts(TLCEval([i \in 1..n |-> IF A[i][n] = 0 THEN 0
                                   ELSE Sgn(i + n) * A[i][n] * DetLaplace(Minor(A, i, n))]))

Cof(A, i, j) == Sgn(i + j) * Det(Minor(A, i, j))
Adj(A) == TLCEval([i \in 1..Len(A) |-> TLCEval([j \in 1..Len(A) |-> Cof(A, j, i)])])
(* Inv with the adjugate and the determinant already at hand *)
InvFrom(adj, det) == TLCEval([i \in 1..Len(adj) |-> TLCEval([j \in 1..Len(adj) |-> Rat(adj[i][j], det)])])
Inv(A) == InvFrom(Adj(A), Det(A))
ReplaceCol(A, k, b) == TLCEval([i \in 1..Len(A) |-> TLCEval([j \in 1..Len(A) |-> IF j = k THEN b[i] ELSE A[i][j]])])
(* Cramer *)
SolveFrom(A, b, det) == TLCEval([k \in 1..Len(A) |-> Rat(Det(ReplaceCol(A, k, b)), det)])
Solve(A, b) == SolveFrom(A, b, Det(A))

Norm1(A) == MaxInts(TLCEval([j \in 1..Len(A) |-> SumInts(TLCEval([i \in 1..Len(A) |-> Abs(A[i][j])]))]))
KappaFrom(A, adj, det) == Rat(Norm1(A) * Norm1(adj), Abs(det))
Kappa(A) == KappaFrom(A, Adj(A), Det(A))

(* rational matrix helpers, used to state the defining equations *)
RMatVec(A, x) == TLCEval([i \in 1..Len(A) |-> RSumSeq(TLCEval([j \in 1..Len(A) |-> RMul(RInt(A[i][j]), x[j])]))])
RMatMat(A, X) == TLCEval([i \in 1..Len(A) |-> TLCEval([j \in 1..Len(A) |->
                    RSumSeq(TLCEval([k \in 1..Len(A) |-> RMul(RInt(A[i][k]), X[k][j])]))])])
RIdent(n) == TLCEval([i \in 1..n |-> TLCEval([j \in 1..n |-> IF i = j THEN ROne ELSE RZero])])
RVecOfInts(b) == TLCEval([i \in 1..Len(b) |-> RInt(b[i])])

(* structural classes *)
HasZeroRow(A) == \E i \in 1..Len(A) : \A j \in 1..Len(A) : A[i][j] = 0
HasZeroCol(A) == \E j \in 1..Len(A) : \A i \in 1..Len(A) : A[i][j] = 0
HasEqualRows(A) == \E i, k \in 1..Len(A) : i < k /\ A[i] = A[k]
IsStructurallySingular(A) == HasZeroRow(A) \/ HasZeroCol(A) \/ HasEqualRows(A)
SingClass(A, det) ==
  IF det # 0 THEN "none"
  ELSE IF HasZeroRow(A) THEN "zero_row"
  ELSE IF HasZeroCol(A) THEN "zero_col"
  ELSE IF HasEqualRows(A) THEN "equal_rows"
  ELSE "other"
IsUpperTri(A) == \A i, j \in 1..Len(A) : i > j => A[i][j] = 0
IsLowerTri(A) == \A i, j \in 1..Len(A) : i < j => A[i][j] = 0
IsSymmetric(A) == \A i, j \in 1..Len(A) : A[i][j] = A[j][i]

(* principal sub-matrix selected by a boolean mask *)
SelIdx(mask) == SelectSeq(TLCEval([i \in 1..Len(mask) |-> i]), LAMBDA i : mask[i])
SubM(A, mask) == LET S == SelIdx(mask) IN TLCEval([r \in 1..Len(S) |-> TLCEval([c \in 1..Len(S) |-> A[S[r]][S[c]]])])
SubV(b, mask) == LET S == SelIdx(mask) IN TLCEval([r \in 1..Len(S) |-> b[S[r]]])
MaskOf(n, code) == TLCEval([i \in 1..n |-> (code \div Pow(2, i - 1)) % 2 = 1])
IsPrefixMask(mask) == \A i, j \in 1..Len(mask) : (i < j /\ mask[j]) => mask[i]

Ones(n) == TLCEval([i \in 1..n |-> 1])
Ramp(n) == TLCEval([i \in 1..n |-> i])
Unit(n, k) == TLCEval([i \in 1..n |-> IF i = k THEN 1 ELSE 0])

(* ------------------------------------------------------------ families *)
Vals5 == <<-2, -1, 0, 1, 2>>
Vals4 == <<-1, 0, 1, 2>>
Vals3 == <<-1, 0, 1>>
Diag3 == <<1, 2, -1>>
PermK(n, k) == SPn(n)[k].f
NPerm(n) == Len(SPn(n))
(* P[i][j] = 1 iff j = f[i]; times diagonal d on the right: column j scaled by d[j] *)
PermDiag(n, f, d) == TLCEval([i \in 1..n |-> TLCEval([j \in 1..n |-> IF f[i] = j THEN d[j] ELSE 0])])
Dense4 == << <<0, 1, -1, 1>>, <<1, 0, 1, -1>>, <<-1, 1, 0, 1>>, <<1, -1, 1, 0>> >>

GenMat(n, idx) ==
  IF n <= 2 THEN TLCEval([i \in 1..n |-> TLCEval([j \in 1..n |-> Vals5[Digit(idx, 5, (i - 1) * n + (j - 1)) + 1]])])
  ELSE TLCEval([i \in 1..n |-> TLCEval([j \in 1..n |-> Vals4[Digit(idx, 4, (i - 1) * n + (j - 1)) + 1]])])
GenCount(n) == IF n <= 2 THEN Pow(5, n * n) ELSE Pow(4, n * n)

PdMat(idx) == LET f == PermK(3, (idx % 6) + 1)
                  d == TLCEval([j \in 1..3 |-> Digit(idx \div 6, 2, j - 1) + 1])
              IN PermDiag(3, f, d)
PdCount == 6 * 8
P4Mat(idx) == LET f == PermK(4, (idx % 24) + 1)
                  d == TLCEval([j \in 1..4 |-> Diag3[Digit(idx \div 24, 3, j - 1) + 1]])
              IN PermDiag(4, f, d)
P4Count == 24 * 81
Q4Mat(idx) == LET P == P4Mat(idx) IN TLCEval([i \in 1..4 |-> TLCEval([j \in 1..4 |-> 4 * P[i][j] + Dense4[i][j]])])

(* position of (i,j), i < j, among the strict upper entries, row major, 0-based *)
UpPos(n, i, j) == SumInts(TLCEval([r \in 1..(i - 1) |-> n - r])) + (j - i - 1)
TrMat(n, idx) ==
  IF n = 3
  THEN TLCEval([i \in 1..3 |-> TLCEval([j \in 1..3 |-> IF i > j THEN 0
          ELSE Vals4[Digit(idx, 4, IF i = j THEN i - 1 ELSE 3 + UpPos(3, i, j)) + 1]])])
  ELSE TLCEval([i \in 1..4 |-> TLCEval([j \in 1..4 |-> IF i > j THEN 0
          ELSE IF i = j THEN Diag3[Digit(idx, 3, i - 1) + 1]
          ELSE Vals3[Digit(idx \div 81, 3, UpPos(4, i, j)) + 1]])])
TrCount(n) == IF n = 3 THEN Pow(4, 6) ELSE 81 * Pow(3, 6)

(* symmetric family: upper triangle of the tr member, mirrored *)
SymMat(n, idx) == LET U == TrMat(n, idx)
                  IN TLCEval([i \in 1..n |-> TLCEval([j \in 1..n |-> IF i <= j THEN U[i][j] ELSE U[j][i]])])

(* integer Cholesky factor: positive diagonal {1,2} (n=1: 1..3), strict lower part *)
LoPos(n, i, j) == UpPos(n, j, i)          \* i > j
SpdL(n, idx) ==
  IF n = 1 THEN << <<idx + 1>> >>
  ELSE LET nd == n
           off == IF n = 2 THEN Vals4 ELSE Vals3
           b == Len(off)
       IN TLCEval([i \in 1..n |-> TLCEval([j \in 1..n |->
             IF i < j THEN 0
             ELSE IF i = j THEN Digit(idx, 2, i - 1) + 1
             ELSE off[Digit(idx \div Pow(2, nd), b, LoPos(n, i, j)) + 1]])])
SpdCount(n) == IF n = 1 THEN 3 ELSE IF n = 2 THEN 4 * 4 ELSE Pow(2, n) * Pow(3, (n * (n - 1)) \div 2)

(* ------------------------------------------------------------ graded family *)
(* Magnitudes of 2^-40 cannot be held in 32-bit rationals, so a graded matrix
   is printed symbolically: mantissa matrix m and exponent matrix e,
   A[i][j] = m[i][j] * 2^e[i][j] (exact in binary floating point).
   Structure (canonical, before a row permutation pi is applied): columns
   before the graded column g are unit columns, the graded column holds in the
   rows g..n exactly one entry of ordinary size ("big", 1 or 2) and tiny entries
   mant * 2^-(40+3t) elsewhere, the columns after g are ordinary integers.  All
   row orders are enumerated, so that in the pivot search of column g the
   diagonal candidate, the big entry and a larger tiny entry occur in every
   order (a search that keeps the FIRST or the LAST candidate exceeding the
   diagonal instead of the largest one picks a tiny pivot).
   B0 is A with the tiny entries replaced by 0, E = A - B0.  The contract for
   the graded family rests on the perturbation lemma (Neumann series): if
   delta = ||B0^-1||_1 ||E||_1 < 1 then A is nonsingular,
   ||A^-1 - B0^-1||_1 <= ||B0^-1||_1^2 ||E||_1 / (1 - delta) and
   kappa(A) <= kappa(B0) (1 + delta) / (1 - delta).  TLC verifies the hypothesis
   in the strong form delta <= 2^-20 (GrHolds); then A^-1 equals the exact
   Inv(B0) up to slack = 2 ||B0^-1||^2 ||E|| (far below the tolerance) and
   kappa(A) <= 2 kappa(B0). *)
GrMants == <<3, -1, 5>>
GrFill(i, j, dv) == ((i * (dv + 2) + j * 3 + dv * i * j) % 5) - 2
GrParams(n, idx) ==
  LET np == NPerm(n)
      r1 == idx \div np
      g == (r1 % 2) + 1
      r2 == r1 \div 2
      k == n - g + 1
      r3 == r2 \div 4
      r4 == r3 \div 2
      r5 == r4 \div 3
  IN [pi |-> PermK(n, (idx % np) + 1), g |-> g, k |-> k, bigpos |-> ((r2 % 4) % k) + 1,
      mv |-> r3 % 2, dv |-> r4 % 3, eo |-> r5 % 2]
GrCount(n) == NPerm(n) * 96
(* canonical entry (i, j) as [m, e] *)
GrEntry(n, q, i, j) ==
  IF j < q.g THEN [m |-> IF i = j THEN 1 ELSE 0, e |-> 0]
  ELSE IF j > q.g THEN [m |-> GrFill(i, j, q.dv), e |-> 0]
  ELSE IF i < q.g THEN [m |-> 0, e |-> 0]
  ELSE LET pos == i - q.g + 1 IN
       IF pos = q.bigpos THEN [m |-> 1 + q.mv, e |-> 0]
       ELSE LET t == IF pos < q.bigpos THEN pos - 1 ELSE pos - 2       \* rank among the tiny rows, 0-based
                tt == IF q.eo = 0 THEN t ELSE (q.k - 2) - t
            IN [m |-> IF q.mv = 0 THEN 1 ELSE GrMants[t + 1], e |-> -(40 + 3 * tt)]
GrSym(n, idx) ==
  LET q == GrParams(n, idx)
  IN TLCEval([i \in 1..n |-> TLCEval([j \in 1..n |-> GrEntry(n, q, q.pi[i], j)])])
GrB0(n, idx) ==
  LET S == GrSym(n, idx)
  IN TLCEval([i \in 1..n |-> TLCEval([j \in 1..n |-> IF S[i][j].e = 0 THEN S[i][j].m ELSE 0])])
GrESum(n, idx) ==
  LET S == GrSym(n, idx)
  IN SumInts(TLCEval([i \in 1..n |-> SumInts(TLCEval([j \in 1..n |-> IF S[i][j].e = 0 THEN 0 ELSE Abs(S[i][j].m)]))]))
GrEMax == -40
(* delta = ||B0^-1||_1 ||E||_1 <= (Norm1(adj)/|det|) * esum * 2^-40 <= 2^-20 *)
GrHolds(n, idx) ==
  LET B == GrB0(n, idx)
      det == Det(B)
  IN /\ det # 0
     /\ Norm1(Adj(B)) * GrESum(n, idx) <= Abs(det) * Pow(2, 20)
     /\ Norm1(B) * Norm1(Adj(B)) <= 200 * Abs(det)                 \* kappa(B0) <= 200

(* ------------------------------------------------------------ scaled families *)
(* Well-conditioned positive definite matrices whose DETERMINANT lies outside
   the floating-point range although its logarithm is perfectly representable:
   A = 2^k B with B = tridiag(-1,2,-1) ("st": det B = n+1,
   B^-1[i][j] = min(i,j)(n+1-max(i,j))/(n+1)) or B = diag(1,2,3,1,2,3,..) ("sd").
   Printed symbolically (base matrix, power-of-two exponent):
     ln det A = sum count * ln(value) over logterms + n k ln 2,
     A^-1 = invnum / (invden 2^k).
   TLC verifies B invnum = invden I and the determinant of the tridiagonal base
   by its three-term recurrence (cross-checked against DetLaplace for n <= 6). *)
SExps == <<-70, -27, 0, 27, 70>>
TriDiag(n) == TLCEval([i \in 1..n |-> TLCEval([j \in 1..n |-> IF i = j THEN 2 ELSE IF Abs(i - j) = 1 THEN -1 ELSE 0])])
(* det T_m = 2 det T_(m-1) - det T_(m-2), det T_0 = 1, det T_1 = 2; iterated on the pair <<det T_(m-1), det T_m>> *)
RECURSIVE TriDetPair(_)
TriDetPair(m) == IF m = 1 THEN <<1, 2>> ELSE LET q == TriDetPair(m - 1) IN <<q[2], 2 * q[2] - q[1]>>
TriDet(m) == IF m = 0 THEN 1 ELSE TriDetPair(m)[2]
DiagVal(i) == ((i - 1) % 3) + 1
DiagM(n) == TLCEval([i \in 1..n |-> TLCEval([j \in 1..n |-> IF i = j THEN DiagVal(i) ELSE 0])])
MinI(a, b) == IF a < b THEN a ELSE b
MaxI(a, b) == IF a < b THEN b ELSE a
ScBase(c) == IF c.fam = "st" THEN TriDiag(c.n) ELSE DiagM(c.n)
ScInvDen(c) == IF c.fam = "st" THEN c.n + 1 ELSE 6
ScInvNum(c) ==
  LET n == c.n IN
  IF c.fam = "st"
  THEN TLCEval([i \in 1..n |-> TLCEval([j \in 1..n |-> MinI(i, j) * (n + 1 - MaxI(i, j))])])
  ELSE TLCEval([i \in 1..n |-> TLCEval([j \in 1..n |-> IF i = j THEN 6 \div DiagVal(i) ELSE 0])])
ScLogTerms(c) ==
  IF c.fam = "st" THEN << <<c.n + 1, 1>> >>
  ELSE TLCEval([v \in 1..3 |-> <<v, Cardinality({i \in 1..c.n : DiagVal(i) = v})>>])
ScaledHolds(c) ==
  LET B == ScBase(c)  n == c.n IN
  (* B is tridiagonal, so (B N)[i][j] has at most three terms (a generic 40x40 product is needlessly slow in TLC) *)
  /\ \A i, j \in 1..n : Abs(i - j) > 1 => B[i][j] = 0
  /\ LET N == ScInvNum(c) IN
     \A i, j \in 1..n :
        (IF i > 1 THEN B[i][i - 1] * N[i - 1][j] ELSE 0) + B[i][i] * N[i][j] + (IF i < n THEN B[i][i + 1] * N[i + 1][j] ELSE 0)
          = IF i = j THEN ScInvDen(c) ELSE 0
  /\ IsSymmetric(B)
  /\ c.fam = "st" => (TriDet(n) = n + 1 /\ \A m \in 1..6 : TriDet(m) = DetLaplace(TriDiag(m)))
  /\ c.fam = "sd" => \A v \in 1..3 : v > 0
ScaledRecord(c) ==
  LET B == ScBase(c)  n == c.n  num == ScInvNum(c) IN
  [k |-> "smat", fam |-> c.fam, n |-> n, idx |-> c.idx, base |-> B, sexp |-> SExps[c.idx + 1],
   logterms |-> ScLogTerms(c), invnum |-> num, invden |-> ScInvDen(c),
   kap |-> LET q == Rat(Norm1(B) * Norm1(num), ScInvDen(c)) IN <<q.n, q.d>>]
IsScaled(c) == c.fam \in {"st", "sd"}
ScaledCases(b) ==
  {[fam |-> f, n |-> m, idx |-> i] : f \in {"st", "sd"}, m \in {5, 12, 40}, i \in {k \in 0..4 : k % NB = b}}

(* a structurally singular matrix handed to a routine BEFORE the case's matrix
   with the same caller-supplied work space (history "rejected call first") *)
PriorSingular(n) == TLCEval([i \in 1..n |-> TLCEval([j \in 1..n |-> IF n = 1 THEN 0 ELSE 1])])

MatOf(c) ==
  CASE c.fam = "g"   -> GenMat(c.n, c.idx)
    [] c.fam = "pd"  -> PdMat(c.idx)
    [] c.fam = "p4"  -> P4Mat(c.idx)
    [] c.fam = "q4"  -> Q4Mat(c.idx)
    [] c.fam = "tr"  -> TrMat(c.n, c.idx)
    [] c.fam = "sym" -> SymMat(c.n, c.idx)
    [] c.fam = "gr"  -> GrB0(c.n, c.idx)
    [] c.fam = "spd" -> LET L == SpdL(c.n, c.idx) IN MulII(L, Transpose(L))

(* seeded slices *)
Mix(idx) == ((idx % 1009) * ((idx \div 7) % 1013) + (Seed % 9973) * 37 + idx)
Sel(idx, m) == Full \/ m <= 1 \/ Mix(idx) % m = 0

(* the members of a family with index congruent to b modulo NB (block b) *)
BlockIdx(count, b) == {b + NB * t : t \in 0..((count - 1 - b) \div NB)}
CasesOfFam(fam, n, count, m, b) ==
  {[fam |-> fam, n |-> n, idx |-> i] : i \in {k \in BlockIdx(count, b) : Sel(k, m)}}

CasesOfBlock(b) ==
  CasesOfFam("g", 1, GenCount(1), 1, b) \cup CasesOfFam("g", 2, GenCount(2), 1, b)
  \cup CasesOfFam("g", 3, GenCount(3), Mod3, b)
  \cup CasesOfFam("pd", 3, PdCount, 1, b)
  \cup CasesOfFam("p4", 4, P4Count, 1, b) \cup CasesOfFam("q4", 4, P4Count, 1, b)
  \cup CasesOfFam("tr", 3, TrCount(3), Mod4 \div 8, b) \cup CasesOfFam("tr", 4, TrCount(4), Mod4, b)
  \cup CasesOfFam("sym", 3, TrCount(3), Mod4 \div 8, b) \cup CasesOfFam("sym", 4, TrCount(4), Mod4, b)
  \cup {c \in CasesOfFam("gr", 3, GrCount(3), 1, b) \cup CasesOfFam("gr", 4, GrCount(4), Mod4 \div 16, b) :
          GrHolds(c.n, c.idx)}
  \cup CasesOfFam("spd", 1, SpdCount(1), 1, b) \cup CasesOfFam("spd", 2, SpdCount(2), 1, b)
  \cup CasesOfFam("spd", 3, SpdCount(3), 1, b) \cup CasesOfFam("spd", 4, SpdCount(4), Mod4 \div 4, b)
  \cup ScaledCases(b)

(* ------------------------------------------------------------ the printed case *)
R2(r) == <<r.n, r.d>>                         \* a rational as [n, d]
RM2(X) == TLCEval([i \in 1..Len(X) |-> TLCEval([j \in 1..Len(X[i]) |-> R2(X[i][j])])])
RV2(x) == TLCEval([i \in 1..Len(x) |-> R2(x[i])])

(* masks printed with a case: all proper non-empty ones for n <= 3, three
   (rotating through all fourteen with the case index) for n = 4 *)
MaskCodes(n, idx) ==
  IF n <= 1 THEN {}
  ELSE IF n <= 3 THEN 1..(Pow(2, n) - 2)
  ELSE {((idx + 5 * t) % 14) + 1 : t \in 0..2}

(* KnownDeviation_PdSubmatrix (finding C04-pd-submatrix): with PositiveDefinite the
   library factorises the WHOLE matrix and then restricts the factor, i.e. it
   inverts L_SS L_SS' instead of A_SS = (L L')_SS; both agree iff the mask is a
   prefix.  devinv is what the code then returns (empty where not applicable). *)
DevPdSub(L, mask) ==
  IF L = <<>> \/ IsPrefixMask(mask) THEN <<>>
  ELSE LET LS == SubM(L, mask) IN RM2(Inv(MulII(LS, Transpose(LS))))

SubRecord(A, L, code) ==
  LET n == Len(A)
      mask == MaskOf(n, code)
      B == SubM(A, mask)
      det == Det(B)
      adj == Adj(B)
  IN [m |-> mask, det |-> det, sing |-> SingClass(B, det), prefix |-> IsPrefixMask(mask),
      devinv |-> DevPdSub(L, mask),
      inv |-> IF det = 0 THEN <<>> ELSE RM2(InvFrom(adj, det)),
      kap |-> IF det = 0 THEN <<0, 1>> ELSE R2(KappaFrom(B, adj, det)),
      sol |-> IF det = 0 THEN <<>> ELSE RV2(SolveFrom(B, SubV(Ramp(n), mask), det))]

GrRecord(c) ==
  LET S == GrSym(c.n, c.idx)
      n == c.n
      q == GrParams(n, c.idx)
      B == GrB0(n, c.idx)
      det == Det(B)
      adj == Adj(B)
  IN [k |-> "gmat", fam |-> "gr", n |-> n, idx |-> c.idx, g |-> q.g,
      m |-> TLCEval([i \in 1..n |-> TLCEval([j \in 1..n |-> S[i][j].m])]),
      e |-> TLCEval([i \in 1..n |-> TLCEval([j \in 1..n |-> S[i][j].e])]),
      b0 |-> B, det |-> det, inv |-> RM2(InvFrom(adj, det)), kap |-> R2(KappaFrom(B, adj, det)),
      sol |-> <<RV2(SolveFrom(B, Ones(n), det)), RV2(SolveFrom(B, Ramp(n), det))>>,
      ninv |-> R2(Rat(Norm1(adj), Abs(det))), esum |-> GrESum(n, c.idx), emax |-> GrEMax]

CaseRecord(c) ==
  IF c.fam = "gr" THEN GrRecord(c) ELSE
  IF IsScaled(c) THEN ScaledRecord(c) ELSE
  LET A == MatOf(c)
      n == c.n
      det == Det(A)
      adj == Adj(A)
      codes == SetToSeq(MaskCodes(n, c.idx))
  IN [k |-> "mat", fam |-> c.fam, n |-> n, idx |-> c.idx, a |-> A, det |-> det,
      sing |-> SingClass(A, det), tri |-> IsUpperTri(A), spd |-> (c.fam = "spd"), sym |-> IsSymmetric(A),
      L |-> IF c.fam = "spd" THEN SpdL(n, c.idx) ELSE <<>>,
      inv |-> IF det = 0 THEN <<>> ELSE RM2(InvFrom(adj, det)),
      kap |-> IF det = 0 THEN <<0, 1>> ELSE R2(KappaFrom(A, adj, det)),
      sol |-> IF det = 0 THEN <<>> ELSE <<RV2(SolveFrom(A, Ones(n), det)), RV2(SolveFrom(A, Ramp(n), det))>>,
      subs |-> TLCEval([t \in 1..Len(codes) |-> SubRecord(A, IF c.fam = "spd" THEN SpdL(n, c.idx) ELSE <<>>, codes[t])])]

(* the defining equations, verified by TLC on every printed case.  They are
   stated over the integers, multiplied through by det (Inv = Adj/Det and the
   Cramer numerators are what is printed): A Inv = I  <=>  A Adj = det I, and
   A x = b  <=>  A (det x) = det b. *)
MulIV(A, x) == TLCEval([i \in 1..Len(A) |-> SumInts(TLCEval([j \in 1..Len(x) |-> A[i][j] * x[j]]))])
ScaleM(k, A) == TLCEval([i \in 1..Len(A) |-> TLCEval([j \in 1..Len(A[i]) |-> k * A[i][j]])])
ScaleV(k, x) == TLCEval([i \in 1..Len(x) |-> k * x[i]])
CramerNum(A, b) == TLCEval([k \in 1..Len(A) |-> Det(ReplaceCol(A, k, b))])
ContractHolds(c) ==
  LET A == MatOf(c)
      n == c.n
      det == Det(A)
      adj == Adj(A)
  IN /\ det = DetLaplace(A)
     /\ det = Det(Transpose(A))
     /\ IsStructurallySingular(A) => det = 0
     /\ MulII(A, adj) = ScaleM(det, IdentityM(n))
     /\ MulII(adj, A) = ScaleM(det, IdentityM(n))
     /\ \A b \in {Ones(n), Ramp(n)} \cup {Unit(n, k) : k \in 1..n} :
          LET xn == CramerNum(A, b) IN
          /\ MulIV(A, xn) = ScaleV(det, b)
          /\ xn = MulIV(adj, b)
     /\ c.fam = "spd" => (det > 0 /\ IsSymmetric(A) /\ IsLowerTri(SpdL(n, c.idx))
                          /\ det = Det(SpdL(n, c.idx)) * Det(SpdL(n, c.idx)))
     /\ c.fam = "tr" => IsUpperTri(A)
     /\ c.fam = "sym" => IsSymmetric(A)
     /\ c.fam = "gr" => (GrHolds(n, c.idx) /\ GrESum(n, c.idx) > 0)

Root == [fam |-> "root", n |-> 0, idx |-> 0]
Block == [fam |-> "blk", n |-> 0, idx |-> 0]
IsCase(c) == c.fam \notin {"root", "blk"}

Init == blk = -1 /\ cs = Root
Next == \/ /\ blk = -1
           /\ \E b \in 0..(NB - 1) : blk' = b /\ cs' = Block
        \/ /\ blk >= 0 /\ cs = Block
           /\ \E c \in CasesOfBlock(blk) : cs' = c /\ blk' = blk
Spec == Init /\ [][Next]_gvars

ContractOK == IsCase(cs) => IF IsScaled(cs) THEN ScaledHolds(cs)
                           ELSE (ContractHolds(cs) /\ IsStructurallySingular(PriorSingular(cs.n)))
Emit == IsCase(cs) => PrintT(ToJson(CaseRecord(cs)))
=============================================================================
