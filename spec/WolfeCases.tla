------------------------------ MODULE WolfeCases ------------------------------
(***************************************************************************)
(* C07 - a line-search family whose parameters are CHOSEN BY THE SPEC to   *)
(* sit on both sides of every acceptance boundary of the strong Wolfe      *)
(* conditions with the documented constants c1 = 1e-4, c2 = 0.9:           *)
(*   Armijo             phi(a) <= phi(0) + c1 a phi'(0)                    *)
(*   strong curvature   |phi'(a)| <= c2 |phi'(0)|                          *)
(*   weak curvature     phi'(a) >= c2 phi'(0)      (NOT sufficient)        *)
(* All arithmetic is exact (Rat.tla).                                      *)
(*                                                                         *)
(* mono   phi(a) = -a + k a^p, p in Degrees.  With u = k a^(p-1):          *)
(*        Armijo <=> u <= 1 - c1;  strong <=> (1-c2)/p <= u <= (1+c2)/p;   *)
(*        weak <=> u >= (1-c2)/p.  A trial step is of class                *)
(*          "short"    u < (1-c2)/p          Armijo, slope still steep     *)
(*          "wolfe"    strong Wolfe holds    (the only acceptable class)   *)
(*          "weakonly" (1+c2)/p < u <= 1-c1  Armijo and WEAK curvature     *)
(*                     hold, strong curvature fails: beyond the minimiser  *)
(*                     with slope > c2 |phi'(0)|                           *)
(*          "noarmijo" u > 1 - c1                                          *)
(*        For every degree, every first step Alpha1, every boundary b of   *)
(*        the three above, both sides b (1 +- Delta), and for the FIRST    *)
(*        trial step Alpha1 and the DOUBLED one 2 Alpha1, the spec solves  *)
(*        k = u / a_j^(p-1) for u = b (1 +- Delta) (u = 1 +- Delta for the *)
(*        Armijo boundary 1 - c1); it prints the exact class of the trial  *)
(*        steps Alpha1, 2 Alpha1, 4 Alpha1.                                *)
(* window phi(a) = (h/2) P(2a/h), P(x) = -x + c2' x^2 + c3' x^3 + c4' x^4  *)
(*        the quartic with P(0) = 0, P'(0) = -1, P(2) = 0, P'(1) = 0,      *)
(*        P(1) = -T c1 / 2: the first trial step h fails Armijo, the       *)
(*        quadratic interpolation of the zoom phase lands exactly on h/2,  *)
(*        where the slope is 0 and phi(h/2) < phi(0), but Armijo holds     *)
(*        only for T >= 1.  T in {1/2, 2}: inside / outside the narrow     *)
(*        window  phi(0) + c1 a phi'(0) < phi(a) < phi(0).                 *)
(* hermite  NOT convex along the line: the slope first gets steeper.  The   *)
(*        spec constructs the degree-6 Hermite interpolant (exact divided  *)
(*        differences, expanded to monomial coefficients) with             *)
(*          phi(0) = 0, phi'(0) = -1, phi(h) = -(1+S) h/2, phi'(h) = -S,   *)
(*          phi(3h/2) = phi(h) - S h/4, phi'(3h/2) = +-G, phi(2h) = phi(h) *)
(*        so that the first trial step h is "short" (slope -S, S > 1), the *)
(*        doubled step does not decrease phi any more: the zoom phase      *)
(*        starts with the LOWER bracket end h > 0 whose slope is steeper   *)
(*        than phi'(0); its quadratic interpolation lands exactly on 3h/2, *)
(*        where Armijo holds and phi is below phi(h).  G is placed on both *)
(*        sides of c2 |phi'(0)| (the documented reference) and of          *)
(*        c2 |phi'(h)| (the slope at the lower bracket end, a wrong        *)
(*        reference): for c2 < G <= c2 S the step 3h/2 must NOT be         *)
(*        accepted.                                                        *)
(* nonconvex  phi(a) = -a - s a^2 + q a^3 + u a^4 on a grid of s, q, u and *)
(*        first steps: negative curvature at 0 (the slope steepens),       *)
(*        bounded below; no prescribed route, the returned step is checked.*)
(* Constraints: every case also carries two feasible intervals [0, c] for  *)
(* the Constraints option, with c = 3/2 Alpha1 (between the first trial    *)
(* step and its double) and c = 3 Alpha1 (between the double and the       *)
(* quadruple): when the first steps are "short" the search wants to expand *)
(* past c, and the returned step must still be feasible.                   *)
(* The Go driver runs lineSearch.Run on every printed case and checks the  *)
(* strong Wolfe conditions at the returned step by re-evaluation.          *)
(***************************************************************************)
EXTENDS Rat, FiniteSets, SequencesExt, Json

CONSTANTS Degrees,     \* degrees p of the monomial family
          Alphas,      \* first trial steps Alpha1: numerators over AlphaDen
          AlphaDen,
          DeltaDen     \* Delta = 1 / DeltaDen

VARIABLE case

C1 == Rat(1, 10000)
C2 == Rat(9, 10)
Delta == Rat(1, DeltaDen)

(* polynomials without constant term: coefs[j] is the coefficient of a^j *)
RECURSIVE PolyFrom(_, _, _)
PolyFrom(coefs, a, j) == IF j > Len(coefs) THEN RZero ELSE RAdd(RMul(coefs[j], RPow(a, j)), PolyFrom(coefs, a, j + 1))
Phi(coefs, a) == PolyFrom(coefs, a, 1)
RECURSIVE SlopeFrom(_, _, _)
SlopeFrom(coefs, a, j) == IF j > Len(coefs) THEN RZero
                          ELSE RAdd(RMul(RMul(RInt(j), coefs[j]), RPow(a, j - 1)), SlopeFrom(coefs, a, j + 1))
Slope(coefs, a) == SlopeFrom(coefs, a, 1)

(* comparisons through the sign of the (gcd-reduced) difference: TLC integers are 32 bit *)
Lt(x, y) == RSub(x, y).n < 0
Le(x, y) == RSub(x, y).n <= 0
RAbsR(x) == IF x.n < 0 THEN RNeg(x) ELSE x
Armijo(coefs, a) == Le(Phi(coefs, a), RMul(C1, RMul(a, coefs[1])))
Strong(coefs, a) == Le(RAbsR(Slope(coefs, a)), RMul(C2, RAbsR(coefs[1])))
Weak(coefs, a)   == Le(RMul(C2, coefs[1]), Slope(coefs, a))
Class(coefs, a) ==
  IF ~Armijo(coefs, a) THEN "noarmijo"
  ELSE IF Strong(coefs, a) THEN "wolfe"
  ELSE IF Weak(coefs, a) THEN "weakonly" ELSE "short"

Mono(p, k) == [j \in 1..p |-> IF j = 1 THEN RInt(-1) ELSE IF j = p THEN k ELSE RZero]
(* values of u on both sides of each boundary: (1-c2)/p and (1+c2)/p scaled by 1 -+ Delta, and Delta around 1 - c1 *)
Us(p) == {RMul(RDiv(RSub(ROne, C2), RInt(p)), RSub(ROne, Delta)), RMul(RDiv(RSub(ROne, C2), RInt(p)), RAdd(ROne, Delta)),
          RMul(RDiv(RAdd(ROne, C2), RInt(p)), RSub(ROne, Delta)), RMul(RDiv(RAdd(ROne, C2), RInt(p)), RAdd(ROne, Delta)),
          RSub(ROne, Delta), RAdd(ROne, Delta)}
MonoCase(p, a1, u, j) ==
  LET aj == RMul(RInt(j), a1)                          \* the trial step the boundary is placed at (j = 1: first, 2: doubled)
      k == RDiv(u, RPow(aj, p - 1))
      coefs == Mono(p, k)
  IN [kind |-> "line1d", form |-> "mono", deg |-> p, coefs |-> coefs, alpha1 |-> a1, at_trial |-> j,
      \* user constraints alpha <= c with c between the first trial step and its doublings
      cbox |-> RMul(Rat(3, 2), a1), chalf |-> RMul(RInt(3), a1),
      classes |-> [i \in 1..3 |-> Class(coefs, RMul(RInt(IF i = 1 THEN 1 ELSE IF i = 2 THEN 2 ELSE 4), a1))],
      n |-> 1, xstar |-> <<>>, invb2 |-> RZero, lip2 |-> RZero, sc |-> FALSE,
      starts |-> << [x |-> <<0>>, box |-> [lo |-> <<-1>>, hi |-> <<1>>], half |-> [has |-> FALSE, k |-> 1, t |-> RZero, side |-> 1]] >>]
MonoCases == UNION {{MonoCase(p, Rat(an, AlphaDen), u, j) : an \in Alphas, u \in Us(p), j \in {1, 2}} : p \in Degrees}

(* the window quartic, scaled to the first trial step h *)
WindowCoefs(h, T) ==
  LET e == RMul(T, RDiv(C1, RInt(2)))
      c4 == RSub(Rat(1, 2), e)
      c3 == RSub(RMul(RInt(4), e), RInt(2))
      c2 == RSub(Rat(5, 2), RMul(RInt(4), e))
      P == <<RInt(-1), c2, c3, c4>>
      hh == RDiv(h, RInt(2))
  IN [j \in 1..4 |-> RMul(hh, RMul(P[j], RPow(RDiv(RInt(2), h), j)))]
WindowCase(h, T) ==
  LET coefs == WindowCoefs(h, T)
      \* the zoom phase interpolates a parabola through (0, phi(0), phi'(0)) and (h, phi(h))
      B == RDiv(RSub(Phi(coefs, h), RMul(coefs[1], h)), RMul(h, h))
      at == RDiv(RNeg(coefs[1]), RMul(RInt(2), B))
  IN [kind |-> "line1d", form |-> "window", deg |-> 4, coefs |-> coefs, alpha1 |-> h, at_trial |-> 1,
      cbox |-> RMul(RInt(2), h), chalf |-> RMul(RInt(2), h),       \* (the zoom phase stays inside [0, h])
      classes |-> <<Class(coefs, h), Class(coefs, at), IF Phi(coefs, at).n < 0 THEN "below_phi0" ELSE "above_phi0">>,
      interpolated |-> at, inside_window |-> Lt(T, ROne),
      n |-> 1, xstar |-> <<>>, invb2 |-> RZero, lip2 |-> RZero, sc |-> FALSE,
      starts |-> << [x |-> <<0>>, box |-> [lo |-> <<-1>>, hi |-> <<1>>], half |-> [has |-> FALSE, k |-> 1, t |-> RZero, side |-> 1]] >>]
WindowCases == {WindowCase(h, T) : h \in {RInt(2), ROne, Rat(1, 2)}, T \in {Rat(1, 2), RInt(2)}}

(* ---------------- Hermite interpolation with exact divided differences ---------------- *)
(* nodes zs (each at most twice), vals[i] the value at zs[i], ders[i] the derivative at zs[i] *)
RECURSIVE DD(_, _, _, _, _)
DD(zs, vals, ders, i, j) ==
  IF i = j THEN vals[i]
  ELSE IF REq(zs[i], zs[j]) THEN ders[i]
  ELSE RDiv(RSub(DD(zs, vals, ders, i + 1, j), DD(zs, vals, ders, i, j - 1)), RSub(zs[j], zs[i]))
(* polynomials with constant term: p[j + 1] is the coefficient of a^j *)
MulLin(p, t) == [j \in 1..(Len(p) + 1) |->
                  RSub(IF j = 1 THEN RZero ELSE p[j - 1], IF j > Len(p) THEN RZero ELSE RMul(t, p[j]))]      \* p(a) (a - t)
PAdd(p, q) == [j \in 1..(IF Len(p) > Len(q) THEN Len(p) ELSE Len(q)) |->
                RAdd(IF j <= Len(p) THEN p[j] ELSE RZero, IF j <= Len(q) THEN q[j] ELSE RZero)]
PScale(c, p) == [j \in 1..Len(p) |-> RMul(c, p[j])]
RECURSIVE Basis(_, _)
Basis(zs, k) == IF k = 1 THEN <<ROne>> ELSE MulLin(Basis(zs, k - 1), zs[k - 1])       \* prod_{i<k} (a - zs[i])
RECURSIVE NewtonSum(_, _, _, _)
NewtonSum(zs, vals, ders, k) ==
  IF k = 0 THEN <<RZero>> ELSE PAdd(NewtonSum(zs, vals, ders, k - 1), PScale(DD(zs, vals, ders, 1, k), Basis(zs, k)))

(* coefficients of a^0 .. a^6 of the interpolant *)
HermiteFull(h, S, G, sgn) ==
  LET h32 == RMul(Rat(3, 2), h)   h2 == RMul(RInt(2), h)
      y1 == RNeg(RMul(RDiv(RAdd(ROne, S), RInt(2)), h))
      y3 == RSub(y1, RMul(RDiv(S, RInt(4)), h))
      zs == <<RZero, RZero, h, h, h32, h32, h2>>
      vals == <<RZero, RZero, y1, y1, y3, y3, y1>>
      ders == <<RInt(-1), RInt(-1), RNeg(S), RNeg(S), RMul(RInt(sgn), G), RMul(RInt(sgn), G), RZero>>
  IN TLCEval(NewtonSum(zs, vals, ders, 7))
(* full is BOUND by a set comprehension below (a concrete value): TLC re-evaluates LET definitions on every use *)
HermiteRec(h, full) ==
  LET h2 == RMul(RInt(2), h)
      coefs == TLCEval([j \in 1..6 |-> full[j + 1]])
      \* the zoom phase: parabola through (h, phi(h)) with slope phi'(h) and (2h, phi(2h))
      B == RDiv(RSub(RSub(Phi(coefs, h2), Phi(coefs, h)), RMul(Slope(coefs, h), h)), RMul(h, h))
      at == RSub(h, RDiv(Slope(coefs, h), RMul(RInt(2), B)))
  IN [kind |-> "line1d", form |-> "hermite", deg |-> 6, coefs |-> coefs, alpha1 |-> h, at_trial |-> 1,
      cbox |-> RMul(RInt(4), h), chalf |-> RMul(RInt(4), h),
      classes |-> <<Class(coefs, h), IF Le(Phi(coefs, h), Phi(coefs, h2)) THEN "no_decrease" ELSE "decrease", Class(coefs, at)>>,
      interpolated |-> at, const0 |-> full[1],
      wolfe_at_trial |-> Armijo(coefs, at) /\ Strong(coefs, at),
      wrong_ref_accepts |-> Armijo(coefs, at) /\ Lt(Phi(coefs, at), Phi(coefs, h))
                            /\ Le(RAbsR(Slope(coefs, at)), RMul(C2, RAbsR(Slope(coefs, h)))),
      n |-> 1, xstar |-> <<>>, invb2 |-> RZero, lip2 |-> RZero, sc |-> FALSE,
      starts |-> << [x |-> <<0>>, box |-> [lo |-> <<-1>>, hi |-> <<1>>], half |-> [has |-> FALSE, k |-> 1, t |-> RZero, side |-> 1]] >>]
Gs(S) == {RMul(C2, RSub(ROne, Delta)), RMul(C2, RAdd(ROne, Delta)),
          RMul(RMul(C2, S), RSub(ROne, Delta)), RMul(RMul(C2, S), RAdd(ROne, Delta))}
HermiteCases == UNION {{HermiteRec(h, full) : full \in {HermiteFull(h, S, G, sgn)}} :
                         h \in {Rat(1, 2), ROne}, S \in {RInt(2), RInt(3)}, G \in Gs(RInt(2)) \cup Gs(RInt(3)), sgn \in {-1, 1}}

NonConvexCase(sq, q, u, a1) ==
  LET coefs == <<RInt(-1), RInt(0 - sq), RInt(q), u>> IN
  [kind |-> "line1d", form |-> "nonconvex", deg |-> 4, coefs |-> coefs, alpha1 |-> a1, at_trial |-> 1,
   cbox |-> RMul(Rat(3, 2), a1), chalf |-> RMul(RInt(3), a1),
   classes |-> [i \in 1..3 |-> Class(coefs, RMul(RInt(IF i = 1 THEN 1 ELSE IF i = 2 THEN 2 ELSE 4), a1))],
   n |-> 1, xstar |-> <<>>, invb2 |-> RZero, lip2 |-> RZero, sc |-> FALSE,
   starts |-> << [x |-> <<0>>, box |-> [lo |-> <<-1>>, hi |-> <<1>>], half |-> [has |-> FALSE, k |-> 1, t |-> RZero, side |-> 1]] >>]
NonConvexCases == {NonConvexCase(sq, q, u, a1) : sq \in {1, 2}, q \in {-1, 0, 1}, u \in {Rat(1, 2), ROne},
                                                  a1 \in {Rat(1, 4), Rat(1, 2), ROne, RInt(2)}}

Init == \/ case \in MonoCases
        \/ case \in WindowCases
        \/ case \in HermiteCases
        \/ case \in NonConvexCases
Next == UNCHANGED case
Spec == Init /\ [][Next]_case

(* certificates, exact *)
Certificates ==
  /\ REq(case.coefs[1], RInt(-1))                                     \* a descent direction with phi'(0) = -1
  /\ case.form = "mono" => /\ Lt(case.alpha1, case.cbox) /\ Lt(case.cbox, RMul(RInt(2), case.alpha1))
                           /\ Lt(RMul(RInt(2), case.alpha1), case.chalf) /\ Lt(case.chalf, RMul(RInt(4), case.alpha1))
  /\ case.form = "mono" =>
       \* the class is the one the closed form in u = k a^(p-1) predicts, and a strong Wolfe step exists
       LET p == case.deg  k == case.coefs[p]
           a == RMul(RInt(case.at_trial), case.alpha1)
           u == RMul(k, RPow(a, p - 1))
           lo == RDiv(RSub(ROne, C2), RInt(p))  hi == RDiv(RAdd(ROne, C2), RInt(p))
           cl == IF Lt(RSub(ROne, C1), u) THEN "noarmijo" ELSE IF Lt(u, lo) THEN "short" ELSE IF Le(u, hi) THEN "wolfe" ELSE "weakonly"
       IN case.classes[IF case.at_trial = 1 THEN 1 ELSE 2] = cl
  /\ case.form = "window" =>
       /\ case.classes[1] = "noarmijo"                               \* the first trial step fails Armijo: zoom phase
       /\ REq(case.interpolated, RDiv(case.alpha1, RInt(2)))         \* the interpolation lands on h/2
       /\ RIsZero(Slope(case.coefs, case.interpolated))              \* zero slope there: curvature holds
       /\ case.classes[3] = "below_phi0"                             \* phi(h/2) < phi(0)
       /\ (case.inside_window <=> case.classes[2] = "noarmijo")      \* Armijo fails exactly inside the window
       /\ (~case.inside_window => case.classes[2] = "wolfe")
HermiteCertificate ==
  case.form = "hermite" =>
    /\ RIsZero(case.const0)                                          \* phi(0) = 0
    /\ case.classes[1] = "short"                                     \* first step: Armijo, slope still (more) negative
    /\ Lt(Slope(case.coefs, case.alpha1), RInt(-1))                  \* ... steeper than phi'(0): not convex along the line
    /\ case.classes[2] = "no_decrease"                               \* the doubled step ends the bracketing: zoom(lo = h, hi = 2h)
    /\ REq(case.interpolated, RMul(Rat(3, 2), case.alpha1))          \* its first interpolation lands on 3h/2
    /\ Armijo(case.coefs, case.interpolated) /\ Lt(Phi(case.coefs, case.interpolated), Phi(case.coefs, case.alpha1))
    /\ (case.wolfe_at_trial => case.wrong_ref_accepts)
NonConvexCertificate ==
  case.form = "nonconvex" => /\ case.coefs[2].n < 0 /\ case.coefs[4].n > 0
                             /\ \E j \in 1..16 : Lt(Slope(case.coefs, Rat(j, 8)), RInt(-1))     \* the slope steepens
Emit == PrintT(ToJson(case))
=============================================================================
