---------------------------- MODULE ParallelEM_MC ----------------------------
(* model-checking instances of ParallelEM: families of pool configurations *)
EXTENDS ParallelEM
C(w, n, b, s, r) == [W |-> w, N |-> n, B |-> b, S |-> s, range |-> r]
QuickConfigs == { C(2, 3, 1, 2, FALSE), C(3, 3, 1, 2, FALSE), C(3, 2, 2, 2, FALSE),
                  C(3, 5, 1, 2, TRUE),  C(2, 5, 2, 2, TRUE),  C(4, 3, 1, 2, FALSE),
                  C(3, 4, 100, 2, FALSE) }
ThoroughConfigs == QuickConfigs \cup
                { C(4, 4, 1, 2, FALSE), C(4, 4, 2, 2, FALSE), C(3, 7, 1, 2, TRUE), C(3, 3, 1, 3, FALSE) }
VacuityConfigs == { C(3, 3, 1, 2, FALSE) }
=============================================================================
