----------------------------- MODULE Termination -----------------------------
(***************************************************************************)
(* C20, part B: "every routine returns or fails within time bounded by a   *)
(* polynomial in its input size for every finite input: the iterative      *)
(* eigenvalue, SVD, matrix-square-root, line-search and optimisation loops *)
(* cannot spin forever on inputs such as defective or repeated-eigenvalue  *)
(* matrices, rank-deficient or zero matrices, or objectives that return    *)
(* NaN".                                                                   *)
(*                                                                         *)
(* Contract (bounded response):                                            *)
(*        Call(routine, n)  ~>  Return | Error | Panic                     *)
(*        within B(routine, n) driver ticks (1 tick = 1 ms wall clock).    *)
(* B is a polynomial in the input size n, per routine, with a generous     *)
(* constant term (the machine is shared; a direct call on these sizes      *)
(* takes microseconds, the slowest passing call measured on the unchanged  *)
(* tree under load was below 30 ms).                                       *)
(*                                                                         *)
(* This module enumerates the INPUT CLASSES of the property's quantifier   *)
(* and prints one case per input with the routines to drive and their      *)
(* budgets.  What a routine returns is not constrained here (wrong numeric *)
(* results are C04/C05): inadmissible input (a non-symmetric matrix handed *)
(* to a symmetric routine, a singular matrix handed to msqrt) may be       *)
(* rejected or produce garbage, but the call must come back.               *)
(* TerminationTrace.tla validates the driver's event log against B.        *)
(***************************************************************************)
EXTENDS Integers, Sequences, FiniteSets, TLC, Json, Randomization

CONSTANTS N3,        \* number of seeded 3x3 matrices over {-1,0,1}; 0 = all 19683
          N4,        \* number of seeded 4x4 matrices over {-1,0,1} (of 3^16); 0 = none
          BMin       \* constant term of every budget, in ticks

(* ------------------------------------------------------------- budgets *)
MatrixRoutines == <<"qrAlgorithm", "qrAlgorithmSymmetric", "eigensystem", "eigensystemSymmetric", "svd",
                    "msqrt", "msqrtInv", "hessenbergReduction", "householderBidiagonalization",
                    "householderTridiagonalization", "gramSchmidt", "matrixInverse", "cholesky", "determinant">>
OptRoutines    == <<"lineSearch", "rprop", "gradientDescent", "newtonRoot", "newtonCrit", "newtonMin",
                    "bfgs", "adam", "saga", "rpropGradient", "adamGradient">>
\* rpropGradient / adamGradient: the explicit-gradient entry points rprop.RunGradient and
\* adam.RunGradient (DenseGradientF), separate implementations of the same loops

Cube(n) == n * n * n
(* iterative O(n^3)-per-sweep routines get a larger polynomial coefficient *)
Coef(r) == IF r \in {"qrAlgorithm", "qrAlgorithmSymmetric", "eigensystem", "eigensystemSymmetric", "svd",
                     "msqrt", "msqrtInv"} THEN 20
           ELSE IF r \in {"hessenbergReduction", "householderBidiagonalization", "householderTridiagonalization",
                          "gramSchmidt", "matrixInverse", "cholesky", "determinant"} THEN 5
           ELSE 50                                  \* optimisers: n = number of variables
B(r, n) == BMin + Coef(r) * Cube(n)

(* ------------------------------------------------------ matrix classes *)
(* entries are integers; the tokens below stand for IEEE specials *)
NaN  == 1000
PInf == 1001
NInf == 1002

Mat(n, f) == [i \in 1..(n*n) |-> f[i]]                  \* row major
Diag4(a, b, c, d) == <<a,0,0,0, 0,b,0,0, 0,0,c,0, 0,0,0,d>>
Jordan4(l) == <<l,1,0,0, 0,l,1,0, 0,0,l,1, 0,0,0,l>>
J2J2(l, u) == <<l,1,0,0, 0,l,0,0, 0,0,u,1, 0,0,0,u>>
Rot(a, b, c, d) == <<a,0-b,0,0, b,a,0,0, 0,0,c,0-d, 0,0,d,c>>     \* spectrum a+-bi, c+-di
Outer4(u, v) == [k \in 1..16 |-> u[((k-1) \div 4) + 1] * v[((k-1) % 4) + 1]]
Companion4(p) == <<0,0,0,0-p[1], 1,0,0,0-p[2], 0,1,0,0-p[3], 0,0,1,0-p[4]>>

Vals == {-1, 0, 1}
Structured ==
       { [class |-> "zero",      n |-> 4, m |-> Diag4(0,0,0,0)] }
  \cup { [class |-> "identity",  n |-> 4, m |-> Diag4(s,s,s,s)] : s \in {1, -1, 2} }
  \cup { [class |-> "nilpotent", n |-> 4, m |-> x] :
           x \in { Jordan4(0), J2J2(0, 0), <<0,1,1,1, 0,0,1,1, 0,0,0,1, 0,0,0,0>>, <<0,0,0,0, 1,0,0,0, 0,1,0,0, 0,0,1,0>>,
                   <<0,0,0,1, 0,0,0,0, 0,0,0,0, 0,0,0,0>> } }
  \cup { [class |-> "jordan",    n |-> 4, m |-> Jordan4(l)] : l \in {-2, -1, 1, 2} }
  \cup { [class |-> "jordan",    n |-> 4, m |-> J2J2(l, u)] : l \in {-1, 1, 2}, u \in {-1, 1, 2} }
  \cup { [class |-> "rank1",     n |-> 4, m |-> Outer4(u, v)] :
           u \in {<<1,1,1,1>>, <<1,0,0,0>>, <<1,-1,1,-1>>, <<1,2,0,-1>>}, v \in {<<1,1,1,1>>, <<0,0,0,1>>, <<1,-1,0,2>>} }
  \cup { [class |-> "repeated",  n |-> 4, m |-> x] :
           x \in { Diag4(1,1,2,2), Diag4(2,2,2,1), Diag4(0,0,1,1), Diag4(-1,-1,-1,-1),
                   <<1,1,0,0, 0,1,0,0, 0,0,1,0, 0,0,0,1>>, <<2,1,1,1, 0,2,1,1, 0,0,2,1, 0,0,0,2>>,
                   <<1,1,1,1, 1,1,1,1, 1,1,1,1, 1,1,1,1>>, <<2,1,0,0, 1,2,0,0, 0,0,2,1, 0,0,1,2>>,
                   <<0,1,0,0, 1,0,0,0, 0,0,0,1, 0,0,1,0>> } }
  \cup { [class |-> "complex",   n |-> 4, m |-> Rot(a, b, c, d)] : a \in {0, 1}, b \in {1, 2}, c \in {0, 1}, d \in {1, 2} }
  \cup { [class |-> "companion", n |-> 4, m |-> Companion4(p)] : p \in [1..4 -> Vals] }
       \* non-finite entries: one special value in an otherwise regular matrix
  \cup { [class |-> "nonfinite", n |-> 2, m |-> [k \in 1..4 |-> IF k = pos THEN tok ELSE IF k \in {1, 4} THEN 2 ELSE 1]] :
           pos \in 1..4, tok \in {NaN, PInf, NInf} }
  \cup { [class |-> "nonfinite", n |-> 3, m |-> [k \in 1..9 |-> IF k = pos THEN tok ELSE IF k \in {1, 5, 9} THEN 3 ELSE 1]] :
           pos \in {1, 2, 4, 5, 9}, tok \in {NaN, PInf} }

Int1 == { [class |-> "int1x1", n |-> 1, m |-> <<v>>] : v \in -2..2 }
Int2 == { [class |-> "int2x2", n |-> 2, m |-> f] : f \in [1..4 -> -2..2] }
All3 == [1..9 -> Vals]
Sel3 == IF N3 = 0 THEN All3 ELSE RandomSubset(N3, All3)      \* seeded by TLC's -seed
Int3 == { [class |-> "int3x3", n |-> 3, m |-> f] : f \in Sel3 }
Sel4 == IF N4 = 0 THEN {} ELSE RandomSubset(N4, [1..16 -> Vals])
Int4 == { [class |-> "int4x4", n |-> 4, m |-> f] : f \in Sel4 }

Calls(rs, n) == [k \in 1..Len(rs) |-> [r |-> rs[k], b |-> B(rs[k], n)]]
MatrixCase(x) == [kind |-> "matrix", class |-> x.class, n |-> x.n, m |-> Mat(x.n, x.m),
                  obj |-> "", k |-> 0, calls |-> Calls(MatrixRoutines, x.n)]

(* --------------------------------------------------- objective classes *)
(* Base objective: the convex quadratic sum (x_i - 1)^2 (for the root      *)
(* finder x_i - 1, for the line search (alpha - 1)^2, for SAGA the least   *)
(* squares samples (x_i - 1)^2 / 2).  Fault classes of the property:       *)
(*   nan / posinf    the objective (value and derivatives) is multiplied   *)
(*                   by NaN / +Inf from its (k+1)-th evaluation on         *)
(*                   (k = 0: from the start);                              *)
(*   error           the objective returns an error from its (k+1)-th      *)
(*                   evaluation on;                                        *)
(*   constraints_never / constraints_only_start                            *)
(*                   the Constraints option is never satisfiable / is      *)
(*                   satisfied by the start point only;                    *)
(*   zero_gradient   the objective is constant: zero gradient at the start.*)
(* All iteration options stay at their defaults (unbounded).  Objectives   *)
(* whose only obstacle is slow convergence are NOT in the quantifier.      *)
ObjClasses == { <<"nan", 0>>, <<"nan", 1>>, <<"nan", 2>>, <<"nan", 5>>,
                <<"posinf", 0>>, <<"posinf", 1>>, <<"posinf", 3>>,
                <<"error", 0>>, <<"error", 1>>, <<"error", 3>>,
                <<"constraints_never", 0>>, <<"constraints_only_start", 0>>,
                \* the start point lies ON the boundary of the feasible half-space x_i >= x0_i and
                \* every descent step leaves it, while the gradient is not zero
                <<"constraints_halfspace", 0>>,
                <<"zero_gradient", 0>> }
WithConstraints == {"lineSearch", "rprop", "newtonRoot", "newtonCrit", "newtonMin", "bfgs", "adam",
                    "rpropGradient", "adamGradient"}
Applicable(o) == IF o[1] \in {"constraints_never", "constraints_only_start", "constraints_halfspace"}
                 THEN SelectSeq(OptRoutines, LAMBDA r : r \in WithConstraints) ELSE OptRoutines
ObjCase(o, n) == [kind |-> "objective", class |-> o[1], n |-> n, m |-> <<>>,
                  obj |-> o[1], k |-> o[2], calls |-> Calls(Applicable(o), n)]

(* An Epsilon option below the attainable accuracy: the residual of the    *)
(* transcendental equation exp(x) = t (t = k for k > 0, t = 1/(-k) for     *)
(* k < 0; objective exp(x) - t x for the critical-point / minimum          *)
(* variants) is never exactly zero in floating point for t = 3 and         *)
(* t = 1/100, so with Epsilon{1e-30} the stop criterion can never fire;    *)
(* the routine must still come back (value or error).  Driven through the  *)
(* Newton family, whose only other exit is the unbounded default           *)
(* MaxIterations.                                                          *)
EpsCases == { [kind |-> "objective", class |-> "epsilon_unattainable", n |-> 1, m |-> <<>>,
               obj |-> "epsilon_unattainable", k |-> x[1], calls |-> Calls(x[2], 1)] :
              x \in { <<3, <<"newtonRoot", "newtonCrit">> >>, <<-100, <<"newtonMin">> >>,
                      <<2, <<"newtonRoot", "newtonCrit", "newtonMin">> >> } }

(* ------------------------------------------ exact Newton cycles (history) *)
(* Polynomials whose Newton iteration x -> x - p(x)/p'(x) runs through an  *)
(* exact cycle of integer points (period 2, 3, 4) from the start point:    *)
(* no iterate is ever repeated twice in a row, the residual never becomes  *)
(* small, default MaxIterations is unbounded - the routine must still come *)
(* back (value or error).  The cycle property is CERTIFIED here by integer *)
(* arithmetic (IsNewtonCycle, an ASSUME checked by TLC):                   *)
(*     p'(x_i) # 0   and   p(x_i) = (x_i - x_{i+1}) p'(x_i).               *)
(* All evaluations involve small integers only, so they are exact in       *)
(* float64 as well.  RunRoot gets p; RunCrit gets the scaled               *)
(* antiderivative F with integer coefficients, F' = L p (scaling p does    *)
(* not change the Newton map).  RunMin is not driven on this class: its    *)
(* line search replaces the Newton map, and on these non-convex F it       *)
(* creeps uphill in 1e-6 steps (slow progress, outside the quantifier).    *)
Polys == { [period |-> 2, cyc |-> <<0, 1>>,       p |-> <<2, -2, 0, 1>>,                   L |-> 12],
           [period |-> 3, cyc |-> <<0, 1, 2>>,    p |-> <<-112, 112, 0, -43, 12>>,         L |-> 60],
           [period |-> 4, cyc |-> <<0, 1, 2, 3>>, p |-> <<18, -18, 20, -39, 38, -15, 2>>,  L |-> 420] }
RECURSIVE Pow(_, _)
Pow(x, j) == IF j = 0 THEN 1 ELSE x * Pow(x, j - 1)
RECURSIVE EvalFrom(_, _, _)
EvalFrom(q, x, j) == IF j > Len(q) THEN 0 ELSE q[j] * Pow(x, j - 1) + EvalFrom(q, x, j + 1)
Eval(q, x)  == EvalFrom(q, x, 1)                       \* q[1] + q[2] x + q[3] x^2 + ...
Deriv(q)    == [j \in 1..(Len(q) - 1) |-> j * q[j + 1]]
Anti(q, L)  == <<0>> \o [j \in 1..Len(q) |-> (L * q[j]) \div j]
IsNewtonCycle(y) ==
  \A i \in 1..y.period :
     LET x  == y.cyc[i]
         xn == y.cyc[(i % y.period) + 1]
     IN  Eval(Deriv(y.p), x) # 0 /\ Eval(y.p, x) = (x - xn) * Eval(Deriv(y.p), x)
ASSUME \A y \in Polys : /\ IsNewtonCycle(y)
                         /\ \A j \in 1..Len(y.p) : (y.L * y.p[j]) % j = 0
                         /\ Deriv(Anti(y.p, y.L)) = [i \in 1..Len(y.p) |-> y.L * y.p[i]]     \* F' = L p
PolyCases ==
     { [kind |-> "polynomial", class |-> "newton_cycle", n |-> 1, m |-> <<y.cyc[1]>> \o y.p, obj |-> "root",
        k |-> y.period, calls |-> Calls(<<"newtonRoot">>, 1)] : y \in Polys }
  \cup { [kind |-> "polynomial", class |-> "newton_cycle", n |-> 1, m |-> <<y.cyc[1]>> \o Anti(y.p, y.L), obj |-> "crit",
        k |-> y.period, calls |-> Calls(<<"newtonCrit">>, 1)] : y \in Polys }

(* ------------------------------------------------- restricted domains *)
(* The objective sum x_i^2 is only defined for x_i >= 1/2 (its minimiser   *)
(* lies outside); outside the domain it returns an error (domain_error) or *)
(* NaN (domain_nan).  Started inside (x0 = x0n/x0d in every coordinate),   *)
(* so that several iterations succeed before the boundary is hit - the     *)
(* routine must then come back, whatever happened before.  bfgs is also    *)
(* started with the initial Hessians h I, h = hn/hd: a well scaled one     *)
(* makes the first updates succeed before the line search fails for the    *)
(* updated AND the reset matrix.  m = <<x0n, x0d, hn, hd>>.                *)
DomainStarts   == { <<3, 1>>, <<1, 1>>, <<3, 4>>, <<10, 1>> }
DomainHessians == { <<5, 2>>, <<4, 1>>, <<10, 1>>, <<1, 2>> }
DomainRoutines == <<"lineSearch", "rprop", "gradientDescent", "newtonRoot", "newtonCrit", "newtonMin", "bfgs", "adam",
                    "rpropGradient", "adamGradient">>
DomainCases ==
     { [kind |-> "objective", class |-> cl, n |-> n, m |-> <<x[1], x[2], 1, 1>>, obj |-> cl, k |-> 0,
        calls |-> Calls(DomainRoutines, n)] : cl \in {"domain_error", "domain_nan"}, n \in 1..2, x \in DomainStarts }
  \cup { [kind |-> "objective", class |-> cl, n |-> n, m |-> <<x[1], x[2], h[1], h[2]>>, obj |-> cl, k |-> 0,
        calls |-> Calls(<<"bfgs">>, n)] : cl \in {"domain_error", "domain_nan"}, n \in 1..2, x \in DomainStarts, h \in DomainHessians }

(* ------------------------------------------------- line search options *)
(* lineSearch.Run(phi, Parameters{Alpha1, MaxEval}, Constraints{c}): the   *)
(* first trial step Alpha1 = a1n/a1d ranges over dyadic AND non-dyadic     *)
(* values (the step-length arithmetic of the constraint back-off must      *)
(* terminate for every mantissa), the feasible region is                   *)
(*   le      alpha <= Alpha1 * bn/bd : for bn/bd = 1, 2, 4, 8 the region   *)
(*           ends EXACTLY at the first accepted step or one of its         *)
(*           expansions (steps are doubled), 137/100 and 1/2 put the       *)
(*           boundary strictly between / below trial steps;                *)
(*   lt      alpha <  Alpha1 * bn/bd;                                      *)
(*   never   empty;      only_zero   alpha = 0 only.                       *)
(* Objectives: neg_linear phi = -alpha (every step is accepted and         *)
(* expanded), far_quadratic (alpha/Alpha1 - 10)^2 (a few expansions, then  *)
(* zoom), quadratic (alpha - 1)^2.  The call must return (a step or an     *)
(* error) within the budget.                                               *)
Alpha1s  == { <<1,1>>, <<1,2>>, <<1,10>>, <<3,10>>, <<7,10>>, <<11,10>>, <<23,10>>, <<1,3>>, <<1,1000>>, <<370000,1>> }
LsRegions == { <<"le", 1, 1>>, <<"le", 2, 1>>, <<"le", 4, 1>>, <<"le", 8, 1>>, <<"le", 137, 100>>, <<"le", 1, 2>>,
               <<"lt", 1, 1>>, <<"lt", 2, 1>>, <<"never", 0, 1>>, <<"only_zero", 0, 1>> }
LsObjectives == {"neg_linear", "far_quadratic", "quadratic"}
LsCase(a, g, o, me) == [kind |-> "linesearch", class |-> "ls_" \o g[1], n |-> 1,
                        m |-> <<a[1], a[2], g[2], g[3], me>>, obj |-> o, k |-> 0,
                        calls |-> Calls(<<"lineSearch">>, 1)]

(* -------------------------------------------------------------- output *)
VARIABLE c
Init == \/ \E x \in Int1 \cup Int2 \cup Int3 \cup Int4 \cup Structured : c = MatrixCase(x)
        \/ \E o \in ObjClasses, n \in 1..2 : c = ObjCase(o, n)
        \/ \E x \in EpsCases : c = x
        \/ \E x \in PolyCases \cup DomainCases : c = x
        \/ \E a \in Alpha1s, g \in LsRegions, o \in LsObjectives, me \in {20, 1} : c = LsCase(a, g, o, me)
Next == UNCHANGED c
Spec == Init /\ [][Next]_c
Emit == PrintT(ToJson(c))

(* budgets are polynomial and never below the constant term *)
BudgetOK == \A k \in 1..Len(c.calls) : c.calls[k].b >= BMin /\ c.calls[k].b <= BMin + 50 * Cube(c.n)
=============================================================================
