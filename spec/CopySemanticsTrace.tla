------------------------- MODULE CopySemanticsTrace -------------------------
(***************************************************************************)
(* Trace validation (code -> model) for C12 part A.                        *)
(* harness/cmd/copysem `record' drives the REAL scalars / vectors /        *)
(* matrices / iterators through seeded random histories (larger objects,   *)
(* nested views, up to 8 live objects) and logs, per call, the step and    *)
(* the observed content of EVERY live object (values, derivative codes,    *)
(* dimensions, iterator positions).  Every event must be the Effect of     *)
(* CopySemantics for the logged arguments and the logged observation must  *)
(* equal the content of the heap model.  All arguments are logged, the     *)
(* search is linear.                                                       *)
(***************************************************************************)
EXTENDS CopySemantics

Trace == ndJsonDeserialize("copysem_trace.ndjson")

VARIABLE l
tvars == <<objs, mem, ph, hist, l>>
Ev == Trace[l]

TMake == /\ l <= Len(Trace) /\ Ev.e = "make"
         /\ objs' = <<Obj(Ev.k, "", Ev.r, Ev.c, [p \in 1..Len(Ev.vals) |-> p], FALSE, FALSE, "own", 0, 0, "make", <<>>, {1})>>
         /\ mem' = [p \in 1..Len(Ev.vals) |-> Cell(Ev.vals[p], 0)]
         /\ l' = l + 1 /\ UNCHANGED <<ph, hist>>

TCall == /\ l <= Len(Trace) /\ Ev.e = "call"
         /\ Assert(Ev.st.s \in 1..Len(objs), <<"recorder: no such object", l>>)
         /\ Assert(Legal(objs, mem, Ev.st), <<"recorder emitted a call the contract does not constrain", l, Ev.st>>)
         /\ LET ef == Effect(objs, mem, Ev.st) IN
              /\ ef.res = Ev.res               \* content of a probe's result
              /\ objs' = ef.O /\ mem' = ef.M
         /\ l' = l + 1 /\ UNCHANGED <<ph, hist>>

TraceInit == /\ objs = <<>> /\ mem = <<>> /\ ph = [pre |-> 0, nm |-> 0] /\ hist = <<>> /\ l = 1
TraceNext == TMake \/ TCall
TraceSpec == TraceInit /\ [][TraceNext]_tvars

(* a sparse container need not store an element that is zero in value and  *)
(* in all derivatives; once dropped, the element reports order 0 / N 0     *)
(* (also after a later plain write, and in every copy made of it).  For    *)
(* sparse objects the recorder logs d = -2 for "order 0, N 0", which       *)
(* matches every all-zero derivative code; while a sparse object is alive  *)
(* in the history, a dense object may show such an element as a constant.  *)
CellObsOK(ov, od, cv, cd, anySparse) ==
  ov = cv /\ (od = cd \/ (cd % 100 = 0 /\ (od = -2 \/ (anySparse /\ od = 0))))
ObjObsOK(ob, ct, anySparse) ==
  /\ ob.k = ct.k /\ ob.of = ct.of /\ ob.r = ct.r /\ ob.c = ct.c /\ ob.fl = ct.fl /\ ob.pt = ct.pt
  /\ ob.pos = ct.pos
  /\ Len(ob.v) = Len(ct.v) /\ Len(ob.d) = Len(ct.d)
  /\ \A p \in 1..Len(ct.v) : CellObsOK(ob.v[p], ob.d[p], ct.v[p], ct.d[p], anySparse)
ObsOK ==
  l > 1 => LET ob == Trace[l-1].obs  ct == AllContent(objs, mem) IN
           /\ Len(ob) = Len(ct)
           /\ \A x \in 1..Len(ct) : ObjObsOK(ob[x], ct[x], \E y \in 1..Len(ob) : ob[y].sp)
           \* the share sets projected from the real objects (reflect walk): common storage of two
           \* live objects lies in storage the heap model lets them both reach
           /\ \A i \in 1..Len(Trace[l-1].sh) :
                LET e == Trace[l-1].sh[i] IN
                \E j \in 1..Len(e.w) : e.w[j] \in ShareSet(objs, e.a, e.b)

TraceAccepted ==
  IF TLCGet("stats").diameter - 1 = Len(Trace) THEN TRUE
  ELSE Print(<<"TRACE_REJECTED_AT", TLCGet("stats").diameter, "OF", Len(Trace)>>, FALSE)
=============================================================================
