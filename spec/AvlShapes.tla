------------------------------ MODULE AvlShapes ------------------------------
(***************************************************************************)
(* Structural invariant of C19 evaluated by TLC on every DISTINCT real     *)
(* tree shape the replay driver met while executing the TLC-generated      *)
(* cases of AvlTree.tla (shapes.ndjson, one shape per line).               *)
(***************************************************************************)
EXTENDS Integers, Sequences, FiniteSets, FiniteSetsExt, TLC, Json
Shapes == ndJsonDeserialize("avl_shapes.ndjson")
VARIABLE n
IsLeaf(t) == t.nil
RECURSIVE KeysOfShape(_)
KeysOfShape(t) == IF IsLeaf(t) THEN {} ELSE KeysOfShape(t.l) \cup {t.v} \cup KeysOfShape(t.r)
RECURSIVE HeightOfShape(_)
HeightOfShape(t) == IF IsLeaf(t) THEN 0 ELSE 1 + Max({HeightOfShape(t.l), HeightOfShape(t.r)})
RECURSIVE IsAvlShape(_)
IsAvlShape(t) ==
  IsLeaf(t) \/ ( /\ t.b = HeightOfShape(t.r) - HeightOfShape(t.l)
                 /\ t.b \in -1..1
                 /\ t.pok
                 /\ ~t.del
                 /\ \A a \in KeysOfShape(t.l) : a < t.v
                 /\ \A c \in KeysOfShape(t.r) : c > t.v
                 /\ IsAvlShape(t.l) /\ IsAvlShape(t.r) )
Init == n = 1
Next == n <= Len(Shapes) /\ n' = n + 1
Spec == Init /\ [][Next]_n
ShapeOK == n <= Len(Shapes) => IsAvlShape(Shapes[n].shape)
AllSeen == IF TLCGet("stats").diameter - 1 = Len(Shapes) THEN TRUE
           ELSE Print(<<"SHAPE_REJECTED_AT", TLCGet("stats").diameter>>, FALSE)
=============================================================================
