--------------------------- MODULE ScalarTypesTrace ---------------------------
(***************************************************************************)
(* Trace validation (code -> model) for property C02: the INTEGER and      *)
(* CONVERSION semantics of the sixteen scalar types, exactly.              *)
(*                                                                         *)
(* The recorder (harness/cmd/scalartypes record) drives seeded random      *)
(* operation sequences over a pool of scalars of all types; a slot changes *)
(* its type when it is overwritten by the result of a conversion, a clone  *)
(* or a registry constructor, so values drift through conversions.  One    *)
(* event per call: operation, slots, target type, and the value read back  *)
(* from the real scalar (exact bit pattern classified to the value domain  *)
(* of ScalarTypes.tla; "opq" for floats the domain cannot name).           *)
(*                                                                         *)
(* The specification keeps its OWN pool (type and value per slot), computes *)
(* every result from it with the contract operators of ScalarTypes.tla and  *)
(* demands that the logged result is that value.  Where the contract says   *)
(* nothing (implementation-defined conversions, unconstrained cases, the    *)
(* finite result of a floating-point Add/Sub/Mul/Div - that is the job of   *)
(* the meaning terms in the replay direction) the logged value is adopted,  *)
(* provided the slot's type can hold it.                                    *)
(***************************************************************************)
EXTENDS ScalarTypes, Json

Trace == ndJsonDeserialize("scalartypes_trace.ndjson")

VARIABLES l,        \* next event
          pool      \* pool[i] = [t |-> type, v |-> value]
tvars == <<l, pool>>

Ev == Trace[l]
TyOf(i) == pool[i].t
ValOf(i) == pool[i].v
ViewOf(R, i) == View(R, TyOf(i), ValOf(i))

Unconstrained(e) == e.k \in {"opq", "idef", "any"}
\* does the logged result agree with what the contract demands?
Agrees(exp, out) ==
  \/ Unconstrained(exp)
  \/ exp.k = "panic"
  \/ exp = out
  \/ exp = VZero /\ IsZeroV(out)                 \* "a zero": the contract leaves its sign open
  \/ exp = VTok("pzero") /\ out = VZero
\* the value a slot of type T holds after the logged result out
Adopt(T, out) == out
CanHold(T, out) == out.k = "opq" \/ Holds(T, out)

RingOps == {"Add", "Sub", "Mul", "Div", "Min", "Max"}
RingExpT(op, R, x, y) ==
  IF Cls(R) = "int" /\ op = "Div" /\ y = VZero THEN PanicRes
  ELSE IF x.k = "idef" \/ y.k = "idef" THEN IDef
  ELSE IF x.k = "opq" \/ y.k = "opq" THEN Opq
  ELSE IF op = "Min" THEN MinRes(x, y)
  ELSE IF op = "Max" THEN MaxRes(x, y)
  ELSE IF Cls(R) = "int" THEN IntRing(op, R, x, y)
  ELSE LET s == Special2(op, x, y) IN IF s # NoSpecial THEN s ELSE Opq     \* finite result: not demanded here

\* operations that write the receiver slot r (its type stays)
TWrite ==
  /\ Ev.e \in {"Set", "Neg", "Abs"} \cup RingOps
  /\ LET R == TyOf(Ev.r)
         exp == IF Ev.e \in RingOps THEN RingExpT(Ev.e, R, ViewOf(R, Ev.a), ViewOf(R, Ev.b))
                ELSE UnaryExact(Ev.e, R, ValOf(Ev.a), ViewOf(R, Ev.a))
     IN /\ R \in WritableTypes
        /\ Agrees(exp, Ev.out)
        /\ pool' = IF Ev.out.k = "panic" THEN pool
                   ELSE [pool EXCEPT ![Ev.r] = [t |-> R, v |-> Ev.out]]
        /\ (Ev.out.k # "panic" => CanHold(R, Ev.out))

\* SetInt8 .. SetFloat64 with a literal x of base type Ev.base
TSetter ==
  /\ Ev.e = "Setter"
  /\ LET R == TyOf(Ev.r) IN
     /\ R \in WritableTypes
     /\ Agrees(Convert(Ev.base, R, Ev.x), Ev.out)
     /\ CanHold(R, Ev.out)
     /\ pool' = [pool EXCEPT ![Ev.r] = [t |-> R, v |-> Ev.out]]

\* read-only observations
TGet == /\ Ev.e = "Get"
        /\ Agrees(Convert(TyOf(Ev.a), Ev.base, ValOf(Ev.a)), Ev.out)
        /\ UNCHANGED pool
TCmp == /\ Ev.e \in {"Greater", "Smaller"}
        /\ LET x == ValOf(Ev.a)  y == ViewOf(TyOf(Ev.a), Ev.b)
               exp == IF x.k = "opq" \/ y.k = "opq" THEN Opq
                      ELSE IF Ev.e = "Greater" THEN GreaterRes(x, y) ELSE SmallerRes(x, y)
           IN Agrees(exp, Ev.out)
        /\ UNCHANGED pool
TSign == /\ Ev.e = "Sign"
         /\ Agrees(IF ValOf(Ev.a).k = "opq" THEN Opq ELSE SignRes(ValOf(Ev.a)), Ev.out)
         /\ UNCHANGED pool

\* conversions, clones, registry constructors: slot r is REPLACED by the result (type Ev.tt demanded)
ConvOps == {"ConvertScalar", "ConvertConstScalar", "ConvertMagicScalar"}
CloneOps == {"CloneScalar", "CloneConstScalar", "CloneMagicScalar"}
Allowed(op, T1, T2) ==
  CASE op \in {"ConvertConstScalar", "CloneConstScalar"} -> TRUE
    [] op \in {"ConvertScalar", "CloneScalar"} -> T1 \in WritableTypes /\ T2 \in WritableTypes
    [] op \in {"ConvertMagicScalar", "CloneMagicScalar"} -> T1 \in MagicTypes /\ T2 \in MagicTypes
TReplace ==
  /\ Ev.e \in ConvOps \cup CloneOps
  /\ LET T1 == TyOf(Ev.a)
         T2 == IF Ev.e \in CloneOps THEN T1 ELSE Ev.tt
         exp == IF ~Allowed(Ev.e, T1, T2) THEN PanicRes ELSE Convert(T1, T2, ValOf(Ev.a))
     IN /\ Agrees(exp, Ev.out)
        /\ IF Ev.out.k = "panic" THEN UNCHANGED pool
           ELSE /\ Ev.ty = T2                        \* dynamic type of the result
                /\ CanHold(T2, Ev.out)
                /\ pool' = [pool EXCEPT ![Ev.r] = [t |-> T2, v |-> Ev.out]]
TNew ==
  /\ Ev.e \in {"NewScalar", "NewConstScalar", "NewMagicScalar"}
  /\ LET T2 == Ev.tt
         ok == CASE Ev.e = "NewConstScalar" -> TRUE
                 [] Ev.e = "NewScalar" -> T2 \in WritableTypes
                 [] Ev.e = "NewMagicScalar" -> T2 \in MagicTypes
         exp == IF ~ok THEN PanicRes ELSE Convert("float64", T2, Ev.x)
     IN /\ Agrees(exp, Ev.out)
        /\ IF Ev.out.k = "panic" THEN UNCHANGED pool
           ELSE /\ Ev.ty = T2
                /\ CanHold(T2, Ev.out)
                /\ pool' = [pool EXCEPT ![Ev.r] = [t |-> T2, v |-> Ev.out]]

\* a new trace: the recorder lists the initial pool (typed constructors); every entry must be
\* a value its type can hold
TInit ==
  /\ Ev.e = "init"
  /\ \A i \in 1..Len(Ev.pool) : Ev.pool[i].t \in AllTypes /\ CanHold(Ev.pool[i].t, Ev.pool[i].v)
  /\ pool' = Ev.pool

TraceInit == l = 1 /\ pool = <<>>
TraceNext == /\ l <= Len(Trace)
             /\ l' = l + 1
             /\ (TInit \/ TWrite \/ TSetter \/ TGet \/ TCmp \/ TSign \/ TReplace \/ TNew)
TraceSpec == TraceInit /\ [][TraceNext]_tvars

TraceAccepted ==
  IF TLCGet("stats").diameter - 1 = Len(Trace) THEN TRUE
  ELSE Print(<<"TRACE_REJECTED_AT", TLCGet("stats").diameter, "OF", Len(Trace)>>, FALSE)
=============================================================================
