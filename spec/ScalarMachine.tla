---------------------------- MODULE ScalarMachine ----------------------------
(***************************************************************************)
(* CONTRACT layer of the scalar engine (property C01): a register machine  *)
(* whose registers hold the library's scalars and whose actions are the    *)
(* scalar method calls  r.Op(a), r.Op(a, b), r.Op(p, a), r.Op(vector).     *)
(*                                                                         *)
(* Register kinds (desc[k][1]):                                            *)
(*   "var"    magic scalar activated as the k-th independent variable      *)
(*            (Variables(order, x_1..x_n)); content X(k)                   *)
(*   "tmp"    magic scalar used as receiver / temporary, REUSED across     *)
(*            steps; initial content 0; may be RE-ACTIVATED as a variable  *)
(*   "const"  ConstFloat64 operand, "plain" Float64 operand (non-magic),   *)
(*   "magic0" magic scalar that was never activated (order 0);             *)
(*            content a constant term                                      *)
(* The abstract content of a register is the symbolic term (Expr.tla) of    *)
(* its value as a function of x_1..x_n.  The post-state is computed from    *)
(* the pre-state; the receiver is always a "tmp" register distinct from the *)
(* operands (receiver aliasing is property C08), operands are free.         *)
(*                                                                         *)
(* Case generation (model -> code, path mode): the call history is part of  *)
(* the state, so every program of at most MaxDepth calls is one state; the  *)
(* invariant EmitCase prints the program, the evaluation points, and the    *)
(* value / gradient / Hessian TERMS the specification demands of the last   *)
(* receiver, plus the syntactic dependence flags (exact-zero slots).       *)
(* The operation table is partitioned into families (FamDef) so that one   *)
(* TLC run stays small; a family fixes operations, constant registers and   *)
(* evaluation points (rationals inside the operations' domains plus the     *)
(* named branch boundaries).                                               *)
(***************************************************************************)
EXTENDS Expr, Json

CONSTANTS Fams,       \* families explored by this run
          NSet,       \* admissible numbers of independent variables
          MaxDepth,   \* longest program
          Shallow,    \* families explored one call less deep
          Emit        \* print one replay case per program

VARIABLES fam,        \* family of this behaviour
          n,          \* number of independent variables
          desc,       \* register descriptors <<kind, initial term>>
          reg,        \* register contents (terms)
          dev,        \* contents under the known deviations (KnownDeviation_*)
          guard,      \* local derivatives of the calls made so far (see Guard)
          flow,       \* flow[k]: the variables whose registers were (transitively) read to compute register k
          hist        \* the program so far: sequence of calls

vars == <<fam, n, desc, reg, dev, guard, flow, hist>>

NT == 2       \* temporaries

R(a, b) == <<a, b>>     \* a rational point n/d (negative numerators are fine here, not in a cfg)

(* ------------------------------------------------------------- families *)
NoOps == {}
FamDef(f) ==
  CASE f = "arith" ->
         [un |-> {"Neg", "Sqrt"}, bin |-> {"Add", "Sub", "Mul", "Div"}, par |-> {}, red |-> {},
          un1 |-> {}, bin1 |-> {}, cap |-> 3,
          consts |-> << <<"const", QI(2)>>, <<"magic0", QF(-3, 2)>> >>,
          pts1 |-> <<R(-3, 4), R(1, 2), R(2, 1)>>, pts2 |-> <<R(1, 2), R(-5, 4)>>]
    [] f = "pow" ->
         [un |-> {}, bin |-> {"Pow"}, par |-> {}, red |-> {}, un1 |-> {}, bin1 |-> {}, cap |-> 2,
          consts |-> << <<"const", QI(1)>>, <<"plain", QI(2)>>, <<"magic0", Half>>, <<"const", QI(0)>>,
                        <<"magic0", QI(3)>>, <<"plain", QI(-1)>> >>,
          pts1 |-> <<R(0, 1), R(1, 2), R(2, 1), R(-1, 1)>>, pts2 |-> <<R(1, 2), R(2, 1)>>]
    [] f = "trig" ->
         [un |-> {"Sin", "Cos", "Tan", "Sinh", "Cosh", "Tanh"}, bin |-> {"Mul", "Add"}, par |-> {}, red |-> {},
          un1 |-> {}, bin1 |-> {}, cap |-> 3,
          consts |-> << <<"plain", QF(3, 2)>>, <<"magic0", QF(-1, 2)>> >>,
          pts1 |-> <<R(-3, 4), R(1, 2), R(5, 4)>>, pts2 |-> <<R(1, 4), R(-2, 1)>>]
    [] f = "explog" ->
         [un |-> {"Exp", "Log", "Log1p"}, bin |-> {"Mul", "Sub", "Div"},
          par |-> {}, red |-> {}, un1 |-> {}, bin1 |-> {}, cap |-> 3,
          consts |-> << <<"const", QF(1, 2)>>, <<"magic0", QI(2)>> >>,
          pts1 |-> <<R(-1, 2), R(0, 1), R(1, 2), R(3, 2), R(5, 1)>>, pts2 |-> <<R(1, 2), R(-3, 4)>>]
    [] f = "softplus" ->
         \* Log1pExp has thresholds at -37, 18 and 33.3 (four formulas), Sigmoid splits at 0:
         \* a ladder of points across all pieces, each threshold with a point on either side
         [un |-> {"Log1pExp", "Logistic", "Sigmoid"}, bin |-> {"Sub"},
          par |-> {}, red |-> {}, un1 |-> {}, bin1 |-> {}, cap |-> 2,
          consts |-> << <<"plain", QF(1, 2)>>, <<"magic0", QI(-2)>> >>,
          pts1 |-> <<R(-38, 1), R(-37, 1), R(-73, 2), R(-20, 1), R(-5, 1), R(-1, 2), R(0, 1), R(1, 2), R(3, 2),
                     R(5, 1), R(9, 1), R(13, 1), R(35, 2), R(18, 1), R(37, 2), R(20, 1), R(25, 1), R(33, 1),
                     R(333, 10), R(67, 2), R(34, 1)>>,
          pts2 |-> <<R(1, 2), R(-3, 1)>>]
    [] f = "special" ->
         [un |-> {"Erf", "Erfc", "LogErfc", "Gamma", "Lgamma"}, bin |-> {"Mul", "Add"}, par |-> {}, red |-> {},
          un1 |-> {}, bin1 |-> {}, cap |-> 3,
          consts |-> << <<"const", QF(3, 2)>>, <<"magic0", QF(1, 2)>> >>,
          \* digamma / trigamma switch algorithms at -1, 0, 1, 2, 4 and 10
          pts1 |-> <<R(-3, 2), R(-1, 2), R(1, 2), R(3, 2), R(3, 1), R(6, 1), R(12, 1)>>, pts2 |-> <<R(3, 4), R(2, 1)>>]
    [] f = "special2" ->
         [un |-> {}, bin |-> {"Mul"},
          par |-> {<<"Mlgamma", 1, 1>>, <<"Mlgamma", 3, 1>>,
                   <<"GammaP", 5, 2>>, <<"GammaP", 1, 1>>,
                   <<"BesselI", 0, 1>>, <<"BesselI", 1, 2>>, <<"BesselI", 5, 2>>,
                   <<"LogBesselI", 0, 1>>, <<"LogBesselI", 2, 1>>, <<"LogBesselI", 1, 2>>},
          red |-> {}, un1 |-> {}, bin1 |-> {}, cap |-> 2,
          consts |-> << <<"plain", QI(2)>>, <<"magic0", QF(3, 2)>> >>,
          pts1 |-> <<R(1, 2), R(3, 2), R(4, 1)>>, pts2 |-> <<R(5, 4), R(3, 1)>>]
    [] f = "branch" ->
         [un |-> {"Abs"}, bin |-> {"Min", "Max", "LogAdd", "LogSub"}, par |-> {}, red |-> {},
          un1 |-> {}, bin1 |-> {}, cap |-> 3,
          consts |-> << <<"const", NInf>>, <<"magic0", NInf>> >>,
          pts1 |-> <<R(-3, 2), R(0, 1), R(1, 2), R(2, 1)>>, pts2 |-> <<R(0, 1), R(1, 2), R(-1, 1)>>]
    [] f = "reduce" ->
         [un |-> {"Exp"}, bin |-> {"Mul"}, par |-> {},
          red |-> {"Vmean", "VdotV", "Vnorm", "SmoothMax", "LogSmoothMax", "Mtrace", "Mnorm"},
          un1 |-> {}, bin1 |-> {}, cap |-> 2,
          consts |-> << <<"const", QI(2)>>, <<"magic0", QF(1, 2)>> >>,
          pts1 |-> <<R(1, 2), R(3, 2), R(3, 1)>>, pts2 |-> <<R(5, 4), R(1, 4)>>]
    [] f = "mix" ->
         \* every operation applied to a NONLINEAR inner result: exercises each
         \* operation's full chain rule (Hessian of the operand times f', cross terms)
         [un |-> UnaryOps, bin |-> BinaryOps, par |-> {<<"Mlgamma", 2, 1>>, <<"GammaP", 5, 2>>, <<"BesselI", 1, 2>>,
                                                       <<"LogBesselI", 1, 1>>},
          red |-> {}, un1 |-> {"Exp"}, bin1 |-> {"Mul", "Div"}, cap |-> 2,
          consts |-> << <<"const", QF(3, 2)>>, <<"magic0", QF(1, 2)>> >>,
          pts1 |-> <<R(1, 2), R(5, 4)>>, pts2 |-> <<R(3, 4), R(3, 2)>>]

    (* small families for the programs of three calls *)
    [] f = "d3trig" ->
         [un |-> {"Sin", "Exp"}, bin |-> {"Mul"}, par |-> {}, red |-> {}, un1 |-> {}, bin1 |-> {}, cap |-> 3,
          consts |-> << <<"const", QF(3, 2)>>, <<"magic0", QF(-1, 2)>> >>,
          pts1 |-> <<R(-3, 4), R(1, 2)>>, pts2 |-> <<R(1, 4), R(-5, 4)>>]
    [] f = "d3log" ->
         [un |-> {"Log", "Sqrt"}, bin |-> {"Div"}, par |-> {}, red |-> {}, un1 |-> {}, bin1 |-> {}, cap |-> 3,
          consts |-> << <<"plain", QF(3, 2)>>, <<"magic0", QI(2)>> >>,
          pts1 |-> <<R(1, 2), R(9, 4)>>, pts2 |-> <<R(3, 4), R(3, 1)>>]
    [] f = "d3hyp" ->
         [un |-> {"Tanh", "Lgamma"}, bin |-> {"Add"}, par |-> {}, red |-> {}, un1 |-> {}, bin1 |-> {}, cap |-> 3,
          consts |-> << <<"const", QF(1, 2)>>, <<"magic0", QF(5, 4)>> >>,
          pts1 |-> <<R(1, 2), R(7, 4)>>, pts2 |-> <<R(3, 4), R(2, 1)>>]
    [] f = "d3branch" ->
         [un |-> {"Abs", "Log1pExp"}, bin |-> {"LogAdd"}, par |-> {}, red |-> {}, un1 |-> {}, bin1 |-> {}, cap |-> 3,
          consts |-> << <<"const", QI(-19)>>, <<"magic0", NInf>> >>,
          pts1 |-> <<R(-3, 2), R(0, 1), R(37, 2)>>, pts2 |-> <<R(1, 2), R(-20, 1)>>]
    [] f = "d3erf" ->
         [un |-> {"Erf", "Gamma"}, bin |-> {"Sub"}, par |-> {}, red |-> {}, un1 |-> {}, bin1 |-> {}, cap |-> 3,
          consts |-> << <<"plain", QF(1, 2)>>, <<"magic0", QF(3, 2)>> >>,
          pts1 |-> <<R(1, 2), R(5, 4)>>, pts2 |-> <<R(3, 4), R(9, 4)>>]
    [] f = "d3pow" ->
         [un |-> {"Neg", "Sigmoid"}, bin |-> {"Pow"}, par |-> {}, red |-> {}, un1 |-> {}, bin1 |-> {}, cap |-> 3,
          consts |-> << <<"const", QI(2)>>, <<"magic0", QF(1, 2)>> >>,
          pts1 |-> <<R(0, 1), R(3, 2)>>, pts2 |-> <<R(1, 2), R(2, 1)>>]

Alphas == {Rat(2, 1)}        \* SmoothMax / LogSmoothMax sharpness

(* ------------------------------------------------------------ registers *)
Vars      == 1..n
Temps     == (n + 1)..(n + NT)
FirstTmp  == n + 1
NRegs     == Len(desc)
ConstRegs == (n + NT + 1)..NRegs
Written(t) == \E k \in 1..Len(hist) : hist[k].r = t
(* operands of a call with receiver r: variables, constants, and temporaries   *)
(* other than r that hold a result                                             *)
Operands(r) == Vars \cup ConstRegs \cup {t \in Temps : t # r /\ Written(t)}
Receivers == IF hist = <<>> THEN {FirstTmp} ELSE Temps   \* temporaries are interchangeable before the first call

InitDesc(f, m) ==
  [k \in 1..m |-> <<"var", X(k)>>] \o [k \in 1..NT |-> <<"tmp", Zero>>] \o FamDef(f).consts

ReductionOps == {"Vmean", "VdotV", "Vnorm", "SmoothMax", "LogSmoothMax", "Mtrace", "Mnorm"}
Wanted == IF fam \in Shallow THEN MaxDepth - 1 ELSE MaxDepth
Depth == IF FamDef(fam).cap < Wanted THEN FamDef(fam).cap ELSE Wanted
(* a reduction ends the program (its result is not fed into further calls) *)
More  == Len(hist) < Depth /\ (IF hist = <<>> THEN TRUE ELSE hist[Len(hist)].op \notin ReductionOps)

(* ---------------------------------------------------------------- actions *)
Call(op, r, a, b, p) == [op |-> op, r |-> r, a |-> a, b |-> b, p |-> p]

(* The property demands derivatives "up to the rounding error of a             *)
(* well-conditioned evaluation" and exact zeros "where every intermediate        *)
(* derivative is finite".  Guard collects, for every call, the first and second  *)
(* partial derivatives of the called operation with respect to its operands      *)
(* (as terms over the operand terms).  A point at which one of them is not       *)
(* finite (sqrt at 0, x^y at x = 0, the norm of the zero vector, ...) is a         *)
(* singular point: only the value is demanded there.  m = number of operands;    *)
(* for m > 2 the mixed second partials are left out (they are singular where the *)
(* diagonal ones are, for the reductions of this library).                       *)
RECURSIVE AddNew(_, _)
AddNew(g, ts) == IF ts = <<>> THEN g
                 ELSE LET t == Head(ts)
                          g1 == IF IsConst(t) \/ t[1] = "x" \/ t[1] = "z" \/ (\E k \in 1..Len(g) : g[k] = t) THEN g ELSE Append(g, t)
                      IN AddNew(g1, Tail(ts))
LocalPartials(M, m) ==
  LET f == [k \in 1..m |-> D(M, 100 + k)] IN
  IF m = 1 THEN <<f[1], D(f[1], 101)>>
  ELSE IF m = 2 THEN <<f[1], f[2], D(f[1], 101), D(f[1], 102), D(f[2], 102)>>
  ELSE f \o [k \in 1..m |-> D(f[k], 100 + k)]
Relevant(ts) == SelectSeq(ts, LAMBDA t : ~IsConst(t) /\ t[1] # "x" /\ t[1] # "z")
GuardOf(M, ops) == LET ts == Relevant(LocalPartials(M, Len(ops)))
                   IN AddNew(guard, [k \in 1..Len(ts) |-> Subst(ts[k], ops)])

Store(r, e, edev, g, c) ==
  /\ reg'  = [reg EXCEPT ![r] = e]
  /\ dev'  = [dev EXCEPT ![r] = edev]
  /\ guard' = g
  /\ flow' = [flow EXCEPT ![r] = UNION ({flow[c.a[k]] : k \in 1..Len(c.a)} \cup {flow[c.b[k]] : k \in 1..Len(c.b)})]
  /\ hist' = Append(hist, c)
  /\ UNCHANGED <<fam, n, desc>>

(* an operand register into which no variable ever flowed is a constant of the     *)
(* call: no derivative is propagated through it (the library takes its             *)
(* constant-operand path, e.g. Pow with a constant exponent), so it is not         *)
(* differentiated against.  Data flow, not term syntax, decides: x^0 is the term 1  *)
(* but its register carries (zero) derivative slots.                                *)
Loc(k, a)  == IF flow[a] = {} THEN reg[a] ELSE Y(k)

Unary(op, r, a) ==
  Store(r, Meaning1(op, reg[a]), Meaning1(op, dev[a]), GuardOf(Meaning1(op, Loc(1, a)), <<reg[a]>>),
        Call(op, r, <<a>>, <<>>, <<>>))

Binary(op, r, a, b) ==
  Store(r, Meaning2(op, reg[a], reg[b]), Meaning2(op, dev[a], dev[b]),
        GuardOf(Meaning2(op, Loc(1, a), Loc(2, b)), <<reg[a], reg[b]>>), Call(op, r, <<a, b>>, <<>>, <<>>))

Param(op, pn, pd, r, a) ==
  Store(r, MeaningP(op, Rat(pn, pd), reg[a]), MeaningP(op, Rat(pn, pd), dev[a]),
        GuardOf(MeaningP(op, Rat(pn, pd), Loc(1, a)), <<reg[a]>>), Call(op, r, <<a>>, <<>>, <<pn, pd>>))

(* RE-ACTIVATION.  After any non-empty prefix of calls a temporary that holds a  *)
(* result (of order 0, or of the program's order in n variables) is               *)
(* declared variable i of n again: SetVariable(i, n, order), Variables(order) on  *)
(* a list containing it, or ResetDerivatives + SetDerivative(i, 1) (the driver    *)
(* runs all three).  The contract: the value is kept, the gradient is the unit    *)
(* vector e_i, the Hessian is zero - the register is a fresh leaf that shares     *)
(* the derivative slot of variable i; nothing of the result it held may survive.  *)
Activate(r, i) ==
  /\ reg'  = [reg EXCEPT ![r] = ZLeaf(i, Len(hist) + 1)]
  /\ dev'  = [dev EXCEPT ![r] = ZLeaf(i, Len(hist) + 1)]
  /\ guard' = guard
  /\ flow' = [flow EXCEPT ![r] = {i}]
  /\ hist' = Append(hist, Call("Activate", r, <<>>, <<>>, <<i>>))
  /\ UNCHANGED <<fam, n, desc>>

(* reductions: the vector / matrix is built from copies of operand registers *)
VecReduce(op, r, s, t, alpha) ==
  Store(r, MeaningV(op, [k \in 1..Len(s) |-> reg[s[k]]], [k \in 1..Len(t) |-> reg[t[k]]], alpha),
           MeaningV(op, [k \in 1..Len(s) |-> dev[s[k]]], [k \in 1..Len(t) |-> dev[t[k]]], alpha),
        GuardOf(MeaningV(op, [k \in 1..Len(s) |-> Loc(k, s[k])],
                             [k \in 1..Len(t) |-> Loc(Len(s) + k, t[k])], alpha),
                [k \in 1..Len(s) |-> reg[s[k]]] \o [k \in 1..Len(t) |-> reg[t[k]]]),
        Call(op, r, s, t, IF op \in {"SmoothMax", "LogSmoothMax"} THEN <<alpha.n, alpha.d>> ELSE <<>>))

MatOf(rg, m) == [i \in 1..Len(m) |-> [j \in 1..Len(m[i]) |-> rg[m[i][j]]]]
YMat(m) == [i \in 1..Len(m) |-> [j \in 1..Len(m[i]) |-> Loc((i - 1) * Len(m[1]) + j, m[i][j])]]
MatReduce(op, r, m) ==
  Store(r, MeaningM(op, MatOf(reg, m)),
           IF op = "Mnorm" THEN KnownDeviation_Mnorm(MatOf(dev, m)) ELSE MeaningM(op, MatOf(dev, m)),
        GuardOf(MeaningM(op, YMat(m)), Flatten2(MatOf(reg, m))),
        Call(op, r, IF Len(m) = 1 THEN m[1] ELSE m[1] \o m[2], <<>>, <<Len(m), Len(m[1])>>))

C1 == n + NT + 1      \* the first constant register
Vecs(r)  == {<<a>> : a \in Operands(r)} \cup {<<a, b>> : a, b \in Operands(r)}
            \cup {<<a, 1, C1>> : a \in Operands(r)}
Vec2(r, len) == IF len = 1 THEN {<<1>>, <<C1>>}
                ELSE IF len = 2 THEN {<<1, C1>>, <<C1, n>>, <<n, 1>>}
                ELSE {<<C1, n, 1>>}
Mats(r)  == {<< <<a>> >> : a \in Operands(r)}
            \cup {<< <<a, b>>, <<1, n + NT + 1>> >> : a, b \in Operands(r)}
            \cup {<< <<a, n>>, <<NRegs, b>> >> : a, b \in Operands(r)}
            \cup {<< <<a, b>> >> : a, b \in Operands(r)}                 \* 1 x 2, Mnorm only

UnOpsNow  == IF hist = <<>> /\ FamDef(fam).un1 # {} THEN FamDef(fam).un1
             ELSE IF hist = <<>> /\ FamDef(fam).bin1 # {} THEN {} ELSE FamDef(fam).un
BinOpsNow == IF hist = <<>> /\ FamDef(fam).bin1 # {} THEN FamDef(fam).bin1
             ELSE IF hist = <<>> /\ FamDef(fam).un1 # {} THEN {} ELSE FamDef(fam).bin
ParOpsNow == IF hist = <<>> /\ (FamDef(fam).un1 # {} \/ FamDef(fam).bin1 # {}) THEN {} ELSE FamDef(fam).par
RedOpsNow == FamDef(fam).red

Init == /\ fam \in Fams
        /\ n \in NSet
        /\ desc = InitDesc(fam, n)
        /\ reg = [k \in 1..Len(desc) |-> desc[k][2]]
        /\ dev = reg
        /\ guard = <<>>
        /\ flow = [k \in 1..Len(desc) |-> IF k <= n THEN {k} ELSE {}]
        /\ hist = <<>>

Next ==
  /\ More
  /\ \E r \in Receivers :
       \/ \E i \in Vars : Written(r) /\ Activate(r, i)
       \/ \E op \in UnOpsNow, a \in Operands(r) : Unary(op, r, a)
       \/ \E op \in BinOpsNow, a \in Operands(r), b \in Operands(r) : Binary(op, r, a, b)
       \/ \E q \in ParOpsNow, a \in Operands(r) : Param(q[1], q[2], q[3], r, a)
       \/ \E op \in RedOpsNow \cap {"Vmean", "Vnorm"}, s \in Vecs(r) :
            VecReduce(op, r, s, <<>>, Rat(1, 1))
       \/ \E op \in RedOpsNow \cap {"SmoothMax", "LogSmoothMax"}, s \in Vecs(r), al \in Alphas :
            VecReduce(op, r, s, <<>>, al)
       \/ \E op \in RedOpsNow \cap {"VdotV"}, s \in Vecs(r) : \E t \in Vec2(r, Len(s)) :
            VecReduce(op, r, s, t, Rat(1, 1))
       \/ \E op \in RedOpsNow \cap {"Mtrace", "Mnorm"}, m \in Mats(r) :
            /\ (op = "Mtrace" => Len(m) = Len(m[1]))
            /\ MatReduce(op, r, m)

Spec == Init /\ [][Next]_vars

(* ------------------------------------------------- what the contract demands *)
Result    == reg[hist[Len(hist)].r]
ResultDev == dev[hist[Len(hist)].r]

Grad(e) == IF n = 1 THEN <<D(e, 1)>>
           ELSE IF n = 2 THEN <<D(e, 1), D(e, 2)>>
           ELSE <<D(e, 1), D(e, 2), D(e, 3)>>
Hess(g) == IF n = 1 THEN << <<D(g[1], 1)>> >>
           ELSE IF n = 2 THEN << <<D(g[1], 1), D(g[1], 2)>>, <<D(g[2], 1), D(g[2], 2)>> >>
           ELSE << <<D(g[1], 1), D(g[1], 2), D(g[1], 3)>>,
                   <<D(g[2], 1), D(g[2], 2), D(g[2], 3)>>,
                   <<D(g[3], 1), D(g[3], 2), D(g[3], 3)>> >>
Deps(e) == [i \in 1..n |-> Depends(e, i)]

Jet(e) == LET g == Grad(e) IN [val |-> e, grad |-> g, hess |-> Hess(g), dep |-> Deps(e)]

(* model invariants: exact-zero slots, derivative closure, constants carry no derivative *)
JetOK(j) ==
  /\ \A i \in 1..n : ~j.dep[i] => /\ IsZero(j.grad[i])
                                   /\ \A k \in 1..n : IsZero(j.hess[i][k]) /\ IsZero(j.hess[k][i])
  /\ \A i, k \in 1..n : Depends(j.grad[i], k) => j.dep[k]
  /\ \A i, k, l \in 1..n : Depends(j.hess[i][k], l) => j.dep[l]
  /\ \A i, k \in 1..n : IsZero(j.hess[i][k]) <=> IsZero(j.hess[k][i])

ConstantsStayConstant ==
  \A k \in 1..Len(desc) : desc[k][1] \in {"const", "plain", "magic0"} => reg[k] = desc[k][2] /\ IsConst(reg[k])

Case(j, alt) ==
  [fam |-> fam, n |-> n, d |-> Len(hist), regs |-> desc, hist |-> hist,
   pts1 |-> FamDef(fam).pts1, pts2 |-> FamDef(fam).pts2,
   val |-> j.val, grad |-> j.grad, hess |-> j.hess, dep |-> j.dep, guard |-> guard, alt |-> alt]

EmitCase ==
  hist # <<>> =>
    LET j == Jet(Result)
        alt == IF ResultDev = Result THEN <<>>
               ELSE LET a == Jet(ResultDev) IN <<[val |-> a.val, grad |-> a.grad, hess |-> a.hess]>>
    IN /\ JetOK(j)
       /\ (Emit => PrintT(ToJson(Case(j, alt))))
=============================================================================
