----------------------------- MODULE ScalarTrace -----------------------------
(***************************************************************************)
(* Trace validation (code -> model) for the scalar engine, property C01.   *)
(* The Go recorder (harness/cmd/scalar record) drives the REAL Real64 /    *)
(* Real32 scalars through seeded random programs that are deeper (6..10    *)
(* calls) than the exhaustive configurations of ScalarMachine, and logs    *)
(* one event per call: the call (operation, receiver, operand registers,   *)
(* parameter) and the DISCRETE part of what it observed on the receiver    *)
(* afterwards: which gradient / Hessian slots are non-zero, whether the    *)
(* Hessian is symmetric, order and number of partial derivatives stored,   *)
(* whether any other register changed.                                     *)
(*                                                                         *)
(* Every event must be an action of ScalarMachine (receiver a temporary    *)
(* distinct from the operands, operands hold results), the machine rebuilds *)
(* the symbolic content of every register, and the logged observation must  *)
(* satisfy the contract: a derivative slot may be non-zero only for a       *)
(* variable the term depends on (exact zeros), the Hessian is symmetric,    *)
(* a result that depends on a variable carries derivatives of the requested *)
(* order for all n variables, no operand was modified.  At the events      *)
(* marked emit the specification prints the value / gradient / Hessian      *)
(* terms it demands; the harness (scalar judge) evaluates them and compares *)
(* with the recorded numbers.                                              *)
(***************************************************************************)
EXTENDS ScalarMachine

Trace == ndJsonDeserialize("scalar_trace.ndjson")

VARIABLE l          \* next event to consume

tvars == <<fam, n, desc, reg, dev, guard, flow, hist, l>>
Ev == Trace[l]

TReset ==
  /\ l <= Len(Trace) /\ Ev.e = "reset"
  /\ l' = l + 1
  /\ fam' = "trace" /\ n' = Ev.n /\ desc' = Ev.regs
  /\ reg' = [k \in 1..Len(Ev.regs) |-> Ev.regs[k][2]]
  /\ dev' = reg'
  /\ guard' = <<>>
  /\ flow' = [k \in 1..Len(Ev.regs) |-> IF k <= Ev.n THEN {k} ELSE {}]
  /\ hist' = <<>>

SeqIn(s, S) == \A k \in 1..Len(s) : s[k] \in S
WellFormed(c) ==
  /\ c.r \in Temps
  /\ SeqIn(c.a, Operands(c.r)) /\ SeqIn(c.b, Operands(c.r))
  /\ (Len(c.a) >= 1 \/ c.op = "Activate")

MatrixOf(c) == [i \in 1..c.p[1] |-> [j \in 1..c.p[2] |-> c.a[(i - 1) * c.p[2] + j]]]

Apply(c) ==
  CASE c.op = "Activate"  -> Len(c.p) = 1 /\ c.p[1] \in Vars /\ Activate(c.r, c.p[1])
    [] c.op \in UnaryOps  -> Len(c.a) = 1 /\ Unary(c.op, c.r, c.a[1])
    [] c.op \in BinaryOps -> Len(c.a) = 2 /\ Binary(c.op, c.r, c.a[1], c.a[2])
    [] c.op \in ParamOps  -> Len(c.a) = 1 /\ Param(c.op, c.p[1], c.p[2], c.r, c.a[1])
    [] c.op \in {"Vmean", "Vnorm"} -> VecReduce(c.op, c.r, c.a, <<>>, Rat(1, 1))
    [] c.op \in {"SmoothMax", "LogSmoothMax"} -> VecReduce(c.op, c.r, c.a, <<>>, Rat(c.p[1], c.p[2]))
    [] c.op = "VdotV" -> Len(c.a) = Len(c.b) /\ VecReduce(c.op, c.r, c.a, c.b, Rat(1, 1))
    [] c.op \in {"Mtrace", "Mnorm"} -> MatReduce(c.op, c.r, MatrixOf(c))
    [] OTHER -> FALSE

Expected(e) == LET j == Jet(e) IN
  [t |-> Ev.t, k |-> l, n |-> n, val |-> j.val, grad |-> j.grad, hess |-> j.hess, dep |-> j.dep, guard |-> guard']

TOp ==
  /\ l <= Len(Trace) /\ Ev.e = "op"
  /\ WellFormed(Ev.c)
  /\ Apply(Ev.c)
  /\ l' = l + 1
  /\ (Ev.emit => PrintT(ToJson(Expected(reg'[Ev.c.r]))))

TraceInit == /\ fam = "trace" /\ n = 0 /\ desc = <<>> /\ reg = <<>> /\ dev = <<>> /\ guard = <<>>
             /\ flow = <<>> /\ hist = <<>> /\ l = 1
TraceNext == TReset \/ TOp
TraceSpec == TraceInit /\ [][TraceNext]_tvars

(* the logged observation of the event that produced the current state *)
ObsOK ==
  (l > 1 /\ Trace[l - 1].e = "op") =>
    LET e == Trace[l - 1]
        t == reg[e.c.r]
    IN /\ \A i \in 1..n : e.nz[i] => Depends(t, i)
       /\ \A i, j \in 1..n : e.hz[i][j] => (Depends(t, i) /\ Depends(t, j))
       /\ e.sym
       /\ e.fr
       /\ (\E i \in 1..n : Depends(t, i) /\ e.nz[i]) => (e.ord >= 1 /\ e.nn = n)
       /\ e.ord <= e.order

TraceAccepted ==
  IF TLCGet("stats").diameter - 1 = Len(Trace) THEN TRUE
  ELSE Print(<<"TRACE_REJECTED_AT", TLCGet("stats").diameter, "OF", Len(Trace)>>, FALSE)
=============================================================================
