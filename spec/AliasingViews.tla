---------------------------- MODULE AliasingViews ----------------------------
(***************************************************************************)
(* View algebra and CONTRACT of container operations on views that share   *)
(* storage (property C08), shared by Aliasing.tla (case enumeration) and   *)
(* AliasingTrace.tla (trace validation).                                   *)
(*                                                                         *)
(* The contract is simultaneous assignment: CResult reads the operand      *)
(* contents through their views from the PRE-state parents, WriteBack      *)
(* stores the result through the receiver's view; every other cell of      *)
(* every parent is unchanged.                                              *)
(*                                                                         *)
(* A parent is a dense row-major content (sequence of duals <<v, d>>); a   *)
(* vector parent has cols = -1.  A view is                                 *)
(*   [p, t, r0, r1, c0, c1]  matrix: Slice(r0, r1, c0, c1) of parent p,    *)
(*                           then T() when t = 1 (0-based, half open)      *)
(*   [p, t = 0, r0, r1, c0 = 0, c1 = -1]  vector: Slice(r0, r1)            *)
(*   [p, t = 2, r0 = i, ...]              vector: row i of MATRIX parent p *)
(*                                        (shares the storage of p)        *)
(* `whole` = 1: the parent object itself (no Slice call).  Roles with the  *)
(* same view INDEX are the same object; different indices with the same    *)
(* window are distinct headers onto the same cells.                        *)
(***************************************************************************)
EXTENDS Containers

Parent(rows, cols, cc) == [rows |-> rows, cols |-> cols, c |-> cc]
View(p, t, r0, r1, c0, c1, whole) == [p |-> p, t |-> t, r0 |-> r0, r1 |-> r1, c0 |-> c0, c1 |-> c1, whole |-> whole]
NoView == View(0, 0, 0, 0, 0, 0, 0)

VRows(P, v) == IF v.t = 2 THEN P[v.p].cols
               ELSE IF P[v.p].cols < 0 THEN v.r1 - v.r0
               ELSE IF v.t = 1 THEN v.c1 - v.c0 ELSE v.r1 - v.r0
VCols(P, v) == IF v.t = 2 \/ P[v.p].cols < 0 THEN -1
               ELSE IF v.t = 1 THEN v.r1 - v.r0 ELSE v.c1 - v.c0
VLen(P, v)  == IF VCols(P, v) < 0 THEN VRows(P, v) ELSE VRows(P, v) * VCols(P, v)

\* parent cell (1-based, row major) of the k-th element (1-based, row major) of the view
Idx(P, v, k) ==
  IF v.t = 2 THEN v.r0 * P[v.p].cols + k
  ELSE IF P[v.p].cols < 0 THEN v.r0 + k
  ELSE LET vc == VCols(P, v)
           i  == (k - 1) \div vc          \* view coordinates, 0-based
           j  == (k - 1) % vc
           pi == IF v.t = 1 THEN v.r0 + j ELSE v.r0 + i
           pj == IF v.t = 1 THEN v.c0 + i ELSE v.c0 + j
       IN pi * P[v.p].cols + pj + 1

Read(P, v) == SeqOf(VLen(P, v), LAMBDA k : P[v.p].c[Idx(P, v, k)])
CellsOf(P, v) == {<<v.p, Idx(P, v, k)>> : k \in 1..VLen(P, v)}

\* write the triples res (all finite) through view v
WriteBack(P, v, res) ==
  [q \in 1..Len(P) |->
     IF q # v.p THEN P[q]
     ELSE [P[q] EXCEPT !.c = [x \in 1..Len(P[q].c) |->
             IF \E k \in 1..Len(res) : Idx(P, v, k) = x
             THEN LET k == CHOOSE k \in 1..Len(res) : Idx(P, v, k) = x IN <<res[k][1], res[k][2]>>
             ELSE P[q].c[x]]]]

EwOps  == {"VaddV", "VsubV", "VmulV", "VdivV", "MaddM", "MsubM", "MmulM", "MdivM"}
EwSOps == {"VaddS", "VsubS", "VmulS", "VdivS", "MaddS", "MsubS", "MmulS", "MdivS"}

CDims(op, P, r, a, b) ==
  CASE op = "MdotM" -> <<VRows(P, r), VCols(P, r), VCols(P, a)>>
    [] op = "MdotV" -> <<VRows(P, r), -1, VCols(P, a)>>
    [] op = "VdotM" -> <<VRows(P, r), -1, VRows(P, b)>>
    [] OTHER        -> <<VRows(P, r), VCols(P, r), 0>>

\* the contract: simultaneous assignment
CResult(op, P, r, a, b, s) ==
  Result(op, Read(P, a), IF b.p = 0 THEN <<>> ELSE Read(P, b), s, CDims(op, P, r, a, b))

(* What the library is known to do for ELEMENT-WISE operations on views    *)
(* that overlap without being the same window (known finding, modelled so  *)
(* that the check stays sensitive next to it): the elements are computed   *)
(* one after the other in row-major order of the receiver, every read      *)
(* seeing the cells already written.                                       *)
EwOne(op, x, y, s) ==
  LET one == Result(op, <<x>>, <<y>>, s, <<1, -1, 0>>)[1] IN <<one[1], one[2]>>
RECURSIVE SeqEval(_, _, _, _, _, _, _)
SeqEval(op, P, r, a, b, s, k) ==
  IF k > VLen(P, r) THEN P
  ELSE LET x  == P[a.p].c[Idx(P, a, k)]
           y  == IF b.p = 0 THEN Z ELSE P[b.p].c[Idx(P, b, k)]
           P2 == [P EXCEPT ![r.p].c[Idx(P, r, k)] = EwOne(op, x, y, s)]
       IN SeqEval(op, P2, r, a, b, s, k + 1)

(* The same for the products that accumulate into the receiver (MdotV,     *)
(* VdotM: r_i := 0; r_i := r_i + x_ij * y_ij for j = 1, 2, ...) and for    *)
(* the outer product (R_ij := a_i * b_j in row-major order), which reject   *)
(* aliasing only when receiver and vector operand start at the same         *)
(* element.  Cell references are pairs <<parent, index>>.                   *)
Ref(P, v, k) == <<v.p, Idx(P, v, k)>>
Cell(P, ref) == P[ref[1]].c[ref[2]]
SetCell(P, ref, x) == [P EXCEPT ![ref[1]].c[ref[2]] = x]
RECURSIVE AccSeq(_, _, _, _)
AccSeq(P, rc, pairs, j) ==
  IF j > Len(pairs) THEN P
  ELSE AccSeq(SetCell(P, rc, DAdd(Cell(P, rc), DMul(Cell(P, pairs[j][1]), Cell(P, pairs[j][2])))), rc, pairs, j + 1)
RECURSIVE ProdSeq(_, _, _, _)
ProdSeq(P, rcs, pairs, i) ==
  IF i > Len(rcs) THEN P
  ELSE ProdSeq(AccSeq(SetCell(P, rcs[i], Z), rcs[i], pairs[i], 1), rcs, pairs, i + 1)
MdotVSeq(P, r, a, b) ==
  LET n == VLen(P, r)  m == VLen(P, b) IN
  ProdSeq(P, SeqOf(n, LAMBDA i : Ref(P, r, i)),
          SeqOf(n, LAMBDA i : SeqOf(m, LAMBDA j : <<Ref(P, a, (i - 1) * m + j), Ref(P, b, j)>>)), 1)
VdotMSeq(P, r, a, b) ==
  LET n == VLen(P, r)  m == VLen(P, a) IN
  ProdSeq(P, SeqOf(n, LAMBDA i : Ref(P, r, i)),
          SeqOf(n, LAMBDA i : SeqOf(m, LAMBDA j : <<Ref(P, a, j), Ref(P, b, (j - 1) * n + i)>>)), 1)
RECURSIVE OuterSeq(_, _, _, _, _)
OuterSeq(P, r, a, b, k) ==
  IF k > VLen(P, r) THEN P
  ELSE LET cols == VCols(P, r)
           x == Cell(P, Ref(P, a, RowOf(k, cols)))
           y == Cell(P, Ref(P, b, ColOf(k, cols)))
       IN OuterSeq(SetCell(P, Ref(P, r, k), DMul(x, y)), r, a, b, k + 1)

AllFin(res) == \A k \in 1..Len(res) : res[k][3] = 0

=============================================================================
