---------------------------- MODULE LinSolveTrace ----------------------------
(***************************************************************************)
(* Trace validation (code -> model) for C04.  harness/cmd/linalg record    *)
(* drives the REAL routines with seeded random integer matrices of size    *)
(* 5..8 and logs one event per call: the input, the outcome (error, panic, *)
(* result present, shape, finiteness) and the residual booleans it         *)
(* computed in float64.  This specification does not trust the recorder's  *)
(* classification of the input: it re-derives it from the logged matrix    *)
(* with the operators of the contract LinSolve -                           *)
(*   dominant    every row perm[i] is strictly dominated by its entry in   *)
(*               column i (Levy-Desplanques: nonsingular, and well         *)
(*               conditioned after that row permutation),                  *)
(*   singular    IsStructurallySingular (zero row / column, equal rows),   *)
(*   triangular  upper triangular with non-zero diagonal,                  *)
(*   det events  the exact determinant DetLaplace(a) (n <= 6) -            *)
(* and then demands the contract of the property on the logged outcome.    *)
(***************************************************************************)
EXTENDS LinSolve

Trace == ndJsonDeserialize("linsolve_trace.ndjson")

VARIABLE l
tvars == <<l, blk, cs>>

Ev == Trace[l]

RowDominant(a, perm) ==
  /\ Len(perm) = Len(a)
  /\ {perm[i] : i \in 1..Len(perm)} = 1..Len(a)
  /\ \A i \in 1..Len(a) :
       LET r == perm[i]
       IN Abs(a[r][i]) > SumInts([j \in 1..Len(a) |-> IF j = i THEN 0 ELSE Abs(a[r][j])])
RegularUpper(a) == IsUpperTri(a) /\ \A i \in 1..Len(a) : a[i][i] # 0

(* the part of the contract that holds for every call *)
Structure(e) ==
  /\ e.n = Len(e.a)
  /\ ~(e.err /\ e.panic)
  /\ (~e.err /\ ~e.panic) => (e.hasres /\ e.shape)
  /\ e.resid => (e.hasres /\ e.shape /\ e.finite)

Regular(e) == ~e.err /\ ~e.panic /\ e.hasres /\ e.shape /\ e.finite /\ e.resid
Loud(e) == e.err \/ e.panic \/ ~e.finite

Contract(e) ==
  /\ Structure(e)
  /\ e.cls = "dominant" => RowDominant(e.a, e.perm)              \* else the trace is malformed
  /\ e.cls = "singular" => IsStructurallySingular(e.a)
  /\ e.cls = "triangular" => RegularUpper(e.a)
  /\ e.e \in {"inv", "solve"} =>
       /\ e.cls = "dominant" => Regular(e)
       /\ e.cls = "singular" => Loud(e)
  /\ e.e = "backsub" => (e.cls = "triangular" /\ Regular(e))
  /\ e.e = "det" =>
       /\ e.n <= 6
       /\ ~e.err /\ ~e.panic /\ e.finite /\ e.close
       /\ e.val = DetLaplace(e.a)
       /\ e.cls = "dominant" => e.val # 0

TStep == l <= Len(Trace) /\ Contract(Ev) /\ l' = l + 1 /\ UNCHANGED <<blk, cs>>

TraceInit == l = 1 /\ blk = -1 /\ cs = Root
TraceSpec == TraceInit /\ [][TStep]_tvars

TraceAccepted ==
  IF TLCGet("stats").diameter - 1 = Len(Trace) THEN TRUE
  ELSE Print(<<"TRACE_REJECTED_AT", TLCGet("stats").diameter, "OF", Len(Trace)>>, FALSE)
=============================================================================
