-------------------------- MODULE TerminationTrace --------------------------
(***************************************************************************)
(* Trace validation (code -> model) of C20's bounded-response contract.    *)
(* The driver (harness/cmd/shapes term) executes the calls of the cases    *)
(* printed by Termination.tla in child processes and logs                  *)
(*    {e: "call", id, r (routine), class, n}           before each call    *)
(*    {e: "return" | "error" | "panic", id, ticks}     when it came back   *)
(*    {e: "timeout", id, ticks}    when the parent's watchdog had to kill  *)
(*                                 the child inside the journalled call.   *)
(* A trace is accepted iff every call is answered by return, error or      *)
(* panic of the same call within B(routine, n) ticks.  There is no action  *)
(* for a timeout event: a trace containing one is never accepted.          *)
(***************************************************************************)
EXTENDS Integers, Sequences, TLC, Json

CONSTANT BMin
T == INSTANCE Termination WITH N3 <- 0, N4 <- 0, c <- 0

Trace == ndJsonDeserialize("term_trace.ndjson")

VARIABLES l,        \* next event to consume
          open      \* the call that has not been answered yet (id = -1: none)

None == [id |-> -1, r |-> "", n |-> 0]
Ev == Trace[l]

TCall   == /\ l <= Len(Trace) /\ Ev.e = "call"
           /\ open.id = -1
           /\ open' = [id |-> Ev.id, r |-> Ev.r, n |-> Ev.n]
           /\ l' = l + 1
TAnswer == /\ l <= Len(Trace) /\ Ev.e \in {"return", "error", "panic"}
           /\ open.id = Ev.id /\ open.r = Ev.r /\ open.n = Ev.n
           /\ Ev.ticks <= T!B(open.r, open.n)            \* within the budget
           /\ open' = None
           /\ l' = l + 1

TraceInit == l = 1 /\ open = None
TraceNext == TCall \/ TAnswer
TraceSpec == TraceInit /\ [][TraceNext]_<<l, open>>

(* the last call of a complete trace is answered *)
Complete == l = Len(Trace) + 1 => open.id = -1

TraceAccepted ==
  IF TLCGet("stats").diameter - 1 = Len(Trace) THEN TRUE
  ELSE Print(<<"TRACE_REJECTED_AT", TLCGet("stats").diameter, "OF", Len(Trace)>>, FALSE)
=============================================================================
