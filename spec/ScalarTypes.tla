----------------------------- MODULE ScalarTypes -----------------------------
(***************************************************************************)
(* CONTRACT of the sixteen scalar types of the library (property C02).     *)
(*                                                                         *)
(* Written from the property text, the README type table and the Go         *)
(* language specification ("Conversions between numeric types", "Integer    *)
(* overflow", "Arithmetic operators"), not from the code.                   *)
(*                                                                         *)
(*   - the type table: kind (const / mutable / magic), storage class        *)
(*     (signed integer of width 8|16|32|64, IEEE binary32 / binary64);      *)
(*   - abstract VALUES: exact integers of the signed 64-bit range (TLC has  *)
(*     32-bit integers, so an integer is its two's-complement byte vector,  *)
(*     little endian, eight digits base 256), small dyadic rationals,       *)
(*     powers of two beyond the integer range ("huge"), and the IEEE tokens *)
(*     -0, +Inf, -Inf, NaN;                                                 *)
(*   - Embed(T, v) / Holds(T, v): how a value is represented in T;          *)
(*   - Convert(T1, T2, v): Go's numeric conversion of a value held by T1    *)
(*     (wrap-around between integers, truncation toward zero float->int,    *)
(*     round-to-nearest-even int->float and binary64->binary32, and         *)
(*     IMPLEMENTATION-DEFINED where Go says so: float->int out of range,    *)
(*     NaN, +-Inf);                                                         *)
(*   - the ring operations of the integer types modulo 2^w (wrap-around     *)
(*     add/sub/mul/neg, truncating division, division by zero = run-time    *)
(*     panic), comparison / sign / min / max IN THE RECEIVER'S              *)
(*     REPRESENTATION;                                                      *)
(*   - for the floating-point types: the IEEE result CLASS of every         *)
(*     operation on special operands where the operation defines one        *)
(*     (Exp(-Inf)=0, Log(0)=-Inf, Abs(-0)=+0, x/0=+-Inf, Inf-Inf=NaN ...),  *)
(*     and for finite operands the MEANING TERM of Expr.tla.                *)
(*                                                                         *)
(* Deliberately unconstrained ("any"): Min/Max/comparisons/Sign with NaN,   *)
(* the sign of a zero result (except Abs), Abs of NaN, Abs/Neg of the most  *)
(* negative integer is Go's wrap-around, operands outside the domain of an  *)
(* operation, Pow at most of its IEEE special cases.                        *)
(***************************************************************************)
EXTENDS Expr

CONSTANT IntWidth      \* width of Go's `int` on the platform under test (64 on amd64/arm64)

(* ------------------------------------------------------------- type table *)
ConstTypes   == {"ConstInt8", "ConstInt16", "ConstInt32", "ConstInt64", "ConstInt", "ConstFloat32", "ConstFloat64"}
MutableTypes == {"Int8", "Int16", "Int32", "Int64", "Int", "Float32", "Float64"}
MagicTypes   == {"Real32", "Real64"}
AllTypes     == ConstTypes \cup MutableTypes \cup MagicTypes     \* sixteen
WritableTypes == MutableTypes \cup MagicTypes                    \* implement Scalar: can be receivers
BaseTypes    == {"int8", "int16", "int32", "int64", "int", "float32", "float64"}

TypeSeq == <<"ConstInt8", "ConstInt16", "ConstInt32", "ConstInt64", "ConstInt", "ConstFloat32", "ConstFloat64",
             "Int8", "Int16", "Int32", "Int64", "Int", "Float32", "Float64", "Real32", "Real64">>
TIdx(T) == CHOOSE i \in 1..16 : TypeSeq[i] = T

Kind(T) == IF T \in ConstTypes THEN "const" ELSE IF T \in MutableTypes THEN "mutable" ELSE "magic"

\* storage (Go base type) of a scalar type; base types denote themselves
Base(T) ==
  CASE T \in {"ConstInt8", "Int8", "int8"}          -> "int8"
    [] T \in {"ConstInt16", "Int16", "int16"}       -> "int16"
    [] T \in {"ConstInt32", "Int32", "int32"}       -> "int32"
    [] T \in {"ConstInt64", "Int64", "int64"}       -> "int64"
    [] T \in {"ConstInt", "Int", "int"}             -> "int"
    [] T \in {"ConstFloat32", "Float32", "Real32", "float32"} -> "float32"
    [] T \in {"ConstFloat64", "Float64", "Real64", "float64"} -> "float64"

Cls(T) == IF Base(T) \in {"float32", "float64"} THEN "float" ELSE "int"
\* width of an integer type
W(T) == CASE Base(T) = "int8" -> 8 [] Base(T) = "int16" -> 16 [] Base(T) = "int32" -> 32
          [] Base(T) = "int64" -> 64 [] Base(T) = "int" -> IntWidth
\* precision (significand bits) of a floating-point type; MaxExp: largest e with 2^e finite
P(T) == IF Base(T) = "float32" THEN 24 ELSE 53
MaxExp(T) == IF Base(T) = "float32" THEN 127 ELSE 1023
\* smallest positive (subnormal) value of a floating-point type: 2^-MinExp
MinExp(T) == IF Base(T) = "float32" THEN 149 ELSE 1074

\* the scalar type of a given kind over a base type ("" if there is none)
TypeOver(kind, base) ==
  LET S == {T \in AllTypes : Kind(T) = kind /\ Base(T) = base} IN IF S = {} THEN "" ELSE CHOOSE T \in S : TRUE

(* --------------------------------------- 64-bit two's-complement integers *)
Z8   == <<0, 0, 0, 0, 0, 0, 0, 0>>
One8 == <<1, 0, 0, 0, 0, 0, 0, 0>>
NatBytes(n) ==       \* 0 <= n < 2^31
  <<n % 256, (n \div 256) % 256, (n \div 65536) % 256, (n \div 16777216) % 256, 0, 0, 0, 0>>
Comp(a) == <<255 - a[1], 255 - a[2], 255 - a[3], 255 - a[4], 255 - a[5], 255 - a[6], 255 - a[7], 255 - a[8]>>
FromInt(i) == IF i >= 0 THEN NatBytes(i) ELSE Comp(NatBytes(-(i + 1)))

RECURSIVE AddC(_, _, _, _)
AddC(a, b, i, c) == IF i > 8 THEN <<>>
                    ELSE LET s == a[i] + b[i] + c IN <<s % 256>> \o AddC(a, b, i + 1, s \div 256)
BAdd(a, b) == AddC(a, b, 1, 0)                       \* modulo 2^64
BNeg(a)    == BAdd(Comp(a), One8)
BSub(a, b) == BAdd(a, BNeg(b))

RECURSIVE ColSum(_, _, _, _)
ColSum(a, b, k, i) == IF i > k THEN 0 ELSE a[i] * b[k + 1 - i] + ColSum(a, b, k, i + 1)
RECURSIVE MulC(_, _, _, _)
MulC(a, b, k, c) == IF k > 8 THEN <<>>
                    ELSE LET s == c + ColSum(a, b, k, 1) IN <<s % 256>> \o MulC(a, b, k + 1, s \div 256)
BMul(a, b) == MulC(a, b, 1, 0)                       \* modulo 2^64

IsNegB(a) == a[8] >= 128
IsZeroB(a) == a = Z8
\* value of the low w bits read as a signed integer, sign-extended to 64 bits: Go's integer -> integer conversion
Wrap(w, a) == LET n == w \div 8
                  neg == a[n] >= 128
                  f(i) == IF i <= n THEN a[i] ELSE IF neg THEN 255 ELSE 0
              IN <<f(1), f(2), f(3), f(4), f(5), f(6), f(7), f(8)>>
Fits(w, a) == Wrap(w, a) = a
RECURSIVE ULtFrom(_, _, _)
ULtFrom(a, b, i) == IF i = 0 THEN FALSE
                    ELSE IF a[i] # b[i] THEN a[i] < b[i] ELSE ULtFrom(a, b, i - 1)
ULt(a, b) == ULtFrom(a, b, 8)                        \* unsigned order
BLt(a, b) == IF IsNegB(a) # IsNegB(b) THEN IsNegB(a) ELSE ULt(a, b)     \* signed order
MagB(a)   == IF IsNegB(a) THEN BNeg(a) ELSE a        \* |a| as an UNSIGNED 64-bit number (|MinInt64| = 2^63)

P2B(k) == LET f(i) == IF i = (k \div 8) + 1 THEN 2 ^ (k % 8) ELSE 0             \* 2^k, 0 <= k <= 63 (unsigned)
          IN <<f(1), f(2), f(3), f(4), f(5), f(6), f(7), f(8)>>
MaxOf(w) == BSub(P2B(w - 1), One8)
MinOf(w) == Wrap(w, P2B(w - 1))
Bit(a, i) == (a[(i \div 8) + 1] \div (2 ^ (i % 8))) % 2
HiBit(a) == LET S == {i \in 0..63 : Bit(a, i) = 1} IN IF S = {} THEN -1 ELSE CHOOSE i \in S : \A j \in S : j <= i

\* small integers back and forth (|value| < 2^31)
SmallB(a) == Fits(32, a) /\ a # MinOf(32)
ToInt(a)  == IF IsNegB(a) THEN -(Comp(a)[1] + 256 * Comp(a)[2] + 65536 * Comp(a)[3] + 16777216 * Comp(a)[4]) - 1
             ELSE a[1] + 256 * a[2] + 65536 * a[3] + 16777216 * a[4]

\* unsigned division by binary long division (quotient only)
RECURSIVE ShlC(_, _, _)
ShlC(a, i, c) == IF i > 8 THEN <<>> ELSE LET s == 2 * a[i] + c IN <<s % 256>> \o ShlC(a, i + 1, s \div 256)
Shl1(a, bit) == ShlC(a, 1, bit)                      \* 2a + bit modulo 2^64
\* (no LET inside the recursion: TLC caches operator arguments but re-evaluates LET definitions)
RECURSIVE UDivStep(_, _, _, _, _)
UDivStep3(x, y, i, q, r1, ge) ==
  UDivStep(x, y, i - 1, Shl1(q, IF ge THEN 1 ELSE 0), IF ge THEN BSub(r1, y) ELSE r1)
UDivStep2(x, y, i, q, r1) == UDivStep3(x, y, i, q, r1, ~ULt(r1, y))
UDivStep(x, y, i, q, r) == IF i < 0 THEN q ELSE UDivStep2(x, y, i, q, Shl1(r, Bit(x, i)))
UDiv(x, y) == UDivStep(x, y, 63, Z8, Z8)
\* Go's truncated signed division on w-bit integers (y # 0); MinInt / -1 wraps to MinInt
BQuo(w, x, y) ==
  IF SmallB(x) /\ SmallB(y)
  THEN LET a == ToInt(x)  b == ToInt(y)
           q == (RAbs(a) \div RAbs(b)) * (IF (a < 0) # (b < 0) THEN -1 ELSE 1)
       IN Wrap(w, FromInt(q))
  ELSE LET q == UDiv(MagB(x), MagB(y))
       IN Wrap(w, IF IsNegB(x) # IsNegB(y) THEN BNeg(q) ELSE q)

(* ------------------------------------------------------------------ values *)
\* one record shape for every value, so that values can be compared structurally
VInt(b)     == [k |-> "int",  b |-> b,  n |-> 0, d |-> 1, t |-> ""]     \* exact integer, signed 64-bit range
VRat(n, d)  == [k |-> "rat",  b |-> Z8, n |-> n, d |-> d, t |-> ""]     \* n/d, d = 2^j >= 2, n odd, |n| < 2^30
VTok(t)     == [k |-> "tok",  b |-> Z8, n |-> 0, d |-> 1, t |-> t]      \* "nzero" "pinf" "ninf" "nan"
VHuge(s, e) == [k |-> "huge", b |-> Z8, n |-> s, d |-> e, t |-> ""]     \* s * 2^e, s = +-1, e >= 63 (outside int64)
VTiny(s, e) == [k |-> "tiny", b |-> Z8, n |-> s, d |-> e, t |-> ""]     \* s * 2^-e, s = +-1, e >= 31 (subnormal / near it)
IDef        == [k |-> "idef", b |-> Z8, n |-> 0, d |-> 1, t |-> ""]     \* implementation-defined (Go spec)
Opq         == [k |-> "opq",  b |-> Z8, n |-> 0, d |-> 1, t |-> ""]     \* a float the value domain cannot name (traces only)
VI(i)       == VInt(FromInt(i))
VZero       == VInt(Z8)
NZero == VTok("nzero")  PInf == VTok("pinf")  NInf_ == VTok("ninf")  NaN == VTok("nan")

IsNaN(v)   == v.k = "tok" /\ v.t = "nan"
IsInfV(v)  == v.k = "tok" /\ v.t \in {"pinf", "ninf"}
IsZeroV(v) == (v.k = "int" /\ v.b = Z8) \/ (v.k = "tok" /\ v.t = "nzero")
IsKnown(v) == v.k \in {"int", "rat", "tok", "huge", "tiny"}
\* sign of a value: -1, 0, 1 (NaN has none)
SignV(v) == CASE v.k = "int"  -> IF v.b = Z8 THEN 0 ELSE IF IsNegB(v.b) THEN -1 ELSE 1
              [] v.k = "rat"  -> IF v.n < 0 THEN -1 ELSE 1
              [] v.k = "huge" -> v.n
              [] v.k = "tiny" -> v.n
              [] v.k = "tok"  -> IF v.t = "pinf" THEN 1 ELSE IF v.t = "ninf" THEN -1 ELSE 0
\* sign bit (distinguishes -0)
NegBit(v) == IF v.k = "tok" /\ v.t = "nzero" THEN TRUE ELSE SignV(v) < 0

\* normal form of the rational n/d (d a power of two)
NormRat(n, d) == LET r == Rat(n, d) IN IF r.d = 1 THEN VI(r.n) ELSE VRat(r.n, r.d)

NegV(v) == CASE v.k = "int"  -> IF v.b = Z8 THEN NZero
                                ELSE IF v.b = MinOf(64) THEN VHuge(1, 63) ELSE VInt(BNeg(v.b))
             [] v.k = "rat"  -> VRat(-v.n, v.d)
             [] v.k = "huge" -> IF v.n = 1 /\ v.d = 63 THEN VInt(MinOf(64)) ELSE VHuge(-v.n, v.d)
             [] v.k = "tiny" -> VTiny(-v.n, v.d)
             [] v.k = "tok"  -> CASE v.t = "nzero" -> VZero [] v.t = "pinf" -> NInf_
                                  [] v.t = "ninf" -> PInf [] v.t = "nan" -> NaN
             [] OTHER -> v
AbsV(v) == IF IsNaN(v) THEN v ELSE IF NegBit(v) THEN NegV(v) ELSE v

\* strict order of the extended reals (not for NaN); -0 = +0
\* integer part and comparison go through a common form: <<sign, class>> first
LtV(a, b) ==
  LET sa == SignV(a)  sb == SignV(b) IN
  IF sa # sb THEN sa < sb
  ELSE IF sa = 0 THEN FALSE
  ELSE LET \* compare magnitudes of two values of the same sign
           MagLt(x, y) ==      \* |x| < |y|
             IF IsInfV(x) THEN FALSE
             ELSE IF IsInfV(y) THEN TRUE
             ELSE IF x.k = "tiny" /\ y.k = "tiny" THEN x.d > y.d
             ELSE IF x.k = "tiny" THEN TRUE       \* below every other non-zero magnitude of the domain
             ELSE IF y.k = "tiny" THEN FALSE
             ELSE IF x.k = "huge" /\ y.k = "huge" THEN x.d < y.d
             ELSE IF x.k = "huge" THEN FALSE
             ELSE IF y.k = "huge" THEN TRUE       \* |int64| <= 2^63 <= |huge| and -2^63 is never written as huge
             ELSE IF x.k = "int" /\ y.k = "int" THEN ULt(MagB(x.b), MagB(y.b))
             ELSE \* at least one small rational: the integer operand is compared through its integer part
                  LET ip(v) == IF v.k = "int" THEN MagB(v.b) ELSE FromInt(RAbs(v.n) \div v.d)
                      fr(v) == IF v.k = "int" THEN RZero ELSE Rat(RAbs(v.n) % v.d, v.d)
                      \* a.n/a.d < b.n/b.d without 32-bit overflow (denominators up to 2^25)
                      FracLt(p, q) == ULt(BMul(FromInt(p.n), FromInt(q.d)), BMul(FromInt(q.n), FromInt(p.d)))
                  IN IF ip(x) # ip(y) THEN ULt(ip(x), ip(y)) ELSE FracLt(fr(x), fr(y))
       IN IF sa > 0 THEN MagLt(a, b) ELSE MagLt(b, a)

(* ------------------------------------------------ rounding to p bits (IEEE) *)
\* round the unsigned magnitude m (<= 2^63) to p significant bits, ties to even
RoundMag(m, p) ==
  LET L == HiBit(m) + 1 IN
  IF L <= p THEN m
  ELSE LET sh     == L - p
           rb     == Bit(m, sh - 1)
           sticky == \E i \in 0..(sh - 2) : Bit(m, i) = 1
           lsb    == Bit(m, sh)
           up     == rb = 1 /\ (sticky \/ lsb = 1)
           f(i)   == IF 8 * i - 1 < sh THEN 0
                     ELSE IF 8 * (i - 1) >= sh THEN m[i]
                     ELSE LET c == 2 ^ (sh - 8 * (i - 1)) IN (m[i] \div c) * c
           trunc  == <<f(1), f(2), f(3), f(4), f(5), f(6), f(7), f(8)>>
       IN IF up THEN BAdd(trunc, P2B(sh)) ELSE trunc

\* exact integer -> floating point of precision p
IntToFloat(b, p) ==
  LET r == RoundMag(MagB(b), p) IN
  IF IsNegB(b) THEN VInt(BNeg(r))                          \* -2^63 is an int64
  ELSE IF r = P2B(63) THEN VHuge(1, 63) ELSE VInt(r)
\* small dyadic rational -> floating point of precision p
RatToFloat(n, d, p) ==
  LET m == ToInt(RoundMag(NatBytes(RAbs(n)), p)) IN NormRat(IF n < 0 THEN -m ELSE m, d)

\* a value of a floating-point type of precision >= p2 ... converted to float type T2
ToFloat(v, T2) ==
  CASE v.k = "int"  -> IntToFloat(v.b, P(T2))
    [] v.k = "rat"  -> RatToFloat(v.n, v.d, P(T2))
    [] v.k = "huge" -> IF v.d > MaxExp(T2) THEN (IF v.n > 0 THEN PInf ELSE NInf_) ELSE v
    \* a power of two below the smallest subnormal is at most half of it: it rounds to a (signed) zero
    [] v.k = "tiny" -> IF v.d > MinExp(T2) THEN (IF v.n > 0 THEN VZero ELSE NZero) ELSE v
    [] OTHER        -> v                                   \* tokens, idef, opq

\* Go: "When converting a floating-point number to an integer, the fraction is discarded
\* (truncation towards zero)"; "if the value cannot be represented by the type the result is
\* implementation-defined" (also NaN and the infinities).
ToIntType(v, w) ==
  CASE v.k = "int"  -> IF Fits(w, v.b) THEN v ELSE IDef
    [] v.k = "rat"  -> LET q == (RAbs(v.n) \div v.d) * (IF v.n < 0 THEN -1 ELSE 1)
                       IN IF Fits(w, FromInt(q)) THEN VI(q) ELSE IDef
    [] v.k = "tok"  -> IF v.t = "nzero" THEN VZero ELSE IDef
    [] v.k = "huge" -> IDef
    [] v.k = "tiny" -> VZero
    [] OTHER        -> v

(* ------------------------------------------------------ Embed and Convert *)
\* the representation of the mathematical value v in type T
Embed(T, v) ==
  IF Cls(T) = "int"
  THEN IF v.k = "int" THEN VInt(Wrap(W(T), v.b)) ELSE ToIntType(v, W(T))
  ELSE ToFloat(v, T)
Holds(T, v) == IsKnown(v) /\ Embed(T, v) = v /\ (Cls(T) = "int" => v.k = "int")

\* Go's conversion T2(x) of a value v held by a variable of type T1 (scalar or base types)
Convert(T1, T2, v) ==
  IF ~IsKnown(v) THEN v
  ELSE IF Cls(T1) = "int" /\ Cls(T2) = "int" THEN VInt(Wrap(W(T2), v.b))
  ELSE IF Cls(T2) = "float" THEN ToFloat(v, T2)
  ELSE ToIntType(v, W(T2))

\* how receiver type R sees an operand of type T holding v
View(R, T, v) == Convert(T, R, v)

(* ------------------------------------------- operations, integer receivers *)
\* operands x, y are VIEWS in the receiver's type R (Cls(R) = "int"); results are values of R,
\* or IDef when an operand view is implementation-defined, or the marker PanicRes
PanicRes == [k |-> "panic", b |-> Z8, n |-> 0, d |-> 1, t |-> ""]
AnyRes   == [k |-> "any",   b |-> Z8, n |-> 0, d |-> 1, t |-> ""]

IntRing(op, R, x, y) ==
  IF op = "Div" /\ y.k = "int" /\ y.b = Z8 THEN PanicRes       \* whatever the dividend
  ELSE IF x.k # "int" \/ y.k # "int" THEN (IF x.k = "opq" \/ y.k = "opq" THEN Opq ELSE IDef)
  ELSE LET w == W(R) IN
       CASE op = "Add" -> VInt(Wrap(w, BAdd(x.b, y.b)))
         [] op = "Sub" -> VInt(Wrap(w, BSub(x.b, y.b)))
         [] op = "Mul" -> VInt(Wrap(w, BMul(x.b, y.b)))
         [] op = "Div" -> IF y.b = Z8 THEN PanicRes ELSE VInt(BQuo(w, x.b, y.b))
IntNeg(R, x) == IF x.k # "int" THEN (IF x.k = "opq" THEN Opq ELSE IDef) ELSE VInt(Wrap(W(R), BNeg(x.b)))
IntAbs(R, x) == IF x.k # "int" THEN (IF x.k = "opq" THEN Opq ELSE IDef)
                ELSE IF x.b = MinOf(W(R)) THEN AnyRes                  \* |MinInt| is not representable
                ELSE VInt(MagB(x.b))

(* ------------------------------- order, sign, min, max in the receiver's type *)
\* x, y: views in the type that compares.  Result "lt" "eq" "gt", or "na" (NaN / undefined)
Cmp(x, y) ==
  IF ~IsKnown(x) \/ ~IsKnown(y) \/ IsNaN(x) \/ IsNaN(y) THEN "na"
  ELSE IF LtV(x, y) THEN "lt" ELSE IF LtV(y, x) THEN "gt" ELSE "eq"
VBool(bv) == [k |-> "bool", b |-> Z8, n |-> (IF bv THEN 1 ELSE 0), d |-> 1, t |-> ""]
VSign(s)  == [k |-> "sign", b |-> Z8, n |-> s, d |-> 1, t |-> ""]
Undef(x, y) == IF x.k = "opq" \/ y.k = "opq" THEN Opq
               ELSE IF x.k = "idef" \/ y.k = "idef" THEN IDef ELSE AnyRes
GreaterRes(x, y) == LET c == Cmp(x, y) IN IF c = "na" THEN Undef(x, y) ELSE VBool(c = "gt")
SmallerRes(x, y) == LET c == Cmp(x, y) IN IF c = "na" THEN Undef(x, y) ELSE VBool(c = "lt")
SignRes(x)       == IF ~IsKnown(x) \/ IsNaN(x) THEN Undef(x, x) ELSE VSign(SignV(x))
\* the result of Min/Max is the chosen operand as the receiver represents it; equal views: either
\* (they are the same value up to the sign of zero)
TieOf(x) == IF IsZeroV(x) THEN VZero ELSE x
MinRes(x, y) == LET c == Cmp(x, y) IN
                IF c = "na" THEN Undef(x, y) ELSE IF c = "gt" THEN y ELSE IF c = "eq" THEN TieOf(x) ELSE x
MaxRes(x, y) == LET c == Cmp(x, y) IN
                IF c = "na" THEN Undef(x, y) ELSE IF c = "lt" THEN y ELSE IF c = "eq" THEN TieOf(x) ELSE x

(* ------------------------------------- Set, Neg, Abs: exact on every receiver *)
\* v: the operand's own value, x: its view in the receiver's type R
\* |v| of an operand the integer receiver cannot represent: convert-then-abs and abs-then-convert differ
UnaryExact(op, R, v, x) ==
  IF x.k = "idef" THEN IDef
  ELSE IF x.k = "opq" THEN Opq
  ELSE IF op = "Set" THEN x
  ELSE IF Cls(R) = "int" THEN (IF op = "Neg" THEN IntNeg(R, x) ELSE IF x # v THEN AnyRes ELSE IntAbs(R, x))
  ELSE IF op = "Neg" THEN (IF IsZeroV(x) THEN VZero ELSE NegV(x))
  ELSE IF IsNaN(x) THEN AnyRes ELSE IF IsZeroV(x) THEN VTok("pzero") ELSE AbsV(x)

(* ----------------------- IEEE result class of floating-point operations *)
\* class of a float view: "nan" "pinf" "ninf" "zero" "pos" "neg"
ClassOf(v) == IF IsNaN(v) THEN "nan" ELSE IF v.k = "tok" /\ v.t = "pinf" THEN "pinf"
              ELSE IF v.k = "tok" /\ v.t = "ninf" THEN "ninf" ELSE IF IsZeroV(v) THEN "zero"
              ELSE IF SignV(v) > 0 THEN "pos" ELSE "neg"
IsSpecialOperand(v) == v.k = "tok" /\ v.t # "nzero"
NoSpecial == [k |-> "none", b |-> Z8, n |-> 0, d |-> 1, t |-> ""]
VTerm(e)  == [k |-> "term", e |-> e]
InfOf(s)  == IF s > 0 THEN PInf ELSE NInf_

\* Gamma(x) < 0 exactly on (-1,0), (-3,-2), (-5,-4), ...
GammaNegative(x) == x.k = "rat" /\ x.n < 0 /\ ((-x.n) \div x.d) % 2 = 0
\* outside the domain of an operation nothing is demanded of the VALUE, but equal operands must still
\* give equal results on every scalar type: the driver compares the NaN-ness across receiver types
AgreeRes == [k |-> "agree", b |-> Z8, n |-> 0, d |-> 1, t |-> ""]

\* unary operations: result demanded for the operand view x where the operation defines one
\* although x is not an ordinary point; NoSpecial = evaluate the meaning term; AnyRes = unconstrained
Special1(op, x) ==
  LET c == ClassOf(x) IN
  IF c = "nan" THEN (IF op = "Abs" THEN AnyRes ELSE NaN)
  ELSE IF c = "pinf" THEN
    CASE op \in {"Abs", "Sqrt", "Sinh", "Cosh", "Exp", "Log", "Log1p", "Log1pExp", "Gamma", "Lgamma"} -> PInf
      [] op = "Neg" -> NInf_
      [] op \in {"Sin", "Cos", "Tan"} -> NaN
      [] op \in {"Tanh", "Logistic", "Sigmoid", "Erf"} -> VI(1)
      [] op = "Erfc" -> VZero
      [] op = "LogErfc" -> NInf_
      [] OTHER -> AnyRes
  ELSE IF c = "ninf" THEN
    CASE op \in {"Neg", "Abs", "Cosh"} -> PInf
      [] op = "Sinh" -> NInf_
      [] op \in {"Sin", "Cos", "Tan", "Log", "Log1p", "Sqrt"} -> NaN      \* IEEE 754: sqrt(-Inf) is invalid
      [] op \in {"Tanh", "Erf"} -> VI(-1)
      [] op \in {"Exp", "Log1pExp", "Logistic", "Sigmoid"} -> VZero
      [] op = "Erfc" -> VI(2)
      [] op = "LogErfc" -> VTerm(Log(Two))
      [] OTHER -> AnyRes                                       \* Gamma, Lgamma of -Inf: outside the domain
  ELSE IF c = "zero" THEN
    CASE op = "Log" -> NInf_
      [] op = "Abs" -> VTok("pzero")                        \* |-0| = +0: the sign bit is cleared
      [] op = "Neg" -> VZero                                \* a zero (sign unconstrained)
      [] op \in {"Gamma", "Lgamma"} -> AnyRes                  \* pole
      [] OTHER -> NoSpecial
  ELSE IF op = "Log1p" /\ x = VI(-1) THEN NInf_
  ELSE IF op = "Lgamma" /\ GammaNegative(x) THEN NaN          \* log Gamma(x) where Gamma(x) < 0: undefined
  ELSE NoSpecial

\* binary operations on float views x, y
Special2(op, x, y) ==
  LET cx == ClassOf(x)  cy == ClassOf(y)
      sx == IF NegBit(x) THEN -1 ELSE 1
      sy == IF NegBit(y) THEN -1 ELSE 1
      infx == cx \in {"pinf", "ninf"}  infy == cy \in {"pinf", "ninf"}
  IN
  CASE op \in {"Add", "Sub"} ->
         LET ty == IF op = "Sub" THEN -sy ELSE sy IN
         IF cx = "nan" \/ cy = "nan" THEN NaN
         ELSE IF infx /\ infy THEN (IF sx = ty THEN InfOf(sx) ELSE NaN)
         ELSE IF infx THEN InfOf(sx) ELSE IF infy THEN InfOf(ty) ELSE NoSpecial
    [] op = "Mul" ->
         IF cx = "nan" \/ cy = "nan" THEN NaN
         ELSE IF (infx /\ cy = "zero") \/ (infy /\ cx = "zero") THEN NaN
         ELSE IF infx \/ infy THEN InfOf(sx * sy) ELSE NoSpecial
    [] op = "Div" ->
         IF cx = "nan" \/ cy = "nan" THEN NaN
         ELSE IF (infx /\ infy) \/ (cx = "zero" /\ cy = "zero") THEN NaN
         ELSE IF infx THEN InfOf(sx * sy)
         ELSE IF infy THEN VZero
         ELSE IF cy = "zero" THEN InfOf(sx * sy)
         ELSE NoSpecial
    [] op = "Pow" ->
         IF cy = "zero" THEN VI(1)                              \* x^0 = 1 for every x, NaN included (IEEE 754 pow)
         ELSE IF cx = "nan" \/ cy = "nan" THEN (IF x = VI(1) THEN VI(1) ELSE NaN)
         ELSE IF cx = "pinf" THEN (IF sy > 0 THEN PInf ELSE VZero)
         ELSE IF cy = "pinf" /\ cx = "pos" THEN
                (IF x = VI(1) THEN VI(1) ELSE IF LtV(VI(1), x) THEN PInf ELSE VZero)
         ELSE IF cy = "ninf" /\ cx = "pos" THEN
                (IF x = VI(1) THEN VI(1) ELSE IF LtV(VI(1), x) THEN VZero ELSE PInf)
         ELSE IF infx \/ infy THEN AnyRes
         ELSE IF cx = "zero" THEN (IF sy > 0 THEN VZero ELSE IF ~NegBit(x) THEN PInf ELSE AnyRes)
         ELSE NoSpecial
    [] op = "LogAdd" ->          \* log(e^x + e^y)
         IF cx = "nan" \/ cy = "nan" THEN NaN
         ELSE IF cx = "pinf" \/ cy = "pinf" THEN PInf
         ELSE IF cx = "ninf" THEN y ELSE IF cy = "ninf" THEN x ELSE NoSpecial
    [] op = "LogSub" ->          \* log(e^x - e^y), x >= y
         IF cx = "nan" \/ cy = "nan" THEN NaN
         ELSE IF cy = "ninf" THEN x
         ELSE IF cx = "pinf" /\ cy # "pinf" THEN PInf
         ELSE IF infx \/ infy THEN AnyRes
         ELSE IF Cmp(x, y) = "eq" THEN NInf_
         ELSE NoSpecial
    [] OTHER -> NoSpecial

(* -------------------------------------------------- domains (finite operands) *)
\* is the finite non-special operand view x inside the domain of the unary operation?
\* (outside: nothing is demanded)
GtV(a, b) == LtV(b, a)
InDomain1(op, x) ==
  CASE op \in {"Sqrt"}                  -> ~NegBit(x) \/ IsZeroV(x)
    [] op \in {"Log"}                   -> SignV(x) >= 0
    [] op \in {"Log1p"}                 -> ~LtV(x, VI(-1))
    [] op \in {"Gamma", "Lgamma"}       -> SignV(x) > 0 \/ x.k = "rat"        \* not a pole (0, -1, -2, ...)
    [] OTHER                            -> TRUE
InDomain2(op, x, y) ==
  CASE op = "Pow"    -> SignV(x) > 0 \/ (y.k = "int") \/ SignV(x) = 0
    [] op = "LogSub" -> ~LtV(x, y)
    [] OTHER         -> TRUE
=============================================================================
