--------------------------------- MODULE Rat ---------------------------------
(***************************************************************************)
(* Exact rational arithmetic for the numeric specifications (linear        *)
(* algebra over small integer matrices, HMM path sums, closed-form         *)
(* estimators, discrete probability mass functions).  A rational is a      *)
(* normalised record [n |-> numerator, d |-> denominator] with d > 0 and   *)
(* gcd(|n|, d) = 1.  TLC integers are 32 bit: every constructor checks     *)
(* that numerator and denominator stay below Bound and fails loudly (an    *)
(* Assert, reported as an infrastructure error, never as a verdict).       *)
(***************************************************************************)
EXTENDS Integers, Sequences, TLC

Bound == 1000000000

RAbs(x) == IF x < 0 THEN -x ELSE x
RECURSIVE Gcd(_, _)
Gcd(a, b) == IF b = 0 THEN a ELSE Gcd(b, a % b)

Rat(n, d) ==
  LET s == IF d < 0 THEN -1 ELSE 1
      g == Gcd(RAbs(n), RAbs(d))
      nn == (s * n) \div g
      dd == (s * d) \div g
  IN IF d = 0 THEN Assert(FALSE, <<"Rat: zero denominator", n, d>>)
     ELSE IF RAbs(nn) > Bound \/ dd > Bound THEN Assert(FALSE, <<"Rat: overflow", n, d>>)
     ELSE [n |-> nn, d |-> dd]

RInt(i)   == [n |-> i, d |-> 1]
RZero     == RInt(0)
ROne      == RInt(1)
RIsZero(a) == a.n = 0
RNeg(a)    == [n |-> -a.n, d |-> a.d]
RAdd(a, b) == LET g == Gcd(a.d, b.d) IN Rat(a.n * (b.d \div g) + b.n * (a.d \div g), (a.d \div g) * b.d)
RSub(a, b) == RAdd(a, RNeg(b))
RMul(a, b) == LET g1 == Gcd(RAbs(a.n), b.d)  g2 == Gcd(RAbs(b.n), a.d)
              IN Rat((a.n \div (IF g1 = 0 THEN 1 ELSE g1)) * (b.n \div (IF g2 = 0 THEN 1 ELSE g2)),
                     (a.d \div (IF g2 = 0 THEN 1 ELSE g2)) * (b.d \div (IF g1 = 0 THEN 1 ELSE g1)))
RInv(a)    == Rat(a.d, a.n)
RDiv(a, b) == RMul(a, RInv(b))
RLt(a, b)  == a.n * b.d < b.n * a.d
RLe(a, b)  == a.n * b.d <= b.n * a.d
REq(a, b)  == a.n = b.n /\ a.d = b.d
RMax(a, b) == IF RLt(a, b) THEN b ELSE a
RMin(a, b) == IF RLt(a, b) THEN a ELSE b
RSign(a)   == IF a.n > 0 THEN 1 ELSE IF a.n < 0 THEN -1 ELSE 0

RECURSIVE RSumSeq(_)
RSumSeq(s) == IF s = <<>> THEN RZero ELSE RAdd(Head(s), RSumSeq(Tail(s)))
RECURSIVE RProdSeq(_)
RProdSeq(s) == IF s = <<>> THEN ROne ELSE RMul(Head(s), RProdSeq(Tail(s)))
RECURSIVE RPow(_, _)
RPow(a, k) == IF k = 0 THEN ROne ELSE RMul(a, RPow(a, k - 1))

(* dot product of two sequences of rationals *)
RDot(u, v) == RSumSeq([i \in 1..Len(u) |-> RMul(u[i], v[i])])
=============================================================================
