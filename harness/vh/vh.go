// Package vh holds the small utilities shared by all conformance drivers:
// ndjson I/O, panic capture, seeded RNG helpers.
package vh

import (
	"bufio"
	"encoding/json"
	"fmt"
	"os"
	"strconv"
	"sync"
	"time"
)

// EachLine calls f for every non-empty line of the file (lines may be long).
func EachLine(path string, f func(line []byte) error) error {
	fh, err := os.Open(path)
	if err != nil {
		return err
	}
	defer fh.Close()
	r := bufio.NewReaderSize(fh, 1<<20)
	for {
		line, err := r.ReadBytes('\n')
		if len(line) > 1 {
			if e := f(line); e != nil {
				return e
			}
		}
		if err != nil {
			break
		}
	}
	return nil
}

// Out is an ndjson writer safe for concurrent use.
type Out struct {
	mu sync.Mutex
	w  *bufio.Writer
	f  *os.File
	N  int
}

func NewOut(path string) *Out {
	f, err := os.Create(path)
	if err != nil {
		fmt.Fprintln(os.Stderr, "cannot create", path, err)
		os.Exit(3)
	}
	return &Out{w: bufio.NewWriterSize(f, 1<<20), f: f}
}

func (o *Out) Put(v interface{}) {
	b, err := json.Marshal(v)
	if err != nil {
		fmt.Fprintln(os.Stderr, "marshal:", err)
		os.Exit(3)
	}
	o.mu.Lock()
	o.w.Write(b)
	o.w.WriteByte('\n')
	o.N++
	o.mu.Unlock()
}

func (o *Out) Flush() {
	o.mu.Lock()
	o.w.Flush()
	o.mu.Unlock()
}

func (o *Out) Close() {
	o.mu.Lock()
	o.w.Flush()
	o.f.Close()
	o.mu.Unlock()
}

// Try runs f and reports a recovered panic as a string ("" = no panic).
func Try(f func()) (msg string) {
	defer func() {
		if r := recover(); r != nil {
			msg = fmt.Sprint(r)
			if msg == "" {
				msg = "panic"
			}
			if len(msg) > 300 {
				msg = msg[:300]
			}
		}
	}()
	f()
	return ""
}

// M is shorthand for a JSON object.
type M = map[string]interface{}

// Mismatch writes one discrepancy record understood by bin/check.
func Mismatch(o *Out, sig M, detail M) {
	o.Put(M{"kind": "mismatch", "sig": sig, "detail": detail})
}

func Summary(o *Out, m M) {
	m["kind"] = "summary"
	o.Put(m)
}

func EnvInt(name string, def int) int {
	if s := os.Getenv(name); s != "" {
		if v, err := strconv.Atoi(s); err == nil {
			return v
		}
	}
	return def
}

func Fatal(a ...interface{}) {
	fmt.Fprintln(os.Stderr, a...)
	os.Exit(3)
}

// Watchdog turns a hang of the real code into an observation: if one unit of
// work (Begin..End) exceeds the limit, a mismatch {"what":"timeout"} carrying
// the unit's description is written, the output is flushed and the process
// exits with status 0 (the orchestrator reads the record; the remaining cases
// are reported as not executed in the summary).
type Watchdog struct {
	mu    sync.Mutex
	cur   interface{}
	start time.Time
	busy  bool
}

func NewWatchdog(limit time.Duration, out *Out, sig M) *Watchdog {
	w := &Watchdog{}
	go func() {
		for {
			time.Sleep(limit / 4)
			w.mu.Lock()
			if w.busy && time.Since(w.start) > limit {
				s := M{}
				for k, v := range sig {
					s[k] = v
				}
				s["what"] = "timeout"
				Mismatch(out, s, M{"case": w.cur, "limit_s": limit.Seconds()})
				Summary(out, M{"aborted": "timeout"})
				out.Close()
				os.Exit(0)
			}
			w.mu.Unlock()
		}
	}()
	return w
}

func (w *Watchdog) Begin(cur interface{}) {
	w.mu.Lock()
	w.cur, w.start, w.busy = cur, time.Now(), true
	w.mu.Unlock()
}

func (w *Watchdog) End() {
	w.mu.Lock()
	w.busy = false
	w.mu.Unlock()
}
