// Conformance driver of the engine `scalartypes` (property C02: every scalar
// type computes the mathematical function its method names).
//
//	scalartypes replay <cases.ndjson> <results.ndjson>
//	    executes every case printed by spec/ScalarTypesCases.tla on the real scalar
//	    types through the ConstScalar / Scalar / MagicScalar interfaces (and, where
//	    the operand types allow it, the type-specific CAPITAL methods), reads the
//	    receiver back and compares with the result the specification demands:
//	    integers and exact values exactly, meaning terms within the precision of the
//	    receiver's storage type (harness/exprlib), IEEE tokens by class, conversions
//	    by value and dynamic type, panics against "panic allowed".
//	scalartypes record <trace.ndjson> <ntraces> <nops>
//	    seeded random operation sequences over a pool of scalars of all sixteen
//	    types (slots change their type through conversions); one event per call
//	    for spec/ScalarTypesTrace.tla.
package main

import (
	"fmt"
	"os"
)

func main() {
	if len(os.Args) < 2 {
		fmt.Fprintln(os.Stderr, "usage: scalartypes replay|record ...")
		os.Exit(3)
	}
	switch os.Args[1] {
	case "replay":
		replayMain(os.Args[2:])
	case "record":
		recordMain(os.Args[2:])
	default:
		fmt.Fprintln(os.Stderr, "unknown sub-command", os.Args[1])
		os.Exit(3)
	}
}
