package main

import (
	"fmt"
	"math"
	"math/rand"
	"os"
	"strconv"

	ad "github.com/pbenner/autodiff"

	"verifharness/vh"
)

// The recorder: seeded random operation sequences over a pool of scalars of all
// sixteen types.  A slot is overwritten by the result of a conversion / clone /
// registry constructor, so its TYPE changes and values drift through conversions.
// One event per call with the value read back from the real scalar; the trace
// specification keeps its own pool and must arrive at the same values.

const poolSize = 20

type slot struct {
	s  ad.ConstScalar
	ty string
}

func valueOf(s ad.ConstScalar, ty string) Val {
	ti := types[ty]
	if ti.cls == "int" {
		return intVal(s.GetInt64())
	}
	return classify(s.GetFloat64())
}

var panicVal = mkVal("panic", 0, 1, "")

func boolVal(b bool) Val {
	if b {
		return mkVal("bool", 1, 1, "")
	}
	return mkVal("bool", 0, 1, "")
}

var floatSeeds = []float64{0, 1, -1, 2, -3, 0.5, -1.5, 2.5, 0.25, 7, 100, 127.5, -128.5, 128.5, 255, 256, -300.75,
	32767.5, 65536, 3e9, -3e9, 2147483648, 4294967296, 1e15, 9007199254740992, -9223372036854775808.0,
	9223372036854775808.0, math.Ldexp(1, 100), math.Inf(1), math.Inf(-1), math.NaN(), math.Copysign(0, -1), 16777217}

func randInt(rng *rand.Rand, bits int) int64 {
	max := int64(1)<<(bits-1) - 1
	min := -max - 1
	switch rng.Intn(12) {
	case 0:
		return max
	case 1:
		return min
	case 2:
		return max - int64(rng.Intn(3))
	case 3:
		return min + int64(rng.Intn(3))
	case 4:
		return 0
	case 5:
		return int64(rng.Intn(7)) - 3
	case 6:
		return (max / 2) + int64(rng.Intn(5))
	case 7:
		if bits > 32 {
			return int64(1)<<uint(20+rng.Intn(40)) + int64(rng.Intn(3)) - 1
		}
		return int64(rng.Intn(200)) - 100
	default:
		return int64(rng.Intn(400)) - 200
	}
}

func randValFor(rng *rand.Rand, ty string) Val {
	ti := types[ty]
	if ti == nil {
		ti = baseInfo[ty]
	}
	if ti.cls == "int" {
		v := randInt(rng, ti.bits)
		// keep inside the type
		switch ti.bits {
		case 8:
			v = int64(int8(v))
		case 16:
			v = int64(int16(v))
		case 32:
			v = int64(int32(v))
		}
		return intVal(v)
	}
	f := floatSeeds[rng.Intn(len(floatSeeds))]
	if ti.bits == 32 {
		f = float64(float32(f))
	}
	return classify(f)
}

func recordMain(args []string) {
	if len(args) < 3 {
		vh.Fatal("usage: scalartypes record <trace.ndjson> <ntraces> <nops>")
	}
	out := vh.NewOut(args[0])
	defer out.Close()
	ntr, _ := strconv.Atoi(args[1])
	nops, _ := strconv.Atoi(args[2])
	seed := vh.EnvInt("VERIF_SEED", 1)
	rng := rand.New(rand.NewSource(int64(seed)*7919 + 17))
	nev := 0
	counts := map[string]int{}
	for tr := 0; tr < ntr; tr++ {
		pool := make([]slot, poolSize)
		plog := make([]vh.M, poolSize)
		for i := range pool {
			ty := typeOrder[i%len(typeOrder)]
			if i >= len(typeOrder) {
				ty = typeOrder[rng.Intn(len(typeOrder))]
			}
			v := randValFor(rng, ty)
			for v.K == "opq" {
				v = randValFor(rng, ty)
			}
			pool[i] = slot{mk(ty, v), ty}
			plog[i] = vh.M{"t": ty, "v": valueOf(pool[i].s, ty)}
		}
		out.Put(vh.M{"e": "init", "pool": plog})
		nev++
		writable := func() int {
			var w []int
			for i, s := range pool {
				if types[s.ty].kind != "const" {
					w = append(w, i)
				}
			}
			if len(w) == 0 {
				return -1
			}
			return w[rng.Intn(len(w))]
		}
		for n := 0; n < nops; n++ {
			a, b := rng.Intn(poolSize), rng.Intn(poolSize)
			p := rng.Intn(100)
			ev := vh.M{"r": 0, "a": a + 1, "b": b + 1, "tt": "", "base": "", "ty": ""}
			switch {
			case p < 45: // write operations
				r := writable()
				if r < 0 {
					continue
				}
				ops := []string{"Add", "Sub", "Mul", "Div", "Min", "Max", "Add", "Mul", "Sub", "Set", "Neg", "Abs"}
				op := ops[rng.Intn(len(ops))]
				rs := pool[r].s.(ad.Scalar)
				msg := vh.Try(func() {
					switch op {
					case "Add":
						rs.Add(pool[a].s, pool[b].s)
					case "Sub":
						rs.Sub(pool[a].s, pool[b].s)
					case "Mul":
						rs.Mul(pool[a].s, pool[b].s)
					case "Div":
						rs.Div(pool[a].s, pool[b].s)
					case "Min":
						rs.Min(pool[a].s, pool[b].s)
					case "Max":
						rs.Max(pool[a].s, pool[b].s)
					case "Set":
						rs.Set(pool[a].s)
					case "Neg":
						rs.Neg(pool[a].s)
					case "Abs":
						rs.Abs(pool[a].s)
					}
				})
				ev["e"], ev["r"] = op, r+1
				if msg != "" {
					ev["out"] = panicVal
				} else {
					ev["out"] = valueOf(pool[r].s, pool[r].ty)
				}
			case p < 53: // setters with a literal
				r := writable()
				if r < 0 {
					continue
				}
				bases := []string{"int8", "int16", "int32", "int64", "int", "float32", "float64"}
				base := bases[rng.Intn(len(bases))]
				x := randValFor(rng, base)
				for x.K == "opq" {
					x = randValFor(rng, base)
				}
				rs := pool[r].s.(ad.Scalar)
				switch base {
				case "int8":
					rs.SetInt8(int8(x.Int64()))
				case "int16":
					rs.SetInt16(int16(x.Int64()))
				case "int32":
					rs.SetInt32(int32(x.Int64()))
				case "int64":
					rs.SetInt64(x.Int64())
				case "int":
					rs.SetInt(int(x.Int64()))
				case "float32":
					rs.SetFloat32(float32(x.Float()))
				case "float64":
					rs.SetFloat64(x.Float())
				}
				ev["e"], ev["r"], ev["base"], ev["x"] = "Setter", r+1, base, x
				ev["out"] = valueOf(pool[r].s, pool[r].ty)
			case p < 63: // getters
				bases := []string{"int8", "int16", "int32", "int64", "int", "float32", "float64"}
				base := bases[rng.Intn(len(bases))]
				s := pool[a].s
				var v Val
				switch base {
				case "int8":
					v = intVal(int64(s.GetInt8()))
				case "int16":
					v = intVal(int64(s.GetInt16()))
				case "int32":
					v = intVal(int64(s.GetInt32()))
				case "int64":
					v = intVal(s.GetInt64())
				case "int":
					v = intVal(int64(s.GetInt()))
				case "float32":
					v = classify(float64(s.GetFloat32()))
				case "float64":
					v = classify(s.GetFloat64())
				}
				ev["e"], ev["base"], ev["out"] = "Get", base, v
			case p < 71: // comparisons and sign
				switch rng.Intn(3) {
				case 0:
					ev["e"], ev["out"] = "Greater", boolVal(pool[a].s.Greater(pool[b].s))
				case 1:
					ev["e"], ev["out"] = "Smaller", boolVal(pool[a].s.Smaller(pool[b].s))
				default:
					ev["e"], ev["out"] = "Sign", mkVal("sign", int64(pool[a].s.Sign()), 1, "")
				}
			case p < 93: // conversions and clones: slot r is replaced
				r := rng.Intn(poolSize)
				tt := typeOrder[rng.Intn(len(typeOrder))]
				ops := []string{"ConvertConstScalar", "ConvertConstScalar", "ConvertScalar", "ConvertScalar", "ConvertMagicScalar",
					"CloneConstScalar", "CloneScalar", "CloneMagicScalar"}
				op := ops[rng.Intn(len(ops))]
				src := pool[a]
				skt := types[src.ty].kind
				// the static interface decides what can be called at all
				if (op == "ConvertScalar" || op == "CloneScalar") && skt == "const" {
					op = "ConvertConstScalar"
				}
				if (op == "ConvertMagicScalar" || op == "CloneMagicScalar") && skt != "magic" {
					op = "ConvertConstScalar"
				}
				if tt == src.ty && (op == "ConvertConstScalar" || op == "ConvertScalar" || op == "ConvertMagicScalar") {
					// a conversion to the scalar's own type may return the scalar itself: keep it in
					// its slot (two slots sharing one scalar is aliasing, property C08, not C02)
					r = a
				}
				var res ad.ConstScalar
				msg := vh.Try(func() {
					switch op {
					case "ConvertConstScalar":
						res = src.s.ConvertConstScalar(types[tt].st)
					case "ConvertScalar":
						res = src.s.(ad.Scalar).ConvertScalar(types[tt].st)
					case "ConvertMagicScalar":
						res = src.s.(ad.MagicScalar).ConvertMagicScalar(types[tt].st)
					case "CloneConstScalar":
						res = src.s.CloneConstScalar()
					case "CloneScalar":
						res = src.s.(ad.Scalar).CloneScalar()
					case "CloneMagicScalar":
						res = src.s.(ad.MagicScalar).CloneMagicScalar()
					}
				})
				ev["e"], ev["r"], ev["tt"] = op, r+1, tt
				if msg != "" || res == nil {
					ev["out"] = panicVal
				} else {
					dyn := typeNameOf(res)
					if types[dyn] == nil {
						ev["out"], ev["ty"] = mkVal("opq", 0, 1, ""), dyn
					} else {
						pool[r] = slot{res, dyn}
						ev["out"], ev["ty"] = valueOf(res, dyn), dyn
					}
				}
			default: // registry constructors
				r := rng.Intn(poolSize)
				tt := typeOrder[rng.Intn(len(typeOrder))]
				x := randValFor(rng, "float64")
				for x.K == "opq" {
					x = randValFor(rng, "float64")
				}
				ops := []string{"NewConstScalar", "NewScalar", "NewMagicScalar"}
				op := ops[rng.Intn(len(ops))]
				var res ad.ConstScalar
				msg := vh.Try(func() {
					switch op {
					case "NewConstScalar":
						res = ad.NewConstScalar(types[tt].st, x.Float())
					case "NewScalar":
						res = ad.NewScalar(types[tt].st, x.Float())
					case "NewMagicScalar":
						res = ad.NewMagicScalar(types[tt].st, x.Float())
					}
				})
				ev["e"], ev["r"], ev["tt"], ev["x"] = op, r+1, tt, x
				if msg != "" || res == nil {
					ev["out"] = panicVal
				} else {
					dyn := typeNameOf(res)
					if types[dyn] == nil {
						ev["out"], ev["ty"] = mkVal("opq", 0, 1, ""), dyn
					} else {
						pool[r] = slot{res, dyn}
						ev["out"], ev["ty"] = valueOf(res, dyn), dyn
					}
				}
			}
			counts[fmt.Sprint(ev["e"])]++
			out.Put(ev)
			nev++
		}
	}
	fmt.Fprintf(os.Stderr, "recorded %d events in %d traces: %v\n", nev, ntr, counts)
}
