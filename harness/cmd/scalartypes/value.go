package main

import (
	"encoding/json"
	"fmt"
	"math"
)

// Val is a value of spec/ScalarTypes.tla: one record shape for every kind.
//
//	int   exact integer, two's complement, eight digits base 256, little endian (b)
//	rat   n/d, d a power of two
//	tok   "nzero" "pzero" "pinf" "ninf" "nan"
//	huge  n * 2^d  (n = +-1, d >= 63)
//	term  meaning term (e), evaluated by exprlib
//	bool / sign  (n)
//	panic any idef opq none
type Val struct {
	K string          `json:"k"`
	B []int           `json:"b"`
	N int64           `json:"n"`
	D int64           `json:"d"`
	T string          `json:"t"`
	E json.RawMessage `json:"e,omitempty"`
}

func (v Val) IsNumber() bool {
	return v.K == "int" || v.K == "rat" || v.K == "tok" || v.K == "huge" || v.K == "tiny"
}

// Int64 of an "int" value.
func (v Val) Int64() int64 {
	var u uint64
	for i := 7; i >= 0; i-- {
		u = u<<8 | uint64(v.B[i]&0xff)
	}
	return int64(u)
}

// Float is the float64 the value denotes (exact for everything the specification
// lets a floating-point type hold; an int64 beyond 2^53 is rounded by Go here, which
// only matters for operands of integer types used as evaluation points).
func (v Val) Float() float64 {
	switch v.K {
	case "int":
		return float64(v.Int64())
	case "rat":
		return float64(v.N) / float64(v.D)
	case "huge":
		return math.Ldexp(float64(v.N), int(v.D))
	case "tiny":
		return math.Ldexp(float64(v.N), -int(v.D))
	case "tok":
		switch v.T {
		case "nzero":
			return math.Copysign(0, -1)
		case "pzero":
			return 0
		case "pinf":
			return math.Inf(1)
		case "ninf":
			return math.Inf(-1)
		case "nan":
			return math.NaN()
		}
	}
	panic(fmt.Sprintf("value %+v has no float", v))
}

func (v Val) String() string {
	switch v.K {
	case "int":
		return fmt.Sprintf("%d", v.Int64())
	case "rat":
		return fmt.Sprintf("%d/%d", v.N, v.D)
	case "huge":
		return fmt.Sprintf("%d*2^%d", v.N, v.D)
	case "tiny":
		return fmt.Sprintf("%d*2^-%d", v.N, v.D)
	case "tok":
		return v.T
	case "bool", "sign":
		return fmt.Sprintf("%s:%d", v.K, v.N)
	case "term":
		return "term"
	}
	return v.K
}

func intVal(i int64) Val {
	b := make([]int, 8)
	u := uint64(i)
	for k := 0; k < 8; k++ {
		b[k] = int(u & 0xff)
		u >>= 8
	}
	return Val{K: "int", B: b, N: 0, D: 1, T: ""}
}

var z8 = []int{0, 0, 0, 0, 0, 0, 0, 0}

func mkVal(k string, n, d int64, t string) Val { return Val{K: k, B: z8, N: n, D: d, T: t} }

// classify names a float64 in the value domain of the specification ("opq" if it
// has no name there: not a dyadic rational with numerator below 2^30 and
// denominator at most 2^25, not an integer of the int64 range, not a power of two).
func classify(f float64) Val {
	switch {
	case math.IsNaN(f):
		return mkVal("tok", 0, 1, "nan")
	case math.IsInf(f, 1):
		return mkVal("tok", 0, 1, "pinf")
	case math.IsInf(f, -1):
		return mkVal("tok", 0, 1, "ninf")
	case f == 0 && math.Signbit(f):
		return mkVal("tok", 0, 1, "nzero")
	}
	if f == math.Trunc(f) {
		if f >= -9223372036854775808.0 && f < 9223372036854775808.0 {
			return intVal(int64(f))
		}
		fr, e := math.Frexp(f) // f = fr * 2^e, |fr| in [0.5, 1)
		if fr == 0.5 {
			return mkVal("huge", 1, int64(e-1), "")
		}
		if fr == -0.5 {
			return mkVal("huge", -1, int64(e-1), "")
		}
		return mkVal("opq", 0, 1, "")
	}
	// a power of two below the range of the small rationals (subnormal or near it)
	if fr, e := math.Frexp(f); (fr == 0.5 || fr == -0.5) && e-1 <= -31 {
		sgn := int64(1)
		if fr < 0 {
			sgn = -1
		}
		return mkVal("tiny", sgn, int64(-(e - 1)), "")
	}
	// dyadic rational n / 2^k
	d := int64(1)
	g := f
	for k := 0; k < 25; k++ {
		g *= 2
		d *= 2
		if g == math.Trunc(g) {
			if math.Abs(g) < 1<<29 {
				return mkVal("rat", int64(g), d, "")
			}
			break
		}
	}
	return mkVal("opq", 0, 1, "")
}
