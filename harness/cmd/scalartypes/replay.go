package main

import (
	"encoding/json"
	"fmt"
	"math"
	"os"
	"reflect"
	"sort"
	"strconv"
	"strings"

	ad "github.com/pbenner/autodiff"
	logarith "github.com/pbenner/autodiff/logarithmetic"
	"github.com/pbenner/autodiff/special"

	"verifharness/exprlib"
	"verifharness/vh"
)

type Arg struct {
	T string `json:"t"`
	V Val    `json:"v"`
}

// Case is one line printed by spec/ScalarTypesCases.tla.
type Case struct {
	G    string `json:"g"`
	Op   string `json:"op"`
	R    string `json:"r"`
	Args []Arg  `json:"args"`
	Par  *Val   `json:"par,omitempty"`
	Et   string `json:"et,omitempty"`
	St   string `json:"st,omitempty"` // storage of the vector / matrix operands: dense sparse
	Vec  []Val  `json:"vec,omitempty"`
	Vec2 []Val  `json:"vec2,omitempty"`
	Exp  Val    `json:"exp"`
	Dev  *Val   `json:"dev,omitempty"` // modelled known deviation (spec: KnownDeviation_*)
	Lo   *Val   `json:"lo,omitempty"`  // bounds the specification derives for the result (weighted mean)
	Hi   *Val   `json:"hi,omitempty"`
	Cond int    `json:"cond,omitempty"` // condition of a log-scale evaluation (relative error cond * u)
	Ty   string `json:"ty,omitempty"`
}

type metaRec struct {
	G        string   `json:"g"`
	IntWidth int      `json:"intwidth"`
	Orders   []int    `json:"orders"`
	Types    []string `json:"types"`
	Kinds    []string `json:"kinds"`
}

// outcome of one execution
type outcome struct {
	panicMsg string
	kind     string // value bool sign typed
	o        obs
	b        bool
	s        int
	ty       string
	note     string // secondary defect observed during the call: "returned", "operand_changed", "clone_shares"
}

type replayer struct {
	out     *vh.Out
	orders  []int
	counts  map[string]int
	perSig  map[string]int
	ops     map[string]bool
	recv    map[string]bool
	pairs   map[string]bool
	opRecv  map[string]bool
	terms   map[string]*exprlib.Term
	cross   map[string]crossRec
	agree   map[string]agreeRec
	nExec   int
	nJudged int
}

type agreeRec struct {
	nan      bool
	obs, who string
}

type crossRec struct {
	v, tol float64
	who    string
}

func (rp *replayer) count(k string) { rp.counts[k]++ }

func fam(name string) string {
	ti := types[name]
	if ti == nil {
		if _, ok := baseInfo[name]; ok {
			return "base"
		}
		return "-"
	}
	switch {
	case ti.kind == "const":
		return "const"
	case ti.kind == "magic":
		return "real"
	case ti.cls == "int":
		return "int"
	}
	return "float"
}

func (rp *replayer) mismatch(c *Case, rt string, what, impl string, order int, detail vh.M) {
	sig := vh.M{"engine": "scalartypes", "g": c.G, "op": c.Op, "rt": rt, "rfam": fam(rt), "what": what, "impl": impl}
	key := fmt.Sprint(c.G, c.Op, rt, what, impl)
	rp.perSig[key]++
	rp.count("mismatches")
	if rp.perSig[key] > 3 {
		return
	}
	detail["case"] = c
	detail["order"] = order
	detail["expected"] = c.Exp.String()
	vh.Mismatch(rp.out, sig, detail)
}

/* ------------------------------------------------------------------ terms */

func unitRoundoff(ti *tinfo) float64 {
	if ti.cls == "float" && ti.bits == 32 {
		return math.Ldexp(1, -23)
	}
	return math.Ldexp(1, -52)
}

func (rp *replayer) term(raw json.RawMessage) *exprlib.Term {
	k := string(raw)
	if t, ok := rp.terms[k]; ok {
		return t
	}
	t, err := exprlib.Parse(raw)
	if err != nil {
		vh.Fatal("bad term", k, err)
	}
	rp.terms[k] = t
	return t
}

// evalTerm evaluates the meaning term at the operands' own values.  tol bounds
// the error of a well-conditioned evaluation in the receiver's storage type: the
// evaluator's running bound plus the effect of rounding every operand to that type.
func evalTerm(t *exprlib.Term, xs []float64, u float64) (v, tol float64, status string) {
	env := exprlib.NewEnv(xs, u, 1)
	r := env.Eval(t)
	if !r.Finite() || env.Overflow {
		return 0, 0, "skipped_undefined"
	}
	if len(env.Ties) > 0 {
		return 0, 0, "skipped_ties"
	}
	spread := 0.0
	for i := range xs {
		if xs[i] == 0 || math.IsInf(xs[i], 0) || math.IsNaN(xs[i]) {
			continue
		}
		for _, s := range []float64{-1, 1} {
			ys := append([]float64(nil), xs...)
			ys[i] = xs[i] * (1 + s*u)
			e2 := exprlib.NewEnv(ys, u, 1)
			r2 := e2.Eval(t)
			if !r2.Finite() {
				return 0, 0, "skipped_undefined"
			}
			if d := math.Abs(r2.V - r.V); d > spread {
				spread = d
			}
		}
	}
	return r.V, 16*r.E + 4*spread, ""
}

/* ---------------------------------------------------------------- judging */

// judge compares one outcome with the demanded result.  Returns "" (agrees /
// nothing demanded) or the kind of disagreement.
func (rp *replayer) judge(c *Case, rt string, ti *tinfo, oc outcome, xs []float64, impl string, order int) {
	exp := c.Exp
	rp.nExec++
	switch exp.K {
	case "any":
		rp.count("unconstrained")
		return
	case "idef":
		rp.count("implementation_defined")
		return
	case "agree":
		// outside the domain: no value is demanded, but equal operands must give results of the
		// same kind (NaN or not) on every receiver type
		if oc.panicMsg != "" {
			rp.mismatch(c, rt, "panic", impl, order, vh.M{"panic": oc.panicMsg})
			return
		}
		key := "agree|" + c.Op + "|" + floatsKey(xs)
		isNaN := math.IsNaN(oc.o.f)
		if prev, ok := rp.agree[key]; ok {
			if prev.nan != isNaN {
				rp.mismatch(c, rt, "cross", impl, order, vh.M{"observed": oc.o.String(), "other": prev.obs, "other_instance": prev.who})
			} else {
				rp.count("agree_ok")
			}
		} else {
			rp.agree[key] = agreeRec{isNaN, oc.o.String(), describe(c)}
		}
		return
	case "opq", "none":
		vh.Fatal("case with expectation", exp.K)
	case "panic":
		if oc.panicMsg != "" {
			rp.count("panic_allowed_taken")
		} else {
			rp.count("panic_allowed_not_taken")
		}
		return
	}
	if oc.panicMsg != "" {
		rp.mismatch(c, rt, "panic", impl, order, vh.M{"panic": oc.panicMsg})
		return
	}
	rp.nJudged++
	if oc.note != "" {
		rp.mismatch(c, rt, oc.note, impl, order, vh.M{"observed": oc.o.String()})
		return
	}
	if c.Ty != "" && oc.kind == "typed" && oc.ty != c.Ty {
		rp.mismatch(c, rt, "type", impl, order, vh.M{"observed_type": oc.ty, "observed": oc.o.String()})
		return
	}
	switch exp.K {
	case "bool":
		if oc.kind != "bool" || oc.b != (exp.N == 1) {
			rp.mismatch(c, rt, "value", impl, order, vh.M{"observed": oc.b})
		}
		return
	case "sign":
		if oc.kind != "sign" || int64(oc.s) != exp.N {
			rp.mismatch(c, rt, "value", impl, order, vh.M{"observed": oc.s})
		}
		return
	case "term":
		t := rp.term(exp.E)
		u := unitRoundoff(ti)
		v, tol, status := evalTerm(t, xs, u)
		if status != "" {
			rp.count(status)
			return
		}
		// a miss that equals the modelled known deviation is reported as that deviation
		what := "value"
		if c.Dev != nil && c.Dev.K == "term" {
			if dv, dtol, st := evalTerm(rp.term(c.Dev.E), xs, u); st == "" {
				if ti.cls == "int" && math.Abs(float64(oc.o.i)-dv) < 1+dtol {
					what = "known_deviation"
				}
				if ti.cls != "int" && math.Abs(oc.o.f-dv) <= dtol+math.Abs(dv)*u {
					what = "known_deviation"
				}
			}
		}
		if ti.cls == "int" {
			// precision of an integer storage type: one unit
			lim := math.Ldexp(1, ti.bits-1) - 2
			if math.Abs(v) >= lim {
				rp.count("skipped_range")
				return
			}
			if !(math.Abs(float64(oc.o.i)-v) < 1+tol) {
				rp.mismatch(c, rt, what, impl, order, vh.M{"observed": oc.o.String(), "expected_value": fs(v), "tol": fs(1 + tol), "term": t.String()})
			} else {
				rp.count("term_int_ok")
			}
			return
		}
		maxf, minf := math.MaxFloat64/4, 4*math.SmallestNonzeroFloat64/u
		if ti.bits == 32 {
			maxf, minf = math.MaxFloat32/4, 4*float64(math.SmallestNonzeroFloat32)/u
		}
		if math.Abs(v) > maxf {
			rp.count("skipped_range")
			return
		}
		if v != 0 && math.Abs(v) < minf {
			// a result in or near the subnormal range: relative precision is not defined there, but
			// receivers of the same storage width must still agree (to a few subnormal steps)
			rp.count("skipped_range")
			step := math.SmallestNonzeroFloat64
			if ti.bits == 32 {
				step = float64(math.SmallestNonzeroFloat32)
			}
			key := fmt.Sprint("tiny|", ti.bits, "|", c.Op, "|", floatsKey(xs))
			if c.Par != nil {
				key += "|" + c.Par.String()
			}
			if prev, ok := rp.cross[key]; ok {
				if !(math.Abs(prev.v-oc.o.f) <= 4*step+4*u*math.Abs(prev.v)) {
					rp.mismatch(c, rt, "cross", impl, order, vh.M{"observed": fs(oc.o.f), "other": fs(prev.v), "other_instance": prev.who})
				} else {
					rp.count("cross_tiny_ok")
				}
			} else {
				rp.cross[key] = crossRec{oc.o.f, 0, describe(c)}
			}
			return
		}
		tol += minf*u + 16*float64(c.Cond)*u*math.Abs(v)
		if !(math.Abs(oc.o.f-v) <= tol) {
			rp.mismatch(c, rt, what, impl, order, vh.M{"observed": fs(oc.o.f), "expected_value": fs(v), "tol": fs(tol), "term": t.String()})
			return
		}
		rp.count("term_float_ok")
		// cross-type agreement: the same operation on the same operand values through
		// other receiver / operand types
		key := c.Op + "|" + floatsKey(xs)
		if c.Par != nil {
			key += "|" + c.Par.String()
		}
		if prev, ok := rp.cross[key]; ok {
			if !(math.Abs(prev.v-oc.o.f) <= prev.tol+tol) {
				rp.mismatch(c, rt, "cross", impl, order, vh.M{"observed": fs(oc.o.f), "other": fs(prev.v), "other_instance": prev.who, "tol": fs(prev.tol + tol)})
			} else {
				rp.count("cross_ok")
			}
		} else {
			rp.cross[key] = crossRec{oc.o.f, tol, describe(c)}
		}
		return
	}
	// exact value
	if !matchExact(exp, oc.o) {
		what := "value"
		if c.Dev != nil && c.Dev.IsNumber() && matchExact(*c.Dev, oc.o) {
			what = "known_deviation" // equals the modelled known deviation
		}
		rp.mismatch(c, rt, what, impl, order, vh.M{"observed": oc.o.String()})
		return
	}
	rp.count("exact_ok")
}

func floatsKey(xs []float64) string {
	var sb strings.Builder
	for _, x := range xs {
		sb.WriteString(strconv.FormatUint(math.Float64bits(x), 16))
		sb.WriteByte(',')
	}
	return sb.String()
}

func describe(c *Case) string {
	s := c.R + "." + c.Op + "("
	for i, a := range c.Args {
		if i > 0 {
			s += ","
		}
		s += a.T + " " + a.V.String()
	}
	if c.Et != "" {
		s += c.St + " " + c.Et
	}
	return s + ")"
}

/* -------------------------------------------------------------- execution */

// activate makes the magic scalars among xs independent variables of the given order
func activate(order int, xs ...ad.ConstScalar) {
	if order == 0 {
		return
	}
	var ms []ad.MagicScalar
	for _, x := range xs {
		if m, ok := x.(ad.MagicScalar); ok {
			ms = append(ms, m)
		}
	}
	if len(ms) > 0 {
		if err := ad.Variables(order, ms...); err != nil {
			panic(err)
		}
	}
}

func hasMagic(c *Case) bool {
	for _, a := range c.Args {
		if ti := types[a.T]; ti != nil && ti.kind == "magic" {
			return true
		}
	}
	if ti := types[c.Et]; ti != nil && ti.kind == "magic" {
		return true
	}
	return false
}

func tmp(rt string) ad.Scalar { return newReceiver(rt) }

func callScalarOp(op string, r ad.Scalar, rt string, a []ad.ConstScalar, par *Val) ad.Scalar {
	switch op {
	case "Set":
		r.Set(a[0])
		return r
	case "Neg":
		return r.Neg(a[0])
	case "Abs":
		return r.Abs(a[0])
	case "Sqrt":
		return r.Sqrt(a[0])
	case "Sin":
		return r.Sin(a[0])
	case "Sinh":
		return r.Sinh(a[0])
	case "Cos":
		return r.Cos(a[0])
	case "Cosh":
		return r.Cosh(a[0])
	case "Tan":
		return r.Tan(a[0])
	case "Tanh":
		return r.Tanh(a[0])
	case "Exp":
		return r.Exp(a[0])
	case "Log":
		return r.Log(a[0])
	case "Log1p":
		return r.Log1p(a[0])
	case "Log1pExp":
		return r.Log1pExp(a[0])
	case "Logistic":
		return r.Logistic(a[0])
	case "Sigmoid":
		return r.Sigmoid(a[0], tmp(rt))
	case "Erf":
		return r.Erf(a[0])
	case "Erfc":
		return r.Erfc(a[0])
	case "LogErfc":
		return r.LogErfc(a[0])
	case "Gamma":
		return r.Gamma(a[0])
	case "Lgamma":
		return r.Lgamma(a[0])
	case "Add":
		return r.Add(a[0], a[1])
	case "Sub":
		return r.Sub(a[0], a[1])
	case "Mul":
		return r.Mul(a[0], a[1])
	case "Div":
		return r.Div(a[0], a[1])
	case "Min":
		return r.Min(a[0], a[1])
	case "Max":
		return r.Max(a[0], a[1])
	case "Pow":
		return r.Pow(a[0], a[1])
	case "LogAdd":
		return r.LogAdd(a[0], a[1], tmp(rt))
	case "LogSub":
		return r.LogSub(a[0], a[1], tmp(rt))
	case "Mlgamma":
		return r.Mlgamma(a[0], int(par.Int64()))
	case "GammaP":
		return r.GammaP(par.Float(), a[0])
	case "BesselI":
		return r.BesselI(par.Float(), a[0])
	case "LogBesselI":
		m := reflect.ValueOf(r).MethodByName("LogBesselI")
		if !m.IsValid() {
			panic("no method LogBesselI")
		}
		res := m.Call([]reflect.Value{reflect.ValueOf(par.Float()), reflect.ValueOf(a[0])})
		s, _ := res[0].Interface().(ad.Scalar)
		return s
	}
	vh.Fatal("unbound operation", op)
	return nil
}

// callConcrete calls the type-specific CAPITAL variant of a method if the
// receiver has one whose parameters are exactly the operands' dynamic types.
func callConcrete(op string, r interface{}, a []ad.ConstScalar, extra []interface{}) (res []reflect.Value, ok bool) {
	m := reflect.ValueOf(r).MethodByName(strings.ToUpper(op))
	if !m.IsValid() {
		return nil, false
	}
	mt := m.Type()
	in := make([]reflect.Value, 0, len(a)+len(extra))
	for _, x := range a {
		in = append(in, reflect.ValueOf(x))
	}
	for _, x := range extra {
		in = append(in, reflect.ValueOf(x))
	}
	if mt.NumIn() != len(in) {
		return nil, false
	}
	for i := range in {
		if in[i].Type() != mt.In(i) {
			return nil, false
		}
	}
	return m.Call(in), true
}

func bitsOf(xs []ad.ConstScalar) []uint64 {
	out := make([]uint64, 0, 2*len(xs))
	for _, x := range xs {
		out = append(out, math.Float64bits(x.GetFloat64()), uint64(x.GetInt64()))
	}
	return out
}

func sameU(a, b []uint64) bool {
	for i := range a {
		if a[i] != b[i] {
			// NaN payloads are not compared
			if math.IsNaN(math.Float64frombits(a[i])) && math.IsNaN(math.Float64frombits(b[i])) {
				continue
			}
			return false
		}
	}
	return true
}

// runReceiverOp: groups un, ring, math1, math2, param (a receiver r of type c.R, scalar operands)
func (rp *replayer) runReceiverOp(c *Case) {
	ti := types[c.R]
	orders := []int{0}
	if hasMagic(c) {
		orders = rp.orders
	}
	xs := make([]float64, len(c.Args))
	for i, a := range c.Args {
		xs[i] = a.V.Float()
	}
	for _, order := range orders {
		for _, impl := range []string{"generic", "concrete"} {
			var oc outcome
			oc.kind = "value"
			skip := false
			oc.panicMsg = vh.Try(func() {
				ops := make([]ad.ConstScalar, len(c.Args))
				for i, a := range c.Args {
					ops[i] = mk(a.T, a.V)
				}
				activate(order, ops...)
				r := newReceiver(c.R)
				before := bitsOf(ops)
				var ret ad.ConstScalar
				if impl == "generic" {
					ret = callScalarOp(c.Op, r, c.R, ops, c.Par)
				} else {
					var extra []interface{}
					switch c.Op {
					case "LogAdd", "LogSub", "Sigmoid":
						extra = []interface{}{newReceiver(c.R)}
					case "Mlgamma":
						extra = []interface{}{int(c.Par.Int64())}
					}
					var res []reflect.Value
					var ok bool
					if c.Op == "GammaP" || c.Op == "BesselI" || c.Op == "LogBesselI" {
						skip = true
						return
					}
					res, ok = callConcrete(c.Op, r, ops, extra)
					if !ok {
						skip = true
						return
					}
					if len(res) == 1 {
						ret, _ = res[0].Interface().(ad.ConstScalar)
					} else if len(res) == 0 {
						ret = r // SET has no result
					}
				}
				oc.o = read(r, ti)
				if !sameU(before, bitsOf(ops)) {
					oc.note = "operand_changed"
				}
				if ret == nil || reflect.ValueOf(ret).Kind() == reflect.Ptr && reflect.ValueOf(ret).IsNil() {
					oc.note = "returned"
				} else if ro := read(ret, ti); !(ro.isInt && ro.i == oc.o.i) && !(!ro.isInt && sameBits(ro.f, oc.o.f)) {
					oc.note = "returned"
				}
			})
			if skip {
				continue
			}
			if impl == "concrete" {
				rp.count("concrete_calls")
			}
			rp.judge(c, c.R, ti, oc, xs, impl, order)
		}
	}
}

// vector / matrix reductions
func (rp *replayer) runVec(c *Case) {
	ti := types[c.R]
	eti := types[c.Et]
	orders := []int{0}
	if eti.kind == "magic" {
		orders = rp.orders
	}
	var xs []float64
	for _, v := range c.Vec {
		xs = append(xs, v.Float())
	}
	for _, v := range c.Vec2 {
		xs = append(xs, v.Float())
	}
	sparse := c.St == "sparse"
	isZero := func(x Val) bool { return x.K == "int" && x.Int64() == 0 }
	fill := func(vals []Val, order int) ad.Vector {
		var v ad.Vector
		if sparse {
			v = ad.NullSparseVector(eti.st, len(vals))
		} else {
			v = ad.NullDenseVector(eti.st, len(vals))
		}
		var els []ad.ConstScalar
		for i, x := range vals {
			if sparse && isZero(x) {
				continue // an entry that is not stored
			}
			v.At(i).Set(mk(c.Et, x))
			els = append(els, v.At(i))
		}
		activate(order, els...)
		return v
	}
	for _, order := range orders {
		var oc outcome
		oc.kind = "value"
		oc.panicMsg = vh.Try(func() {
			r := newReceiver(c.R)
			var ret ad.Scalar
			switch c.Op {
			case "Mtrace", "Mnorm":
				var m ad.Matrix
				if sparse {
					m = ad.NullSparseMatrix(eti.st, 2, 2)
				} else {
					m = ad.NullDenseMatrix(eti.st, 2, 2)
				}
				var els []ad.ConstScalar
				for i, x := range c.Vec {
					if sparse && isZero(x) {
						continue
					}
					m.At(i/2, i%2).Set(mk(c.Et, x))
					els = append(els, m.At(i/2, i%2))
				}
				activate(order, els...)
				if c.Op == "Mtrace" {
					ret = r.Mtrace(m)
				} else {
					ret = r.Mnorm(m)
				}
			case "Vmean":
				ret = r.Vmean(fill(c.Vec, order))
			case "Vnorm":
				ret = r.Vnorm(fill(c.Vec, order))
			case "VdotV":
				ret = r.VdotV(fill(c.Vec, order), fill(c.Vec2, 0))
			case "SmoothMax":
				ret = r.SmoothMax(fill(c.Vec, order), ad.ConstFloat64(c.Par.Float()), [2]ad.Scalar{tmp(c.R), tmp(c.R)})
			case "LogSmoothMax":
				ret = r.LogSmoothMax(fill(c.Vec, order), ad.ConstFloat64(c.Par.Float()), [3]ad.Scalar{tmp(c.R), tmp(c.R), tmp(c.R)})
			default:
				vh.Fatal("unbound reduction", c.Op)
			}
			oc.o = read(r, ti)
			if ret == nil {
				oc.note = "returned"
			}
		})
		if c.Lo != nil && c.Hi != nil && oc.panicMsg == "" && ti.cls == "float" {
			// whatever the spread of the entries and the size of alpha
			lo, hi := c.Lo.Float(), c.Hi.Float()
			slack := (64 + 16*float64(c.Cond)) * unitRoundoff(ti) * math.Max(math.Abs(lo), math.Abs(hi))
			if !(oc.o.f >= lo-slack && oc.o.f <= hi+slack) {
				rp.mismatch(c, c.R, "bound", "generic", order, vh.M{"observed": fs(oc.o.f), "lo": fs(lo), "hi": fs(hi)})
				continue
			}
			rp.count("bound_ok")
		}
		rp.judge(c, c.R, ti, oc, xs, "generic", order)
	}
}

// read-only operations on the value itself: Sign, getters, clones
func (rp *replayer) runSelf(c *Case) {
	a0 := c.Args[0]
	ti := types[a0.T]
	orders := []int{0}
	if ti.kind == "magic" {
		orders = rp.orders
	}
	for _, order := range orders {
		for _, impl := range []string{"generic", "concrete"} {
			var oc outcome
			tj := ti
			skip := false
			oc.panicMsg = vh.Try(func() {
				a := mk(a0.T, a0.V)
				activate(order, a)
				if impl == "concrete" {
					if c.Op != "Sign" {
						skip = true
						return
					}
					res, ok := callConcrete("Sign", a, nil, nil)
					if !ok {
						skip = true
						return
					}
					oc.kind, oc.s = "sign", int(res[0].Int())
					return
				}
				switch c.Op {
				case "Sign":
					oc.kind, oc.s = "sign", a.Sign()
				case "GetInt8":
					oc.kind, oc.o, tj = "value", obs{isInt: true, i: int64(a.GetInt8())}, baseInfo["int8"]
				case "GetInt16":
					oc.kind, oc.o, tj = "value", obs{isInt: true, i: int64(a.GetInt16())}, baseInfo["int16"]
				case "GetInt32":
					oc.kind, oc.o, tj = "value", obs{isInt: true, i: int64(a.GetInt32())}, baseInfo["int32"]
				case "GetInt64":
					oc.kind, oc.o, tj = "value", obs{isInt: true, i: a.GetInt64()}, baseInfo["int64"]
				case "GetInt":
					oc.kind, oc.o, tj = "value", obs{isInt: true, i: int64(a.GetInt())}, baseInfo["int"]
				case "GetFloat32":
					oc.kind, oc.o, tj = "value", obs{f: float64(a.GetFloat32())}, baseInfo["float32"]
				case "GetFloat64":
					oc.kind, oc.o, tj = "value", obs{f: a.GetFloat64()}, baseInfo["float64"]
				case "CloneConstScalar", "CloneScalar", "CloneMagicScalar":
					var cl ad.ConstScalar
					switch c.Op {
					case "CloneConstScalar":
						cl = a.CloneConstScalar()
					case "CloneScalar":
						cl = a.(ad.Scalar).CloneScalar()
					case "CloneMagicScalar":
						cl = a.(ad.MagicScalar).CloneMagicScalar()
					}
					oc.kind, oc.ty, oc.o = "typed", typeNameOf(cl), read(cl, ti)
					if w, ok := cl.(ad.Scalar); ok && ti.kind != "const" {
						// a clone is a separate scalar
						w.SetInt8(99)
						if o2 := read(a, ti); !matchExact(a0.V, o2) {
							oc.note = "clone_shares"
						}
					}
				default:
					vh.Fatal("unbound self operation", c.Op)
				}
			})
			if skip {
				continue
			}
			rp.judge(c, a0.T, tj, oc, nil, impl, order)
		}
	}
}

func (rp *replayer) runSetter(c *Case) {
	ti := types[c.R]
	var v Val
	if len(c.Args) > 0 {
		v = c.Args[0].V
	}
	var oc outcome
	oc.kind = "value"
	oc.panicMsg = vh.Try(func() {
		r := newReceiver(c.R)
		switch c.Op {
		case "Reset":
			r.Reset()
		case "SetInt8":
			r.SetInt8(int8(v.Int64()))
		case "SetInt16":
			r.SetInt16(int16(v.Int64()))
		case "SetInt32":
			r.SetInt32(int32(v.Int64()))
		case "SetInt64":
			r.SetInt64(v.Int64())
		case "SetInt":
			r.SetInt(int(v.Int64()))
		case "SetFloat32":
			r.SetFloat32(float32(v.Float()))
		case "SetFloat64":
			r.SetFloat64(v.Float())
		default:
			vh.Fatal("unbound setter", c.Op)
		}
		oc.o = read(r, ti)
	})
	rp.judge(c, c.R, ti, oc, nil, "generic", 0)
}

func (rp *replayer) runCmp(c *Case) {
	ti := types[c.Args[0].T]
	orders := []int{0}
	if hasMagic(c) {
		orders = rp.orders
	}
	for _, order := range orders {
		for _, impl := range []string{"generic", "concrete"} {
			var oc outcome
			oc.kind = "bool"
			skip := false
			oc.panicMsg = vh.Try(func() {
				a := mk(c.Args[0].T, c.Args[0].V)
				b := mk(c.Args[1].T, c.Args[1].V)
				activate(order, a, b)
				if impl == "concrete" {
					var extra []interface{}
					if c.Op == "Equals" {
						extra = []interface{}{c.Par.Float()}
					}
					res, ok := callConcrete(c.Op, a, []ad.ConstScalar{b}, extra)
					if !ok {
						skip = true
						return
					}
					oc.b = res[0].Bool()
					return
				}
				switch c.Op {
				case "Greater":
					oc.b = a.Greater(b)
				case "Smaller":
					oc.b = a.Smaller(b)
				case "Equals":
					oc.b = a.Equals(b, c.Par.Float())
				default:
					vh.Fatal("unbound comparison", c.Op)
				}
			})
			if skip {
				continue
			}
			if impl == "concrete" {
				rp.count("concrete_calls")
			}
			rp.judge(c, c.Args[0].T, ti, oc, nil, impl, order)
		}
	}
}

func (rp *replayer) runConv(c *Case) {
	tt := types[c.Ty]
	src := ""
	orders := []int{0}
	if len(c.Args) > 0 {
		src = c.Args[0].T
		if hasMagic(c) {
			orders = rp.orders
		}
	}
	for _, order := range orders {
		var oc outcome
		oc.kind = "typed"
		oc.panicMsg = vh.Try(func() {
			var res ad.ConstScalar
			switch c.Op {
			case "ConvertConstScalar", "ConvertScalar", "ConvertMagicScalar":
				a := mk(src, c.Args[0].V)
				activate(order, a)
				before := bitsOf([]ad.ConstScalar{a})
				switch c.Op {
				case "ConvertConstScalar":
					res = a.ConvertConstScalar(tt.st)
				case "ConvertScalar":
					res = a.(ad.Scalar).ConvertScalar(tt.st)
				case "ConvertMagicScalar":
					res = a.(ad.MagicScalar).ConvertMagicScalar(tt.st)
				}
				if !sameU(before, bitsOf([]ad.ConstScalar{a})) {
					oc.note = "operand_changed"
				}
			case "NewScalar":
				res = ad.NewScalar(tt.st, c.Args[0].V.Float())
			case "NewConstScalar":
				res = ad.NewConstScalar(tt.st, c.Args[0].V.Float())
			case "NewMagicScalar":
				res = ad.NewMagicScalar(tt.st, c.Args[0].V.Float())
			case "NullScalar":
				res = ad.NullScalar(tt.st)
			case "NullConstScalar":
				res = ad.NullConstScalar(tt.st)
			case "NullMagicScalar":
				res = ad.NullMagicScalar(tt.st)
			default:
				vh.Fatal("unbound conversion", c.Op)
			}
			if res == nil {
				oc.ty = "<nil>"
				return
			}
			oc.ty = typeNameOf(res)
			if reflect.TypeOf(res) != reflect.Type(tt.st) {
				oc.ty = fmt.Sprint(reflect.TypeOf(res))
			}
			oc.o = read(res, tt)
		})
		rt := src
		if rt == "" || types[rt] == nil {
			rt = c.Ty
		}
		rp.judge(c, rt, tt, oc, nil, "generic", order)
	}
}

// float64 functions of the packages logarithmetic and special
func (rp *replayer) runPkg(c *Case) {
	xs := make([]float64, len(c.Args))
	for i, a := range c.Args {
		xs[i] = a.V.Float()
	}
	var oc outcome
	oc.kind = "value"
	oc.panicMsg = vh.Try(func() {
		switch c.Op {
		case "LogAdd":
			oc.o = obs{f: logarith.LogAdd(xs[0], xs[1])}
		case "LogSub":
			oc.o = obs{f: logarith.LogSub(xs[0], xs[1])}
		case "LogErfc":
			oc.o = obs{f: special.LogErfc(xs[0])}
		default:
			vh.Fatal("unbound package function", c.Op)
		}
	})
	c.Op = "pkg." + c.Op // not the scalar method of the same name (cross-type table)
	rp.judge(c, "float64", baseInfo["float64"], oc, xs, "generic", 0)
}

func (rp *replayer) runCase(c *Case) {
	rp.count("cases")
	rp.count("cases_" + c.G)
	if c.G == "pkg" {
		rp.ops["pkg."+c.Op] = true
	} else {
		rp.ops[c.Op] = true
	}
	if c.R != "" {
		rp.recv[c.R] = true
		rp.opRecv[c.Op+"/"+c.R] = true
	}
	if len(c.Args) == 2 && types[c.Args[0].T] != nil && types[c.Args[1].T] != nil {
		rp.pairs[c.Args[0].T+"/"+c.Args[1].T] = true
	}
	switch c.G {
	case "un", "ring", "math1", "math2", "param":
		rp.runReceiverOp(c)
	case "vec":
		rp.runVec(c)
	case "self":
		rp.runSelf(c)
	case "setter":
		rp.runSetter(c)
	case "cmp":
		rp.runCmp(c)
	case "conv", "new":
		rp.runConv(c)
	case "pkg":
		rp.runPkg(c)
	default:
		vh.Fatal("unknown case class", c.G)
	}
}

func replayMain(args []string) {
	if len(args) < 2 {
		vh.Fatal("usage: scalartypes replay <cases.ndjson> <results.ndjson>")
	}
	out := vh.NewOut(args[1])
	defer out.Close()
	rp := &replayer{out: out, orders: []int{0, 1, 2}, counts: map[string]int{}, perSig: map[string]int{},
		ops: map[string]bool{}, recv: map[string]bool{}, pairs: map[string]bool{}, opRecv: map[string]bool{},
		terms: map[string]*exprlib.Term{}, cross: map[string]crossRec{}, agree: map[string]agreeRec{}}
	wd := vh.NewWatchdog(60e9, out, vh.M{"engine": "scalartypes"})
	sawMeta := false
	err := vh.EachLine(args[0], func(line []byte) error {
		if strings.Contains(string(line[:imin(len(line), 400)]), `"g":"meta"`) {
			var m metaRec
			if err := json.Unmarshal(line, &m); err != nil {
				return err
			}
			sawMeta = true
			rp.orders = m.Orders
			if m.IntWidth != strconv.IntSize {
				vh.Fatal("the specification assumes int of", m.IntWidth, "bits; this platform has", strconv.IntSize)
			}
			for i, n := range m.Types {
				ti := types[n]
				if ti == nil || ti.kind != m.Kinds[i] {
					vh.Fatal("type table of the specification does not match the binding:", n)
				}
			}
			if len(m.Types) != len(types) {
				vh.Fatal("type table size differs")
			}
			return nil
		}
		var c Case
		if err := json.Unmarshal(line, &c); err != nil {
			return fmt.Errorf("%v: %s", err, string(line[:imin(len(line), 200)]))
		}
		wd.Begin(&c)
		rp.runCase(&c)
		wd.End()
		return nil
	})
	if err != nil {
		vh.Fatal("replay:", err)
	}
	if !sawMeta && rp.counts["cases"] > 1 {
		vh.Fatal("no meta record in the case file")
	}
	keys := func(m map[string]bool) []string {
		out := make([]string, 0, len(m))
		for k := range m {
			out = append(out, k)
		}
		sort.Strings(out)
		return out
	}
	vh.Summary(out, vh.M{"counts": rp.counts, "executions": rp.nExec, "judged": rp.nJudged,
		"ops": keys(rp.ops), "receivers": keys(rp.recv), "operand_type_pairs": len(rp.pairs),
		"op_receiver_pairs": len(rp.opRecv)})
	fmt.Fprintf(os.Stderr, "replayed %d cases, %d executions, %d mismatches\n", rp.counts["cases"], rp.nExec, rp.counts["mismatches"])
}

func imin(a, b int) int {
	if a < b {
		return a
	}
	return b
}

// fs formats a float for a JSON detail (NaN and Inf are not JSON numbers)
func fs(x float64) string { return strconv.FormatFloat(x, 'g', 17, 64) }
