package main

import (
	"fmt"
	"math"

	ad "github.com/pbenner/autodiff"
)

// tinfo: one row of the type table.  The table itself (names, kinds) is printed
// by the specification (meta record) and compared with this binding at start-up.
type tinfo struct {
	name string
	st   ad.ScalarType
	kind string // const mutable magic
	cls  string // int float
	bits int    // integer width, or 32 / 64 for the floating-point storage
}

var types = map[string]*tinfo{}
var typeOrder []string

func reg(name string, st ad.ScalarType, kind, cls string, bits int) {
	types[name] = &tinfo{name, st, kind, cls, bits}
	typeOrder = append(typeOrder, name)
}

func init() {
	isz := 64
	if math.MaxInt == math.MaxInt32 {
		isz = 32
	}
	reg("ConstInt8", ad.ConstInt8Type, "const", "int", 8)
	reg("ConstInt16", ad.ConstInt16Type, "const", "int", 16)
	reg("ConstInt32", ad.ConstInt32Type, "const", "int", 32)
	reg("ConstInt64", ad.ConstInt64Type, "const", "int", 64)
	reg("ConstInt", ad.ConstIntType, "const", "int", isz)
	reg("ConstFloat32", ad.ConstFloat32Type, "const", "float", 32)
	reg("ConstFloat64", ad.ConstFloat64Type, "const", "float", 64)
	reg("Int8", ad.Int8Type, "mutable", "int", 8)
	reg("Int16", ad.Int16Type, "mutable", "int", 16)
	reg("Int32", ad.Int32Type, "mutable", "int", 32)
	reg("Int64", ad.Int64Type, "mutable", "int", 64)
	reg("Int", ad.IntType, "mutable", "int", isz)
	reg("Float32", ad.Float32Type, "mutable", "float", 32)
	reg("Float64", ad.Float64Type, "mutable", "float", 64)
	reg("Real32", ad.Real32Type, "magic", "float", 32)
	reg("Real64", ad.Real64Type, "magic", "float", 64)
}

// base types (getters / setters / constructor parameter)
var baseInfo = map[string]*tinfo{
	"int8": {"int8", nil, "base", "int", 8}, "int16": {"int16", nil, "base", "int", 16},
	"int32": {"int32", nil, "base", "int", 32}, "int64": {"int64", nil, "base", "int", 64},
	"int": {"int", nil, "base", "int", 64}, "float32": {"float32", nil, "base", "float", 32},
	"float64": {"float64", nil, "base", "float", 64},
}

func typeNameOf(s ad.ConstScalar) string {
	if s == nil {
		return "<nil>"
	}
	t := s.Type()
	for _, n := range typeOrder {
		if types[n].st == t {
			return n
		}
	}
	return fmt.Sprint(t)
}

// mk builds a scalar of the named type holding v (the specification guarantees
// Holds(type, v)); the typed constructors of the library are used, never a
// conversion of our own beyond Go's exact ones.
func mk(name string, v Val) ad.ConstScalar {
	ti := types[name]
	if ti == nil {
		panic("unknown type " + name)
	}
	if ti.cls == "int" {
		if v.K != "int" {
			panic(fmt.Sprintf("integer type %s cannot hold %v", name, v))
		}
		i := v.Int64()
		switch name {
		case "ConstInt8":
			return ad.ConstInt8(int8(i))
		case "ConstInt16":
			return ad.ConstInt16(int16(i))
		case "ConstInt32":
			return ad.ConstInt32(int32(i))
		case "ConstInt64":
			return ad.ConstInt64(i)
		case "ConstInt":
			return ad.ConstInt(int(i))
		case "Int8":
			return ad.NewInt8(int8(i))
		case "Int16":
			return ad.NewInt16(int16(i))
		case "Int32":
			return ad.NewInt32(int32(i))
		case "Int64":
			return ad.NewInt64(i)
		case "Int":
			return ad.NewInt(int(i))
		}
	}
	f := v.Float()
	switch name {
	case "ConstFloat32":
		return ad.ConstFloat32(float32(f))
	case "ConstFloat64":
		return ad.ConstFloat64(f)
	case "Float32":
		return ad.NewFloat32(float32(f))
	case "Float64":
		return ad.NewFloat64(f)
	case "Real32":
		return ad.NewReal32(float32(f))
	case "Real64":
		return ad.NewReal64(f)
	}
	panic("unknown type " + name)
}

// sentinel content of a receiver before the call (a stale value that no case expects)
func newReceiver(name string) ad.Scalar {
	ti := types[name]
	if ti.cls == "int" {
		return mk(name, intVal(77)).(ad.Scalar)
	}
	return mk(name, mkVal("rat", 155, 2, "")).(ad.Scalar)
}

// obs is what is read back from a scalar: GetInt64 for the integer types (exact,
// sign-extended), GetFloat64 for the floating-point types (exact widening).
type obs struct {
	isInt bool
	i     int64
	f     float64
}

func read(s ad.ConstScalar, ti *tinfo) obs {
	if ti.cls == "int" {
		return obs{isInt: true, i: s.GetInt64(), f: float64(s.GetInt64())}
	}
	return obs{f: s.GetFloat64()}
}

func (o obs) String() string {
	if o.isInt {
		return fmt.Sprintf("%d", o.i)
	}
	return fmt.Sprintf("%v", o.f)
}

func sameBits(a, b float64) bool {
	return math.Float64bits(a) == math.Float64bits(b) || (math.IsNaN(a) && math.IsNaN(b))
}

// matchExact compares an observation with an exact value of the specification.
func matchExact(exp Val, o obs) bool {
	if o.isInt {
		return exp.K == "int" && exp.Int64() == o.i
	}
	switch exp.K {
	case "int":
		if exp.Int64() == 0 {
			return o.f == 0 // a zero; the specification leaves its sign open
		}
		return o.f == exp.Float()
	case "rat", "huge", "tiny":
		return o.f == exp.Float()
	case "tok":
		switch exp.T {
		case "nan":
			return math.IsNaN(o.f)
		case "pinf":
			return math.IsInf(o.f, 1)
		case "ninf":
			return math.IsInf(o.f, -1)
		case "nzero":
			return o.f == 0 && math.Signbit(o.f)
		case "pzero":
			return o.f == 0 && !math.Signbit(o.f)
		}
	}
	return false
}
