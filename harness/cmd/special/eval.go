package main

// Evaluator of the symbolic terms printed by spec/SpecialDefs.tla.
//
// The specification owns WHAT is compared (closed forms, identities, scales,
// bounds); this file only interprets the leaves.  Rational constants and the
// arithmetic operations are evaluated in 1280-bit binary floating point
// (math/big), so that closed forms with cancellation (pi^2/6 - sum 1/k^2, the
// half-integer Bessel closed forms at small x, ...) do not lose the accuracy
// that the comparison is about.  The elementary functions exp, log, sin, cos
// (sinh, cosh, tan, cot derived), sqrt and powers with dyadic exponents are
// evaluated in the same precision from their textbook series; erf and erfc
// come from Go's math package (float64, first-order corrected for the rounding
// of the argument).  Every value carries an absolute error bound E which is
// added to the tolerance of the comparison.  selfTest() compares the big
// functions with Go's math at random points on every start.

import (
	"fmt"
	"math"
	"math/big"
	"math/rand"
)

const prec = 1280

const uF64 = 1.0 / (1 << 52) // 2^-52

const (
	cFin = iota
	cPInf
	cNInf
	cNaN
	cPanic
)

func clsName(c int) string {
	switch c {
	case cFin:
		return "finite"
	case cPInf:
		return "pinf"
	case cNInf:
		return "ninf"
	case cNaN:
		return "nan"
	}
	return "panic"
}

// V is a value with an error bound |true - F| <= Rel*|F| + Abs.  The bound is
// kept in relative form because magnitudes far outside the float64 range occur
// (sinh(10^6), x^a e^-x, ...); Abs carries what is left after a cancellation.
type V struct {
	F   *big.Float
	Rel float64
	Abs float64
	Cls int
}

func bf() *big.Float { return new(big.Float).SetPrec(prec) }
func bfF(x float64) *big.Float {
	return bf().SetFloat64(x)
}
func bfI(i int64) *big.Float { return bf().SetInt64(i) }

// relFloor covers the rounding of the 1280-bit arithmetic itself (2^-1280 per
// operation); it only matters where a closed form cancels to below 1e-300 of its
// addends (such cases are counted as "weak").
const relFloor = 1e-300

func fin(f *big.Float, rel, abs float64) V {
	if rel < relFloor {
		rel = relFloor
	}
	return V{F: f, Rel: rel, Abs: abs, Cls: cFin}
}
func exact(f *big.Float) V { return V{F: f, Cls: cFin} }
func nonfin(c int) V      { return V{F: bf(), Cls: c} }

// Err returns the absolute error bound as a big number.
func (v V) Err() *big.Float {
	e := bf().Abs(v.F)
	e.Mul(e, bfF(v.Rel))
	return e.Add(e, bfF(v.Abs))
}

// relTot is the total error relative to |F| (Inf if F = 0 and the error is not).
func (v V) relTot() float64 {
	if v.Abs == 0 {
		return v.Rel
	}
	if v.F.Sign() == 0 {
		return math.Inf(1)
	}
	q := bf().Quo(bfF(v.Abs), bf().Abs(v.F))
	f, _ := q.Float64()
	return v.Rel + f
}

// absTot is the total absolute error as a float64 (may overflow to +Inf).
func (v V) absTot() float64 {
	f, _ := v.Err().Float64()
	return f
}

func ratio(a, b *big.Float) float64 {
	if b.Sign() == 0 {
		return math.Inf(1)
	}
	q := bf().Quo(bf().Abs(a), bf().Abs(b))
	f, _ := q.Float64()
	return f
}

func (v V) f64() float64 {
	switch v.Cls {
	case cPInf:
		return math.Inf(1)
	case cNInf:
		return math.Inf(-1)
	case cNaN, cPanic:
		return math.NaN()
	}
	x, _ := v.F.Float64()
	return x
}

func absF(x *big.Float) float64 {
	f, _ := x.Float64()
	return math.Abs(f)
}

// ---------------------------------------------------------------- constants
var (
	bigLn2, bigPi, bigHalfPi *big.Float
	bigEGamma, bigZeta3, bigCatalan *big.Float
)

func parseBig(s string) *big.Float {
	f, _, err := big.ParseFloat(s, 10, prec, big.ToNearestEven)
	if err != nil {
		panic(err)
	}
	return f
}

// atanInv computes atan(1/n) by its Taylor series.
func atanInv(n int64) *big.Float {
	x := bf().Quo(bfI(1), bfI(n))
	x2 := bf().Mul(x, x)
	sum := bf().Set(x)
	term := bf().Set(x)
	for k := int64(1); k < 2000; k++ {
		term.Mul(term, x2)
		t := bf().Quo(term, bfI(2*k+1))
		if k%2 == 1 {
			sum.Sub(sum, t)
		} else {
			sum.Add(sum, t)
		}
		if t.Sign() == 0 || t.MantExp(nil) < -prec-20 {
			break
		}
	}
	return sum
}

func initConstants() {
	// ln 2 = sum_{k>=1} 1/(k 2^k)
	s := bf()
	p := bfI(1)
	for k := int64(1); k < prec+40; k++ {
		p.Quo(p, bfI(2))
		s.Add(s, bf().Quo(p, bfI(k)))
	}
	bigLn2 = s
	// Machin: pi/4 = 4 atan(1/5) - atan(1/239)
	a := bf().Mul(bfI(4), atanInv(5))
	a.Sub(a, atanInv(239))
	bigPi = bf().Mul(bfI(4), a)
	bigHalfPi = bf().Quo(bigPi, bfI(2))
	// literals (50 digits); Euler's constant is cross-checked against the
	// library's M_EULER in float64, zeta(3) and Catalan's constant against fast
	// series in selfTest().
	bigEGamma = parseBig("0.57721566490153286060651209008240243104215933593992")
	bigZeta3 = parseBig("1.20205690315959428539973816151144999076498629234049")
	bigCatalan = parseBig("0.91596559417721901505460351493238411077414937428167")
}

// ---------------------------------------------------------------- big functions
const expLimit = 1e8

// bigExp: exp(x) for |x| < expLimit.
func bigExp(x *big.Float) *big.Float {
	q := bf().Quo(x, bigLn2)
	qf, _ := q.Float64()
	k := int64(math.Round(qf))
	r := bf().Sub(x, bf().Mul(bfI(k), bigLn2))
	// halve the argument 8 times to speed up the series
	r.SetMantExp(r, -8)
	sum := bfI(1)
	term := bfI(1)
	for n := int64(1); n < 400; n++ {
		term.Mul(term, r)
		term.Quo(term, bfI(n))
		sum.Add(sum, term)
		if term.Sign() == 0 || term.MantExp(nil) < -prec-20 {
			break
		}
	}
	for i := 0; i < 8; i++ {
		sum.Mul(sum, sum)
	}
	return bf().SetMantExp(sum, int(k))
}

// bigLog: log(x), x > 0.
func bigLog(x *big.Float) *big.Float {
	m := bf()
	e := x.MantExp(m) // x = m * 2^e, 0.5 <= m < 1
	mf, _ := m.Float64()
	y := bf().SetFloat64(math.Log(mf))
	for i := 0; i < 5; i++ {
		ey := bigExp(y)
		num := bf().Sub(m, ey)
		den := bf().Add(m, ey)
		num.Quo(num, den)
		num.Mul(num, bfI(2))
		y.Add(y, num)
	}
	return y.Add(y, bf().Mul(bfI(int64(e)), bigLn2))
}

// sinCos returns sin(x), cos(x).
func bigSinCos(x *big.Float) (*big.Float, *big.Float) {
	q := bf().Quo(x, bigHalfPi)
	qf, _ := q.Float64()
	k := int64(math.Round(qf))
	r := bf().Sub(x, bf().Mul(bfI(k), bigHalfPi))
	r2 := bf().Mul(r, r)
	s := bf().Set(r)
	c := bfI(1)
	ts := bf().Set(r)
	tc := bfI(1)
	for n := int64(1); n < 300; n++ {
		tc.Mul(tc, r2)
		tc.Quo(tc, bfI((2*n-1)*(2*n)))
		ts.Mul(ts, r2)
		ts.Quo(ts, bfI((2*n)*(2*n+1)))
		if n%2 == 1 {
			c.Sub(c, tc)
			s.Sub(s, ts)
		} else {
			c.Add(c, tc)
			s.Add(s, ts)
		}
		if tc.Sign() == 0 || tc.MantExp(nil) < -prec-20 {
			break
		}
	}
	switch ((k % 4) + 4) % 4 {
	case 0:
		return s, c
	case 1:
		return c, bf().Neg(s)
	case 2:
		return bf().Neg(s), bf().Neg(c)
	}
	return bf().Neg(c), s
}

// bigPowInt: a^n for integer n (a != 0 when n < 0).
func bigPowInt(a *big.Float, n int64) *big.Float {
	neg := n < 0
	if neg {
		n = -n
	}
	r := bfI(1)
	b := bf().Set(a)
	for n > 0 {
		if n&1 == 1 {
			r.Mul(r, b)
		}
		b.Mul(b, b)
		n >>= 1
	}
	if neg {
		r.Quo(bfI(1), r)
	}
	return r
}

// ---------------------------------------------------------------- terms
type Node struct {
	Tag  string
	Fn   string
	N, D int64
	I    int
	A, B *Node
	Args []*Node
}

func parseNode(v interface{}) (*Node, error) {
	a, ok := v.([]interface{})
	if !ok || len(a) == 0 {
		return nil, fmt.Errorf("term is not a non-empty array: %v", v)
	}
	tag, ok := a[0].(string)
	if !ok {
		return nil, fmt.Errorf("term tag is not a string: %v", a[0])
	}
	num := func(i int) (int64, error) {
		if i >= len(a) {
			return 0, fmt.Errorf("term %s too short", tag)
		}
		f, ok := a[i].(float64)
		if !ok || f != math.Trunc(f) {
			return 0, fmt.Errorf("term %s: integer expected at %d", tag, i)
		}
		return int64(f), nil
	}
	str := func(i int) (string, error) {
		if i >= len(a) {
			return "", fmt.Errorf("term %s too short", tag)
		}
		s, ok := a[i].(string)
		if !ok {
			return "", fmt.Errorf("term %s: string expected at %d", tag, i)
		}
		return s, nil
	}
	n := &Node{Tag: tag}
	var err error
	switch tag {
	case "q":
		if n.N, err = num(1); err != nil {
			return nil, err
		}
		if n.D, err = num(2); err != nil {
			return nil, err
		}
		if n.D <= 0 {
			return nil, fmt.Errorf("bad denominator")
		}
	case "pi", "ninf", "pinf":
	case "c":
		if n.Fn, err = str(1); err != nil {
			return nil, err
		}
	case "x":
		i, e := num(1)
		if e != nil {
			return nil, e
		}
		n.I = int(i)
	case "u":
		if len(a) != 3 {
			return nil, fmt.Errorf("bad unary term")
		}
		if n.Fn, err = str(1); err != nil {
			return nil, err
		}
		if n.A, err = parseNode(a[2]); err != nil {
			return nil, err
		}
	case "b":
		if len(a) != 4 {
			return nil, fmt.Errorf("bad binary term")
		}
		if n.Fn, err = str(1); err != nil {
			return nil, err
		}
		if n.A, err = parseNode(a[2]); err != nil {
			return nil, err
		}
		if n.B, err = parseNode(a[3]); err != nil {
			return nil, err
		}
	case "lib":
		if len(a) != 3 {
			return nil, fmt.Errorf("bad lib term")
		}
		if n.Fn, err = str(1); err != nil {
			return nil, err
		}
		args, ok := a[2].([]interface{})
		if !ok {
			return nil, fmt.Errorf("lib args are not an array")
		}
		for _, x := range args {
			c, e := parseNode(x)
			if e != nil {
				return nil, e
			}
			n.Args = append(n.Args, c)
		}
	default:
		return nil, fmt.Errorf("unknown term tag %q", tag)
	}
	return n, nil
}

// LibCall is one observed call of the library.
type LibCall struct {
	Fn   string    `json:"fn"`
	Args []float64 `json:"-"`
	SArg []string  `json:"args"`
	Res  string    `json:"res"`
	Cls  string    `json:"cls"`
}

// Env is the evaluation context of one term.
type Env struct {
	X     []*big.Float // values of x_1.. (exact)
	Calls []LibCall
	Err   error
}

func (env *Env) fail(format string, a ...interface{}) V {
	if env.Err == nil {
		env.Err = fmt.Errorf(format, a...)
	}
	return nonfin(cNaN)
}

func fstr(x float64) string { return fmt.Sprintf("%.17g", x) }

func (env *Env) Eval(t *Node) V {
	switch t.Tag {
	case "q":
		r := new(big.Rat).SetFrac64(t.N, t.D)
		if bf().SetRat(r).IsInt() || t.D&(t.D-1) == 0 {
			return exact(bf().SetRat(r))
		}
		return fin(bf().SetRat(r), 0, 0)
	case "pi":
		return fin(bf().Set(bigPi), 0, 0)
	case "ninf":
		return nonfin(cNInf)
	case "pinf":
		return nonfin(cPInf)
	case "c":
		switch t.Fn {
		case "egamma":
			return fin(bf().Set(bigEGamma), 2e-49, 0)
		case "zeta3":
			return fin(bf().Set(bigZeta3), 1e-49, 0)
		case "catalan":
			return fin(bf().Set(bigCatalan), 2e-49, 0)
		case "nan":
			return nonfin(cNaN)
		}
		return env.fail("unknown constant %q", t.Fn)
	case "x":
		if t.I < 1 || t.I > len(env.X) {
			return env.fail("unbound variable x%d", t.I)
		}
		return exact(bf().Set(env.X[t.I-1]))
	case "u":
		return env.unary(t)
	case "b":
		return env.binary(t)
	case "lib":
		return env.lib(t)
	}
	return env.fail("unknown tag %q", t.Tag)
}

func (env *Env) lib(t *Node) V {
	args := make([]float64, len(t.Args))
	sargs := make([]string, len(t.Args))
	for i, a := range t.Args {
		v := env.Eval(a)
		if v.Cls == cPanic {
			return v
		}
		args[i] = v.f64() // rounded to nearest; the specification's scale term accounts for it
		sargs[i] = fstr(args[i])
	}
	res, msg := callLib(t.Fn, args)
	call := LibCall{Fn: t.Fn, Args: args, SArg: sargs}
	var out V
	switch {
	case msg == "unknown":
		return env.fail("unknown library function %q", t.Fn)
	case msg != "":
		call.Res, call.Cls = "panic: "+msg, "panic"
		out = nonfin(cPanic)
	case math.IsNaN(res):
		call.Res, call.Cls = "NaN", "nan"
		out = nonfin(cNaN)
	case math.IsInf(res, 1):
		call.Res, call.Cls = "+Inf", "pinf"
		out = nonfin(cPInf)
	case math.IsInf(res, -1):
		call.Res, call.Cls = "-Inf", "ninf"
		out = nonfin(cNInf)
	default:
		call.Res, call.Cls = fstr(res), "finite"
		out = exact(bfF(res))
	}
	env.Calls = append(env.Calls, call)
	return out
}

func (env *Env) unary(t *Node) V {
	a := env.Eval(t.A)
	if a.Cls != cFin {
		if t.Fn == "neg" {
			switch a.Cls {
			case cPInf:
				return nonfin(cNInf)
			case cNInf:
				return nonfin(cPInf)
			}
		}
		if t.Fn == "abs" && (a.Cls == cPInf || a.Cls == cNInf) {
			return nonfin(cPInf)
		}
		if a.Cls == cPanic {
			return a
		}
		return nonfin(cNaN)
	}
	x := a.F
	xa := absF(x)
	switch t.Fn {
	case "neg":
		return V{F: bf().Neg(x), Rel: a.Rel, Abs: a.Abs, Cls: cFin}
	case "abs":
		return V{F: bf().Abs(x), Rel: a.Rel, Abs: a.Abs, Cls: cFin}
	case "exp":
		xf, _ := x.Float64()
		if xf > expLimit {
			return nonfin(cPInf)
		}
		if xf < -expLimit {
			return exact(bf())
		}
		return fin(bigExp(x), 1.0000001*a.absTot(), 0)
	case "log":
		if x.Sign() <= 0 {
			return nonfin(cNaN)
		}
		if x.Cmp(bfI(1)) == 0 && a.Rel == 0 && a.Abs == 0 {
			return exact(bf())
		}
		v := bigLog(x)
		r := a.relTot()
		if r >= 0.5 {
			return fin(v, 0, math.Inf(1))
		}
		// the arithmetic floor applies relative to log's own magnitude
		return fin(v, 0, r/(1-r))
	case "sqrt":
		if x.Sign() < 0 {
			return nonfin(cNaN)
		}
		v := bf().Sqrt(x)
		if x.Sign() == 0 {
			return fin(v, 0, math.Sqrt(a.Abs))
		}
		r := a.relTot()
		if r >= 0.5 {
			return fin(v, 0, math.Inf(1))
		}
		return fin(v, 0.5000001*r/(1-r), 0)
	case "sin", "cos", "tan", "cot":
		if xa > 1e6 {
			return env.fail("trigonometric argument too large")
		}
		s, c := bigSinCos(x)
		e := a.absTot()
		switch t.Fn {
		case "sin":
			return fin(s, 0, e)
		case "cos":
			return fin(c, 0, e)
		case "tan":
			if c.Sign() == 0 {
				return nonfin(cNaN)
			}
			ca := absF(c)
			return fin(bf().Quo(s, c), 0, e/(ca*ca)*1.0000001)
		default:
			if s.Sign() == 0 {
				return nonfin(cNaN)
			}
			sa := absF(s)
			return fin(bf().Quo(c, s), 0, e/(sa*sa)*1.0000001)
		}
	case "sinh", "cosh":
		xf, _ := x.Float64()
		if math.Abs(xf) > expLimit {
			return env.fail("hyperbolic argument too large")
		}
		ep := bigExp(x)
		em := bf().Quo(bfI(1), ep)
		var v, d *big.Float
		if t.Fn == "sinh" {
			v = bf().Sub(ep, em)
			d = bf().Add(ep, em)
		} else {
			v = bf().Add(ep, em)
			d = bf().Sub(ep, em)
		}
		v.Quo(v, bfI(2))
		d.Quo(d, bfI(2))
		if v.Sign() == 0 {
			return fin(v, 0, a.absTot())
		}
		// relative error |f'/f| * (error of the argument)
		return fin(v, (ratio(d, v)+1)*a.absTot(), 0)
	case "erf", "erfc":
		// float64 evaluation with a first-order correction for the rounding of the argument
		x0, _ := x.Float64()
		dx := bf().Sub(x, bfF(x0))
		var f0 float64
		if t.Fn == "erf" {
			f0 = math.Erf(x0)
		} else {
			f0 = math.Erfc(x0)
		}
		if t.Fn == "erfc" && math.Abs(f0) < 1e-300 {
			return env.fail("erfc underflows at %g: the specification must use the asymptotic form there", x0)
		}
		d := 2 / math.Sqrt(math.Pi) * math.Exp(-x0*x0)
		if t.Fn == "erfc" {
			d = -d
		}
		v := bfF(f0)
		v.Add(v, bf().Mul(bfF(d), dx))
		// Go's erf/erfc: error below 1 ulp (FreeBSD msun); 2 ulp claimed here
		e := 2*uF64*math.Abs(f0) + math.Abs(d)*a.absTot()*1.01 + math.Abs(d)*absF(dx)*1e-10
		return fin(v, 0, e)
	}
	return env.fail("unknown unary function %q", t.Fn)
}

// dyadicExp reports whether the rational n/d has d = 2^j with j <= 12.
func dyadicExp(t *Node) (num int64, j int, ok bool) {
	if t.Tag != "q" {
		return 0, 0, false
	}
	d := t.D
	for d > 1 && d%2 == 0 {
		d /= 2
		j++
	}
	if d != 1 || j > 12 {
		return 0, 0, false
	}
	return t.N, j, true
}

func (env *Env) binary(t *Node) V {
	a := env.Eval(t.A)
	b := env.Eval(t.B)
	if a.Cls == cPanic {
		return a
	}
	if b.Cls == cPanic {
		return b
	}
	if a.Cls != cFin || b.Cls != cFin {
		// the specification only builds arithmetic over finite values; a non-finite
		// library value inside an identity is reported through the class of the result
		if t.Fn == "add" && a.Cls == b.Cls {
			return nonfin(a.Cls)
		}
		if t.Fn == "add" && a.Cls == cFin {
			return nonfin(b.Cls)
		}
		if t.Fn == "add" && b.Cls == cFin {
			return nonfin(a.Cls)
		}
		return nonfin(cNaN)
	}
	x, y := a.F, b.F
	switch t.Fn {
	case "add", "sub":
		var v *big.Float
		if t.Fn == "add" {
			v = bf().Add(x, y)
		} else {
			v = bf().Sub(x, y)
		}
		if a.Rel == 0 && a.Abs == 0 && b.Rel == 0 && b.Abs == 0 {
			return fin(v, 0, 0) // rounding of the sum only
		}
		abs := a.Abs + b.Abs
		if v.Sign() == 0 {
			return V{F: v, Rel: 0, Abs: abs + a.Rel*absF(x) + b.Rel*absF(y), Cls: cFin}
		}
		rel := 0.0
		if a.Rel != 0 {
			rel += a.Rel * ratio(x, v)
		}
		if b.Rel != 0 {
			rel += b.Rel * ratio(y, v)
		}
		return fin(v, rel, abs)
	case "mul":
		v := bf().Mul(x, y)
		abs := 0.0
		if a.Abs != 0 {
			abs += a.Abs * absF(y) * (1 + b.Rel)
		}
		if b.Abs != 0 {
			abs += b.Abs * absF(x) * (1 + a.Rel)
		}
		if a.Abs != 0 && b.Abs != 0 {
			abs += a.Abs * b.Abs
		}
		if a.Rel == 0 && b.Rel == 0 && abs == 0 {
			return fin(v, 0, 0)
		}
		return fin(v, a.Rel+b.Rel+a.Rel*b.Rel, abs)
	case "div":
		if y.Sign() == 0 {
			return nonfin(cNaN)
		}
		v := bf().Quo(x, y)
		rb := b.relTot()
		if rb >= 0.5 {
			return fin(v, 0, math.Inf(1))
		}
		abs := 0.0
		if a.Abs != 0 {
			abs = a.Abs / absF(y) / (1 - rb)
		}
		return fin(v, (a.Rel+rb)/(1-rb), abs)
	case "pow":
		if num, j, ok := dyadicExp(t.B); ok {
			if x.Sign() < 0 && j > 0 {
				return nonfin(cNaN)
			}
			if x.Sign() == 0 {
				if num > 0 {
					return exact(bf())
				}
				if num == 0 {
					return exact(bfI(1))
				}
				return nonfin(cNaN)
			}
			if num > 1<<22 || num < -(1<<22) {
				return env.fail("exponent too large")
			}
			r := bf().Set(x)
			for i := 0; i < j; i++ {
				r.Sqrt(r)
			}
			v := bigPowInt(r, num)
			if v.IsInf() {
				return env.fail("power overflows the evaluator")
			}
			yf, _ := y.Float64()
			ra := a.relTot()
			if ra >= 0.5 {
				return fin(v, 0, math.Inf(1))
			}
			if ra == 0 && j == 0 && num >= 0 {
				return fin(v, 0, 0)
			}
			return fin(v, math.Abs(yf)*ra/(1-ra)*1.0000001, 0)
		}
		// general exponent: exp(y log x)
		if x.Sign() <= 0 {
			return nonfin(cNaN)
		}
		lx := bigLog(x)
		p := bf().Mul(y, lx)
		pf, _ := p.Float64()
		if math.Abs(pf) > expLimit {
			return env.fail("power overflows the evaluator")
		}
		v := bigExp(p)
		ra := a.relTot()
		if ra >= 0.5 {
			return fin(v, 0, math.Inf(1))
		}
		ep := absF(lx)*b.absTot() + absF(y)*ra/(1-ra)
		return fin(v, ep*1.0000001, 0)
	}
	return env.fail("unknown binary operation %q", t.Fn)
}

// ---------------------------------------------------------------- self test
func relDiff(a *big.Float, b float64) float64 {
	d := bf().Sub(a, bfF(b))
	if b == 0 {
		return absF(d)
	}
	return absF(d) / math.Abs(b)
}

func selfTest() error {
	rng := rand.New(rand.NewSource(7))
	worst := 0.0
	chk := func(name string, got *big.Float, want float64, x float64) error {
		r := relDiff(got, want)
		if r > worst {
			worst = r
		}
		if r > 4*uF64 {
			return fmt.Errorf("selftest: %s(%g) differs from math by %g", name, x, r)
		}
		return nil
	}
	for i := 0; i < 300; i++ {
		x := (rng.Float64() - 0.5) * 1400
		if err := chk("exp", bigExp(bfF(x)), math.Exp(x), x); err != nil {
			return err
		}
		y := math.Exp((rng.Float64() - 0.5) * 100)
		if err := chk("log", bigLog(bfF(y)), math.Log(y), y); err != nil {
			return err
		}
		z := (rng.Float64() - 0.5) * 60
		s, c := bigSinCos(bfF(z))
		if math.Abs(math.Sin(z)) > 1e-3 {
			if err := chk("sin", s, math.Sin(z), z); err != nil {
				return err
			}
		}
		if math.Abs(math.Cos(z)) > 1e-3 {
			if err := chk("cos", c, math.Cos(z), z); err != nil {
				return err
			}
		}
		one := bf().Add(bf().Mul(s, s), bf().Mul(c, c))
		one.Sub(one, bfI(1))
		if absF(one) > 1e-80 {
			return fmt.Errorf("selftest: sin^2+cos^2 off by %g", absF(one))
		}
		back := bigExp(bigLog(bfF(y)))
		back.Sub(back, bfF(y))
		if absF(back)/y > 1e-80 {
			return fmt.Errorf("selftest: exp(log(%g)) off by %g", y, absF(back)/y)
		}
	}
	if relDiff(bigPi, math.Pi) > uF64 || relDiff(bigLn2, math.Ln2) > uF64 {
		return fmt.Errorf("selftest: pi or ln 2 wrong")
	}
	l2 := bigLog(bfI(2))
	l2.Sub(l2, bigLn2)
	if absF(l2) > 1e-80 {
		return fmt.Errorf("selftest: log 2 inconsistent")
	}
	// Apery: zeta(3) = 5/2 sum (-1)^(k-1) / (k^3 binom(2k,k))
	sum := bf()
	binom := bfI(1)
	for k := int64(1); k < 120; k++ {
		binom.Mul(binom, bfI(2*(2*k-1)))
		binom.Quo(binom, bfI(k))
		tm := bf().Quo(bfI(1), bf().Mul(bfI(k*k*k), binom))
		if k%2 == 1 {
			sum.Add(sum, tm)
		} else {
			sum.Sub(sum, tm)
		}
	}
	sum.Mul(sum, bfI(5))
	sum.Quo(sum, bfI(2))
	sum.Sub(sum, bigZeta3)
	if absF(sum) > 1e-48 {
		return fmt.Errorf("selftest: zeta(3) literal off by %g", absF(sum))
	}
	// Catalan: G = pi/8 log(2+sqrt 3) + 3/8 sum 1/((2k+1)^2 binom(2k,k))
	sum = bfI(1)
	binom = bfI(1)
	for k := int64(1); k < 200; k++ {
		binom.Mul(binom, bfI(2*(2*k-1)))
		binom.Quo(binom, bfI(k))
		sum.Add(sum, bf().Quo(bfI(1), bf().Mul(bfI((2*k+1)*(2*k+1)), binom)))
	}
	sum.Mul(sum, bfI(3))
	sum.Quo(sum, bfI(8))
	lg := bigLog(bf().Add(bfI(2), bf().Sqrt(bfI(3))))
	lg.Mul(lg, bigPi)
	lg.Quo(lg, bfI(8))
	sum.Add(sum, lg)
	sum.Sub(sum, bigCatalan)
	if absF(sum) > 1e-48 {
		return fmt.Errorf("selftest: Catalan literal off by %g", absF(sum))
	}
	// Euler's constant: gamma = H_n - log n - 1/(2n) + 1/(12 n^2) - 1/(120 n^4) + 1/(252 n^6) - ..., n = 10^4
	// (remainder below 1/(240 n^8) = 4e-35): checks the first 30 digits of the literal
	n := int64(10000)
	h := bf()
	for k := int64(1); k <= n; k++ {
		h.Add(h, bf().Quo(bfI(1), bfI(k)))
	}
	g := bf().Sub(h, bigLog(bfI(n)))
	nn := bfI(n)
	g.Sub(g, bf().Quo(bfI(1), bf().Mul(bfI(2), nn)))
	n2 := bf().Mul(nn, nn)
	g.Add(g, bf().Quo(bfI(1), bf().Mul(bfI(12), n2)))
	n4 := bf().Mul(n2, n2)
	g.Sub(g, bf().Quo(bfI(1), bf().Mul(bfI(120), n4)))
	n6 := bf().Mul(n4, n2)
	g.Add(g, bf().Quo(bfI(1), bf().Mul(bfI(252), n6)))
	g.Sub(g, bigEGamma)
	if absF(g) > 1e-33 {
		return fmt.Errorf("selftest: Euler constant literal off by %g", absF(g))
	}
	return nil
}
