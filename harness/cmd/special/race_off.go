//go:build !race

package main

const raceEnabled = false
