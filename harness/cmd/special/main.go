// Command special is the conformance driver of property C13 (special functions).
//
//	special replay <cases.ndjson> <results.ndjson>
//	    executes every case printed by TLC (spec/SpecialValues.tla): closed forms at
//	    special points, identities between library outputs at enumerated points,
//	    pole / finiteness classes.  The terms come from TLC; this program only
//	    evaluates them (eval.go) and calls the library where a term says so.
//	special record <schemas.ndjson> <trace.ndjson> <results.ndjson> <n>
//	    instantiates the identity schemas printed by TLC at seeded random dyadic
//	    points of the domains the specification states, and logs one event per
//	    instance (family, arguments, class, residual in integer units of
//	    u * scale) for spec/SpecialTrace.tla.
package main

import (
	"encoding/json"
	"fmt"
	"math"
	"math/big"
	"math/rand"
	"os"
	"sort"
	"strconv"
	"strings"
	"time"

	"verifharness/vh"
)

type Case struct {
	Kind  string          `json:"kind"`
	Fam   string          `json:"fam"`
	Pt    [][]int64       `json:"pt"`
	Lhs   json.RawMessage `json:"lhs"`
	Rhs   json.RawMessage `json:"rhs"`
	Scale json.RawMessage `json:"scale"`
	Slack json.RawMessage `json:"slack"`
	K     int64           `json:"K"`
	Br    string          `json:"br"`
	Dev   json.RawMessage `json:"dev"`   // known deviation: additional slack under which a failure is the known finding DevID
	DevID string          `json:"devid"`
	// class cases
	Fn   string            `json:"fn"`
	Args []json.RawMessage `json:"args"`
	Want string            `json:"want"`
	// schemas
	Idx   int               `json:"idx"`
	NVars int               `json:"nvars"`
	Dom   [][]Range         `json:"dom"`
	Guard []json.RawMessage `json:"guard"`
}

type Range struct {
	Lo   []int64 `json:"lo"`
	Hi   []int64 `json:"hi"`
	Bits int     `json:"bits"`
}

func parseRaw(raw json.RawMessage) (*Node, error) {
	if len(raw) == 0 {
		return nil, nil
	}
	var v interface{}
	if err := json.Unmarshal(raw, &v); err != nil {
		return nil, err
	}
	return parseNode(v)
}

func ptString(pt [][]int64) string {
	var sb strings.Builder
	for i, p := range pt {
		if i > 0 {
			sb.WriteByte(';')
		}
		if len(p) == 2 && p[1] == 1 {
			sb.WriteString(strconv.FormatInt(p[0], 10))
		} else if len(p) == 2 {
			fmt.Fprintf(&sb, "%d/%d", p[0], p[1])
		}
	}
	return sb.String()
}

const rCap = 1000000000

// Outcome of one equation instance.
type Outcome struct {
	R      int64   // residual in integer units of u*scale (0 = within the evaluator's own error bound), capped
	Cls    string  // "finite" when both sides are finite, else the class of the offending side
	Diff   float64 // |lhs - rhs|
	Scale  float64
	EvalE  float64 // error bound of the evaluation itself (added to the tolerance); informational copy
	L, Rv  float64
	Calls  []LibCall
	Weak   bool // evaluator bound exceeds K*u*scale: the comparison is insensitive at this point
	Reason string
}

type compiled struct {
	lhs, rhs, scale, slack *Node
	guard                  []*Node
}

func compile(c *Case) (*compiled, error) {
	var err error
	cc := &compiled{}
	if cc.lhs, err = parseRaw(c.Lhs); err != nil {
		return nil, err
	}
	if cc.rhs, err = parseRaw(c.Rhs); err != nil {
		return nil, err
	}
	if cc.scale, err = parseRaw(c.Scale); err != nil {
		return nil, err
	}
	if cc.slack, err = parseRaw(c.Slack); err != nil {
		return nil, err
	}
	for _, g := range c.Guard {
		n, e := parseRaw(g)
		if e != nil {
			return nil, e
		}
		cc.guard = append(cc.guard, n)
	}
	if cc.lhs == nil || cc.rhs == nil || cc.scale == nil {
		return nil, fmt.Errorf("equation without lhs/rhs/scale")
	}
	return cc, nil
}

func evalEq(cc *compiled, K int64, x []*big.Float) (Outcome, error) {
	env := &Env{X: x}
	l := env.Eval(cc.lhs)
	r := env.Eval(cc.rhs)
	s := env.Eval(cc.scale)
	slack := bf()
	if cc.slack != nil {
		sv := env.Eval(cc.slack)
		if sv.Cls != cFin {
			return Outcome{}, fmt.Errorf("slack term is not finite")
		}
		slack.Abs(sv.F)
		slack.Add(slack, sv.Err())
	}
	if env.Err != nil {
		return Outcome{}, env.Err
	}
	o := Outcome{Calls: env.Calls, L: l.f64(), Rv: r.f64()}
	if l.Cls != cFin || r.Cls != cFin || s.Cls != cFin {
		// a library value inside the identity is not finite although the point is in the domain
		o.Cls = "nonfinite"
		for _, c := range env.Calls {
			if c.Cls != "finite" {
				o.Cls = c.Cls
				o.Reason = fmt.Sprintf("%s%v returned %s", c.Fn, c.SArg, c.Res)
				break
			}
		}
		if o.Reason == "" {
			return o, fmt.Errorf("term evaluates non-finite without a non-finite library value (lhs %s rhs %s scale %s)",
				clsName(l.Cls), clsName(r.Cls), clsName(s.Cls))
		}
		o.R = rCap
		return o, nil
	}
	o.Cls = "finite"
	d := bf().Sub(l.F, r.F)
	d.Abs(d)
	o.Diff = absF(d)
	sc := bf().Abs(s.F)
	o.Scale = absF(sc)
	ee := bf().Add(l.Err(), r.Err())
	ee.Add(ee, slack)
	o.EvalE = absF(ee)
	if ee.IsInf() || math.IsNaN(l.Rel+l.Abs+r.Rel+r.Abs) || math.IsInf(l.Rel+l.Abs+r.Rel+r.Abs, 0) {
		o.Weak = true
		return o, nil
	}
	ex := bf().Sub(d, ee) // excess over the evaluator's own bound
	if sc.Sign() == 0 {
		// exact zero expected: any deviation beyond the evaluator's bound is a full failure
		if ex.Sign() > 0 {
			o.R = rCap
		}
		return o, nil
	}
	// results in the subnormal range cannot be relatively accurate: the unit never drops below u * 2^-1022
	floor := bf().SetMantExp(bfI(1), -1022)
	if sc.Cmp(floor) < 0 {
		sc = floor
	}
	unit := bf().Mul(sc, bfF(uF64))
	if K > 0 && ee.Cmp(bf().Mul(unit, bfI(K))) > 0 {
		o.Weak = true
	}
	if ex.Sign() > 0 {
		q, _ := bf().Quo(ex, unit).Float64()
		q = math.Ceil(q)
		if q > rCap || math.IsInf(q, 0) {
			q = rCap
		}
		o.R = int64(q)
	}
	return o, nil
}

type famStat struct {
	N    int   `json:"n"`
	MaxR int64 `json:"max_r"`
	K    int64 `json:"K"`
	Weak int   `json:"weak"`
	At   string `json:"max_at,omitempty"`
}

func classOf(res float64, msg string) string {
	switch {
	case msg != "":
		return "panic"
	case math.IsNaN(res):
		return "nan"
	case math.IsInf(res, 1):
		return "pinf"
	case math.IsInf(res, -1):
		return "ninf"
	}
	return "finite"
}

func classOK(want, got string) bool {
	switch want {
	case "finite", "pinf", "ninf":
		return got == want
	case "nonfinite": // a pole: NaN, an infinity or an error
		return got != "finite"
	case "undefined": // outside the domain: NaN or an error
		return got == "nan" || got == "panic"
	}
	return false
}

func replay(casesPath, resultsPath string) {
	out := vh.NewOut(resultsPath)
	defer out.Close()
	wd := vh.NewWatchdog(120*time.Second, out, vh.M{"engine": "special"})
	stats := map[string]*famStat{}
	ncases, nclass, nskipped, nguard := 0, 0, 0, 0
	brs := map[string]int{}
	err := vh.EachLine(casesPath, func(line []byte) error {
		var c Case
		if err := json.Unmarshal(line, &c); err != nil {
			return fmt.Errorf("bad case: %v", err)
		}
		var raw interface{}
		json.Unmarshal(line, &raw)
		at := ptString(c.Pt)
		wd.Begin(raw)
		defer wd.End()
		switch c.Kind {
		case "eq":
			cc, err := compile(&c)
			if err != nil {
				return fmt.Errorf("case %s %s: %v", c.Fam, at, err)
			}
			if c.Br == "grid" {
				// regular grid of the thorough tier: points where a guard of the schema fails are skipped
				skip := false
				for _, g := range cc.guard {
					genv := &Env{}
					v := genv.Eval(g)
					if genv.Err != nil {
						return fmt.Errorf("case %s %s: guard: %v", c.Fam, at, genv.Err)
					}
					if v.Cls != cFin || v.F.Sign() <= 0 {
						skip = true
					}
				}
				if skip {
					nguard++
					return nil
				}
			}
			o, err := evalEq(cc, c.K, nil)
			if err != nil {
				return fmt.Errorf("case %s %s: %v", c.Fam, at, err)
			}
			ncases++
			brs[c.Fam+"|"+c.Br]++
			st := stats[c.Fam]
			if st == nil {
				st = &famStat{K: c.K}
				stats[c.Fam] = st
			}
			st.N++
			if o.Weak {
				st.Weak++
				out.Put(vh.M{"kind": "weak", "fam": c.Fam, "at": at, "evaluator_bound": fstr(o.EvalE), "scale": fstr(o.Scale), "K": c.K})
			}
			if o.Cls == "finite" && o.R > st.MaxR {
				st.MaxR = o.R
				st.At = at
			}
			if o.Cls != "finite" {
				what := "nonfinite"
				if o.Cls == "panic" {
					what = "panic"
				}
				vh.Mismatch(out, vh.M{"engine": "special", "fam": c.Fam, "what": what},
					vh.M{"mode": "case", "at": at, "case": raw, "reason": o.Reason, "calls": o.Calls})
			} else if o.R > c.K {
				sig := vh.M{"engine": "special", "fam": c.Fam, "what": "residual"}
				if len(c.Dev) > 0 {
					// modelled known deviation: does the observation stay within it?
					dn, err := parseRaw(c.Dev)
					if err != nil {
						return err
					}
					c2 := *cc
					if cc.slack != nil {
						c2.slack = &Node{Tag: "b", Fn: "add", A: &Node{Tag: "u", Fn: "abs", A: cc.slack}, B: dn}
					} else {
						c2.slack = dn
					}
					o2, err := evalEq(&c2, c.K, nil)
					if err != nil {
						return fmt.Errorf("case %s %s: deviation: %v", c.Fam, at, err)
					}
					if o2.Cls == "finite" && o2.R <= c.K {
						sig["known"] = c.DevID
					}
				}
				vh.Mismatch(out, sig,
					vh.M{"mode": "case", "at": at, "case": raw, "r_units": o.R, "K": c.K, "diff": fstr(o.Diff), "scale": fstr(o.Scale),
						"evaluator_bound": fstr(o.EvalE), "lhs": fstr(o.L), "rhs": fstr(o.Rv), "calls": o.Calls})
			}
		case "class":
			env := &Env{}
			args := make([]*Node, len(c.Args))
			for i, a := range c.Args {
				n, err := parseRaw(a)
				if err != nil {
					return err
				}
				args[i] = n
			}
			v := env.lib(&Node{Tag: "lib", Fn: c.Fn, Args: args})
			if env.Err != nil {
				return fmt.Errorf("class case %s: %v", c.Fam, env.Err)
			}
			_ = v
			nclass++
			got := env.Calls[len(env.Calls)-1]
			if !classOK(c.Want, got.Cls) {
				at = fmt.Sprintf("%s(%s)", c.Fn, strings.Join(got.SArg, ","))
				vh.Mismatch(out, vh.M{"engine": "special", "fam": c.Fam, "what": "class", "fn": c.Fn},
					vh.M{"mode": "case", "at": at, "case": raw, "want": c.Want, "got": got.Cls, "calls": env.Calls})
			}
		default:
			nskipped++
		}
		return nil
	})
	if err != nil {
		vh.Fatal("replay:", err)
	}
	names := make([]string, 0, len(stats))
	for k := range stats {
		names = append(names, k)
	}
	sort.Strings(names)
	fs := vh.M{}
	for _, k := range names {
		fs[k] = stats[k]
	}
	vh.Summary(out, vh.M{"cases": ncases, "class_cases": nclass, "lib_calls": libCalls, "families": fs, "branches": brs,
		"grid_points_outside_guard": nguard, "schemas_skipped": nskipped})
}

// ---------------------------------------------------------------- recorder
func ratOf(p []int64) *big.Rat { return new(big.Rat).SetFrac64(p[0], p[1]) }

func record(schemasPath, tracePath, resultsPath string, n int) {
	seed := int64(vh.EnvInt("VERIF_SEED", 1))
	only := os.Getenv("SPECIAL_ONLY") // "fam n1/d1 n2/d2": re-run exactly one instance
	rng := rand.New(rand.NewSource(seed*7919 + 13))
	trace := vh.NewOut(tracePath)
	defer trace.Close()
	out := vh.NewOut(resultsPath)
	defer out.Close()
	wd := vh.NewWatchdog(120*time.Second, out, vh.M{"engine": "special", "mode": "record"})
	type sch struct {
		c  Case
		cc *compiled
	}
	var schemas []sch
	err := vh.EachLine(schemasPath, func(line []byte) error {
		var c Case
		if err := json.Unmarshal(line, &c); err != nil {
			return err
		}
		if c.Kind != "schema" {
			return nil
		}
		cc, err := compile(&c)
		if err != nil {
			return fmt.Errorf("schema %s: %v", c.Fam, err)
		}
		schemas = append(schemas, sch{c, cc})
		return nil
	})
	if err != nil {
		vh.Fatal("record:", err)
	}
	if len(schemas) == 0 {
		vh.Fatal("record: no schemas")
	}
	sort.Slice(schemas, func(i, j int) bool { return schemas[i].c.Fam < schemas[j].c.Fam })
	events := 0
	emit := func(s sch, pt [][]int64) bool {
		x := make([]*big.Float, len(pt))
		for i, p := range pt {
			x[i] = bf().SetRat(ratOf(p))
		}
		// guards: every guard term must be positive at the point (keeps away from poles)
		for _, g := range s.cc.guard {
			env := &Env{X: x}
			v := env.Eval(g)
			if env.Err != nil {
				vh.Fatal("record: guard of", s.c.Fam, env.Err)
			}
			if v.Cls != cFin || v.F.Sign() <= 0 {
				return false
			}
		}
		wd.Begin(vh.M{"fam": s.c.Fam, "args": pt})
		o, err := evalEq(s.cc, s.c.K, x)
		wd.End()
		if err != nil {
			vh.Fatal("record:", s.c.Fam, ptString(pt), err)
		}
		events++
		trace.Put(vh.M{"e": "id", "idx": s.c.Idx, "fam": s.c.Fam, "args": pt, "cls": o.Cls, "r": o.R})
		out.Put(vh.M{"kind": "event", "n": events, "fam": s.c.Fam, "args": pt, "cls": o.Cls, "r": o.R, "K": s.c.K,
			"diff": fstr(o.Diff), "scale": fstr(o.Scale), "evaluator_bound": fstr(o.EvalE), "weak": o.Weak, "reason": o.Reason, "calls": o.Calls})
		return true
	}
	if only != "" {
		f := strings.Fields(only)
		for _, s := range schemas {
			if s.c.Fam != f[0] {
				continue
			}
			var pt [][]int64
			for _, a := range f[1:] {
				nd := strings.Split(a, "/")
				nn, _ := strconv.ParseInt(nd[0], 10, 64)
				dd := int64(1)
				if len(nd) > 1 {
					dd, _ = strconv.ParseInt(nd[1], 10, 64)
				}
				pt = append(pt, []int64{nn, dd})
			}
			emit(s, pt)
		}
		vh.Summary(out, vh.M{"events": events, "lib_calls": libCalls})
		return
	}
	per := n / len(schemas)
	if per < 1 {
		per = 1
	}
	for _, s := range schemas {
		done := 0
		for tries := 0; done < per && tries < per*200; tries++ {
			box := s.c.Dom[rng.Intn(len(s.c.Dom))]
			pt := make([][]int64, len(box))
			for i, r := range box {
				lo, hi := ratOf(r.Lo), ratOf(r.Hi)
				span := new(big.Rat).Sub(hi, lo)
				span.Mul(span, new(big.Rat).SetInt64(int64(1)<<uint(r.Bits)))
				steps := new(big.Int).Quo(span.Num(), span.Denom()).Int64()
				k := int64(0)
				if steps > 0 {
					k = rng.Int63n(steps + 1)
				}
				v := new(big.Rat).SetFrac64(k, int64(1)<<uint(r.Bits))
				v.Add(v, lo)
				pt[i] = []int64{v.Num().Int64(), v.Denom().Int64()}
			}
			if emit(s, pt) {
				done++
			}
		}
		if done == 0 {
			vh.Fatal("record: no admissible point found for schema", s.c.Fam)
		}
	}
	vh.Summary(out, vh.M{"events": events, "lib_calls": libCalls, "schemas": len(schemas)})
}

func main() {
	if len(os.Args) < 2 {
		vh.Fatal("usage: special replay|record|pure|selftest ...")
	}
	if os.Args[1] != "purechild" {
		// (a pure child only converts rational arguments; it needs neither the constants nor the self-test)
		initConstants()
		if err := selfTest(); err != nil {
			vh.Fatal(err)
		}
	}
	switch os.Args[1] {
	case "selftest":
		fmt.Println("ok")
	case "replay":
		if len(os.Args) != 4 {
			vh.Fatal("usage: special replay cases results")
		}
		replay(os.Args[2], os.Args[3])
	case "record":
		if len(os.Args) != 6 {
			vh.Fatal("usage: special record schemas trace results n")
		}
		n, _ := strconv.Atoi(os.Args[5])
		record(os.Args[2], os.Args[3], os.Args[4], n)
	case "pure":
		if len(os.Args) != 6 {
			vh.Fatal("usage: special pure cases results runs goroutines")
		}
		runs, _ := strconv.Atoi(os.Args[4])
		g, _ := strconv.Atoi(os.Args[5])
		pure(os.Args[2], os.Args[3], runs, g)
	case "purechild":
		if len(os.Args) != 6 {
			vh.Fatal("usage: special purechild cases family mode goroutines")
		}
		g, _ := strconv.Atoi(os.Args[5])
		pureChild(os.Args[2], os.Args[3], os.Args[4], g)
	default:
		vh.Fatal("unknown subcommand", os.Args[1])
	}
}
