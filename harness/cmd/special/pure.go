package main

// Purity of the special functions (spec/SpecialPure.tla, PureFamilies of
// spec/SpecialDefs.tla): the value of a call is a function of its arguments
// only.  For every pure family printed by TLC the parent starts FRESH child
// processes (so that lazily initialised state of the library is built anew):
//   seq-fwd   the calls in the listed order, one goroutine
//   seq-bwd   the calls in reverse order (order of first use must not matter)
//   conc      G goroutines released together, each evaluating the whole list
//             (even runs: all in the listed order, so that first uses collide;
//             odd runs: every second goroutine backwards)
// Every result must have the bits of the seq-fwd result of the same call.  With
// a binary built with -race a report of the race detector (exit status 66) is a
// violation as well.

import (
	"bytes"
	"encoding/json"
	"fmt"
	"math"
	"os"
	"os/exec"
	"strconv"
	"strings"
	"sync"
	"time"

	"verifharness/vh"
)

type pureCall struct {
	Fn   string            `json:"fn"`
	Args []json.RawMessage `json:"args"`
}

type pureFam struct {
	Kind  string     `json:"kind"`
	Fam   string     `json:"fam"`
	Calls []pureCall `json:"calls"`
}

type flatCall struct {
	Fn   string
	Args []float64
}

func loadPure(path string) ([]pureFam, error) {
	var fams []pureFam
	err := vh.EachLine(path, func(line []byte) error {
		if !bytes.Contains(line, []byte(`"kind":"pure"`)) {
			return nil
		}
		var f pureFam
		if err := json.Unmarshal(line, &f); err != nil {
			return err
		}
		fams = append(fams, f)
		return nil
	})
	return fams, err
}

func flatten(f pureFam) ([]flatCall, error) {
	out := make([]flatCall, len(f.Calls))
	for i, c := range f.Calls {
		fc := flatCall{Fn: c.Fn}
		for _, a := range c.Args {
			n, err := parseRaw(a)
			if err != nil {
				return nil, err
			}
			env := &Env{}
			v := env.Eval(n)
			if env.Err != nil {
				return nil, env.Err
			}
			fc.Args = append(fc.Args, v.f64())
		}
		out[i] = fc
	}
	return out, nil
}

func bitsOf(c flatCall) string {
	res, msg := callLib(c.Fn, c.Args)
	if msg == "unknown" {
		return "unknown"
	}
	if msg != "" {
		return "panic"
	}
	if math.IsNaN(res) {
		return "nan"
	}
	return strconv.FormatUint(math.Float64bits(res), 16)
}

// pureChild evaluates one family in this (fresh) process and prints the results.
func pureChild(casesPath, fam, mode string, g int) {
	fams, err := loadPure(casesPath)
	if err != nil {
		vh.Fatal("purechild:", err)
	}
	var calls []flatCall
	for _, f := range fams {
		if f.Fam == fam {
			if calls, err = flatten(f); err != nil {
				vh.Fatal("purechild:", err)
			}
		}
	}
	if calls == nil {
		vh.Fatal("purechild: unknown family", fam)
	}
	n := len(calls)
	run := func(backward bool) []string {
		out := make([]string, n)
		for k := 0; k < n; k++ {
			i := k
			if backward {
				i = n - 1 - k
			}
			out[i] = bitsOf(calls[i])
		}
		return out
	}
	var all [][]string
	switch mode {
	case "seq-fwd":
		all = [][]string{run(false)}
	case "seq-bwd":
		all = [][]string{run(true)}
	default: // conc-same, conc-mixed
		all = make([][]string, g)
		var wg sync.WaitGroup
		start := make(chan struct{})
		for j := 0; j < g; j++ {
			wg.Add(1)
			go func(j int) {
				defer wg.Done()
				<-start
				all[j] = run(mode == "conc-mixed" && j%2 == 1)
			}(j)
		}
		close(start)
		wg.Wait()
	}
	b, _ := json.Marshal(all)
	os.Stdout.Write(b)
	os.Stdout.Write([]byte("\n"))
}

func runChild(casesPath, fam, mode string, g int) (res [][]string, stderr string, exit int, err error) {
	cmd := exec.Command(os.Args[0], "purechild", casesPath, fam, mode, strconv.Itoa(g))
	var so, se bytes.Buffer
	cmd.Stdout, cmd.Stderr = &so, &se
	cmd.Env = append(os.Environ(), "GORACE=atexit_sleep_ms=0 exitcode=66")
	done := make(chan error, 1)
	if err = cmd.Start(); err != nil {
		return nil, "", -1, err
	}
	go func() { done <- cmd.Wait() }()
	select {
	case e := <-done:
		if e != nil {
			if ee, ok := e.(*exec.ExitError); ok {
				exit = ee.ExitCode()
			} else {
				return nil, se.String(), -1, e
			}
		}
	case <-time.After(300 * time.Second):
		cmd.Process.Kill()
		return nil, se.String(), -2, nil
	}
	stderr = se.String()
	if len(stderr) > 3000 {
		stderr = stderr[:3000]
	}
	line := strings.TrimSpace(so.String())
	if line != "" {
		if e := json.Unmarshal([]byte(line), &res); e != nil {
			res = nil
		}
	}
	return res, stderr, exit, nil
}

func callString(c flatCall) string {
	s := make([]string, len(c.Args))
	for i, a := range c.Args {
		s[i] = fstr(a)
	}
	return c.Fn + "(" + strings.Join(s, ",") + ")"
}

func pure(casesPath, resultsPath string, runs, g int) {
	out := vh.NewOut(resultsPath)
	defer out.Close()
	fams, err := loadPure(casesPath)
	if err != nil {
		vh.Fatal("pure:", err)
	}
	if len(fams) == 0 {
		vh.Fatal("pure: no pure family in", casesPath)
	}
	children, evaluations, raceBuilt := 0, 0, raceEnabled
	for _, f := range fams {
		calls, err := flatten(f)
		if err != nil {
			vh.Fatal("pure:", f.Fam, err)
		}
		report := func(what, mode string, detail vh.M) {
			detail["mode"] = "pure"
			detail["fam"] = f.Fam
			detail["child_mode"] = mode
			vh.Mismatch(out, vh.M{"engine": "special", "fam": f.Fam, "what": what}, detail)
		}
		check := func(mode string) [][]string {
			res, stderr, exit, err := runChild(casesPath, f.Fam, mode, g)
			children++
			if err != nil {
				vh.Fatal("pure: cannot run child:", err)
			}
			if strings.Contains(stderr, "DATA RACE") {
				report("race", mode, vh.M{"stderr": stderr, "exit": exit})
				return res
			}
			if exit == -2 {
				report("timeout", mode, vh.M{"limit_s": 300})
				return nil
			}
			if exit != 0 || res == nil {
				// a fatal error of the runtime inside the library (concurrent map write, index out of range in a goroutine ...)
				report("crash", mode, vh.M{"stderr": stderr, "exit": exit})
				return nil
			}
			return res
		}
		ref := check("seq-fwd")
		if ref == nil || len(ref) != 1 || len(ref[0]) != len(calls) {
			continue
		}
		compare := func(mode string, res [][]string) {
			for j, r := range res {
				if len(r) != len(calls) {
					report("crash", mode, vh.M{"goroutine": j, "reason": "incomplete result"})
					return
				}
				for i := range r {
					evaluations++
					if r[i] != ref[0][i] {
						what := "concurrent-differs"
						if mode == "seq-bwd" {
							what = "order-dependent"
						}
						report(what, mode, vh.M{"call": callString(calls[i]), "sequential_bits": ref[0][i], "observed_bits": r[i], "goroutine": j})
						return
					}
				}
			}
		}
		if r := check("seq-bwd"); r != nil {
			compare("seq-bwd", r)
		}
		for k := 0; k < runs; k++ {
			mode := "conc-same"
			if k%2 == 1 {
				mode = "conc-mixed"
			}
			if r := check(mode); r != nil {
				compare(mode, r)
			}
		}
		out.Put(vh.M{"kind": "pure_family", "fam": f.Fam, "calls": len(calls), "sample": callString(calls[len(calls)/2]) + " = 0x" + ref[0][len(calls)/2]})
	}
	vh.Summary(out, vh.M{"families": len(fams), "children": children, "evaluations": evaluations, "goroutines": g, "runs": runs, "race_detector": raceBuilt})
	_ = fmt.Sprint
}
