package main

// Dispatch table: the name used by the specification for "the value returned by
// library function f at these arguments" -> the real function.

import (
	"math"
	"sync/atomic"

	logarithmetic "github.com/pbenner/autodiff/logarithmetic"
	"github.com/pbenner/autodiff/special"
	"verifharness/vh"
)

var libTable = map[string]func(a []float64) float64{
	"Factorial":              func(a []float64) float64 { return special.Factorial(int(a[0])) },
	"BernoulliNumber":        func(a []float64) float64 { return special.BernoulliNumber(int(a[0])) },
	"Zeta":                   func(a []float64) float64 { return special.Zeta(a[0]) },
	"Digamma":                func(a []float64) float64 { return special.Digamma(a[0]) },
	"Trigamma":               func(a []float64) float64 { return special.Trigamma(a[0]) },
	"Polygamma":              func(a []float64) float64 { return special.Polygamma(int(a[0]), a[1]) },
	"Mgamma":                 func(a []float64) float64 { return special.Mgamma(a[0], int(a[1])) },
	"Mlgamma":                func(a []float64) float64 { return special.Mlgamma(a[0], int(a[1])) },
	"GammaP":                 func(a []float64) float64 { return special.GammaP(a[0], a[1]) },
	"GammaQ":                 func(a []float64) float64 { return special.GammaQ(a[0], a[1]) },
	"GammaLower":             func(a []float64) float64 { return special.GammaLower(a[0], a[1]) },
	"GammaUpper":             func(a []float64) float64 { return special.GammaUpper(a[0], a[1]) },
	"GammaPfirstDerivative":  func(a []float64) float64 { return special.GammaPfirstDerivative(a[0], a[1]) },
	"GammaPsecondDerivative": func(a []float64) float64 { return special.GammaPsecondDerivative(a[0], a[1]) },
	"LogErfc":                func(a []float64) float64 { return special.LogErfc(a[0]) },
	"BesselI":                func(a []float64) float64 { return special.BesselI(a[0], a[1]) },
	"LogBesselI":             func(a []float64) float64 { return special.LogBesselI(a[0], a[1]) },
	"LogAdd":                 func(a []float64) float64 { return logarithmetic.LogAdd(a[0], a[1]) },
	"LogSub":                 func(a []float64) float64 { return logarithmetic.LogSub(a[0], a[1]) },
}

var libArity = map[string]int{
	"Factorial": 1, "BernoulliNumber": 1, "Zeta": 1, "Digamma": 1, "Trigamma": 1, "Polygamma": 2,
	"Mgamma": 2, "Mlgamma": 2, "GammaP": 2, "GammaQ": 2, "GammaLower": 2, "GammaUpper": 2,
	"GammaPfirstDerivative": 2, "GammaPsecondDerivative": 2, "LogErfc": 1, "BesselI": 2,
	"LogBesselI": 2, "LogAdd": 2, "LogSub": 2,
}

// integer parameters (must be integral and small)
var libIntArg = map[string]int{"Factorial": 0, "BernoulliNumber": 0, "Polygamma": 0, "Mgamma": 1, "Mlgamma": 1}

var libCalls int64

// callLib calls the library; msg is "" (returned normally), "unknown", or the panic text.
func callLib(name string, args []float64) (res float64, msg string) {
	f, ok := libTable[name]
	if !ok || len(args) != libArity[name] {
		return 0, "unknown"
	}
	if i, ok := libIntArg[name]; ok {
		if args[i] != math.Trunc(args[i]) || math.Abs(args[i]) > 1e6 {
			return 0, "unknown"
		}
	}
	atomic.AddInt64(&libCalls, 1)
	msg = vh.Try(func() { res = f(args) })
	return res, msg
}
