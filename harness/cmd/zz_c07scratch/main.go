package main

import (
	"fmt"
	. "github.com/pbenner/autodiff"
	"github.com/pbenner/autodiff/algorithm/bfgs"
)

func main() {
	a, b := 2.0, 100.0
	n := 0
	f := func(x ConstVector) (MagicScalar, error) {
		n++
		t := NullReal64()
		s := NullReal64()
		t.Mul(x.ConstAt(0), x.ConstAt(0))
		t.Sub(x.ConstAt(1), t)
		t.Mul(t, t)
		t.Mul(t, ConstFloat64(b))
		s.Sub(ConstFloat64(a), x.ConstAt(0))
		s.Mul(s, s)
		s.Add(s, t)
		return s, nil
	}
	k := 0
	hook := func(x, g ConstVector, y ConstScalar) bool {
		k++
		if k < 40 || k%2000 == 0 {
			fmt.Println(k, n, x, g, y)
		}
		return k > 20000
	}
	x0 := NewDenseFloat64Vector([]float64{-3, 3})
	xn, err := bfgs.Run(f, x0, bfgs.Epsilon{1e-6}, bfgs.Hook{hook})
	fmt.Println(xn, err, k, n)
}
