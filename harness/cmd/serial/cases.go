package main

import (
	"encoding/json"
	"fmt"
	"math"
	"reflect"

	. "github.com/pbenner/autodiff"
	"verifharness/vh"
)

// ---- abstract objects as printed by TLC (spec/Serialization.tla, Case) ----

type viewOp struct {
	Op string `json:"op"`
	I  int    `json:"i"`
	J  int    `json:"j"`
	R0 int    `json:"r0"`
	R1 int    `json:"r1"`
	C0 int    `json:"c0"`
	C1 int    `json:"c1"`
}

type docNode struct {
	T string              `json:"t"`
	F map[string]*docNode `json:"f,omitempty"`
	V []*docNode          `json:"v,omitempty"`
	S string              `json:"s,omitempty"`
	// HMM variant carried by the opaque parameters of a configuration node
	Hv string `json:"hv,omitempty"`
}

type absObj struct {
	K     string     `json:"k"`
	Cls   string     `json:"cls"`
	Dv    string     `json:"dv"`
	St    string     `json:"st"`
	V     string     `json:"v"`
	Order int        `json:"order"`
	N     int        `json:"n"`
	Grad  []string   `json:"grad"`
	Hess  [][]string `json:"hess"`
	Rows  int        `json:"rows"`
	Cols  int        `json:"cols"`
	C     []string   `json:"c"`
	View  []viewOp   `json:"view"`
	Cfg   *docNode   `json:"cfg,omitempty"`
	// stored zeros created before the object is written (Serialization!SparseHistory)
	Hist *histSpec `json:"hist,omitempty"`
	// long-line class (Serialization!WideObjects): "64K", "1M", "4M"
	Wide string `json:"wide,omitempty"`
}

type histSpec struct {
	How string `json:"how"`
	Pos int    `json:"pos"`
}

type absEl struct {
	A   string `json:"a"`
	N   int    `json:"n"`
	Hot int    `json:"hot"`
}

type absExp struct {
	K     string     `json:"k"`
	V     string     `json:"v"`
	Order int        `json:"order"`
	N     int        `json:"n"`
	Grad  []string   `json:"grad"`
	Hess  [][]string `json:"hess"`
	Rows  int        `json:"rows"`
	Cols  int        `json:"cols"`
	C     []absEl    `json:"c"`
}

type fault struct {
	F     string `json:"f"`
	Field string `json:"field"`
	To    string `json:"to"`
	How   string `json:"how"`
	Idx   int    `json:"idx"`
	Delta int    `json:"delta"`
	Line  int    `json:"line"`
	Tok   int    `json:"tok"`
	Depth int    `json:"depth"`
	// EntryRange: entry at the bounds of the integer element type
	Val      string `json:"val"`
	Notation string `json:"notation"`
	// CellIndex: which coordinate of a sparse matrix entry leaves the matrix, and where the other one is
	Out   string `json:"out"`
	Other string `json:"other"`
}

// rcvSpec: pre-state of the object the document is read into (Serialization!Rcv)
type rcvSpec struct {
	Pre  string   `json:"pre"`
	Rows int      `json:"rows"`
	Cols int      `json:"cols"`
	View []viewOp `json:"view"`
}

func (r rcvSpec) used() bool { return r.Pre != "" && r.Pre != "fresh" }

type tcase struct {
	Obj    absObj   `json:"obj"`
	Fmt    string   `json:"fmt"`
	Faults []fault  `json:"faults"`
	Types  []string `json:"types"`
	Expect string   `json:"expect"`
	Exp    absExp   `json:"exp"`
	Dev    string   `json:"dev"`
	Model  string   `json:"model"`
	Layout string   `json:"layout"`
	Rcv    rcvSpec  `json:"rcv"`
	// replay of a byte-mutation violation: the mutated document itself
	Mutated *string `json:"mutated,omitempty"`
}

func (o *absObj) viewWord() string {
	w := ""
	for _, v := range o.View {
		w += v.Op
	}
	if w == "" {
		return "id"
	}
	return w
}

// ---- construction of the real object -------------------------------------

func fillAtom(et *etype, s Scalar, st, atom string) error {
	if atom == "zero" || (st == "sparse" && atom == "negzero") {
		return nil
	}
	v, ok := atomValue(et, atom)
	if !ok {
		return fmt.Errorf("atom %s undefined for %s", atom, et.Name)
	}
	setVal(et, s, v)
	return nil
}

func buildVector(et *etype, o *absObj) (Vector, error) {
	var p Vector
	if o.St == "dense" {
		p = NullDenseVector(et.ST, o.N)
	} else {
		p = NullSparseVector(et.ST, o.N)
	}
	for i, a := range o.C {
		if a == "zero" || (o.St == "sparse" && a == "negzero") {
			continue
		}
		if err := fillAtom(et, p.At(i), o.St, a); err != nil {
			return nil, err
		}
	}
	if o.Dv == "var" {
		if err := p.(MagicVector).Variables(1); err != nil {
			return nil, err
		}
	}
	if o.Hist != nil {
		// a stored zero at position Pos, created the way the case says; nothing iterates afterwards
		one, _ := atomValue(et, "one")
		zero, _ := atomValue(et, "zero")
		switch o.Hist.How {
		case "overwrite":
			s := p.At(o.Hist.Pos)
			setVal(et, s, one)
			setVal(et, s, zero)
		case "touch":
			_ = p.At(o.Hist.Pos)
		case "reset":
			setVal(et, p.At(o.Hist.Pos), one)
			p.At(o.Hist.Pos).Reset()
		case "cancel":
			setVal(et, p.At(o.Hist.Pos), one)
			w := NullSparseVector(et.ST, o.N)
			setVal(et, w.At(o.Hist.Pos), one)
			p.VsubV(p, w)
		default:
			return nil, fmt.Errorf("unknown history %s", o.Hist.How)
		}
	}
	for _, w := range o.View {
		p = p.Slice(w.I, w.J)
	}
	return p, nil
}

func buildMatrix(et *etype, o *absObj) (Matrix, error) {
	var p Matrix
	if o.St == "dense" {
		p = NullDenseMatrix(et.ST, o.Rows, o.Cols)
	} else {
		p = NullSparseMatrix(et.ST, o.Rows, o.Cols)
	}
	for k, a := range o.C {
		if a == "zero" || (o.St == "sparse" && a == "negzero") {
			continue
		}
		if err := fillAtom(et, p.At(k/o.Cols, k%o.Cols), o.St, a); err != nil {
			return nil, err
		}
	}
	if o.Dv == "var" {
		if err := p.(MagicMatrix).Variables(1); err != nil {
			return nil, err
		}
	}
	if o.Hist != nil {
		i, j := o.Hist.Pos/o.Cols, o.Hist.Pos%o.Cols
		one, _ := atomValue(et, "one")
		zero, _ := atomValue(et, "zero")
		switch o.Hist.How {
		case "overwrite":
			s := p.At(i, j)
			setVal(et, s, one)
			setVal(et, s, zero)
		case "touch":
			_ = p.At(i, j)
		case "reset":
			setVal(et, p.At(i, j), one)
			p.At(i, j).Reset()
		case "cancel":
			setVal(et, p.At(i, j), one)
			w := NullSparseMatrix(et.ST, o.Rows, o.Cols)
			setVal(et, w.At(i, j), one)
			p.MsubM(p, w)
		default:
			return nil, fmt.Errorf("unknown history %s", o.Hist.How)
		}
	}
	for _, w := range o.View {
		if w.Op == "T" {
			p = p.T()
		} else {
			p = p.Slice(w.R0, w.R1, w.C0, w.C1)
		}
	}
	return p, nil
}

// buildScalar returns the scalar as the interface value json.Marshal is called on.
func buildScalar(et *etype, o *absObj) (ConstScalar, error) {
	v, ok := atomValue(et, o.V)
	if !ok {
		return nil, fmt.Errorf("atom %s undefined for %s", o.V, et.Name)
	}
	if et.Const {
		return newConst(et, v), nil
	}
	if !et.Real {
		s := NullScalar(et.ST)
		setVal(et, s, v)
		return s, nil
	}
	var s MagicScalar
	if et.Bits == 32 {
		s = NullReal32()
	} else {
		s = NullReal64()
	}
	setVal(et, s, v)
	if o.Order > 0 {
		s.Alloc(o.N, o.Order)
		for i, a := range o.Grad {
			g, ok := atomValue(et, a)
			if !ok {
				return nil, fmt.Errorf("atom %s undefined for %s", a, et.Name)
			}
			s.SetDerivative(i, g.F)
		}
		for i := range o.Hess {
			for j, a := range o.Hess[i] {
				h, ok := atomValue(et, a)
				if !ok {
					return nil, fmt.Errorf("atom %s undefined for %s", a, et.Name)
				}
				s.SetHessian(i, j, h.F)
			}
		}
	}
	return s, nil
}

// fresh returns a pointer suitable for json.Unmarshal / Import that refers to
// a NEW object of the same concrete type as src, and a getter for the object.
func fresh(et *etype, src interface{}) (ptr interface{}, get func() interface{}) {
	T := reflect.TypeOf(src)
	switch src.(type) {
	case ConstScalar:
		if et.Const {
			p := reflect.New(T)
			return p.Interface(), func() interface{} { return p.Elem().Interface() }
		}
		// Float64{ptr}, *Real64, ...: a null scalar of the type, addressed through a pointer
		s := NullScalar(et.ST)
		if reflect.TypeOf(s).Kind() == reflect.Ptr {
			// *Real64: the scalar itself is the target (a pointer to the pointer
			// would be set to nil by a JSON null without the decoder being asked)
			return s, func() interface{} { return s }
		}
		p := reflect.New(reflect.TypeOf(s))
		p.Elem().Set(reflect.ValueOf(s))
		return p.Interface(), func() interface{} { return p.Elem().Interface() }
	}
	if T.Kind() == reflect.Ptr {
		p := reflect.New(T.Elem())
		return p.Interface(), func() interface{} { return p.Interface() }
	}
	p := reflect.New(T) // dense vectors are slice types
	return p.Interface(), func() interface{} { return p.Elem().Interface() }
}

// usedReceiver builds the object a document is read INTO when the case asks for
// a receiver that is not a fresh zero value: every position holds non-zero
// data, real elements are variables, and the view word of the receiver spec
// is applied with the real T()/Slice() calls.  Returns the json.Unmarshal /
// Import target and a getter for the object afterwards.
func usedReceiver(et *etype, o *absObj, rc *rcvSpec, src interface{}) (ptr interface{}, get func() interface{}, err error) {
	filler := []string{"one", "minusTwo", "typeMaxInt", "typeMinInt"}
	fill := func(s Scalar, p int) {
		v, _ := atomValue(et, filler[p%4])
		setVal(et, s, v)
	}
	switch o.K {
	case "scalar":
		other, _ := atomValue(et, "typeMinInt")
		if et.Const {
			p := reflect.New(reflect.TypeOf(src))
			p.Elem().Set(reflect.ValueOf(newConst(et, other)))
			return p.Interface(), func() interface{} { return p.Elem().Interface() }, nil
		}
		if et.Real {
			var s MagicScalar
			if et.Bits == 32 {
				s = NullReal32()
			} else {
				s = NullReal64()
			}
			setVal(et, s, other)
			// Order and N of the used receiver come from the case (rows = Order, cols = N)
			order, n := rc.Rows, rc.Cols
			if order < 1 {
				order, n = 2, 3
			}
			s.Alloc(n, order)
			for i := 0; i < n; i++ {
				s.SetDerivative(i, 1.5+float64(i))
				for j := 0; j < n && order >= 2; j++ {
					s.SetHessian(i, j, 0.5+float64(i+2*j))
				}
			}
			return s, func() interface{} { return s }, nil
		}
		s := NullScalar(et.ST)
		setVal(et, s, other)
		p := reflect.New(reflect.TypeOf(s))
		p.Elem().Set(reflect.ValueOf(s))
		return p.Interface(), func() interface{} { return p.Elem().Interface() }, nil
	case "vector":
		var v Vector
		if o.St == "dense" {
			v = NullDenseVector(et.ST, rc.Rows)
		} else {
			v = NullSparseVector(et.ST, rc.Rows)
		}
		for i := 0; i < rc.Rows; i++ {
			fill(v.At(i), i)
		}
		if et.Real {
			if e := v.(MagicVector).Variables(1); e != nil {
				return nil, nil, e
			}
		}
		for _, w := range rc.View {
			v = v.Slice(w.I, w.J)
		}
		if reflect.TypeOf(v).Kind() == reflect.Ptr {
			return v, func() interface{} { return v }, nil
		}
		p := reflect.New(reflect.TypeOf(v)) // dense vectors are slice values: the receiver is a variable holding the used slice
		p.Elem().Set(reflect.ValueOf(v))
		return p.Interface(), func() interface{} { return p.Elem().Interface() }, nil
	case "matrix":
		var m Matrix
		if o.St == "dense" {
			m = NullDenseMatrix(et.ST, rc.Rows, rc.Cols)
		} else {
			m = NullSparseMatrix(et.ST, rc.Rows, rc.Cols)
		}
		for i := 0; i < rc.Rows; i++ {
			for j := 0; j < rc.Cols; j++ {
				fill(m.At(i, j), i*rc.Cols+j)
			}
		}
		if et.Real {
			if e := m.(MagicMatrix).Variables(1); e != nil {
				return nil, nil, e
			}
		}
		for _, w := range rc.View {
			if w.Op == "T" {
				m = m.T()
			} else {
				m = m.Slice(w.R0, w.R1, w.C0, w.C1)
			}
		}
		return m, func() interface{} { return m }, nil
	}
	return nil, nil, fmt.Errorf("no receiver for kind %s", o.K)
}

// ---- observation ---------------------------------------------------------

type observation struct {
	Kind   string
	Dims   []int
	Bits   []uint64 // row-major
	NZ     []int    // indices (row-major) of non-zero entries reported by the const iterator
	IterOK string   // "" or description of an iterator defect
	ElN    []int    // GetN of every element (real containers)
	ElHot  []int    // index of the single 1 derivative (-1: none, -2: something else)
	Order  int
	N      int
	Grad   []uint64
	Hess   [][]uint64
}

// probeCap bounds how many elements of a decoded object are read (damaged
// documents may state huge dimensions); round trips of wide objects raise it
var probeCap = 4096

func elemDeriv(s ConstScalar) (int, int) {
	n := s.GetN()
	if s.GetOrder() < 1 || n <= 0 {
		return 0, -1
	}
	hot := -1
	for k := 0; k < n && k < probeCap; k++ {
		d := s.GetDerivative(k)
		if d == 0 {
			continue
		}
		if d == 1 && hot == -1 {
			hot = k
		} else {
			return n, -2
		}
	}
	return n, hot
}

func observeVector(et *etype, v ConstVector) observation {
	o := observation{Kind: "vector"}
	n := v.Dim()
	o.Dims = []int{n}
	for i := 0; i < n && i < probeCap; i++ {
		s := v.ConstAt(i)
		o.Bits = append(o.Bits, bitsOf(et, s))
		if et.Real {
			en, hot := elemDeriv(s)
			o.ElN = append(o.ElN, en)
			o.ElHot = append(o.ElHot, hot)
		}
	}
	last, cnt := -1, 0
	for it := v.ConstIterator(); it.Ok(); it.Next() {
		i := it.Index()
		cnt++
		if i < 0 || i >= n {
			o.IterOK = fmt.Sprintf("iterator index %d outside 0..%d", i, n-1)
			break
		}
		if i <= last {
			o.IterOK = fmt.Sprintf("iterator index %d after %d", i, last)
			break
		}
		last = i
		if cnt > probeCap {
			break
		}
		s := it.GetConst()
		if s == nil {
			o.IterOK = fmt.Sprintf("iterator yields nil at %d", i)
			break
		}
		if s.GetFloat64() != 0 {
			o.NZ = append(o.NZ, i)
		}
	}
	return o
}

func observeMatrix(et *etype, m ConstMatrix) observation {
	o := observation{Kind: "matrix"}
	r, c := m.Dims()
	o.Dims = []int{r, c}
	if r < 0 || c < 0 {
		return o
	}
	for i := 0; i < r && i < probeCap && i*c < probeCap; i++ {
		for j := 0; j < c && j < probeCap; j++ {
			s := m.ConstAt(i, j)
			o.Bits = append(o.Bits, bitsOf(et, s))
			if et.Real {
				en, hot := elemDeriv(s)
				o.ElN = append(o.ElN, en)
				o.ElHot = append(o.ElHot, hot)
			}
		}
	}
	last, cnt := -1, 0
	for it := m.ConstIterator(); it.Ok(); it.Next() {
		i, j := it.Index()
		cnt++
		if i < 0 || i >= r || j < 0 || j >= c {
			o.IterOK = fmt.Sprintf("iterator index (%d,%d) outside %dx%d", i, j, r, c)
			break
		}
		k := i*c + j
		if k <= last {
			o.IterOK = fmt.Sprintf("iterator index (%d,%d) not ascending", i, j)
			break
		}
		last = k
		if cnt > probeCap {
			break
		}
		s := it.GetConst()
		if s == nil {
			o.IterOK = fmt.Sprintf("iterator yields nil at (%d,%d)", i, j)
			break
		}
		if s.GetFloat64() != 0 {
			o.NZ = append(o.NZ, k)
		}
	}
	return o
}

func f64bitsFor(et *etype, x float64) uint64 {
	// derivatives are reported as float64 by the interface
	return val{false, 0, x}.bits()
}

func observeScalar(et *etype, s ConstScalar) observation {
	o := observation{Kind: "scalar"}
	o.Bits = []uint64{bitsOf(et, s)}
	o.Order = s.GetOrder()
	o.N = s.GetN()
	if o.N < 0 {
		return o
	}
	if o.Order >= 1 {
		for i := 0; i < o.N && i < 64; i++ {
			o.Grad = append(o.Grad, f64bitsFor(et, s.GetDerivative(i)))
		}
	}
	if o.Order >= 2 {
		for i := 0; i < o.N && i < 64; i++ {
			row := []uint64{}
			for j := 0; j < o.N && j < 64; j++ {
				row = append(row, f64bitsFor(et, s.GetHessian(i, j)))
			}
			o.Hess = append(o.Hess, row)
		}
	}
	return o
}

func observe(et *etype, x interface{}) observation {
	switch v := x.(type) {
	case ConstVector:
		return observeVector(et, v)
	case ConstMatrix:
		return observeMatrix(et, v)
	case ConstScalar:
		return observeScalar(et, v)
	}
	return observation{Kind: fmt.Sprintf("%T", x)}
}

// ---- comparison with the expectation of the specification ------------------

func atomBits(et *etype, a string) (uint64, bool) {
	v, ok := atomValue(et, a)
	return v.bits(), ok
}

// float atoms in derivative slots are always float64 values of the element width
func derivBits(et *etype, a string) uint64 {
	ft := *et
	ft.IsInt = false
	v, _ := atomValue(&ft, a)
	return v.bits()
}

func showBits(et *etype, b uint64) string {
	if et.IsInt {
		return fmt.Sprint(int64(b))
	}
	return fmt.Sprintf("%v(%#x)", math.Float64frombits(b), b)
}

// compare returns "" if the observation equals the expectation, otherwise
// (what, message): what is the failure class used in the signature.
func compare(et *etype, e *absExp, o *observation, withDeriv bool) (string, string) {
	switch e.K {
	case "scalar":
		want, _ := atomBits(et, e.V)
		if o.Bits[0] != want {
			return "value", fmt.Sprintf("value %s, expected %s (%s)", showBits(et, o.Bits[0]), showBits(et, want), e.V)
		}
		if withDeriv && e.Order == 0 {
			// the document carries no derivatives: the receiver must not show any (stale ones of a used receiver)
			for i, g := range o.Grad {
				if math.Float64frombits(g) != 0 {
					return "stale_derivative", fmt.Sprintf("gradient[%d] is %v although the document carries no derivatives", i, math.Float64frombits(g))
				}
			}
			for i := range o.Hess {
				for j, h := range o.Hess[i] {
					if math.Float64frombits(h) != 0 {
						return "stale_derivative", fmt.Sprintf("hessian[%d][%d] is %v although the document carries no derivatives", i, j, math.Float64frombits(h))
					}
				}
			}
		}
		if !withDeriv || e.Order == 0 {
			return "", ""
		}
		if o.N != e.N {
			return "derivative", fmt.Sprintf("N=%d, expected %d", o.N, e.N)
		}
		if e.Order < 2 {
			// the document carries a gradient but no Hessian: the receiver must not show one
			for i := range o.Hess {
				for j, h := range o.Hess[i] {
					if math.Float64frombits(h) != 0 {
						return "stale_derivative", fmt.Sprintf("hessian[%d][%d] is %v although the document carries no Hessian", i, j, math.Float64frombits(h))
					}
				}
			}
		}
		if o.Order < e.Order {
			return "derivative", fmt.Sprintf("order=%d, expected %d", o.Order, e.Order)
		}
		for i, a := range e.Grad {
			if i >= len(o.Grad) || o.Grad[i] != derivBits(et, a) {
				return "derivative", fmt.Sprintf("gradient[%d] differs, expected %s", i, a)
			}
		}
		for i := range e.Hess {
			for j, a := range e.Hess[i] {
				if i >= len(o.Hess) || j >= len(o.Hess[i]) || o.Hess[i][j] != derivBits(et, a) {
					return "derivative", fmt.Sprintf("hessian[%d][%d] differs, expected %s", i, j, a)
				}
			}
		}
		return "", ""
	case "vector", "matrix":
		var dims []int
		if e.K == "vector" {
			dims = []int{e.N}
		} else {
			dims = []int{e.Rows, e.Cols}
		}
		if len(o.Dims) != len(dims) {
			return "dims", fmt.Sprintf("dims %v, expected %v", o.Dims, dims)
		}
		for i := range dims {
			if dims[i] != o.Dims[i] {
				return "dims", fmt.Sprintf("dims %v, expected %v", o.Dims, dims)
			}
		}
		if o.IterOK != "" {
			return "iterator", o.IterOK
		}
		if len(o.Bits) != len(e.C) {
			return "dims", fmt.Sprintf("%d elements, expected %d", len(o.Bits), len(e.C))
		}
		nz := []int{}
		for k, el := range e.C {
			want, _ := atomBits(et, el.A)
			if o.Bits[k] != want {
				return "value", fmt.Sprintf("element %d is %s, expected %s (%s)", k, showBits(et, o.Bits[k]), showBits(et, want), el.A)
			}
			if el.A != "zero" && el.A != "negzero" {
				nz = append(nz, k)
			}
			if withDeriv && el.N == 0 && k < len(o.ElHot) && o.ElHot[k] != -1 {
				return "stale_derivative", fmt.Sprintf("element %d shows a derivative although the document carries none", k)
			}
			if withDeriv && el.N > 0 {
				if k >= len(o.ElN) || o.ElN[k] != el.N || o.ElHot[k] != el.Hot {
					return "derivative", fmt.Sprintf("element %d has N=%v hot=%v, expected N=%d hot=%d", k, at(o.ElN, k), at(o.ElHot, k), el.N, el.Hot)
				}
			}
		}
		if fmt.Sprint(nz) != fmt.Sprint(append([]int{}, o.NZ...)) {
			return "nonzero_set", fmt.Sprintf("iterator reports non-zero positions %v, expected %v", o.NZ, nz)
		}
		return "", ""
	}
	return "kind", "unexpected expectation kind " + e.K
}

func at(a []int, k int) interface{} {
	if k < len(a) {
		return a[k]
	}
	return "none"
}

func toJSON(v interface{}) json.RawMessage {
	b, _ := json.Marshal(v)
	return b
}

var _ = vh.M{}
