package main

import (
	"bytes"
	"encoding/json"
	"math/rand"
	"path/filepath"

	"verifharness/vh"
)

// Seeded byte-level mutation of valid documents: "all byte strings as input to
// the readers" beyond the structured faults.  The valid documents are the
// encodings of the replay cases (round-trip family), grouped by format
// (kind x class x storage x json|table); n mutants per group.

const mutAlphabet = "0123456789-+.eE,:[]{}\" \n\tabxNIn"

func mutateBytes(rng *rand.Rand, b []byte) []byte {
	m := append([]byte{}, b...)
	edits := 1 + rng.Intn(3)
	for e := 0; e < edits; e++ {
		switch op := rng.Intn(6); {
		case len(m) == 0 || op == 0: // insert
			p := rng.Intn(len(m) + 1)
			ch := mutAlphabet[rng.Intn(len(mutAlphabet))]
			m = append(m[:p], append([]byte{ch}, m[p:]...)...)
		case op == 1: // delete a short range
			p := rng.Intn(len(m))
			k := 1 + rng.Intn(3)
			if p+k > len(m) {
				k = len(m) - p
			}
			m = append(m[:p], m[p+k:]...)
		case op == 2: // replace
			m[rng.Intn(len(m))] = mutAlphabet[rng.Intn(len(mutAlphabet))]
		case op == 3: // flip a bit
			m[rng.Intn(len(m))] ^= 1 << uint(rng.Intn(8))
		case op == 4: // duplicate a chunk
			p := rng.Intn(len(m))
			k := 1 + rng.Intn(8)
			if p+k > len(m) {
				k = len(m) - p
			}
			chunk := append([]byte{}, m[p:p+k]...)
			m = append(m[:p], append(chunk, m[p:]...)...)
		default: // truncate
			m = m[:rng.Intn(len(m)+1)]
		}
	}
	return m
}

func (r *runner) runMutations(cases []json.RawMessage, n int, start int) {
	// group the round-trip cases by format
	groups := map[string][]int{}
	order := []string{}
	for i, raw := range cases {
		var c struct {
			Obj struct {
				K, Cls, St string
			} `json:"obj"`
			Fmt    string        `json:"fmt"`
			Faults []interface{} `json:"faults"`
		}
		if json.Unmarshal(raw, &c) != nil || len(c.Faults) > 0 {
			continue
		}
		k := c.Obj.K + "/" + c.Obj.Cls + "/" + c.Obj.St + "/" + c.Fmt
		if _, ok := groups[k]; !ok {
			order = append(order, k)
		}
		groups[k] = append(groups[k], i)
	}
	path := filepath.Join(r.scratch, "mut.table")
	item := 0
	for _, g := range order {
		rng := rand.New(rand.NewSource(int64(r.seed)*7919 + int64(len(g))*104729 + int64(hashStr(g))))
		for k := 0; k < n; k++ {
			ci := groups[g][rng.Intn(len(groups[g]))]
			var c tcase
			if e := json.Unmarshal(cases[ci], &c); e != nil {
				vh.Fatal(e)
			}
			ti := rng.Intn(len(c.Types))
			mseed := rng.Int63()
			item++
			if item-1 < start {
				continue
			}
			if c.Obj.K == "dist" {
				r.mutateDist(item-1, &c, cases[ci], mseed)
				continue
			}
			et := etypes[c.Types[ti]]
			r.jr.at(item-1, 0, "mutate-build")
			src, err := buildObj(et, &c.Obj)
			if err != nil {
				continue // reported by the replay of the same case
			}
			doc, err, pm := encode(src, c.Fmt, path)
			if err != nil || pm != "" {
				continue
			}
			mut := mutateBytes(rand.New(rand.NewSource(mseed)), doc)
			r.jr.at(item-1, 0, "mutate-decode")
			dec, err, pm := decode(et, src, c.Fmt, mut, path, false)
			r.count("mutations")
			mc := c
			mc.Faults = []fault{{F: "ByteMutation"}}
			// the replay case: the same object with the mutated document attached
			var gen map[string]interface{}
			json.Unmarshal(cases[ci], &gen)
			gen["faults"] = []interface{}{map[string]interface{}{"f": "ByteMutation"}}
			gen["types"] = []string{et.Name}
			gen["expect"] = "error-or-wellformed"
			gen["mutated"] = string(mut)
			raw, _ := json.Marshal(gen)
			r.judgeDamaged(&mc, raw, et, dec, err, pm, mut, false)
		}
	}
}

func hashStr(s string) uint32 {
	h := uint32(2166136261)
	for i := 0; i < len(s); i++ {
		h = (h ^ uint32(s[i])) * 16777619
	}
	return h
}

// byte-level mutation of an exported distribution configuration
func (r *runner) mutateDist(item int, c *tcase, raw json.RawMessage, mseed int64) {
	r.jr.at(item, 0, "mutate-dist-build")
	var d distObj
	var err error
	if p := vh.Try(func() { d, err = buildDist(c.Obj.Cfg) }); p != "" || err != nil {
		return
	}
	var doc []byte
	if p := vh.Try(func() {
		var buf bytes.Buffer
		err = d.basic().ExportConfig().WriteJson(&buf)
		doc = buf.Bytes()
	}); p != "" || err != nil {
		return
	}
	mut := mutateBytes(rand.New(rand.NewSource(mseed)), doc)
	distPath = filepath.Join(r.scratch, "dist.json")
	r.jr.at(item, 0, "mutate-dist-import")
	imp, err, pm := importAs(d, mut)
	r.count("mutations")
	mc := *c
	mc.Faults = []fault{{F: "ByteMutation"}}
	var gen map[string]interface{}
	json.Unmarshal(raw, &gen)
	gen["faults"] = []interface{}{map[string]interface{}{"f": "ByteMutation"}}
	gen["mutated"] = string(mut)
	nraw, _ := json.Marshal(gen)
	r.judgeDist(&mc, nraw, d, imp, err, pm, mut)
}
