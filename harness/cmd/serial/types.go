package main

import (
	"math"

	. "github.com/pbenner/autodiff"
)

// etype describes one element type of the library; the abstract case names
// the types it applies to (Serialization!TypesOf), the driver only looks them up.
type etype struct {
	Name  string
	ST    ScalarType
	IsInt bool
	Bits  int
	Real  bool
	Const bool
}

// class of the element type used in violation signatures (the type itself is in the detail)
func (t *etype) class() string {
	switch {
	case t.Const && t.IsInt:
		return "const-int"
	case t.Const:
		return "const-float"
	case t.Real:
		return "real"
	case t.IsInt:
		return "int"
	}
	return "float"
}

var etypes = map[string]*etype{}

func init() {
	for _, t := range []etype{
		{"Float64", Float64Type, false, 64, false, false},
		{"Float32", Float32Type, false, 32, false, false},
		{"Int", IntType, true, 64, false, false},
		{"Int8", Int8Type, true, 8, false, false},
		{"Int16", Int16Type, true, 16, false, false},
		{"Int32", Int32Type, true, 32, false, false},
		{"Int64", Int64Type, true, 64, false, false},
		{"Real64", Real64Type, false, 64, true, false},
		{"Real32", Real32Type, false, 32, true, false},
		{"ConstFloat64", ConstFloat64Type, false, 64, false, true},
		{"ConstFloat32", ConstFloat32Type, false, 32, false, true},
		{"ConstInt", ConstIntType, true, 64, false, true},
		{"ConstInt8", ConstInt8Type, true, 8, false, true},
		{"ConstInt16", ConstInt16Type, true, 16, false, true},
		{"ConstInt32", ConstInt32Type, true, 32, false, true},
		{"ConstInt64", ConstInt64Type, true, 64, false, true},
	} {
		tt := t
		etypes[t.Name] = &tt
	}
}

// val is the concrete value of an atom for one element type.
type val struct {
	IsInt bool
	I     int64
	F     float64
}

func (v val) bits() uint64 {
	if v.IsInt {
		return uint64(v.I)
	}
	return math.Float64bits(v.F)
}

var atomNames = []string{"zero", "negzero", "subnormal", "maxfinite", "minfinite", "typeMaxInt", "typeMinInt", "one", "minusTwo", "half"}

// atomValue maps an opaque atom of the specification to the value of the
// element type.  ok=false: the atom does not exist for the type (integer
// types only have integer atoms; the specification never asks for it).
func atomValue(et *etype, atom string) (val, bool) {
	if et.IsInt {
		var maxv, minv int64
		switch et.Bits {
		case 8:
			maxv, minv = math.MaxInt8, math.MinInt8
		case 16:
			maxv, minv = math.MaxInt16, math.MinInt16
		case 32:
			maxv, minv = math.MaxInt32, math.MinInt32
		default:
			maxv, minv = math.MaxInt64, math.MinInt64
		}
		switch atom {
		case "zero":
			return val{true, 0, 0}, true
		case "one":
			return val{true, 1, 0}, true
		case "minusTwo":
			return val{true, -2, 0}, true
		case "typeMaxInt":
			return val{true, maxv, 0}, true
		case "typeMinInt":
			return val{true, minv, 0}, true
		}
		return val{}, false
	}
	f := func(x float64) (val, bool) { return val{false, 0, x}, true }
	switch atom {
	case "zero":
		return f(0)
	case "negzero":
		return f(math.Copysign(0, -1))
	case "one":
		return f(1)
	case "minusTwo":
		return f(-2)
	case "half":
		return f(0.5)
	}
	if et.Bits == 32 {
		switch atom {
		case "subnormal":
			return f(float64(float32(math.SmallestNonzeroFloat32)))
		case "maxfinite":
			return f(float64(float32(math.MaxFloat32)))
		case "minfinite":
			return f(-float64(float32(math.MaxFloat32)))
		case "typeMaxInt":
			return f(16777216) // 2^24: the integers up to here are contiguous in float32
		case "typeMinInt":
			return f(-16777216)
		}
	} else {
		switch atom {
		case "subnormal":
			return f(math.SmallestNonzeroFloat64)
		case "maxfinite":
			return f(math.MaxFloat64)
		case "minfinite":
			return f(-math.MaxFloat64)
		case "typeMaxInt":
			return f(9007199254740992) // 2^53
		case "typeMinInt":
			return f(-9007199254740992)
		}
	}
	return val{}, false
}

// classify maps a concrete value back to its atom ("other" if none).
func classify(et *etype, bits uint64) string {
	for _, a := range atomNames {
		if v, ok := atomValue(et, a); ok && v.bits() == bits {
			return a
		}
	}
	return "other"
}

// observed bit pattern of a scalar of the element type
func bitsOf(et *etype, s ConstScalar) uint64 {
	if et.IsInt {
		return uint64(s.GetInt64())
	}
	return math.Float64bits(s.GetFloat64())
}

func setVal(et *etype, s Scalar, v val) {
	if et.IsInt {
		s.SetInt64(v.I)
	} else {
		s.SetFloat64(v.F)
	}
}

func newConst(et *etype, v val) ConstScalar {
	switch et.Name {
	case "ConstFloat64":
		return ConstFloat64(v.F)
	case "ConstFloat32":
		return ConstFloat32(float32(v.F))
	case "ConstInt":
		return ConstInt(int(v.I))
	case "ConstInt8":
		return ConstInt8(int8(v.I))
	case "ConstInt16":
		return ConstInt16(int16(v.I))
	case "ConstInt32":
		return ConstInt32(int32(v.I))
	case "ConstInt64":
		return ConstInt64(v.I)
	}
	panic("newConst: " + et.Name)
}
