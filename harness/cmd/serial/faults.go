package main

import (
	"bytes"
	"encoding/json"
	"fmt"
	"math/big"
	"strconv"
	"strings"

	. "github.com/pbenner/autodiff"
	"verifharness/vh"
)

// ---- structured faults on the REAL encoded bytes -----------------------------
// (the abstract effect of every fault is defined by Serialization!ApplyJson /
// ApplyTable; the driver performs the same edit on the concrete document)

func parseGeneric(b []byte) (interface{}, error) {
	d := json.NewDecoder(bytes.NewReader(b))
	d.UseNumber()
	var v interface{}
	if err := d.Decode(&v); err != nil {
		return nil, err
	}
	return v, nil
}

func blank(to string) interface{} {
	switch to {
	case "str":
		return "x"
	case "num":
		return json.Number("1")
	case "arr":
		return []interface{}{}
	case "null":
		return nil
	case "obj":
		return map[string]interface{}{"Bogus": json.Number("1")}
	}
	return nil
}

func asInt(v interface{}) (int64, bool) {
	n, ok := v.(json.Number)
	if !ok {
		return 0, false
	}
	i, err := strconv.ParseInt(string(n), 10, 64)
	return i, err == nil
}

func neg(i int64) int64 {
	if i > 0 {
		return -i
	}
	return -1
}

func sizeOf(m map[string]interface{}) int64 {
	if l, ok := asInt(m["Length"]); ok {
		return l
	}
	r, ok1 := asInt(m["Rows"])
	c, ok2 := asInt(m["Cols"])
	if ok1 && ok2 {
		return r * c
	}
	return 1000
}

var errInapplicable = fmt.Errorf("fault not applicable to the real document")

// applyJSONFault edits the generic document; returns the new bytes.
func applyJSONFault(b []byte, ft fault, et *etype) ([]byte, error) {
	if ft.F == "Truncate" {
		n := len(b) - 1 - len(b)/3
		if n < 0 {
			n = 0
		}
		return b[:n], nil
	}
	root, err := parseGeneric(b)
	if err != nil {
		return nil, errInapplicable
	}
	m, isObj := root.(map[string]interface{})
	switch ft.F {
	case "EntryRange":
		lit := rangeLiteral(et, ft.Val, ft.Notation)
		if lit == "" {
			return nil, errInapplicable
		}
		if ft.Field == "" && ft.Idx < 0 { // bare scalar document
			if _, isNum := root.(json.Number); !isNum {
				return nil, errInapplicable
			}
			root = json.Number(lit)
			break
		}
		var a []interface{}
		if ft.Field == "" {
			a, _ = root.([]interface{})
		} else if isObj {
			a, _ = m[ft.Field].([]interface{})
		}
		if ft.Idx < 0 || ft.Idx >= len(a) {
			return nil, errInapplicable
		}
		a[ft.Idx] = json.Number(lit)
	case "DropField":
		if !isObj {
			return nil, errInapplicable
		}
		if _, ok := m[ft.Field]; !ok {
			return nil, errInapplicable
		}
		delete(m, ft.Field)
	case "WrongType":
		if ft.Field == "" {
			if ft.Idx < 0 {
				root = blank(ft.To)
			} else {
				a, ok := root.([]interface{})
				if !ok || ft.Idx >= len(a) {
					return nil, errInapplicable
				}
				a[ft.Idx] = blank(ft.To)
			}
		} else {
			if !isObj {
				return nil, errInapplicable
			}
			if _, ok := m[ft.Field]; !ok {
				return nil, errInapplicable
			}
			if ft.Idx < 0 {
				m[ft.Field] = blank(ft.To)
			} else {
				a, ok := m[ft.Field].([]interface{})
				if !ok || ft.Idx >= len(a) {
					return nil, errInapplicable
				}
				a[ft.Idx] = blank(ft.To)
			}
		}
	case "LenMismatch":
		a, ok := m[ft.Field].([]interface{})
		if !isObj || !ok {
			return nil, errInapplicable
		}
		if ft.Delta < 0 {
			if len(a) == 0 {
				return nil, errInapplicable
			}
			m[ft.Field] = a[:len(a)-1]
		} else {
			var x interface{} = json.Number("1")
			if ft.Field == "Index" {
				x = json.Number("0")
			} else if ft.Field == "Hessian" {
				x = []interface{}{}
			}
			m[ft.Field] = append(a, x)
		}
	case "NegDim":
		i, ok := asInt(m[ft.Field])
		if !isObj || !ok {
			return nil, errInapplicable
		}
		m[ft.Field] = json.Number(strconv.FormatInt(neg(i), 10))
	case "DupIndex":
		idx, ok := m["Index"].([]interface{})
		if !isObj || !ok || len(idx) == 0 {
			return nil, errInapplicable
		}
		m["Index"] = append(idx, idx[0])
		if v, ok := m["Value"].([]interface{}); ok {
			m["Value"] = append(v, json.Number("1"))
		}
	case "IndexOutOfRange":
		idx, ok := m["Index"].([]interface{})
		if !isObj || !ok || len(idx) == 0 {
			return nil, errInapplicable
		}
		if ft.How == "negative" {
			idx[len(idx)-1] = json.Number("-1")
		} else {
			idx[len(idx)-1] = json.Number(strconv.FormatInt(sizeOf(m), 10))
		}
	case "LengthTooSmall":
		if !isObj {
			return nil, errInapplicable
		}
		idx, _ := m["Index"].([]interface{})
		if _, ok := asInt(m["Length"]); ok && len(idx) > 0 {
			max := int64(-1 << 62)
			for _, x := range idx {
				i, ok := asInt(x)
				if !ok {
					return nil, errInapplicable
				}
				if i > max {
					max = i
				}
			}
			m["Length"] = json.Number(strconv.FormatInt(max, 10))
		} else if r, ok := asInt(m["Rows"]); ok && r > 0 {
			m["Rows"] = json.Number(strconv.FormatInt(r-1, 10))
		} else {
			return nil, errInapplicable
		}
	default:
		return nil, fmt.Errorf("unknown json fault %s", ft.F)
	}
	return json.Marshal(root)
}

// table documents: lines of blank-separated tokens
func tableLines(b []byte) [][]string {
	ls := strings.Split(string(b), "\n")
	for len(ls) > 0 && strings.TrimSpace(ls[len(ls)-1]) == "" {
		ls = ls[:len(ls)-1]
	}
	r := make([][]string, len(ls))
	for i, l := range ls {
		r[i] = strings.Fields(l)
	}
	return r
}

func tableBytes(ls [][]string) []byte {
	var sb strings.Builder
	for _, l := range ls {
		sb.WriteString(strings.Join(l, " "))
		sb.WriteString("\n")
	}
	return []byte(sb.String())
}

func applyTableFault(b []byte, ft fault, et *etype) ([]byte, error) {
	ls := tableLines(b)
	lineOK := func(i int) bool { return i >= 0 && i < len(ls) }
	switch ft.F {
	case "EmptyFile":
		return []byte{}, nil
	case "BlankLine":
		if ft.Line < 0 || ft.Line > len(ls) {
			return nil, errInapplicable
		}
		ls = append(ls[:ft.Line], append([][]string{{" \t"}}, ls[ft.Line:]...)...)
	case "DropLine":
		if !lineOK(ft.Line) {
			return nil, errInapplicable
		}
		ls = append(ls[:ft.Line], ls[ft.Line+1:]...)
	case "DropToken":
		if !lineOK(ft.Line) || len(ls[ft.Line]) == 0 {
			return nil, errInapplicable
		}
		ls[ft.Line] = ls[ft.Line][:len(ls[ft.Line])-1]
	case "ExtraToken":
		if !lineOK(ft.Line) {
			return nil, errInapplicable
		}
		ls[ft.Line] = append(ls[ft.Line], "1")
	case "NonNumeric":
		if !lineOK(ft.Line) || ft.Tok >= len(ls[ft.Line]) {
			return nil, errInapplicable
		}
		ls[ft.Line][ft.Tok] = "x"
	case "CellIndex":
		if len(ls) < 2 || len(ls[0]) != 2 || len(ls[len(ls)-1]) != 3 {
			return nil, errInapplicable
		}
		R, e1 := strconv.ParseInt(ls[0][0], 10, 64)
		C, e2 := strconv.ParseInt(ls[0][1], 10, 64)
		if e1 != nil || e2 != nil {
			return nil, errInapplicable
		}
		vi, vj := int64(0), int64(0)
		if ft.Other == "last" {
			if vi = R - 1; vi < 0 {
				vi = 0
			}
			if vj = C - 1; vj < 0 {
				vj = 0
			}
		}
		i, j := vi, vj
		switch ft.Out {
		case "col=cols":
			j = C
		case "col=cols+1":
			j = C + 1
		case "col=-1":
			j = -1
		case "row=rows":
			i = R
		case "row=-1":
			i = -1
		default:
			return nil, fmt.Errorf("unknown cell fault %s", ft.Out)
		}
		ls[len(ls)-1][0] = strconv.FormatInt(i, 10)
		ls[len(ls)-1][1] = strconv.FormatInt(j, 10)
	case "EntryRange":
		lit := rangeLiteral(et, ft.Val, ft.Notation)
		if lit == "" || !lineOK(ft.Line) || ft.Tok >= len(ls[ft.Line]) {
			return nil, errInapplicable
		}
		ls[ft.Line][ft.Tok] = lit
	case "NegDim":
		if len(ls) == 0 || len(ls[0]) == 0 {
			return nil, errInapplicable
		}
		i, err := strconv.ParseInt(ls[0][0], 10, 64)
		if err != nil {
			return nil, errInapplicable
		}
		ls[0][0] = strconv.FormatInt(neg(i), 10)
	case "DupIndex":
		if len(ls) < 2 || len(ls[1]) == 0 {
			return nil, errInapplicable
		}
		d := append([]string{}, ls[1]...)
		d[len(d)-1] = "1"
		ls = append(ls, d)
	case "IndexOutOfRange":
		if len(ls) < 2 || len(ls[len(ls)-1]) == 0 || len(ls[0]) == 0 {
			return nil, errInapplicable
		}
		if ft.How == "negative" {
			ls[len(ls)-1][0] = "-1"
		} else {
			ls[len(ls)-1][0] = ls[0][0]
		}
	case "LengthTooSmall":
		if len(ls) < 2 || len(ls[len(ls)-1]) == 0 || len(ls[0]) == 0 {
			return nil, errInapplicable
		}
		ls[0][0] = ls[len(ls)-1][0]
	default:
		return nil, fmt.Errorf("unknown table fault %s", ft.F)
	}
	return tableBytes(ls), nil
}

// ---- is a decoded object well formed? ---------------------------------------
// Dims()/At for every in-range index, iteration, String(), Table() and
// re-encoding must not panic; dimensions are non-negative, iterators stay in
// range.  Returns (class, message): class "" = well formed.

func probe(et *etype, x interface{}) (string, string) {
	var cls, msg string
	p := vh.Try(func() {
		o := observe(et, x)
		switch o.Kind {
		case "vector", "matrix":
			for _, d := range o.Dims {
				if d < 0 {
					cls, msg = "negative_dims", fmt.Sprintf("dims %v", o.Dims)
					return
				}
			}
			if o.IterOK != "" {
				cls, msg = "iterator_out_of_range", o.IterOK
				return
			}
		case "scalar":
			if o.N < 0 {
				cls, msg = "negative_dims", fmt.Sprintf("N=%d", o.N)
				return
			}
		}
		total := 1
		for _, d := range o.Dims {
			if d > probeCap {
				total = probeCap + 1 // too large to print (also guards products that overflow or vanish)
				break
			}
			total *= d
		}
		if s, ok := x.(fmt.Stringer); ok && total <= probeCap {
			_ = s.String()
		}
		if total <= probeCap {
			switch v := x.(type) {
			case ConstVector:
				_ = v.Table()
			case ConstMatrix:
				_ = v.Table()
			}
			if mm, ok := x.(json.Marshaler); ok {
				_, _ = mm.MarshalJSON()
			}
		}
	})
	if p != "" {
		return "corrupt_object", "panic while reading the decoded object: " + p
	}
	return cls, msg
}

// dimensions the (mutated) JSON document states, if it states any
func docDims(b []byte, kind string) ([]int, bool) {
	root, err := parseGeneric(b)
	if err != nil {
		return nil, false
	}
	m, ok := root.(map[string]interface{})
	if !ok {
		if a, ok := root.([]interface{}); ok && kind == "vector" {
			return []int{len(a)}, true
		}
		return nil, false
	}
	if kind == "vector" {
		if l, ok := asInt(m["Length"]); ok {
			return []int{int(l)}, true
		}
		return nil, false
	}
	r, ok1 := asInt(m["Rows"])
	c, ok2 := asInt(m["Cols"])
	if ok1 && ok2 {
		return []int{int(r), int(c)}, true
	}
	return nil, false
}

// rangeLiteral spells the bound of the integer element type the case names
// (max, min, above = max+1, below = min-1) as a decimal integer, with a
// fraction ("128.0") or in exponent notation ("1.28e2"); all three denote the
// integer exactly.  "" for non-integer element types.
func rangeLiteral(et *etype, val, notation string) string {
	if !et.IsInt {
		return ""
	}
	max := new(big.Int).Lsh(big.NewInt(1), uint(et.Bits-1))
	min := new(big.Int).Neg(max)
	max.Sub(max, big.NewInt(1))
	switch val {
	case "frac": // not an integer
		return map[string]string{"dec": "1.5", "float": "0.5", "exp": "1.5e0"}[notation]
	case "huge": // far outside every integer type
		return map[string]string{"dec": "1000000000000000000000000000000", "float": "1000000000000000000000000000000.0", "exp": "1e30"}[notation]
	}
	var v *big.Int
	switch val {
	case "max":
		v = max
	case "min":
		v = min
	case "above":
		v = new(big.Int).Add(max, big.NewInt(1))
	case "below":
		v = new(big.Int).Sub(min, big.NewInt(1))
	default:
		return ""
	}
	dec := v.String()
	switch notation {
	case "dec":
		return dec
	case "float":
		return dec + ".0"
	case "exp":
		sign, digits := "", dec
		if digits[0] == '-' {
			sign, digits = "-", digits[1:]
		}
		mant := digits[:1]
		if len(digits) > 1 {
			mant += "." + digits[1:]
		}
		return fmt.Sprintf("%s%se%d", sign, mant, len(digits)-1)
	}
	return ""
}
