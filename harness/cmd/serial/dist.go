package main

import (
	"encoding/json"
	"fmt"
	"io/ioutil"
	"math"
	"path/filepath"
	"reflect"
	"sort"
	"strings"

	. "github.com/pbenner/autodiff"
	. "github.com/pbenner/autodiff/statistics"
	"github.com/pbenner/autodiff/statistics/generic"
	md "github.com/pbenner/autodiff/statistics/matrixDistribution"
	sd "github.com/pbenner/autodiff/statistics/scalarDistribution"
	vd "github.com/pbenner/autodiff/statistics/vectorDistribution"
	"verifharness/vh"
)

// Distribution configurations (Serialization.tla, Family = "dist").  The
// specification enumerates trees of family names; the driver owns one valid
// parameter set per family (taken from the packages' tests) and the points
// at which the densities are compared.

type distObj struct {
	s ScalarPdf
	v VectorPdf
	m MatrixPdf
	o BasicDistribution // configurable, but none of the three density interfaces
}

func (d distObj) basic() BasicDistribution {
	switch {
	case d.s != nil:
		return d.s
	case d.v != nil:
		return d.v
	case d.m != nil:
		return d.m
	case d.o != nil:
		return d.o
	}
	return nil
}

func f(x float64) Scalar                { return NewFloat64(x) }
func vec(x ...float64) Vector           { return NewDenseFloat64Vector(x) }
func mat(r, c int, x ...float64) Matrix { return NewDenseFloat64Matrix(x, r, c) }

func leafDist(name string) (distObj, error) {
	var s ScalarPdf
	var v VectorPdf
	var m MatrixPdf
	var err error
	switch name {
	case "scalar:beta distribution":
		s, err = sd.NewBetaDistribution(f(2), f(3), false)
	case "scalar:binomial distribution":
		s, err = sd.NewBinomialDistribution(f(0.3), 5)
	case "scalar:categorical distribution":
		s, err = sd.NewCategoricalDistribution(vec(0.25, 0.25, 0.5))
	case "scalar:cauchy distribution":
		s, err = sd.NewCauchyDistribution(f(1), f(2))
	case "scalar:chi-squared distribution":
		s, err = sd.NewChiSquaredDistribution(Float64Type, 3)
	case "scalar:delta distribution":
		s, err = sd.NewDeltaDistribution(f(1.5))
	case "scalar:exponential distribution":
		s, err = sd.NewExponentialDistribution(f(2))
	case "scalar:gamma distribution":
		s, err = sd.NewGammaDistribution(f(2), f(3))
	case "scalar:generalized gamma distribution":
		s, err = sd.NewGeneralizedGammaDistribution(f(1.5), f(2), f(3))
	case "scalar:geometric distribution":
		s, err = sd.NewGeometricDistribution(f(0.3))
	case "scalar:gev distribution":
		s, err = sd.NewGevDistribution(f(1), f(2), f(0.5))
	case "scalar:generalized pareto distribution":
		s, err = sd.NewGParetoDistribution(f(0.25), f(2), f(0.5))
	case "scalar:laplace distribution":
		s, err = sd.NewLaplaceDistribution(f(1), f(2))
	case "scalar:negative binomial distribution":
		s, err = sd.NewNegativeBinomialDistribution(f(3), f(0.4))
	case "scalar:normal distribution":
		s, err = sd.NewNormalDistribution(f(1), f(2))
	case "scalar:pareto distribution":
		s, err = sd.NewParetoDistribution(f(1), f(2))
	case "scalar:poisson distribution":
		s, err = sd.NewPoissonDistribution(f(2.5))
	case "scalar:power law distribution":
		s, err = sd.NewPowerLawDistribution(f(2.5), f(1))
	case "vector:normal distribtion":
		v, err = vd.NewNormalDistribution(vec(1, 2), mat(2, 2, 2, 0.5, 0.5, 1))
	case "vector:skew normal distribtion":
		v, err = vd.NewSkewNormalDistribution(vec(2, 3), mat(2, 2, 16, 8, 8, 12), vec(2, 6), vec(3, 4))
	case "vector:t distribtion":
		v, err = vd.NewTDistribution(f(3), vec(2, 3), mat(2, 2, 2, 1, 1, 2))
	case "vector:logistic regression":
		v, err = vd.NewLogisticRegression(vec(0.5, -1, 2))
	case "matrix:inverse wishart distribtion":
		m, err = md.NewInverseWishartDistribution(f(3), mat(2, 2, 1, 0.3, 0.3, 1))
	case "matrix:normal inverse wishart distribtion":
		var o *md.NormalIWishartDistribution
		if o, err = md.NewNormalIWishartDistribution(f(2), f(3), vec(1, 2), mat(2, 2, 1, 0.3, 0.3, 1)); err == nil {
			return distObj{o: o}, nil
		}
	default:
		return distObj{}, fmt.Errorf("driver has no builder for family %q", name)
	}
	if err != nil {
		return distObj{}, fmt.Errorf("constructor of %q: %v", name, err)
	}
	return distObj{s: s, v: v, m: m}, nil
}

func scalars(ds []distObj) ([]ScalarPdf, error) {
	r := make([]ScalarPdf, len(ds))
	for i, d := range ds {
		if d.s == nil {
			return nil, fmt.Errorf("child %d is not a scalar distribution", i)
		}
		r[i] = d.s
	}
	return r, nil
}
func vectors(ds []distObj) ([]VectorPdf, error) {
	r := make([]VectorPdf, len(ds))
	for i, d := range ds {
		if d.v == nil {
			return nil, fmt.Errorf("child %d is not a vector distribution", i)
		}
		r[i] = d.v
	}
	return r, nil
}
func matrices(ds []distObj) ([]MatrixPdf, error) {
	r := make([]MatrixPdf, len(ds))
	for i, d := range ds {
		if d.m == nil {
			return nil, fmt.Errorf("child %d is not a matrix distribution", i)
		}
		r[i] = d.m
	}
	return r, nil
}

var pi2 = []float64{0.6, 0.4}
var tr2 = []float64{0.7, 0.3, 0.4, 0.6}
var tr4 = []float64{1, 2, 0, 4, 5, 6, 7, 8, 0, 4, 1, 2, 7, 8, 5, 6}
var tr4h = []float64{1, 2, 3, 4, 5, 6, 7, 8, 9, 10, 11, 12, 13, 14, 15, 16}

func chmmConstraints() []generic.EqualityConstraint {
	c1, _ := generic.NewEqualityConstraint([]int{0, 3, 1, 2, 1, 3})
	c2, _ := generic.NewEqualityConstraint([]int{2, 1, 3, 0, 3, 1})
	return []generic.EqualityConstraint{c1, c2}
}

func buildDist(n *docNode) (distObj, error) {
	if n == nil || n.T != "obj" || n.F["Name"] == nil {
		return distObj{}, fmt.Errorf("malformed abstract configuration")
	}
	name := n.F["Name"].S
	var kids []distObj
	if d := n.F["Distributions"]; d != nil {
		for _, c := range d.V {
			k, err := buildDist(c)
			if err != nil {
				return distObj{}, err
			}
			kids = append(kids, k)
		}
	}
	if len(kids) == 0 {
		return leafDist(name)
	}
	// HMM variants: identical emission distributions would make the likelihood
	// blind to start/final restrictions - shift the location of component k by k/2
	if p := n.F["Parameters"]; p != nil && p.Hv != "" {
		for k := 1; k < len(kids); k++ {
			b := kids[k].basic()
			ps := b.GetParameters().CloneVector()
			ps.At(0).SetFloat64(ps.At(0).GetFloat64() + 0.5*float64(k))
			if err := b.SetParameters(ps); err != nil {
				return distObj{}, fmt.Errorf("SetParameters of component %d: %v", k, err)
			}
		}
	}
	var s ScalarPdf
	var v VectorPdf
	var m MatrixPdf
	var err error
	hv := ""
	if p := n.F["Parameters"]; p != nil {
		hv = p.Hv
	}
	// state map of the HMM variants: a permutation, so the number of emission distributions is unchanged
	sm2, sm4 := []int(nil), []int(nil)
	if hv == "statemap" {
		sm2, sm4 = []int{1, 0}, []int{1, 0, 3, 2}
	}
	switch name {
	case "scalar:mixture distribution":
		var e []ScalarPdf
		if e, err = scalars(kids); err == nil {
			s, err = sd.NewMixture(vec(0.25, 0.75), e)
		}
	case "scalar:pdf log transform":
		var e []ScalarPdf
		if e, err = scalars(kids); err == nil {
			s, err = sd.NewPdfLogTransform(e[0], 1.0)
		}
	case "scalar:pdf translation":
		var e []ScalarPdf
		if e, err = scalars(kids); err == nil {
			s, err = sd.NewPdfTranslation(e[0], 1.5)
		}
	case "vector:scalar id":
		var e []ScalarPdf
		if e, err = scalars(kids); err == nil {
			v, err = vd.NewScalarId(e...)
		}
	case "vector:scalar iid":
		var e []ScalarPdf
		if e, err = scalars(kids); err == nil {
			v, err = vd.NewScalarIid(e[0], 2)
		}
	case "vector:hmm distribution":
		var e []ScalarPdf
		if e, err = scalars(kids); err == nil {
			v, err = vd.NewHmm(vec(pi2...), mat(2, 2, tr2...), sm2, e)
		}
	case "vector:constrained hmm distribution":
		var e []ScalarPdf
		if e, err = scalars(kids); err == nil {
			v, err = vd.NewConstrainedHmm(vec(1, 1, 1, 1), mat(4, 4, tr4...), sm4, e, chmmConstraints())
		}
	case "vector:hierarchical hmm distribution":
		var e []ScalarPdf
		if e, err = scalars(kids); err == nil {
			tree := generic.NewHmmNode(generic.NewHmmLeaf(0, 2), generic.NewHmmLeaf(2, 4))
			v, err = vd.NewHierarchicalHmm(vec(1, 1, 1, 1), mat(4, 4, tr4h...), sm4, e, tree)
		}
	case "vector:mixture distribution":
		var e []VectorPdf
		if e, err = vectors(kids); err == nil {
			v, err = vd.NewMixture(vec(0.25, 0.75), e)
		}
	case "vector:vector id":
		var e []VectorPdf
		if e, err = vectors(kids); err == nil {
			v, err = vd.NewVectorId(e...)
		}
	case "vector:vector iid":
		var e []VectorPdf
		if e, err = vectors(kids); err == nil {
			v, err = vd.NewVectorIid(e[0], 2*e[0].Dim())
		}
	case "matrix:vector id":
		var e []VectorPdf
		if e, err = vectors(kids); err == nil {
			m, err = md.NewVectorId(e...)
		}
	case "matrix:vector iid":
		var e []VectorPdf
		if e, err = vectors(kids); err == nil {
			m, err = md.NewVectorIid(e[0], 2)
		}
	case "matrix:hmm distribution":
		var e []VectorPdf
		if e, err = vectors(kids); err == nil {
			m, err = md.NewHmm(vec(pi2...), mat(2, 2, tr2...), sm2, e)
		}
	case "matrix:constrained hmm distribution":
		var e []VectorPdf
		if e, err = vectors(kids); err == nil {
			m, err = md.NewConstrainedHmm(vec(1, 1, 1, 1), mat(4, 4, tr4...), sm4, e, chmmConstraints())
		}
	case "matrix:hierarchical hmm distribution":
		var e []VectorPdf
		if e, err = vectors(kids); err == nil {
			tree := generic.NewHmmNode(generic.NewHmmLeaf(0, 2), generic.NewHmmLeaf(2, 4))
			m, err = md.NewHierarchicalHmm(vec(1, 1, 1, 1), mat(4, 4, tr4h...), sm4, e, tree)
		}
	case "matrix:mixture distribution":
		var e []MatrixPdf
		if e, err = matrices(kids); err == nil {
			m, err = md.NewMixture(vec(0.25, 0.75), e)
		}
	case "matrix:shape hmm distribution":
		var e []MatrixPdf
		if e, err = matrices(kids); err == nil {
			m, err = md.NewShapeHmm(vec(pi2...), mat(2, 2, tr2...), sm2, e)
		}
	default:
		return distObj{}, fmt.Errorf("driver has no builder for wrapper %q", name)
	}
	if err != nil {
		return distObj{}, fmt.Errorf("constructor of %q: %v", name, err)
	}
	if hv == "start" || hv == "final" || hv == "startfinal" {
		// restrict the start states to {first state}, the final states to {last state}
		var h interface {
			SetStartStates([]int) error
			SetFinalStates([]int) error
		}
		var ok bool
		if v != nil {
			h, ok = v.(interface {
				SetStartStates([]int) error
				SetFinalStates([]int) error
			})
		} else if m != nil {
			h, ok = m.(interface {
				SetStartStates([]int) error
				SetFinalStates([]int) error
			})
		}
		if !ok {
			return distObj{}, fmt.Errorf("%q has no start/final states", name)
		}
		last := 1
		if strings.Contains(name, "constrained") || strings.Contains(name, "hierarchical") {
			last = 3
		}
		if hv != "final" {
			if e := h.SetStartStates([]int{0}); e != nil {
				return distObj{}, fmt.Errorf("SetStartStates: %v", e)
			}
		}
		if hv != "start" {
			if e := h.SetFinalStates([]int{last}); e != nil {
				return distObj{}, fmt.Errorf("SetFinalStates: %v", e)
			}
		}
	}
	return distObj{s: s, v: v, m: m}, nil
}

// families whose configuration stores exp() of log-scale parameters: the
// values go through exp/log, only there a rounding tolerance applies
func logScaleConfig(n *docNode) bool {
	if n == nil || n.T != "obj" || n.F["Name"] == nil {
		return false
	}
	name := n.F["Name"].S
	if strings.Contains(name, "mixture") || strings.Contains(name, "hmm") || strings.Contains(name, "categorical") ||
		strings.Contains(name, "binomial") {
		return true
	}
	if d := n.F["Distributions"]; d != nil {
		for _, c := range d.V {
			if logScaleConfig(c) {
				return true
			}
		}
	}
	return false
}

// the constrained HMM re-normalises its transition matrix with an iterative
// solver when it is constructed: only the solver's precision can be expected
func iterativeConfig(n *docNode) bool {
	if n == nil || n.T != "obj" || n.F["Name"] == nil {
		return false
	}
	if strings.Contains(n.F["Name"].S, "constrained") {
		return true
	}
	if d := n.F["Distributions"]; d != nil {
		for _, c := range d.V {
			if iterativeConfig(c) {
				return true
			}
		}
	}
	return false
}

func closeEnough(a, b float64, tol float64) bool {
	if math.Float64bits(a) == math.Float64bits(b) || (math.IsNaN(a) && math.IsNaN(b)) {
		return true
	}
	if tol == 0 {
		return false
	}
	return math.Abs(a-b) <= tol*(1+math.Abs(a)+math.Abs(b))
}

var pts = []float64{0, 0.3, 1, 2, 1.5, 3, 0.75}

// outcome of LogPdf at the k-th probe point
func evalAt(d distObj, k int) string {
	res := ""
	p := vh.Try(func() {
		r := NewFloat64(0)
		var err error
		switch {
		case d.s != nil:
			err = d.s.LogPdf(r, ConstFloat64(pts[k%len(pts)]))
		case d.v != nil:
			n := d.v.Dim()
			if n <= 0 {
				n = 3
			}
			x := NullDenseFloat64Vector(n)
			for i := 0; i < n; i++ {
				x.At(i).SetFloat64(pts[(i+k)%len(pts)])
			}
			err = d.v.LogPdf(r, x)
		case d.o != nil:
			res = "error" // no uniform density interface: parameters only
			return
		case d.m != nil:
			a, b := d.m.Dims()
			if a <= 0 {
				a = 3
			}
			if b <= 0 {
				b = 2
			}
			x := NullDenseFloat64Matrix(a, b)
			for i := 0; i < a; i++ {
				for j := 0; j < b; j++ {
					x.At(i, j).SetFloat64(pts[(i*b+j+k)%len(pts)])
				}
			}
			if a == b { // covariance-like arguments: symmetric positive definite
				for i := 0; i < a; i++ {
					for j := 0; j < b; j++ {
						if i == j {
							x.At(i, j).SetFloat64(2 + pts[k%len(pts)])
						} else {
							x.At(i, j).SetFloat64(0.25)
						}
					}
				}
			}
			err = d.m.LogPdf(r, x)
		}
		if err != nil {
			res = "error"
		} else {
			res = fmt.Sprintf("value:%x", math.Float64bits(r.GetFloat64()))
		}
	})
	if p != "" {
		return "panic"
	}
	return res
}

func valueOf(s string) (float64, bool) {
	if !strings.HasPrefix(s, "value:") {
		return 0, false
	}
	var b uint64
	fmt.Sscanf(s[6:], "%x", &b)
	return math.Float64frombits(b), true
}

func paramsOf(d distObj) (ps []float64, panicMsg string) {
	panicMsg = vh.Try(func() {
		p := d.basic().GetParameters()
		if p == nil {
			return
		}
		for i := 0; i < p.Dim(); i++ {
			ps = append(ps, p.ConstAt(i).GetFloat64())
		}
	})
	return
}

// importInto reads the configuration into a USED distribution object of the
// same family (built from the same abstract configuration, then given other
// parameters and, for HMMs, other start/final states) through its own
// ImportConfig, instead of a new object from the registry.
func importInto(n *docNode, d distObj, b []byte) (r distObj, err error, panicMsg string) {
	panicMsg = vh.Try(func() {
		if e := ioutil.WriteFile(distPath, b, 0644); e != nil {
			vh.Fatal("scratch write:", e)
		}
		var u distObj
		if u, err = buildDist(n); err != nil {
			panic("cannot build the receiver: " + err.Error())
		}
		ub := u.basic()
		vh.Try(func() { // other parameters (families that refuse the shifted set keep theirs)
			if name := n.F["Name"]; name != nil && strings.Contains(name.S, "mixture") {
				// SetParameters of the vector/matrix mixtures calls itself without bound
				// (fatal stack overflow; not a reader, outside C18): leave their parameters alone
				return
			}
			ps := ub.GetParameters().CloneVector()
			if ps.Dim() > 0 {
				ps.At(0).SetFloat64(ps.At(0).GetFloat64() + 0.25)
				ub.SetParameters(ps)
			}
		})
		if h, ok := ub.(interface {
			SetStartStates([]int) error
			SetFinalStates([]int) error
		}); ok {
			vh.Try(func() { h.SetStartStates([]int{1}); h.SetFinalStates([]int{0}) })
		}
		if err = ImportDistribution(distPath, ub, Float64Type); err == nil {
			r = u
		}
	})
	return
}

// scratch file of the configuration round trips (set by the caller)
var distPath string

// importAs reads the configuration file by NAME through the registries
// (ImportScalarPdf / ImportVectorPdf / ImportMatrixPdf: ImportJson, then the
// family registered under the name, nested families likewise); a family that
// is none of the three density kinds is read with ImportDistribution.
func importAs(d distObj, b []byte) (r distObj, err error, panicMsg string) {
	panicMsg = vh.Try(func() {
		if e := ioutil.WriteFile(distPath, b, 0644); e != nil {
			vh.Fatal("scratch write:", e)
		}
		switch {
		case d.s != nil:
			r.s, err = ImportScalarPdf(distPath, Float64Type)
		case d.v != nil:
			r.v, err = ImportVectorPdf(distPath, Float64Type)
		case d.m != nil:
			r.m, err = ImportMatrixPdf(distPath, Float64Type)
		case d.o != nil:
			n := reflect.New(reflect.TypeOf(d.o).Elem()).Interface().(BasicDistribution)
			if err = ImportDistribution(distPath, n, Float64Type); err == nil {
				r.o = n
			}
		}
		if err != nil {
			r = distObj{}
		}
	})
	return
}

// ---- faults on configuration documents (Serialization!ApplyCfg) ---------------

func cfgAtDepth(root map[string]interface{}, depth int) (map[string]interface{}, bool) {
	c := root
	for d := 0; d < depth; d++ {
		a, ok := c["Distributions"].([]interface{})
		if !ok || len(a) == 0 {
			return nil, false
		}
		c, ok = a[0].(map[string]interface{})
		if !ok {
			return nil, false
		}
	}
	return c, true
}

func applyCfgFault(b []byte, ft fault) ([]byte, error) {
	if ft.F == "Truncate" {
		return b[:len(b)-1-len(b)/3], nil
	}
	rootI, err := parseGeneric(b)
	if err != nil {
		return nil, errInapplicable
	}
	root, ok := rootI.(map[string]interface{})
	if !ok {
		return nil, errInapplicable
	}
	c, ok := cfgAtDepth(root, ft.Depth)
	if !ok {
		return nil, errInapplicable
	}
	paramArray := func() (set func([]interface{}), cur []interface{}, ok bool) {
		switch p := c["Parameters"].(type) {
		case []interface{}:
			return func(a []interface{}) { c["Parameters"] = a }, p, true
		case map[string]interface{}:
			keys := []string{}
			for k, v := range p {
				if _, isArr := v.([]interface{}); isArr {
					keys = append(keys, k)
				}
			}
			sort.Strings(keys)
			if len(keys) == 0 {
				return nil, nil, false
			}
			k := keys[0]
			return func(a []interface{}) { p[k] = a }, p[k].([]interface{}), true
		}
		return nil, nil, false
	}
	switch ft.F {
	case "DropField":
		if _, ok := c[ft.Field]; !ok {
			return nil, errInapplicable
		}
		delete(c, ft.Field)
	case "WrongType":
		c[ft.Field] = blank(ft.To)
	case "UnknownName":
		c["Name"] = "no such distribution"
	case "ParamLen":
		set, cur, ok := paramArray()
		if !ok {
			return nil, errInapplicable
		}
		if ft.Delta < 0 {
			if len(cur) == 0 {
				return nil, errInapplicable
			}
			set(cur[:len(cur)-1])
		} else {
			set(append(cur, json.Number("1")))
		}
	case "ParamElemType":
		set, cur, ok := paramArray()
		if !ok || len(cur) == 0 {
			return nil, errInapplicable
		}
		n := append([]interface{}{}, cur...)
		n[0] = blank(ft.To)
		set(n)
	case "ParamIndexRange":
		p, ok := c["Parameters"].(map[string]interface{})
		if !ok {
			return nil, errInapplicable
		}
		done := false
		for _, key := range []string{"Constraints", "StateMap"} {
			if done = setFirstInt(p[key], "1000"); done {
				break
			}
		}
		if !done {
			return nil, errInapplicable
		}
	case "ChildCount":
		a, _ := root["Distributions"].([]interface{})
		if ft.Delta < 0 {
			if len(a) == 0 {
				return nil, errInapplicable
			}
			root["Distributions"] = a[:len(a)-1]
		} else {
			root["Distributions"] = append(a, map[string]interface{}{
				"Name": "scalar:normal distribution", "Parameters": []interface{}{json.Number("1"), json.Number("2")},
				"Distributions": nil})
		}
	default:
		return nil, fmt.Errorf("unknown configuration fault %s", ft.F)
	}
	return json.Marshal(root)
}

// ---- replay of a configuration case ----------------------------------------------

func cfgName(n *docNode) string {
	if n == nil || n.F["Name"] == nil {
		return "?"
	}
	s := n.F["Name"].S
	if p := n.F["Parameters"]; p != nil && p.Hv != "" {
		s += "[" + p.Hv + "]"
	}
	if d := n.F["Distributions"]; d != nil && len(d.V) > 0 {
		s += "(" + cfgName(d.V[0]) + ")"
	}
	return s
}

func (r *runner) distSig(c *tcase, what string) vh.M {
	ft, mode := "none", "roundtrip"
	if len(c.Faults) > 0 {
		ft, mode = c.Faults[0].F, "fault"
	}
	family := cfgName(c.Obj.Cfg)
	if mode == "fault" && c.Obj.Cfg != nil && c.Obj.Cfg.F["Name"] != nil {
		family = c.Obj.Cfg.F["Name"].S // damaged documents: the outer family identifies the reader
	}
	return vh.M{"engine": "serial", "mode": mode, "kind": "dist", "format": "config", "family": family,
		"fault": ft, "what": what, "receiver": rcvOf(c)}
}

func (r *runner) distReport(c *tcase, raw json.RawMessage, what, msg string, doc []byte) {
	r.mismatch(r.distSig(c, what), vh.M{"case": raw, "message": msg, "document": head(string(doc), 900)})
}

func (r *runner) runDist(ci int, c *tcase, raw json.RawMessage) {
	r.count("instantiations")
	r.jr.at(ci, 0, "dist-build")
	var d distObj
	var err error
	if p := vh.Try(func() { d, err = buildDist(c.Obj.Cfg) }); p != "" {
		err = fmt.Errorf("panic: %s", p)
	}
	if err != nil {
		// a family the driver cannot build is a gap of the driver, not of the library
		r.out.put(vh.M{"kind": "nobuilder", "family": cfgName(c.Obj.Cfg), "error": err.Error()}, true)
		r.count("dist_nobuilder")
		return
	}
	r.jr.at(ci, 0, "dist-export")
	var doc []byte
	distPath = filepath.Join(r.scratch, "dist.json")
	if p := vh.Try(func() {
		// file level: ExportDistribution -> ExportConfig -> ExportJson
		if err = ExportDistribution(distPath, d.basic()); err == nil {
			doc, err = ioutil.ReadFile(distPath)
		}
	}); p != "" {
		r.distReport(c, raw, "encoder_panic", p, nil)
		return
	}
	if err != nil {
		r.distReport(c, raw, "encode_error", err.Error(), nil)
		return
	}
	mut := doc
	for _, ft := range c.Faults {
		if c.Mutated != nil {
			break
		}
		var e error
		mut, e = applyCfgFault(mut, ft)
		if e == errInapplicable {
			r.count("fault_inapplicable")
			return
		}
		if e != nil {
			vh.Fatal(e)
		}
	}
	r.jr.at(ci, 0, "dist-import")
	if c.Mutated != nil {
		mut = []byte(*c.Mutated)
	}
	var imp distObj
	var pm string
	if c.Rcv.used() {
		imp, err, pm = importInto(c.Obj.Cfg, d, mut)
	} else {
		imp, err, pm = importAs(d, mut)
	}
	r.jr.at(ci, 0, "dist-judge")
	if len(c.Faults) == 0 {
		r.count("roundtrips")
		if pm != "" {
			r.distReport(c, raw, "decoder_panic", pm, doc)
			return
		}
		if err != nil {
			r.distReport(c, raw, "decode_error", err.Error(), doc)
			return
		}
		tolerant := 0.0
		if logScaleConfig(c.Obj.Cfg) {
			tolerant = 1e-12
		}
		if iterativeConfig(c.Obj.Cfg) {
			tolerant = 1e-7
		}
		p1, pp1 := paramsOf(d)
		p2, pp2 := paramsOf(imp)
		if pp1 == "" && pp2 != "" {
			r.distReport(c, raw, "corrupt_object", "GetParameters of the imported distribution panics: "+pp2, doc)
			return
		}
		if pp1 == "" {
			if len(p1) != len(p2) {
				r.distReport(c, raw, "parameters", fmt.Sprintf("%d parameters, expected %d", len(p2), len(p1)), doc)
				return
			}
			for i := range p1 {
				if !closeEnough(p1[i], p2[i], tolerant) {
					r.distReport(c, raw, "parameters", fmt.Sprintf("parameter %d is %v, expected %v", i, p2[i], p1[i]), doc)
					return
				}
			}
		}
		for k := 0; k < 5; k++ {
			o1, o2 := evalAt(d, k), evalAt(imp, k)
			if o1 == "panic" {
				continue // not a matter of serialisation
			}
			v1, ok1 := valueOf(o1)
			v2, ok2 := valueOf(o2)
			if ok1 != ok2 || (!ok1 && o1 != o2) || (ok1 && !closeEnough(v1, v2, tolerant)) {
				r.distReport(c, raw, "logpdf", fmt.Sprintf("LogPdf at point %d: original %s (%v), imported %s (%v)", k, o1, v1, o2, v2), doc)
				return
			}
		}
		return
	}
	// fault: error, or a distribution that can be used
	r.count("faults")
	r.judgeDist(c, raw, d, imp, err, pm, mut)
}

func (r *runner) judgeDist(c *tcase, raw json.RawMessage, d, imp distObj, err error, pm string, mut []byte) {
	if pm != "" {
		r.distReport(c, raw, "decoder_panic", pm, mut)
		return
	}
	if err != nil {
		r.count("fault_error")
		return
	}
	r.count("fault_object")
	p := vh.Try(func() {
		if imp.basic() == nil {
			panic("nil distribution returned without error")
		}
		imp.basic().GetParameters()
		imp.basic().ExportConfig()
	})
	if p != "" {
		r.distReport(c, raw, "corrupt_object", "panic while using the imported distribution: "+p, mut)
		return
	}
	// The import may be a different (still valid) distribution whose support
	// excludes some probe points; it is corrupt only if its density cannot be
	// evaluated anywhere although the original can.
	okOrig, okImp := 0, 0
	for k := 0; k < 5; k++ {
		if evalAt(d, k) != "panic" {
			okOrig++
		}
		if evalAt(imp, k) != "panic" {
			okImp++
		}
	}
	if okOrig > 0 && okImp == 0 {
		r.distReport(c, raw, "corrupt_object", "LogPdf of the imported distribution panics at every probe point", mut)
	}
}

// registry prints the names of all registered distribution families
func registry() {
	names := []string{}
	for k := range ScalarPdfRegistry {
		names = append(names, k)
	}
	for k := range VectorPdfRegistry {
		names = append(names, k)
	}
	for k := range MatrixPdfRegistry {
		names = append(names, k)
	}
	sort.Strings(names)
	b, _ := json.Marshal(names)
	fmt.Println(string(b))
}

// setFirstInt replaces the first integer leaf of a nested list
func setFirstInt(v interface{}, lit string) bool {
	a, ok := v.([]interface{})
	if !ok {
		return false
	}
	for i, x := range a {
		if _, isNum := x.(json.Number); isNum {
			a[i] = json.Number(lit)
			return true
		}
		if setFirstInt(x, lit) {
			return true
		}
	}
	return false
}
