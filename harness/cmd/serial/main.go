// Conformance driver for C18 (serialisation round trips, malformed input).
//
//	serial replay <cases.ndjson> <results.ndjson> <scratchdir>
//	    executes the cases printed by TLC for spec/Serialization.tla: builds the
//	    real object for every element type the case names, encodes it with the
//	    real encoder, optionally damages the real bytes with the structured
//	    faults of the case, decodes into a fresh object and compares with the
//	    outcome the specification demands.
//	serial mutate <cases.ndjson> <results.ndjson> <scratchdir> <n-per-format>
//	    seeded byte-level mutation of valid documents (taken from the cases).
//	serial record <trace.ndjson> <n> <scratchdir>
//	    seeded random larger objects encoded/decoded by the real code, logged in
//	    the abstract form for spec/SerializationTrace.tla.
//
// replay and mutate run the work in CHILD processes (DESIGN 3.1): a journal line
// is written before each step; a child that dies (fatal runtime error such as
// the unbounded recursion of a marshaller) or hangs is attributed to the
// journalled step as observation `fatal` / `timeout` and the work resumes
// behind it.
package main

import (
	"bufio"
	"bytes"
	"encoding/json"
	"fmt"
	"io/ioutil"
	"os"
	"os/exec"
	"path/filepath"
	"runtime/debug"
	"strconv"
	"strings"
	"time"

	"verifharness/vh"
)

// ---- append-mode ndjson output shared by parent and children ------------------

type sink struct {
	f *os.File
	w *bufio.Writer
}

func openSink(path string) *sink {
	f, err := os.OpenFile(path, os.O_CREATE|os.O_WRONLY|os.O_APPEND, 0644)
	if err != nil {
		vh.Fatal("cannot open", path, err)
	}
	return &sink{f, bufio.NewWriterSize(f, 1<<16)}
}

func (s *sink) put(v interface{}, flush bool) {
	b, err := json.Marshal(v)
	if err != nil {
		vh.Fatal("marshal:", err)
	}
	s.w.Write(b)
	s.w.WriteByte('\n')
	if flush {
		s.w.Flush()
	}
}

func (s *sink) close() { s.w.Flush(); s.f.Close() }

// ---- journal -----------------------------------------------------------------

type journal struct{ f *os.File }

func (j *journal) at(item, inst int, stage string) {
	if j == nil || j.f == nil {
		return
	}
	line := fmt.Sprintf("%d %d %s", item, inst, stage)
	buf := make([]byte, 96)
	for i := range buf {
		buf[i] = ' '
	}
	copy(buf, line)
	buf[95] = '\n'
	j.f.WriteAt(buf, 0)
}

func readJournal(path string) (item, inst int, stage string, ok bool) {
	b, err := ioutil.ReadFile(path)
	if err != nil {
		return 0, 0, "", false
	}
	f := strings.Fields(string(b))
	if len(f) < 3 {
		return 0, 0, "", false
	}
	item, _ = strconv.Atoi(f[0])
	inst, _ = strconv.Atoi(f[1])
	return item, inst, f[2], true
}

// ---- runner --------------------------------------------------------------------

type runner struct {
	shard   int
	nshards int
	out     *sink
	jr      *journal
	scratch string
	mode    string
	counts  map[string]int
	seen    map[string]int
	seed    int
}

func (r *runner) count(k string) { r.counts[k]++ }

func (r *runner) mismatch(sig vh.M, detail vh.M) {
	r.count("mismatch")
	// the orchestrator reports one violation per distinct signature: repeated
	// records of one signature carry no detail (they are only counted)
	k, _ := json.Marshal(sig)
	if r.seen == nil {
		r.seen = map[string]int{}
	}
	r.seen[string(k)]++
	if r.seen[string(k)] > 2 {
		r.out.put(vh.M{"kind": "mismatch", "sig": sig, "detail": vh.M{"elided": true}}, false)
		return
	}
	r.out.put(vh.M{"kind": "mismatch", "sig": sig, "detail": detail}, true)
}

func loadCases(path string) []json.RawMessage {
	var cs []json.RawMessage
	err := vh.EachLine(path, func(line []byte) error {
		cs = append(cs, append([]byte{}, bytes.TrimSpace(line)...))
		return nil
	})
	if err != nil {
		vh.Fatal("cannot read cases:", err)
	}
	return cs
}

// child: serial child <mode> <cases> <results> <scratch> <journal> <startItem> <startInst> <n>
func child(args []string) {
	if len(args) < 10 {
		vh.Fatal("usage: serial child mode cases results scratch journal startItem startInst n shard nshards")
	}
	debug.SetMaxStack(48 << 20) // an unbounded recursion of the library dies quickly
	mode := args[0]
	cases := loadCases(args[1])
	jf, err := os.OpenFile(args[4], os.O_CREATE|os.O_WRONLY, 0644)
	if err != nil {
		vh.Fatal(err)
	}
	startItem, _ := strconv.Atoi(args[5])
	startInst, _ := strconv.Atoi(args[6])
	n, _ := strconv.Atoi(args[7])
	shard, _ := strconv.Atoi(args[8])
	nshards, _ := strconv.Atoi(args[9])
	r := &runner{shard: shard, nshards: nshards, out: openSink(args[2]), jr: &journal{jf}, scratch: args[3], mode: mode,
		counts: map[string]int{}, seed: vh.EnvInt("VERIF_SEED", 1)}
	r.jr.at(startItem, startInst, "idle")
	switch mode {
	case "replay":
		for ci := startItem; ci < len(cases); ci++ {
			if ci%nshards != shard {
				continue
			}
			var c tcase
			if e := json.Unmarshal(cases[ci], &c); e != nil {
				vh.Fatal("bad case", ci, e)
			}
			from := 0
			if ci == startItem {
				from = startInst
			}
			r.runCase(ci, &c, cases[ci], from)
			r.jr.at(ci+1, 0, "idle")
		}
	case "mutate":
		r.runMutations(cases, n, startItem)
	default:
		vh.Fatal("unknown child mode", mode)
	}
	r.out.put(vh.M{"kind": "summary", "counts": r.counts}, true)
	r.jr.at(0, 0, "done")
	r.out.close()
}

// parent: runs one supervised chain of children per shard until the work is done
func supervise(mode string, casesPath, results, scratch string, n int) {
	os.Remove(results)
	os.MkdirAll(scratch, 0755)
	nshards := vh.EnvInt("VERIF_SHARDS", 4)
	if mode == "mutate" {
		nshards = 1
	}
	done := make(chan int, nshards)
	for sh := 0; sh < nshards; sh++ {
		go func(sh int) {
			superviseShard(mode, casesPath, fmt.Sprintf("%s.%d", results, sh), filepath.Join(scratch, fmt.Sprintf("shard%d", sh)), n, sh, nshards)
			done <- sh
		}(sh)
	}
	for sh := 0; sh < nshards; sh++ {
		<-done
	}
	out, err := os.Create(results)
	if err != nil {
		vh.Fatal(err)
	}
	defer out.Close()
	for sh := 0; sh < nshards; sh++ {
		part := fmt.Sprintf("%s.%d", results, sh)
		b, err := ioutil.ReadFile(part)
		if err != nil {
			vh.Fatal(err)
		}
		out.Write(b)
		os.Remove(part)
	}
}

func superviseShard(mode string, casesPath, results, scratch string, n, shard, nshards int) {
	os.Remove(results)
	self, err := os.Executable()
	if err != nil {
		vh.Fatal(err)
	}
	os.MkdirAll(scratch, 0755)
	jpath := filepath.Join(scratch, "journal-"+mode)
	startItem, startInst := 0, 0
	deaths := 0
	out := openSink(results)
	defer out.close()
	for {
		os.Remove(jpath)
		cmd := exec.Command(self, "child", mode, casesPath, results, scratch, jpath,
			strconv.Itoa(startItem), strconv.Itoa(startInst), strconv.Itoa(n), strconv.Itoa(shard), strconv.Itoa(nshards))
		var stderr bytes.Buffer
		cmd.Stderr = &limitedWriter{&stderr, 1 << 16}
		if err := cmd.Start(); err != nil {
			vh.Fatal("cannot start child:", err)
		}
		done := make(chan error, 1)
		go func() { done <- cmd.Wait() }()
		var werr error
		timedOut := false
		last, lastChange := "", time.Now()
	wait:
		for {
			select {
			case werr = <-done:
				break wait
			case <-time.After(2 * time.Second):
				b, _ := ioutil.ReadFile(jpath)
				if string(b) != last {
					last, lastChange = string(b), time.Now()
				} else if time.Since(lastChange) > 90*time.Second {
					timedOut = true
					cmd.Process.Kill()
					werr = <-done
					break wait
				}
			}
		}
		item, inst, stage, ok := readJournal(jpath)
		if werr == nil && ok && stage == "done" {
			return
		}
		if !ok || stage == "idle" || stage == "done" {
			fmt.Fprintf(os.Stderr, "child died outside a journalled step (%v): %s\n", werr, tail(stderr.String(), 2000))
			os.Exit(3)
		}
		deaths++
		what := "fatal"
		if timedOut {
			what = "timeout"
		}
		out.put(vh.M{"kind": "death", "what": what, "item": item, "inst": inst, "stage": stage,
			"mode": mode, "stderr": head(stderr.String(), 600)}, true)
		if deaths > 400 {
			fmt.Fprintln(os.Stderr, "too many child deaths")
			os.Exit(3)
		}
		startItem, startInst = item, inst+1
		if mode == "mutate" {
			startItem, startInst = item+1, 0 // one step per item
		}
	}
}

type limitedWriter struct {
	b   *bytes.Buffer
	max int
}

func (l *limitedWriter) Write(p []byte) (int, error) {
	if l.b.Len() < l.max {
		k := l.max - l.b.Len()
		if k > len(p) {
			k = len(p)
		}
		l.b.Write(p[:k])
	}
	return len(p), nil
}

func head(s string, n int) string {
	if len(s) > n {
		return s[:n]
	}
	return s
}

func tail(s string, n int) string {
	if len(s) > n {
		return s[len(s)-n:]
	}
	return s
}

func main() {
	if len(os.Args) < 2 {
		vh.Fatal("usage: serial replay|mutate|record|child ...")
	}
	switch os.Args[1] {
	case "replay":
		if len(os.Args) < 5 {
			vh.Fatal("usage: serial replay cases results scratch")
		}
		supervise("replay", os.Args[2], os.Args[3], os.Args[4], 0)
	case "mutate":
		if len(os.Args) < 6 {
			vh.Fatal("usage: serial mutate cases results scratch n")
		}
		n, _ := strconv.Atoi(os.Args[5])
		supervise("mutate", os.Args[2], os.Args[3], os.Args[4], n)
	case "child":
		child(os.Args[2:])
	case "record":
		record(os.Args[2:])
	case "registry":
		registry()
	default:
		vh.Fatal("unknown sub-command", os.Args[1])
	}
}
