package main

import (
	"encoding/json"
	"fmt"
	"io/ioutil"
	"path/filepath"
	"strings"

	. "github.com/pbenner/autodiff"
	"verifharness/vh"
)

type importer interface{ Import(string) error }
type exporter interface{ Export(string) error }

func (r *runner) sig(c *tcase, et *etype, what string) vh.M {
	ft := "none"
	if len(c.Faults) > 0 {
		ft = c.Faults[0].F
	}
	mode := "roundtrip"
	if len(c.Faults) > 0 {
		mode = "fault"
	}
	return vh.M{"engine": "serial", "mode": mode, "kind": c.Obj.K, "cls": c.Obj.Cls, "storage": c.Obj.St,
		"format": c.Fmt, "view": c.Obj.viewWord(), "fault": ft, "tclass": et.class(), "what": what, "layout": layoutOf(c), "receiver": rcvOf(c)}
}

func (r *runner) report(c *tcase, raw json.RawMessage, et *etype, what, msg string, doc []byte, extra vh.M) {
	s := r.sig(c, et, what)
	if len(c.Faults) == 1 && c.Faults[0].F == "EntryRange" {
		// which bound, which spelling, which width
		s["range"] = fmt.Sprintf("%s/%s/%d", c.Faults[0].Val, c.Faults[0].Notation, et.Bits)
	}
	for k, v := range extra {
		if k == "deviation" {
			s[k] = v
		}
	}
	d := vh.M{"case": raw, "type": et.Name, "message": msg, "document": head(string(doc), 700)}
	for k, v := range extra {
		d[k] = v
	}
	r.mismatch(s, d)
}

func (r *runner) runCase(ci int, c *tcase, raw json.RawMessage, fromInst int) {
	if c.Obj.K == "dist" {
		if fromInst == 0 {
			r.runDist(ci, c, raw)
		}
		return
	}
	for ii, tn := range c.Types {
		if ii < fromInst {
			continue
		}
		et := etypes[tn]
		if et == nil {
			vh.Fatal("unknown element type in case:", tn)
		}
		r.runInst(ci, ii, c, raw, et)
	}
}

// build the real source object of a case
func buildObj(et *etype, o *absObj) (x interface{}, err error) {
	p := vh.Try(func() {
		switch o.K {
		case "scalar":
			x, err = buildScalar(et, o)
		case "vector":
			x, err = buildVector(et, o)
		case "matrix":
			x, err = buildMatrix(et, o)
		default:
			err = fmt.Errorf("unknown kind %s", o.K)
		}
	})
	if p != "" {
		return nil, fmt.Errorf("panic: %s", p)
	}
	return x, err
}

// encode with the real encoder; for tables through Export to a scratch file
func encode(x interface{}, format, path string) (b []byte, err error, panicMsg string) {
	panicMsg = vh.Try(func() {
		if format == "json" {
			b, err = json.Marshal(x)
			return
		}
		e, ok := x.(exporter)
		if !ok {
			err = fmt.Errorf("%T has no Export", x)
			return
		}
		if err = e.Export(path); err != nil {
			return
		}
		b, err = ioutil.ReadFile(path)
	})
	return
}

// decode into a fresh object of the type of src
func decode(et *etype, src interface{}, format string, b []byte, path string, onDisk bool) (x interface{}, err error, panicMsg string) {
	return decodeInto(et, src, nil, nil, format, b, path, onDisk)
}

// decodeInto reads the document into a fresh object (rc == nil or fresh) or into the used receiver the case describes
func decodeInto(et *etype, src interface{}, o *absObj, rc *rcvSpec, format string, b []byte, path string, onDisk bool) (x interface{}, err error, panicMsg string) {
	panicMsg = vh.Try(func() {
		ptr, get := fresh(et, src)
		if rc != nil && rc.used() {
			var e error
			if ptr, get, e = usedReceiver(et, o, rc, src); e != nil {
				panic("cannot build the receiver: " + e.Error())
			}
		}
		if format == "json" {
			err = json.Unmarshal(b, ptr)
		} else {
			im, ok := ptr.(importer)
			if !ok {
				err = fmt.Errorf("%T has no Import", ptr)
				return
			}
			if !onDisk {
				if err = ioutil.WriteFile(path, b, 0644); err != nil {
					vh.Fatal("scratch write:", err)
				}
			}
			err = im.Import(path)
		}
		if err == nil {
			x = get()
		}
	})
	return
}

func (r *runner) runInst(ci, ii int, c *tcase, raw json.RawMessage, et *etype) {
	r.count("instantiations")
	path := filepath.Join(r.scratch, "doc.table")
	if c.Obj.Wide != "" {
		// long-line class: widen object and expectation (Serialization!Widen) until every row exceeds the size
		wc, e := widenCase(et, c, path)
		if e != nil {
			r.report(c, raw, et, "construct", "cannot construct the wide object: "+e.Error(), nil, nil)
			return
		}
		c = wc
		r.count("wide_" + c.Obj.Wide)
		old := probeCap
		probeCap = len(c.Exp.C) + 64
		defer func() { probeCap = old }()
	}
	// ---- build
	r.jr.at(ci, ii, "build")
	src, err := buildObj(et, &c.Obj)
	if err != nil {
		r.report(c, raw, et, "construct", "cannot construct the object: "+err.Error(), nil, nil)
		return
	}
	roundtrip := len(c.Faults) == 0
	if roundtrip {
		// the source must denote what the specification says (At only: no iterators on views)
		var msg string
		p := vh.Try(func() {
			o := observeAt(et, src)
			e := c.Exp
			if c.Obj.K != "scalar" {
				if w, m := compareAt(et, &c.Obj, &e, &o); w != "" {
					msg = m
				}
			}
		})
		if p != "" {
			msg = "panic while reading the source object: " + p
		}
		if msg != "" {
			r.report(c, raw, et, "construct", "source object does not denote the abstract object: "+msg, nil, nil)
			return
		}
	}
	// ---- encode
	r.jr.at(ci, ii, "encode")
	doc, err, pm := encode(src, c.Fmt, path)
	if pm != "" {
		r.report(c, raw, et, "encoder_panic", pm, nil, nil)
		return
	}
	if err != nil {
		r.report(c, raw, et, "encode_error", err.Error(), nil, nil)
		return
	}
	// ---- faults on the real bytes
	mut := doc
	for _, ft := range c.Faults {
		if c.Mutated != nil {
			break
		}
		var e error
		if c.Fmt == "json" {
			mut, e = applyJSONFault(mut, ft, et)
		} else {
			mut, e = applyTableFault(mut, ft, et)
		}
		if e == errInapplicable {
			r.count("fault_inapplicable")
			return
		}
		if e != nil {
			vh.Fatal(e)
		}
	}
	if c.Mutated != nil {
		mut = []byte(*c.Mutated)
	}
	// ---- another legal byte layout of the same table document
	if c.Fmt == "table" && c.Layout != "" && c.Layout != "canonical" {
		mut = applyLayout(mut, c.Layout)
		r.count("layout_" + c.Layout)
	}
	onDisk := roundtrip && (c.Layout == "" || c.Layout == "canonical")
	// ---- decode
	r.jr.at(ci, ii, "decode")
	dec, err, pm := decodeInto(et, src, &c.Obj, &c.Rcv, c.Fmt, mut, path, onDisk)
	r.jr.at(ci, ii, "judge")
	if roundtrip {
		r.count("roundtrips")
		if pm != "" {
			r.report(c, raw, et, "decoder_panic", pm, doc, nil)
			return
		}
		if err != nil {
			if c.Expect == "roundtrip-equal-or-error" {
				r.count("layout_rejected")
				return
			}
			r.report(c, raw, et, "decode_error", err.Error(), mut, nil)
			return
		}
		var what, msg string
		var obs observation
		p := vh.Try(func() {
			obs = observe(et, dec)
			what, msg = compare(et, &c.Exp, &obs, true)
		})
		if p != "" {
			what, msg = "corrupt_object", "panic while reading the decoded object: "+p
		}
		if what != "" {
			extra := vh.M{"observed_dims": obs.Dims}
			if c.Dev == "table-dims" && what == "dims" && len(obs.Dims) == 2 && obs.Dims[0] == 0 && obs.Dims[1] == 0 {
				// Serialization!KnownDeviation_TableDims: exactly the 0 x 0 matrix
				extra["deviation"] = "table-dims-lost"
			}
			r.report(c, raw, et, what, msg, mut, extra)
		}
		return
	}
	// ---- entries at the bounds of an integer type: rejected, or read exactly
	if c.Expect == "error" || c.Expect == "exact-or-error" {
		r.count("faults")
		r.count("range_entries")
		if pm != "" {
			r.report(c, raw, et, "decoder_panic", pm, mut, nil)
			return
		}
		if err != nil {
			r.count("fault_error")
			return
		}
		r.count("fault_object")
		if c.Expect == "error" {
			r.report(c, raw, et, "out_of_range_accepted", "an entry outside the range of the element type was accepted", mut, nil)
			return
		}
		var what, msg string
		p := vh.Try(func() {
			obs := observe(et, dec)
			what, msg = compare(et, &c.Exp, &obs, false)
		})
		if p != "" {
			what, msg = "corrupt_object", "panic while reading the decoded object: "+p
		}
		if what != "" {
			r.report(c, raw, et, "bound_"+what, msg, mut, nil)
		}
		return
	}
	// ---- fault case: error, or a well-formed object
	r.count("faults")
	r.judgeDamaged(c, raw, et, dec, err, pm, mut, c.Mutated == nil)
}

// judgeDamaged implements the outcome class `error-or-wellformed`.
func (r *runner) judgeDamaged(c *tcase, raw json.RawMessage, et *etype, dec interface{}, err error, pm string, mut []byte, checkDims bool) {
	if pm != "" {
		r.report(c, raw, et, "decoder_panic", pm, mut, nil)
		return
	}
	if err != nil {
		r.count("fault_error")
		return
	}
	r.count("fault_object")
	if cls, msg := probe(et, dec); cls != "" {
		r.report(c, raw, et, cls, msg, mut, nil)
		return
	}
	if checkDims && c.Fmt == "json" && c.Obj.K != "scalar" {
		if want, ok := docDims(mut, c.Obj.K); ok {
			var got []int
			switch v := dec.(type) {
			case ConstVector:
				got = []int{v.Dim()}
			case ConstMatrix:
				a, b := v.Dims()
				got = []int{a, b}
			}
			if fmt.Sprint(got) != fmt.Sprint(want) {
				r.report(c, raw, et, "dims_disagree", fmt.Sprintf("decoded dims %v, document says %v", got, want), mut, nil)
			}
		}
	}
}

// observeAt: like observe, without iterators (safe on views)
func observeAt(et *etype, x interface{}) observation {
	switch v := x.(type) {
	case ConstVector:
		o := observation{Kind: "vector", Dims: []int{v.Dim()}}
		for i := 0; i < v.Dim(); i++ {
			o.Bits = append(o.Bits, bitsOf(et, v.ConstAt(i)))
		}
		return o
	case ConstMatrix:
		n, m := v.Dims()
		o := observation{Kind: "matrix", Dims: []int{n, m}}
		for i := 0; i < n; i++ {
			for j := 0; j < m; j++ {
				o.Bits = append(o.Bits, bitsOf(et, v.ConstAt(i, j)))
			}
		}
		return o
	case ConstScalar:
		return observeScalar(et, v)
	}
	return observation{}
}

func compareAt(et *etype, o *absObj, e *absExp, obs *observation) (string, string) {
	var dims []int
	if e.K == "vector" {
		dims = []int{e.N}
	} else {
		dims = []int{e.Rows, e.Cols}
	}
	if fmt.Sprint(dims) != fmt.Sprint(obs.Dims) {
		return "dims", fmt.Sprintf("dims %v, expected %v", obs.Dims, dims)
	}
	if len(obs.Bits) != len(e.C) {
		return "dims", "element count"
	}
	for k, el := range e.C {
		want, _ := atomBits(et, el.A)
		if obs.Bits[k] != want {
			return "value", fmt.Sprintf("element %d is %s, expected %s", k, showBits(et, obs.Bits[k]), el.A)
		}
	}
	return "", ""
}

func layoutOf(c *tcase) string {
	if c.Layout == "" {
		return "canonical"
	}
	return c.Layout
}

// applyLayout rewrites a table file written by Export into another byte
// layout with the same lines and tokens (Serialization!TableLayouts).
func applyLayout(b []byte, layout string) []byte {
	s := string(b)
	switch layout {
	case "NoFinalNewline":
		// the last line is not terminated (what Table() yields, or another tool writes)
		s = strings.TrimRight(s, "\n")
	case "OneLine":
		s = strings.Join(strings.Fields(s), " ") + "\n"
	case "CRLF":
		s = strings.Replace(s, "\n", "\r\n", -1)
	case "TrailingBlanks":
		s = strings.Replace(s, "\n", " \t\n", -1)
	}
	return []byte(s)
}

func rcvOf(c *tcase) string {
	if c.Rcv.Pre == "" {
		return "fresh"
	}
	return c.Rcv.Pre
}

var wideBytes = map[string]int{"64K": 64 << 10, "1M": 1 << 20, "4M": 4 << 20}

// widenCase returns a copy of the case whose object and expectation are
// widened k times (Serialization!Widen): columns of the denotation repeat with
// the period of the base object.  k is the smallest factor for which every row
// of the exported table is longer than the size class (measured on the real
// export of the base object).
func widenCase(et *etype, c *tcase, path string) (*tcase, error) {
	size, ok := wideBytes[c.Obj.Wide]
	if !ok {
		return nil, fmt.Errorf("unknown size class %s", c.Obj.Wide)
	}
	base, err := buildObj(et, &c.Obj)
	if err != nil {
		return nil, err
	}
	doc, err, pm := encode(base, "table", path)
	if err != nil || pm != "" {
		return nil, fmt.Errorf("export of the base object: %v %s", err, pm)
	}
	shortest := len(doc)
	if c.Obj.K == "matrix" {
		for _, l := range strings.Split(strings.TrimRight(string(doc), "\n"), "\n") {
			if len(l) < shortest {
				shortest = len(l)
			}
		}
	}
	if shortest < 1 {
		shortest = 1
	}
	k := size/shortest + 2
	w := *c
	o := c.Obj
	e := c.Exp
	switch o.K {
	case "vector":
		n := o.N
		o.N = n * k
		o.C = make([]string, n*k)
		for q := range o.C {
			o.C[q] = c.Obj.C[q%n]
		}
		e.N = c.Exp.N * k
		e.C = make([]absEl, len(c.Exp.C)*k)
		for q := range e.C {
			e.C[q] = c.Exp.C[q%len(c.Exp.C)]
		}
	case "matrix":
		if len(o.View) == 0 {
			cols := o.Cols
			o.Cols = cols * k
			o.C = make([]string, o.Rows*o.Cols)
			for q := range o.C {
				o.C[q] = c.Obj.C[(q/o.Cols)*cols+(q%o.Cols)%cols]
			}
		} else { // transposed view: the parent grows in rows
			rows := o.Rows
			o.Rows = rows * k
			o.C = make([]string, o.Rows*o.Cols)
			for q := range o.C {
				o.C[q] = c.Obj.C[q%(rows*o.Cols)]
			}
		}
		ec := c.Exp.Cols
		e.Cols = ec * k
		e.C = make([]absEl, e.Rows*e.Cols)
		for q := range e.C {
			e.C[q] = c.Exp.C[(q/e.Cols)*ec+(q%e.Cols)%ec]
		}
	}
	w.Obj, w.Exp = o, e
	return &w, nil
}
