package main

import (
	"encoding/json"
	"fmt"
	"math"
	"math/rand"
	"os"
	"path/filepath"
	"strconv"
	"strings"

	"verifharness/vh"
)

// record direction (code -> model): seeded random objects of larger size are
// encoded and decoded by the real code; the produced document is parsed
// generically into the abstract document form of Serialization.tla (field
// names, lengths, index lists, values classified back to atoms) and logged
// together with the abstract object and the projection of the decoded object.
// spec/SerializationTrace.tla checks  document = Encode(object)  and
// decoded = what the format carries of the object.

type absDoc map[string]interface{}

func numNode(et *etype, lit string, deriv bool) absDoc {
	return absDoc{"t": "num", "a": classifyLiteral(et, lit, deriv)}
}

func classifyLiteral(et *etype, lit string, deriv bool) string {
	if et.IsInt && !deriv {
		i, err := strconv.ParseInt(lit, 10, 64)
		if err != nil {
			return "other"
		}
		return classify(et, uint64(i))
	}
	bits := 64
	if et.Bits == 32 {
		bits = 32
	}
	x, err := strconv.ParseFloat(lit, bits)
	if err != nil {
		return "other"
	}
	ft := *et
	ft.IsInt = false
	return classify(&ft, math.Float64bits(x))
}

func intNode(v interface{}) absDoc {
	if i, ok := asInt(v); ok {
		return absDoc{"t": "int", "i": i}
	}
	return absDoc{"t": "other"}
}

func scalarDocNode(et *etype, v interface{}) absDoc {
	switch x := v.(type) {
	case json.Number:
		return numNode(et, string(x), false)
	case map[string]interface{}:
		f := absDoc{}
		for k, e := range x {
			switch k {
			case "Value":
				if n, ok := e.(json.Number); ok {
					f[k] = numNode(et, string(n), false)
				} else {
					f[k] = absDoc{"t": "other"}
				}
			case "Derivative":
				f[k] = arrNode(e, func(y interface{}) interface{} {
					if n, ok := y.(json.Number); ok {
						return numNode(et, string(n), true)
					}
					return absDoc{"t": "other"}
				})
			case "Hessian":
				f[k] = arrNode(e, func(row interface{}) interface{} {
					return arrNode(row, func(y interface{}) interface{} {
						if n, ok := y.(json.Number); ok {
							return numNode(et, string(n), true)
						}
						return absDoc{"t": "other"}
					})
				})
			default:
				f[k] = absDoc{"t": "other"}
			}
		}
		return absDoc{"t": "obj", "f": f}
	}
	return absDoc{"t": "other"}
}

func arrNode(v interface{}, el func(interface{}) interface{}) absDoc {
	a, ok := v.([]interface{})
	if !ok {
		return absDoc{"t": "other"}
	}
	r := make([]interface{}, len(a))
	for i, x := range a {
		r[i] = el(x)
	}
	return absDoc{"t": "arr", "v": r}
}

// abstractJSON: real JSON bytes -> abstract document
func abstractJSON(et *etype, o *absObj, b []byte) absDoc {
	root, err := parseGeneric(b)
	if err != nil {
		return absDoc{"t": "broken"}
	}
	elem := func(x interface{}) interface{} { return scalarDocNode(et, x) }
	switch o.K {
	case "scalar":
		return scalarDocNode(et, root)
	case "vector":
		if o.St == "dense" {
			return arrNode(root, elem)
		}
	case "matrix":
	}
	m, ok := root.(map[string]interface{})
	if !ok {
		return absDoc{"t": "other"}
	}
	f := absDoc{}
	for k, e := range m {
		switch k {
		case "Index":
			f[k] = arrNode(e, func(y interface{}) interface{} { return intNode(y) })
		case "Value":
			f[k] = arrNode(e, func(y interface{}) interface{} {
				if n, ok := y.(json.Number); ok {
					return numNode(et, string(n), false)
				}
				return absDoc{"t": "other"}
			})
		case "Values":
			f[k] = arrNode(e, elem)
		case "Length", "Rows", "Cols":
			f[k] = intNode(e)
		default:
			f[k] = absDoc{"t": "other"}
		}
	}
	return absDoc{"t": "obj", "f": f}
}

// abstractTable: real table bytes -> abstract document (empty lines carry nothing)
func abstractTable(et *etype, o *absObj, b []byte) absDoc {
	raw := strings.Split(string(b), "\n")
	lines := []interface{}{}
	li := -1
	for _, l := range raw {
		toks := strings.Fields(l)
		if len(toks) == 0 {
			continue // the readers skip empty lines; so does the abstract document
		}
		li++
		line := []interface{}{}
		for ti, t := range toks {
			isInt := false
			if o.St == "sparse" {
				if li == 0 {
					isInt = true
				} else if o.K == "vector" {
					isInt = ti == 0
				} else {
					isInt = ti <= 1
				}
			}
			if isInt {
				i, err := strconv.ParseInt(t, 10, 64)
				if err != nil {
					line = append(line, absDoc{"t": "other"})
				} else {
					line = append(line, absDoc{"t": "int", "i": i})
				}
			} else {
				line = append(line, numNode(et, t, false))
			}
		}
		lines = append(lines, line)
	}
	return absDoc{"t": "table", "l": lines}
}

// projection of a decoded object into the abstract form of Serialization!Carried
func abstractObject(et *etype, x interface{}) vh.M {
	o := observe(et, x)
	ft := *et
	ft.IsInt = false
	switch o.Kind {
	case "scalar":
		grad := []string{}
		for _, g := range o.Grad {
			grad = append(grad, classify(&ft, g))
		}
		hess := [][]string{}
		for _, row := range o.Hess {
			r := []string{}
			for _, h := range row {
				r = append(r, classify(&ft, h))
			}
			hess = append(hess, r)
		}
		n := o.N
		if o.Order == 0 {
			n = 0
		}
		return vh.M{"k": "scalar", "v": classify(et, o.Bits[0]), "order": o.Order, "n": n, "grad": grad, "hess": hess}
	case "vector", "matrix":
		c := []vh.M{}
		for k, b := range o.Bits {
			n, hot := 0, -1
			if et.Real && k < len(o.ElN) {
				n, hot = o.ElN[k], o.ElHot[k]
			}
			c = append(c, vh.M{"a": classify(et, b), "n": n, "hot": hot})
		}
		if o.Kind == "vector" {
			return vh.M{"k": "vector", "n": o.Dims[0], "c": c, "iter": o.IterOK == ""}
		}
		return vh.M{"k": "matrix", "rows": o.Dims[0], "cols": o.Dims[1], "c": c, "iter": o.IterOK == ""}
	}
	return vh.M{"k": "other"}
}

func typeAtoms(et *etype) []string {
	r := []string{}
	for _, a := range atomNames {
		if _, ok := atomValue(et, a); ok && a != "zero" {
			r = append(r, a)
		}
	}
	return r
}

func randContent(rng *rand.Rand, et *etype, n int) []string {
	atoms := typeAtoms(et)
	c := make([]string, n)
	pz := []float64{0.2, 0.5, 0.8}[rng.Intn(3)]
	for i := range c {
		if rng.Float64() < pz {
			c[i] = "zero"
		} else {
			c[i] = atoms[rng.Intn(len(atoms))]
		}
	}
	return c
}

func window(rng *rand.Rand, n int) (int, int) {
	a := rng.Intn(n + 1)
	b := a + rng.Intn(n-a+1)
	return a, b
}

func randObject(rng *rand.Rand, sparseViews bool) (*etype, *absObj) {
	kinds := []string{"scalar", "vector", "vector", "matrix", "matrix", "matrix"}
	k := kinds[rng.Intn(len(kinds))]
	var names []string
	switch k {
	case "scalar":
		names = []string{"Float64", "Float32", "Int", "Int8", "Int16", "Int32", "Int64", "Real64", "Real32", "Real64", "Real32",
			"ConstFloat64", "ConstFloat32", "ConstInt", "ConstInt8", "ConstInt16", "ConstInt32", "ConstInt64"}
	default:
		names = []string{"Float64", "Float32", "Int", "Int8", "Int16", "Int32", "Int64", "Real64", "Real32"}
	}
	et := etypes[names[rng.Intn(len(names))]]
	o := &absObj{K: k, Cls: "plain", Dv: "none", St: "none", Grad: []string{}, Hess: [][]string{}, C: []string{}, View: []viewOp{}}
	if et.Real {
		o.Cls = "real"
	}
	switch k {
	case "scalar":
		if !et.Real {
			o.Cls = "bare"
		}
		atoms := append(typeAtoms(et), "zero")
		o.V = atoms[rng.Intn(len(atoms))]
		if et.Real {
			o.Order = rng.Intn(3)
			if o.Order > 0 {
				o.N = rng.Intn(4)
				da := []string{"zero", "zero", "one", "negzero", "half", "minusTwo", "subnormal", "maxfinite"}
				for i := 0; i < o.N; i++ {
					o.Grad = append(o.Grad, da[rng.Intn(len(da))])
				}
				if o.Order == 2 {
					allZero := rng.Intn(3) == 0
					for i := 0; i < o.N; i++ {
						row := []string{}
						for j := 0; j < o.N; j++ {
							if allZero {
								row = append(row, "zero")
							} else {
								row = append(row, da[rng.Intn(len(da))])
							}
						}
						o.Hess = append(o.Hess, row)
					}
				}
			}
		}
	case "vector":
		o.St = []string{"dense", "sparse"}[rng.Intn(2)]
		o.N = rng.Intn(17)
		o.C = randContent(rng, et, o.N)
		if et.Real && rng.Intn(2) == 0 {
			o.Dv = "var"
		}
		if rng.Intn(3) == 0 {
			a, b := window(rng, o.N)
			o.View = []viewOp{{Op: "S", I: a, J: b}}
		}
	case "matrix":
		o.St = []string{"dense", "sparse"}[rng.Intn(2)]
		o.Rows = rng.Intn(6)
		o.Cols = rng.Intn(6)
		for o.Rows*o.Cols > 16 {
			o.Rows = rng.Intn(6)
			o.Cols = rng.Intn(6)
		}
		o.C = randContent(rng, et, o.Rows*o.Cols)
		if et.Real && rng.Intn(2) == 0 {
			o.Dv = "var"
		}
		r, c := o.Rows, o.Cols
		steps := rng.Intn(3)
		for s := 0; s < steps; s++ {
			if rng.Intn(2) == 0 {
				o.View = append(o.View, viewOp{Op: "T"})
				r, c = c, r
			} else {
				if o.St == "sparse" && !sparseViews {
					continue
				}
				r0, r1 := window(rng, r)
				c0, c1 := window(rng, c)
				o.View = append(o.View, viewOp{Op: "S", R0: r0, R1: r1, C0: c0, C1: c1})
				r, c = r1-r0, c1-c0
			}
		}
	}
	return et, o
}

// record <trace.ndjson> <n> <scratch> [sparseViews]
func record(args []string) {
	if len(args) < 3 {
		vh.Fatal("usage: serial record trace n scratch [sparse-views]")
	}
	n, _ := strconv.Atoi(args[1])
	scratch := args[2]
	os.MkdirAll(scratch, 0755)
	sparseViews := len(args) > 3 && args[3] == "sparse-views"
	seed := vh.EnvInt("VERIF_SEED", 1)
	rng := rand.New(rand.NewSource(int64(seed)*1000003 + 18))
	out := vh.NewOut(args[0])
	defer out.Close()
	path := filepath.Join(scratch, "rec.table")
	for i := 0; i < n; i++ {
		et, o := randObject(rng, sparseViews)
		format := "json"
		if o.K != "scalar" && rng.Intn(2) == 0 {
			format = "table"
		}
		ev := vh.M{"e": "enc", "type": et.Name, "obj": o, "fmt": format}
		src, err := buildObj(et, o)
		if err != nil {
			vh.Mismatch(out, vh.M{"engine": "serial", "mode": "record", "kind": o.K, "storage": o.St, "format": format,
				"view": o.viewWord(), "tclass": et.class(), "what": "construct"}, vh.M{"event": ev, "message": err.Error(), "seed": seed, "index": i})
			continue
		}
		doc, err, pm := encode(src, format, path)
		if err != nil || pm != "" {
			vh.Mismatch(out, vh.M{"engine": "serial", "mode": "record", "kind": o.K, "storage": o.St, "format": format,
				"view": o.viewWord(), "tclass": et.class(), "what": "encode"}, vh.M{"event": ev, "message": fmt.Sprint(err, pm), "seed": seed, "index": i})
			continue
		}
		if format == "json" {
			ev["doc"] = abstractJSON(et, o, doc)
		} else {
			ev["doc"] = abstractTable(et, o, doc)
		}
		dec, err, pm := decode(et, src, format, doc, path, format == "table")
		if err != nil || pm != "" {
			vh.Mismatch(out, vh.M{"engine": "serial", "mode": "record", "kind": o.K, "storage": o.St, "format": format,
				"view": o.viewWord(), "tclass": et.class(), "what": "decode"}, vh.M{"event": ev, "message": fmt.Sprint(err, pm), "document": head(string(doc), 600), "seed": seed, "index": i})
			continue
		}
		var ao vh.M
		if p := vh.Try(func() { ao = abstractObject(et, dec) }); p != "" {
			vh.Mismatch(out, vh.M{"engine": "serial", "mode": "record", "kind": o.K, "storage": o.St, "format": format,
				"view": o.viewWord(), "tclass": et.class(), "what": "corrupt_object"}, vh.M{"event": ev, "message": p, "document": head(string(doc), 600), "seed": seed, "index": i})
			continue
		}
		ev["dec"] = ao
		ev["raw"] = head(string(doc), 300)
		out.Put(ev)
	}
}
