package main

func record(args []string) {}
