// Conformance driver for C16 (estimators return likelihood maximisers; EM never
// decreases the likelihood).
//
//	estim replay <cases.ndjson> <results.ndjson>
//	    cases printed by spec/Estimators.tla (data multiset + exact rational MLE per
//	    family); the real closed-form estimators (plain, weighted, batch interface,
//	    bounds active/inactive) must return those parameters, and no small admissible
//	    perturbation of the returned parameters may increase the weighted
//	    log-likelihood evaluated with the distribution's own LogPdf.
//	estim record <trace.ndjson> <results.ndjson> <nruns>
//	    EM / Baum-Welch trajectories of the real mixture and HMM estimators observed
//	    through their public hooks; validated by spec/EMTrace.tla.
package main

import (
	"encoding/json"
	"fmt"
	"math"
	"math/rand"
	"os"
	"strconv"
	"time"

	. "github.com/pbenner/autodiff"
	. "github.com/pbenner/autodiff/statistics"
	"github.com/pbenner/autodiff/statistics/generic"
	"github.com/pbenner/autodiff/statistics/matrixEstimator"
	"github.com/pbenner/autodiff/statistics/scalarDistribution"
	"github.com/pbenner/autodiff/statistics/scalarEstimator"
	"github.com/pbenner/autodiff/statistics/vectorEstimator"
	. "github.com/pbenner/threadpool"
	"verifharness/vh"
)

type rat struct {
	N int `json:"n"`
	D int `json:"d"`
}

func (r rat) f() float64 { return float64(r.N) / float64(r.D) }

type obs struct {
	X int `json:"x"`
	W int `json:"w"`
}

type ecase struct {
	Data        []obs `json:"data"`
	UnitWeights bool  `json:"unit_weights"`
	Normal      struct {
		Mu         rat   `json:"mu"`
		Var        rat   `json:"var"`
		VarBounded []rat `json:"var_bounded"`
	} `json:"normal"`
	Exponential struct {
		Defined       bool  `json:"defined"`
		Lambda        rat   `json:"lambda"`
		LambdaBounded []rat `json:"lambda_bounded"`
	} `json:"exponential"`
	Poisson struct {
		Defined bool `json:"defined"`
		Lambda  rat  `json:"lambda"`
	} `json:"poisson"`
	Geometric struct {
		P rat `json:"p"`
	} `json:"geometric"`
	Categorical struct {
		Theta []rat `json:"theta"`
	} `json:"categorical"`
	NegBin struct {
		Defined bool  `json:"defined"`
		P       []rat `json:"p"`
	} `json:"negbin"`
	TranslatedMu rat `json:"translated_mu"`
}

// must mirror Estimators!NBRs / TransC
var nbRs = []float64{1, 3.5, 0.4}

const transC = 3.0

// common offsets added to all log-weights: the weighted estimate does not depend on the scale of the
// weights; EM hands over log-posteriors, which are all hugely negative for a component far from the data
var gammaOffsets = []float64{-800, 800, -5000}

// must mirror Estimators!SigmaMins / LambdaMaxs
var sigmaMins = []float64{1.0 / 1000, 3.0 / 2}
var lambdaMaxs = []float64{100, 0.5}

type scalarEst interface {
	EstimateOnData(x, gamma ConstVector, p ThreadPool) error
	GetEstimate() (ScalarPdf, error)
}
type batchEst interface {
	Initialize(p ThreadPool) error
	NewObservation(x, gamma ConstScalar, p ThreadPool) error
	GetEstimate() (ScalarPdf, error)
}

func near(a, b float64) bool {
	return math.Abs(a-b) <= 1e-9*(1+math.Abs(a)+math.Abs(b))
}

// weighted log-likelihood of data under pdf
func wll(pdf ScalarPdf, data []obs) float64 {
	r := NullFloat64()
	s := 0.0
	for _, o := range data {
		if err := pdf.LogPdf(r, ConstFloat64(float64(o.X))); err != nil {
			return math.NaN()
		}
		s += float64(o.W) * r.GetFloat64()
	}
	return s
}

func replay(args []string) {
	out := vh.NewOut(args[1])
	defer out.Close()
	ncases, nchecks := 0, 0
	err := vh.EachLine(args[0], func(line []byte) error {
		var c ecase
		if e := json.Unmarshal(line, &c); e != nil {
			return fmt.Errorf("bad case %v: %.200s", e, line)
		}
		ncases++
		n := len(c.Data)
		xs := make([]float64, n)
		gs := make([]float64, n)
		for i, o := range c.Data {
			xs[i] = float64(o.X)
			gs[i] = math.Log(float64(o.W))
		}
		x := NewDenseFloat64Vector(xs)
		gamma := NewDenseFloat64Vector(gs)
		report := func(family, mode, what string, exp, got interface{}) {
			if fs, ok := got.([]float64); ok {
				got = fmt.Sprint(fs) // NaN / Inf are not JSON numbers
			}
			vh.Mismatch(out, vh.M{"engine": "estim", "family": family, "mode": mode, "what": what},
				vh.M{"case": c, "expected": exp, "observed": got})
		}
		// run one estimator in the three modes; check returns the observed parameter vector
		drive := func(family string, mk func() (interface{}, error), check func(mode string, p []float64, pdf ScalarPdf)) {
			modes := []string{"weighted", "batch-weighted", "clone-weighted", "weighted-offset0", "weighted-offset1", "weighted-offset2", "batch-weighted-offset0", "clonebatch-weighted"}
			if c.UnitWeights {
				modes = append(modes, "unweighted", "batch-unweighted")
			}
			for _, mode := range modes {
				e, err := mk()
				if err != nil {
					report(family, mode, "constructor_error", "estimator", err.Error())
					continue
				}
				if mode == "clonebatch-weighted" {
					// the batch-interface copy of a configured estimator is configured alike
					cb, ok := e.(interface {
						CloneScalarBatchEstimator() ScalarBatchEstimator
					})
					if !ok {
						continue
					}
					e = cb.CloneScalarBatchEstimator()
				}
				if mode == "clone-weighted" {
					// a copy of a configured estimator is configured alike (bounds included)
					e = e.(interface{ CloneScalarEstimator() ScalarEstimator }).CloneScalarEstimator()
				}
				var pdf ScalarPdf
				msg := vh.Try(func() {
					switch mode {
					case "weighted-offset0", "weighted-offset1", "weighted-offset2":
						off := gammaOffsets[int(mode[len(mode)-1]-'0')]
						g2 := make([]float64, n)
						for i := range g2 {
							g2[i] = gs[i] + off
						}
						err = e.(scalarEst).EstimateOnData(x, NewDenseFloat64Vector(g2), ThreadPool{})
					case "weighted", "clone-weighted":
						err = e.(scalarEst).EstimateOnData(x, gamma, ThreadPool{})
					case "unweighted":
						err = e.(scalarEst).EstimateOnData(x, nil, ThreadPool{})
					default:
						b := e.(batchEst)
						if err = b.Initialize(ThreadPool{}); err == nil {
							for i := range xs {
								var g ConstScalar
								if mode == "batch-weighted" || mode == "clonebatch-weighted" {
									g = ConstFloat64(gs[i])
								} else if mode == "batch-weighted-offset0" {
									g = ConstFloat64(gs[i] + gammaOffsets[0])
								}
								if err = b.NewObservation(ConstFloat64(xs[i]), g, ThreadPool{}); err != nil {
									break
								}
							}
						}
					}
					if err == nil {
						pdf, err = e.(interface{ GetEstimate() (ScalarPdf, error) }).GetEstimate()
					}
				})
				nchecks++
				if msg != "" {
					report(family, mode, "panic", "estimate", msg)
					continue
				}
				if err != nil {
					report(family, mode, "error", "estimate", err.Error())
					continue
				}
				pv := pdf.GetParameters()
				p := make([]float64, pv.Dim())
				for i := range p {
					p[i] = pv.Float64At(i)
				}
				check(mode, p, pdf)
			}
		}
		// local optimality by perturbation (projection through the library's own LogPdf)
		localMax := func(family, mode string, pdf ScalarPdf, lower, upper []float64) {
			base := wll(pdf, c.Data)
			if math.IsNaN(base) || math.IsInf(base, 0) {
				return
			}
			pv := pdf.GetParameters()
			for i := 0; i < pv.Dim(); i++ {
				for _, dir := range []float64{-1, 1} {
					q := pdf.CloneScalarPdf()
					qp := q.GetParameters()
					v := qp.Float64At(i)
					nv := v + dir*1e-4*(1+math.Abs(v))
					if (lower != nil && nv < lower[i]) || (upper != nil && nv > upper[i]) {
						continue
					}
					qp.At(i).SetFloat64(nv)
					if err := q.SetParameters(qp); err != nil {
						continue
					}
					l := wll(q, c.Data)
					if l > base+1e-9*(1+math.Abs(base)) {
						report(family, mode, "not_local_max", vh.M{"loglik_at_estimate": base},
							vh.M{"parameter": i, "perturbed_to": nv, "loglik": l})
						return
					}
				}
			}
		}
		// ---- normal, both bound settings
		for b, smin := range sigmaMins {
			smin := smin
			varB := c.Normal.VarBounded[b].f()
			drive("normal", func() (interface{}, error) { return scalarEstimator.NewNormalEstimator(0.5, 1.5, smin) },
				func(mode string, p []float64, pdf ScalarPdf) {
					if len(p) != 2 || !near(p[0], c.Normal.Mu.f()) || !near(p[1]*p[1], varB) {
						report("normal", mode, "parameters", vh.M{"mu": c.Normal.Mu.f(), "sigma": math.Sqrt(varB), "sigma_min": smin}, p)
						return
					}
					localMax("normal", mode, pdf, []float64{math.Inf(-1), smin}, nil)
				})
		}
		// ---- exponential
		if c.Exponential.Defined {
			for b, lmax := range lambdaMaxs {
				lmax := lmax
				lb := c.Exponential.LambdaBounded[b].f()
				drive("exponential", func() (interface{}, error) { return scalarEstimator.NewExponentialEstimator(1.0, lmax) },
					func(mode string, p []float64, pdf ScalarPdf) {
						if len(p) != 1 || !near(p[0], lb) {
							report("exponential", mode, "parameters", vh.M{"lambda": lb, "lambda_max": lmax}, p)
							return
						}
						localMax("exponential", mode, pdf, []float64{0}, []float64{lmax})
					})
			}
		}
		// ---- poisson
		if c.Poisson.Defined {
			drive("poisson", func() (interface{}, error) { return scalarEstimator.NewPoissonEstimator(1.0) },
				func(mode string, p []float64, pdf ScalarPdf) {
					if len(p) != 1 || !near(p[0], c.Poisson.Lambda.f()) {
						report("poisson", mode, "parameters", vh.M{"lambda": c.Poisson.Lambda.f()}, p)
						return
					}
					localMax("poisson", mode, pdf, []float64{0}, nil)
				})
		}
		// ---- geometric
		drive("geometric", func() (interface{}, error) { return scalarEstimator.NewGeometricEstimator(0.5) },
			func(mode string, p []float64, pdf ScalarPdf) {
				if len(p) != 1 || !near(p[0], c.Geometric.P.f()) {
					report("geometric", mode, "parameters", vh.M{"p": c.Geometric.P.f()}, p)
					return
				}
				localMax("geometric", mode, pdf, []float64{0}, []float64{1})
			})
		// ---- negative binomial with fixed r
		if c.NegBin.Defined {
			for b, r := range nbRs {
				r := r
				pb := c.NegBin.P[b].f()
				drive("negbin", func() (interface{}, error) { return scalarEstimator.NewNegativeBinomialEstimator(r, 0.5) },
					func(mode string, p []float64, pdf ScalarPdf) {
						if len(p) != 2 || !near(p[0], r) || !near(p[1], pb) {
							report("negbin", mode, "parameters", vh.M{"r": r, "p": pb}, p)
							return
						}
						localMax("negbin", mode, pdf, []float64{r, 0}, []float64{r, 1})
					})
			}
		}
		// ---- translation wrapper around the normal estimator: estimates on x + c
		drive("translation-normal", func() (interface{}, error) {
			inner, err := scalarEstimator.NewNormalEstimator(0.5, 1.5, sigmaMins[0])
			if err != nil {
				return nil, err
			}
			return scalarEstimator.NewTranslationEstimator(inner, transC)
		}, func(mode string, p []float64, pdf ScalarPdf) {
			varB := c.Normal.VarBounded[0].f()
			if len(p) != 2 || !near(p[0], c.TranslatedMu.f()) || !near(p[1]*p[1], varB) {
				report("translation-normal", mode, "parameters", vh.M{"mu": c.TranslatedMu.f(), "sigma": math.Sqrt(varB), "c": transC}, p)
			}
		})
		// ---- categorical (parameters are stored on log scale: compare exp)
		drive("categorical", func() (interface{}, error) {
			th := make([]float64, len(c.Categorical.Theta))
			for i := range th {
				th[i] = 1.0 / float64(len(th))
			}
			return scalarEstimator.NewCategoricalEstimator(th)
		}, func(mode string, p []float64, pdf ScalarPdf) {
			ok := len(p) == len(c.Categorical.Theta)
			for i := 0; ok && i < len(p); i++ {
				want := c.Categorical.Theta[i].f()
				if !near(math.Exp(p[i]), want) {
					ok = false
				}
			}
			if !ok {
				exp := []float64{}
				for _, t := range c.Categorical.Theta {
					exp = append(exp, math.Log(t.f()))
				}
				report("categorical", mode, "parameters", vh.M{"log_theta": fmt.Sprint(exp)}, fmt.Sprint(p))
			}
		})
		return nil
	})
	if err != nil {
		vh.Fatal(err)
	}
	vh.Summary(out, vh.M{"cases": ncases, "estimator_runs": nchecks})
}

// ------------------------------------------------------------------ vector normal (EstimatorsVec.tla)

type vcase struct {
	Data []struct {
		X1 int `json:"x1"`
		X2 int `json:"x2"`
		W  int `json:"w"`
	} `json:"data"`
	UnitWeights bool  `json:"unit_weights"`
	Mu          []rat `json:"mu"`
	Bounded     []struct {
		Defined bool `json:"defined"`
		S11     rat  `json:"s11"`
		S12     rat  `json:"s12"`
		S22     rat  `json:"s22"`
	} `json:"bounded"`
}

func replayVec(args []string) {
	out := vh.NewOut(args[1])
	defer out.Close()
	ncases, nruns := 0, 0
	err := vh.EachLine(args[0], func(line []byte) error {
		var c vcase
		if e := json.Unmarshal(line, &c); e != nil {
			return fmt.Errorf("bad case %v: %.200s", e, line)
		}
		ncases++
		n := len(c.Data)
		xs := make([]ConstVector, n)
		gs := make([]float64, n)
		for i, o := range c.Data {
			xs[i] = NewDenseFloat64Vector([]float64{float64(o.X1), float64(o.X2)})
			gs[i] = math.Log(float64(o.W))
		}
		gamma := NewDenseFloat64Vector(gs)
		modes := []string{"weighted", "batch-weighted", "weighted-offset0", "weighted-offset1", "weighted-offset2", "batch-weighted-offset0"}
		if c.UnitWeights {
			modes = append(modes, "unweighted", "batch-unweighted")
		}
		for b, smin := range sigmaMins {
			exp := c.Bounded[b]
			for _, mode := range modes {
				nruns++
				report := func(what string, e, g interface{}) {
					vh.Mismatch(out, vh.M{"engine": "estim", "family": "vector-normal", "mode": mode, "what": what},
						vh.M{"mode": "closed-form-vec", "case": c, "sigma_min": smin, "expected": e, "observed": g})
				}
				est, err := vectorEstimator.NewNormalEstimator([]float64{0.5, 0.5}, []float64{2, 0, 0, 2}, smin)
				if err != nil {
					report("constructor_error", "estimator", err.Error())
					continue
				}
				var pdf VectorPdf
				msg := vh.Try(func() {
					switch mode {
					case "weighted":
						err = est.EstimateOnData(xs, gamma, ThreadPool{})
					case "weighted-offset0", "weighted-offset1", "weighted-offset2":
						off := gammaOffsets[int(mode[len(mode)-1]-'0')]
						g2 := make([]float64, n)
						for i := range g2 {
							g2[i] = gs[i] + off
						}
						err = est.EstimateOnData(xs, NewDenseFloat64Vector(g2), ThreadPool{})
					case "unweighted":
						err = est.EstimateOnData(xs, nil, ThreadPool{})
					default:
						if err = est.Initialize(ThreadPool{}); err == nil {
							for i := range xs {
								var g ConstScalar
								if mode == "batch-weighted" {
									g = ConstFloat64(gs[i])
								} else if mode == "batch-weighted-offset0" {
									g = ConstFloat64(gs[i] + gammaOffsets[0])
								}
								if err = est.NewObservation(xs[i], g, ThreadPool{}); err != nil {
									break
								}
							}
						}
					}
					if err == nil {
						pdf, err = est.GetEstimate()
					}
				})
				if msg != "" {
					if exp.Defined {
						report("panic", "estimate", msg)
					}
					continue
				}
				if !exp.Defined {
					// exactly singular covariance: the maximiser does not exist; rounding decides whether
					// the library notices - nothing is required
					continue
				}
				if err != nil {
					report("error", "estimate", err.Error())
					continue
				}
				pv := pdf.GetParameters()
				want := []float64{c.Mu[0].f(), c.Mu[1].f(), exp.S11.f(), exp.S12.f(), exp.S12.f(), exp.S22.f()}
				ok := pv.Dim() == 6
				for i := 0; ok && i < 6; i++ {
					if !near(pv.Float64At(i), want[i]) {
						ok = false
					}
				}
				if !ok {
					report("parameters", want, fmt.Sprint(pv))
				}
			}
		}
		return nil
	})
	if err != nil {
		vh.Fatal(err)
	}
	vh.Summary(out, vh.M{"cases": ncases, "estimator_runs": nruns})
}

// ------------------------------------------------------------------ EM trajectories

const scaleF = 1e6
const maxIterations = 1500 // an EM run that is still iterating after this many hook calls is cut off by the recorder

func sc(x float64) int {
	if math.IsNaN(x) || math.IsInf(x, 0) || math.Abs(x) > 2000 {
		return 2000000000
	}
	return int(math.Round(x * scaleF))
}

type emev struct {
	E        string `json:"e"`
	I        int    `json:"i"`
	Nan      bool   `json:"nan"`
	Lik      int    `json:"lik"`
	Eps      int    `json:"eps"`
	Recomp   int    `json:"recomp"`
	Final    int    `json:"final"`
	Err      bool   `json:"err"`
	Epsilon  int    `json:"epsilon"`
	Maxsteps int    `json:"maxsteps"`
	Scenario string `json:"scenario"`
	Seed     int64  `json:"seed"`
	What     string `json:"what"` // twin events: which two quantities the contract says are equal
	A        int    `json:"a"`
	B        int    `json:"b"`
}

func normalData(rng *rand.Rand, n int, sep float64) []float64 {
	x := make([]float64, n)
	for i := range x {
		if i%2 == 0 {
			x[i] = -sep + rng.NormFloat64()
		} else {
			x[i] = sep + rng.NormFloat64()
		}
		x[i] = math.Round(x[i]*16) / 16
	}
	return x
}

func countData(rng *rand.Rand, n, k int) []float64 {
	x := make([]float64, n)
	for i := range x {
		x[i] = float64(rng.Intn(k))
	}
	return x
}

func scalarLL(pdf ScalarPdf, x []float64) float64 {
	r := NullFloat64()
	s := 0.0
	for _, v := range x {
		if err := pdf.LogPdf(r, ConstFloat64(v)); err != nil {
			return math.NaN()
		}
		s += r.GetFloat64()
	}
	return s
}

func vectorLL(pdf VectorPdf, xs []ConstVector) float64 {
	r := NullFloat64()
	s := 0.0
	for _, v := range xs {
		if err := pdf.LogPdf(r, v); err != nil {
			return math.NaN()
		}
		s += r.GetFloat64()
	}
	return s
}

type emScenario struct {
	name string
	run  func(rng *rand.Rand, epsilon float64, maxSteps int, emit func(emev)) (final float64, err error)
}

func mixtureScenario(name string, mk func(rng *rand.Rand) []ScalarEstimator, data func(rng *rand.Rand) []float64) emScenario {
	return mixtureScenarioPool(name, mk, data, 0)
}

// threads > 0: the same trajectory contract with the E-step spread over a real thread pool (what the hook
// reports must still be the likelihood of the model entering the iteration)
func mixtureScenarioPool(name string, mk func(rng *rand.Rand) []ScalarEstimator, data func(rng *rand.Rand) []float64, threads int) emScenario {
	return emScenario{name, func(rng *rand.Rand, epsilon float64, maxSteps int, emit func(emev)) (float64, error) {
		pool := ThreadPool{}
		if threads > 0 {
			pool = New(threads, 100)
			defer pool.Stop()
		}
		x := data(rng)
		var est *scalarEstimator.MixtureEstimator
		hook := generic.EmHook{Value: func(m generic.BasicMixture, i int, l, e float64) {
			d, _ := est.GetEstimate()
			emit(emev{E: "hook", I: i, Nan: math.IsNaN(l), Lik: sc(l), Eps: sc(e), Recomp: sc(scalarLL(d, x))})
		}}
		var err error
		est, err = scalarEstimator.NewMixtureEstimator([]float64{1 + rng.Float64(), 1 + rng.Float64()}, mk(rng), epsilon, maxSteps, hook)
		if err != nil {
			return 0, err
		}
		if err := est.EstimateOnData(NewDenseFloat64Vector(x), nil, pool); err != nil {
			return 0, err
		}
		d, _ := est.GetEstimate()
		return scalarLL(d, x), nil
	}}
}

func hmmScenario(name string, mk func(rng *rand.Rand) []ScalarEstimator, data func(rng *rand.Rand) []float64, start, final []int) emScenario {
	return emScenario{name, func(rng *rand.Rand, epsilon float64, maxSteps int, emit func(emev)) (float64, error) {
		nseq := 1 + rng.Intn(4)
		xs := make([]ConstVector, nseq)
		for i := range xs {
			xs[i] = NewDenseFloat64Vector(data(rng))
		}
		var est *vectorEstimator.HmmEstimator
		hook := generic.BaumWelchHook{Value: func(h generic.BasicHmm, i int, l, e float64) {
			d, _ := est.GetEstimate()
			emit(emev{E: "hook", I: i, Nan: math.IsNaN(l), Lik: sc(l), Eps: sc(e), Recomp: sc(vectorLL(d, xs))})
		}}
		a := 0.2 + 0.6*rng.Float64()
		b := 0.2 + 0.6*rng.Float64()
		pi := NewDenseFloat64Vector([]float64{0.6, 0.4})
		tr := NewDenseFloat64Matrix([]float64{a, 1 - a, b, 1 - b}, 2, 2)
		var err error
		est, err = vectorEstimator.NewHmmEstimator(pi, tr, nil, start, final, mk(rng), epsilon, maxSteps, hook)
		if err != nil {
			return 0, err
		}
		if err := est.EstimateOnData(xs, nil, ThreadPool{}); err != nil {
			return 0, err
		}
		d, _ := est.GetEstimate()
		return vectorLL(d, xs), nil
	}}
}

func normals(rng *rand.Rand) []ScalarEstimator {
	e1, _ := scalarEstimator.NewNormalEstimator(-1-rng.Float64(), 1+rng.Float64(), 1e-2)
	e2, _ := scalarEstimator.NewNormalEstimator(1+2*rng.Float64(), 1+rng.Float64(), 1e-2)
	return []ScalarEstimator{e1, e2}
}
func poissons(rng *rand.Rand) []ScalarEstimator {
	e1, _ := scalarEstimator.NewPoissonEstimator(0.5 + rng.Float64())
	e2, _ := scalarEstimator.NewPoissonEstimator(3 + 2*rng.Float64())
	return []ScalarEstimator{e1, e2}
}
func geometrics(rng *rand.Rand) []ScalarEstimator {
	e1, _ := scalarEstimator.NewGeometricEstimator(0.2 + 0.2*rng.Float64())
	e2, _ := scalarEstimator.NewGeometricEstimator(0.6 + 0.3*rng.Float64())
	return []ScalarEstimator{e1, e2}
}
func categoricals(rng *rand.Rand) []ScalarEstimator {
	a := 0.1 + 0.3*rng.Float64()
	b := 0.6 + 0.3*rng.Float64()
	e1, _ := scalarEstimator.NewCategoricalEstimator([]float64{a, 1 - a})
	e2, _ := scalarEstimator.NewCategoricalEstimator([]float64{b, 1 - b})
	return []ScalarEstimator{e1, e2}
}

func vmixScenario() emScenario {
	return emScenario{"vmix-normal2d", func(rng *rand.Rand, epsilon float64, maxSteps int, emit func(emev)) (float64, error) {
		n := 8 + rng.Intn(20)
		xs := make([]ConstVector, n)
		for i := range xs {
			c := float64(2*(i%2)) - 1
			xs[i] = NewDenseFloat64Vector([]float64{math.Round((2*c+rng.NormFloat64())*16) / 16, math.Round((c+rng.NormFloat64())*16) / 16})
		}
		var est *vectorEstimator.MixtureEstimator
		hook := generic.EmHook{Value: func(m generic.BasicMixture, i int, l, e float64) {
			d, _ := est.GetEstimate()
			emit(emev{E: "hook", I: i, Nan: math.IsNaN(l), Lik: sc(l), Eps: sc(e), Recomp: sc(vectorLL(d, xs))})
		}}
		mk := func(mu float64) VectorEstimator {
			v, err := vectorEstimator.NewNormalEstimator([]float64{mu, mu / 2}, []float64{2, 0, 0, 2}, 1e-2)
			if err != nil {
				panic(err)
			}
			return v
		}
		var err error
		est, err = vectorEstimator.NewMixtureEstimator([]float64{1, 1 + rng.Float64()}, []VectorEstimator{mk(-1 - rng.Float64()), mk(1 + rng.Float64())}, epsilon, maxSteps, hook)
		if err != nil {
			return 0, err
		}
		if err := est.EstimateOnData(xs, nil, ThreadPool{}); err != nil {
			return 0, err
		}
		d, _ := est.GetEstimate()
		return vectorLL(d, xs), nil
	}}
}

// HMM whose emissions are themselves mixtures: the inner EM runs one nested step per outer iteration
func nestedMixtures(rng *rand.Rand) []ScalarEstimator {
	mk := func(a, b float64) ScalarEstimator {
		e1, _ := scalarEstimator.NewNormalEstimator(a, 1+rng.Float64(), 1e-2)
		e2, _ := scalarEstimator.NewNormalEstimator(b, 1+rng.Float64(), 1e-2)
		m, err := scalarEstimator.NewMixtureEstimator([]float64{1, 1}, []ScalarEstimator{e1, e2}, 1e-8, -1)
		if err != nil {
			panic(err)
		}
		return m
	}
	return []ScalarEstimator{mk(-3, -1), mk(1, 3)}
}

// mixture on a summarized data set (value, count): repeated values are stored once
func discreteMixtureScenario() emScenario {
	return emScenario{"dmix-poisson-summarized", func(rng *rand.Rand, epsilon float64, maxSteps int, emit func(emev)) (float64, error) {
		x := countData(rng, 12+rng.Intn(30), 6)
		var est *scalarEstimator.DiscreteMixtureEstimator
		hook := generic.EmHook{Value: func(m generic.BasicMixture, i int, l, e float64) {
			d, _ := est.GetEstimate()
			emit(emev{E: "hook", I: i, Nan: math.IsNaN(l), Lik: sc(l), Eps: sc(e), Recomp: sc(scalarLL(d, x))})
		}}
		var err error
		est, err = scalarEstimator.NewDiscreteMixtureEstimator([]float64{1 + rng.Float64(), 1 + rng.Float64()}, poissons(rng), epsilon, maxSteps, hook)
		if err != nil {
			return 0, err
		}
		data := NewDenseFloat64Vector(x)
		if err := est.SetData(data, data.Dim()); err != nil {
			return 0, err
		}
		if err := est.Estimate(nil, ThreadPool{}); err != nil {
			return 0, err
		}
		d, _ := est.GetEstimate()
		return scalarLL(d, x), nil
	}}
}

// HMM whose state map ties two hidden states to one emission distribution
func tiedHmmScenario(name string, mk func(rng *rand.Rand) []ScalarEstimator, data func(rng *rand.Rand) []float64) emScenario {
	return emScenario{name, func(rng *rand.Rand, epsilon float64, maxSteps int, emit func(emev)) (float64, error) {
		nseq := 1 + rng.Intn(3)
		xs := make([]ConstVector, nseq)
		for i := range xs {
			xs[i] = NewDenseFloat64Vector(data(rng))
		}
		var est *vectorEstimator.HmmEstimator
		hook := generic.BaumWelchHook{Value: func(h generic.BasicHmm, i int, l, e float64) {
			d, _ := est.GetEstimate()
			emit(emev{E: "hook", I: i, Nan: math.IsNaN(l), Lik: sc(l), Eps: sc(e), Recomp: sc(vectorLL(d, xs))})
		}}
		pi := NewDenseFloat64Vector([]float64{0.5, 0.3, 0.2})
		a := 0.1 + 0.3*rng.Float64()
		tr := NewDenseFloat64Matrix([]float64{0.6, 0.4 - a, a, 0.2, 0.5, 0.3, a, 0.5 - a, 0.5}, 3, 3)
		var err error
		est, err = vectorEstimator.NewHmmEstimator(pi, tr, []int{0, 1, 1}, nil, nil, mk(rng), epsilon, maxSteps, hook)
		if err != nil {
			return 0, err
		}
		if err := est.EstimateOnData(xs, nil, ThreadPool{}); err != nil {
			return 0, err
		}
		d, _ := est.GetEstimate()
		return vectorLL(d, xs), nil
	}}
}

// ------------------------------------------------------------------ further HMM / mixture scenarios

type hmmOpts struct {
	chunk   int  // HmmEstimator.ChunkSize: every sequence is cut into pieces of this length (the last one shorter)
	fixedTr bool // OptimizeTransitions = false: the transition matrix must stay what it was
	short   bool // sequences of length 1..4, a length-1 sequence after a longer one included
}

func cut(xs []ConstVector, c int) []ConstVector {
	if c <= 0 {
		return xs
	}
	r := []ConstVector{}
	for _, x := range xs {
		for j := 0; j < x.Dim(); j += c {
			to := j + c
			if to > x.Dim() {
				to = x.Dim()
			}
			v := make([]float64, to-j)
			for k := range v {
				v[k] = x.Float64At(j + k)
			}
			r = append(r, NewDenseFloat64Vector(v))
		}
	}
	return r
}

func hmmOptScenario(name string, mk func(rng *rand.Rand) []ScalarEstimator, data func(rng *rand.Rand, n int) []float64, o hmmOpts) emScenario {
	return emScenario{name, func(rng *rand.Rand, epsilon float64, maxSteps int, emit func(emev)) (float64, error) {
		nseq := 2 + rng.Intn(3)
		xs := make([]ConstVector, nseq)
		for i := range xs {
			n := 5 + rng.Intn(9)
			if o.short {
				n = 1 + rng.Intn(4)
				if i == 0 {
					n = 3 + rng.Intn(3)
				} else if i == 1 {
					n = 1
				}
			}
			xs[i] = NewDenseFloat64Vector(data(rng, n))
		}
		// what the estimator is documented to see: the pieces, as independent sequences
		pieces := cut(xs, o.chunk)
		var est *vectorEstimator.HmmEstimator
		hook := generic.BaumWelchHook{Value: func(h generic.BasicHmm, i int, l, e float64) {
			d, _ := est.GetEstimate()
			emit(emev{E: "hook", I: i, Nan: math.IsNaN(l), Lik: sc(l), Eps: sc(e), Recomp: sc(vectorLL(d, pieces))})
		}}
		a := 0.2 + 0.6*rng.Float64()
		b := 0.2 + 0.6*rng.Float64()
		mkEst := func(h generic.BaumWelchHook) (*vectorEstimator.HmmEstimator, error) {
			pi := NewDenseFloat64Vector([]float64{0.6, 0.4})
			tr := NewDenseFloat64Matrix([]float64{a, 1 - a, b, 1 - b}, 2, 2)
			return vectorEstimator.NewHmmEstimator(pi, tr, nil, nil, nil, mk(rand.New(rand.NewSource(int64(a*1e9)))), epsilon, maxSteps, h)
		}
		var err error
		est, err = mkEst(hook)
		if err != nil {
			return 0, err
		}
		est.ChunkSize = o.chunk
		est.OptimizeTransitions = !o.fixedTr
		if err := est.EstimateOnData(xs, nil, ThreadPool{}); err != nil {
			return 0, err
		}
		d, _ := est.GetEstimate()
		final := vectorLL(d, pieces)
		if o.fixedTr {
			// p = (pi, tr, emissions...): entries 2..5 are the transition matrix
			p := d.GetParameters()
			dev := 0.0
			for k, w := range []float64{a, 1 - a, b, 1 - b} {
				dev = math.Max(dev, math.Abs(math.Exp(p.Float64At(2+k))-w))
			}
			emit(emev{E: "twin", What: "transition matrix after Baum-Welch with OptimizeTransitions=false vs before", A: sc(dev), B: 0})
		}
		if o.chunk > 0 {
			// the same run on sequences cut by hand
			twin, err2 := mkEst(generic.BaumWelchHook{})
			if err2 == nil {
				if err2 = twin.EstimateOnData(pieces, nil, ThreadPool{}); err2 == nil {
					d2, _ := twin.GetEstimate()
					emit(emev{E: "twin", What: "final likelihood with ChunkSize vs on sequences cut by hand", A: sc(final), B: sc(vectorLL(d2, pieces))})
				}
			}
			if err2 != nil {
				emit(emev{E: "twin", What: "run on sequences cut by hand failed: " + err2.Error(), A: 0, B: 2000000000})
			}
		}
		return final, nil
	}}
}

func negbins(rng *rand.Rand) []ScalarEstimator {
	e1, _ := scalarEstimator.NewNegativeBinomialEstimator(3.5, 0.2+0.2*rng.Float64())
	e2, _ := scalarEstimator.NewNegativeBinomialEstimator(0.4, 0.6+0.3*rng.Float64())
	return []ScalarEstimator{e1, e2}
}

// components wrapped by the Translation / LogTransform estimators (batch interface of the inner estimator)
func wrappedNormals(rng *rand.Rand) []ScalarEstimator {
	i1, _ := scalarEstimator.NewNormalEstimator(1+rng.Float64(), 1+rng.Float64(), 1e-2)
	i2, _ := scalarEstimator.NewNormalEstimator(0.5+rng.Float64(), 0.5+rng.Float64(), 1e-2)
	e1, _ := scalarEstimator.NewTranslationEstimator(i1, 2.0)
	e2, _ := scalarEstimator.NewLogTransformEstimator(i2, 1.0)
	return []ScalarEstimator{e1, e2}
}

// DiscreteMixtureEstimator stores repeated values once; on data whose distinct values share integer
// parts (half-integer lattice) it must still be the mixture EM of the data: same trajectory as MixtureEstimator
func discreteLatticeScenario() emScenario {
	return emScenario{"dmix-normal-halfinteger", func(rng *rand.Rand, epsilon float64, maxSteps int, emit func(emev)) (float64, error) {
		n := 12 + rng.Intn(30)
		x := make([]float64, n)
		for i := range x {
			x[i] = float64(rng.Intn(13)-6) / 2
		}
		w1, w2 := 1+rng.Float64(), 1+rng.Float64()
		s := rng.Int63()
		var est *scalarEstimator.DiscreteMixtureEstimator
		hook := generic.EmHook{Value: func(m generic.BasicMixture, i int, l, e float64) {
			d, _ := est.GetEstimate()
			emit(emev{E: "hook", I: i, Nan: math.IsNaN(l), Lik: sc(l), Eps: sc(e), Recomp: sc(scalarLL(d, x))})
		}}
		var err error
		est, err = scalarEstimator.NewDiscreteMixtureEstimator([]float64{w1, w2}, normals(rand.New(rand.NewSource(s))), epsilon, maxSteps, hook)
		if err != nil {
			return 0, err
		}
		data := NewDenseFloat64Vector(x)
		if err := est.SetData(data, data.Dim()); err != nil {
			return 0, err
		}
		if err := est.Estimate(nil, ThreadPool{}); err != nil {
			return 0, err
		}
		d, _ := est.GetEstimate()
		final := scalarLL(d, x)
		twin, err2 := scalarEstimator.NewMixtureEstimator([]float64{w1, w2}, normals(rand.New(rand.NewSource(s))), epsilon, maxSteps)
		if err2 == nil {
			if err2 = twin.EstimateOnData(NewDenseFloat64Vector(x), nil, ThreadPool{}); err2 == nil {
				d2, _ := twin.GetEstimate()
				emit(emev{E: "twin", What: "final likelihood of DiscreteMixtureEstimator vs MixtureEstimator on the same data", A: sc(final), B: sc(scalarLL(d2, x))})
			}
		}
		return final, nil
	}}
}

// ------------------------------------------------------------------ matrix-valued observations

func matrixLL(pdf MatrixPdf, xs []ConstMatrix) float64 {
	r := NullFloat64()
	s := 0.0
	for _, v := range xs {
		if err := pdf.LogPdf(r, v); err != nil {
			return math.NaN()
		}
		s += r.GetFloat64()
	}
	return s
}

// rows (normal-ish, count): the emission of a state is ScalarId(normal, poisson)
func rowData(rng *rand.Rand, n int) ConstMatrix {
	v := make([]float64, 2*n)
	for i := 0; i < n; i++ {
		c := float64(2*(i%2)) - 1
		v[2*i] = math.Round((2*c+rng.NormFloat64())*16) / 16
		v[2*i+1] = float64(rng.Intn(3) + (i%2)*3)
	}
	return NewDenseFloat64Matrix(v, n, 2)
}

func idEmission(rng *rand.Rand, mu, lambda float64) VectorEstimator {
	e1, _ := scalarEstimator.NewNormalEstimator(mu+rng.Float64(), 1+rng.Float64(), 1e-2)
	e2, _ := scalarEstimator.NewPoissonEstimator(lambda + rng.Float64())
	v, err := vectorEstimator.NewScalarId(e1, e2)
	if err != nil {
		panic(err)
	}
	return v
}

// matrixEstimator.HmmEstimator: a sequence is a matrix (one row per position), emissions are vector estimators
func matrixHmmScenario(name string, chunk int) emScenario {
	return emScenario{name, func(rng *rand.Rand, epsilon float64, maxSteps int, emit func(emev)) (float64, error) {
		nseq := 1 + rng.Intn(3)
		xs := make([]ConstMatrix, nseq)
		for i := range xs {
			xs[i] = rowData(rng, 4+rng.Intn(8))
		}
		pieces := xs
		if chunk > 0 {
			pieces = nil
			for _, x := range xs {
				n, m := x.Dims()
				for j := 0; j < n; j += chunk {
					to := j + chunk
					if to > n {
						to = n
					}
					v := make([]float64, 0, (to-j)*m)
					for a := j; a < to; a++ {
						for b := 0; b < m; b++ {
							v = append(v, x.Float64At(a, b))
						}
					}
					pieces = append(pieces, NewDenseFloat64Matrix(v, to-j, m))
				}
			}
		}
		var est *matrixEstimator.HmmEstimator
		hook := generic.BaumWelchHook{Value: func(h generic.BasicHmm, i int, l, e float64) {
			d, _ := est.GetEstimate()
			emit(emev{E: "hook", I: i, Nan: math.IsNaN(l), Lik: sc(l), Eps: sc(e), Recomp: sc(matrixLL(d, pieces))})
		}}
		a := 0.2 + 0.6*rng.Float64()
		b := 0.2 + 0.6*rng.Float64()
		pi := NewDenseFloat64Vector([]float64{0.6, 0.4})
		tr := NewDenseFloat64Matrix([]float64{a, 1 - a, b, 1 - b}, 2, 2)
		var err error
		est, err = matrixEstimator.NewHmmEstimator(pi, tr, nil, nil, nil, []VectorEstimator{idEmission(rng, -2, 0.5), idEmission(rng, 1, 3)}, epsilon, maxSteps, hook)
		if err != nil {
			return 0, err
		}
		est.ChunkSize = chunk
		if err := est.EstimateOnData(xs, nil, ThreadPool{}); err != nil {
			return 0, err
		}
		d, _ := est.GetEstimate()
		return matrixLL(d, pieces), nil
	}}
}

// Baum-Welch with a constrained M-step: equality constraints between transition probabilities (the row
// normalisation is solved numerically), and the hierarchical transition matrix (blocks of a tree of states)
func structuredHmmScenario(name string, kind string) emScenario {
	return emScenario{name, func(rng *rand.Rand, epsilon float64, maxSteps int, emit func(emev)) (float64, error) {
		nseq := 1 + rng.Intn(3)
		xs := make([]ConstVector, nseq)
		for i := range xs {
			xs[i] = NewDenseFloat64Vector(countData(rng, 6+rng.Intn(10), 2))
		}
		var est *vectorEstimator.HmmEstimator
		hook := generic.BaumWelchHook{Value: func(h generic.BasicHmm, i int, l, e float64) {
			d, _ := est.GetEstimate()
			emit(emev{E: "hook", I: i, Nan: math.IsNaN(l), Lik: sc(l), Eps: sc(e), Recomp: sc(vectorLL(d, xs))})
		}}
		var err error
		switch kind {
		case "constrained":
			a := 0.2 + 0.3*rng.Float64()
			pi := NewDenseFloat64Vector([]float64{0.5, 0.3, 0.2})
			tr := NewDenseFloat64Matrix([]float64{1 - 2*a, a, a, a, 1 - 2*a, a, 0.3, 0.3, 0.4}, 3, 3)
			// tr[0][1] = tr[1][0] and tr[0][2] = tr[1][2]
			c1, _ := generic.NewEqualityConstraint([]int{0, 1, 1, 0})
			c2, _ := generic.NewEqualityConstraint([]int{0, 2, 1, 2})
			est, err = vectorEstimator.NewConstrainedHmmEstimator(pi, tr, []int{0, 1, 1}, nil, nil, []generic.EqualityConstraint{c1, c2}, categoricals(rng), epsilon, maxSteps, hook)
		case "hierarchical":
			pi := NewDenseFloat64Vector([]float64{0.4, 0.2, 0.2, 0.2})
			tr := NewDenseFloat64Matrix([]float64{
				0.5, 0.3, 0.1, 0.1,
				0.3, 0.5, 0.1, 0.1,
				0.1, 0.1, 0.5, 0.3,
				0.1, 0.1, 0.3, 0.5}, 4, 4)
			tree := generic.NewHmmNode(generic.NewHmmLeaf(0, 2), generic.NewHmmLeaf(2, 4))
			est, err = vectorEstimator.NewHierarchicalHmmEstimator(pi, tr, []int{0, 1, 0, 1}, nil, nil, tree, categoricals(rng), epsilon, maxSteps, hook)
		}
		if err != nil {
			return 0, err
		}
		if err := est.EstimateOnData(xs, nil, ThreadPool{}); err != nil {
			return 0, err
		}
		d, _ := est.GetEstimate()
		return vectorLL(d, xs), nil
	}}
}

// two estimators made from one prototype by CloneVectorEstimator are independent: using the second one does not
// change what the first one has estimated (each owns its models, scratch model included)
func hmmCloneScenario(name string, mk func(rng *rand.Rand) []ScalarEstimator, data func(rng *rand.Rand, n int) []float64) emScenario {
	return emScenario{name, func(rng *rand.Rand, epsilon float64, maxSteps int, emit func(emev)) (float64, error) {
		mkData := func() []ConstVector {
			xs := make([]ConstVector, 1+rng.Intn(3))
			for i := range xs {
				xs[i] = NewDenseFloat64Vector(data(rng, 5+rng.Intn(9)))
			}
			return xs
		}
		xa, xb := mkData(), mkData()
		a := 0.2 + 0.6*rng.Float64()
		b := 0.2 + 0.6*rng.Float64()
		pi := NewDenseFloat64Vector([]float64{0.6, 0.4})
		tr := NewDenseFloat64Matrix([]float64{a, 1 - a, b, 1 - b}, 2, 2)
		var estA, estB *vectorEstimator.HmmEstimator
		phaseA := true
		// the hook travels with the clones: only A's trajectory is logged
		hook := generic.BaumWelchHook{Value: func(h generic.BasicHmm, i int, l, e float64) {
			if !phaseA {
				return
			}
			d, _ := estA.GetEstimate()
			emit(emev{E: "hook", I: i, Nan: math.IsNaN(l), Lik: sc(l), Eps: sc(e), Recomp: sc(vectorLL(d, xa))})
		}}
		proto, err := vectorEstimator.NewHmmEstimator(pi, tr, nil, nil, nil, mk(rng), epsilon, maxSteps, hook)
		if err != nil {
			return 0, err
		}
		estA = proto.CloneVectorEstimator().(*vectorEstimator.HmmEstimator)
		estB = proto.CloneVectorEstimator().(*vectorEstimator.HmmEstimator)
		if err := estA.EstimateOnData(xa, nil, ThreadPool{}); err != nil {
			return 0, err
		}
		da, _ := estA.GetEstimate()
		before := vectorLL(da, xa)
		phaseA = false
		if err := estB.EstimateOnData(xb, nil, ThreadPool{}); err != nil {
			return before, nil
		}
		da2, _ := estA.GetEstimate()
		after := vectorLL(da2, xa)
		emit(emev{E: "twin", What: "likelihood of an estimator's result before vs after its sibling clone was used", A: sc(before), B: sc(after)})
		db, _ := estB.GetEstimate()
		_ = db
		return before, nil
	}}
}

func emScenarios() []emScenario {
	return []emScenario{
		mixtureScenario("smix-normal", normals, func(r *rand.Rand) []float64 { return normalData(r, 10+r.Intn(30), 2) }),
		mixtureScenario("smix-normal-overlap", normals, func(r *rand.Rand) []float64 { return normalData(r, 6+r.Intn(20), 0.5) }),
		mixtureScenario("smix-poisson", poissons, func(r *rand.Rand) []float64 { return countData(r, 10+r.Intn(30), 8) }),
		mixtureScenario("smix-geometric", geometrics, func(r *rand.Rand) []float64 { return countData(r, 10+r.Intn(30), 6) }),
		hmmScenario("vhmm-categorical", categoricals, func(r *rand.Rand) []float64 { return countData(r, 5+r.Intn(12), 2) }, nil, nil),
		hmmScenario("vhmm-normal", normals, func(r *rand.Rand) []float64 { return normalData(r, 5+r.Intn(12), 2) }, nil, nil),
		hmmScenario("vhmm-categorical-startfinal", categoricals, func(r *rand.Rand) []float64 { return countData(r, 5+r.Intn(12), 2) }, []int{0}, []int{0}),
		hmmScenario("vhmm-poisson", poissons, func(r *rand.Rand) []float64 { return countData(r, 5+r.Intn(12), 8) }, nil, nil),
		vmixScenario(),
		discreteMixtureScenario(),
		tiedHmmScenario("vhmm-tied-categorical", categoricals, func(r *rand.Rand) []float64 { return countData(r, 6+r.Intn(12), 2) }),
		tiedHmmScenario("vhmm-tied-normal", normals, func(r *rand.Rand) []float64 { return normalData(r, 6+r.Intn(12), 2) }),
		hmmScenario("vhmm-nested-mixture", nestedMixtures, func(r *rand.Rand) []float64 { return normalData(r, 6+r.Intn(12), 2) }, nil, nil),
		hmmOptScenario("vhmm-categorical-chunked", categoricals, func(r *rand.Rand, n int) []float64 { return countData(r, n, 2) }, hmmOpts{chunk: 3}),
		hmmOptScenario("vhmm-normal-chunked", normals, func(r *rand.Rand, n int) []float64 { return normalData(r, n, 2) }, hmmOpts{chunk: 4}),
		hmmOptScenario("vhmm-categorical-fixed-transitions", categoricals, func(r *rand.Rand, n int) []float64 { return countData(r, n, 2) }, hmmOpts{fixedTr: true}),
		hmmOptScenario("vhmm-categorical-short", categoricals, func(r *rand.Rand, n int) []float64 { return countData(r, n, 2) }, hmmOpts{short: true}),
		hmmOptScenario("vhmm-normal-short", normals, func(r *rand.Rand, n int) []float64 { return normalData(r, n, 2) }, hmmOpts{short: true}),
		mixtureScenarioPool("smix-normal-pool3", normals, func(r *rand.Rand) []float64 { return normalData(r, 10+r.Intn(30), 2) }, 3),
		mixtureScenarioPool("smix-poisson-pool5", poissons, func(r *rand.Rand) []float64 { return countData(r, 10+r.Intn(30), 8) }, 5),
		mixtureScenario("smix-negbin", negbins, func(r *rand.Rand) []float64 { return countData(r, 10+r.Intn(30), 9) }),
		mixtureScenario("smix-wrapped-normal", wrappedNormals, func(r *rand.Rand) []float64 {
			x := countData(r, 10+r.Intn(30), 12)
			return x
		}),
		discreteLatticeScenario(),
		hmmCloneScenario("vhmm-categorical-clones", categoricals, func(r *rand.Rand, n int) []float64 { return countData(r, n, 2) }),
		structuredHmmScenario("vhmm-constrained", "constrained"),
		structuredHmmScenario("vhmm-hierarchical", "hierarchical"),
		matrixHmmScenario("mhmm-scalarid", 0),
		matrixHmmScenario("mhmm-scalarid-chunked", 3),
	}
}

// ------------------------------------------------------------------ numeric estimators: stationarity

type numev struct {
	E      string `json:"e"`
	Family string `json:"family"`
	Sparse bool   `json:"sparse"`
	Cw     int    `json:"cw"`
	N      int    `json:"n"`
	Gnorm  int    `json:"gnorm"` // max |d/dtheta_k weighted log-likelihood| at the estimate, scaled by 1e9, capped
	Err    bool   `json:"err"`
	Seed   int64  `json:"seed"`
	// the specification's "well posed" class: an interior maximiser exists, the start is admissible and the
	// method is one that the library documents for the family - an error return is then not acceptable
	Wellposed bool `json:"wellposed"`
	Unmoved   bool `json:"unmoved"` // the returned parameters are bit-for-bit the start parameters
	Start     string `json:"start"` // "near" | "far" (NumericEstimator runs)
	skip      bool
}

// logistic regression (SAGA): the returned theta must be a stationary point of the class-weighted
// log-likelihood; the gradient is evaluated here from the data, independently of the estimator's f_dense/f_sparse
func recordNumeric(trace *vh.Out, out *vh.Out, nruns int, seed int64) int {
	cws := [][2]float64{{1, 1}, {1, 3}, {2, 0.5}, {0, 0}} // {0,0} = Balance option
	n0 := 0
	for i := 0; i < nruns; i++ {
		rseed := seed*3000017 + int64(i)
		rng := rand.New(rand.NewSource(rseed))
		sparse := i%2 == 1
		cwi := (i / 2) % len(cws)
		n := 30 + rng.Intn(50)
		m := 2 + rng.Intn(2)
		beta := make([]float64, m+1)
		for k := range beta {
			beta[k] = math.Round(rng.NormFloat64()*8) / 8
		}
		raw := make([][]float64, n)
		xs := make([]ConstVector, n)
		n1 := 0
		for j := range raw {
			r := make([]float64, m+2)
			r[0] = 1
			z := beta[0]
			for k := 1; k <= m; k++ {
				r[k] = math.Round(rng.NormFloat64()*16) / 16
				z += beta[k] * r[k]
			}
			if rng.Float64() < 1/(1+math.Exp(-z)) {
				r[m+1] = 1
				n1++
			}
			raw[j] = r
			if sparse {
				xs[j] = AsSparseConstFloat64Vector(NewDenseFloat64Vector(r))
			} else {
				xs[j] = NewDenseFloat64Vector(r)
			}
		}
		if n1 < 3 || n-n1 < 3 {
			continue // (nearly) separable data: no finite maximiser
		}
		ev := numev{E: "numeric", Family: "logistic", Sparse: sparse, Cw: cwi, N: n, Seed: rseed}
		msg := vh.Try(func() {
			est, err := vectorEstimator.NewLogisticRegression(m+1, sparse)
			if err != nil {
				ev.Err = true
				return
			}
			cw := cws[cwi]
			if cwi == 3 {
				est.Balance = true
				cw = [2]float64{float64(n) / float64(2*(n-n1)), float64(n) / float64(2*n1)}
			} else {
				est.ClassWeights = cw
			}
			est.Epsilon = 1e-10
			est.MaxIterations = 400000
			if err := est.EstimateOnData(xs, nil, ThreadPool{}); err != nil {
				ev.Err = true
				return
			}
			th := est.GetParameters()
			for k := 0; k <= m; k++ {
				if math.Abs(th.Float64At(k)) > 12 {
					// (nearly) separable data: the likelihood has no finite maximiser and the iteration
					// drifts to infinity - nothing is required of such a run
					ev.skip = true
					return
				}
			}
			g := make([]float64, m+1)
			for _, r := range raw {
				z := 0.0
				for k := 0; k <= m; k++ {
					z += th.Float64At(k) * r[k]
				}
				w := cw[int(r[m+1])]
				sg := 1 / (1 + math.Exp(-z))
				for k := 0; k <= m; k++ {
					g[k] += w * (r[m+1] - sg) * r[k]
				}
			}
			if os.Getenv("ESTIM_NUMDEBUG") != "" {
				fmt.Fprintln(os.Stderr, "numeric", rseed, sparse, cw, "n", n, "n1", n1, "theta", th, "grad", g)
			}
			gm := 0.0
			for _, v := range g {
				if math.IsNaN(v) {
					gm = math.Inf(1)
				}
				gm = math.Max(gm, math.Abs(v))
			}
			if gm*1e9 > 2e9 {
				ev.Gnorm = 2000000000
			} else {
				ev.Gnorm = int(gm * 1e9)
			}
		})
		if msg != "" {
			vh.Mismatch(out, vh.M{"engine": "estim", "what": "panic", "scenario": "logistic"}, vh.M{"mode": "numeric", "seed": rseed, "panic": msg})
			ev.Err = true
		}
		if ev.skip {
			continue
		}
		trace.Put(ev)
		n0++
	}
	return n0
}

// NumericEstimator (maximises the weighted log-likelihood of any ScalarPdf with newton / bfgs / rprop and the
// library's AD): a run that returns without error must stop at a stationary point. The gradient is recomputed
// here, independently of the estimator's objective function, from the data with the returned parameters as
// Real64 variables of a fresh copy of the density.
func recordNumericEstimator(trace *vh.Out, out *vh.Out, nruns int, seed int64) int {
	type fam struct {
		name string
		mk   func(rng *rand.Rand) (ScalarPdf, error)
		data func(rng *rand.Rand, n int) []float64
		near func(rng *rand.Rand, x, w []float64) (ScalarPdf, error) // start within 10% of the moment estimates
	}
	moments := func(x, w []float64) (float64, float64) {
		sw, sx, sxx := 0.0, 0.0, 0.0
		for i := range x {
			sw += w[i]
			sx += w[i] * x[i]
			sxx += w[i] * x[i] * x[i]
		}
		m := sx / sw
		return m, math.Max(sxx/sw-m*m, 1e-3)
	}
	jit := func(rng *rand.Rand) float64 { return 0.9 + 0.2*rng.Float64() }
	pos := func(rng *rand.Rand, n int) []float64 {
		x := make([]float64, n)
		for i := range x {
			x[i] = math.Round((0.25+rng.ExpFloat64()*2)*16) / 16
		}
		return x
	}
	real := func(rng *rand.Rand, n int) []float64 {
		x := make([]float64, n)
		for i := range x {
			x[i] = math.Round((1+2*rng.NormFloat64())*16) / 16
		}
		return x
	}
	fams := []fam{
		{"gamma", func(rng *rand.Rand) (ScalarPdf, error) {
			return scalarDistribution.NewGammaDistribution(NewFloat64(1+rng.Float64()), NewFloat64(0.5+rng.Float64()))
		}, pos, func(rng *rand.Rand, x, w []float64) (ScalarPdf, error) {
			m, v := moments(x, w)
			return scalarDistribution.NewGammaDistribution(NewFloat64(m*m/v*jit(rng)), NewFloat64(m/v*jit(rng)))
		}},
		{"normal", func(rng *rand.Rand) (ScalarPdf, error) {
			return scalarDistribution.NewNormalDistribution(NewFloat64(rng.Float64()), NewFloat64(1+rng.Float64()))
		}, real, func(rng *rand.Rand, x, w []float64) (ScalarPdf, error) {
			m, v := moments(x, w)
			return scalarDistribution.NewNormalDistribution(NewFloat64(m+0.1*math.Sqrt(v)*(jit(rng)-1)), NewFloat64(math.Sqrt(v)*jit(rng)))
		}},
		{"exponential", func(rng *rand.Rand) (ScalarPdf, error) {
			return scalarDistribution.NewExponentialDistribution(NewFloat64(0.5 + rng.Float64()))
		}, pos, func(rng *rand.Rand, x, w []float64) (ScalarPdf, error) {
			m, _ := moments(x, w)
			return scalarDistribution.NewExponentialDistribution(NewFloat64(jit(rng) / m))
		}},
		{"cauchy", func(rng *rand.Rand) (ScalarPdf, error) {
			return scalarDistribution.NewCauchyDistribution(NewFloat64(rng.Float64()), NewFloat64(1+rng.Float64()))
		}, real, nil},
	}
	methods := []string{"newton", "bfgs", "rprop"}
	wd := vh.NewWatchdog(60*time.Second, out, vh.M{"engine": "estim", "scenario": "numeric-estimator"})
	n0 := 0
	for i := 0; i < nruns; i++ {
		rseed := seed*5000011 + int64(i)
		rng := rand.New(rand.NewSource(rseed))
		f := fams[i%len(fams)]
		method := methods[(i/len(fams))%len(methods)]
		weighted := (i/(len(fams)*len(methods)))%2 == 1
		n := 8 + rng.Intn(30)
		x := f.data(rng, n)
		var gamma ConstVector
		w := make([]float64, n)
		for k := range w {
			w[k] = 1
		}
		if weighted {
			g := make([]float64, n)
			for k := range g {
				w[k] = float64(1 + rng.Intn(4))
				g[k] = math.Log(w[k])
			}
			gamma = NewDenseFloat64Vector(g)
		}
		ev := numev{E: "numeric", Family: "numeric-" + f.name + "-" + method, N: n, Seed: rseed}
		// near: the start is within 10% of the moment estimates (every first step is admissible); far: a random
		// admissible start, where the optimizers may fail on their first line search
		nearStart := f.near != nil && (i/(2*len(fams)*len(methods)))%2 == 0
		ev.Start = "far"
		if nearStart {
			ev.Start = "near"
		}
		ev.Wellposed = nearStart && method != "bfgs"
		if weighted {
			ev.Cw = 1
		}
		wd.Begin(vh.M{"family": ev.Family, "seed": rseed})
		msg := vh.Try(func() {
			pdf, err := f.mk(rng)
			if nearStart {
				pdf, err = f.near(rng, x, w)
			}
			if err != nil {
				ev.Err = true
				return
			}
			est, err := scalarEstimator.NewNumericEstimator(pdf)
			if err != nil {
				ev.Err = true
				return
			}
			start := est.GetParameters().CloneVector()
			est.Method = method
			est.Epsilon = 1e-9
			if method == "rprop" {
				// sign-based steps cannot reach 1e-9: the run would end with "step size underflow"
				est.Epsilon = 1e-6
			}
			est.MaxIterations = 5000
			if err := est.EstimateOnData(NewDenseFloat64Vector(x), gamma, ThreadPool{}); err != nil {
				if os.Getenv("ESTIM_NUMDEBUG") != "" {
					fmt.Fprintln(os.Stderr, ev.Family, rseed, "error:", err)
				}
				ev.Err = true
				return
			}
			d, err := est.GetEstimate()
			if err != nil {
				ev.Err = true
				return
			}
			ev.Unmoved = true
			for k := 0; k < start.Dim(); k++ {
				if start.Float64At(k) != d.GetParameters().Float64At(k) {
					ev.Unmoved = false
				}
			}
			q := d.CloneScalarPdf()
			th := AsDenseReal64Vector(q.GetParameters())
			if err := th.Variables(1); err != nil {
				panic(err)
			}
			if err := q.SetParameters(th); err != nil {
				ev.Err = true
				return
			}
			t := NullReal64()
			g := make([]float64, th.Dim())
			for k := range x {
				if err := q.LogPdf(t, ConstFloat64(x[k])); err != nil {
					ev.Err = true
					return
				}
				for a := range g {
					g[a] += w[k] * t.GetDerivative(a)
				}
			}
			if os.Getenv("ESTIM_NUMDEBUG") != "" {
				fmt.Fprintln(os.Stderr, ev.Family, rseed, "weighted", weighted, "n", n, "start", start, "theta", d.GetParameters(), "grad", g)
			}
			gm := 0.0
			for _, v := range g {
				if math.IsNaN(v) {
					gm = math.Inf(1)
				}
				gm = math.Max(gm, math.Abs(v))
			}
			if gm*1e9 > 2e9 {
				ev.Gnorm = 2000000000
			} else {
				ev.Gnorm = int(gm * 1e9)
			}
		})
		wd.End()
		if msg != "" {
			vh.Mismatch(out, vh.M{"engine": "estim", "what": "panic", "scenario": ev.Family}, vh.M{"mode": "numeric", "seed": rseed, "panic": msg})
			ev.Err = true
		}
		trace.Put(ev)
		n0++
	}
	return n0
}

func record(args []string) {
	trace := vh.NewOut(args[0])
	defer trace.Close()
	out := vh.NewOut(args[1])
	defer out.Close()
	nruns, _ := strconv.Atoi(args[2])
	seed := int64(vh.EnvInt("VERIF_SEED", 1))
	only := os.Getenv("ESTIM_ONLY") // "scenario,seed,epsilonIdx,maxSteps"
	scs := emScenarios()
	epsOpts := []float64{1e-8, 1e-4, 1e-2}
	stepOpts := []int{-1, -1, 3, 8, 1}
	runs, events := 0, 0
	for i := 0; i < nruns; i++ {
		s := scs[i%len(scs)]
		rseed := seed*1000003 + int64(i)
		rng := rand.New(rand.NewSource(rseed))
		epsilon := epsOpts[rng.Intn(len(epsOpts))]
		maxSteps := stepOpts[rng.Intn(len(stepOpts))]
		if only != "" {
			var nm string
			var sd int64
			var ei, ms int
			if _, err := fmt.Sscanf(only, "%s %d %d %d", &nm, &sd, &ei, &ms); err != nil {
				vh.Fatal("bad ESTIM_ONLY")
			}
			found := false
			for _, c := range scs {
				if c.name == nm {
					s, found = c, true
				}
			}
			if !found {
				vh.Fatal("unknown scenario")
			}
			rseed, epsilon, maxSteps = sd, epsOpts[ei], ms
			rng = rand.New(rand.NewSource(rseed))
			rng.Intn(len(epsOpts))
			rng.Intn(len(stepOpts))
		}
		epsIdx := 0
		for k, e := range epsOpts {
			if e == epsilon {
				epsIdx = k
			}
		}
		out.Put(vh.M{"kind": "journal", "scenario": s.name, "seed": rseed, "eps_index": epsIdx, "maxsteps": maxSteps})
		out.Flush()
		evs := []emev{{E: "begin", Epsilon: sc(epsilon), Maxsteps: maxSteps, Scenario: s.name, Seed: rseed, I: epsIdx}}
		var final float64
		var err error
		post := []emev{}
		msg := vh.Try(func() {
			final, err = s.run(rng, epsilon, maxSteps, func(e emev) {
				if e.E == "twin" {
					// observed after the run has returned
					post = append(post, e)
					return
				}
				evs = append(evs, e)
				if len(evs) > maxIterations {
					panic(fmt.Sprintf("no convergence after %d iterations (last lik %d eps %d)", maxIterations, e.Lik, e.Eps))
				}
			})
		})
		if msg != "" && len(evs) > maxIterations {
			// still iterating (slow convergence is legitimate): the run is cut off by the recorder;
			// the recorded prefix is validated, the "abort" event tells the specification that the
			// run was ended from outside
			evs = append(evs[:maxIterations], emev{E: "abort"})
		} else if msg != "" {
			vh.Mismatch(out, vh.M{"engine": "estim", "what": "panic", "scenario": s.name},
				vh.M{"mode": "em", "scenario": s.name, "seed": rseed, "eps_index": epsIdx, "maxsteps": maxSteps, "panic": msg})
			evs = append(evs, emev{E: "return", Err: true})
		} else {
			evs = append(evs, emev{E: "return", Err: err != nil, Final: sc(final)})
			evs = append(evs, post...)
		}
		for _, e := range evs {
			trace.Put(e)
		}
		out.Put(vh.M{"kind": "em_run", "scenario": s.name, "seed": rseed, "eps_index": epsIdx, "maxsteps": maxSteps,
			"events": len(evs), "first_event": trace.N - len(evs) + 1, "error": err != nil})
		runs++
		events += len(evs)
		trace.Flush()
		out.Flush()
		if only != "" {
			break
		}
	}
	nnum := 0
	if only == "" {
		nnum = recordNumeric(trace, out, nruns/4+8, seed)
		nnum += recordNumericEstimator(trace, out, nruns/8+24, seed)
	}
	vh.Summary(out, vh.M{"runs": runs, "events": events + nnum, "numeric_runs": nnum})
}

func main() {
	if len(os.Args) < 2 {
		vh.Fatal("usage: estim replay|record ...")
	}
	switch os.Args[1] {
	case "replay":
		replay(os.Args[2:])
	case "replayvec":
		replayVec(os.Args[2:])
	case "record":
		record(os.Args[2:])
	default:
		vh.Fatal("unknown sub-command")
	}
}
