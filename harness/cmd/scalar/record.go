package main

import (
	"encoding/json"
	"fmt"
	"math"
	"math/rand"
	"os"
	"strconv"

	"verifharness/exprlib"
	"verifharness/vh"
)

// ---------------------------------------------------------------- recorder
//
// Seeded random programs, deeper than the exhaustive configurations, executed
// on the real scalars.  Two files are written:
//   trace.ndjson  one event per call with the DISCRETE observation (validated by
//                 spec/ScalarTrace.tla, which also rebuilds the expected terms)
//   obs.ndjson    the numbers observed after every call (compared by
//                 `scalar judge` with the terms TLC printed for that event)

type traceCall struct {
	Op string `json:"op"`
	R  int    `json:"r"`
	A  []int  `json:"a"`
	B  []int  `json:"b"`
	P  []int  `json:"p"`
}

type traceEvent struct {
	E     string          `json:"e"`
	T     int             `json:"t"`
	N     int             `json:"n"`
	Regs  [][]interface{} `json:"regs"`
	C     traceCall       `json:"c"`
	Nz    []bool          `json:"nz"`
	Hz    [][]bool        `json:"hz"`
	Sym   bool            `json:"sym"`
	Fr    bool            `json:"fr"`
	Ord   int             `json:"ord"`
	Nn    int             `json:"nn"`
	Order int             `json:"order"`
	Emit  bool            `json:"emit"`
}

type obsRecord struct {
	T    int        `json:"t"`
	K    int        `json:"k"` // 1-based index of the event in the trace file
	Inst inst       `json:"inst"`
	N    int        `json:"n"`
	X    []string   `json:"x"`
	Val  string     `json:"val"`
	Grad []string   `json:"grad"`
	Hess [][]string `json:"hess"`
	Ord  int        `json:"ord"`
	Nn   int        `json:"nn"`
	Prog string     `json:"prog"`
	Op   string     `json:"op"` // the call observed
}

type dy struct{ n, d int } // dyadic rational

func (q dy) f() float64 { return float64(q.n) / float64(q.d) }
func (q dy) term() []interface{} {
	return []interface{}{"q", q.n, q.d}
}

var recPoints = []dy{{1, 4}, {1, 2}, {3, 4}, {5, 4}, {3, 2}, {2, 1}, {-1, 2}, {-5, 4}, {5, 2}}
var recConsts = []dy{{1, 2}, {3, 2}, {2, 1}, {-3, 4}, {5, 4}, {3, 1}, {1, 4}}
var recKinds = []string{"const", "plain", "magic0"}

type opSpec struct {
	name  string
	arity int // 1, 2; 0 = vector
	par   []dy
}

var recOps = []opSpec{
	{"Neg", 1, nil}, {"Abs", 1, nil}, {"Sqrt", 1, nil}, {"Sin", 1, nil}, {"Sinh", 1, nil}, {"Cos", 1, nil},
	{"Cosh", 1, nil}, {"Tan", 1, nil}, {"Tanh", 1, nil}, {"Exp", 1, nil}, {"Log", 1, nil}, {"Log1p", 1, nil},
	{"Log1pExp", 1, nil}, {"Logistic", 1, nil}, {"Sigmoid", 1, nil}, {"Erf", 1, nil}, {"Erfc", 1, nil}, {"LogErfc", 1, nil},
	{"Gamma", 1, nil}, {"Lgamma", 1, nil},
	{"Add", 2, nil}, {"Sub", 2, nil}, {"Mul", 2, nil}, {"Div", 2, nil}, {"Pow", 2, nil}, {"Min", 2, nil}, {"Max", 2, nil},
	{"LogAdd", 2, nil}, {"LogSub", 2, nil},
	{"Add", 2, nil}, {"Sub", 2, nil}, {"Mul", 2, nil}, {"Div", 2, nil}, {"Mul", 2, nil}, // arithmetic glue more often
	{"Mlgamma", 1, []dy{{1, 1}, {2, 1}, {3, 1}}}, {"GammaP", 1, []dy{{5, 2}, {1, 1}, {9, 8}}},
	{"BesselI", 1, []dy{{0, 1}, {1, 1}, {1, 2}, {5, 2}}}, {"LogBesselI", 1, []dy{{0, 1}, {2, 1}, {1, 2}}},
	{"Activate", -1, nil}, {"Activate", -1, nil},
	{"Vmean", 0, nil}, {"VdotV", 0, nil}, {"Vnorm", 0, nil}, {"SmoothMax", 0, []dy{{2, 1}, {1, 2}}},
	{"LogSmoothMax", 0, []dy{{2, 1}, {1, 2}}},
}

// domainOK decides from the current operand values whether the call stays
// well inside the operation's domain (input selection only; not an oracle).
func domainOK(op string, par float64, v []float64, w []float64) bool {
	a := v[0]
	b := 0.0
	if len(v) > 1 {
		b = v[1]
	}
	switch op {
	case "Sqrt", "Log":
		return a > 0.05 && a < 1e4
	case "Log1p":
		return a > -0.9 && a < 1e4
	case "Exp", "Sinh", "Cosh":
		return math.Abs(a) < 6
	case "Tan":
		return math.Abs(math.Cos(a)) > 0.2 && math.Abs(a) < 20
	case "Sin", "Cos":
		return math.Abs(a) < 50
	case "Log1pExp", "Logistic", "Sigmoid":
		return math.Abs(a) < 30
	case "Erf", "Erfc":
		return math.Abs(a) < 3
	case "LogErfc":
		return a > -3 && a < 4
	case "Gamma", "Lgamma":
		return a > 0.1 && a < 6
	case "Mlgamma":
		return a > (par-1)/2+0.1 && a < 6
	case "GammaP":
		return a > 0.05 && a < 20
	case "BesselI", "LogBesselI":
		return a > 0.05 && a < 10
	case "Abs":
		return math.Abs(a) > 1e-3
	case "Div":
		return math.Abs(b) > 0.1
	case "Pow":
		return a > 0.1 && a < 8 && math.Abs(b) < 3
	case "Min", "Max":
		return math.Abs(a-b) > 1e-3
	case "LogAdd":
		return math.Abs(a) < 30 && math.Abs(b) < 30
	case "LogSub":
		return a > b+0.1 && math.Abs(a) < 30 && math.Abs(b) < 30
	case "SmoothMax":
		for _, x := range v {
			if math.Abs(par*x) > 20 {
				return false
			}
		}
	case "LogSmoothMax":
		for _, x := range v {
			if x < 0.05 || par*x > 20 {
				return false
			}
		}
	case "Vnorm":
		s := 0.0
		for _, x := range v {
			s += x * x
		}
		return s > 0.01
	}
	return true
}

func recordMain(args []string) {
	if len(args) < 5 {
		vh.Fatal("usage: scalar record trace.ndjson obs.ndjson ntraces mindepth maxdepth")
	}
	ntr, _ := strconv.Atoi(args[2])
	mind, _ := strconv.Atoi(args[3])
	maxd, _ := strconv.Atoi(args[4])
	seed := int64(vh.EnvInt("VERIF_SEED", 1))
	tout := vh.NewOut(args[0])
	defer tout.Close()
	oout := vh.NewOut(args[1])
	defer oout.Close()
	nev := 0
	stat := map[string]int{}
	for tr := 1; tr <= ntr; tr++ {
		rng := rand.New(rand.NewSource(seed*1000003 + int64(tr)))
		n := 1 + rng.Intn(3)
		in := inst{Type: []string{"Real64", "Real32"}[rng.Intn(2)], Order: 1 + rng.Intn(2), Mode: "generic",
			Storage: []string{"dense", "sparse"}[rng.Intn(2)],
			Act:     []string{"setvariable", "variables", "resetset"}[rng.Intn(3)]}
		const nt = 2
		nc := 3
		desc := []regDesc{}
		regsJSON := [][]interface{}{}
		point := []float64{}
		for i := 1; i <= n; i++ {
			q := recPoints[rng.Intn(len(recPoints))]
			point = append(point, q.f())
			t, _ := exprlib.FromValue([]interface{}{"x", float64(i)})
			desc = append(desc, regDesc{"var", t})
			regsJSON = append(regsJSON, []interface{}{"var", []interface{}{"x", i}})
		}
		for i := 0; i < nt; i++ {
			t, _ := exprlib.FromValue([]interface{}{"q", 0.0, 1.0})
			desc = append(desc, regDesc{"tmp", t})
			regsJSON = append(regsJSON, []interface{}{"tmp", []interface{}{"q", 0, 1}})
		}
		for i := 0; i < nc; i++ {
			q := recConsts[rng.Intn(len(recConsts))]
			kind := recKinds[rng.Intn(len(recKinds))]
			t, _ := exprlib.FromValue([]interface{}{"q", float64(q.n), float64(q.d)})
			desc = append(desc, regDesc{kind, t})
			regsJSON = append(regsJSON, []interface{}{kind, q.term()})
		}
		m, err := newMachine(in, n, desc, point)
		if err != nil {
			vh.Fatal("record:", err)
		}
		nev++
		tout.Put(traceEvent{E: "reset", T: tr, N: n, Regs: regsJSON, C: traceCall{Op: "-", A: []int{}, B: []int{}, P: []int{}},
			Nz: []bool{}, Hz: [][]bool{}, Order: in.Order})
		depth := mind + rng.Intn(maxd-mind+1)
		written := map[int]bool{}
		size := make([]int, len(desc)+1)
		for i := range size {
			size[i] = 1
		}
		hist := []step{}
		steps := 0
		for attempt := 0; attempt < 60*depth && steps < depth; attempt++ {
			sp := recOps[rng.Intn(len(recOps))]
			r := n + 1 + rng.Intn(nt)
			operands := []int{}
			for i := 1; i <= n; i++ {
				operands = append(operands, i)
			}
			for i := n + nt + 1; i <= n+nt+nc; i++ {
				operands = append(operands, i)
			}
			for i := n + 1; i <= n+nt; i++ {
				if i != r && written[i] {
					// prefer building on earlier results
					operands = append(operands, i, i, i)
				}
			}
			pick := func() int { return operands[rng.Intn(len(operands))] }
			s := step{Op: sp.name, R: r, A: []int{}, B: []int{}, P: []float64{}}
			var par dy
			if sp.par != nil {
				par = sp.par[rng.Intn(len(sp.par))]
				s.P = []float64{float64(par.n), float64(par.d)}
			}
			switch sp.arity {
			case 1:
				s.A = []int{pick()}
			case 2:
				s.A = []int{pick(), pick()}
			case -1:
				// re-activation of the temporary as variable i (only once it holds a result, mostly)
				if !written[r] {
					continue
				}
				s.P = []float64{float64(1 + rng.Intn(n))}
			case 0:
				ln := 2 + rng.Intn(2)
				for i := 0; i < ln; i++ {
					s.A = append(s.A, pick())
				}
				if sp.name == "VdotV" {
					for i := 0; i < ln; i++ {
						s.B = append(s.B, pick())
					}
				}
			}
			sz := 1
			vals := []float64{}
			for _, k := range s.A {
				sz += size[k]
				vals = append(vals, m.regs[k].GetFloat64())
			}
			wvals := []float64{}
			for _, k := range s.B {
				sz += size[k]
				wvals = append(wvals, m.regs[k].GetFloat64())
			}
			if sz > 36 {
				continue
			}
			parf := 0.0
			if sp.par != nil {
				parf = par.f()
			}
			if sp.arity >= 0 && !domainOK(sp.name, parf, vals, wvals) {
				continue
			}
			m.stepNo = len(hist) + 1
			// preview on a scratch receiver: keep magnitudes moderate and all slots finite
			saved := m.magic[r]
			m.magic[r] = newReal(in.Type, 0)
			savedReg := m.regs[r]
			m.regs[r] = m.magic[r]
			var pv jetObs
			msg := vh.Try(func() {
				if sp.arity < 0 {
					return // nothing to preview: a re-activation keeps the value
				}
				if err := m.exec(s); err != nil {
					panic("harness: " + err.Error())
				}
				pv = observe(m.regs[r], n)
			})
			m.magic[r], m.regs[r] = saved, savedReg
			if msg != "" {
				if len(msg) > 8 && msg[:8] == "harness:" {
					vh.Fatal(msg)
				}
				// a panic inside the domain is recorded as an event the specification cannot explain
				tout.Put(traceEvent{E: "panic:" + msg, T: tr, C: traceCall{Op: s.Op, R: s.R, A: s.A, B: s.B, P: []int{}},
					Nz: []bool{}, Hz: [][]bool{}, Regs: [][]interface{}{}})
				nev++
				break
			}
			if sp.arity < 0 {
				pv = jetObs{Val: 1}
			}
			if !finite(pv.Val) || math.Abs(pv.Val) > 1e5 || (pv.Val != 0 && math.Abs(pv.Val) < 1e-5) || !pv.slotsFinite() {
				continue
			}
			// the real call, with the frame observation
			before := make([]jetObs, len(m.regs))
			for i := 1; i < len(m.regs); i++ {
				if i != r {
					if m.magic[i] != nil {
						before[i] = observeSafe(m.regs[i], n)
					} else {
						before[i] = jetObs{Val: m.regs[i].GetFloat64()}
					}
				}
			}
			if err := m.exec(s); err != nil {
				vh.Fatal(err)
			}
			frame := true
			for i := 1; i < len(m.regs); i++ {
				if i != r {
					var after jetObs
					if m.magic[i] != nil {
						after = observeSafe(m.regs[i], n)
					} else {
						after = jetObs{Val: m.regs[i].GetFloat64()}
					}
					if !before[i].equal(after) {
						frame = false
					}
				}
			}
			o := observe(m.regs[r], n)
			steps++
			written[r] = true
			size[r] = sz
			hist = append(hist, s)
			stat[s.Op]++
			ev := traceEvent{E: "op", T: tr, N: n, Regs: [][]interface{}{}, Sym: true, Fr: frame, Ord: o.Order, Nn: o.N,
				Order: in.Order, Emit: true}
			ev.C = traceCall{Op: s.Op, R: s.R, A: s.A, B: s.B, P: []int{}}
			for _, p := range s.P {
				ev.C.P = append(ev.C.P, int(p))
			}
			ev.Nz = make([]bool, n)
			ev.Hz = make([][]bool, n)
			for i := 0; i < n; i++ {
				ev.Nz[i] = o.Grad[i] != 0
				ev.Hz[i] = make([]bool, n)
				for j := 0; j < n; j++ {
					ev.Hz[i][j] = o.Hess[i][j] != 0
					if !sameFloat(o.Hess[i][j], o.Hess[j][i]) {
						ev.Sym = false
					}
				}
			}
			nev++
			tout.Put(ev)
			rec := obsRecord{T: tr, K: nev, Inst: in, N: n, X: numStrs(trimX(m.x, n)), Val: numStr(o.Val), Ord: o.Order,
				Nn: o.N, Prog: progString(hist), Op: s.Op}
			rec.Grad = numStrs(o.Grad)
			for i := range o.Hess {
				rec.Hess = append(rec.Hess, numStrs(o.Hess[i]))
			}
			oout.Put(rec)
		}
	}
	b, _ := json.Marshal(stat)
	fmt.Fprintf(os.Stderr, "recorded %d events in %d traces; ops %s\n", nev, ntr, b)
}
