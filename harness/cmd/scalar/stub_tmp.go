package main

func recordMain(a []string) {}
func judgeMain(a []string)  {}
func opsMain(a []string)    {}
