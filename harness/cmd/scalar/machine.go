package main

import (
	"encoding/json"
	"fmt"
	"math"

	. "github.com/pbenner/autodiff"
	"verifharness/exprlib"
	"verifharness/vh"
)

// step is one call  r.Op(...)  of a program (spec/ScalarMachine.tla, Call).
type step struct {
	Op string    `json:"op"`
	R  int       `json:"r"`
	A  []int     `json:"a"`
	B  []int     `json:"b"`
	P  []float64 `json:"p"`
}

// regDesc describes one register: kind and initial constant.
type regDesc struct {
	Kind string
	Init *exprlib.Term
}

// inst is one instantiation of an abstract program.
type inst struct {
	Type    string `json:"type"`    // Real64 | Real32
	Order   int    `json:"order"`   // 1 | 2
	Mode    string `json:"mode"`    // generic | concrete
	Storage string `json:"storage"` // dense | sparse (containers of the reductions)
	Act     string `json:"act"`     // how a scalar is re-activated: setvariable | variables | resetset ("" = program has no re-activation)
}

func unitRoundoff(typ string) float64 {
	if typ == "Real32" {
		return math.Ldexp(1, -23)
	}
	return math.Ldexp(1, -52)
}

func scalarType(typ string) ScalarType {
	if typ == "Real32" {
		return Real32Type
	}
	return Real64Type
}

func newReal(typ string, v float64) MagicScalar {
	if typ == "Real32" {
		return NewReal32(float32(v))
	}
	return NewReal64(v)
}

// operations that exist as type-specific CAPITAL methods
var concreteOps = map[string]bool{
	"Min": true, "Max": true, "Abs": true, "Neg": true, "Add": true, "Sub": true, "Mul": true, "Div": true,
	"LogAdd": true, "LogSub": true, "Pow": true, "Sqrt": true, "Exp": true, "Log": true, "Log1p": true,
	"Activate": true, // not a math method: re-activation is the same call in both method families
}

func hasActivate(h []step) bool {
	for _, s := range h {
		if s.Op == "Activate" {
			return true
		}
	}
	return false
}

var reductionOps = map[string]bool{
	"Vmean": true, "VdotV": true, "Vnorm": true, "SmoothMax": true, "LogSmoothMax": true, "Mtrace": true, "Mnorm": true,
}

func hasReduction(h []step) bool {
	for _, s := range h {
		if reductionOps[s.Op] {
			return true
		}
	}
	return false
}

func allConcrete(h []step) bool {
	for _, s := range h {
		if !concreteOps[s.Op] {
			return false
		}
	}
	return true
}

// machine is the register file of one execution.
type machine struct {
	in      inst
	n       int
	regs    []ConstScalar // operand view of every register (index 0 unused)
	magic   []MagicScalar // nil for non-magic registers
	kinds   []string
	scratch [3]Scalar
	x       []float64 // actual values of the variables after activation; from exprlib.ZBase on: re-activated leaves
	vars    []MagicScalar
	stepNo  int // 1-based index of the call being executed (names the leaf of a re-activation)
	actSame int // re-activations of a scalar that already stored n partial derivatives of the same order
	actNew  int // ... of a scalar with a different shape (order 0, N = 0)
}

// maxCalls bounds the length of a program (room for the values of re-activated leaves)
const maxCalls = 64

func constValue(t *exprlib.Term) float64 {
	env := exprlib.NewEnv(nil, 0, 1)
	return env.Eval(t).V
}

func newMachine(in inst, n int, desc []regDesc, point []float64) (*machine, error) {
	m := &machine{in: in, n: n}
	m.regs = make([]ConstScalar, len(desc)+1)
	m.magic = make([]MagicScalar, len(desc)+1)
	m.kinds = make([]string, len(desc)+1)
	vars := []MagicScalar{}
	for k, d := range desc {
		i := k + 1
		m.kinds[i] = d.Kind
		switch d.Kind {
		case "var":
			if len(vars) >= len(point) {
				return nil, fmt.Errorf("point has too few coordinates")
			}
			v := newReal(in.Type, point[len(vars)])
			vars = append(vars, v)
			m.regs[i], m.magic[i] = v, v
		case "tmp":
			v := newReal(in.Type, 0)
			m.regs[i], m.magic[i] = v, v
		case "magic0":
			v := newReal(in.Type, constValue(d.Init))
			m.regs[i], m.magic[i] = v, v
		case "const":
			if in.Mode == "concrete" {
				v := newReal(in.Type, constValue(d.Init))
				m.regs[i], m.magic[i] = v, v
			} else {
				m.regs[i] = ConstFloat64(constValue(d.Init))
			}
		case "plain":
			if in.Mode == "concrete" {
				v := newReal(in.Type, constValue(d.Init))
				m.regs[i], m.magic[i] = v, v
			} else if in.Type == "Real32" {
				m.regs[i] = NewFloat32(float32(constValue(d.Init)))
			} else {
				m.regs[i] = NewFloat64(constValue(d.Init))
			}
		default:
			return nil, fmt.Errorf("unknown register kind %q", d.Kind)
		}
	}
	if len(vars) != n {
		return nil, fmt.Errorf("case declares n=%d but has %d variable registers", n, len(vars))
	}
	if err := Variables(in.Order, vars...); err != nil {
		return nil, err
	}
	m.vars = vars
	m.x = make([]float64, exprlib.ZBase+maxCalls)
	if n > exprlib.ZBase {
		return nil, fmt.Errorf("too many variables")
	}
	for i, v := range vars {
		m.x[i] = v.GetFloat64()
	}
	for i := range m.scratch {
		m.scratch[i] = newReal(in.Type, 0)
	}
	return m, nil
}

// buildVector copies registers into a fresh vector of the scalar type under test.
func (m *machine) buildVector(idx []int) Vector {
	var v Vector
	if m.in.Storage == "sparse" {
		v = NullSparseVector(scalarType(m.in.Type), len(idx))
	} else {
		v = NullDenseVector(scalarType(m.in.Type), len(idx))
	}
	for i, k := range idx {
		v.At(i).Set(m.regs[k])
	}
	return v
}

func (m *machine) buildMatrix(idx []int, rows, cols int) Matrix {
	var a Matrix
	if m.in.Storage == "sparse" {
		a = NullSparseMatrix(scalarType(m.in.Type), rows, cols)
	} else {
		a = NullDenseMatrix(scalarType(m.in.Type), rows, cols)
	}
	for i := 0; i < rows; i++ {
		for j := 0; j < cols; j++ {
			a.At(i, j).Set(m.regs[idx[i*cols+j]])
		}
	}
	return a
}

type logBesselIer interface {
	LogBesselI(float64, ConstScalar) Scalar
}

// exec performs one call on the real library.
func (m *machine) exec(s step) error {
	if s.R < 1 || s.R >= len(m.magic) || m.magic[s.R] == nil {
		return fmt.Errorf("receiver %d is not a magic register", s.R)
	}
	r := m.magic[s.R]
	arg := func(i int) ConstScalar { return m.regs[s.A[i]] }
	if s.Op == "Activate" {
		return m.activate(s)
	}
	if m.in.Mode == "concrete" {
		return m.execConcrete(s)
	}
	switch s.Op {
	case "Neg":
		r.Neg(arg(0))
	case "Abs":
		r.Abs(arg(0))
	case "Sqrt":
		r.Sqrt(arg(0))
	case "Sin":
		r.Sin(arg(0))
	case "Sinh":
		r.Sinh(arg(0))
	case "Cos":
		r.Cos(arg(0))
	case "Cosh":
		r.Cosh(arg(0))
	case "Tan":
		r.Tan(arg(0))
	case "Tanh":
		r.Tanh(arg(0))
	case "Exp":
		r.Exp(arg(0))
	case "Log":
		r.Log(arg(0))
	case "Log1p":
		r.Log1p(arg(0))
	case "Log1pExp":
		r.Log1pExp(arg(0))
	case "Logistic":
		r.Logistic(arg(0))
	case "Sigmoid":
		r.Sigmoid(arg(0), m.scratch[0])
	case "Erf":
		r.Erf(arg(0))
	case "Erfc":
		r.Erfc(arg(0))
	case "LogErfc":
		r.LogErfc(arg(0))
	case "Gamma":
		r.Gamma(arg(0))
	case "Lgamma":
		r.Lgamma(arg(0))
	case "Add":
		r.Add(arg(0), arg(1))
	case "Sub":
		r.Sub(arg(0), arg(1))
	case "Mul":
		r.Mul(arg(0), arg(1))
	case "Div":
		r.Div(arg(0), arg(1))
	case "Pow":
		r.Pow(arg(0), arg(1))
	case "Min":
		r.Min(arg(0), arg(1))
	case "Max":
		r.Max(arg(0), arg(1))
	case "LogAdd":
		r.LogAdd(arg(0), arg(1), m.scratch[0])
	case "LogSub":
		r.LogSub(arg(0), arg(1), m.scratch[0])
	case "Mlgamma":
		r.Mlgamma(arg(0), int(s.P[0]))
	case "GammaP":
		r.GammaP(s.P[0]/s.P[1], arg(0))
	case "BesselI":
		r.BesselI(s.P[0]/s.P[1], arg(0))
	case "LogBesselI":
		lb, ok := r.(logBesselIer)
		if !ok {
			return fmt.Errorf("type has no LogBesselI")
		}
		lb.LogBesselI(s.P[0]/s.P[1], arg(0))
	case "Vmean":
		r.Vmean(m.buildVector(s.A))
	case "Vnorm":
		r.Vnorm(m.buildVector(s.A))
	case "VdotV":
		r.VdotV(m.buildVector(s.A), m.buildVector(s.B))
	case "SmoothMax":
		r.SmoothMax(m.buildVector(s.A), ConstFloat64(s.P[0]/s.P[1]), [2]Scalar{m.scratch[0], m.scratch[1]})
	case "LogSmoothMax":
		r.LogSmoothMax(m.buildVector(s.A), ConstFloat64(s.P[0]/s.P[1]), [3]Scalar{m.scratch[0], m.scratch[1], m.scratch[2]})
	case "Mtrace":
		r.Mtrace(m.buildMatrix(s.A, int(s.P[0]), int(s.P[1])))
	case "Mnorm":
		r.Mnorm(m.buildMatrix(s.A, int(s.P[0]), int(s.P[1])))
	default:
		return fmt.Errorf("operation %q is not bound to the library", s.Op)
	}
	return nil
}

// activate re-declares register s.R as variable s.P[0] (1-based) of n.
func (m *machine) activate(s step) error {
	if len(s.P) != 1 || int(s.P[0]) < 1 || int(s.P[0]) > m.n {
		return fmt.Errorf("bad variable index in Activate")
	}
	if m.stepNo < 1 || m.stepNo > maxCalls {
		return fmt.Errorf("program too long for re-activation (%d)", m.stepNo)
	}
	r := m.magic[s.R]
	i := int(s.P[0]) - 1
	val := r.GetFloat64()
	same := r.GetN() == m.n && r.GetOrder() == m.in.Order
	if same {
		m.actSame++
	} else {
		m.actNew++
	}
	switch m.in.Act {
	case "variables":
		// Variables(order, x_1, .., r at position i, .., x_n)
		list := append([]MagicScalar{}, m.vars...)
		list[i] = r
		if err := Variables(m.in.Order, list...); err != nil {
			return err
		}
	case "resetset":
		if same {
			r.ResetDerivatives()
			r.SetDerivative(i, 1)
		} else if err := r.SetVariable(i, m.n, m.in.Order); err != nil { // no storage to reset yet
			return err
		}
	default:
		if err := r.SetVariable(i, m.n, m.in.Order); err != nil {
			return err
		}
	}
	m.x[exprlib.ZBase+m.stepNo-1] = val // the leaf keeps the value the scalar held
	return nil
}

func (m *machine) execConcrete(s step) error {
	if m.in.Type == "Real32" {
		r := m.magic[s.R].(*Real32)
		a := func(i int) *Real32 { return m.regs[s.A[i]].(*Real32) }
		t := m.scratch[0].(*Real32)
		switch s.Op {
		case "Min":
			r.MIN(a(0), a(1))
		case "Max":
			r.MAX(a(0), a(1))
		case "Abs":
			r.ABS(a(0))
		case "Neg":
			r.NEG(a(0))
		case "Add":
			r.ADD(a(0), a(1))
		case "Sub":
			r.SUB(a(0), a(1))
		case "Mul":
			r.MUL(a(0), a(1))
		case "Div":
			r.DIV(a(0), a(1))
		case "LogAdd":
			r.LOGADD(a(0), a(1), t)
		case "LogSub":
			r.LOGSUB(a(0), a(1), t)
		case "Pow":
			r.POW(a(0), a(1))
		case "Sqrt":
			r.SQRT(a(0))
		case "Exp":
			r.EXP(a(0))
		case "Log":
			r.LOG(a(0))
		case "Log1p":
			r.LOG1P(a(0))
		default:
			return fmt.Errorf("no concrete method for %q", s.Op)
		}
		return nil
	}
	r := m.magic[s.R].(*Real64)
	a := func(i int) *Real64 { return m.regs[s.A[i]].(*Real64) }
	t := m.scratch[0].(*Real64)
	switch s.Op {
	case "Min":
		r.MIN(a(0), a(1))
	case "Max":
		r.MAX(a(0), a(1))
	case "Abs":
		r.ABS(a(0))
	case "Neg":
		r.NEG(a(0))
	case "Add":
		r.ADD(a(0), a(1))
	case "Sub":
		r.SUB(a(0), a(1))
	case "Mul":
		r.MUL(a(0), a(1))
	case "Div":
		r.DIV(a(0), a(1))
	case "LogAdd":
		r.LOGADD(a(0), a(1), t)
	case "LogSub":
		r.LOGSUB(a(0), a(1), t)
	case "Pow":
		r.POW(a(0), a(1))
	case "Sqrt":
		r.SQRT(a(0))
	case "Exp":
		r.EXP(a(0))
	case "Log":
		r.LOG(a(0))
	case "Log1p":
		r.LOG1P(a(0))
	default:
		return fmt.Errorf("no concrete method for %q", s.Op)
	}
	return nil
}

// jetObs is what can be read off a scalar through the public API.
type jetObs struct {
	Val   float64
	Order int
	N     int
	Grad  []float64
	Hess  [][]float64
}

// numStr renders a float for JSON output (NaN and infinities are not JSON numbers).
func numStr(x float64) string { return fmt.Sprintf("%.17g", x) }

func (o jetObs) MarshalJSON() ([]byte, error) {
	g := make([]string, len(o.Grad))
	h := make([][]string, len(o.Hess))
	for i := range o.Grad {
		g[i] = numStr(o.Grad[i])
		h[i] = make([]string, len(o.Hess[i]))
		for j := range o.Hess[i] {
			h[i][j] = numStr(o.Hess[i][j])
		}
	}
	return json.Marshal(map[string]interface{}{"val": numStr(o.Val), "order": o.Order, "n": o.N, "grad": g, "hess": h})
}

// observe reads value, gradient and Hessian (n slots) of a scalar.
func observe(s ConstScalar, n int) jetObs {
	o := jetObs{Val: s.GetFloat64(), Order: s.GetOrder(), N: s.GetN()}
	o.Grad = make([]float64, n)
	o.Hess = make([][]float64, n)
	for i := 0; i < n; i++ {
		o.Hess[i] = make([]float64, n)
	}
	if o.Order >= 1 && o.N < n {
		panic(fmt.Sprintf("scalar of order %d stores %d partial derivatives, %d variables are active", o.Order, o.N, n))
	}
	for i := 0; i < n; i++ {
		o.Grad[i] = s.GetDerivative(i)
		for j := 0; j < n; j++ {
			o.Hess[i][j] = s.GetHessian(i, j)
		}
	}
	return o
}

func finite(x float64) bool { return !math.IsNaN(x) && !math.IsInf(x, 0) }

func (o jetObs) slotsFinite() bool {
	for i := range o.Grad {
		if !finite(o.Grad[i]) {
			return false
		}
		for j := range o.Hess[i] {
			if !finite(o.Hess[i][j]) {
				return false
			}
		}
	}
	return true
}

func sameFloat(a, b float64) bool {
	return a == b || (math.IsNaN(a) && math.IsNaN(b))
}

func (o jetObs) equal(p jetObs) bool {
	if !sameFloat(o.Val, p.Val) || o.Order != p.Order || o.N != p.N {
		return false
	}
	for i := range o.Grad {
		if !sameFloat(o.Grad[i], p.Grad[i]) {
			return false
		}
		for j := range o.Hess[i] {
			if !sameFloat(o.Hess[i][j], p.Hess[i][j]) {
				return false
			}
		}
	}
	return true
}

// runResult is the outcome of one execution of a program.
type runResult struct {
	Obs        jetObs
	X          []float64
	Panic      string
	PanicStep  int
	InterOK    bool   // every slot of every intermediate result was finite
	ActSame    int    // re-activations of a scalar holding a result of the same shape (n, order)
	ActNew     int    // re-activations of a scalar of a different shape
	FrameBreak string // non-empty: a register other than the receiver changed
	Helper     string // non-empty: GetGradient/GetHessian/CopyGradient/CopyHessian disagree with the slots
}

// checkHelpers compares the gradient / Hessian helper functions of scalar.go
// with the derivative slots read one by one.
func checkHelpers(x ConstScalar) string {
	n := x.GetN()
	g := GetGradient(Float64Type, x)
	H := GetHessian(Float64Type, x)
	g2 := NullDenseVector(Real64Type, n)
	H2 := NullDenseMatrix(Real64Type, n, n)
	if err := CopyGradient(g2, x); err != nil {
		return "CopyGradient: " + err.Error()
	}
	if err := CopyHessian(H2, x); err != nil {
		return "CopyHessian: " + err.Error()
	}
	if g.Dim() != n {
		return fmt.Sprintf("GetGradient has dimension %d, scalar stores %d partial derivatives", g.Dim(), n)
	}
	if r, c := H.Dims(); r != n || c != n {
		return fmt.Sprintf("GetHessian has dimensions %dx%d, scalar stores %d partial derivatives", r, c, n)
	}
	for i := 0; i < n; i++ {
		d := x.GetDerivative(i)
		if !sameFloat(g.ConstAt(i).GetFloat64(), d) || !sameFloat(g2.ConstAt(i).GetFloat64(), d) {
			return fmt.Sprintf("gradient helper differs from GetDerivative(%d)", i)
		}
		for j := 0; j < n; j++ {
			h := x.GetHessian(i, j)
			if !sameFloat(H.ConstAt(i, j).GetFloat64(), h) || !sameFloat(H2.ConstAt(i, j).GetFloat64(), h) {
				return fmt.Sprintf("Hessian helper differs from GetHessian(%d,%d)", i, j)
			}
		}
	}
	return ""
}

// run executes the program and observes the last receiver.
func run(in inst, n int, desc []regDesc, hist []step, point []float64) (res runResult) {
	res.InterOK = true
	res.PanicStep = -1
	var m *machine
	msg := vh.Try(func() {
		var err error
		m, err = newMachine(in, n, desc, point)
		if err != nil {
			panic("harness: " + err.Error())
		}
	})
	if msg != "" {
		res.Panic = msg
		return
	}
	res.X = m.x
	for k, s := range hist {
		// frame: registers other than the receiver must not change
		before := make([]jetObs, len(m.regs))
		for i := 1; i < len(m.regs); i++ {
			if i != s.R {
				if m.magic[i] != nil {
					before[i] = observeSafe(m.regs[i], n)
				} else {
					before[i] = jetObs{Val: m.regs[i].GetFloat64()}
				}
			}
		}
		m.stepNo = k + 1
		msg := vh.Try(func() {
			if err := m.exec(s); err != nil {
				panic("harness: " + err.Error())
			}
		})
		res.ActSame, res.ActNew = m.actSame, m.actNew
		if msg != "" {
			res.Panic, res.PanicStep = msg, k
			return
		}
		for i := 1; i < len(m.regs); i++ {
			if i != s.R {
				var after jetObs
				if m.magic[i] != nil {
					after = observeSafe(m.regs[i], n)
				} else {
					after = jetObs{Val: m.regs[i].GetFloat64()}
				}
				if !before[i].equal(after) && res.FrameBreak == "" {
					res.FrameBreak = fmt.Sprintf("step %d (%s) changed register %d (%s)", k, s.Op, i, m.kinds[i])
				}
			}
		}
		msg = vh.Try(func() {
			o := observe(m.regs[s.R], n)
			if !o.slotsFinite() {
				res.InterOK = false
			}
			if k == len(hist)-1 {
				res.Obs = o
				if in.Order == 2 && in.Mode == "generic" && in.Storage == "dense" {
					res.Helper = checkHelpers(m.regs[s.R])
				}
			}
		})
		if msg != "" {
			res.Panic, res.PanicStep = "observation: "+msg, k
			return
		}
	}
	return
}

// observeSafe tolerates registers whose N is smaller than n (order 0 registers).
func observeSafe(s ConstScalar, n int) jetObs {
	k := n
	if s.GetOrder() >= 1 && s.GetN() < n {
		k = s.GetN()
	}
	return observe(s, k)
}
