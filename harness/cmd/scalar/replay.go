package main

import (
	"bytes"
	"encoding/json"
	"fmt"
	"math"
	"os"
	"runtime"
	"sort"
	"strings"
	"sync"
	"time"

	"verifharness/exprlib"
	"verifharness/vh"
)

// tolerance = tolK * (running error bound of the expected term at unit roundoff u) + floor
const tolK = 16.0

type rawJet struct {
	Val  json.RawMessage     `json:"val"`
	Grad []json.RawMessage   `json:"grad"`
	Hess [][]json.RawMessage `json:"hess"`
}

type rawCase struct {
	Fam  string              `json:"fam"`
	N    int                 `json:"n"`
	D    int                 `json:"d"`
	Regs [][]json.RawMessage `json:"regs"`
	Hist []step              `json:"hist"`
	Pts1 [][]float64         `json:"pts1"`
	Pts2 [][]float64         `json:"pts2"`
	Pts  [][]float64         `json:"pts"` // explicit point list (replay of one violation)
	Val  json.RawMessage     `json:"val"`
	Grad []json.RawMessage   `json:"grad"`
	Hess [][]json.RawMessage `json:"hess"`
	Dep  []bool              `json:"dep"`
	Grd  []json.RawMessage   `json:"guard"`
	Alt  []rawJet            `json:"alt"`
}

type jetTerms struct {
	Val  *exprlib.Term
	Grad []*exprlib.Term
	Hess [][]*exprlib.Term
}

type pcase struct {
	raw  json.RawMessage
	c    rawCase
	desc []regDesc
	jet  jetTerms
	alt  *jetTerms
	grd  []*exprlib.Term
	pts  [][]float64
}

func parseJet(n int, val json.RawMessage, grad []json.RawMessage, hess [][]json.RawMessage) (jetTerms, error) {
	var j jetTerms
	var err error
	if j.Val, err = exprlib.Parse(val); err != nil {
		return j, err
	}
	if len(grad) != n || len(hess) != n {
		return j, fmt.Errorf("gradient/Hessian size does not match n=%d", n)
	}
	j.Grad = make([]*exprlib.Term, n)
	j.Hess = make([][]*exprlib.Term, n)
	for i := 0; i < n; i++ {
		if j.Grad[i], err = exprlib.Parse(grad[i]); err != nil {
			return j, err
		}
		if len(hess[i]) != n {
			return j, fmt.Errorf("Hessian row size")
		}
		j.Hess[i] = make([]*exprlib.Term, n)
		for k := 0; k < n; k++ {
			if j.Hess[i][k], err = exprlib.Parse(hess[i][k]); err != nil {
				return j, err
			}
		}
	}
	return j, nil
}

func parseDesc(regs [][]json.RawMessage) ([]regDesc, error) {
	desc := make([]regDesc, len(regs))
	for i, r := range regs {
		if len(r) != 2 {
			return nil, fmt.Errorf("bad register descriptor")
		}
		if err := json.Unmarshal(r[0], &desc[i].Kind); err != nil {
			return nil, err
		}
		t, err := exprlib.Parse(r[1])
		if err != nil {
			return nil, err
		}
		desc[i].Init = t
	}
	return desc, nil
}

func parseCase(line []byte) (*pcase, error) {
	p := &pcase{raw: append([]byte{}, bytes.TrimSpace(line)...)}
	if err := json.Unmarshal(line, &p.c); err != nil {
		return nil, err
	}
	c := &p.c
	var err error
	if p.desc, err = parseDesc(c.Regs); err != nil {
		return nil, err
	}
	if p.jet, err = parseJet(c.N, c.Val, c.Grad, c.Hess); err != nil {
		return nil, err
	}
	if len(c.Dep) != c.N {
		return nil, fmt.Errorf("dep size")
	}
	for _, g := range c.Grd {
		t, err := exprlib.Parse(g)
		if err != nil {
			return nil, err
		}
		p.grd = append(p.grd, t)
	}
	if len(c.Alt) > 0 {
		a, err := parseJet(c.N, c.Alt[0].Val, c.Alt[0].Grad, c.Alt[0].Hess)
		if err != nil {
			return nil, err
		}
		p.alt = &a
	}
	// evaluation points: explicit list, or pts1 x pts2^(n-1)
	if len(c.Pts) > 0 {
		p.pts = c.Pts
	} else {
		one := func(q []float64) float64 { return q[0] / q[1] }
		cur := [][]float64{}
		for _, q := range c.Pts1 {
			cur = append(cur, []float64{one(q)})
		}
		for k := 1; k < c.N; k++ {
			next := [][]float64{}
			for _, pt := range cur {
				for _, q := range c.Pts2 {
					next = append(next, append(append([]float64{}, pt...), one(q)))
				}
			}
			cur = next
		}
		p.pts = cur
	}
	return p, nil
}

func progString(h []step) string {
	parts := []string{}
	for _, s := range h {
		x := fmt.Sprintf("r%d.%s(%v", s.R, s.Op, s.A)
		if len(s.B) > 0 {
			x += fmt.Sprintf(",%v", s.B)
		}
		if len(s.P) > 0 {
			x += fmt.Sprintf(";%v", s.P)
		}
		parts = append(parts, x+")")
	}
	return strings.Join(parts, "; ")
}

// ---------------------------------------------------------------- comparison

type cmpOutcome int

const (
	cmpOK cmpOutcome = iota
	cmpBad
	cmpSkipUndefined
	cmpSkipRange
	cmpSkipTies
)

type cmpInfo struct {
	Expected float64
	Lo, Hi   float64 // admissible interval (differs from Expected at ties)
	Tol      float64
	Observed float64
	Ties     int
}

func (c cmpInfo) MarshalJSON() ([]byte, error) {
	return json.Marshal(map[string]interface{}{"expected": numStr(c.Expected), "lo": numStr(c.Lo), "hi": numStr(c.Hi),
		"tol": numStr(c.Tol), "observed": numStr(c.Observed), "ties": c.Ties})
}

// compare checks one observed number against one expected term.
func compare(t *exprlib.Term, x []float64, typ string, obs float64) (cmpOutcome, cmpInfo) {
	u := unitRoundoff(typ)
	env := exprlib.NewEnv(x, u, +1)
	r := env.Eval(t)
	info := cmpInfo{Expected: r.V, Lo: r.V, Hi: r.V, Observed: obs, Ties: len(env.Ties)}
	if !r.Finite() || env.Overflow {
		return cmpSkipUndefined, info
	}
	hi, lo := 1e290, 1e-290
	floor := 1e-300
	if typ == "Real32" {
		hi, lo = 1e30, 1e-30
		floor = 1e-37
	}
	if env.MaxAbs > hi || env.MinAbs < lo {
		return cmpSkipRange, info
	}
	tol := tolK*r.E + floor
	info.Tol = tol
	vlo, vhi := r.V, r.V
	if len(env.Ties) > 0 {
		if len(env.Ties) > 1 {
			return cmpSkipTies, info
		}
		// the specification does not choose at a tie: any of the admissible
		// choices (sub-gradient -1, 0, +1 of |.|; either operand of min/max)
		for _, side := range []int{0, -1} {
			env2 := exprlib.NewEnv(x, u, side)
			r2 := env2.Eval(t)
			if !r2.Finite() || env2.Overflow {
				return cmpSkipUndefined, info
			}
			if len(env2.Ties) > 1 {
				return cmpSkipTies, info
			}
			tol = math.Max(tol, tolK*r2.E+floor)
			vlo, vhi = math.Min(vlo, r2.V), math.Max(vhi, r2.V)
		}
		info.Tol, info.Lo, info.Hi = tol, vlo, vhi
	}
	if math.IsNaN(obs) || obs < vlo-tol || obs > vhi+tol {
		return cmpBad, info
	}
	return cmpOK, info
}

// ---------------------------------------------------------------- statistics

type stats struct {
	mu           sync.Mutex
	Cases        int
	Executions   int
	Comparisons  int
	Mismatches   int
	SkipUndef    int
	SkipRange    int
	SkipTies     int
	ZeroSlots    int // exact-zero slot checks performed
	SkipSingular int // executions at a singular point of a local derivative (value only)
	Deviations   int
	Ops          map[string]int
	Insts        map[string]int
	Branch       map[string]int
	perSig       map[string]int
}

func newStats() *stats {
	return &stats{Ops: map[string]int{}, Insts: map[string]int{}, Branch: map[string]int{}, perSig: map[string]int{}}
}

// branch coverage of the piecewise operations, from the actual operand values
func (st *stats) noteBranch(name string) {
	st.mu.Lock()
	st.Branch[name]++
	st.mu.Unlock()
}

// ---------------------------------------------------------------- the check of one case

type checker struct {
	out    *vh.Out
	st     *stats
	blamed map[string]bool // operations that fail in single-call programs
	bmu    sync.RWMutex
}

// failure classes for the attribution of a failing program to one of its calls
func failClass(what string) string {
	switch what {
	case "value", "panic", "operand_modified", "gradient_helper":
		return "value"
	}
	return "deriv"
}

// blame names the call a failure is attributed to: the first call of the program
// whose operation already fails ALONE (single-call program) for the same scalar
// type and method family, with a value failure (explains everything downstream)
// or, for derivative failures, a derivative failure; otherwise the last call.
func (ck *checker) blame(h []step, in inst, what string) string {
	ck.bmu.RLock()
	defer ck.bmu.RUnlock()
	for _, s := range h {
		if ck.blamed[s.Op+"|"+in.Type+"|"+in.Mode+"|value"] {
			return s.Op
		}
		if failClass(what) == "deriv" && ck.blamed[s.Op+"|"+in.Type+"|"+in.Mode+"|deriv"] {
			return s.Op
		}
	}
	return h[len(h)-1].Op
}

func (ck *checker) report(p *pcase, in inst, what string, detail vh.M) {
	op := ck.blame(p.c.Hist, in, what)
	if what == "known_deviation_nosqrt" {
		op = "Mnorm"
	}
	sig := vh.M{"engine": "scalar", "op": op, "what": what, "type": in.Type, "mode": in.Mode}
	if len(p.c.Hist) == 1 && what != "known_deviation_nosqrt" {
		ck.bmu.Lock()
		ck.blamed[p.c.Hist[0].Op+"|"+in.Type+"|"+in.Mode+"|"+failClass(what)] = true
		ck.bmu.Unlock()
	}
	// a re-activation cannot be a program of its own (it needs a result to re-declare):
	// it is blamed when a two-call program ending in it fails and the first call is innocent
	if len(p.c.Hist) == 2 && p.c.Hist[1].Op == "Activate" && op == "Activate" {
		ck.bmu.Lock()
		ck.blamed["Activate|"+in.Type+"|"+in.Mode+"|"+failClass(what)] = true
		ck.bmu.Unlock()
	}
	key := fmt.Sprint(op, what, in.Type, in.Mode)
	ck.st.mu.Lock()
	ck.st.Mismatches++
	ck.st.perSig[key]++
	k := ck.st.perSig[key]
	ck.st.mu.Unlock()
	if k > 3 {
		return // the orchestrator prints one line per signature; keep the file small
	}
	detail["case"] = json.RawMessage(p.raw)
	detail["program"] = progString(p.c.Hist)
	detail["inst"] = in
	vh.Mismatch(ck.out, sig, detail)
}

func instsFor(p *pcase) []inst {
	res := []inst{}
	stor := []string{"dense"}
	if hasReduction(p.c.Hist) {
		stor = []string{"dense", "sparse"}
	}
	modes := []string{"generic"}
	if allConcrete(p.c.Hist) {
		modes = append(modes, "concrete")
	}
	// a re-activation is performed through each of the three API routes
	acts := []string{""}
	if hasActivate(p.c.Hist) {
		acts = []string{"setvariable", "variables", "resetset"}
	}
	for _, typ := range []string{"Real64", "Real32"} {
		for _, ord := range []int{1, 2} {
			for _, md := range modes {
				for _, s := range stor {
					for _, act := range acts {
						res = append(res, inst{typ, ord, md, s, act})
					}
				}
			}
		}
	}
	return res
}

func noteBranches(st *stats, p *pcase, x []float64) {
	// only single-call programs on a variable: the operand value is the point
	if len(p.c.Hist) != 1 || len(p.c.Hist[0].A) < 1 || p.c.Hist[0].A[0] > p.c.N {
		return
	}
	s := p.c.Hist[0]
	v := x[s.A[0]-1]
	switch s.Op {
	case "Log1pExp":
		switch {
		case v <= -37:
			st.noteBranch("Log1pExp:x<=-37")
		case v <= 18:
			st.noteBranch("Log1pExp:-37<x<=18")
		case v <= 33.3:
			st.noteBranch("Log1pExp:18<x<=33.3")
		default:
			st.noteBranch("Log1pExp:x>33.3")
		}
	case "Sigmoid":
		if v >= 0 {
			st.noteBranch("Sigmoid:x>=0")
		} else {
			st.noteBranch("Sigmoid:x<0")
		}
	case "Abs":
		switch {
		case v < 0:
			st.noteBranch("Abs:x<0")
		case v == 0:
			st.noteBranch("Abs:x=0")
		default:
			st.noteBranch("Abs:x>0")
		}
	case "Pow":
		if len(s.A) == 2 {
			if s.A[1] <= p.c.N {
				st.noteBranch("Pow:variable exponent")
			} else {
				st.noteBranch("Pow:constant exponent")
			}
			if v == 0 {
				st.noteBranch("Pow:base 0")
			}
		}
	}
}

// checkJet compares an observed jet with expected terms; returns the list of failures.
type failure struct {
	What string
	I, J int
	Info cmpInfo
}

func (ck *checker) checkJet(j *jetTerms, o jetObs, x []float64, in inst, n int, count bool, regular bool) (fails []failure, valueDefined bool) {
	st := ck.st
	tally := func(oc cmpOutcome) {
		if !count {
			return
		}
		st.mu.Lock()
		switch oc {
		case cmpOK, cmpBad:
			st.Comparisons++
		case cmpSkipUndefined:
			st.SkipUndef++
		case cmpSkipRange:
			st.SkipRange++
		case cmpSkipTies:
			st.SkipTies++
		}
		st.mu.Unlock()
	}
	oc, info := compare(j.Val, x, in.Type, o.Val)
	tally(oc)
	if oc == cmpSkipUndefined || oc == cmpSkipRange {
		// the function is undefined (or out of the type's range) at this point: nothing is demanded
		return nil, false
	}
	if oc == cmpBad {
		fails = append(fails, failure{"value", -1, -1, info})
	}
	if !regular {
		return fails, true
	}
	for i := 0; i < n; i++ {
		oc, info := compare(j.Grad[i], x, in.Type, o.Grad[i])
		tally(oc)
		if oc == cmpBad {
			fails = append(fails, failure{"grad", i, -1, info})
		}
	}
	if in.Order >= 2 {
		for i := 0; i < n; i++ {
			for k := 0; k < n; k++ {
				oc, info := compare(j.Hess[i][k], x, in.Type, o.Hess[i][k])
				tally(oc)
				if oc == cmpBad {
					fails = append(fails, failure{"hess", i, k, info})
				}
			}
		}
	}
	return fails, true
}

func (ck *checker) checkCase(p *pcase) {
	st := ck.st
	c := &p.c
	st.mu.Lock()
	st.Cases++
	for _, s := range c.Hist {
		st.Ops[s.Op]++
	}
	st.mu.Unlock()
	n := c.N
	for _, in := range instsFor(p) {
		st.mu.Lock()
		st.Insts[fmt.Sprintf("%s/order%d/%s/%s", in.Type, in.Order, in.Mode, in.Storage)]++
		st.mu.Unlock()
		for _, pt := range p.pts {
			res := run(in, n, p.desc, c.Hist, pt)
			st.mu.Lock()
			st.Executions++
			st.mu.Unlock()
			if in.Type == "Real64" && in.Order == 2 && in.Mode == "generic" && in.Storage == "dense" && res.X != nil {
				noteBranches(st, p, res.X)
			}
			if res.ActSame > 0 {
				st.noteBranch("Activate:same shape/" + in.Act)
			}
			if res.ActNew > 0 {
				st.noteBranch("Activate:new shape/" + in.Act)
			}
			base := func() vh.M {
				return vh.M{"point": numStrs(pt), "x": numStrs(trimX(res.X, n)), "observed": res.Obs}
			}
			if res.Panic != "" {
				if strings.HasPrefix(res.Panic, "harness:") {
					vh.Fatal("harness error:", res.Panic, progString(c.Hist))
				}
				// a panic is an observation; nothing is demanded where the function is undefined
				oc, _ := compare(p.jet.Val, res.X, in.Type, 0)
				if oc == cmpSkipUndefined || oc == cmpSkipRange {
					continue
				}
				d := base()
				d["panic"], d["step"] = res.Panic, res.PanicStep
				ck.report(p, in, "panic", d)
				continue
			}
			o := res.Obs
			// singular point of a local derivative: only the value is demanded
			regular := true
			for _, g := range p.grd {
				env := exprlib.NewEnv(res.X, unitRoundoff(in.Type), +1)
				if r := env.Eval(g); !r.Finite() || env.Overflow {
					regular = false
					break
				}
			}
			fails, defined := ck.checkJet(&p.jet, o, res.X, in, n, true, regular)
			if !defined {
				continue
			}
			if !regular {
				st.mu.Lock()
				st.SkipSingular++
				st.mu.Unlock()
			}
			if len(fails) > 0 && p.alt != nil {
				// does the code do exactly what the known deviation says?
				afails, adef := ck.checkJet(p.alt, o, res.X, in, n, false, regular)
				if adef && len(afails) == 0 {
					st.mu.Lock()
					st.Deviations++
					st.mu.Unlock()
					d := base()
					d["expected_contract"] = fails[0].Info
					ck.report(p, in, "known_deviation_nosqrt", d)
					fails = nil
				}
			}
			for _, f := range fails {
				d := base()
				d["slot"], d["cmp"] = []int{f.I, f.J}, f.Info
				ck.report(p, in, f.What, d)
				break // one record per execution is enough
			}
			if !regular {
				continue
			}
			// Hessian symmetry (exact: the library mirrors the upper triangle)
			if in.Order >= 2 {
				for i := 0; i < n; i++ {
					for k := i + 1; k < n; k++ {
						if !sameFloat(o.Hess[i][k], o.Hess[k][i]) {
							d := base()
							d["slot"] = []int{i, k}
							ck.report(p, in, "hess_asym", d)
						}
					}
				}
			}
			// exact zeros for inputs the result does not depend on
			for i := 0; i < n; i++ {
				if c.Dep[i] {
					continue
				}
				st.mu.Lock()
				st.ZeroSlots++
				st.mu.Unlock()
				bad := o.Grad[i] != 0
				for k := 0; k < n && !bad; k++ {
					if o.Hess[i][k] != 0 || o.Hess[k][i] != 0 {
						bad = true
					}
				}
				if bad {
					d := base()
					d["slot"] = []int{i}
					ck.report(p, in, "nonzero_slot", d)
				}
			}
			if res.Helper != "" {
				d := base()
				d["helper"] = res.Helper
				ck.report(p, in, "gradient_helper", d)
			}
			if res.FrameBreak != "" {
				d := base()
				d["frame"] = res.FrameBreak
				ck.report(p, in, "operand_modified", d)
			}
		}
	}
}

// ---------------------------------------------------------------- driver

type workerState struct {
	mu    sync.Mutex
	busy  bool
	since time.Time
	cur   string
}

func replayMain(args []string) {
	if len(args) < 2 {
		vh.Fatal("usage: scalar replay cases.ndjson results.ndjson")
	}
	out := vh.NewOut(args[1])
	defer out.Close()
	st := newStats()
	ck := &checker{out: out, st: st, blamed: map[string]bool{}}
	// phase 1: single-call programs (they decide which operation a failure of a
	// longer program is attributed to); phase 2: everything else
	var shallow, middle, deep [][]byte
	err := vh.EachLine(args[0], func(line []byte) error {
		cp := append([]byte{}, line...)
		if bytes.Contains(cp, []byte(`"d":1,`)) {
			shallow = append(shallow, cp)
		} else if bytes.Contains(cp, []byte(`"d":2,`)) {
			middle = append(middle, cp)
		} else {
			deep = append(deep, cp)
		}
		return nil
	})
	if err != nil {
		vh.Fatal(err)
	}
	nw := runtime.NumCPU() / 2
	if nw > 8 {
		nw = 8
	}
	if nw < 1 {
		nw = 1
	}
	if v := vh.EnvInt("VERIF_SCALAR_WORKERS", 0); v > 0 {
		nw = v
	}
	ws := make([]*workerState, nw)
	for i := range ws {
		ws[i] = &workerState{}
	}
	// watchdog: a hang of the library is an observation, not an infrastructure error
	go func() {
		for {
			time.Sleep(2 * time.Second)
			for _, w := range ws {
				w.mu.Lock()
				if w.busy && time.Since(w.since) > 60*time.Second {
					vh.Mismatch(out, vh.M{"engine": "scalar", "what": "timeout"}, vh.M{"program": w.cur, "limit_s": 60})
					vh.Summary(out, vh.M{"aborted": "timeout"})
					out.Close()
					os.Exit(0)
				}
				w.mu.Unlock()
			}
		}
	}()
	phase := func(lines [][]byte) {
		var wg sync.WaitGroup
		ch := make(chan []byte, 256)
		for i := 0; i < nw; i++ {
			wg.Add(1)
			go func(w *workerState) {
				defer wg.Done()
				for line := range ch {
					p, err := parseCase(line)
					if err != nil {
						vh.Fatal("bad case:", err, string(line[:minInt(len(line), 200)]))
					}
					w.mu.Lock()
					w.busy, w.since, w.cur = true, time.Now(), progString(p.c.Hist)
					w.mu.Unlock()
					ck.checkCase(p)
					w.mu.Lock()
					w.busy = false
					w.mu.Unlock()
				}
			}(ws[i])
		}
		for _, l := range lines {
			ch <- l
		}
		close(ch)
		wg.Wait()
	}
	phase(shallow)
	phase(middle)
	phase(deep)
	blamed := []string{}
	for k := range ck.blamed {
		blamed = append(blamed, k)
	}
	sort.Strings(blamed)
	vh.Summary(out, vh.M{"cases": st.Cases, "executions": st.Executions, "comparisons": st.Comparisons,
		"mismatches": st.Mismatches, "skipped_undefined": st.SkipUndef, "skipped_range": st.SkipRange,
		"skipped_ties": st.SkipTies, "zero_slot_checks": st.ZeroSlots, "singular_points_value_only": st.SkipSingular,
		"known_deviation_matches": st.Deviations, "ops": st.Ops, "instantiations": st.Insts,
		"branches": st.Branch, "blamed_ops": blamed, "tolerance_factor": tolK})
}

func minInt(a, b int) int {
	if a < b {
		return a
	}
	return b
}

func numStrs(x []float64) []string {
	r := make([]string, len(x))
	for i := range x {
		r[i] = numStr(x[i])
	}
	return r
}

// trimX drops the unused tail (zeros) of the point vector: x_1..x_n and the
// values of re-activated leaves from exprlib.ZBase on.
func trimX(x []float64, n int) []float64 {
	k := len(x)
	for k > n && x[k-1] == 0 {
		k--
	}
	return x[:k]
}
