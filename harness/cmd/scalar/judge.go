package main

import (
	"encoding/json"
	"reflect"
	"sort"
	"strconv"

	. "github.com/pbenner/autodiff"
	"verifharness/exprlib"
	"verifharness/vh"
)

// ---------------------------------------------------------------- judge
//
// Joins the numbers recorded from the real code (obs.ndjson) with the terms
// spec/ScalarTrace.tla rebuilt from the recorded calls (expected.ndjson, one
// object per emit event) and compares them exactly like `replay` does.

type expRecord struct {
	T    int                 `json:"t"`
	K    int                 `json:"k"`
	N    int                 `json:"n"`
	Val  json.RawMessage     `json:"val"`
	Grad []json.RawMessage   `json:"grad"`
	Hess [][]json.RawMessage `json:"hess"`
	Dep  []bool              `json:"dep"`
	Grd  []json.RawMessage   `json:"guard"`
}

func parseFloats(s []string) []float64 {
	r := make([]float64, len(s))
	for i := range s {
		f, err := strconv.ParseFloat(s[i], 64)
		if err != nil {
			vh.Fatal("bad number in obs file:", s[i])
		}
		r[i] = f
	}
	return r
}

func judgeMain(args []string) {
	if len(args) < 3 {
		vh.Fatal("usage: scalar judge obs.ndjson expected.ndjson results.ndjson")
	}
	out := vh.NewOut(args[2])
	defer out.Close()
	obs := map[int]obsRecord{}
	err := vh.EachLine(args[0], func(line []byte) error {
		var o obsRecord
		if e := json.Unmarshal(line, &o); e != nil {
			return e
		}
		obs[o.K] = o
		return nil
	})
	if err != nil {
		vh.Fatal(err)
	}
	st := newStats()
	ck := &checker{out: out, st: st, blamed: map[string]bool{}}
	seen := 0
	failed := map[int]bool{} // traces whose first failing call was reported
	err = vh.EachLine(args[1], func(line []byte) error {
		var e expRecord
		if er := json.Unmarshal(line, &e); er != nil {
			return er
		}
		o, ok := obs[e.K]
		if !ok || o.T != e.T {
			vh.Fatal("expected record without observation: event", e.K, "trace", e.T)
		}
		seen++
		jt, er := parseJet(e.N, e.Val, e.Grad, e.Hess)
		if er != nil {
			return er
		}
		x := parseFloats(o.X)
		for len(x) < exprlib.ZBase+maxCalls {
			x = append(x, 0) // trimmed tail: values of re-activated leaves that are 0 / unused
		}
		jo := jetObs{Val: parseFloats([]string{o.Val})[0], Order: o.Ord, N: o.Nn, Grad: parseFloats(o.Grad)}
		for i := range o.Hess {
			jo.Hess = append(jo.Hess, parseFloats(o.Hess[i]))
		}
		regular := true
		for _, g := range e.Grd {
			t, er := exprlib.Parse(g)
			if er != nil {
				return er
			}
			env := exprlib.NewEnv(x, unitRoundoff(o.Inst.Type), +1)
			if r := env.Eval(t); !r.Finite() || env.Overflow {
				regular = false
			}
		}
		st.Cases++
		fails, defined := ck.checkJet(&jt, jo, x, o.Inst, e.N, true, regular)
		if !defined {
			return nil
		}
		for _, f := range fails {
			if failed[o.T] {
				break // later calls of the trace build on the wrong result
			}
			failed[o.T] = true
			st.Mismatches++
			vh.Mismatch(out, vh.M{"engine": "scalar", "op": o.Op, "what": f.What, "type": o.Inst.Type, "mode": "recorded"},
				vh.M{"trace": o.T, "event": o.K, "program": o.Prog, "inst": o.Inst, "x": o.X, "slot": []int{f.I, f.J},
					"cmp": f.Info, "expected_terms": json.RawMessage(line)})
			break
		}
		return nil
	})
	if err != nil {
		vh.Fatal(err)
	}
	vh.Summary(out, vh.M{"events_judged": seen, "observations": len(obs), "comparisons": st.Comparisons, "mismatches": st.Mismatches,
		"skipped_undefined": st.SkipUndef, "skipped_range": st.SkipRange, "skipped_ties": st.SkipTies, "tolerance_factor": tolK})
}

// ---------------------------------------------------------------- API surface accounting

var modelled = map[string]string{
	"Min": "Meaning2", "Max": "Meaning2", "Abs": "Meaning1", "Neg": "Meaning1", "Add": "Meaning2", "Sub": "Meaning2",
	"Mul": "Meaning2", "Div": "Meaning2", "LogAdd": "Meaning2", "LogSub": "Meaning2", "Log1pExp": "Meaning1",
	"Sigmoid": "Meaning1", "Pow": "Meaning2", "Sqrt": "Meaning1", "Sin": "Meaning1", "Sinh": "Meaning1", "Cos": "Meaning1",
	"Cosh": "Meaning1", "Tan": "Meaning1", "Tanh": "Meaning1", "Exp": "Meaning1", "Log": "Meaning1", "Log1p": "Meaning1",
	"Logistic": "Meaning1", "Erf": "Meaning1", "Erfc": "Meaning1", "LogErfc": "Meaning1", "Gamma": "Meaning1",
	"Lgamma": "Meaning1", "Mlgamma": "MeaningP", "GammaP": "MeaningP", "BesselI": "MeaningP", "LogBesselI": "MeaningP",
	"SmoothMax": "MeaningV", "LogSmoothMax": "MeaningV", "Vmean": "MeaningV", "VdotV": "MeaningV", "Vnorm": "MeaningV",
	"Mnorm": "MeaningM", "Mtrace": "MeaningM",
	// used by the driver to set up and observe, not operations of the machine
	"GetFloat64": "observation", "GetDerivative": "observation", "GetHessian": "observation", "GetOrder": "observation",
	"GetN": "observation", "SetVariable": "setup (Variables)", "Set": "setup (containers)",
}

func opsMain(args []string) {
	out := vh.NewOut(args[0])
	defer out.Close()
	res := vh.M{}
	for _, typ := range []string{"Real64", "Real32"} {
		t := reflect.TypeOf(newReal(typ, 0))
		bound, unbound := []string{}, []string{}
		for i := 0; i < t.NumMethod(); i++ {
			name := t.Method(i).Name
			if _, ok := modelled[name]; ok {
				bound = append(bound, name)
			} else if concreteOps[titleCase(name)] && name == upper(name) {
				bound = append(bound, name) // CAPITAL twin of a modelled operation
			} else {
				unbound = append(unbound, name)
			}
		}
		sort.Strings(bound)
		sort.Strings(unbound)
		res[typ] = vh.M{"bound_to_specification": bound, "unmodelled_methods": unbound}
	}
	var _ Scalar = NewReal64(0)
	out.Put(res)
}

func upper(s string) string {
	b := []byte(s)
	for i := range b {
		if b[i] >= 'a' && b[i] <= 'z' {
			b[i] -= 32
		}
	}
	return string(b)
}

// titleCase maps LOGADD -> LogAdd etc. through the table of concrete operations.
func titleCase(s string) string {
	for k := range concreteOps {
		if upper(k) == s {
			return k
		}
	}
	return s
}
