// Conformance driver of the scalar engine (property C01: automatic
// differentiation returns exact first and second derivatives).
//
//	scalar replay <cases.ndjson> <results.ndjson>
//	    executes every TLC-generated program (spec/ScalarMachine.tla) on Real64 and
//	    Real32 scalars, derivative order 1 and 2, generic and (where they exist)
//	    type-specific CAPITAL methods, dense and sparse containers for the
//	    reductions, at every evaluation point the specification lists, and
//	    compares value / gradient / Hessian of the last receiver with the TERMS the
//	    specification printed (evaluated by harness/exprlib with Go's math).
//	scalar record <trace.ndjson> <obs.ndjson> <ntraces> <mindepth> <maxdepth>
//	    seeded random deeper programs on the real scalars; one event per call
//	    (discrete part for spec/ScalarTrace.tla) and the observed numbers.
//	scalar judge <obs.ndjson> <expected.ndjson> <results.ndjson>
//	    compares the recorded observations with the terms ScalarTrace.tla
//	    rebuilt from the recorded calls.
//	scalar ops
//	    lists the methods of the Scalar interface and whether the specification
//	    gives them a meaning.
package main

import (
	"fmt"
	"os"
)

func main() {
	if len(os.Args) < 2 {
		fmt.Fprintln(os.Stderr, "usage: scalar replay|record|judge|ops ...")
		os.Exit(3)
	}
	switch os.Args[1] {
	case "replay":
		replayMain(os.Args[2:])
	case "record":
		recordMain(os.Args[2:])
	case "judge":
		judgeMain(os.Args[2:])
	case "ops":
		opsMain(os.Args[2:])
	default:
		fmt.Fprintln(os.Stderr, "unknown sub-command", os.Args[1])
		os.Exit(3)
	}
}
