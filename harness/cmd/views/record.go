package main

// views record <trace.ndjson> <ntraces> <maxdim> <maxops>
//
// Seeded random histories on real matrices that are larger than the exhaustive
// bounds of the model: a fresh owner, then Slice / T / writes through the current
// view.  One ndjson event per call with the observed dimensions, the content of the
// view (read through ConstAt) and the content of the owner.  spec/MatrixViewTrace.tla
// must accept the trace.

import (
	"fmt"
	"math/rand"
	"strconv"

	. "github.com/pbenner/autodiff"
	"verifharness/vh"
)

func record(args []string) {
	if len(args) < 4 {
		vh.Fatal("usage: views record trace ntraces maxdim maxops")
	}
	out := vh.NewOut(args[0])
	defer out.Close()
	ntr, _ := strconv.Atoi(args[1])
	maxd, _ := strconv.Atoi(args[2])
	maxops, _ := strconv.Atoi(args[3])
	rng := rand.New(rand.NewSource(int64(vh.EnvInt("VERIF_SEED", 1))*7919 + 10))
	types := selectedTypes()
	for tr := 0; tr < ntr; tr++ {
		storage := []string{"dense", "sparse"}[rng.Intn(2)]
		ti := types[rng.Intn(len(types))]
		in := inst{storage, typeTable[ti].name, typeTable[ti].t, "r"}
		pr, pc := 1+rng.Intn(maxd), 1+rng.Intn(maxd-1)
		vals := make([]int, pr*pc)
		for k := range vals {
			if rng.Intn(5) > 0 {
				vals[k] = 1 + rng.Intn(100)
			}
		}
		var P, V Matrix
		// sparse owners: every zero element an explicitly stored entry (half of the histories);
		// shared: nothing has iterated yet, so T() still shares the scalar of every element
		storeAll := storage == "sparse" && rng.Intn(2) == 0
		shared := storeAll
		hasT := false
		depth := 0
		emit := func(ev vh.M) bool {
			// observations of the real objects after the call
			var obs [][]int
			var par []int
			var dims []int
			msg := vh.Try(func() {
				r, c := V.Dims()
				dims = []int{r, c}
				obs = make([][]int, r)
				for i := 0; i < r; i++ {
					obs[i] = make([]int, c)
					for j := 0; j < c; j++ {
						obs[i][j] = int(V.ConstAt(i, j).GetFloat64())
					}
				}
				par = make([]int, pr*pc)
				for k := range par {
					par[k] = int(P.ConstAt(k/pc, k%pc).GetFloat64())
				}
			})
			if msg != "" {
				vh.Mismatch(out, vh.M{"engine": "views", "storage": storage, "op": "record." + fmt.Sprint(ev["e"]), "what": "panic"},
					vh.M{"event": ev, "etype": in.TName, "storage": storage, "observed": msg, "mode": "record"})
				return false
			}
			for _, k := range []string{"a", "b", "c", "d", "i", "j", "v", "pr", "pc"} {
				if _, ok := ev[k]; !ok {
					ev[k] = 0
				}
			}
			ev["dims"] = dims
			ev["obs"] = obs
			ev["par"] = par
			if _, ok := ev["it"]; !ok {
				ev["it"] = [][]int{}
			}
			ev["inst"] = in.Storage + "/" + in.TName
			out.Put(ev)
			return true
		}
		msg := vh.Try(func() {
			P = newMat(storage, in.T, pr, pc)
			for k, v := range vals {
				if v != 0 {
					P.At(k/pc, k%pc).SetFloat64(float64(v))
				}
			}
			if storeAll {
				zeros := []int{}
				for k, v := range vals {
					if v == 0 {
						zeros = append(zeros, k)
					}
				}
				storeZeros(P, zeros, pc)
			}
			V = P
		})
		if msg != "" {
			vh.Mismatch(out, vh.M{"engine": "views", "storage": storage, "op": "record.reset", "what": "panic"},
				vh.M{"etype": in.TName, "observed": msg, "mode": "record"})
			continue
		}
		if !emit(vh.M{"e": "reset", "pr": pr, "pc": pc}) {
			continue
		}
		for op := 0; op < maxops; op++ {
			r, c := V.Dims()
			ev := vh.M{}
			var f func()
			switch x := rng.Intn(10); {
			case x < 3 && depth < 6:
				// mostly non-empty slices
				a, b := 0, r
				cc, d := 0, c
				if r > 0 {
					a = rng.Intn(r)
					b = a + 1 + rng.Intn(r-a)
				}
				if c > 0 {
					cc = rng.Intn(c)
					d = cc + 1 + rng.Intn(c-cc)
				}
				if rng.Intn(12) == 0 {
					b = a // an empty slice now and then
				}
				ev = vh.M{"e": "slice", "a": a, "b": b, "c": cc, "d": d}
				f = func() { V = V.Slice(a, b, cc, d) }
				depth++
			case x < 5 && depth < 6:
				ev = vh.M{"e": "T"}
				f = func() { V = V.T() }
				hasT = true
				depth++
			case x == 5 || x == 6:
				// iterate the view (sparse iterators delete the zero entries they pass)
				ev = vh.M{"e": "iter"}
				f = func() {
					seq := [][]int{}
					n := 0
					for it := V.ConstIterator(); it.Ok(); it.Next() {
						if n++; n > 400 {
							panic("iterator does not terminate")
						}
						i, j := it.Index()
						if v := int(it.GetConst().GetFloat64()); v != 0 {
							seq = append(seq, []int{i, j, v})
						}
					}
					ev["it"] = seq
				}
				shared = false
			default:
				if r*c == 0 {
					continue
				}
				i, j := rng.Intn(r), rng.Intn(c)
				if storage == "sparse" && hasT && !shared && V.ConstAt(i, j).GetFloat64() == 0 {
					continue // known deviation S2 (sparse T() is a copy of the key map): covered by the replay part
				}
				v := 1 + rng.Intn(100)
				ev = vh.M{"e": "write", "i": i, "j": j, "v": v}
				f = func() { V.At(i, j).SetFloat64(float64(v)) }
			}
			if msg := vh.Try(f); msg != "" {
				vh.Mismatch(out, vh.M{"engine": "views", "storage": storage, "op": "record." + fmt.Sprint(ev["e"]), "what": "panic"},
					vh.M{"event": ev, "etype": in.TName, "storage": storage, "observed": msg, "mode": "record"})
				break
			}
			if !emit(ev) {
				break
			}
		}
	}
}
