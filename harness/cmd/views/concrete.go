package main

// The concrete-type twins of the interface methods (AT, ROW, COL, DIAG, SLICE,
// ITERATOR, ITERATOR_FROM, JOINT_ITERATOR, EQUALS, MADDM ... MDOTM, OUTER, MDOTV,
// VDOTM) are public operations too.  They are reached through reflection so that
// one driver serves every element type; a method a type does not have is skipped.

import (
	"reflect"

	. "github.com/pbenner/autodiff"
)

const na = "n/a"

// call invokes recv.name(args...) if the method exists and accepts the arguments
func call(recv interface{}, name string, args ...interface{}) ([]reflect.Value, bool) {
	m := reflect.ValueOf(recv).MethodByName(name)
	if !m.IsValid() || m.Type().NumIn() != len(args) {
		return nil, false
	}
	in := make([]reflect.Value, len(args))
	for i, a := range args {
		in[i] = reflect.ValueOf(a)
		if !in[i].Type().AssignableTo(m.Type().In(i)) {
			return nil, false
		}
	}
	return m.Call(in), true
}

func concreteOps() []opdef {
	ops := []opdef{}
	add := func(o opdef) { ops = append(ops, o) }
	add(opdef{name: "c.AT_ROW_COL_DIAG", methods: []string{"AT", "ROW", "COL", "DIAG"}, run: func(e *env, m Matrix) interface{} {
		r := []interface{}{}
		for i := 0; i < e.c.Vr; i++ {
			for j := 0; j < e.c.Vc; j++ {
				if v, ok := call(m, "AT", i, j); ok {
					r = append(r, sstr(v[0].Interface().(ConstScalar)))
				}
			}
			if v, ok := call(m, "ROW", i); ok {
				r = append(r, snapv(v[0].Interface().(ConstVector)))
			}
		}
		for j := 0; j < e.c.Vc; j++ {
			if v, ok := call(m, "COL", j); ok {
				r = append(r, snapv(v[0].Interface().(ConstVector)))
			}
		}
		if e.c.Vr == e.c.Vc {
			if v, ok := call(m, "DIAG"); ok {
				r = append(r, snapv(v[0].Interface().(ConstVector)))
			}
		}
		return r
	}})
	add(opdef{name: "c.SLICE", methods: []string{"SLICE"}, applies: nonempty, run: func(e *env, m Matrix) interface{} {
		r := []interface{}{}
		for _, b := range [][4]int{{0, e.c.Vr, 0, e.c.Vc}, {e.c.Vr / 2, e.c.Vr, 0, (e.c.Vc + 1) / 2}, {0, (e.c.Vr + 1) / 2, e.c.Vc / 2, e.c.Vc}} {
			if v, ok := call(m, "SLICE", b[0], b[1], b[2], b[3]); ok {
				s := v[0].Interface().(Matrix)
				r = append(r, snap(s), s.String(), snap(s.T()))
			}
		}
		return r
	}})
	add(opdef{name: "c.ITERATOR", methods: []string{"ITERATOR", "ITERATOR_FROM"}, run: func(e *env, m Matrix) interface{} {
		r := []interface{}{}
		if v, ok := call(m, "ITERATOR"); ok {
			s, fin := walk(v[0].Interface().(MatrixIterator), 200)
			r = append(r, s, fin)
		}
		for i := 0; i < e.c.Vr; i++ {
			for j := 0; j < e.c.Vc; j++ {
				if v, ok := call(m, "ITERATOR_FROM", i, j); ok {
					s, fin := walk(v[0].Interface().(MatrixIterator), 200)
					r = append(r, s, fin)
				}
			}
		}
		return r
	}})
	add(opdef{name: "c.JOINT_ITERATOR", methods: []string{"JOINT_ITERATOR"}, run: func(e *env, m Matrix) interface{} {
		b := mk(e.in.other(), e.in.T, e.c.Vr, e.c.Vc, fB)
		v, ok := call(m, "JOINT_ITERATOR", ConstMatrix(b))
		if !ok {
			return na
		}
		r := []jstep{}
		n := 0
		for it := v[0].Interface().(MatrixJointIterator); it.Ok(); it.Next() {
			if n++; n > 200 {
				return "nonterminating"
			}
			i, j := it.Index()
			s1, s2 := it.GetConst()
			r = append(r, jstep{i, j, sstr(s1), sstr(s2)})
		}
		return r
	}})
	add(opdef{name: "c.EQUALS", methods: []string{"EQUALS"}, run: func(e *env, m Matrix) interface{} {
		c := e.c
		eq := mk(e.in.Storage, e.in.T, c.Vr, c.Vc, func(i, j int) float64 { return c.val(e.in.Pat, i, j) })
		r := []interface{}{}
		if v, ok := call(m, "EQUALS", eq, 1e-8); ok {
			r = append(r, v[0].Bool())
		}
		if v, ok := call(eq, "EQUALS", m, 1e-8); ok {
			r = append(r, v[0].Bool())
		}
		if c.Vr*c.Vc > 0 {
			eq.At(c.Vr-1, c.Vc-1).SetFloat64(c.val(e.in.Pat, c.Vr-1, c.Vc-1) + 1)
			if v, ok := call(m, "EQUALS", eq, 1e-8); ok {
				r = append(r, v[0].Bool())
			}
			if v, ok := call(eq, "EQUALS", m, 1e-8); ok {
				r = append(r, v[0].Bool())
			}
		}
		return r
	}})
	for _, name := range []string{"MADDM", "MSUBM", "MMULM", "MDIVM"} {
		name := name
		add(opdef{name: "c." + name + ".a", methods: []string{name}, run: func(e *env, m Matrix) interface{} {
			r := mk(e.in.Storage, e.in.T, e.c.Vr, e.c.Vc, fL)
			if _, ok := call(r, name, m, mk(e.in.Storage, e.in.T, e.c.Vr, e.c.Vc, fD)); !ok {
				return na
			}
			return snap(r)
		}})
		add(opdef{name: "c." + name + ".r", methods: []string{name}, mut: true, run: func(e *env, m Matrix) interface{} {
			if _, ok := call(m, name, mk(e.in.Storage, e.in.T, e.c.Vr, e.c.Vc, fB), mk(e.in.Storage, e.in.T, e.c.Vr, e.c.Vc, fD)); !ok {
				return na
			}
			return snap(m)
		}})
	}
	for _, name := range []string{"MADDS", "MSUBS", "MMULS", "MDIVS"} {
		name := name
		add(opdef{name: "c." + name + ".a", methods: []string{name}, run: func(e *env, m Matrix) interface{} {
			r := mk(e.in.Storage, e.in.T, e.c.Vr, e.c.Vc, fL)
			if _, ok := call(r, name, m, NewScalar(e.in.T, 2)); !ok {
				return na
			}
			return snap(r)
		}})
		add(opdef{name: "c." + name + ".r", methods: []string{name}, mut: true, run: func(e *env, m Matrix) interface{} {
			if _, ok := call(m, name, mk(e.in.Storage, e.in.T, e.c.Vr, e.c.Vc, fB), NewScalar(e.in.T, 2)); !ok {
				return na
			}
			return snap(m)
		}})
	}
	add(opdef{name: "c.MDOTM.a", methods: []string{"MDOTM"}, applies: nonempty, run: func(e *env, m Matrix) interface{} {
		r := newMat(e.in.Storage, e.in.T, e.c.Vr, kdim)
		if _, ok := call(r, "MDOTM", m, mk(e.in.Storage, e.in.T, e.c.Vc, kdim, fB)); !ok {
			return na
		}
		return snap(r)
	}})
	add(opdef{name: "c.MDOTM.b", methods: []string{"MDOTM"}, applies: nonempty, run: func(e *env, m Matrix) interface{} {
		r := newMat(e.in.Storage, e.in.T, kdim, e.c.Vc)
		if _, ok := call(r, "MDOTM", mk(e.in.Storage, e.in.T, kdim, e.c.Vr, fB), m); !ok {
			return na
		}
		return snap(r)
	}})
	add(opdef{name: "c.MDOTM.r", methods: []string{"MDOTM"}, mut: true, applies: nonempty, run: func(e *env, m Matrix) interface{} {
		if _, ok := call(m, "MDOTM", mk(e.in.Storage, e.in.T, e.c.Vr, kdim, fB), mk(e.in.Storage, e.in.T, kdim, e.c.Vc, fD)); !ok {
			return na
		}
		return snap(m)
	}})
	add(opdef{name: "c.OUTER.r", methods: []string{"OUTER"}, mut: true, run: func(e *env, m Matrix) interface{} {
		if _, ok := call(m, "OUTER", mkv(e.in.Storage, e.in.T, e.c.Vr, fy), mkv(e.in.Storage, e.in.T, e.c.Vc, fx)); !ok {
			return na
		}
		return snap(m)
	}})
	add(opdef{name: "c.MDOTV", methods: []string{"AT"}, applies: nonempty, run: func(e *env, m Matrix) interface{} {
		r := newVec(e.in.Storage, e.in.T, e.c.Vr)
		if _, ok := call(r, "MDOTV", m, mkv(e.in.Storage, e.in.T, e.c.Vc, fx)); !ok {
			return na
		}
		return snapv(r)
	}})
	add(opdef{name: "c.VDOTM", methods: []string{"AT"}, applies: nonempty, run: func(e *env, m Matrix) interface{} {
		r := newVec(e.in.Storage, e.in.T, e.c.Vc)
		if _, ok := call(r, "VDOTM", mkv(e.in.Storage, e.in.T, e.c.Vr, fy), m); !ok {
			return na
		}
		return snapv(r)
	}})
	return ops
}
