// Conformance driver for matrix views (C10).
//
//	views replay <cases.ndjson> <results.ndjson> <scratchdir>
//	    every line of cases.ndjson is one case printed by TLC from
//	    spec/MatrixView.tla: owner dimensions, the view word, and - derived from
//	    the denotation Den(w) - the expected view dimensions, the owner cell of
//	    every (i,j), rows, columns, diagonal, AsVector elements, the iteration
//	    sequences and (for owners) the result of Tip.  The driver builds the
//	    owner with the printed values for dense and sparse storage and every
//	    element type, constructs the view with the real Slice/T calls and
//	    compares.  Every other public operation is run on the view and on an
//	    independent deep copy built FROM THE PRINTED DENOTATION; results (and
//	    panics) must agree and owner cells outside the view must not change.
//	views vectors <cases.ndjson> <results.ndjson>
//	    cases of spec/VectorView.tla (vector slices and AsMatrix).
//	views record <trace.ndjson> <ntraces> <maxdim> <maxops>
//	    seeded random histories (owners up to maxdim x maxdim-1, Slice / T / writes
//	    through the view) recorded from the real code, validated by spec/MatrixViewTrace.tla.
//	views surface <out.json>
//	    public methods of the matrix interfaces bound / not bound to an operation.
//
// Environment: VERIF_SEED, VERIF_TYPES (comma list), VERIF_ONLY_OP, VERIF_ONLY_STORAGE,
// VERIF_ONLY_PAT, VERIF_WORKERS, VERIF_EXPORT_EVERY, VERIF_MINOR_EVERY.
package main

import (
	"encoding/json"
	"fmt"
	"os"
	"path/filepath"
	"sort"
	"strings"
	"sync"
	"time"

	. "github.com/pbenner/autodiff"
	"verifharness/vh"
)

/* ------------------------------------------------------------------ cases */

type wop struct {
	Op string `json:"op"`
	A  int    `json:"a"`
	B  int    `json:"b"`
	C  int    `json:"c"`
	D  int    `json:"d"`
}

type tcase struct {
	Pr   int     `json:"pr"`
	Pc   int     `json:"pc"`
	W    []wop   `json:"w"`
	Vr   int     `json:"vr"`
	Vc   int     `json:"vc"`
	Own  bool    `json:"own"`
	HasT bool    `json:"hasT"`
	Den  [][]int `json:"den"`
	Cols [][]int `json:"cols"`
	Diag struct {
		Sq bool  `json:"sq"`
		D  []int `json:"d"`
	} `json:"diag"`
	Vec    []int              `json:"vec"`
	Par    map[string][]int   `json:"par"`
	Val    map[string][][]int `json:"val"`
	It     map[string][][]int `json:"it"`
	Itfrom struct {
		I int                `json:"i"`
		J int                `json:"j"`
		S map[string][][]int `json:"s"`
	} `json:"itfrom"`
	Tip [][]int `json:"tip"`
}

func (c *tcase) word() string {
	s := []string{}
	for _, o := range c.W {
		if o.Op == "T" {
			s = append(s, "T")
		} else {
			s = append(s, fmt.Sprintf("S(%d,%d,%d,%d)", o.A, o.B, o.C, o.D))
		}
	}
	return fmt.Sprintf("%dx%d", c.Pr, c.Pc) + "." + strings.Join(s, ".")
}

// tab maps a value pattern of the driver to the tables printed by TLC: pattern "s" holds
// the values of pattern "z", but sparse owners STORE the zero elements explicitly (set to
// zero, cleared with Reset(), merely touched through At()): a storage detail the contract
// does not see, so the expected tables are those of "z"
func tab(pat string) string {
	if pat == "s" {
		return "z"
	}
	return pat
}

// value of a view cell under the pattern (printed by TLC)
func (c *tcase) val(pat string, i, j int) float64 { return float64(c.Val[tab(pat)][i][j]) }

// value held by owner cell k under the pattern
func (c *tcase) pval(pat string, k int) float64 { return float64(c.Par[tab(pat)][k]) }

/* ------------------------------------------------------- instantiations */

type inst struct {
	Storage string
	TName   string
	T       ScalarType
	Pat     string
}

func (in inst) String() string { return in.Storage + "/" + in.TName + "/" + in.Pat }
func (in inst) magic() bool    { return in.TName == "Real32" || in.TName == "Real64" }
func (in inst) float() bool {
	return in.magic() || in.TName == "Float32" || in.TName == "Float64"
}
func (in inst) other() string {
	if in.Storage == "dense" {
		return "sparse"
	}
	return "dense"
}

var typeTable = []struct {
	name string
	t    ScalarType
}{
	{"Float64", Float64Type}, {"Real64", Real64Type}, {"Int", IntType}, {"Float32", Float32Type},
	{"Real32", Real32Type}, {"Int8", Int8Type}, {"Int16", Int16Type}, {"Int32", Int32Type}, {"Int64", Int64Type},
}

func newMat(storage string, t ScalarType, r, c int) Matrix {
	if storage == "dense" {
		return NullDenseMatrix(t, r, c)
	}
	return NullSparseMatrix(t, r, c)
}

func newVec(storage string, t ScalarType, n int) Vector {
	if storage == "dense" {
		return NullDenseVector(t, n)
	}
	return NullSparseVector(t, n)
}

// storeZeros makes the zero elements listed in cells (row-major numbers of an r x c owner)
// explicitly stored entries of a sparse matrix, in three ways by cell number: set to a value
// and cleared with Reset() of a 1x1 slice, set to a value and then to zero, touched through
// the non-const At().  The order matters: sparse iterators delete the zero entries they pass.
func storeZeros(m Matrix, cells []int, c int) {
	for _, k := range cells {
		if k%3 == 2 {
			m.At(k/c, k%c).SetFloat64(5)
		}
	}
	for _, k := range cells {
		if k%3 == 2 {
			m.Slice(k/c, k/c+1, k%c, k%c+1).Reset()
		}
	}
	for _, k := range cells {
		switch k % 3 {
		case 0:
			m.At(k/c, k%c).SetFloat64(5)
			m.At(k/c, k%c).SetFloat64(0)
		case 1:
			m.At(k/c, k%c)
		}
	}
}

// owner matrix holding the values printed by TLC (zero cells are not stored in sparse owners
// except under pattern "s")
func (in inst) parent(c *tcase) Matrix {
	m := newMat(in.Storage, in.T, c.Pr, c.Pc)
	zeros := []int{}
	for k, v := range c.Par[tab(in.Pat)] {
		if v != 0 {
			m.At(k/c.Pc, k%c.Pc).SetFloat64(float64(v))
		} else {
			zeros = append(zeros, k)
		}
	}
	if in.Pat == "s" {
		storeZeros(m, zeros, c.Pc)
	}
	return m
}

// independent owner holding the given values: the deep copy of the property text
func ownerOf(storage string, t ScalarType, vals [][]float64, r, c int) Matrix {
	m := newMat(storage, t, r, c)
	for i := 0; i < r; i++ {
		for j := 0; j < c; j++ {
			if vals[i][j] != 0 {
				m.At(i, j).SetFloat64(vals[i][j])
			}
		}
	}
	return m
}

func (in inst) copyOf(c *tcase) Matrix {
	vals := make([][]float64, c.Vr)
	for i := range vals {
		vals[i] = make([]float64, c.Vc)
		for j := range vals[i] {
			vals[i][j] = c.val(in.Pat, i, j)
		}
	}
	m := ownerOf(in.Storage, in.T, vals, c.Vr, c.Vc)
	if in.Pat == "s" {
		zeros := []int{}
		for i := range vals {
			for j := range vals[i] {
				if vals[i][j] == 0 {
					zeros = append(zeros, i*c.Vc+j)
				}
			}
		}
		storeZeros(m, zeros, c.Vc)
	}
	return m
}

// the view, by the real calls
func applyWord(p Matrix, w []wop, magic bool) Matrix {
	m := p
	for _, o := range w {
		if magic {
			mm := m.(MagicMatrix)
			if o.Op == "T" {
				m = mm.MagicT()
			} else {
				m = mm.MagicSlice(o.A, o.B, o.C, o.D)
			}
		} else if o.Op == "T" {
			m = m.T()
		} else {
			m = m.Slice(o.A, o.B, o.C, o.D)
		}
	}
	return m
}

/* ------------------------------------------------------------ reporting */

type reporter struct {
	out  *vh.Out
	mu   sync.Mutex
	n    map[string]int
	nmis int
}

func (r *reporter) mismatch(c *tcase, in inst, op, what string, exp, got interface{}) {
	sig := vh.M{"engine": "views", "storage": in.Storage, "op": op, "what": what}
	key := fmt.Sprint(sig) + in.TName
	r.mu.Lock()
	r.n[key]++
	n := r.n[key]
	r.nmis++
	r.mu.Unlock()
	if n > 3 { // enough examples per (signature, element type)
		return
	}
	vh.Mismatch(r.out, sig, vh.M{"case": c, "word": c.word(), "etype": in.TName, "pat": in.Pat, "storage": in.Storage,
		"op": op, "expected": exp, "observed": got})
}

// fstr: values as strings (NaN must equal NaN); the sign of a zero is not a matter of C10
// (a stored -0 entry and an absent entry are the same element)
func fstr(v float64) string {
	if v == 0 {
		return "0"
	}
	return fmt.Sprintf("%v", v)
}

// content of a matrix read element by element (strings: NaN must equal NaN)
func snap(m ConstMatrix) [][]string {
	r, c := m.Dims()
	s := make([][]string, r)
	for i := 0; i < r; i++ {
		s[i] = make([]string, c)
		for j := 0; j < c; j++ {
			s[i][j] = fstr(m.ConstAt(i, j).GetFloat64())
		}
	}
	return s
}

func snapv(v ConstVector) []string {
	s := make([]string, v.Dim())
	for i := range s {
		s[i] = fstr(v.ConstAt(i).GetFloat64())
	}
	return s
}

func canon(v interface{}) string {
	b, err := json.Marshal(v)
	if err != nil {
		return "unmarshalable:" + err.Error()
	}
	return string(b)
}

/* ----------------------------------------------------------------- main */

func selectedTypes() []int {
	want := os.Getenv("VERIF_TYPES")
	idx := []int{}
	for i, t := range typeTable {
		if want == "" || strings.Contains(","+want+",", ","+t.name+",") {
			idx = append(idx, i)
		}
	}
	return idx
}

func replay(args []string) {
	if len(args) < 3 {
		vh.Fatal("usage: views replay cases results scratchdir")
	}
	out := vh.NewOut(args[1])
	defer out.Close()
	scratch := args[2]
	os.MkdirAll(scratch, 0o755)
	rep := &reporter{out: out, n: map[string]int{}}
	types := selectedTypes()
	onlyStorage := os.Getenv("VERIF_ONLY_STORAGE")
	onlyPat := os.Getenv("VERIF_ONLY_PAT")
	onlyOp := os.Getenv("VERIF_ONLY_OP")
	workers := vh.EnvInt("VERIF_WORKERS", 8)
	exportEvery := vh.EnvInt("VERIF_EXPORT_EVERY", 1)
	seed := vh.EnvInt("VERIF_SEED", 1)

	minorEvery := vh.EnvInt("VERIF_MINOR_EVERY", 1)
	type job struct {
		idx  int
		line []byte
	}
	lines := make(chan job, 256)
	var wg sync.WaitGroup
	var mu sync.Mutex
	stats := map[string]int{}
	opcount := map[string]int{}
	for wk := 0; wk < workers; wk++ {
		wg.Add(1)
		go func(wk int) {
			defer wg.Done()
			wd := vh.NewWatchdog(180*time.Second, out, vh.M{"engine": "views"})
			local := map[string]int{}
			lops := map[string]int{}
			tmp := filepath.Join(scratch, fmt.Sprintf("w%d", wk))
			os.MkdirAll(tmp, 0o755)
			nth := 0
			for jb := range lines {
				line := jb.line
				var c tcase
				if e := json.Unmarshal(line, &c); e != nil {
					vh.Fatal("bad case:", e, string(line[:100]))
				}
				local["cases"]++
				if c.Vr*c.Vc > 0 {
					local["cases_nonempty"]++
				}
				if c.HasT {
					local["cases_with_T"]++
				}
				if c.Own {
					local["cases_owner"]++
				}
				for _, ti := range types {
					if ti >= 4 && minorEvery > 1 && (jb.idx+seed)%minorEvery != 0 {
						continue // the five remaining element types run on every n-th case only
					}
					for _, storage := range []string{"dense", "sparse"} {
						if onlyStorage != "" && onlyStorage != storage {
							continue
						}
						for _, pat := range []string{"f", "z", "s"} {
							if pat == "s" && storage != "sparse" {
								continue // stored zeros exist in sparse storage only
							}
							if onlyPat != "" && onlyPat != pat {
								continue
							}
							in := inst{storage, typeTable[ti].name, typeTable[ti].t, pat}
							nth++
							e := &env{c: &c, in: in, rep: rep, tmp: tmp, onlyOp: onlyOp, stats: local, opcount: lops,
								files: exportEvery > 0 && (nth+seed)%exportEvery == 0}
							wd.Begin(vh.M{"case": c, "inst": in.String()})
							e.checkCase()
							wd.End()
							local["instances"]++
						}
					}
				}
			}
			mu.Lock()
			for k, v := range local {
				stats[k] += v
			}
			for k, v := range lops {
				opcount[k] += v
			}
			mu.Unlock()
		}(wk)
	}
	idx := 0
	err := vh.EachLine(args[0], func(line []byte) error {
		cp := append([]byte{}, line...)
		lines <- job{idx, cp}
		idx++
		return nil
	})
	close(lines)
	wg.Wait()
	if err != nil {
		vh.Fatal("reading cases:", err)
	}
	s := vh.M{"mismatches": rep.nmis, "ops": opcount}
	for k, v := range stats {
		s[k] = v
	}
	vh.Summary(out, s)
}

func surface(args []string) {
	bound := map[string]bool{}
	for _, o := range opsTable {
		for _, m := range o.methods {
			bound[m] = true
		}
	}
	for _, m := range directMethods {
		bound[m] = true
	}
	all := interfaceMethods()
	un := []string{}
	bd := []string{}
	for _, m := range all {
		if bound[m] {
			bd = append(bd, m)
		} else {
			un = append(un, m)
		}
	}
	sort.Strings(un)
	sort.Strings(bd)
	b, _ := json.Marshal(vh.M{"bound": bd, "unmodelled_methods": un})
	if len(args) > 0 {
		os.WriteFile(args[0], b, 0o644)
	} else {
		fmt.Println(string(b))
	}
}

func main() {
	if len(os.Args) < 2 {
		vh.Fatal("usage: views replay|vectors|surface ...")
	}
	switch os.Args[1] {
	case "replay":
		replay(os.Args[2:])
	case "vectors":
		vectors(os.Args[2:])
	case "surface":
		surface(os.Args[2:])
	case "record":
		record(os.Args[2:])
	default:
		vh.Fatal("unknown sub-command", os.Args[1])
	}
}
