package main

// Vector side of C10 (spec/VectorView.tla): vector slices and the reinterpretation
// of a vector as a matrix address exactly the elements printed by TLC.

import (
	"encoding/json"
	"fmt"
	"os"
	"strings"

	. "github.com/pbenner/autodiff"
	"verifharness/vh"
)

type vslice struct {
	A int `json:"a"`
	B int `json:"b"`
}

type vmat struct {
	R   int     `json:"r"`
	C   int     `json:"c"`
	Den [][]int `json:"den"`
}

type vcase struct {
	N    int              `json:"n"`
	Sl   []vslice         `json:"sl"`
	Len  int              `json:"len"`
	Den  []int            `json:"den"`
	Par  map[string][]int `json:"par"`
	Mats []vmat           `json:"mats"`
}

func (c *vcase) word() string {
	s := []string{fmt.Sprintf("vec%d", c.N)}
	for _, o := range c.Sl {
		s = append(s, fmt.Sprintf("Slice(%d,%d)", o.A, o.B))
	}
	return strings.Join(s, ".")
}

func vectors(args []string) {
	if len(args) < 2 {
		vh.Fatal("usage: views vectors cases results")
	}
	out := vh.NewOut(args[1])
	defer out.Close()
	onlyOp := os.Getenv("VERIF_ONLY_OP")
	types := selectedTypes()
	ncases, ninst, nmis := 0, 0, 0
	seen := map[string]int{}
	err := vh.EachLine(args[0], func(line []byte) error {
		var c vcase
		if e := json.Unmarshal(line, &c); e != nil {
			return e
		}
		ncases++
		for _, ti := range types {
			for _, storage := range []string{"dense", "sparse"} {
				for _, pat := range []string{"f", "z"} {
					in := inst{storage, typeTable[ti].name, typeTable[ti].t, pat}
					ninst++
					bad := func(op, what string, exp, got interface{}) {
						sig := vh.M{"engine": "views", "storage": storage, "op": "Vector." + op, "what": what}
						key := fmt.Sprint(sig) + in.TName
						seen[key]++
						nmis++
						if seen[key] > 3 {
							return
						}
						vh.Mismatch(out, sig, vh.M{"vcase": c, "word": c.word(), "etype": in.TName, "pat": pat, "storage": storage,
							"op": "Vector." + op, "expected": exp, "observed": got})
					}
					sec := func(op string, f func()) {
						if onlyOp != "" && onlyOp != "Vector."+op {
							return
						}
						if msg := vh.Try(f); msg != "" {
							bad(op, "panic", "no panic", msg)
						}
					}
					build := func(magic bool) (Vector, Vector) {
						var p Vector
						if magic {
							if storage == "dense" {
								p = NullDenseMagicVector(in.T, c.N)
							} else {
								p = NullSparseMagicVector(in.T, c.N)
							}
						} else {
							p = newVec(storage, in.T, c.N)
						}
						for k, v := range c.Par[pat] {
							if v != 0 {
								p.At(k).SetFloat64(float64(v))
							}
						}
						v := p
						for _, o := range c.Sl {
							if magic {
								v = v.(MagicVector).MagicSlice(o.A, o.B)
							} else {
								v = v.Slice(o.A, o.B)
							}
						}
						return p, v
					}
					exp := make([]string, len(c.Den))
					for i, k := range c.Den {
						exp[i] = fstr(float64(c.Par[pat][k]))
					}
					sec("Slice", func() {
						_, v := build(false)
						if v.Dim() != c.Len {
							bad("Slice", "dim", c.Len, v.Dim())
							return
						}
						if g := snapv(v); canon(g) != canon(exp) {
							bad("Slice", "value", exp, g)
						}
						if in.magic() {
							_, mv := build(true)
							if g := snapv(mv); canon(g) != canon(exp) {
								bad("MagicSlice", "value", exp, g)
							}
						}
					})
					sec("ConstSlice", func() {
						_, v := build(false)
						if c.Len > 0 {
							cv := v.ConstSlice(0, c.Len)
							if g := snapv(cv); canon(g) != canon(exp) {
								bad("ConstSlice", "value", exp, g)
							}
						}
					})
					// a vector slice is a reference view of the vector
					sec("SliceWriteThrough", func() {
						p, v := build(false)
						for i, k := range c.Den {
							if storage == "sparse" && c.Par[pat][k] == 0 {
								continue // a sparse vector slice shares the stored scalars only (sparse vectors: C11)
							}
							v.At(i).SetFloat64(wval)
							for q := 0; q < c.N; q++ {
								x := float64(c.Par[pat][q])
								if q == k {
									x = wval
								}
								if g := p.ConstAt(q).GetFloat64(); g != x {
									bad("SliceWriteThrough", "parent_differs", vh.M{"write": i, "cell": k, "at": q, "value": x}, g)
									return
								}
							}
							v.At(i).SetFloat64(float64(c.Par[pat][k]))
						}
					})
					for _, mt := range c.Mats {
						mt := mt
						mexp := make([][]string, mt.R)
						for i := range mexp {
							mexp[i] = make([]string, mt.C)
							for j := range mexp[i] {
								mexp[i][j] = fstr(float64(c.Par[pat][mt.Den[i][j]]))
							}
						}
						for _, acc := range []string{"AsMatrix", "AsConstMatrix", "AsMagicMatrix"} {
							acc := acc
							if acc == "AsMagicMatrix" && !in.magic() {
								continue
							}
							sec(acc, func() {
								var m ConstMatrix
								switch acc {
								case "AsMatrix":
									_, v := build(false)
									m = v.AsMatrix(mt.R, mt.C)
								case "AsConstMatrix":
									_, v := build(false)
									m = v.AsConstMatrix(mt.R, mt.C)
								default:
									_, v := build(true)
									m = v.(MagicVector).AsMagicMatrix(mt.R, mt.C)
								}
								r, cc := m.Dims()
								if r != mt.R || cc != mt.C {
									bad(acc, "dims", []int{mt.R, mt.C}, []int{r, cc})
									return
								}
								if g := snap(m); canon(g) != canon(mexp) {
									bad(acc, "value", mexp, g)
								}
							})
						}
					}
				}
			}
		}
		return nil
	})
	if err != nil {
		vh.Fatal("vectors:", err)
	}
	vh.Summary(out, vh.M{"vector_cases": ncases, "vector_instances": ninst, "mismatches": nmis})
}
