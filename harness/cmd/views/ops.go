package main

// Differential part of C10: every read-only or arithmetic public operation applied
// to the view gives the same result as when applied to an independent deep copy
// holding the same elements (the copy is built from the denotation printed by TLC).
// For operations that write into the view the owner is inspected afterwards: cells
// inside the view hold what the copy holds, cells outside the view are untouched.

import (
	"encoding/json"
	"fmt"
	"os"
	"path/filepath"
	"reflect"

	. "github.com/pbenner/autodiff"
	"verifharness/vh"
)

type opdef struct {
	name    string
	methods []string                           // public methods this operation covers
	mut     bool                               // writes into the matrix under test
	applies func(e *env) bool                  // nil = always
	run     func(e *env, m Matrix) interface{} // executed on the view and on the copy
}

/* operands: small deterministic owners, independent of the matrix under test */

func fB(i, j int) float64 { return float64((i*3+j*5)%4 - 1) } // -1..2, with zeros
func fD(i, j int) float64 { return float64(1 + (i+2*j)%3) }   // 1..3, no zeros
func fL(i, j int) float64 { return float64((2*i+j)%3 - 1) }   // -1..1

func mk(storage string, t ScalarType, r, c int, f func(i, j int) float64) Matrix {
	m := newMat(storage, t, r, c)
	for i := 0; i < r; i++ {
		for j := 0; j < c; j++ {
			if v := f(i, j); v != 0 {
				m.At(i, j).SetFloat64(v)
			}
		}
	}
	return m
}

func mkv(storage string, t ScalarType, n int, f func(i int) float64) Vector {
	v := newVec(storage, t, n)
	for i := 0; i < n; i++ {
		if x := f(i); x != 0 {
			v.At(i).SetFloat64(x)
		}
	}
	return v
}

func fx(i int) float64 { return float64(i%3 - 1) } // -1,0,1,...
func fy(i int) float64 { return float64(2 - i%3) } // 2,1,0,...

const kdim = 2

func sq(e *env) bool       { return e.c.Vr == e.c.Vc }
func nonempty(e *env) bool { return e.c.Vr*e.c.Vc > 0 }

type jstep struct {
	I, J   int
	S1, S2 string
}

func sstr(s ConstScalar) string {
	if s == nil || (reflect.ValueOf(s).Kind() == reflect.Ptr && reflect.ValueOf(s).IsNil()) {
		return "nil"
	}
	return fstr(s.GetFloat64())
}

func errstr(err error) string {
	if err == nil {
		return ""
	}
	return "error"
}

func allOps() []opdef {
	ops := []opdef{}
	add := func(o opdef) { ops = append(ops, o) }
	/* ---- read-only, the matrix under test is the receiver */
	add(opdef{name: "String", methods: []string{"String"}, run: func(e *env, m Matrix) interface{} { return m.String() }})
	add(opdef{name: "Table", methods: []string{"Table"}, run: func(e *env, m Matrix) interface{} { return m.Table() }})
	add(opdef{name: "MarshalJSON", methods: []string{"MarshalJSON"}, run: func(e *env, m Matrix) interface{} {
		b, err := m.MarshalJSON()
		return []string{string(b), errstr(err)}
	}})
	add(opdef{name: "JSONRoundTrip", methods: []string{"MarshalJSON"}, run: func(e *env, m Matrix) interface{} {
		b, err := json.Marshal(m)
		if err != nil {
			return "marshal error"
		}
		r := newMat(e.in.Storage, e.in.T, 1, 1)
		if err := json.Unmarshal(b, r); err != nil {
			return "unmarshal error"
		}
		return snap(r)
	}})
	add(opdef{name: "Export", methods: []string{"Export"}, applies: func(e *env) bool { return e.files },
		run: func(e *env, m Matrix) interface{} {
			fn := filepath.Join(e.tmp, "export.table")
			if err := m.Export(fn); err != nil {
				return "export error"
			}
			b, _ := os.ReadFile(fn)
			r := newMat(e.in.Storage, e.in.T, 1, 1)
			imp, ok := r.(interface{ Import(string) error })
			if !ok {
				return string(b)
			}
			if e.c.Vr*e.c.Vc == 0 && e.in.Storage == "dense" {
				return string(b) // a dense table without elements cannot carry its dimensions
			}
			if err := imp.Import(fn); err != nil {
				return []interface{}{string(b), "import error"}
			}
			return []interface{}{string(b), snap(r)}
		}})
	add(opdef{name: "Equals", methods: []string{"Equals"}, run: func(e *env, m Matrix) interface{} {
		c := e.c
		r := []bool{}
		for _, st := range []string{e.in.Storage, e.in.other()} {
			eq := mk(st, e.in.T, c.Vr, c.Vc, func(i, j int) float64 { return c.val(e.in.Pat, i, j) })
			r = append(r, m.Equals(eq, 1e-8), eq.Equals(m, 1e-8))
			if c.Vr*c.Vc > 0 {
				for _, ij := range [][2]int{{0, 0}, {c.Vr - 1, c.Vc - 1}, {c.Vr / 2, c.Vc / 2}} {
					ne := mk(st, e.in.T, c.Vr, c.Vc, func(i, j int) float64 { return c.val(e.in.Pat, i, j) })
					ne.At(ij[0], ij[1]).SetFloat64(c.val(e.in.Pat, ij[0], ij[1]) + 1)
					r = append(r, m.Equals(ne, 1e-8), ne.Equals(m, 1e-8))
				}
			}
		}
		return r
	}})
	add(opdef{name: "Clone", methods: []string{"CloneMatrix", "CloneConstMatrix", "CloneMagicMatrix"}, run: func(e *env, m Matrix) interface{} {
		r := []interface{}{snap(m.CloneMatrix()), snap(m.CloneConstMatrix())}
		if e.in.magic() {
			r = append(r, snap(m.(MagicMatrix).CloneMagicMatrix()))
		}
		return r
	}})
	add(opdef{name: "Reduce", methods: []string{"Reduce"}, run: func(e *env, m Matrix) interface{} {
		r := m.Reduce(func(a Scalar, b ConstScalar) Scalar { a.Add(a, b); return a }, NewScalar(Float64Type, 0))
		return fstr(r.GetFloat64())
	}})
	add(opdef{name: "IsSymmetric", methods: []string{"IsSymmetric"}, run: func(e *env, m Matrix) interface{} { return m.IsSymmetric(1e-8) }})
	add(opdef{name: "Mnorm", methods: []string{"AsConstVector"}, run: func(e *env, m Matrix) interface{} {
		t := e.in.T
		if !e.in.float() {
			t = Float64Type
		}
		return sstr(NewScalar(t, 0).Mnorm(m))
	}})
	add(opdef{name: "Mtrace", methods: []string{"ConstAt"}, applies: func(e *env) bool { return sq(e) && nonempty(e) },
		run: func(e *env, m Matrix) interface{} { return sstr(NewScalar(Float64Type, 0).Mtrace(m)) }})
	add(opdef{name: "ConstIteratorRaw", methods: []string{"ConstIterator"}, run: func(e *env, m Matrix) interface{} {
		r := []step{}
		n := 0
		for it := m.ConstIterator(); it.Ok(); it.Next() {
			if n++; n > 200 {
				return "nonterminating"
			}
			i, j := it.Index()
			r = append(r, step{i, j, sstr(it.GetConst())})
		}
		return r
	}})
	add(opdef{name: "IteratorFromAll", methods: []string{"IteratorFrom", "ConstIteratorFrom"}, run: func(e *env, m Matrix) interface{} {
		all := [][]step{}
		for i := 0; i < e.c.Vr; i++ {
			for j := 0; j < e.c.Vc; j++ {
				a, fa := walk(m.IteratorFrom(i, j), 200)
				b, fb := walkConst(m.ConstIteratorFrom(i, j), 200)
				if !fa || !fb {
					return "nonterminating"
				}
				all = append(all, a, b)
			}
		}
		return all
	}})
	for _, st := range []string{"same", "other"} {
		st := st
		add(opdef{name: "JointIterator/" + st, methods: []string{"JointIterator"}, run: func(e *env, m Matrix) interface{} {
			b := mk(e.stor(st), e.in.T, e.c.Vr, e.c.Vc, fB)
			r := []jstep{}
			n := 0
			for it := m.JointIterator(b); it.Ok(); it.Next() {
				if n++; n > 200 {
					return "nonterminating"
				}
				i, j := it.Index()
				s1, s2 := it.GetConst()
				r = append(r, jstep{i, j, sstr(s1), sstr(s2)})
			}
			return r
		}})
		// the view as the second stream of somebody else's joint iterator
		add(opdef{name: "JointIteratorOperand/" + st, methods: []string{"ConstIterator"}, run: func(e *env, m Matrix) interface{} {
			b := mk(e.stor(st), e.in.T, e.c.Vr, e.c.Vc, fB)
			r := []jstep{}
			n := 0
			for it := b.JointIterator(m); it.Ok(); it.Next() {
				if n++; n > 200 {
					return "nonterminating"
				}
				i, j := it.Index()
				s1, s2 := it.GetConst()
				r = append(r, jstep{i, j, sstr(s1), sstr(s2)})
			}
			return r
		}})
	}
	add(opdef{name: "AsDenseMatrix", methods: []string{"ConstAt"}, run: func(e *env, m Matrix) interface{} {
		return []interface{}{snap(AsDenseMatrix(e.in.T, m)), snap(AsDenseMatrix(Float64Type, m))}
	}})
	add(opdef{name: "AsSparseMatrix", methods: []string{"ConstIterator"}, run: func(e *env, m Matrix) interface{} {
		return []interface{}{snap(AsSparseMatrix(e.in.T, m)), snap(AsSparseMatrix(Float64Type, m))}
	}})
	/* ---- the matrix under test is an operand; the receiver is a fresh owner */
	type bin struct {
		name string
		f    func(r Matrix, a, b ConstMatrix) Matrix
	}
	bins := []bin{
		{"MaddM", func(r Matrix, a, b ConstMatrix) Matrix { return r.MaddM(a, b) }},
		{"MsubM", func(r Matrix, a, b ConstMatrix) Matrix { return r.MsubM(a, b) }},
		{"MmulM", func(r Matrix, a, b ConstMatrix) Matrix { return r.MmulM(a, b) }},
		{"MdivM", func(r Matrix, a, b ConstMatrix) Matrix { return r.MdivM(a, b) }},
	}
	type sca struct {
		name string
		f    func(r Matrix, a ConstMatrix, b ConstScalar) Matrix
	}
	scas := []sca{
		{"MaddS", func(r Matrix, a ConstMatrix, b ConstScalar) Matrix { return r.MaddS(a, b) }},
		{"MsubS", func(r Matrix, a ConstMatrix, b ConstScalar) Matrix { return r.MsubS(a, b) }},
		{"MmulS", func(r Matrix, a ConstMatrix, b ConstScalar) Matrix { return r.MmulS(a, b) }},
		{"MdivS", func(r Matrix, a ConstMatrix, b ConstScalar) Matrix { return r.MdivS(a, b) }},
	}
	for _, st := range []string{"same", "other"} {
		st := st
		for _, b := range bins {
			b := b
			add(opdef{name: b.name + ".a/" + st, methods: []string{"ConstAt", "ConstIterator"}, run: func(e *env, m Matrix) interface{} {
				r := mk(e.stor(st), e.in.T, e.c.Vr, e.c.Vc, fL)
				return snap(b.f(r, m, mk(e.stor(st), e.in.T, e.c.Vr, e.c.Vc, fD)))
			}})
			add(opdef{name: b.name + ".b/" + st, methods: []string{"ConstAt", "ConstIterator"},
				applies: func(e *env) bool { return b.name != "MdivM" || e.in.Pat == "f" },
				run: func(e *env, m Matrix) interface{} {
					r := mk(e.stor(st), e.in.T, e.c.Vr, e.c.Vc, fL)
					return snap(b.f(r, mk(e.stor(st), e.in.T, e.c.Vr, e.c.Vc, fB), m))
				}})
		}
		for _, s := range scas {
			s := s
			add(opdef{name: s.name + ".a/" + st, methods: []string{"ConstAt", "ConstIterator"}, run: func(e *env, m Matrix) interface{} {
				r := mk(e.stor(st), e.in.T, e.c.Vr, e.c.Vc, fL)
				return snap(s.f(r, m, NewScalar(e.in.T, 2)))
			}})
		}
		add(opdef{name: "MdotM.a/" + st, methods: []string{"ConstAt", "ConstIterator"}, run: func(e *env, m Matrix) interface{} {
			r := newMat(e.stor(st), e.in.T, e.c.Vr, kdim)
			return snap(r.MdotM(m, mk(e.stor(st), e.in.T, e.c.Vc, kdim, fB)))
		}})
		add(opdef{name: "MdotM.b/" + st, methods: []string{"ConstAt", "ConstIteratorFrom"}, run: func(e *env, m Matrix) interface{} {
			r := newMat(e.stor(st), e.in.T, kdim, e.c.Vc)
			return snap(r.MdotM(mk(e.stor(st), e.in.T, kdim, e.c.Vr, fB), m))
		}})
		add(opdef{name: "MdotV/" + st, methods: []string{"Float64At", "ConstAt", "ConstIterator"}, run: func(e *env, m Matrix) interface{} {
			r := newVec(e.stor(st), e.in.T, e.c.Vr)
			return snapv(r.MdotV(m, mkv(e.stor(st), e.in.T, e.c.Vc, fx)))
		}})
		add(opdef{name: "VdotM/" + st, methods: []string{"Float64At", "ConstAt", "ConstIterator"}, run: func(e *env, m Matrix) interface{} {
			r := newVec(e.stor(st), e.in.T, e.c.Vc)
			return snapv(r.VdotM(mkv(e.stor(st), e.in.T, e.c.Vr, fy), m))
		}})
		add(opdef{name: "Set.from/" + st, methods: []string{"ConstAt"}, run: func(e *env, m Matrix) interface{} {
			r := mk(e.stor(st), e.in.T, e.c.Vr, e.c.Vc, fD)
			r.Set(m)
			return snap(r)
		}})
	}
	/* ---- the matrix under test is the receiver of a write */
	for _, st := range []string{"same", "other"} {
		st := st
		for _, b := range bins {
			b := b
			add(opdef{name: b.name + ".r/" + st, methods: []string{b.name}, mut: true, run: func(e *env, m Matrix) interface{} {
				b.f(m, mk(e.stor(st), e.in.T, e.c.Vr, e.c.Vc, fB), mk(e.stor(st), e.in.T, e.c.Vr, e.c.Vc, fD))
				return snap(m)
			}})
		}
		for _, s := range scas {
			s := s
			add(opdef{name: s.name + ".r/" + st, methods: []string{s.name}, mut: true, run: func(e *env, m Matrix) interface{} {
				s.f(m, mk(e.stor(st), e.in.T, e.c.Vr, e.c.Vc, fB), NewScalar(e.in.T, 2))
				return snap(m)
			}})
		}
		add(opdef{name: "MdotM.r/" + st, methods: []string{"MdotM"}, mut: true, run: func(e *env, m Matrix) interface{} {
			m.MdotM(mk(e.stor(st), e.in.T, e.c.Vr, kdim, fB), mk(e.stor(st), e.in.T, kdim, e.c.Vc, fD))
			return snap(m)
		}})
		add(opdef{name: "Outer.r/" + st, methods: []string{"Outer"}, mut: true, run: func(e *env, m Matrix) interface{} {
			m.Outer(mkv(e.stor(st), e.in.T, e.c.Vr, fy), mkv(e.stor(st), e.in.T, e.c.Vc, fx))
			return snap(m)
		}})
		add(opdef{name: "Set.r/" + st, methods: []string{"Set"}, mut: true, run: func(e *env, m Matrix) interface{} {
			m.Set(mk(e.stor(st), e.in.T, e.c.Vr, e.c.Vc, fB))
			return snap(m)
		}})
	}
	// in-place forms: the matrix under test is receiver and first operand
	for _, b := range bins {
		b := b
		add(opdef{name: b.name + ".ra", methods: []string{b.name}, mut: true, run: func(e *env, m Matrix) interface{} {
			b.f(m, m, mk(e.in.Storage, e.in.T, e.c.Vr, e.c.Vc, fD))
			return snap(m)
		}})
	}
	for _, s := range scas {
		s := s
		add(opdef{name: s.name + ".ra", methods: []string{s.name}, mut: true, run: func(e *env, m Matrix) interface{} {
			s.f(m, m, NewScalar(e.in.T, 2))
			return snap(m)
		}})
	}
	add(opdef{name: "SetIdentity", methods: []string{"SetIdentity"}, mut: true, run: func(e *env, m Matrix) interface{} { m.SetIdentity(); return snap(m) }})
	add(opdef{name: "Reset", methods: []string{"Reset"}, mut: true, run: func(e *env, m Matrix) interface{} { m.Reset(); return snap(m) }})
	add(opdef{name: "Map", methods: []string{"Map"}, mut: true, run: func(e *env, m Matrix) interface{} {
		m.Map(func(s Scalar) { s.Mul(s, NewScalar(e.in.T, 2)) })
		return snap(m)
	}})
	add(opdef{name: "MapSet", methods: []string{"MapSet"}, mut: true, run: func(e *env, m Matrix) interface{} {
		m.MapSet(func(s ConstScalar) Scalar { r := NewScalar(e.in.T, 0); r.Mul(s, NewScalar(e.in.T, 3)); return r })
		return snap(m)
	}})
	add(opdef{name: "WriteZerosThenObserve", methods: []string{"At"}, mut: true, applies: nonempty, run: func(e *env, m Matrix) interface{} {
		c := e.c
		content := make([][]float64, c.Vr)
		for i := range content {
			content[i] = make([]float64, c.Vc)
			for j := range content[i] {
				content[i][j] = c.val(e.in.Pat, i, j)
				if content[i][j] == 0 || (i+j)%3 == 0 {
					content[i][j] = float64(40 + i*c.Vc + j)
					m.At(i, j).SetFloat64(content[i][j])
				}
			}
		}
		return []interface{}{snap(m), e.observers(m, content)}
	}})
	add(opdef{name: "IteratorWrite", methods: []string{"Iterator"}, mut: true, run: func(e *env, m Matrix) interface{} {
		n := 0
		for it := m.Iterator(); it.Ok(); it.Next() {
			if n++; n > 200 {
				return "nonterminating"
			}
			s := it.Get()
			s.SetFloat64(s.GetFloat64() + 1)
		}
		return snap(m)
	}})
	add(opdef{name: "JointIteratorWrite", methods: []string{"JointIterator"}, mut: true, run: func(e *env, m Matrix) interface{} {
		b := mk(e.in.Storage, e.in.T, e.c.Vr, e.c.Vc, fB)
		n := 0
		for it := m.JointIterator(b); it.Ok(); it.Next() {
			if n++; n > 200 {
				return "nonterminating"
			}
			s1, s2 := it.Get()
			if s1 != nil && !reflect.ValueOf(s1).IsZero() {
				s1.Add(s1, s2)
			}
		}
		return snap(m)
	}})
	add(opdef{name: "Swap", methods: []string{"Swap"}, mut: true, applies: nonempty, run: func(e *env, m Matrix) interface{} {
		m.Swap(0, 0, e.c.Vr-1, e.c.Vc-1)
		m.Swap(e.c.Vr/2, 0, 0, e.c.Vc/2)
		return snap(m)
	}})
	perm := func(n int) []int { // interchange partners, in range
		p := make([]int, n)
		for i := range p {
			p[i] = (i + 1) % n
			if p[i] < i {
				p[i] = i
			}
		}
		return p
	}
	add(opdef{name: "SwapRows", methods: []string{"SwapRows"}, mut: true, applies: nonempty, run: func(e *env, m Matrix) interface{} {
		err := m.SwapRows(0, e.c.Vr-1)
		return []interface{}{errstr(err), snap(m)}
	}})
	add(opdef{name: "SwapColumns", methods: []string{"SwapColumns"}, mut: true, applies: nonempty, run: func(e *env, m Matrix) interface{} {
		err := m.SwapColumns(0, e.c.Vc-1)
		return []interface{}{errstr(err), snap(m)}
	}})
	add(opdef{name: "PermuteRows", methods: []string{"PermuteRows"}, mut: true, applies: nonempty, run: func(e *env, m Matrix) interface{} {
		err := m.PermuteRows(perm(e.c.Vr))
		return []interface{}{errstr(err), snap(m)}
	}})
	add(opdef{name: "PermuteColumns", methods: []string{"PermuteColumns"}, mut: true, applies: nonempty, run: func(e *env, m Matrix) interface{} {
		err := m.PermuteColumns(perm(e.c.Vc))
		return []interface{}{errstr(err), snap(m)}
	}})
	add(opdef{name: "SymmetricPermutation", methods: []string{"SymmetricPermutation"}, mut: true, applies: nonempty, run: func(e *env, m Matrix) interface{} {
		err := m.SymmetricPermutation(perm(e.c.Vr))
		return []interface{}{errstr(err), snap(m)}
	}})
	add(opdef{name: "Jacobian", methods: []string{"Jacobian"}, mut: true, applies: nonempty, run: func(e *env, m Matrix) interface{} {
		n, k := e.c.Vr, e.c.Vc
		x := NullDenseMagicVector(Real64Type, k)
		for j := 0; j < k; j++ {
			x.At(j).SetFloat64(float64(j + 1))
		}
		f := func(x ConstVector) ConstVector {
			y := NullDenseMagicVector(Real64Type, n)
			t := NewReal64(0)
			for i := 0; i < n; i++ {
				for j := 0; j < k; j++ {
					t.Mul(x.ConstAt(j), ConstFloat64(float64((i+2*j)%3)))
					y.At(i).Add(y.At(i), t)
				}
			}
			return y
		}
		m.Jacobian(f, x)
		return snap(m)
	}})
	add(opdef{name: "Hessian", methods: []string{"Hessian"}, mut: true, applies: func(e *env) bool { return sq(e) && nonempty(e) },
		run: func(e *env, m Matrix) interface{} {
			n := e.c.Vr
			x := NullDenseMagicVector(Real64Type, n)
			for j := 0; j < n; j++ {
				x.At(j).SetFloat64(float64(j + 1))
			}
			f := func(x ConstVector) ConstScalar {
				r := NewReal64(0)
				t := NewReal64(0)
				for i := 0; i < n; i++ {
					for j := 0; j < n; j++ {
						t.Mul(x.ConstAt(i), x.ConstAt(j))
						t.Mul(t, ConstFloat64(float64((i+j)%3)))
						r.Add(r, t)
					}
				}
				return r
			}
			m.Hessian(f, x)
			return snap(m)
		}})
	/* ---- magic matrices: derivatives of the elements */
	dsnap := func(m Matrix) interface{} {
		r, c := m.Dims()
		s := []string{}
		for i := 0; i < r; i++ {
			for j := 0; j < c; j++ {
				x := m.ConstAt(i, j)
				d := fmt.Sprintf("%v|o%d|n%d", x.GetFloat64(), x.GetOrder(), x.GetN())
				for k := 0; k < x.GetN() && x.GetOrder() >= 1; k++ {
					d += fmt.Sprintf("|%v", x.GetDerivative(k))
				}
				s = append(s, d)
			}
		}
		return s
	}
	isMagic := func(e *env) bool { return e.in.magic() }
	add(opdef{name: "Variables", methods: []string{"Variables"}, mut: true, applies: isMagic, run: func(e *env, m Matrix) interface{} {
		err := m.(MagicMatrix).Variables(1)
		return []interface{}{errstr(err), dsnap(m)}
	}})
	add(opdef{name: "ResetDerivatives", methods: []string{"ResetDerivatives"}, mut: true, applies: isMagic, run: func(e *env, m Matrix) interface{} {
		r, c := m.Dims()
		for i := 0; i < r; i++ {
			for j := 0; j < c; j++ {
				m.(MagicMatrix).MagicAt(i, j).SetVariable(i*c+j, r*c, 1)
			}
		}
		m.(MagicMatrix).ResetDerivatives()
		return dsnap(m)
	}})
	return ops
}

var opsTable = append(allOps(), concreteOps()...)

var emptyOps = map[string]bool{"String": true, "Table": true, "MarshalJSON": true, "JSONRoundTrip": true, "Export": true,
	"Clone": true, "ConstIteratorRaw": true, "Reduce": true, "Reset": true, "SetIdentity": true, "Map": true,
	"IteratorWrite": true, "AsDenseMatrix": true, "AsSparseMatrix": true, "Equals": true,
	"MaddM.a/same": true, "MaddM.r/same": true,
	"Set.from/same": true, "Set.r/same": true}

var swapFamily = map[string]bool{"Swap": true, "SwapRows": true, "SwapColumns": true, "PermuteRows": true,
	"PermuteColumns": true, "SymmetricPermutation": true}

func (e *env) stor(st string) string {
	if st == "same" {
		return e.in.Storage
	}
	return e.in.other()
}

type outcome struct {
	Panic string      `json:"panic"`
	Obs   interface{} `json:"obs"`
}

func runOp(e *env, o *opdef, m Matrix) outcome {
	var r outcome
	r.Panic = vh.Try(func() {
		r.Obs = o.run(e, m)
		if o.mut {
			// what the iterators of the written matrix deliver, next to what element access shows
			r.Obs = []interface{}{r.Obs, iterSnap(m)}
		}
	})
	if r.Panic != "" {
		r.Obs = nil
	}
	return r
}

func (e *env) differential() {
	c := e.c
	in := e.in
	var P, V, C Matrix
	dirty := true
	base := e.pexpect()
	for k := range opsTable {
		o := &opsTable[k]
		if e.onlyOp != "" && e.onlyOp != o.name {
			continue
		}
		if o.applies != nil && !o.applies(e) {
			continue
		}
		if c.Vr*c.Vc == 0 && !emptyOps[o.name] {
			continue // views without elements: printing, encoding, cloning, iteration and whole-matrix writes only
		}
		if dirty || o.mut {
			if msg := vh.Try(func() { P, V = e.fresh(); C = in.copyOf(c) }); msg != "" {
				e.bad(o.name, "panic_construct", "no panic", msg)
				return
			}
			dirty = o.mut
		}
		e.opcount[o.name]++
		oc := runOp(e, o, C)
		if oc.Panic != "" {
			// not a legal operation on such a matrix (e.g. integer division by zero,
			// matrices without elements): says nothing about views
			e.stats["skipped_copy_panics"]++
			e.opcount["copy_panics:"+o.name]++
			dirty = true
			continue
		}
		if s, ok := oc.Obs.(string); ok && s == na {
			e.opcount["not_available:"+o.name]++ // the element type has no such concrete method
			continue
		}
		ov := runOp(e, o, V)
		e.stats["differential"]++
		if ov.Panic != "" {
			e.bad(o.name, "panic_on_view", oc.Obs, ov.Panic)
			dirty = true
			continue
		}
		if canon(ov.Obs) != canon(oc.Obs) {
			what := "differs_from_copy"
			if (o.name == "MarshalJSON" || o.name == "JSONRoundTrip") && in.Storage == "sparse" && !c.Own {
				// known deviation (sparse Set, C03/M1): MarshalJSON re-packs a slice with
				// tmp.Set(slice) and sparse Set only visits entries the receiver stores, so
				// the encoded matrix is the zero matrix of the same dimensions
				if oz := runOp(e, o, newMat("sparse", in.T, c.Vr, c.Vc)); oz.Panic == "" && canon(oz.Obs) == canon(ov.Obs) {
					what = "sparse_repack_set_copies_nothing"
				}
			}
			e.bad(o.name, what, oc.Obs, ov.Obs)
			dirty = true
			continue
		}
		// frame: what the owner holds afterwards
		g := psnap(P, c)
		if !o.mut {
			if canon(g) != canon(base) {
				e.bad(o.name, "parent_changed_by_read", base, g)
				dirty = true
			}
			continue
		}
		x := append([]string{}, base...)
		after := snap(C)
		if len(after) != c.Vr {
			continue // the operation re-shaped the copy (not a view matter)
		}
		absent := false
		for i := 0; i < c.Vr; i++ {
			for j := 0; j < c.Vc; j++ {
				x[c.Den[i][j]] = after[i][j]
				if e.absentAfterT(i, j) && after[i][j] != g[c.Den[i][j]] && g[c.Den[i][j]] == "0" {
					// known deviation S2: the cell was absent when sparse T() copied the keys
					x[c.Den[i][j]] = "0"
					absent = true
				}
			}
		}
		if canon(g) != canon(x) {
			what := "parent_differs"
			if swapFamily[o.name] && in.Storage == "sparse" && c.HasT && canon(g) == canon(base) {
				// known deviation S2: sparse T() is a re-keyed copy of the key map, exchanging
				// keys of the copy does not reach the owner
				what = "swap_after_T_not_shared"
			}
			e.bad(o.name, what, x, g)
		} else if absent {
			e.bad(o.name, "absent_cell_after_T_not_shared", "write reaches the owner", g)
		}
	}
}

/* ------------------------------------------------------ API surface */

func interfaceMethods() []string {
	seen := map[string]bool{}
	out := []string{}
	for _, t := range []reflect.Type{
		reflect.TypeOf((*Matrix)(nil)).Elem(), reflect.TypeOf((*MagicMatrix)(nil)).Elem(), reflect.TypeOf((*ConstMatrix)(nil)).Elem()} {
		for i := 0; i < t.NumMethod(); i++ {
			n := t.Method(i).Name
			if n[0] >= 'A' && n[0] <= 'Z' && !seen[n] {
				seen[n] = true
				out = append(out, n)
			}
		}
	}
	return out
}
