package main

// Direct checks: what the real view does is compared with the tables printed by
// TLC (denotation, rows, columns, diagonal, AsVector elements, iteration
// sequences, Tip, write-through targets).

import (
	"fmt"
	"sort"
	"strings"

	. "github.com/pbenner/autodiff"
	"verifharness/vh"
)

type env struct {
	c       *tcase
	in      inst
	rep     *reporter
	tmp     string
	onlyOp  string
	stats   map[string]int
	opcount map[string]int
	files   bool
}

// public methods exercised by the direct checks (API-surface accounting)
var directMethods = []string{"Dims", "At", "ConstAt", "Int8At", "Int16At", "Int32At", "Int64At", "IntAt", "Float32At",
	"Float64At", "Row", "Col", "Diag", "ConstRow", "ConstCol", "ConstDiag", "AsVector", "AsConstVector",
	"ConstIterator", "Iterator", "IteratorFrom", "ConstIteratorFrom", "Slice", "ConstSlice", "T", "Tip",
	"CloneMatrix", "MagicAt", "MagicSlice", "MagicT", "AsMagicVector", "MagicIterator", "MagicIteratorFrom",
	"ElementType"}

func (e *env) bad(op, what string, exp, got interface{}) {
	e.rep.mismatch(e.c, e.in, op, what, exp, got)
}

// section runs one named check, honours VERIF_ONLY_OP, turns a panic into an observation
func (e *env) section(op string, f func()) bool {
	if e.onlyOp != "" && e.onlyOp != op {
		return true
	}
	e.opcount[op]++
	if msg := vh.Try(f); msg != "" {
		what := "panic"
		if op == "Tip" && e.in.Storage == "sparse" && e.in.Pat != "f" && strings.Contains(msg, "nil pointer") {
			// sparse vector Swap with an absent key leaves a nil placeholder (sparse vectors: C11)
			what = "panic_swap_absent_key"
		}
		e.bad(op, what, "no panic", msg)
		return false
	}
	return true
}

func (e *env) fresh() (Matrix, Matrix) {
	p := e.in.parent(e.c)
	return p, applyWord(p, e.c.W, false)
}

// values of the owner, cell by cell
func psnap(p Matrix, c *tcase) []string {
	s := make([]string, c.Pr*c.Pc)
	for k := range s {
		s[k] = fstr(p.ConstAt(k/c.Pc, k%c.Pc).GetFloat64())
	}
	return s
}

func (e *env) pexpect() []string {
	s := make([]string, e.c.Pr*e.c.Pc)
	for k := range s {
		s[k] = fstr(e.c.pval(e.in.Pat, k))
	}
	return s
}

func (e *env) vexpect() [][]string {
	c := e.c
	s := make([][]string, c.Vr)
	for i := range s {
		s[i] = make([]string, c.Vc)
		for j := range s[i] {
			s[i][j] = fstr(c.val(e.in.Pat, i, j))
		}
	}
	return s
}

func cellsToVals(c *tcase, pat string, cells []int) []string {
	s := make([]string, len(cells))
	for i, k := range cells {
		s[i] = fstr(c.pval(pat, k))
	}
	return s
}

type step struct {
	I, J int
	V    string
}

// sequence yielded by an iterator; elements whose value is zero are dropped (the API does
// not say whether zero elements are visited)
func walkConst(it MatrixConstIterator, limit int) ([]step, bool) {
	r := []step{}
	n := 0
	for ; it.Ok(); it.Next() {
		n++
		if n > limit {
			return r, false
		}
		i, j := it.Index()
		s := it.GetConst()
		if s == nil {
			r = append(r, step{i, j, "nil"})
			continue
		}
		if v := s.GetFloat64(); v != 0 {
			r = append(r, step{i, j, fstr(v)})
		}
	}
	return r, true
}

func walk(it MatrixIterator, limit int) ([]step, bool) {
	r := []step{}
	n := 0
	for ; it.Ok(); it.Next() {
		n++
		if n > limit {
			return r, false
		}
		i, j := it.Index()
		s := it.Get()
		if s == nil {
			r = append(r, step{i, j, "nil"})
			continue
		}
		if v := s.GetFloat64(); v != 0 {
			r = append(r, step{i, j, fstr(v)})
		}
	}
	return r, true
}

func expSteps(t [][]int) []step {
	r := []step{}
	for _, x := range t {
		r = append(r, step{x[0], x[1], fstr(float64(x[2]))})
	}
	return r
}

func (e *env) cmpSteps(op string, got []step, fin bool, exp []step) {
	if !fin {
		e.bad(op, "nonterminating", exp, got)
	} else if canon(got) != canon(exp) {
		e.bad(op, "sequence", exp, got)
	}
}

func (e *env) checkCase() {
	c := e.c
	in := e.in
	var P, V Matrix
	if msg := vh.Try(func() { P, V = e.fresh() }); msg != "" {
		if e.onlyOp == "" || e.onlyOp == "construct" {
			e.bad("construct", "panic", "no panic", msg)
		}
		return
	}
	ok := true
	e.section("Dims", func() {
		r, cc := V.Dims()
		if r != c.Vr || cc != c.Vc {
			e.bad("Dims", "value", []int{c.Vr, c.Vc}, []int{r, cc})
			ok = false
		}
	})
	if !ok {
		return
	}
	exp := e.vexpect()
	limit := 4*(c.Pr*c.Pc) + 8
	ok = e.section("At", func() {
		got := make([][]string, c.Vr)
		for i := range got {
			got[i] = make([]string, c.Vc)
			for j := range got[i] {
				got[i][j] = fstr(V.At(i, j).GetFloat64())
			}
		}
		if canon(got) != canon(exp) {
			e.bad("At", "value", exp, got)
			ok = false
		}
	})
	ok = ok && e.section("ConstAt", func() {
		if got := snap(V); canon(got) != canon(exp) {
			e.bad("ConstAt", "value", exp, got)
			ok = false
		}
	})
	e.section("TypedAt", func() {
		for i := 0; i < c.Vr; i++ {
			for j := 0; j < c.Vc; j++ {
				v := c.val(in.Pat, i, j)
				g := []float64{float64(V.Int8At(i, j)), float64(V.Int16At(i, j)), float64(V.Int32At(i, j)),
					float64(V.Int64At(i, j)), float64(V.IntAt(i, j)), float64(V.Float32At(i, j)), V.Float64At(i, j)}
				for _, x := range g {
					if x != v {
						e.bad("TypedAt", "value", v, g)
						return
					}
				}
			}
		}
		if V.ElementType() != in.T {
			e.bad("TypedAt", "element_type", in.TName, fmt.Sprint(V.ElementType()))
		}
	})
	if !ok {
		return // every other observation is meaningless when the addressing is wrong
	}
	// rows, columns, diagonal
	for _, acc := range []string{"Row", "ConstRow"} {
		acc := acc
		e.section(acc, func() {
			for i := 0; i < c.Vr; i++ {
				var v ConstVector
				if acc == "Row" {
					v = V.Row(i)
				} else {
					if c.Vc == 0 {
						continue // ConstRow of a matrix without columns is not defined for owners either
					}
					v = V.ConstRow(i)
				}
				if g, x := snapv(v), cellsToVals(c, in.Pat, c.Den[i]); canon(g) != canon(x) {
					e.bad(acc, "value", x, g)
					return
				}
			}
		})
	}
	for _, acc := range []string{"Col", "ConstCol"} {
		acc := acc
		e.section(acc, func() {
			for j := 0; j < c.Vc; j++ {
				var v ConstVector
				if acc == "Col" {
					v = V.Col(j)
				} else {
					if c.Vr == 0 {
						continue
					}
					v = V.ConstCol(j)
				}
				if g, x := snapv(v), cellsToVals(c, in.Pat, c.Cols[j]); canon(g) != canon(x) {
					e.bad(acc, "value", x, g)
					return
				}
			}
		})
	}
	if c.Diag.Sq {
		for _, acc := range []string{"Diag", "ConstDiag"} {
			acc := acc
			e.section(acc, func() {
				var v ConstVector
				if acc == "Diag" {
					v = V.Diag()
				} else {
					v = V.ConstDiag()
				}
				if g, x := snapv(v), cellsToVals(c, in.Pat, c.Diag.D); canon(g) != canon(x) {
					e.bad(acc, "value", x, g)
				}
			})
		}
	}
	// AsVector / AsConstVector: exactly the elements of the view (order unspecified)
	for _, acc := range []string{"AsVector", "AsConstVector", "AsMagicVector"} {
		acc := acc
		if acc == "AsMagicVector" && !in.magic() {
			continue
		}
		e.section(acc, func() {
			var v ConstVector
			switch acc {
			case "AsVector":
				v = V.AsVector()
			case "AsConstVector":
				v = V.AsConstVector()
			default:
				v = V.(MagicMatrix).AsMagicVector()
			}
			g := snapv(v)
			x := cellsToVals(c, in.Pat, c.Vec)
			if len(g) != len(x) {
				e.bad(acc, "length", len(x), len(g))
				return
			}
			sort.Strings(g)
			sort.Strings(x)
			if canon(g) != canon(x) {
				e.bad(acc, "elements", x, g)
			}
		})
	}
	// iteration
	e.section("ConstIterator", func() {
		g, fin := walkConst(V.ConstIterator(), limit)
		e.cmpSteps("ConstIterator", g, fin, expSteps(c.It[tab(in.Pat)]))
	})
	e.section("Iterator", func() {
		g, fin := walk(V.Iterator(), limit)
		e.cmpSteps("Iterator", g, fin, expSteps(c.It[tab(in.Pat)]))
	})
	if c.Vr*c.Vc > 0 {
		e.section("ConstIteratorFrom", func() {
			g, fin := walkConst(V.ConstIteratorFrom(c.Itfrom.I, c.Itfrom.J), limit)
			e.cmpSteps("ConstIteratorFrom", g, fin, expSteps(c.Itfrom.S[tab(in.Pat)]))
		})
		e.section("IteratorFrom", func() {
			g, fin := walk(V.IteratorFrom(c.Itfrom.I, c.Itfrom.J), limit)
			e.cmpSteps("IteratorFrom", g, fin, expSteps(c.Itfrom.S[tab(in.Pat)]))
		})
	}
	if in.magic() {
		e.section("MagicIterator", func() {
			mm := V.(MagicMatrix)
			r := []step{}
			n := 0
			for it := mm.MagicIterator(); it.Ok(); it.Next() {
				if n++; n > limit {
					e.bad("MagicIterator", "nonterminating", nil, r)
					return
				}
				i, j := it.Index()
				if v := it.GetMagic().GetFloat64(); v != 0 {
					r = append(r, step{i, j, fstr(v)})
				}
			}
			e.cmpSteps("MagicIterator", r, true, expSteps(c.It[tab(in.Pat)]))
			if c.Vr*c.Vc > 0 {
				r = []step{}
				n = 0
				for it := mm.MagicIteratorFrom(c.Itfrom.I, c.Itfrom.J); it.Ok(); it.Next() {
					if n++; n > limit {
						e.bad("MagicIterator", "nonterminating", nil, r)
						return
					}
					i, j := it.Index()
					if v := it.GetMagic().GetFloat64(); v != 0 {
						r = append(r, step{i, j, fstr(v)})
					}
				}
				e.cmpSteps("MagicIterator", r, true, expSteps(c.Itfrom.S[tab(in.Pat)]))
			}
		})
		// the same word through MagicSlice / MagicT, elements through MagicAt
		e.section("MagicWord", func() {
			p := in.parent(c)
			mv := applyWord(p, c.W, true).(MagicMatrix)
			r, cc := mv.Dims()
			if r != c.Vr || cc != c.Vc {
				e.bad("MagicWord", "dims", []int{c.Vr, c.Vc}, []int{r, cc})
				return
			}
			got := make([][]string, c.Vr)
			for i := range got {
				got[i] = make([]string, c.Vc)
				for j := range got[i] {
					got[i][j] = fstr(mv.MagicAt(i, j).GetFloat64())
				}
			}
			if canon(got) != canon(exp) {
				e.bad("MagicWord", "value", exp, got)
			}
		})
	}
	// ConstSlice as the last step of the word
	if n := len(c.W); n > 0 && c.W[n-1].Op == "S" {
		e.section("ConstSlice", func() {
			p := in.parent(c)
			o := c.W[n-1]
			cv := applyWord(p, c.W[:n-1], false).ConstSlice(o.A, o.B, o.C, o.D)
			r, cc := cv.Dims()
			if r != c.Vr || cc != c.Vc {
				e.bad("ConstSlice", "dims", []int{c.Vr, c.Vc}, []int{r, cc})
			} else if g := snap(cv); canon(g) != canon(exp) {
				e.bad("ConstSlice", "value", exp, g)
			}
		})
	}
	// the owner must still hold its values (nothing above is a write)
	e.section("ReadOnlyFrame", func() {
		if g, x := psnap(P, c), e.pexpect(); canon(g) != canon(x) {
			e.bad("ReadOnlyFrame", "parent_changed", x, g)
		}
	})
	e.writeThrough()
	e.copies()
	if c.Own {
		e.section("Tip", func() {
			_, v := e.fresh()
			v.Tip()
			r, cc := v.Dims()
			if r != c.Vc || cc != c.Vr {
				e.bad("Tip", "dims", []int{c.Vc, c.Vr}, []int{r, cc})
				return
			}
			x := make([][]string, len(c.Tip))
			for i := range x {
				x[i] = cellsToVals(c, in.Pat, c.Tip[i])
			}
			if g := snap(v); canon(g) != canon(x) {
				e.bad("Tip", "value", x, g)
			}
		})
	}
	if in.magic() {
		e.derivFrame()
	}
	e.differential()
}

// ResetDerivatives / Variables on a view of a magic matrix must leave the derivatives of the
// owner's elements outside the view alone
func (e *env) derivFrame() {
	c := e.c
	inView := map[int]bool{}
	for _, k := range c.Vec {
		inView[k] = true
	}
	prep := func() (MagicMatrix, MagicMatrix) {
		P, V := e.fresh()
		n := c.Pr * c.Pc
		for k := 0; k < n; k++ {
			if c.pval(e.in.Pat, k) != 0 {
				P.(MagicMatrix).MagicAt(k/c.Pc, k%c.Pc).SetVariable(k, n, 1)
			}
		}
		return P.(MagicMatrix), V.(MagicMatrix)
	}
	outside := func(op string, P MagicMatrix) {
		n := c.Pr * c.Pc
		for k := 0; k < n; k++ {
			if inView[k] || c.pval(e.in.Pat, k) == 0 {
				continue
			}
			x := P.ConstAt(k/c.Pc, k%c.Pc)
			if x.GetOrder() != 1 || x.GetN() != n || x.GetDerivative(k) != 1 {
				e.bad(op, "derivatives_outside_view_changed", vh.M{"cell": k, "order": 1, "n": n},
					vh.M{"order": x.GetOrder(), "n": x.GetN()})
				return
			}
		}
	}
	e.section("ResetDerivatives", func() {
		P, V := prep()
		V.ResetDerivatives()
		for i := 0; i < c.Vr; i++ {
			for j := 0; j < c.Vc; j++ {
				x := V.ConstAt(i, j)
				for k := 0; k < x.GetN() && x.GetOrder() >= 1; k++ {
					if x.GetDerivative(k) != 0 {
						e.bad("ResetDerivatives", "derivative_not_reset", 0, x.GetDerivative(k))
						return
					}
				}
			}
		}
		outside("ResetDerivatives", P)
	})
	e.section("Variables", func() {
		P, V := prep()
		if err := V.Variables(1); err != nil {
			e.bad("Variables", "error", nil, err.Error())
			return
		}
		outside("Variables", P)
	})
}

const wval = 99.0 // fits every element type

// absentAfterT: the cell was not stored by the sparse owner when T() re-keyed a copy of
// the storage (root cause S2, modelled as a known deviation)
func (e *env) absentAfterT(i, j int) bool {
	return e.in.Storage == "sparse" && e.c.HasT && e.c.val(e.in.Pat, i, j) == 0
}

// absentAtT: the same for a freshly constructed view on which nothing has iterated yet:
// under pattern "s" the zero element is a stored entry, T() shares its scalar, no deviation
func (e *env) absentAtT(i, j int) bool {
	return e.absentAfterT(i, j) && e.in.Pat != "s"
}

// observers that are driven by the iterators / the key index of the matrix rather than by
// element access: used after writes (an entry that At()/ConstAt see but the index does not
// know is invisible to all of them)
func iterSnap(m ConstMatrix) interface{} {
	r, c := m.Dims()
	s := make([][]string, r)
	for i := range s {
		s[i] = make([]string, c)
		for j := range s[i] {
			s[i][j] = "0"
		}
	}
	n := 0
	for it := m.ConstIterator(); it.Ok(); it.Next() {
		if n++; n > 400 {
			return "nonterminating"
		}
		i, j := it.Index()
		if i < 0 || j < 0 || i >= r || j >= c {
			return fmt.Sprintf("index (%d,%d) outside %dx%d", i, j, r, c)
		}
		if x := it.GetConst(); x != nil {
			s[i][j] = fstr(x.GetFloat64())
		}
	}
	return s
}

func (e *env) observers(m Matrix, content [][]float64) interface{} {
	c := e.c
	in := e.in
	r := []interface{}{iterSnap(m)}
	for _, st := range []string{in.Storage, in.other()} {
		eq := ownerOf(st, in.T, content, c.Vr, c.Vc)
		r = append(r, m.Equals(eq, 1e-8), eq.Equals(m, 1e-8))
	}
	r = append(r, snapv(newVec(in.Storage, in.T, c.Vr).MdotV(m, mkv(in.Storage, in.T, c.Vc, fD1))))
	r = append(r, snapv(newVec(in.Storage, in.T, c.Vc).VdotM(mkv(in.Storage, in.T, c.Vr, fD1), m)))
	r = append(r, snap(newMat(in.Storage, in.T, c.Vr, kdim).MdotM(m, mk(in.Storage, in.T, c.Vc, kdim, fD))))
	r = append(r, snap(AsSparseMatrix(in.T, m)), iterSnap(m.T()), iterSnap(m.Slice(c.Vr/2, c.Vr, 0, c.Vc)),
		iterSnap(m.Slice(0, c.Vr, c.Vc/2, c.Vc)))
	if in.Storage == "dense" || c.Own {
		b, _ := m.MarshalJSON() // (sparse slices: known finding C10-sparse-json-of-slice-empty)
		r = append(r, string(b))
	}
	return r
}

func fD1(i int) float64 { return float64(1 + i%3) }

// writeThroughWith: a write to element (i,j) of a reference view changes exactly the owner
// cell den[i][j] printed by TLC
func (e *env) writeThroughWith(op string, observe bool, build func() (Matrix, Matrix), set func(V Matrix, i, j int, v float64)) {
	c := e.c
	e.section(op, func() {
		P, V := build()
		base := e.pexpect()
		first := true
		for i := 0; i < c.Vr; i++ {
			for j := 0; j < c.Vc; j++ {
				k := c.Den[i][j]
				if e.in.Pat == "s" {
					P, V = build() // iterators delete the zero entries they pass: stored zeros need a fresh view
				}
				set(V, i, j, wval)
				if g := V.ConstAt(i, j).GetFloat64(); g != wval {
					e.bad(op, "view_lost_write", wval, g)
					return
				}
				x := append([]string{}, base...)
				x[k] = fstr(wval)
				g := psnap(P, c)
				if canon(g) != canon(x) {
					what := "parent_differs"
					if e.absentAtT(i, j) && canon(g) == canon(base) {
						what = "absent_cell_after_T_not_shared"
					}
					e.bad(op, what, vh.M{"write": []int{i, j}, "cell": k, "parent": x}, g)
					if what == "parent_differs" {
						return
					}
				}
				if observe && (first || c.val(e.in.Pat, i, j) == 0) {
					// the written view seen through iterator-driven operations = the same
					// operations on an independent owner holding the same elements
					first = false
					content := make([][]float64, c.Vr)
					for a := range content {
						content[a] = make([]float64, c.Vc)
						for b := range content[a] {
							content[a][b] = c.val(e.in.Pat, a, b)
						}
					}
					content[i][j] = wval
					C := ownerOf(e.in.Storage, e.in.T, content, c.Vr, c.Vc)
					var oc, ov interface{}
					if msg := vh.Try(func() { oc = e.observers(C, content) }); msg == "" {
						if msg := vh.Try(func() { ov = e.observers(V, content) }); msg != "" {
							e.bad(op, "observer_panic_after_write", vh.M{"write": []int{i, j}}, msg)
							return
						}
						if canon(ov) != canon(oc) {
							e.bad(op, "observers_after_write_differ_from_copy", vh.M{"write": []int{i, j}, "obs": oc}, ov)
							return
						}
					}
				}
				set(V, i, j, c.val(e.in.Pat, i, j))
			}
		}
	})
}

func (e *env) writeThrough() {
	c := e.c
	e.writeThroughWith("WriteThrough", true, e.fresh, func(V Matrix, i, j int, v float64) { V.At(i, j).SetFloat64(v) })
	if e.in.magic() {
		e.writeThroughWith("MagicWriteThrough", false, func() (Matrix, Matrix) {
			p := e.in.parent(c)
			return p, applyWord(p, c.W, true)
		}, func(V Matrix, i, j int, v float64) { V.(MagicMatrix).MagicAt(i, j).SetFloat64(v) })
	}
	// a write through an iterator positioned on the element
	e.writeThroughWith("IteratorWriteThrough", false, e.fresh, func(V Matrix, i, j int, v float64) {
		if V.ConstAt(i, j).GetFloat64() == 0 {
			V.At(i, j).SetFloat64(v) // iterators need not visit zero elements
			return
		}
		it := V.IteratorFrom(i, j)
		if a, b := it.Index(); !it.Ok() || a != i || b != j {
			panic(fmt.Sprintf("IteratorFrom(%d,%d) is at (%d,%d) ok=%v", i, j, a, b, it.Ok()))
		}
		it.Get().SetFloat64(v)
	})
	e.section("ReadThrough", func() {
		P, V := e.fresh()
		for i := 0; i < c.Vr; i++ {
			for j := 0; j < c.Vc; j++ {
				k := c.Den[i][j]
				P.At(k/c.Pc, k%c.Pc).SetFloat64(wval)
				if g := V.ConstAt(i, j).GetFloat64(); g != wval {
					what := "view_does_not_see_parent_write"
					if e.absentAtT(i, j) && g == 0 {
						what = "absent_cell_after_T_not_shared"
					}
					e.bad("ReadThrough", what, vh.M{"read": []int{i, j}, "cell": k, "value": wval}, g)
					if what != "absent_cell_after_T_not_shared" {
						return
					}
				}
				P.At(k/c.Pc, k%c.Pc).SetFloat64(c.val(e.in.Pat, i, j))
			}
		}
	})
}

// copying accessors (README: Row/Col return a copy; Clone* return deep copies) do not write through
func (e *env) copies() {
	c := e.c
	e.section("CopyingAccessors", func() {
		P, V := e.fresh()
		base := e.pexpect()
		for i := 0; i < c.Vr && c.Vc > 0; i++ {
			V.Row(i).At(0).SetFloat64(wval)
		}
		for j := 0; j < c.Vc && c.Vr > 0; j++ {
			V.Col(j).At(0).SetFloat64(wval)
		}
		if g := psnap(P, c); canon(g) != canon(base) {
			e.bad("CopyingAccessors", "row_col_write_through", base, g)
			return
		}
		cl := V.CloneMatrix()
		r, cc := cl.Dims()
		if r != c.Vr || cc != c.Vc {
			e.bad("CopyingAccessors", "clone_dims", []int{c.Vr, c.Vc}, []int{r, cc})
			return
		}
		if g, x := snap(cl), e.vexpect(); canon(g) != canon(x) {
			e.bad("CopyingAccessors", "clone_value", x, g)
			return
		}
		for i := 0; i < c.Vr; i++ {
			for j := 0; j < c.Vc; j++ {
				cl.At(i, j).SetFloat64(wval)
			}
		}
		if g := psnap(P, c); canon(g) != canon(base) {
			e.bad("CopyingAccessors", "clone_write_through", base, g)
			return
		}
		for i := 0; i < c.Vr; i++ {
			for j := 0; j < c.Vc; j++ {
				V.At(i, j).SetFloat64(wval - 1)
				if g := cl.ConstAt(i, j).GetFloat64(); g != wval {
					e.bad("CopyingAccessors", "clone_sees_view_write", wval, g)
					return
				}
			}
		}
	})
}
