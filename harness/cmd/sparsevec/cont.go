package main

// Adapters that execute the abstract operations of spec/SparseVector.tla on
// the real sparse containers: a sparse vector of any element type (through the
// Vector interface, or through the concrete upper-case methods found by
// reflection), or a sparse matrix whose storage is one sparse vector
// (position k = row*cols + col).  The adapters only call the library and
// project results to integers; they compute no expected values.

import (
	"errors"
	"fmt"
	"math"
	"reflect"
	"unsafe"

	. "github.com/pbenner/autodiff"
)

var errUnsupported = errors.New("operation has no counterpart for this container")

const loopCap = 4096 // an iteration that runs longer does not terminate

type inst struct {
	T     ScalarType
	Name  string // e.g. SparseFloat64Vector
	Class string // int | float | real
}

func discoverTypes() []inst {
	cands := []struct {
		t     ScalarType
		n, cl string
	}{
		{Int8Type, "Int8", "int"}, {Int16Type, "Int16", "int"}, {Int32Type, "Int32", "int"},
		{Int64Type, "Int64", "int"}, {IntType, "Int", "int"},
		{Float32Type, "Float32", "float"}, {Float64Type, "Float64", "float"},
		{Real32Type, "Real32", "real"}, {Real64Type, "Real64", "real"},
	}
	r := []inst{}
	for _, c := range cands {
		ok := false
		func() {
			defer func() { recover() }()
			v := NullSparseVector(c.t, 1)
			m := NullSparseMatrix(c.t, 1, 1)
			ok = v != nil && m != nil
		}()
		if ok {
			r = append(r, inst{c.t, "Sparse" + c.n, c.cl})
		}
	}
	return r
}

// ---------------------------------------------------------------- values

func toInt(f float64) (int, bool) {
	if math.IsNaN(f) || math.IsInf(f, 0) || f != math.Trunc(f) || math.Abs(f) > 1e9 {
		return 0, false
	}
	return int(f), true
}

func mkVector(t ScalarType, w []int) Vector {
	v := NullSparseVector(t, len(w))
	for i, x := range w {
		if x != 0 {
			v.At(i).SetFloat64(float64(x))
		}
	}
	return v
}

func mkDense(t ScalarType, w []int) Vector {
	v := NullDenseVector(t, len(w))
	for i, x := range w {
		v.At(i).SetFloat64(float64(x))
	}
	return v
}

// ---------------------------------------------------------------- container

type iter interface {
	Ok() bool
	Next()
	pos() int // Index() as a vector position
}

type cont interface {
	kind() string
	dim() int
	read(i, how int) float64
	write(i, x, how int)
	setVar(i, how int) error // Real element types: non-zero derivative, value unchanged
	deriv(i int) bool        // element i carries a non-zero derivative
	reset()
	swap(i, k int)
	swapRows(i, k int) error // square matrices only
	swapCols(i, k int) error
	reverse() error
	permute(p []int) error
	sort(rev bool) error
	slice(a, b int) (cont, error)
	appendScalar(x, how int) (cont, error)
	appendVector(w []int, how int) (cont, error)
	appendObj(w cont) (cont, error)                        // v.AppendVector(w), w a vector with its own history
	viewWalk(word []int, fi, fj, how int) ([][]int, error) // matrix views only (word: 5 ints per step)
	viewWrite(word []int, i, j, x, how int) error
	viewBulk(word []int, name string, b []int, x, how int) error // whole-view operation, view as receiver
	arith(name string, w []int, x int, operand string) error
	iterFrom(from int, how int) (iter, error)
	walk(how int) ([][]int, error)
	jointWalk(w []int, how int) ([][]int, error)
	str() string
	str0() string // type name
	private() (privState, bool)
}

// ---------------------------------------------------------------- vector

type vecCont struct {
	t        ScalarType
	v        Vector
	concrete bool // use AT / SLICE / APPEND / SET / ITERATOR / VADDV ... where they exist
}

func (c *vecCont) kind() string { return "vector" }
func (c *vecCont) dim() int     { return c.v.Dim() }

func (c *vecCont) read(i, how int) float64 {
	switch how % 9 {
	case 0:
		return c.v.Float64At(i)
	case 1:
		return c.v.ConstAt(i).GetFloat64()
	case 2:
		return float64(c.v.IntAt(i))
	case 3:
		return float64(c.v.Float32At(i))
	case 4:
		return float64(c.v.Int8At(i))
	case 5:
		return float64(c.v.Int16At(i))
	case 6:
		return float64(c.v.Int32At(i))
	case 7:
		return float64(c.v.Int64At(i))
	default:
		if m := reflect.ValueOf(c.v).MethodByName("AT_"); m.IsValid() {
			r := m.Call([]reflect.Value{reflect.ValueOf(i)})[0]
			// AT_ returns the stored scalar or the zero value of the scalar type (absent entry)
			if (r.Kind() == reflect.Ptr && r.IsNil()) || (r.Kind() == reflect.Struct && r.Field(0).IsNil()) {
				return 0
			}
			return r.Interface().(ConstScalar).GetFloat64()
		}
		return c.v.Float64At(i)
	}
}

func (c *vecCont) at(i int) Scalar {
	if c.concrete {
		if m := reflect.ValueOf(c.v).MethodByName("AT"); m.IsValid() {
			return m.Call([]reflect.Value{reflect.ValueOf(i)})[0].Interface().(Scalar)
		}
	}
	return c.v.At(i)
}

func (c *vecCont) write(i, x, how int) {
	s := c.at(i)
	switch how % 4 {
	case 0:
		s.SetFloat64(float64(x))
	case 1:
		s.SetInt(x)
	case 2:
		s.Set(NewScalar(c.t, float64(x)))
	default:
		s.SetInt8(int8(x))
	}
}

func (c *vecCont) setVar(i, how int) error { return setVariable(c.at(i), how) }
func (c *vecCont) deriv(i int) bool        { return hasDeriv(c.v.ConstAt(i)) }
func (c *vecCont) reset()                  { c.v.Reset() }
func (c *vecCont) swap(i, k int)           { c.v.Swap(i, k) }
func (c *vecCont) swapRows(i, k int) error { return errUnsupported }
func (c *vecCont) swapCols(i, k int) error { return errUnsupported }
func (c *vecCont) reverse() error {
	c.v.ReverseOrder()
	return nil
}
func (c *vecCont) permute(p []int) error {
	if err := c.v.Permute(p); err != nil {
		panic("Permute returned an error for a valid permutation: " + err.Error())
	}
	return nil
}
func (c *vecCont) sort(rev bool) error {
	c.v.Sort(rev)
	return nil
}

func (c *vecCont) call(name string, args ...interface{}) (reflect.Value, bool) {
	m := reflect.ValueOf(c.v).MethodByName(name)
	if !m.IsValid() {
		return reflect.Value{}, false
	}
	in := make([]reflect.Value, len(args))
	for i, a := range args {
		in[i] = reflect.ValueOf(a)
	}
	out := m.Call(in)
	if len(out) == 0 {
		return reflect.Value{}, true
	}
	return out[0], true
}

func (c *vecCont) slice(a, b int) (cont, error) {
	if c.concrete {
		if r, ok := c.call("SLICE", a, b); ok {
			return &vecCont{c.t, r.Interface().(Vector), c.concrete}, nil
		}
	}
	return &vecCont{c.t, c.v.Slice(a, b), c.concrete}, nil
}

func (c *vecCont) appendScalar(x, how int) (cont, error) {
	var s Scalar
	if how%2 == 0 {
		s = NewScalar(c.t, float64(x))
	} else if c.t == Float64Type {
		s = NewScalar(Float32Type, float64(x)) // foreign scalar type: ConvertScalar path
	} else {
		s = NewFloat64(float64(x))
	}
	return &vecCont{c.t, c.v.AppendScalar(s), c.concrete}, nil
}

// operandHistory gives a freshly built sparse operand a content-neutral history that leaves its index
// over-approximating (keys without entry): Permute(identity) rebuilds the index from all positions,
// swapping an entry with an absent position twice leaves the key of the absent position behind.
func operandHistory(o Vector, w []int, how int) {
	switch how % 3 {
	case 1:
		id := make([]int, len(w))
		for i := range id {
			id[i] = i
		}
		if err := o.Permute(id); err != nil {
			panic("Permute returned an error for the identity: " + err.Error())
		}
	case 2:
		i, j := -1, -1
		for k, x := range w {
			if x != 0 && i < 0 {
				i = k
			}
			if x == 0 && j < 0 {
				j = k
			}
		}
		if i >= 0 && j >= 0 {
			o.Swap(i, j)
			o.Swap(i, j)
		}
	}
}

func (c *vecCont) appendVector(w []int, how int) (cont, error) {
	if how%3 == 2 { // operand of another vector type: the generic branch of AppendVector
		return &vecCont{c.t, c.v.AppendVector(mkDense(c.t, w)), c.concrete}, nil
	}
	o := mkVector(c.t, w)
	operandHistory(o, w, how/3)
	if c.concrete {
		if r, ok := c.call("APPEND", o); ok {
			return &vecCont{c.t, r.Interface().(Vector), c.concrete}, nil
		}
	}
	return &vecCont{c.t, c.v.AppendVector(o), c.concrete}, nil
}

func (c *vecCont) appendObj(w cont) (cont, error) {
	o, ok := w.(*vecCont)
	if !ok {
		return nil, errUnsupported
	}
	if c.concrete && reflect.TypeOf(c.v) == reflect.TypeOf(o.v) {
		if r, ok := c.call("APPEND", o.v); ok {
			return &vecCont{c.t, r.Interface().(Vector), c.concrete}, nil
		}
	}
	return &vecCont{c.t, c.v.AppendVector(o.v), c.concrete}, nil
}
func (c *vecCont) viewWalk(word []int, fi, fj, how int) ([][]int, error)       { return nil, errUnsupported }
func (c *vecCont) viewWrite(word []int, i, j, x, how int) error                { return errUnsupported }
func (c *vecCont) viewBulk(word []int, name string, b []int, x, how int) error { return errUnsupported }

var concreteName = map[string]string{"vaddv": "VADDV", "vsubv": "VSUBV", "vmulv": "VMULV", "set": "SET",
	"vmuls": "VMULS", "vadds": "VADDS", "vsubs": "VSUBS", "vdivs": "VDIVS", "vsubself": "VSUBV", "vmulself": "VMULV"}

func (c *vecCont) arith(name string, w []int, x int, operand string) error {
	v := c.v
	var o Vector
	if w != nil {
		if operand == "dense" {
			o = mkDense(c.t, w)
		} else {
			o = mkVector(c.t, w)
		}
	}
	s := NewScalar(c.t, float64(x))
	if c.concrete && operand != "dense" {
		var ok bool
		switch name {
		case "vaddv", "vsubv", "vmulv":
			_, ok = c.call(concreteName[name], v, o)
		case "set":
			_, ok = c.call("SET", o)
		case "vmuls", "vadds", "vsubs", "vdivs":
			_, ok = c.call(concreteName[name], v, s)
		case "vsubself", "vmulself":
			_, ok = c.call(concreteName[name], v, v)
		}
		if ok {
			return nil
		}
	}
	switch name {
	case "vaddv":
		v.VaddV(v, o)
	case "vsubv":
		v.VsubV(v, o)
	case "vmulv":
		v.VmulV(v, o)
	case "set":
		v.Set(o)
	case "vmuls":
		v.VmulS(v, s)
	case "vadds":
		v.VaddS(v, s)
	case "vsubs":
		v.VsubS(v, s)
	case "vdivs":
		v.VdivS(v, s)
	case "vsubself":
		v.VsubV(v, v)
	case "vmulself":
		v.VmulV(v, v)
	default:
		return fmt.Errorf("unknown arithmetic operation %s", name)
	}
	return nil
}

type vecIter struct {
	it interface {
		Ok() bool
		Next()
		Index() int
	}
}

func (i vecIter) Ok() bool { return i.it.Ok() }
func (i vecIter) Next()    { i.it.Next() }
func (i vecIter) pos() int { return i.it.Index() }

func (c *vecCont) iterFrom(from, how int) (iter, error) {
	if c.concrete {
		if from == 0 {
			if r, ok := c.call("ITERATOR"); ok {
				return vecIter{r.Interface().(VectorIterator)}, nil
			}
		} else if r, ok := c.call("ITERATOR_FROM", from); ok {
			return vecIter{r.Interface().(VectorIterator)}, nil
		}
	}
	switch {
	case from == 0 && how%2 == 0:
		return vecIter{c.v.ConstIterator()}, nil
	case from == 0:
		return vecIter{c.v.Iterator()}, nil
	case how%2 == 0:
		return vecIter{c.v.ConstIteratorFrom(from)}, nil
	default:
		return vecIter{c.v.IteratorFrom(from)}, nil
	}
}

// hasDeriv: the scalar carries a non-zero first or second derivative (Real element types)
func hasDeriv(s ConstScalar) bool {
	if s == nil || (reflect.ValueOf(s).Kind() == reflect.Ptr && reflect.ValueOf(s).IsNil()) {
		return false
	}
	if s.GetOrder() < 1 {
		return false
	}
	n := s.GetN()
	for i := 0; i < n; i++ {
		if s.GetDerivative(i) != 0 {
			return true
		}
	}
	if s.GetOrder() >= 2 {
		for i := 0; i < n; i++ {
			for j := 0; j < n; j++ {
				if s.GetHessian(i, j) != 0 {
					return true
				}
			}
		}
	}
	return false
}

const tag = 1000 // the specification writes an element with a non-zero derivative as value + Tag (1000)

func valOf(s ConstScalar) int {
	if s == nil || (reflect.ValueOf(s).Kind() == reflect.Ptr && reflect.ValueOf(s).IsNil()) {
		return 0
	}
	x, ok := toInt(s.GetFloat64())
	if !ok {
		panic(fmt.Sprintf("non-integral element %v", s.GetFloat64()))
	}
	if hasDeriv(s) {
		x += tag
	}
	return x
}

// setVariable gives the scalar a non-zero derivative and leaves its value alone: SetVariable (gradient), or
// a Hessian entry only (gradient zero).
func setVariable(s Scalar, how int) error {
	ms, ok := s.(MagicScalar)
	if !ok {
		return errUnsupported
	}
	if how%2 == 0 {
		if err := ms.SetVariable(0, 1, 1); err != nil {
			panic(err)
		}
		return nil
	}
	if err := ms.SetVariable(0, 1, 2); err != nil {
		panic(err)
	}
	ms.SetDerivative(0, 0)
	ms.SetHessian(0, 0, 1)
	return nil
}

func (c *vecCont) walk(how int) ([][]int, error) {
	r := [][]int{}
	if how%2 == 0 {
		for it := c.v.ConstIterator(); it.Ok(); it.Next() {
			r = append(r, []int{it.Index(), valOf(it.GetConst())})
			if len(r) > loopCap {
				panic("iteration does not terminate")
			}
		}
	} else {
		for it := c.v.Iterator(); it.Ok(); it.Next() {
			r = append(r, []int{it.Index(), valOf(it.Get())})
			if len(r) > loopCap {
				panic("iteration does not terminate")
			}
		}
	}
	return r, nil
}

func (c *vecCont) jointWalk(w []int, how int) ([][]int, error) {
	o := mkVector(c.t, w)
	r := [][]int{}
	if how%2 == 0 {
		for it := c.v.ConstJointIterator(o); it.Ok(); it.Next() {
			a, b := it.GetConst()
			r = append(r, []int{it.Index(), valOf(a), valOf(b)})
			if len(r) > loopCap {
				panic("iteration does not terminate")
			}
		}
	} else {
		for it := c.v.JointIterator(o); it.Ok(); it.Next() {
			a, b := it.Get()
			var ac ConstScalar
			if a != nil && !(reflect.ValueOf(a).Kind() == reflect.Ptr && reflect.ValueOf(a).IsNil()) {
				ac = a
			}
			r = append(r, []int{it.Index(), valOf(ac), valOf(b)})
			if len(r) > loopCap {
				panic("iteration does not terminate")
			}
		}
	}
	return r, nil
}

func (c *vecCont) str0() string { return fmt.Sprintf("%T", c.v) }
func (c *matCont) str0() string { return fmt.Sprintf("%T", c.m) }
func (c *vecCont) str() string  { return fmt.Sprint(c.v) + c.v.Table() }

// ---------------------------------------------------------------- private state (reflection, read-only)

type privState struct {
	N       int
	Keys    []int // keys of the values map
	NilKeys []int // keys holding a placeholder (nil scalar)
	NonZero []int // keys holding a non-zero value
	Index   []int // keys of the AVL index
	IdxBad  string
}

func scalarState(v reflect.Value) (isNil bool, nonzero bool) {
	switch v.Kind() {
	case reflect.Ptr: // *Real64 / *Real32
		if v.IsNil() {
			return true, false
		}
		e := v.Elem()
		f := e.FieldByName("Value")
		nz := f.IsValid() && f.Float() != 0
		if d := e.FieldByName("Derivative"); d.IsValid() && d.Kind() == reflect.Slice {
			for i := 0; i < d.Len(); i++ {
				nz = nz || d.Index(i).Float() != 0
			}
		}
		if h := e.FieldByName("Hessian"); h.IsValid() && h.Kind() == reflect.Slice {
			for i := 0; i < h.Len(); i++ {
				for j := 0; j < h.Index(i).Len(); j++ {
					nz = nz || h.Index(i).Index(j).Float() != 0
				}
			}
		}
		return false, nz
	case reflect.Struct: // Float64{ptr *float64}, Int8{ptr *int8}, ...
		p := v.Field(0)
		if p.Kind() != reflect.Ptr {
			return false, false
		}
		if p.IsNil() {
			return true, false
		}
		e := p.Elem()
		switch e.Kind() {
		case reflect.Float32, reflect.Float64:
			return false, e.Float() != 0
		case reflect.Int, reflect.Int8, reflect.Int16, reflect.Int32, reflect.Int64:
			return false, e.Int() != 0
		}
	}
	return false, false
}

func collectTree(n *AvlNode, depth int, out *[]int, bad *string) {
	if n == nil {
		return
	}
	if depth > 64 {
		*bad = "cycle or excessive depth in the index tree"
		return
	}
	collectTree(n.Left, depth+1, out, bad)
	if n.Deleted {
		*bad = "tombstone reachable in the index tree"
	}
	*out = append(*out, n.Value)
	collectTree(n.Right, depth+1, out, bad)
}

// vectorPrivate reads `values` and the index tree of a *Sparse<T>Vector.
func vectorPrivate(vec interface{}) (privState, bool) {
	rv := reflect.ValueOf(vec)
	if rv.Kind() != reflect.Ptr || rv.IsNil() || rv.Elem().Kind() != reflect.Struct {
		return privState{}, false
	}
	st := rv.Elem()
	vals := st.FieldByName("values")
	idx := st.FieldByName("vectorSparseIndex")
	nf := st.FieldByName("n")
	if !vals.IsValid() || vals.Kind() != reflect.Map || !idx.IsValid() || !nf.IsValid() {
		return privState{}, false
	}
	p := privState{N: int(nf.Int())}
	for it := vals.MapRange(); it.Next(); {
		k := int(it.Key().Int())
		p.Keys = append(p.Keys, k)
		isNil, nz := scalarState(it.Value())
		if isNil {
			p.NilKeys = append(p.NilKeys, k)
		}
		if nz {
			p.NonZero = append(p.NonZero, k)
		}
	}
	tf := idx.FieldByName("AvlTree")
	if !tf.IsValid() || !tf.CanAddr() {
		return privState{}, false
	}
	tree := (*AvlTree)(unsafe.Pointer(tf.UnsafeAddr()))
	collectTree(tree.Root, 0, &p.Index, &p.IdxBad)
	return p, true
}

func (c *vecCont) private() (privState, bool) { return vectorPrivate(c.v) }

// ---------------------------------------------------------------- matrix

type matCont struct {
	t          ScalarType
	m          Matrix
	rows, cols int
}

func (c *matCont) kind() string        { return fmt.Sprintf("matrix%dx%d", c.rows, c.cols) }
func (c *matCont) dim() int            { r, k := c.m.Dims(); return r * k }
func (c *matCont) rc(i int) (int, int) { return i / c.cols, i % c.cols }

func (c *matCont) read(i, how int) float64 {
	r, k := c.rc(i)
	switch how % 9 {
	case 0:
		return c.m.Float64At(r, k)
	case 1:
		return c.m.ConstAt(r, k).GetFloat64()
	case 2:
		return float64(c.m.IntAt(r, k))
	case 3:
		return float64(c.m.Float32At(r, k))
	case 4:
		return float64(c.m.Int8At(r, k))
	case 5:
		return float64(c.m.Int16At(r, k))
	case 6:
		return float64(c.m.Int32At(r, k))
	case 7:
		return float64(c.m.Int64At(r, k))
	default:
		return c.m.AsVector().Float64At(i)
	}
}

func (c *matCont) write(i, x, how int) {
	r, k := c.rc(i)
	s := c.m.At(r, k)
	switch how % 3 {
	case 0:
		s.SetFloat64(float64(x))
	case 1:
		s.SetInt(x)
	default:
		s.Set(NewScalar(c.t, float64(x)))
	}
}
func (c *matCont) setVar(i, how int) error {
	r, k := c.rc(i)
	return setVariable(c.m.At(r, k), how)
}
func (c *matCont) deriv(i int) bool {
	r, k := c.rc(i)
	return hasDeriv(c.m.ConstAt(r, k))
}
func (c *matCont) reset() { c.m.Reset() }
func (c *matCont) swap(i, k int) {
	r1, c1 := c.rc(i)
	r2, c2 := c.rc(k)
	c.m.Swap(r1, c1, r2, c2)
}

func (c *matCont) swapRows(i, k int) error {
	if c.rows != c.cols {
		return errUnsupported
	}
	if err := c.m.SwapRows(i, k); err != nil {
		panic("SwapRows returned an error on a square matrix: " + err.Error())
	}
	return nil
}
func (c *matCont) swapCols(i, k int) error {
	if c.rows != c.cols {
		return errUnsupported
	}
	if err := c.m.SwapColumns(i, k); err != nil {
		panic("SwapColumns returned an error on a square matrix: " + err.Error())
	}
	return nil
}

// operations without a matrix method act on the storage vector AsVector() hands out
func (c *matCont) reverse() error { c.m.AsVector().ReverseOrder(); return nil }
func (c *matCont) permute(p []int) error {
	if err := c.m.AsVector().Permute(p); err != nil {
		panic("Permute returned an error for a valid permutation: " + err.Error())
	}
	return nil
}
func (c *matCont) sort(rev bool) error                       { c.m.AsVector().Sort(rev); return nil }
func (c *matCont) slice(a, b int) (cont, error)              { return nil, errUnsupported }
func (c *matCont) appendScalar(x, h int) (cont, error)       { return nil, errUnsupported }
func (c *matCont) appendVector(w []int, h int) (cont, error) { return nil, errUnsupported }

func (c *matCont) appendObj(w cont) (cont, error) { return nil, errUnsupported }

// view applies the steps of a word (5 ints per step: 0 r0 r1 c0 c1 = Slice, 1 . . . . = T) to the matrix.
func (c *matCont) view(word []int, constLast bool) (ConstMatrix, Matrix) {
	var m Matrix = c.m
	for k := 0; k+5 <= len(word); k += 5 {
		last := k+10 > len(word)
		switch {
		case word[k] == 1:
			m = m.T()
		case last && constLast:
			return m.ConstSlice(word[k+1], word[k+2], word[k+3], word[k+4]), nil
		default:
			m = m.Slice(word[k+1], word[k+2], word[k+3], word[k+4])
		}
	}
	return m, m
}

// viewWalk iterates the view denoted by the word completely (fi < 0: Iterator(), else IteratorFrom(fi, fj))
// and returns <<i, j, value>> in view coordinates, followed by <<-2, rows, cols>> (Dims of the view) and by
// the elements read through the view, row-major, as rows <<-1, q, value>>.
func (c *matCont) viewWalk(word []int, fi, fj, how int) ([][]int, error) {
	view, mview := c.view(word, how%2 == 1)
	vr, vc := view.Dims()
	r := [][]int{}
	add := func(i, j int, s ConstScalar) {
		if s == nil || (reflect.ValueOf(s).Kind() == reflect.Ptr && reflect.ValueOf(s).IsNil()) {
			panic(fmt.Sprintf("view iterator delivers no scalar at (%d,%d)", i, j))
		}
		r = append(r, []int{i, j, valOf(s)})
		if len(r) > loopCap {
			panic("iteration does not terminate")
		}
	}
	switch {
	case mview != nil && (how/2)%2 == 0 && fi < 0:
		for it := mview.Iterator(); it.Ok(); it.Next() {
			i, j := it.Index()
			add(i, j, it.Get())
		}
	case mview != nil && (how/2)%2 == 0:
		for it := mview.IteratorFrom(fi, fj); it.Ok(); it.Next() {
			i, j := it.Index()
			add(i, j, it.Get())
		}
	case fi < 0:
		for it := view.ConstIterator(); it.Ok(); it.Next() {
			i, j := it.Index()
			add(i, j, it.GetConst())
		}
	default:
		for it := view.ConstIteratorFrom(fi, fj); it.Ok(); it.Next() {
			i, j := it.Index()
			add(i, j, it.GetConst())
		}
	}
	r = append(r, []int{-2, vr, vc})
	for i := 0; i < vr; i++ {
		for j := 0; j < vc; j++ {
			x, ok := toInt(view.Float64At(i, j))
			if !ok {
				panic("non-integral element in view")
			}
			if y, _ := toInt(view.ConstAt(i, j).GetFloat64()); y != x {
				panic("Float64At and ConstAt disagree on a view")
			}
			if hasDeriv(view.ConstAt(i, j)) {
				x += tag
			}
			r = append(r, []int{-1, i*vc + j, x})
		}
	}
	if (how/4)%2 == 1 { // printing and resetting nothing must work on every view, empty ones included
		_ = fmt.Sprint(view)
	}
	return r, nil
}

func (c *matCont) viewBulk(word []int, name string, b []int, x, how int) error {
	_, view := c.view(word, false)
	var bview Matrix
	if b != nil {
		other := &matCont{c.t, c.mk(b), c.rows, c.cols}
		_, bview = other.view(word, false)
	}
	switch name {
	case "w_reset":
		view.Reset()
	case "w_identity":
		view.SetIdentity()
	case "w_set":
		if how%3 == 2 { // argument of another matrix type: the generic path
			vr, vc := bview.Dims()
			d := NullDenseMatrix(c.t, vr, vc)
			d.Set(bview)
			view.Set(d)
		} else {
			view.Set(bview)
		}
	case "w_mdotm":
		vr, _ := view.Dims()
		id := NullSparseMatrix(c.t, vr, vr)
		id.SetIdentity()
		view.MdotM(id, bview)
	case "w_muls":
		view.MmulS(view, NewScalar(c.t, float64(x)))
	case "w_addm":
		view.MaddM(view, bview)
	case "w_map":
		view.Map(func(s Scalar) { s.Neg(s) })
	default:
		return fmt.Errorf("unknown view operation %s", name)
	}
	return nil
}

func (c *matCont) viewWrite(word []int, i, j, x, how int) error {
	_, mview := c.view(word, false)
	s := mview.At(i, j)
	if how%2 == 0 {
		s.SetFloat64(float64(x))
	} else {
		s.Set(NewScalar(c.t, float64(x)))
	}
	return nil
}

func (c *matCont) mk(w []int) Matrix {
	o := NullSparseMatrix(c.t, c.rows, c.cols)
	for i, x := range w {
		if x != 0 {
			r, k := c.rc(i)
			o.At(r, k).SetFloat64(float64(x))
		}
	}
	return o
}

func (c *matCont) arith(name string, w []int, x int, operand string) error {
	if operand == "dense" {
		return errUnsupported
	}
	m := c.m
	s := NewScalar(c.t, float64(x))
	switch name {
	case "vaddv":
		m.MaddM(m, c.mk(w))
	case "vsubv":
		m.MsubM(m, c.mk(w))
	case "vmulv":
		m.MmulM(m, c.mk(w))
	case "vmuls":
		m.MmulS(m, s)
	case "vadds":
		m.MaddS(m, s)
	case "vsubs":
		m.MsubS(m, s)
	case "vdivs":
		m.MdivS(m, s)
	case "vsubself":
		m.MsubM(m, m)
	case "vmulself":
		m.MmulM(m, m)
	default: // "set": Matrix.Set visits only stored receiver entries (another property's finding)
		return errUnsupported
	}
	return nil
}

type matIter struct {
	it interface {
		Ok() bool
		Next()
		Index() (int, int)
	}
	cols int
}

func (i matIter) Ok() bool { return i.it.Ok() }
func (i matIter) Next()    { i.it.Next() }
func (i matIter) pos() int { r, c := i.it.Index(); return r*i.cols + c }

func (c *matCont) iterFrom(from, how int) (iter, error) {
	r, k := 0, 0
	if from != 0 {
		r, k = c.rc(from)
	}
	switch {
	case from == 0 && how%2 == 0:
		return matIter{c.m.ConstIterator(), c.cols}, nil
	case from == 0:
		return matIter{c.m.Iterator(), c.cols}, nil
	case how%2 == 0:
		return matIter{c.m.ConstIteratorFrom(r, k), c.cols}, nil
	default:
		return matIter{c.m.IteratorFrom(r, k), c.cols}, nil
	}
}

func (c *matCont) walk(how int) ([][]int, error) {
	r := [][]int{}
	for it := c.m.ConstIterator(); it.Ok(); it.Next() {
		i, j := it.Index()
		r = append(r, []int{i*c.cols + j, valOf(it.GetConst())})
		if len(r) > loopCap {
			panic("iteration does not terminate")
		}
	}
	return r, nil
}

func (c *matCont) jointWalk(w []int, how int) ([][]int, error) {
	o := c.mk(w)
	r := [][]int{}
	for it := c.m.JointIterator(o); it.Ok(); it.Next() {
		i, j := it.Index()
		a, b := it.GetConst()
		r = append(r, []int{i*c.cols + j, valOf(a), valOf(b)})
		if len(r) > loopCap {
			panic("iteration does not terminate")
		}
	}
	return r, nil
}

func (c *matCont) str() string { return fmt.Sprint(c.m) + c.m.Table() }

func (c *matCont) private() (privState, bool) {
	rv := reflect.ValueOf(c.m)
	if rv.Kind() != reflect.Ptr || rv.IsNil() {
		return privState{}, false
	}
	f := rv.Elem().FieldByName("values")
	if !f.IsValid() || f.Kind() != reflect.Ptr || f.IsNil() {
		return privState{}, false
	}
	// f is an unexported pointer field: rebuild an ordinary pointer value of the same type
	p := reflect.NewAt(f.Type().Elem(), unsafe.Pointer(f.Pointer()))
	return vectorPrivate(p.Interface())
}

// newOperand creates vector 2: same type, another sparse element type, or a dense vector of the same element type
func newOperand(in inst, other inst, flavour, n int, concrete bool) cont {
	switch flavour {
	case 1:
		return &vecCont{other.T, NullSparseVector(other.T, n), false}
	case 2:
		return &vecCont{in.T, NullDenseVector(in.T, n), false}
	}
	return &vecCont{in.T, NullSparseVector(in.T, n), concrete}
}

func newCont(in inst, kind string, n, rows, cols int, concrete bool) cont {
	if kind == "vector" {
		return &vecCont{in.T, NullSparseVector(in.T, n), concrete}
	}
	return &matCont{in.T, NullSparseMatrix(in.T, rows, cols), rows, cols}
}
