// Conformance driver for the sparse containers (C11).
//
//	sparsevec replay <cases.ndjson> <results.ndjson> [operand=sparse|dense]
//	    executes TLC-generated call histories (spec/SparseVector.tla: one case
//	    per transition of the mechanism x contract state graph, or simulated
//	    behaviours) on the REAL sparse vector of every element type, and on
//	    sparse matrices of matching size, and compares with what the CONTRACT
//	    printed: after every call Dim() and all element reads, the result of
//	    the call (iterator position, iteration sequences); after the last call
//	    additionally every read accessor, the private map / index (no nil
//	    placeholder cell, every non-zero cell indexed, keys in range), live
//	    iterators (Ok/Index/continuation), a fresh iteration, String().
//	    Panics and non-terminating loops of the library are observations.
//	sparsevec record <trace.ndjson> <ntraces> <nops> <n>
//	    seeded random histories on vectors of length n for every element type
//	    (and n = rows*cols matrices) with partially consumed iterators, one
//	    event per call with the reads and results observed; validated
//	    afterwards by spec/SparseVectorTrace.tla.
//	sparsevec types
//	    prints the element types found.
package main

import (
	"encoding/json"
	"fmt"
	"math/rand"
	"os"
	"runtime"
	"runtime/pprof"
	"strconv"
	"strings"
	"sync"
	"sync/atomic"
	"time"

	"verifharness/vh"
)

type event struct {
	A string  `json:"a"`
	O int     `json:"o"`
	J int     `json:"j"`
	I int     `json:"i"`
	K int     `json:"k"`
	X int     `json:"x"`
	P []int   `json:"p"`
	W []int   `json:"w"`
	R [][]int `json:"r"`
	C [][]int `json:"c"`
	N []int   `json:"n"`
	D []int   `json:"d"` // content of the receiver under the known deviation "dense operand" (vector arithmetic only)
}
type itObs struct {
	Live bool  `json:"live"`
	O    int   `json:"o"`
	Pos  int   `json:"pos"`
	Rest []int `json:"rest"`
}
type tcase struct {
	H    []event   `json:"h"`
	N0   int       `json:"n0"`
	Cols int       `json:"cols"` // > 0: histories of a matrix with that many columns (views)
	Its  []itObs   `json:"its"`
	Wk   [][][]int `json:"wk"` // per object: the sequence a fresh complete iteration must yield
}

type shape struct {
	kind       string
	rows, cols int
}

// containers a history over an initial vector of length n is executed on
func shapesFor(n int) []shape {
	r := []shape{{"vector", 0, 0}}
	if n >= 1 {
		r = append(r, shape{"matrix", 1, n})
		if n > 1 {
			r = append(r, shape{"matrix", n, 1})
		}
		for a := 2; a*a <= n; a++ {
			if n%a == 0 {
				r = append(r, shape{"matrix", a, n / a})
				if a != n/a {
					r = append(r, shape{"matrix", n / a, a})
				}
			}
		}
	}
	return r
}

type mismatch struct {
	what string
	step int
	exp  interface{}
	got  interface{}
}

func eqSeq(a, b [][]int) bool {
	if len(a) != len(b) {
		return false
	}
	for i := range a {
		if len(a[i]) != len(b[i]) {
			return false
		}
		for j := range a[i] {
			if a[i][j] != b[i][j] {
				return false
			}
		}
	}
	return true
}

// checkReads compares Dim() and every element with the contract's dense content.
func checkReads(c cont, want []int, wantN int, hows []int) *mismatch {
	if d := c.dim(); d != wantN {
		return &mismatch{what: "dim", exp: wantN, got: d}
	}
	for _, how := range hows {
		for i, w := range want {
			g := c.read(i, how)
			wv, wd := w, false
			if w >= tag/2 { // value + Tag: the element carries a non-zero derivative
				wv, wd = w-tag, true
			}
			if g != float64(wv) {
				return &mismatch{what: "read", exp: vh.M{"pos": i, "value": wv, "content": want}, got: vh.M{"value": g, "accessor": how % 9}}
			}
			if d := c.deriv(i); d != wd {
				return &mismatch{what: "derivative", exp: vh.M{"pos": i, "has_derivative": wd, "content": want}, got: vh.M{"has_derivative": d}}
			}
		}
	}
	return nil
}

// checkPrivate evaluates the mechanism-level invariants on the real private state.
var statStoredZero, statIndexOver, statPrivate int64

func checkPrivate(c cont) *mismatch {
	p, ok := c.private()
	if !ok {
		return nil
	}
	atomic.AddInt64(&statPrivate, 1)
	if len(p.Keys) > len(p.NonZero)+len(p.NilKeys) {
		atomic.AddInt64(&statStoredZero, 1)
	}
	if len(p.Index) > len(p.Keys) {
		atomic.AddInt64(&statIndexOver, 1)
	}
	if len(p.NilKeys) > 0 {
		return &mismatch{what: "nil_placeholder", exp: "no placeholder cell in the value map", got: vh.M{"keys": p.NilKeys}}
	}
	if p.IdxBad != "" {
		return &mismatch{what: "index_structure", exp: "sound index tree", got: p.IdxBad}
	}
	in := map[int]bool{}
	for i, k := range p.Index {
		in[k] = true
		if k < 0 || k >= p.N {
			return &mismatch{what: "key_out_of_range", exp: vh.M{"n": p.N}, got: vh.M{"index_key": k}}
		}
		if i > 0 && p.Index[i-1] >= k {
			return &mismatch{what: "index_structure", exp: "ascending keys", got: p.Index}
		}
	}
	for _, k := range p.Keys {
		if k < 0 || k >= p.N {
			return &mismatch{what: "key_out_of_range", exp: vh.M{"n": p.N}, got: vh.M{"map_key": k}}
		}
	}
	for _, k := range p.NonZero {
		if !in[k] {
			return &mismatch{what: "unindexed", exp: "every non-zero cell is in the index", got: vh.M{"key": k, "index": p.Index}}
		}
	}
	return nil
}

var errSkip = fmt.Errorf("skip")

// runCase executes one history on one container instantiation.
// Returns nil (agrees), errSkip (history not expressible), or a mismatch.
func runCase(c *tcase, in inst, other inst, sh shape, caseNo int, operand string) (mm *mismatch, skipped bool) {
	if len(c.H) == 0 {
		return nil, true
	}
	n0 := c.N0
	if operand == "dense" { // only histories with a vector operand differ from the sparse replay
		has := false
		for i := range c.H {
			if len(c.H[i].D) > 0 || c.H[i].A == "vaddv" || c.H[i].A == "vsubv" || c.H[i].A == "vmulv" || c.H[i].A == "set" {
				has = true
			}
		}
		if !has {
			return nil, true
		}
	}
	if sh.kind == "matrix" && sh.rows*sh.cols != n0 {
		return nil, true
	}
	opFlavour := caseNo % 3 // vector 2 created by "new2": same type / another sparse element type / dense
	for i := range c.H {
		e := &c.H[i]
		if sh.kind != "matrix" && (e.A == "vwalk" || e.A == "vwrite" || strings.HasPrefix(e.A, "w_")) {
			return nil, true
		}
		if sh.kind == "matrix" && (e.A == "new2" || e.A == "appendo" || e.O == 2) {
			return nil, true
		}
		if e.A == "setvar" && in.Class != "real" {
			return nil, true // derivatives exist for the Real element types only
		}
		if opFlavour == 2 && e.O == 2 && e.A != "new2" && e.A != "write" && e.A != "reset" && e.A != "swap" &&
			e.A != "reverse" && e.A != "permute" && e.A != "sort" {
			opFlavour = 0 // a dense vector iterates differently: keep vector 2 sparse in such histories
		}
	}
	concrete := caseNo%2 == 1
	objs := map[int]cont{1: newCont(in, sh.kind, n0, sh.rows, sh.cols, concrete)}
	its := map[int]iter{}
	itObj := map[int]int{}
	how := caseNo
	step := 0
	var pending *mismatch
	msg := vh.Try(func() {
		for si := range c.H {
			e := &c.H[si]
			step = si
			o := objs[e.O]
			if o == nil && !(e.A == "slice" && e.O == 2) && e.A != "new2" {
				panic(fmt.Sprintf("driver: no object %d", e.O))
			}
			var err error
			var res [][]int
			hasRes := false
			switch e.A {
			case "write":
				o.write(e.I, e.X, how+si)
			case "reset":
				o.reset()
			case "swap":
				o.swap(e.I, e.K)
			case "reverse":
				err = o.reverse()
			case "permute":
				err = o.permute(e.P)
			case "sort":
				err = o.sort(e.X == 1)
			case "slice":
				var s cont
				s, err = objs[1].slice(e.I, e.K)
				if err == nil {
					for j, oj := range itObj {
						if oj == e.O {
							delete(its, j)
							delete(itObj, j)
						}
					}
					objs[e.O] = s
				}
			case "new2":
				for j, oj := range itObj {
					if oj == 2 {
						delete(its, j)
						delete(itObj, j)
					}
				}
				objs[2] = newOperand(in, other, opFlavour, e.I, concrete)
			case "appendo":
				var s cont
				s, err = objs[1].appendObj(objs[2])
				if err == nil {
					for j := range itObj {
						delete(its, j)
						delete(itObj, j)
					}
					objs[1] = s
					delete(objs, 2)
				}
			case "vwalk":
				var full [][]int
				full, err = o.viewWalk(e.W, e.P[0], e.P[1], how+si)
				if err == nil {
					res = [][]int{}
					reads := []int{}
					for _, row := range full {
						switch row[0] {
						case -2: // Dims() of the view
							if row[1] != e.I || row[2] != e.K {
								pending = &mismatch{what: "view_dims", step: si, exp: []int{e.I, e.K}, got: row[1:]}
								return
							}
						case -1: // elements read through the view
							reads = append(reads, row[2])
						default:
							res = append(res, row)
						}
					}
					want := e.D
					if want == nil {
						want = []int{}
					}
					if !eqInts(reads, want) {
						pending = &mismatch{what: "view_read", step: si, exp: want, got: reads}
						return
					}
					hasRes = true
				}
			case "setvar":
				err = o.setVar(e.I, how+si)
			case "w_reset", "w_identity", "w_set", "w_mdotm", "w_muls", "w_addm", "w_map":
				var b []int
				if e.A == "w_set" || e.A == "w_mdotm" || e.A == "w_addm" {
					b = e.P
					if b == nil {
						b = []int{}
					}
				}
				err = o.viewBulk(e.W, e.A, b, e.X, how+si)
			case "vwrite":
				err = o.viewWrite(e.W, e.I, e.K, e.X, how+si)
			case "promote":
				for j, oj := range itObj {
					if oj == 1 {
						delete(its, j)
						delete(itObj, j)
					} else {
						itObj[j] = 1
					}
				}
				objs[1] = objs[2]
				delete(objs, 2)
			case "appends", "appendv":
				var s cont
				if e.A == "appends" {
					s, err = o.appendScalar(e.X, how+si)
				} else {
					s, err = o.appendVector(e.W, how+si)
				}
				if err == nil {
					for j, oj := range itObj {
						if oj == 1 {
							delete(its, j)
							delete(itObj, j)
						}
					}
					objs[1] = s
				}
			case "iter", "from":
				var it iter
				it, err = o.iterFrom(e.I, how+si)
				if err == nil {
					its[e.J], itObj[e.J] = it, e.O
					res, hasRes = [][]int{{posOf(it)}}, true
				}
			case "next":
				it := its[e.J]
				if it == nil {
					panic("driver: no iterator " + strconv.Itoa(e.J))
				}
				it.Next()
				res, hasRes = [][]int{{posOf(it)}}, true
			case "walk":
				res, err = o.walk(how + si)
				hasRes = true
			case "jwalk":
				res, err = o.jointWalk(e.W, how+si)
				hasRes = true
			default:
				var w []int
				if e.A == "vaddv" || e.A == "vsubv" || e.A == "vmulv" || e.A == "set" {
					w = e.W
					if w == nil {
						w = []int{}
					}
				}
				err = o.arith(e.A, w, e.X, operand)
			}
			if err == errUnsupported {
				skipped = true
				return
			} else if err != nil {
				panic("driver: " + err.Error())
			}
			// result of the call
			if hasRes && !eqSeq(res, e.R) {
				pending = &mismatch{what: "result", step: si, exp: e.R, got: res}
				return
			}
			// known deviation (dense operand, another property's finding): the receiver may hold exactly e.D
			if operand == "dense" && len(e.D) > 0 && len(e.D) == len(e.C[e.O-1]) && !eqInts(e.D, e.C[e.O-1]) {
				same := o.dim() == len(e.D)
				for i := 0; same && i < len(e.D); i++ {
					same = o.read(i, 0) == float64(e.D[i])
				}
				if same {
					pending = &mismatch{what: "dense_operand_joint_zero_stop", step: si, exp: e.C[e.O-1], got: e.D}
					return
				}
			}
			// frame + reads after every call (reads do not create entries)
			for oi := 1; oi <= len(e.N); oi++ {
				if e.N[oi-1] < 0 {
					continue
				}
				ob := objs[oi]
				if ob == nil {
					panic(fmt.Sprintf("driver: object %d missing", oi))
				}
				hows := []int{how + si}
				if si == len(c.H)-1 {
					hows = []int{0, 1, 2, 3, 4, 5, 6, 7, 8}
				}
				if m := checkReads(ob, e.C[oi-1], e.N[oi-1], hows); m != nil {
					m.step = si
					if oi != e.O {
						m.what += "_other"
					}
					pending = m
					return
				}
				if m := checkPrivate(ob); m != nil {
					m.step = si
					pending = m
					return
				}
			}
		}
		if skipped {
			return
		}
		// ---- observation after the last call
		last := len(c.H) - 1
		step = last
		le := &c.H[last]
		// live iterators stand where the contract says
		for j1, io := range c.Its {
			j := j1 + 1
			if !io.Live {
				continue
			}
			it := its[j]
			if it == nil {
				panic("driver: iterator missing " + strconv.Itoa(j))
			}
			if p := posOf(it); p != io.Pos {
				pending = &mismatch{what: "iter_pos", step: last, exp: io, got: vh.M{"iterator": j, "pos": p}}
				return
			}
		}
		// printing must not fail (it iterates: may heal the representation)
		for oi := 1; oi <= len(le.N); oi++ {
			if le.N[oi-1] >= 0 {
				_ = objs[oi].str()
			}
		}
		// a fresh complete iteration visits exactly the non-zero positions, ascending, once
		for oi := 1; oi <= len(le.N); oi++ {
			if le.N[oi-1] < 0 || oi > len(c.Wk) {
				continue
			}
			if _, sparse := objs[oi].private(); !sparse {
				continue // vector 2 in its dense flavour: iteration visits zeros as well
			}
			got, _ := objs[oi].walk(how)
			want := c.Wk[oi-1]
			if want == nil {
				want = [][]int{}
			}
			if !eqSeq(got, want) {
				pending = &mismatch{what: "fresh_iteration", step: last, exp: want, got: got}
				return
			}
		}
		// continuation of live iterators: exactly the remaining non-zero positions, ascending
		for j1, io := range c.Its {
			j := j1 + 1
			if !io.Live || io.Pos == -1 {
				continue
			}
			it := its[j]
			got := []int{}
			for k := 0; k <= len(io.Rest)+2; k++ {
				it.Next()
				if !it.Ok() {
					break
				}
				got = append(got, it.pos())
			}
			if !eqInts(got, io.Rest) {
				pending = &mismatch{what: "iter_continuation", step: last, exp: io, got: vh.M{"iterator": j, "visited": got}}
				return
			}
		}
		// reads are unchanged by all that
		for oi := 1; oi <= len(le.N); oi++ {
			if le.N[oi-1] < 0 {
				continue
			}
			if m := checkReads(objs[oi], le.C[oi-1], le.N[oi-1], []int{0, 1}); m != nil {
				m.step = last
				m.what += "_after_iteration"
				pending = m
				return
			}
			if m := checkPrivate(objs[oi]); m != nil {
				m.step = last
				pending = m
				return
			}
		}
	})
	if msg != "" {
		return &mismatch{what: "panic", step: step, exp: "no panic", got: msg}, false
	}
	return pending, skipped
}

func posOf(it iter) int {
	if !it.Ok() {
		return -1
	}
	return it.pos()
}

func eqInts(a, b []int) bool {
	if len(a) != len(b) {
		return false
	}
	for i := range a {
		if a[i] != b[i] {
			return false
		}
	}
	return true
}

func replay(args []string) {
	if len(args) < 2 {
		vh.Fatal("usage: sparsevec replay cases results [operand=sparse|dense]")
	}
	operand := "sparse"
	if len(args) > 2 {
		operand = args[2]
	}
	allMat := os.Getenv("VERIF_ALLMAT") != "" // matrices with every element type on every case (replay of one stored case)
	types := discoverTypes()
	if len(types) == 0 {
		vh.Fatal("no sparse vector types found")
	}
	reals := []int{}
	for ti, t := range types {
		if t.Class == "real" {
			reals = append(reals, ti)
		}
	}
	out := vh.NewOut(args[1])
	defer out.Close()
	type job struct {
		no   int
		line []byte
	}
	jobs := make(chan job, 256)
	var mu sync.Mutex
	ncases, nruns, nskip, nsteps, nmis, through := 0, 0, 0, 0, 0, 0
	perKind := map[string]int{}
	sigCount := map[string]int{}
	opsSeen := map[string]int{}
	var wg sync.WaitGroup
	nw := runtime.NumCPU()
	if nw > 8 {
		nw = 8
	}
	for w := 0; w < nw; w++ {
		wg.Add(1)
		go func() {
			defer wg.Done()
			wd := vh.NewWatchdog(30*time.Second, out, vh.M{"engine": "sparsevec", "mode": "replay"})
			for jb := range jobs {
				var c tcase
				if e := json.Unmarshal(jb.line, &c); e != nil {
					vh.Fatal(fmt.Sprintf("bad case: %v: %.200s", e, jb.line))
				}
				lruns, lskip, lmis := 0, 0, 0
				lk := map[string]int{}
				hasSetVar := false
				for i := range c.H {
					hasSetVar = hasSetVar || c.H[i].A == "setvar"
				}
				shapes := shapesFor(c.N0)
				if c.N0 == 0 { // degenerate matrices: zero rows and/or zero columns
					shapes = []shape{{"vector", 0, 0}, {"matrix", 0, 0}, {"matrix", 0, 2}, {"matrix", 2, 0}, {"matrix", 0, 1}, {"matrix", 3, 0}}
				}
				if c.Cols > 0 && c.N0%c.Cols == 0 { // histories with matrix views: that matrix shape (and the plain vector)
					shapes = []shape{{"vector", 0, 0}, {"matrix", c.N0 / c.Cols, c.Cols}}
				}
				for _, sh := range shapes {
					for ti, in := range types {
						// vectors: every element type on every case; matrices: the element type rotates with the case
						// (histories with derivatives: among the Real types)
						pick := (jb.no + sh.rows) % len(types)
						if hasSetVar && len(reals) > 0 {
							pick = reals[(jb.no+sh.rows)%len(reals)]
						}
						if sh.kind == "matrix" && (!allMat && ti != pick) {
							continue
						}
						if operand == "dense" && sh.kind == "matrix" {
							continue
						}
						wd.Begin(vh.M{"case": c, "type": in.Name, "kind": sh.kind})
						m, skipped := runCase(&c, in, types[(ti+1)%len(types)], sh, jb.no, operand)
						wd.End()
						if skipped {
							lskip++
							continue
						}
						lruns++
						kind := sh.kind
						lk[kind]++
						if m != nil {
							lmis++
							op := "final"
							if m.step < len(c.H) {
								op = c.H[m.step].A
							}
							sig := vh.M{"engine": "sparsevec", "mode": "replay", "op": op, "what": m.what,
								"kind": kind, "tclass": in.Class}
							if operand != "sparse" {
								sig["operand"] = operand
							}
							// at most 20 full records per signature, the rest is only counted
							key := fmt.Sprint(op, m.what, kind, in.Class)
							mu.Lock()
							sigCount[key]++
							full := sigCount[key] <= 20
							mu.Unlock()
							if full {
								vh.Mismatch(out, sig, vh.M{"case": c, "step": m.step, "expected": m.exp, "observed": m.got,
									"type": in.Name, "container": fmt.Sprintf("%s %dx%d", sh.kind, sh.rows, sh.cols),
									"concrete_methods": jb.no%2 == 1, "case_no": jb.no, "operand": operand})
							}
						}
					}
				}
				mu.Lock()
				ncases++
				nruns += lruns
				nskip += lskip
				nmis += lmis
				nsteps += len(c.H) * lruns
				for k, v := range lk {
					perKind[k] += v
				}
				for _, e := range c.H[len(c.H)-1:] {
					opsSeen[e.A]++
				}
				// a call on one vector that changes the content of the other one (shared scalar)
				if k := len(c.H); k >= 2 && len(c.H[k-1].C) == 2 && len(c.H[k-2].C) == 2 && c.H[k-1].A != "slice" && c.H[k-1].A != "promote" {
					oth := 2 - c.H[k-1].O // index of the other object in C
					if oth >= 0 && oth < 2 && c.H[k-1].N[oth] >= 0 && !eqInts(c.H[k-1].C[oth], c.H[k-2].C[oth]) {
						through++
					}
				}
				mu.Unlock()
			}
		}()
	}
	no := 0
	err := vh.EachLine(args[0], func(line []byte) error {
		cp := append([]byte{}, line...)
		jobs <- job{no, cp}
		no++
		return nil
	})
	close(jobs)
	wg.Wait()
	if err != nil {
		vh.Fatal(err)
	}
	names := []string{}
	for _, t := range types {
		names = append(names, t.Name)
	}
	vh.Summary(out, vh.M{"cases": ncases, "runs": nruns, "skipped": nskip, "calls": nsteps, "mismatches": nmis,
		"types": names, "per_kind": perKind, "last_ops": opsSeen, "operand": operand, "mismatches_per_signature": sigCount, "write_through_cases": through,
		"private_states_checked": statPrivate, "states_with_stored_zero": statStoredZero,
		"states_with_index_overapproximation": statIndexOver})
}

// ---------------------------------------------------------------- recorder

type rev struct {
	E   string  `json:"e"`
	T   string  `json:"t"`   // element type / container (information)
	J   int     `json:"j"`   // iterator
	I   int     `json:"i"`   // position / slice from
	K   int     `json:"k"`   // position / slice to
	X   int     `json:"x"`   // value / scalar / sort direction / initial length (reset)
	P   []int   `json:"p"`   // permutation
	W   []int   `json:"w"`   // operand vector
	R   [][]int `json:"r"`   // observed result (iteration sequences, iterator position)
	Dim int     `json:"dim"` // observed Dim() after the call
	C   []int   `json:"c"`   // observed elements after the call
	D   []int   `json:"d"`   // elements read through a matrix view (vwalk)
	Bad string  `json:"bad"` // private-state invariant broken / panic text ("" = none)
}

func observe(c cont, e *rev, how int) {
	e.Dim = c.dim()
	e.C = make([]int, 0, e.Dim)
	for i := 0; i < e.Dim; i++ {
		x, ok := toInt(c.read(i, how))
		if !ok {
			e.Bad = fmt.Sprintf("non-integral element at %d", i)
			x = 0
		}
		if c.deriv(i) {
			x += tag
		}
		e.C = append(e.C, x)
	}
	if m := checkPrivate(c); m != nil && e.Bad == "" {
		b, _ := json.Marshal(m.got)
		e.Bad = m.what + " " + string(b)
	}
}

func record(args []string) {
	if len(args) < 4 {
		vh.Fatal("usage: sparsevec record trace ntraces nops n")
	}
	ntr, _ := strconv.Atoi(args[1])
	nops, _ := strconv.Atoi(args[2])
	n, _ := strconv.Atoi(args[3])
	seed := int64(vh.EnvInt("VERIF_SEED", 1))
	out := vh.NewOut(args[0])
	defer out.Close()
	types := discoverTypes()
	wd := vh.NewWatchdog(30*time.Second, out, vh.M{"engine": "sparsevec", "mode": "record"})
	const NI = 3
	for tr := 0; tr < ntr; tr++ {
		for ti, in := range types {
			for _, sh := range []shape{{"vector", 0, 0}, {"matrix", 4, n / 4}} {
				if sh.kind == "matrix" && (n%4 != 0 || tr%2 == 1) {
					continue
				}
				rng := rand.New(rand.NewSource(seed*1000003 + int64(tr)*131 + int64(ti)*7 + int64(len(sh.kind))))
				c := newCont(in, sh.kind, n, sh.rows, sh.cols, tr%2 == 1)
				tname := in.Name + ":" + c.kind()
				its := make([]iter, NI+1)
				out.Put(rev{E: "new", T: tname, X: n, Dim: n, C: make([]int, n), P: []int{}, W: []int{}, R: [][]int{}, D: []int{}})
				for op := 0; op < nops; op++ {
					e := rev{T: tname, P: []int{}, W: []int{}, R: [][]int{}, D: []int{}}
					skip := false
					wd.Begin(vh.M{"trace": tr, "type": tname, "op": op, "seed": seed})
					msg := vh.Try(func() { c, skip = oneOp(rng, c, its, &e, n) })
					if msg == "" && !skip {
						msg = vh.Try(func() { observe(c, &e, op) })
					}
					wd.End()
					if msg != "" {
						e.Bad = "panic: " + msg
						if e.E == "" {
							e.E = "panic"
						}
						if e.C == nil {
							e.C = []int{}
						}
						out.Put(e)
						break
					}
					if !skip {
						out.Put(e)
					}
				}
			}
		}
	}
}

// randWord draws a view word of 1-3 steps (slices with any offsets, empty ranges now and then, transpositions)
func randWord(rng *rand.Rand, rows, cols int) (word []int, vr, vc int, hasT bool) {
	vr, vc = rows, cols
	steps := 1 + rng.Intn(3)
	for s := 0; s < steps; s++ {
		if rng.Intn(4) == 0 {
			word = append(word, 1, 0, 0, 0, 0)
			vr, vc = vc, vr
			hasT = true
			continue
		}
		rg := func(m int) (int, int) {
			if m == 0 || rng.Intn(8) == 0 {
				a := rng.Intn(m + 1)
				return a, a
			}
			a := rng.Intn(m)
			return a, a + 1 + rng.Intn(m-a)
		}
		r0, r1 := rg(vr)
		c0, c1 := rg(vc)
		word = append(word, 0, r0, r1, c0, c1)
		vr, vc = r1-r0, c1-c0
	}
	return
}

func randVec(rng *rand.Rand, m, nnz int) []int {
	w := make([]int, m)
	for k := 0; k < nnz && m > 0; k++ {
		w[rng.Intn(m)] = rng.Intn(5) - 2
	}
	return w
}

func maxAbs(c cont) float64 {
	mx := 0.0
	for i := 0; i < c.dim(); i++ {
		if a := c.read(i, 0); a > mx {
			mx = a
		} else if -a > mx {
			mx = -a
		}
	}
	return mx
}

// oneOp performs one random operation; it fills the arguments and results of the event.
func oneOp(rng *rand.Rand, c cont, its []iter, e *rev, nmax int) (cont, bool) {
	d := c.dim()
	isVec := c.kind() == "vector"
	x := rng.Intn(100)
	if !isVec && rng.Intn(6) == 0 {
		x = 95 // matrices: more views
	}
	kill := func() {
		for j := range its {
			its[j] = nil
		}
	}
	pos := func() int {
		if d == 0 {
			return 0
		}
		return rng.Intn(d)
	}
	anyDeriv := false
	for i := 0; i < d; i++ {
		anyDeriv = anyDeriv || c.deriv(i)
	}
	if anyDeriv && ((x >= 34 && x < 37) || (x >= 55 && x < 67) || x >= 97) {
		x = 10 // no Sort / arithmetic / joint iteration while an element carries a derivative
	}
	if strings.Contains(c.str0(), "Real") && d > 0 && rng.Intn(12) == 0 {
		// Real element types: give an element a non-zero derivative (value unchanged)
		i := pos()
		if !c.deriv(i) {
			e.E, e.I = "setvar", i
			c.setVar(i, rng.Intn(2))
			return c, false
		}
	}
	if mc, ok := c.(*matCont); ok && !anyDeriv && rng.Intn(10) == 0 {
		// a whole-view operation with a (nested) slice view as receiver
		word, vr, vc, hasT := randWord(rng, mc.rows, mc.cols)
		if !hasT {
			names := []string{"w_reset", "w_identity", "w_set", "w_mdotm", "w_muls", "w_addm", "w_map"}
			nm := names[rng.Intn(len(names))]
			if maxAbs(c) > 6 && nm == "w_addm" {
				nm = "w_reset"
			}
			if nm == "w_mdotm" && (vr == 0 || vc == 0) {
				nm = "w_set"
			}
			e.E, e.W, e.K = nm, word, mc.cols
			var b []int
			switch nm {
			case "w_set", "w_mdotm", "w_addm":
				b = randVec(rng, d, 1+rng.Intn(6))
				e.P = b
			case "w_muls":
				e.X = rng.Intn(3) - 1
			}
			c.viewBulk(word, nm, b, e.X, rng.Intn(3))
			return c, false
		}
	}
	switch {
	case x < 22: // write (one third zeros)
		if d == 0 {
			return c, true
		}
		e.E, e.I = "write", pos()
		if rng.Intn(3) != 0 {
			e.X = rng.Intn(5) - 2
		}
		c.write(e.I, e.X, rng.Intn(4))
	case x < 30:
		if d == 0 {
			return c, true
		}
		if mc, ok := c.(*matCont); ok && mc.rows == mc.cols && rng.Intn(2) == 0 {
			e.I, e.K, e.X = rng.Intn(mc.rows), rng.Intn(mc.rows), mc.cols
			if rng.Intn(2) == 0 {
				e.E = "swaprows"
				c.swapRows(e.I, e.K)
			} else {
				e.E = "swapcols"
				c.swapCols(e.I, e.K)
			}
			break
		}
		e.E, e.I, e.K = "swap", pos(), pos()
		c.swap(e.I, e.K)
	case x < 34:
		e.E = "permute"
		e.P = rng.Perm(d)
		c.permute(e.P)
	case x < 37:
		e.E = "sort"
		e.X = rng.Intn(2)
		c.sort(e.X == 1)
	case x < 40:
		e.E = "reverse"
		c.reverse()
	case x < 42:
		e.E = "reset"
		c.reset()
	case x < 46: // slice (the parent is dropped)
		if !isVec {
			return c, true
		}
		a := rng.Intn(d + 1)
		b := a + rng.Intn(d-a+1)
		if b-a < d/2 {
			b = d // keep vectors from collapsing too often
		}
		e.E, e.I, e.K = "slice", a, b
		s, _ := c.slice(a, b)
		kill()
		return s, false
	case x < 51:
		if !isVec || d >= nmax {
			return c, true
		}
		e.E, e.X = "appends", rng.Intn(5)-2
		s, _ := c.appendScalar(e.X, rng.Intn(2))
		kill()
		return s, false
	case x < 55:
		if !isVec || d >= nmax {
			return c, true
		}
		e.E = "appendv"
		e.W = randVec(rng, 1+rng.Intn(nmax-d), 2)
		s, _ := c.appendVector(e.W, rng.Intn(9))
		kill()
		return s, false
	case x < 67: // arithmetic, kept small
		names := []string{"vaddv", "vsubv", "vmulv", "set", "vmuls", "vadds", "vsubs", "vdivs", "vsubself", "vmulself"}
		nm := names[rng.Intn(len(names))]
		big := maxAbs(c) > 6
		if big && (nm == "vmulv" || nm == "vmulself" || nm == "vaddv" || nm == "vsubv" || nm == "vadds" || nm == "vsubs") {
			nm = "vmuls"
		}
		e.E = nm
		switch nm {
		case "vaddv", "vsubv", "vmulv", "set":
			e.W = randVec(rng, d, 1+rng.Intn(4))
		case "vmuls":
			e.X = rng.Intn(3) - 1
			if big {
				e.X = 0
			}
		case "vadds", "vsubs":
			e.X = rng.Intn(3) - 1
		case "vdivs":
			e.X = 1 - 2*rng.Intn(2)
		}
		var w []int
		if len(e.W) > 0 || nm == "vaddv" || nm == "vsubv" || nm == "vmulv" || nm == "set" {
			w = e.W
		}
		if err := c.arith(nm, w, e.X, "sparse"); err == errUnsupported {
			return c, true
		}
	case x < 72:
		e.E, e.J = "iter", 1+rng.Intn(len(its)-1)
		it, _ := c.iterFrom(0, rng.Intn(2))
		its[e.J] = it
		e.R = [][]int{{posOf(it)}}
	case x < 76:
		if d == 0 {
			return c, true
		}
		e.E, e.J, e.I = "from", 1+rng.Intn(len(its)-1), pos()
		it, _ := c.iterFrom(e.I, rng.Intn(2))
		its[e.J] = it
		e.R = [][]int{{posOf(it)}}
	case x < 94:
		j := 1 + rng.Intn(len(its)-1)
		if its[j] == nil || !its[j].Ok() {
			return c, true
		}
		e.E, e.J = "next", j
		its[j].Next()
		e.R = [][]int{{posOf(its[j])}}
	case x < 97:
		if mc, ok := c.(*matCont); ok && rng.Intn(3) != 0 {
			// a (nested, possibly transposed) view of the matrix: iterate it, or write through it
			word, vr, vc, hasT := randWord(rng, mc.rows, mc.cols)
			if vr > 0 && vc > 0 && !hasT && rng.Intn(3) == 0 {
				e.E, e.W, e.I, e.K, e.X = "vwrite", word, rng.Intn(vr), rng.Intn(vc), mc.cols
				v := 0
				if rng.Intn(3) != 0 {
					v = rng.Intn(5) - 2
				}
				e.P = []int{v}
				c.viewWrite(word, e.I, e.K, v, rng.Intn(2))
				break
			}
			fi, fj := -1, 0
			if vr > 0 && vc > 0 && rng.Intn(2) == 0 {
				fi, fj = rng.Intn(vr), rng.Intn(vc)
			}
			e.E, e.W, e.X, e.P = "vwalk", word, mc.cols, []int{fi, fj}
			full, _ := c.viewWalk(word, fi, fj, rng.Intn(8))
			for _, row := range full {
				switch row[0] {
				case -2:
					e.I, e.K = row[1], row[2]
				case -1:
					e.D = append(e.D, row[2])
				default:
					e.R = append(e.R, row)
				}
			}
			break
		}
		e.E = "walk"
		e.R, _ = c.walk(rng.Intn(2))
	default:
		e.E = "jwalk"
		e.W = randVec(rng, d, 1+rng.Intn(3))
		e.R, _ = c.jointWalk(e.W, rng.Intn(2))
	}
	return c, false
}

func main() {
	if len(os.Args) < 2 {
		vh.Fatal("usage: sparsevec replay|record|types ...")
	}
	if pf := os.Getenv("VERIF_PPROF"); pf != "" {
		f, _ := os.Create(pf)
		pprof.StartCPUProfile(f)
		defer pprof.StopCPUProfile()
	}
	switch os.Args[1] {
	case "replay":
		replay(os.Args[2:])
	case "record":
		record(os.Args[2:])
	case "types":
		for _, t := range discoverTypes() {
			fmt.Println(t.Name+"Vector", t.Name+"Matrix")
		}
	default:
		vh.Fatal("unknown sub-command", os.Args[1])
	}
}
