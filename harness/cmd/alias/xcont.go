package main

import (
	"encoding/json"
	"math"

	. "github.com/pbenner/autodiff"
	"verifharness/vh"
)

// ---- special operand values under aliasing (spec/Aliasing.tla, XCase) ---------
//
// Elements are the extended triples [v, d, f] of spec/Containers.tla:
// f = 0 finite v, 1 +Inf, 2 -Inf, 3 NaN, 4 negative zero, 5 unconstrained.

type xRoles struct {
	R int `json:"r"`
	A int `json:"a"`
	B int `json:"b"`
}

type xCase struct {
	Fam   string     `json:"fam"`
	Op    string     `json:"op"`
	Rows  int        `json:"rows"`
	Cols  int        `json:"cols"`
	Objs  [][][3]int `json:"objs"`
	Roles xRoles     `json:"roles"`
	S     [3]int     `json:"s"`
	Exp   [][3]int   `json:"exp"`
	Only  *cInst     `json:"only,omitempty"`
}

func xValue(e [3]int) float64 {
	switch e[2] {
	case 1:
		return math.Inf(1)
	case 2:
		return math.Inf(-1)
	case 3:
		return math.NaN()
	case 4:
		return math.Copysign(0, -1)
	}
	return float64(e[0])
}

// an absent entry of a sparse container is a (positive) zero
func xIsZero(e [3]int) bool { return e[2] == 0 && e[0] == 0 }

func (t *elemType) buildX(k byte, rows, cols int, c [][3]int) cont {
	set := func(s Scalar, e [3]int) { s.SetFloat64(xValue(e)) }
	if cols < 0 {
		var v Vector
		if k == 'd' {
			v = NullDenseVector(t.st, rows)
		} else {
			v = NullSparseVector(t.st, rows)
		}
		for i := range c {
			if !xIsZero(c[i]) {
				set(v.At(i), c[i])
			} else if k == 'z' {
				v.At(i)
			}
		}
		return cont{vec: v}
	}
	var m Matrix
	if k == 'd' {
		m = NullDenseMatrix(t.st, rows, cols)
	} else {
		m = NullSparseMatrix(t.st, rows, cols)
	}
	for x := range c {
		if !xIsZero(c[x]) {
			set(m.At(x/cols, x%cols), c[x])
		} else if k == 'z' {
			m.At(x/cols, x%cols)
		}
	}
	return cont{mat: m}
}

func xClassOK(e [3]int, v float64) bool {
	switch e[2] {
	case 1:
		return math.IsInf(v, 1)
	case 2:
		return math.IsInf(v, -1)
	case 3:
		return math.IsNaN(v)
	case 5:
		return true
	}
	return v == float64(e[0])
}

type xRun struct {
	panicMsg string
	recv     []obsElem
	noPair   bool
}

func runX(c *xCase, t *elemType, in cInst, aliased bool) (res xRun) {
	var r, a, b cont
	var s Scalar
	msg := vh.Try(func() {
		mk := func(i int) cont { return t.buildX(in.Storage[i-1], c.Rows, c.Cols, c.Objs[i-1]) }
		if aliased {
			objs := make([]cont, len(c.Objs))
			for i := range objs {
				objs[i] = mk(i + 1)
			}
			r, a = objs[c.Roles.R-1], objs[c.Roles.A-1]
			if c.Roles.B != 0 {
				b = objs[c.Roles.B-1]
			}
		} else {
			// a fresh (zero) receiver of the receiver's storage, operands built separately
			zero := make([][3]int, len(c.Objs[c.Roles.R-1]))
			r = t.buildX(in.Storage[c.Roles.R-1], c.Rows, c.Cols, zero)
			a = mk(c.Roles.A)
			if c.Roles.B != 0 {
				b = mk(c.Roles.B)
			}
		}
		s = NewScalar(t.st, xValue(c.S))
	})
	if msg != "" {
		vh.Fatal("driver cannot build special case:", msg)
	}
	msg = vh.Try(func() {
		if in.Mode == "concrete" {
			if !callContConcrete(c.Op, r, a, b, s) {
				res.noPair = true
			}
		} else {
			callContGeneric(c.Op, r, a, b, s)
		}
	})
	if res.noPair {
		return
	}
	if msg != "" {
		res.panicMsg = msg
		return
	}
	if m := vh.Try(func() { res.recv = project(r) }); m != "" {
		res.panicMsg = "observation: " + m
	}
	return
}

func xStorages(n int) []string {
	res := []string{""}
	for i := 0; i < n; i++ {
		next := []string{}
		for _, p := range res {
			for _, o := range []string{"d", "s", "z"} {
				next = append(next, p+o)
			}
		}
		res = next
	}
	return res
}

func xWrong(exp [][3]int, run xRun) int {
	if run.panicMsg != "" || len(run.recv) != len(exp) {
		return 0
	}
	for i := range exp {
		if !xClassOK(exp[i], run.recv[i].V) {
			return i
		}
	}
	return -1
}

func xPattern(c *xCase) string {
	p := "r"
	if c.Roles.A == c.Roles.R {
		p += "=a"
	}
	if c.Roles.B == c.Roles.R {
		p += "=b"
	}
	return p
}

func xcontCase(c *xCase, line []byte, out *vh.Out, st *stats) {
	pat := xPattern(c)
	for _, t := range elemTypes {
		if t.class == "int" {
			continue // Inf / NaN / -0 exist in the floating point and magic element types only
		}
		for _, sto := range xStorages(len(c.Objs)) {
			for _, mode := range []string{"generic", "concrete"} {
				in := cInst{Type: t.name, Storage: sto, Mode: mode}
				if c.Only != nil && *c.Only != in {
					continue
				}
				al := runX(c, t, in, true)
				if al.noPair {
					continue
				}
				fr := runX(c, t, in, false)
				st.add(func() {
					st.xExec += 2
					st.byOp[c.Op]++
					st.xPatterns[pat+" "+sto[c.Roles.R-1:c.Roles.R]]++
				})
				aw, fw := xWrong(c.Exp, al), xWrong(c.Exp, fr)
				if aw < 0 {
					if fw >= 0 {
						st.add(func() { st.foreign[c.Op+" special fresh-only"]++ })
					}
					continue
				}
				if al.panicMsg == "" && fr.panicMsg == "" && sameElems(al.recv, fr.recv) || (al.panicMsg != "" && fr.panicMsg != "") {
					// the same deviation from IEEE arithmetic with and without aliasing (C03 / C09)
					st.add(func() { st.foreign[c.Op+" special"]++ })
					continue
				}
				recv := "dense"
				if sto[c.Roles.R-1] != 'd' {
					recv = "sparse"
				}
				what := "special_value"
				if al.panicMsg != "" {
					what = "panic"
				}
				report(out, st, vh.M{"engine": "alias", "fam": "xcont", "op": c.Op, "pattern": pat, "type": t.name, "mode": mode, "recv": recv, "what": what},
					vh.M{"case": json.RawMessage(line), "only": in, "index": aw, "expected": c.Exp,
						"aliased": vh.M{"panic": al.panicMsg, "recv": al.recv}, "fresh": vh.M{"panic": fr.panicMsg, "recv": fr.recv}})
			}
		}
	}
	st.add(func() { st.xCases++ })
}
