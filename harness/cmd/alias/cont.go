package main

import (
	"encoding/json"
	"fmt"
	"math"
	"reflect"
	"strings"

	. "github.com/pbenner/autodiff"
	"verifharness/vh"
)

// ---- the container case records printed by TLC (spec/Aliasing.tla, CCase) ----

type cParent struct {
	Rows int      `json:"rows"`
	Cols int      `json:"cols"` // -1: vector of length Rows
	C    [][2]int `json:"c"`
}

type cView struct {
	P     int `json:"p"`
	T     int `json:"t"` // 0 slice, 1 slice then T(), 2 row R0 of a matrix parent as a vector
	R0    int `json:"r0"`
	R1    int `json:"r1"`
	C0    int `json:"c0"`
	C1    int `json:"c1"`
	Whole int `json:"whole"`
}

type cRoles struct {
	R int `json:"r"`
	A int `json:"a"`
	B int `json:"b"`
}

type cCase struct {
	Fam     string     `json:"fam"`
	Op      string     `json:"op"`
	Grp     string     `json:"grp"`
	Parents []cParent  `json:"parents"`
	Views   []cView    `json:"views"`
	Roles   cRoles     `json:"roles"`
	S       [2]int     `json:"s"`
	Cls     string     `json:"cls"`
	Clss    string     `json:"clss"`
	Exp     [][3]int   `json:"exp"`
	Post    [][][2]int `json:"post"`
	Dev     [][][2]int `json:"dev"`
	Ok      bool       `json:"ok"`
	Only    *cInst     `json:"only,omitempty"`
}

type cInst struct {
	Type    string `json:"type"`
	Storage string `json:"storage"` // one letter per parent: d dense, s sparse (non-zeros stored), z sparse (zeros stored too)
	Mode    string `json:"mode"`    // generic | concrete
}

// ---- real objects -----------------------------------------------------------------

type cont struct {
	vec Vector
	mat Matrix
}

func (c cont) obj() interface{} {
	if c.vec != nil {
		return c.vec
	}
	return c.mat
}

func (t *elemType) elem(v, d int) Scalar {
	s := NewScalar(t.st, float64(v))
	if t.class == "real" && (v != 0 || d != 0) {
		m := s.(MagicScalar)
		m.Alloc(1, 1)
		m.SetDerivative(0, float64(d))
	}
	return s
}

func (t *elemType) buildParent(k byte, p *cParent) cont {
	c := p.C
	if p.Cols < 0 {
		n := p.Rows
		if k == 'd' {
			v := NullDenseVector(t.st, n)
			for i := 0; i < n; i++ {
				if c[i] != [2]int{0, 0} {
					v.At(i).Set(t.elem(c[i][0], c[i][1]))
				}
			}
			return cont{vec: v}
		}
		v := NullSparseVector(t.st, n)
		for i := 0; i < n; i++ {
			if c[i] != [2]int{0, 0} {
				v.At(i).Set(t.elem(c[i][0], c[i][1]))
			} else if k == 'z' {
				v.At(i) // an explicitly stored zero
			}
		}
		return cont{vec: v}
	}
	var m Matrix
	if k == 'd' {
		m = NullDenseMatrix(t.st, p.Rows, p.Cols)
	} else {
		m = NullSparseMatrix(t.st, p.Rows, p.Cols)
	}
	for x := 0; x < p.Rows*p.Cols; x++ {
		if c[x] != [2]int{0, 0} {
			m.At(x/p.Cols, x%p.Cols).Set(t.elem(c[x][0], c[x][1]))
		} else if k == 'z' {
			m.At(x/p.Cols, x%p.Cols)
		}
	}
	return cont{mat: m}
}

func buildView(parents []cont, ps []cParent, v *cView) cont {
	p := parents[v.P-1]
	if v.Whole == 1 {
		return p
	}
	switch {
	case v.T == 2:
		cols := ps[v.P-1].Cols
		return cont{vec: p.mat.AsVector().Slice(v.R0*cols, (v.R0+1)*cols)}
	case p.vec != nil:
		return cont{vec: p.vec.Slice(v.R0, v.R1)}
	default:
		m := p.mat.Slice(v.R0, v.R1, v.C0, v.C1)
		if v.T == 1 {
			m = m.T()
		}
		return cont{mat: m}
	}
}

type obsElem struct {
	V float64
	D float64
}

func (o obsElem) MarshalJSON() ([]byte, error) {
	return []byte(fmt.Sprintf("[%q,%q]", fmt.Sprint(o.V), fmt.Sprint(o.D))), nil
}

func projScalar(s ConstScalar) obsElem {
	o := obsElem{V: s.GetFloat64()}
	if s.GetOrder() >= 1 && s.GetN() >= 1 {
		o.D = s.GetDerivative(0)
	}
	return o
}

func project(c cont) []obsElem {
	if c.vec != nil {
		r := make([]obsElem, c.vec.Dim())
		for i := range r {
			r[i] = projScalar(c.vec.ConstAt(i))
			if f := c.vec.Float64At(i); f != r[i].V && !(math.IsNaN(f) && math.IsNaN(r[i].V)) {
				r[i] = obsElem{math.NaN(), -12345}
			}
		}
		return r
	}
	rows, cols := c.mat.Dims()
	r := make([]obsElem, rows*cols)
	for i := 0; i < rows; i++ {
		for j := 0; j < cols; j++ {
			r[i*cols+j] = projScalar(c.mat.ConstAt(i, j))
			if f := c.mat.Float64At(i, j); f != r[i*cols+j].V && !(math.IsNaN(f) && math.IsNaN(r[i*cols+j].V)) {
				r[i*cols+j] = obsElem{math.NaN(), -12345}
			}
		}
	}
	return r
}

// ---- one execution -------------------------------------------------------------------

type cRun struct {
	panicMsg string
	recv     []obsElem   // content of the receiver (through its view) after the call
	parents  [][]obsElem // content of every parent of the RECEIVER's object set after the call
	noPair   bool
	harness  string
}

func callContGeneric(op string, r, a, b cont, s Scalar) {
	var av, bv ConstVector
	if a.vec != nil {
		av = a.vec
	}
	if b.vec != nil {
		bv = b.vec
	}
	switch op {
	case "VaddV":
		r.vec.VaddV(av, bv)
	case "VsubV":
		r.vec.VsubV(av, bv)
	case "VmulV":
		r.vec.VmulV(av, bv)
	case "VdivV":
		r.vec.VdivV(av, bv)
	case "VaddS":
		r.vec.VaddS(av, s)
	case "VsubS":
		r.vec.VsubS(av, s)
	case "VmulS":
		r.vec.VmulS(av, s)
	case "VdivS":
		r.vec.VdivS(av, s)
	case "MdotV":
		r.vec.MdotV(a.mat, bv)
	case "VdotM":
		r.vec.VdotM(av, b.mat)
	case "MaddM":
		r.mat.MaddM(a.mat, b.mat)
	case "MsubM":
		r.mat.MsubM(a.mat, b.mat)
	case "MmulM":
		r.mat.MmulM(a.mat, b.mat)
	case "MdivM":
		r.mat.MdivM(a.mat, b.mat)
	case "MaddS":
		r.mat.MaddS(a.mat, s)
	case "MsubS":
		r.mat.MsubS(a.mat, s)
	case "MmulS":
		r.mat.MmulS(a.mat, s)
	case "MdivS":
		r.mat.MdivS(a.mat, s)
	case "MdotM":
		r.mat.MdotM(a.mat, b.mat)
	case "Outer":
		r.mat.Outer(av, bv)
	default:
		panic("harness: unknown container operation " + op)
	}
}

var scalarOperand = map[string]bool{"VaddS": true, "VsubS": true, "VmulS": true, "VdivS": true,
	"MaddS": true, "MsubS": true, "MmulS": true, "MdivS": true}

func callContConcrete(op string, r, a, b cont, s Scalar) bool {
	m := reflect.ValueOf(r.obj()).MethodByName(strings.ToUpper(op))
	if !m.IsValid() {
		return false
	}
	var args []interface{}
	if scalarOperand[op] {
		args = []interface{}{a.obj(), s}
	} else {
		args = []interface{}{a.obj(), b.obj()}
	}
	mt := m.Type()
	if mt.NumIn() != len(args) {
		return false
	}
	vals := make([]reflect.Value, len(args))
	for i, x := range args {
		if x == nil || reflect.TypeOf(x) != mt.In(i) {
			return false
		}
		vals[i] = reflect.ValueOf(x)
	}
	m.Call(vals)
	return true
}

// runCont executes the case.  aliased: one set of parents, the roles are views
// of it as prescribed.  Otherwise every role gets its own set of parents (same
// contents, same views): nothing is shared between receiver and operands.
func runCont(c *cCase, t *elemType, in cInst, aliased bool) (res cRun) {
	var r, a, b cont
	var rParents []cont
	var s Scalar
	msg := vh.Try(func() {
		mk := func() ([]cont, []cont) {
			ps := make([]cont, len(c.Parents))
			for i := range c.Parents {
				ps[i] = t.buildParent(in.Storage[i], &c.Parents[i])
			}
			vs := make([]cont, len(c.Views))
			for i := range c.Views {
				vs[i] = buildView(ps, c.Parents, &c.Views[i])
			}
			return ps, vs
		}
		ps, vs := mk()
		rParents = ps
		r = vs[c.Roles.R-1]
		if aliased {
			a = vs[c.Roles.A-1]
			if c.Roles.B != 0 {
				b = vs[c.Roles.B-1]
			}
		} else {
			_, vs2 := mk()
			a = vs2[c.Roles.A-1]
			if c.Roles.B != 0 {
				_, vs3 := mk()
				b = vs3[c.Roles.B-1]
			}
		}
		s = t.elem(c.S[0], c.S[1])
	})
	if msg != "" {
		res.harness = msg
		return
	}
	msg = vh.Try(func() {
		if in.Mode == "concrete" {
			if !callContConcrete(c.Op, r, a, b, s) {
				res.noPair = true
			}
		} else {
			callContGeneric(c.Op, r, a, b, s)
		}
	})
	if res.noPair {
		return
	}
	if msg != "" {
		if strings.HasPrefix(msg, "harness:") {
			res.harness = msg
		} else {
			res.panicMsg = msg
		}
		return
	}
	msg = vh.Try(func() {
		res.recv = project(r)
		for _, p := range rParents {
			res.parents = append(res.parents, project(p))
		}
	})
	if msg != "" {
		res.panicMsg = "observation: " + msg
	}
	return
}

// ---- comparison ------------------------------------------------------------------------

// wrap embeds an exact integer into the element type (two's complement wrap-around of the
// narrow integer types: the modelled sequential deviation may leave the int8 range)
func wrap(t *elemType, v int) float64 {
	switch t.name {
	case "Int8":
		return float64(int8(v))
	case "Int16":
		return float64(int16(v))
	}
	return float64(v)
}

func elemEq(t *elemType, v, d int, o obsElem) string {
	if o.V != wrap(t, v) {
		return "value"
	}
	if t.class == "real" && o.D != float64(d) {
		return "deriv"
	}
	return ""
}

func cmpRecv(t *elemType, exp [][3]int, obs []obsElem) (string, int) {
	if len(exp) != len(obs) {
		return "shape", -1
	}
	for i := range exp {
		if w := elemEq(t, exp[i][0], exp[i][1], obs[i]); w != "" {
			return w, i
		}
	}
	return "", -1
}

// cmpParents compares all parents with a demanded post-state; returns "" or the failure class
func cmpParents(t *elemType, exp [][][2]int, obs [][]obsElem) (string, int, int) {
	if len(exp) != len(obs) {
		return "shape", -1, -1
	}
	for q := range exp {
		if len(exp[q]) != len(obs[q]) {
			return "shape", q, -1
		}
		for i := range exp[q] {
			if w := elemEq(t, exp[q][i][0], exp[q][i][1], obs[q][i]); w != "" {
				return w, q, i
			}
		}
	}
	return "", -1, -1
}

func sameElems(a, b []obsElem) bool {
	if len(a) != len(b) {
		return false
	}
	for i := range a {
		if !sameFloat(a[i].V, b[i].V) || !sameFloat(a[i].D, b[i].D) {
			return false
		}
	}
	return true
}

func contPattern(c *cCase) string {
	rel := func(x int) string {
		if x == 0 {
			return "-"
		}
		if x == c.Roles.R {
			return "same"
		}
		vr, vx := c.Views[c.Roles.R-1], c.Views[x-1]
		if vr.P != vx.P {
			return "apart"
		}
		if vr == vx || (vr.Whole == 1 && vx.Whole == 1) {
			return "hdr"
		}
		w1, w2 := vr, vx
		w1.Whole, w2.Whole = 0, 0
		if w1 == w2 {
			return "hdr"
		}
		if vx.T == 2 || vr.T == 2 {
			return "row"
		}
		if vr.T != vx.T {
			return "T"
		}
		return "overlap"
	}
	return "a:" + rel(c.Roles.A) + ",b:" + rel(c.Roles.B)
}

// storages enumerates the storage letters per parent that make sense for the case:
// transposes and row views share storage for dense parents only (sparse T() is a
// re-keyed copy, C10 known finding), sparse vector slices are no views.
func storages(c *cCase) []string {
	opts := make([][]byte, len(c.Parents))
	for i := range c.Parents {
		dense := false
		hasZero := false
		for _, e := range c.Parents[i].C {
			if e == [2]int{0, 0} {
				hasZero = true
			}
		}
		for _, v := range c.Views {
			if v.P == i+1 && v.Whole == 0 && (v.T != 0 || c.Parents[i].Cols < 0) {
				dense = true
			}
		}
		opts[i] = []byte{'d'}
		if !dense {
			opts[i] = append(opts[i], 's')
			if hasZero {
				opts[i] = append(opts[i], 'z')
			}
		}
	}
	res := []string{""}
	for i := range opts {
		next := []string{}
		for _, p := range res {
			for _, o := range opts[i] {
				next = append(next, p+string(o))
			}
		}
		res = next
	}
	return res
}

func contCase(c *cCase, line []byte, out *vh.Out, st *stats) {
	if !c.Ok {
		st.add(func() { st.contSkipped++ })
		return
	}
	pat := contPattern(c)
	for _, t := range elemTypes {
		for _, sto := range storages(c) {
			for _, mode := range []string{"generic", "concrete"} {
				in := cInst{Type: t.name, Storage: sto, Mode: mode}
				if c.Only != nil && *c.Only != in {
					continue
				}
				al := runCont(c, t, in, true)
				if al.noPair {
					continue
				}
				fr := runCont(c, t, in, false)
				if al.harness != "" || fr.harness != "" {
					vh.Fatal("driver cannot build case: ", al.harness, fr.harness, string(line[:min(len(line), 300)]))
				}
				recvSparse := sto[c.Views[c.Roles.R-1].P-1] != 'd'
				cls := c.Cls
				if recvSparse {
					cls = c.Clss
				}
				st.add(func() {
					st.contExec += 2
					st.byOp[c.Op]++
					st.byPattern[c.Grp+" "+pat]++
					st.insts[t.name+"/"+mode]++
					st.storage[sto]++
				})
				sig := vh.M{"engine": "alias", "fam": "cont", "op": c.Op, "group": c.Grp, "pattern": pat, "type": t.name, "mode": mode}
				if recvSparse {
					sig["recv"] = "sparse"
				} else {
					sig["recv"] = "dense"
				}
				detail := func(extra vh.M) vh.M {
					d := vh.M{"case": json.RawMessage(line), "only": in, "pattern": pat, "class": cls,
						"aliased": vh.M{"panic": al.panicMsg, "recv": al.recv, "parents": al.parents},
						"fresh":   vh.M{"panic": fr.panicMsg, "recv": fr.recv}}
					for k, v := range extra {
						d[k] = v
					}
					return d
				}
				// the non-aliased execution against the contract
				fwhat := ""
				if fr.panicMsg != "" {
					fwhat = "panic"
				} else {
					fwhat, _ = cmpRecv(t, c.Exp, fr.recv)
				}
				if al.panicMsg != "" {
					switch {
					case cls == "reject-or-correct":
						st.add(func() { st.rejected[c.Op+" "+c.Grp]++ })
					case fr.panicMsg != "":
						st.add(func() { st.foreign[c.Op+" panic"]++ })
					default:
						sig["what"] = "panic"
						report(out, st, sig, detail(nil))
					}
					continue
				}
				awhat, aidx := cmpRecv(t, c.Exp, al.recv)
				pwhat, pq, pidx := cmpParents(t, c.Post, al.parents)
				if awhat == "" && pwhat == "" {
					if fwhat != "" {
						st.add(func() { st.foreign[c.Op+" fresh-only "+fwhat]++ })
					}
					if cls == "reject-or-correct" {
						st.add(func() { st.acceptedCorrect[c.Op+" "+c.Grp]++ })
					}
					continue
				}
				if awhat == "" {
					awhat = "frame_" + pwhat
				}
				if fwhat != "" && sameElems(al.recv, fr.recv) {
					st.add(func() { st.foreign[c.Op+" "+awhat]++ })
					continue
				}
				if len(c.Dev) > 0 {
					if w, _, _ := cmpParents(t, c.Dev, al.parents); w == "" {
						awhat = "known_deviation_sequential"
					}
				}
				sig["what"] = awhat
				report(out, st, sig, detail(vh.M{"index": aidx, "frame_parent": pq, "frame_index": pidx}))
			}
		}
	}
	st.add(func() { st.contCases++ })
}
