package main

import (
	"math"
	"math/rand"
	"reflect"
	"strconv"
	"strings"

	. "github.com/pbenner/autodiff"
	"verifharness/vh"
)

// ---- recorder (code -> model) ------------------------------------------------
//
// Seeded random programs over a pool of scalars and a pool of container
// parents; every call picks receiver and operands at random, so receiver and
// operands coincide / share storage in every possible way.  One ndjson event
// per call with the exact observation read back from the real objects;
// spec/AliasingTrace.tla replays the events on the contract.
//
// The recorder is no oracle: it only keeps the numbers small (objects whose
// entries grew are re-initialised by an explicit event) and stays out of the
// alias patterns that are listed as known findings (element-wise operations
// and MdotV/VdotM/Outer on partially overlapping views).

const (
	nScalars = 5
	nParents = 4 // 1, 2: 3x3 matrices; 3, 4: vectors of length 4
	bigJet   = 1000
	bigCell  = 100
)

type viewEv struct {
	P     int `json:"p"`
	T     int `json:"t"`
	R0    int `json:"r0"`
	R1    int `json:"r1"`
	C0    int `json:"c0"`
	C1    int `json:"c1"`
	Whole int `json:"whole"`
}

type jetEv struct {
	V int       `json:"v"`
	G [2]int    `json:"g"`
	H [2][2]int `json:"h"`
}

func exactInt(x float64) (int, bool) {
	if math.IsNaN(x) || math.IsInf(x, 0) || x != math.Trunc(x) || math.Abs(x) > 1e9 {
		return 0, false
	}
	return int(x), true
}

// readJet reads the observable jet of a scalar through the public API.
func readJet(s ConstScalar) (jetEv, int, bool) {
	var j jetEv
	ok := true
	big := 0
	get := func(x float64) int {
		v, e := exactInt(x)
		if !e {
			ok = false
		}
		if a := int(math.Abs(x)); a > big {
			big = a
		}
		return v
	}
	j.V = get(s.GetFloat64())
	for i := 0; i < 2; i++ {
		if s.GetOrder() >= 1 && s.GetN() > i {
			j.G[i] = get(s.GetDerivative(i))
		}
		for k := 0; k < 2; k++ {
			if s.GetOrder() >= 2 && s.GetN() > i && s.GetN() > k {
				j.H[i][k] = get(s.GetHessian(i, k))
			}
		}
	}
	return j, big, ok
}

type recorder struct {
	out   *vh.Out
	rng   *rand.Rand
	trace int
	// scalars
	styp   string
	smode  string
	sc     [nScalars + 1]MagicScalar
	sord   [nScalars + 1]int
	slin   [nScalars + 1]bool
	sbig   [nScalars + 1]bool
	orders []int
	// containers
	et      *elemType
	sparse  bool
	par     [nParents + 1]cont
	pbig    [nParents + 1]bool
	nevents int
	nalias  map[string]int
}

func (rc *recorder) mismatch(what string, detail vh.M) {
	detail["trace"] = rc.trace
	vh.Mismatch(rc.out, vh.M{"engine": "alias", "fam": "record", "what": what}, detail)
}

// ---- scalar programs ---------------------------------------------------------------

func (rc *recorder) initScalar(id int) {
	val := rc.rng.Intn(7) - 3
	if rc.rng.Intn(4) == 0 {
		rc.sc[id] = newReal(rc.styp, float64(val))
		rc.sord[id], rc.slin[id], rc.sbig[id] = 0, true, false
		j, _, _ := readJet(rc.sc[id])
		rc.out.Put(vh.M{"e": "sconst", "id": id, "val": val, "post": j})
	} else {
		k := rc.rng.Intn(2) + 1
		ord := rc.orders[rc.rng.Intn(len(rc.orders))]
		x := newReal(rc.styp, float64(val))
		if err := x.SetVariable(k-1, 2, ord); err != nil {
			vh.Fatal("SetVariable:", err)
		}
		rc.sc[id] = x
		rc.sord[id], rc.slin[id], rc.sbig[id] = ord, true, false
		j, _, _ := readJet(x)
		rc.out.Put(vh.M{"e": "svar", "id": id, "k": k, "ord": ord, "val": val, "post": j})
	}
	rc.nevents++
}

var sops = []string{"Add", "Sub", "Mul", "Neg", "Mul", "Add"}

func (rc *recorder) scalarOp() {
	for try := 0; try < 50; try++ {
		op := sops[rc.rng.Intn(len(sops))]
		r, a, b := rc.rng.Intn(nScalars)+1, rc.rng.Intn(nScalars)+1, rc.rng.Intn(nScalars)+1
		if op == "Neg" {
			b = 0
		}
		ids := []int{a}
		if b != 0 {
			ids = append(ids, b)
		}
		// re-initialise operands whose entries grew (explicit events)
		for _, id := range ids {
			if rc.sbig[id] {
				rc.initScalar(id)
			}
		}
		maxOrd := 0
		for _, id := range ids {
			if rc.sord[id] > maxOrd {
				maxOrd = rc.sord[id]
			}
		}
		// an order-1 scalar carries no second-order information: it may meet an order-2
		// operand only while it is a linear function of the variables
		okMix := true
		for _, id := range ids {
			if maxOrd == 2 && rc.sord[id] == 1 && !rc.slin[id] {
				okMix = false
			}
		}
		if !okMix {
			continue
		}
		lin := true
		switch op {
		case "Add", "Sub":
			lin = rc.slin[a] && rc.slin[b]
		case "Neg":
			lin = rc.slin[a]
		case "Mul":
			lin = (rc.slin[a] && rc.sord[b] == 0) || (rc.slin[b] && rc.sord[a] == 0)
		}
		R := rc.sc[r]
		A := rc.sc[a]
		var B MagicScalar
		if b != 0 {
			B = rc.sc[b]
		}
		msg := vh.Try(func() {
			if rc.smode == "concrete" {
				args := []reflect.Value{reflect.ValueOf(A)}
				if b != 0 {
					args = append(args, reflect.ValueOf(B))
				}
				reflect.ValueOf(R).MethodByName(strings.ToUpper(op)).Call(args)
			} else {
				switch op {
				case "Add":
					R.Add(A, B)
				case "Sub":
					R.Sub(A, B)
				case "Mul":
					R.Mul(A, B)
				case "Neg":
					R.Neg(A)
				}
			}
		})
		ev := vh.M{"e": "sop", "op": op, "r": r, "a": a, "b": b}
		if msg != "" {
			rc.mismatch("panic", vh.M{"event": ev, "panic": msg, "type": rc.styp, "mode": rc.smode})
			rc.initScalar(r)
			return
		}
		j, big, exact := readJet(R)
		if !exact {
			rc.mismatch("inexact", vh.M{"event": ev, "type": rc.styp})
			rc.initScalar(r)
			return
		}
		ev["post"] = j
		rc.out.Put(ev)
		rc.nevents++
		rc.sord[r] = maxOrd
		rc.slin[r] = lin
		rc.sbig[r] = big > bigJet
		pat := "r"
		if r == a {
			pat += "=a"
		}
		if r == b {
			pat += "=b"
		}
		if a == b && r != a {
			pat += "|a=b"
		}
		rc.nalias["scalar "+pat]++
		return
	}
}

// ---- container programs ------------------------------------------------------------

func (rc *recorder) shapeOf(id int) (int, int) {
	if id <= 2 {
		return 3, 3
	}
	return 4, -1
}

func (rc *recorder) cellsOf(id int) []int {
	o := project(rc.par[id])
	r := make([]int, len(o))
	for i := range o {
		v, ok := exactInt(o[i].V)
		if !ok {
			v = 1 << 30
		}
		r[i] = v
	}
	return r
}

func (rc *recorder) allCells() [][]int {
	r := make([][]int, nParents)
	for q := 1; q <= nParents; q++ {
		if rc.par[q].obj() == nil {
			r[q-1] = []int{}
		} else {
			r[q-1] = rc.cellsOf(q)
		}
	}
	return r
}

func (rc *recorder) initParent(id int) {
	rows, cols := rc.shapeOf(id)
	n := rows
	if cols > 0 {
		n = rows * cols
	}
	c := make([][2]int, n)
	vals := make([]int, n)
	for i := range c {
		v := rc.rng.Intn(7) - 3
		if rc.rng.Intn(3) == 0 {
			v = 0
		}
		c[i] = [2]int{v, 0}
		vals[i] = v
	}
	k := byte('d')
	if rc.sparse {
		k = 's'
	}
	rc.par[id] = rc.et.buildParent(k, &cParent{Rows: rows, Cols: cols, C: c})
	rc.pbig[id] = false
	rc.out.Put(vh.M{"e": "cnew", "id": id, "rows": rows, "cols": cols, "c": vals, "post": rc.allCells()})
	rc.nevents++
}

// random square matrix view of size k (k = 3: whole or transposed whole; k = 2: a window, possibly transposed)
func (rc *recorder) matView(p, k int) viewEv {
	if rc.sparse {
		return viewEv{P: p, R1: 3, C1: 3, Whole: 1}
	}
	if k == 3 {
		switch rc.rng.Intn(3) {
		case 0:
			return viewEv{P: p, R1: 3, C1: 3, Whole: 1}
		case 1:
			return viewEv{P: p, R1: 3, C1: 3}
		}
		return viewEv{P: p, T: 1, R1: 3, C1: 3}
	}
	r0, c0 := rc.rng.Intn(4-k), rc.rng.Intn(4-k)
	return viewEv{P: p, T: rc.rng.Intn(2), R0: r0, R1: r0 + k, C0: c0, C1: c0 + k}
}

func (rc *recorder) vecView(p, k int) viewEv {
	if rc.sparse || (k == 4 && rc.rng.Intn(2) == 0) {
		return viewEv{P: p, R1: 4, C1: -1, Whole: 1}
	}
	i := rc.rng.Intn(5 - k)
	return viewEv{P: p, R0: i, R1: i + k, C1: -1}
}

func (rc *recorder) realView(v viewEv) cont {
	cv := cView{P: v.P, T: v.T, R0: v.R0, R1: v.R1, C0: v.C0, C1: v.C1, Whole: v.Whole}
	ps := make([]cont, nParents)
	cps := make([]cParent, nParents)
	for q := 1; q <= nParents; q++ {
		ps[q-1] = rc.par[q]
		rows, cols := rc.shapeOf(q)
		cps[q-1] = cParent{Rows: rows, Cols: cols}
	}
	return buildView(ps, cps, &cv)
}

var cops = []string{"MaddM", "MsubM", "MmulM", "MaddS", "MsubS", "MmulS", "VaddV", "VsubV", "VmulV", "VaddS", "VsubS", "VmulS",
	"MdotM", "MdotM", "MdotM", "MdotV", "VdotM", "Outer"}

func (rc *recorder) containerOp() {
	op := cops[rc.rng.Intn(len(cops))]
	for rc.sparse && (op == "MdotV" || op == "VdotM" || op == "Outer") {
		op = cops[rc.rng.Intn(len(cops))] // sparse parents are used whole: 3x3 and length 4 do not combine
	}
	for q := 1; q <= nParents; q++ {
		if rc.pbig[q] {
			rc.initParent(q)
		}
	}
	other := func(p int) int {
		if p <= 2 {
			return 3 - p
		}
		return 7 - p
	}
	var r, a, b viewEv
	var R, A, B cont
	views := map[viewEv]cont{}
	get := func(v viewEv, fresh bool) cont {
		if c, ok := views[v]; ok && !fresh {
			return c
		}
		c := rc.realView(v)
		views[v] = c
		return c
	}
	hasB := true
	pat := ""
	// operand of an element-wise operation: the receiver object itself, another header on
	// the same window, or a view of the same shape of the other parent
	ewOperand := func(isVec bool, k int) (viewEv, cont, string) {
		switch rc.rng.Intn(3) {
		case 0:
			return r, R, "same"
		case 1:
			if r.Whole == 1 {
				return r, R, "same"
			}
			return r, get(r, true), "hdr"
		}
		var v viewEv
		if isVec {
			v = rc.vecView(other(r.P), k)
		} else {
			v = rc.matView(other(r.P), k)
		}
		return v, get(v, false), "apart"
	}
	switch {
	case strings.HasPrefix(op, "M") && op != "MdotM" && op != "MdotV":
		k := 2 + rc.rng.Intn(2)
		r = rc.matView(1+rc.rng.Intn(2), k)
		R = get(r, false)
		var pa, pb string
		a, A, pa = ewOperand(false, k)
		pat = "a:" + pa
		if strings.HasSuffix(op, "M") {
			b, B, pb = ewOperand(false, k)
			pat += ",b:" + pb
		} else {
			hasB = false
		}
	case strings.HasPrefix(op, "V") && op != "VdotM":
		k := 2 + rc.rng.Intn(3)
		r = rc.vecView(3+rc.rng.Intn(2), k)
		R = get(r, false)
		var pa, pb string
		a, A, pa = ewOperand(true, k)
		pat = "a:" + pa
		if strings.HasSuffix(op, "V") {
			b, B, pb = ewOperand(true, k)
			pat += ",b:" + pb
		} else {
			hasB = false
		}
	case op == "MdotM":
		// any views of any parents: the result may alias the left factor, the right factor or
		// both, through the same object, another header, transposes or overlapping windows
		k := 2 + rc.rng.Intn(2)
		r = rc.matView(1+rc.rng.Intn(2), k)
		a = rc.matView(1+rc.rng.Intn(2), k)
		b = rc.matView(1+rc.rng.Intn(2), k)
		if rc.sparse {
			// sparse MdotM rejects aliasing by panic: stay apart
			a.P, b.P = other(r.P), other(r.P)
		}
		R, A, B = get(r, false), get(a, false), get(b, false)
		rel := func(x viewEv) string {
			switch {
			case x == r:
				return "same"
			case x.P == r.P:
				return "shared"
			}
			return "apart"
		}
		pat = "a:" + rel(a) + ",b:" + rel(b)
	case op == "MdotV":
		k := 2 + rc.rng.Intn(2)
		r = rc.vecView(3+rc.rng.Intn(2), k)
		a = rc.matView(1+rc.rng.Intn(2), k)
		b = rc.vecView(other(r.P), k)
		R, A, B = get(r, false), get(a, false), get(b, false)
		pat = "apart"
	case op == "VdotM":
		k := 2 + rc.rng.Intn(2)
		r = rc.vecView(3+rc.rng.Intn(2), k)
		a = rc.vecView(other(r.P), k)
		b = rc.matView(1+rc.rng.Intn(2), k)
		R, A, B = get(r, false), get(a, false), get(b, false)
		pat = "apart"
	case op == "Outer":
		k := 2 + rc.rng.Intn(2)
		r = rc.matView(1+rc.rng.Intn(2), k)
		a = rc.vecView(3+rc.rng.Intn(2), k)
		b = rc.vecView(3+rc.rng.Intn(2), k)
		R, A, B = get(r, false), get(a, false), get(b, false)
		pat = "apart"
	}
	sv := rc.rng.Intn(5) - 2
	s := rc.et.elem(sv, 0)
	ev := vh.M{"e": "cop", "op": op, "r": r, "a": a, "s": sv}
	if hasB {
		ev["b"] = b
	} else {
		ev["b"] = viewEv{}
	}
	msg := vh.Try(func() { callContGeneric(op, R, A, B, s) })
	if msg != "" {
		rc.mismatch("panic", vh.M{"event": ev, "panic": msg, "type": rc.et.name, "sparse": rc.sparse})
		for q := 1; q <= nParents; q++ {
			rc.initParent(q)
		}
		return
	}
	post := rc.allCells()
	ev["post"] = post
	rc.out.Put(ev)
	rc.nevents++
	rc.nalias[op[:1]+" "+pat]++
	for q := 1; q <= nParents; q++ {
		for _, v := range post[q-1] {
			if v > bigCell || v < -bigCell {
				rc.pbig[q] = true
			}
		}
	}
}

var recordTypes = []string{"Float64", "Real64", "Int", "Float32", "Real32", "Int32", "Int64", "Int16"}

func record(args []string) {
	if len(args) < 3 {
		vh.Fatal("usage: alias record trace.ndjson ntraces nops")
	}
	ntr, _ := strconv.Atoi(args[1])
	nops, _ := strconv.Atoi(args[2])
	seed := vh.EnvInt("VERIF_SEED", 1)
	rc := &recorder{out: vh.NewOut(args[0]), rng: rand.New(rand.NewSource(int64(seed)*7919 + 17)), nalias: map[string]int{}}
	defer rc.out.Close()
	types := map[string]*elemType{}
	for _, t := range elemTypes {
		types[t.name] = t
	}
	for tr := 0; tr < ntr; tr++ {
		rc.trace = tr
		rc.out.Put(vh.M{"e": "reset"})
		rc.nevents++
		rc.par = [nParents + 1]cont{}
		// scalar program
		rc.styp = []string{"Real64", "Real32"}[tr%2]
		rc.smode = []string{"generic", "generic", "concrete"}[tr%3]
		rc.orders = [][]int{{2}, {1, 2}, {1}, {1, 2}}[rc.rng.Intn(4)]
		for id := 1; id <= nScalars; id++ {
			rc.initScalar(id)
		}
		for k := 0; k < nops; k++ {
			rc.scalarOp()
		}
		// container program
		rc.et = types[recordTypes[(tr+seed)%len(recordTypes)]]
		rc.sparse = rc.rng.Intn(4) == 0
		for q := 1; q <= nParents; q++ {
			rc.initParent(q)
		}
		for k := 0; k < nops; k++ {
			rc.containerOp()
		}
	}
	vh.Summary(rc.out, vh.M{"traces": ntr, "events": rc.nevents, "patterns": rc.nalias})
}
