package main

import (
	"encoding/json"

	. "github.com/pbenner/autodiff"
	"verifharness/exprlib"
	"verifharness/vh"
)

// ---- reductions with the receiver being an ELEMENT of the container operand ----
// (spec/Aliasing.tla, RCase; information only)

type rCase struct {
	Fam string            `json:"fam"`
	Op  string            `json:"op"`
	N   int               `json:"n"`
	O   int               `json:"o"`
	X   []json.RawMessage `json:"x"`
	Y   []json.RawMessage `json:"y"`
	Ri  int               `json:"ri"`
	Cls string            `json:"cls"`
	Pts [][][2]int64      `json:"pts"`
	Exp sExp              `json:"exp"`
}

func parseTerms(raw []json.RawMessage) []*exprlib.Term {
	r := make([]*exprlib.Term, len(raw))
	for i := range raw {
		t, err := exprlib.Parse(raw[i])
		if err != nil {
			vh.Fatal("bad term in reduce case:", err)
		}
		r[i] = t
	}
	return r
}

// runReduce executes the reduction; elem > 0: the receiver is element elem of the first operand.
func runReduce(c *rCase, xs, ys []*exprlib.Term, typ string, sparse bool, x0 []float64, elem int) (obs jetObs, x []float64) {
	msg := vh.Try(func() {
		vars := make([]MagicScalar, c.N)
		for i := range vars {
			vars[i] = newReal(typ, x0[i])
		}
		if err := Variables(c.O, vars...); err != nil {
			panic("harness: " + err.Error())
		}
		for i := range vars {
			x = append(x, vars[i].GetFloat64())
		}
		st := Real64Type
		if typ == "Real32" {
			st = Real32Type
		}
		mkVec := func(ts []*exprlib.Term) Vector {
			var v Vector
			if sparse {
				v = NullSparseVector(st, len(ts))
			} else {
				v = NullDenseVector(st, len(ts))
			}
			for k, t := range ts {
				v.At(k).Set(buildTerm(typ, t, vars))
			}
			return v
		}
		var r Scalar = newReal(typ, 0)
		scratch := [3]Scalar{newReal(typ, 0), newReal(typ, 0), newReal(typ, 0)}
		switch c.Op {
		case "Mtrace", "Mnorm":
			var m Matrix
			if sparse {
				m = NullSparseMatrix(st, 2, 2)
			} else {
				m = NullDenseMatrix(st, 2, 2)
			}
			for k, t := range xs {
				m.At(k/2, k%2).Set(buildTerm(typ, t, vars))
			}
			if elem > 0 {
				r = m.At((elem-1)/2, (elem-1)%2)
			}
			if c.Op == "Mtrace" {
				r.Mtrace(m)
			} else {
				r.Mnorm(m)
			}
		default:
			v := mkVec(xs)
			if elem > 0 {
				r = v.At(elem - 1)
			}
			switch c.Op {
			case "Vmean":
				r.Vmean(v)
			case "Vnorm":
				r.Vnorm(v)
			case "VdotV":
				r.VdotV(v, mkVec(ys))
			case "SmoothMax":
				r.SmoothMax(v, ConstFloat64(2), [2]Scalar{scratch[0], scratch[1]})
			case "LogSmoothMax":
				r.LogSmoothMax(v, ConstFloat64(2), scratch)
			default:
				panic("harness: unknown reduction " + c.Op)
			}
		}
		obs = observe(r, c.N)
	})
	if msg != "" {
		if len(msg) > 8 && msg[:8] == "harness:" {
			vh.Fatal("driver cannot run reduce case:", msg)
		}
		obs = jetObs{Panic: msg}
	}
	return
}

func reduceCase(c *rCase, line []byte, out *vh.Out, st *stats) {
	xs, ys := parseTerms(c.X), parseTerms(c.Y)
	// reuse the scalar judge
	sc := &sCase{N: c.N, Exp: c.Exp}
	var err error
	if sc.val, err = exprlib.Parse(c.Exp.Val); err != nil {
		vh.Fatal(err)
	}
	sc.grad = parseTerms(c.Exp.Grad)
	for _, row := range c.Exp.Hess {
		sc.hess = append(sc.hess, parseTerms(row))
	}
	for _, typ := range []string{"Real64", "Real32"} {
		for _, sparse := range []bool{false, true} {
			for _, p := range c.Pts {
				x0 := pointOf(p, typ)
				al, x := runReduce(c, xs, ys, typ, sparse, x0, c.Ri)
				fr, _ := runReduce(c, xs, ys, typ, sparse, x0, 0)
				af, adef, _ := judgeJet(sc, typ, x, al)
				_, fdef, _ := judgeJet(sc, typ, x, fr)
				key := c.Op
				st.add(func() {
					st.reduceExec += 2
					if !adef || !fdef {
						return
					}
					switch {
					case c.Ri == 0:
						if len(af) != 0 {
							st.foreign[c.Op+" reduction "+af[0].What]++
						}
					case len(af) == 0:
						st.reduceAgree[key]++
					default:
						st.reduceDisagree[key]++
					}
				})
			}
		}
	}
	st.add(func() { st.reduceCases++ })
}
