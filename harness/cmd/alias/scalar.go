package main

import (
	"encoding/json"
	"fmt"
	"math"
	"reflect"
	"strings"

	. "github.com/pbenner/autodiff"
	"verifharness/exprlib"
	"verifharness/vh"
)

// ---- the scalar case records printed by TLC (spec/Aliasing.tla, SCase) ------

type sObj struct {
	K  string          `json:"k"`  // real | magic0 | plain | const | tmp
	O  int             `json:"o"`  // derivative order of a "real" object
	Cl string          `json:"cl"` // content class
	E  json.RawMessage `json:"e"`  // content term
	t  *exprlib.Term
}

type sRoles struct {
	R int `json:"r"`
	A int `json:"a"`
	B int `json:"b"`
	T int `json:"t"`
}

type sExp struct {
	Ord  int                 `json:"ord"`
	NN   int                 `json:"nn"`
	Val  json.RawMessage     `json:"val"`
	Grad []json.RawMessage   `json:"grad"`
	Hess [][]json.RawMessage `json:"hess"`
}

type sCase struct {
	Fam   string       `json:"fam"`
	Op    string       `json:"op"`
	Par   [2]float64   `json:"par"`
	N     int          `json:"n"`
	Objs  []sObj       `json:"objs"`
	Roles sRoles       `json:"roles"`
	Pat   []int        `json:"pat"`
	Cls   string       `json:"cls"`
	Pts   [][][2]int64 `json:"pts"`
	Ipts  [][][2]int64 `json:"ipts"` // integer points (integer scalar types)
	Spts  [][][2]int64 `json:"spts"` // IEEE special values (tokens, see pointOf)
	Exp   sExp         `json:"exp"`
	// explicit instantiation (replay of one stored violation)
	Only *sInst `json:"only,omitempty"`
	val  *exprlib.Term
	grad []*exprlib.Term
	hess [][]*exprlib.Term
}

type sInst struct {
	Type  string `json:"type"` // Real64 | Real32 (plain objects: Float64 | Float32) | Int | Int8 | Int16 | Int32 | Int64 (plain only)
	Mode  string `json:"mode"` // generic | concrete
	Point int    `json:"point"`
}

const tolK = 16.0 // tolerance = tolK * running error bound of the expected term (as in harness/cmd/scalar)

func unitRoundoff(typ string) float64 {
	if typ == "Real32" {
		return math.Ldexp(1, -23)
	}
	return math.Ldexp(1, -52)
}

func newReal(typ string, v float64) MagicScalar {
	if typ == "Real32" {
		return NewReal32(float32(v))
	}
	return NewReal64(v)
}

func newPlain(typ string, v float64) Scalar {
	switch typ {
	case "Real32":
		return NewFloat32(float32(v))
	case "Int":
		return NewInt(int(v))
	case "Int8":
		return NewInt8(int8(v))
	case "Int16":
		return NewInt16(int16(v))
	case "Int32":
		return NewInt32(int32(v))
	case "Int64":
		return NewInt64(int64(v))
	}
	return NewFloat64(v)
}

func isIntType(typ string) bool { return strings.HasPrefix(typ, "Int") }

// paramBase: the constants of a case are the parameters p_1, p_2 = x_11, x_12 of the terms
const paramBase = 10

// fullPoint lays out the evaluation environment: variables first, parameters at paramBase
func fullPoint(vars []float64, pt []float64) []float64 {
	x := make([]float64, paramBase+2)
	copy(x, vars)
	x[paramBase], x[paramBase+1] = pt[0], pt[1]
	return x
}

func constValueAt(t *exprlib.Term, pt []float64) float64 {
	env := exprlib.NewEnv(fullPoint(nil, pt), 0, 1)
	return env.Eval(t).V
}

func constValue(t *exprlib.Term) float64 {
	env := exprlib.NewEnv(nil, 0, 1)
	return env.Eval(t).V
}

// patternName renders the partition of the roles into objects: "r=a|b|t".
func patternName(ro sRoles) string {
	names := []string{"r", "a", "b", "t"}
	idx := []int{ro.R, ro.A, ro.B, ro.T}
	blocks := []string{}
	seen := map[int]bool{}
	for i, o := range idx {
		if o == 0 || seen[o] {
			continue
		}
		seen[o] = true
		b := []string{}
		for j := i; j < 4; j++ {
			if idx[j] == o {
				b = append(b, names[j])
			}
		}
		blocks = append(blocks, strings.Join(b, "="))
	}
	return strings.Join(blocks, "|")
}

func kindsName(c *sCase) string {
	p := []string{}
	for _, o := range c.Objs {
		s := o.K
		if o.K == "real" {
			s = fmt.Sprintf("real%d-%s", o.O, o.Cl)
		}
		p = append(p, s)
	}
	return strings.Join(p, ",")
}

func parseScalarCase(line []byte) (*sCase, error) {
	c := &sCase{}
	if err := json.Unmarshal(line, c); err != nil {
		return nil, err
	}
	var err error
	for i := range c.Objs {
		if c.Objs[i].t, err = exprlib.Parse(c.Objs[i].E); err != nil {
			return nil, err
		}
	}
	if c.val, err = exprlib.Parse(c.Exp.Val); err != nil {
		return nil, err
	}
	for _, g := range c.Exp.Grad {
		t, err := exprlib.Parse(g)
		if err != nil {
			return nil, err
		}
		c.grad = append(c.grad, t)
	}
	for _, row := range c.Exp.Hess {
		r := []*exprlib.Term{}
		for _, h := range row {
			t, err := exprlib.Parse(h)
			if err != nil {
				return nil, err
			}
			r = append(r, t)
		}
		c.hess = append(c.hess, r)
	}
	return c, nil
}

// ---- building real objects --------------------------------------------------

// buildTerm evaluates a polynomial content term with library calls on FRESH
// receivers (no aliasing: this is the non-aliased arithmetic that C01 checks).
func buildTerm(typ string, t *exprlib.Term, vars []MagicScalar) ConstScalar {
	switch t.Tag {
	case "x":
		return vars[t.I-1]
	case "q":
		return ConstFloat64(t.N / t.D)
	case "ninf":
		return ConstFloat64(math.Inf(-1))
	case "u":
		a := buildTerm(typ, t.A, vars)
		r := newReal(typ, 0)
		switch t.Fn {
		case "neg":
			r.Neg(a)
		case "exp":
			r.Exp(a)
		default:
			panic("harness: content term uses unary " + t.Fn)
		}
		return r
	case "b":
		a := buildTerm(typ, t.A, vars)
		b := buildTerm(typ, t.B, vars)
		r := newReal(typ, 0)
		switch t.Fn {
		case "add":
			r.Add(a, b)
		case "sub":
			r.Sub(a, b)
		case "mul":
			r.Mul(a, b)
		default:
			panic("harness: content term uses binary " + t.Fn)
		}
		return r
	}
	panic("harness: content term tag " + t.Tag)
}

// buildObj creates one object of the case at point x.  plainRecv: the receiver
// of the case is a plain Float (scratch scalars then are plain as well).
func buildObj(o *sObj, typ string, n int, x []float64, concrete bool, plainRecv bool) (ConstScalar, []float64) {
	switch o.K {
	case "real":
		vars := make([]MagicScalar, n)
		for i := range vars {
			vars[i] = newReal(typ, x[i])
		}
		if err := Variables(o.O, vars...); err != nil {
			panic("harness: " + err.Error())
		}
		xs := make([]float64, n)
		for i := range vars {
			xs[i] = vars[i].GetFloat64()
		}
		v := buildTerm(typ, o.t, vars)
		if _, ok := v.(MagicScalar); !ok {
			panic("harness: real object with constant content")
		}
		return v, xs
	case "magic0":
		return newReal(typ, constValueAt(o.t, x)), nil
	case "plain":
		return newPlain(typ, constValueAt(o.t, x)), nil
	case "const":
		return ConstFloat64(constValueAt(o.t, x)), nil
	case "tmp":
		if plainRecv {
			return newPlain(typ, 0), nil
		}
		return newReal(typ, 0), nil
	}
	panic("harness: unknown object kind " + o.K)
}

// ---- observation ---------------------------------------------------------------

type jetObs struct {
	Val   float64
	Order int
	N     int
	Grad  []float64
	Hess  [][]float64
	Panic string
}

func numStr(x float64) string { return fmt.Sprintf("%.17g", x) }

func numStrs(x []float64) []string {
	r := make([]string, len(x))
	for i := range x {
		r[i] = numStr(x[i])
	}
	return r
}

func (o jetObs) MarshalJSON() ([]byte, error) {
	g := make([]string, len(o.Grad))
	h := make([][]string, len(o.Hess))
	for i := range o.Grad {
		g[i] = numStr(o.Grad[i])
	}
	for i := range o.Hess {
		h[i] = make([]string, len(o.Hess[i]))
		for j := range o.Hess[i] {
			h[i][j] = numStr(o.Hess[i][j])
		}
	}
	return json.Marshal(map[string]interface{}{"val": numStr(o.Val), "order": o.Order, "n": o.N, "grad": g, "hess": h, "panic": o.Panic})
}

func observe(s ConstScalar, n int) (o jetObs) {
	o.Grad = make([]float64, n)
	o.Hess = make([][]float64, n)
	for i := range o.Hess {
		o.Hess[i] = make([]float64, n)
	}
	msg := vh.Try(func() {
		o.Val, o.Order, o.N = s.GetFloat64(), s.GetOrder(), s.GetN()
		for i := 0; i < n; i++ {
			o.Grad[i] = s.GetDerivative(i)
			for j := 0; j < n; j++ {
				o.Hess[i][j] = s.GetHessian(i, j)
			}
		}
	})
	if msg != "" {
		o.Panic = "observation: " + msg
	}
	return
}

func sameFloat(a, b float64) bool { return a == b || (a != a && b != b) }

func (o jetObs) same(p jetObs) bool {
	if (o.Panic != "") != (p.Panic != "") {
		return false
	}
	if o.Panic != "" {
		return true
	}
	if !sameFloat(o.Val, p.Val) || o.Order != p.Order || o.N != p.N {
		return false
	}
	for i := range o.Grad {
		if !sameFloat(o.Grad[i], p.Grad[i]) {
			return false
		}
		for j := range o.Hess[i] {
			if !sameFloat(o.Hess[i][j], p.Hess[i][j]) {
				return false
			}
		}
	}
	return true
}

// ---- calling the operation -----------------------------------------------------

type logBesselIer interface {
	LogBesselI(float64, ConstScalar) Scalar
}

var concreteOps = map[string]bool{
	"Min": true, "Max": true, "Abs": true, "Neg": true, "Add": true, "Sub": true, "Mul": true, "Div": true,
	"LogAdd": true, "LogSub": true, "Pow": true, "Sqrt": true, "Exp": true, "Log": true, "Log1p": true,
}

// callGeneric performs r.Op(a[, b][, t]) through the Scalar interface.
func callGeneric(c *sCase, r Scalar, a, b ConstScalar, t Scalar) {
	switch c.Op {
	case "Neg":
		r.Neg(a)
	case "Abs":
		r.Abs(a)
	case "Sqrt":
		r.Sqrt(a)
	case "Sin":
		r.Sin(a)
	case "Sinh":
		r.Sinh(a)
	case "Cos":
		r.Cos(a)
	case "Cosh":
		r.Cosh(a)
	case "Tan":
		r.Tan(a)
	case "Tanh":
		r.Tanh(a)
	case "Exp":
		r.Exp(a)
	case "Log":
		r.Log(a)
	case "Log1p":
		r.Log1p(a)
	case "Log1pExp":
		r.Log1pExp(a)
	case "Logistic":
		r.Logistic(a)
	case "Sigmoid":
		r.Sigmoid(a, t)
	case "Erf":
		r.Erf(a)
	case "Erfc":
		r.Erfc(a)
	case "LogErfc":
		r.LogErfc(a)
	case "Gamma":
		r.Gamma(a)
	case "Lgamma":
		r.Lgamma(a)
	case "Add":
		r.Add(a, b)
	case "Sub":
		r.Sub(a, b)
	case "Mul":
		r.Mul(a, b)
	case "Div":
		r.Div(a, b)
	case "Pow":
		r.Pow(a, b)
	case "Min":
		r.Min(a, b)
	case "Max":
		r.Max(a, b)
	case "LogAdd":
		r.LogAdd(a, b, t)
	case "LogSub":
		r.LogSub(a, b, t)
	case "Mlgamma":
		r.Mlgamma(a, int(c.Par[0]))
	case "GammaP":
		r.GammaP(c.Par[0]/c.Par[1], a)
	case "BesselI":
		r.BesselI(c.Par[0]/c.Par[1], a)
	case "LogBesselI":
		lb, ok := r.(logBesselIer)
		if !ok {
			panic("harness: type has no LogBesselI")
		}
		lb.LogBesselI(c.Par[0]/c.Par[1], a)
	default:
		panic("harness: operation " + c.Op + " is not bound to the library")
	}
}

// callConcrete calls the CAPITAL twin by reflection; false when no such method
// takes exactly the concrete types at hand.
func callConcrete(c *sCase, r Scalar, a, b ConstScalar, t Scalar) bool {
	m := reflect.ValueOf(r).MethodByName(strings.ToUpper(c.Op))
	if !m.IsValid() {
		return false
	}
	args := []interface{}{a}
	if b != nil {
		args = append(args, b)
	}
	if t != nil {
		args = append(args, t)
	}
	mt := m.Type()
	if mt.NumIn() != len(args) {
		return false
	}
	vals := make([]reflect.Value, len(args))
	for i, x := range args {
		if reflect.TypeOf(x) != mt.In(i) {
			return false
		}
		vals[i] = reflect.ValueOf(x)
	}
	m.Call(vals)
	return true
}

// ---- one execution -----------------------------------------------------------

type sRun struct {
	obs     jetObs
	x       []float64
	noPair  bool
	harness string // the harness itself failed (never a verdict)
}

// execute builds the objects and performs the call.  aliased: the roles share
// objects as the case prescribes; otherwise every role gets its own object
// (operands with the same content, a fresh zero receiver, a fresh temporary).
func execute(c *sCase, in sInst, x0 []float64, aliased bool) (res sRun) {
	concrete := in.Mode == "concrete"
	plainRecv := c.Objs[c.Roles.R-1].K == "plain"
	var r, t Scalar
	var a, b ConstScalar
	msg := vh.Try(func() {
		get := func(objIdx int) ConstScalar {
			o, xs := buildObj(&c.Objs[objIdx-1], in.Type, c.N, x0, concrete, plainRecv)
			if xs != nil {
				res.x = xs
			}
			return o
		}
		if aliased {
			objs := make([]ConstScalar, len(c.Objs))
			for i := range c.Objs {
				objs[i] = get(i + 1)
			}
			r = objs[c.Roles.R-1].(Scalar)
			a = objs[c.Roles.A-1]
			if c.Roles.B != 0 {
				b = objs[c.Roles.B-1]
			}
			if c.Roles.T != 0 {
				t = objs[c.Roles.T-1].(Scalar)
			}
		} else {
			if plainRecv {
				r = newPlain(in.Type, 0)
			} else {
				r = newReal(in.Type, 0)
			}
			a = get(c.Roles.A)
			if c.Roles.B != 0 {
				b = get(c.Roles.B)
			}
			if c.Roles.T != 0 {
				if plainRecv {
					t = newPlain(in.Type, 0)
				} else {
					t = newReal(in.Type, 0)
				}
			}
		}
	})
	if msg != "" {
		res.harness = msg
		return
	}
	if res.x == nil {
		res.x = x0[:c.N]
	}
	res.x = fullPoint(res.x, x0)
	msg = vh.Try(func() {
		if concrete {
			if !callConcrete(c, r, a, b, t) {
				res.noPair = true
			}
		} else {
			callGeneric(c, r, a, b, t)
		}
	})
	if res.noPair {
		return
	}
	if msg != "" {
		if strings.HasPrefix(msg, "harness:") {
			res.harness = msg
			return
		}
		res.obs = jetObs{Panic: msg}
		return
	}
	res.obs = observe(r, c.N)
	return
}

// ---- comparison with the expected terms ----------------------------------------

type cmpOutcome int

const (
	cmpOK cmpOutcome = iota
	cmpBad
	cmpSkip
)

type cmpInfo struct {
	Expected, Tol, Observed float64
}

func (ci cmpInfo) MarshalJSON() ([]byte, error) {
	return json.Marshal(map[string]string{"expected": numStr(ci.Expected), "tol": numStr(ci.Tol), "observed": numStr(ci.Observed)})
}

func compareTerm(t *exprlib.Term, x []float64, typ string, obs float64) (cmpOutcome, cmpInfo) {
	u := unitRoundoff(typ)
	env := exprlib.NewEnv(x, u, +1)
	r := env.Eval(t)
	info := cmpInfo{Expected: r.V, Observed: obs}
	if !r.Finite() || env.Overflow || len(env.Ties) > 0 {
		return cmpSkip, info
	}
	hi, lo, floor := 1e290, 1e-290, 1e-300
	if typ == "Real32" {
		hi, lo, floor = 1e30, 1e-30, 1e-37
	}
	if env.MaxAbs > hi || env.MinAbs < lo {
		return cmpSkip, info
	}
	info.Tol = tolK*r.E + floor
	if math.IsNaN(obs) || math.Abs(obs-r.V) > info.Tol {
		return cmpBad, info
	}
	return cmpOK, info
}

type slotFail struct {
	What string  `json:"what"`
	I    int     `json:"i"`
	J    int     `json:"j"`
	Info cmpInfo `json:"cmp"`
}

// judgeJet compares one observation with the terms of the case.
// defined = false: the expected VALUE is not a finite number at this point (nothing is demanded).
func judgeJet(c *sCase, typ string, x []float64, o jetObs) (fails []slotFail, defined bool, compared int) {
	if o.Panic != "" {
		// a panic where the contract defines a finite value is a failure; decide definedness first
		out, _ := compareTerm(c.val, x, typ, 0)
		if out == cmpSkip {
			return nil, false, 0
		}
		return []slotFail{{What: "panic"}}, true, 0
	}
	out, info := compareTerm(c.val, x, typ, o.Val)
	if out == cmpSkip {
		return nil, false, 0
	}
	compared++
	if out == cmpBad {
		fails = append(fails, slotFail{What: "value", Info: info})
	}
	// the stored order / N are representation (Min/Max return a copy of the chosen
	// operand, whatever its order): only the derivative VALUES are demanded; slots the
	// receiver does not store read as zero through the API
	for i := 0; i < c.N; i++ {
		if c.Exp.Ord >= 1 {
			out, info := compareTerm(c.grad[i], x, typ, o.Grad[i])
			if out != cmpSkip {
				compared++
			}
			if out == cmpBad {
				fails = append(fails, slotFail{What: "gradient", I: i, Info: info})
			}
		} else if o.Grad[i] != 0 {
			fails = append(fails, slotFail{What: "gradient", I: i, Info: cmpInfo{Observed: o.Grad[i]}})
		}
		for j := 0; j < c.N; j++ {
			if c.Exp.Ord >= 2 {
				out, info := compareTerm(c.hess[i][j], x, typ, o.Hess[i][j])
				if out != cmpSkip {
					compared++
				}
				if out == cmpBad {
					fails = append(fails, slotFail{What: "hessian", I: i, J: j, Info: info})
				}
			} else if o.Hess[i][j] != 0 {
				fails = append(fails, slotFail{What: "hessian", I: i, J: j, Info: cmpInfo{Observed: o.Hess[i][j]}})
			}
		}
	}
	return fails, true, compared
}

// ---- the check of one scalar case -------------------------------------------------

// pointOf decodes a point; a coordinate [k, 0] is a token of spec/Aliasing.tla (SpecialVals):
// 1 +Inf, -1 -Inf, 0 NaN, 2 / -2 the extreme finite values of the type, 3 its smallest positive
// value; [0, -1] is negative zero.
func pointOf(p [][2]int64, typ string) []float64 {
	x := make([]float64, len(p))
	big, tiny := math.MaxFloat64, math.SmallestNonzeroFloat64
	if typ == "Real32" {
		big, tiny = math.MaxFloat32, math.SmallestNonzeroFloat32
	}
	for i := range p {
		switch {
		case p[i][1] == 0:
			switch p[i][0] {
			case 1:
				x[i] = math.Inf(1)
			case -1:
				x[i] = math.Inf(-1)
			case 0:
				x[i] = math.NaN()
			case 2:
				x[i] = big
			case -2:
				x[i] = -big
			case 3:
				x[i] = tiny
			default:
				vh.Fatal("unknown special value token", p[i][0])
			}
		case p[i][1] == -1 && p[i][0] == 0:
			x[i] = math.Copysign(0, -1)
		default:
			x[i] = float64(p[i][0]) / float64(p[i][1])
		}
	}
	return x
}

// sameValues: every slot read through the API agrees (same IEEE class, same number); the stored
// order / N are representation.
func (o jetObs) sameValues(p jetObs) bool {
	if (o.Panic != "") != (p.Panic != "") {
		return false
	}
	if o.Panic != "" {
		return true
	}
	if !sameFloat(o.Val, p.Val) {
		return false
	}
	for i := range o.Grad {
		if !sameFloat(o.Grad[i], p.Grad[i]) {
			return false
		}
		for j := range o.Hess[i] {
			if !sameFloat(o.Hess[i][j], p.Hess[i][j]) {
				return false
			}
		}
	}
	return true
}

// unconstrainedDiffers looks at the slots for which the terms of the contract give no finite
// number at this point (special values, singular points, ties): there the aliased receiver must
// hold exactly what the fresh receiver holds.  Returns the first such slot that differs.
func unconstrainedDiffers(c *sCase, typ string, x []float64, al, fr jetObs) *slotFail {
	if (al.Panic != "") != (fr.Panic != "") {
		return &slotFail{What: "panic"}
	}
	if al.Panic != "" {
		return nil
	}
	skip := func(t *exprlib.Term) bool {
		out, _ := compareTerm(t, x, typ, 0)
		return out == cmpSkip
	}
	diff := func(what string, i, j int, a, f float64) *slotFail {
		return &slotFail{What: what, I: i, J: j, Info: cmpInfo{Expected: f, Observed: a}}
	}
	if skip(c.val) && !sameFloat(al.Val, fr.Val) {
		return diff("value_differs_from_fresh", 0, 0, al.Val, fr.Val)
	}
	for i := 0; i < c.N; i++ {
		if c.Exp.Ord >= 1 && skip(c.grad[i]) && !sameFloat(al.Grad[i], fr.Grad[i]) {
			return diff("gradient_differs_from_fresh", i, 0, al.Grad[i], fr.Grad[i])
		}
		for j := 0; j < c.N; j++ {
			if c.Exp.Ord >= 2 && skip(c.hess[i][j]) && !sameFloat(al.Hess[i][j], fr.Hess[i][j]) {
				return diff("hessian_differs_from_fresh", i, j, al.Hess[i][j], fr.Hess[i][j])
			}
		}
	}
	return nil
}

func hasKind(c *sCase, kinds ...string) bool {
	for _, o := range c.Objs {
		for _, k := range kinds {
			if o.K == k {
				return true
			}
		}
	}
	return false
}

func mixedOrders(c *sCase) bool {
	seen := map[int]bool{}
	for _, idx := range []int{c.Roles.A, c.Roles.B} {
		if idx != 0 {
			seen[c.Objs[idx-1].O] = true
		}
	}
	return len(seen) > 1
}

func scalarCase(c *sCase, line []byte, out *vh.Out, st *stats) {
	pat := patternName(c.Roles)
	plainRecv := c.Objs[c.Roles.R-1].K == "plain"
	allPlain, allReal, intOK := true, true, plainRecv
	for _, o := range c.Objs {
		switch o.K {
		case "plain":
			allReal = false
		case "real", "magic0":
			allPlain, intOK = false, false
		case "tmp":
		case "const":
			allPlain, allReal = false, false
		default:
			allPlain, allReal, intOK = false, false, false
		}
		if o.Cl == "ninf" {
			intOK = false
		}
	}
	types := []string{"Real64", "Real32"}
	if intOK {
		// the integer scalar types: plain receiver, plain / constant operands, integer points
		types = append(types, "Int", "Int8", "Int16", "Int32", "Int64")
	}
	for _, typ := range types {
		for _, mode := range []string{"generic", "concrete"} {
			if mode == "concrete" {
				if !concreteOps[c.Op] {
					continue
				}
				// the CAPITAL methods take one concrete type: all reals (a "tmp" is a real) or all plain
				if !(allReal && !plainRecv) && !(allPlain && plainRecv) {
					continue
				}
			}
			pts := append(append([][][2]int64{}, c.Pts...), c.Spts...)
			if isIntType(typ) {
				pts = c.Ipts
			}
			for pi, p := range pts {
				special := !isIntType(typ) && pi >= len(c.Pts)
				in := sInst{Type: typ, Mode: mode, Point: pi}
				if c.Only != nil && *c.Only != in {
					continue
				}
				x0 := pointOf(p, typ)
				al := execute(c, in, x0, true)
				fr := execute(c, in, x0, false)
				if al.harness != "" || fr.harness != "" {
					vh.Fatal("driver cannot build case: ", al.harness, fr.harness, string(line[:min(len(line), 300)]))
				}
				if al.noPair || fr.noPair {
					continue
				}
				st.add(func() {
					st.scalarExec += 2
					st.byOp[c.Op]++
					st.byPattern[pat]++
					st.insts[typ+"/"+mode]++
					if plainRecv {
						st.plainRecv[c.Op]++
					}
					if mixedOrders(c) {
						st.mixedOrder++
					}
					noteBranch(st, c, al.x)
					if special {
						st.specialExec += 2
					}
				})
				same := al.obs.same(fr.obs)
				detail := func(af, ff []slotFail) vh.M {
					return vh.M{"case": json.RawMessage(line), "only": in, "pattern": pat, "kinds": kindsName(c), "x": numStrs(al.x[:c.N]),
						"params": numStrs(al.x[paramBase:]), "failures": af, "aliased": al.obs, "fresh": fr.obs, "fresh_failures": ff}
				}
				if isIntType(typ) {
					// integer types truncate after every internal step: the demanded value is what a fresh
					// receiver holds (the property's own reference); the TLC term only confirms that the
					// fresh execution computes the operation at all (within 1 of the real-valued term)
					env := exprlib.NewEnv(fr.x, unitRoundoff("Real64"), +1)
					e := env.Eval(c.val)
					sane := fr.obs.Panic == "" && e.Finite() && !env.Overflow && math.Abs(e.V) < 100 && math.Abs(fr.obs.Val-e.V) <= 1.0+tolK*e.E
					st.add(func() { st.comparisons++ })
					if !sane {
						st.add(func() { st.intUnjudged++ })
						continue
					}
					if !same && c.Cls != "info" {
						sig := vh.M{"engine": "alias", "fam": "scalar", "op": c.Op, "pattern": pat, "what": "value", "type": typ, "mode": mode}
						report(out, st, sig, detail([]slotFail{{What: "value", Info: cmpInfo{Expected: fr.obs.Val, Observed: al.obs.Val}}}, nil))
					} else if !same {
						st.add(func() { st.infoDisagree[c.Op+" "+pat]++ })
					}
					continue
				}
				af, adef, ncmp := judgeJet(c, typ, al.x, al.obs)
				ff, fdef, ncmp2 := judgeJet(c, typ, fr.x, fr.obs)
				st.add(func() {
					st.comparisons += ncmp + ncmp2
					if !adef || !fdef {
						st.skippedUndefined++
					}
				})
				// slots the terms do not constrain at this point: aliased must equal fresh
				if !al.obs.sameValues(fr.obs) {
					if d := unconstrainedDiffers(c, typ, al.x, al.obs, fr.obs); d != nil {
						if c.Cls == "info" {
							st.add(func() { st.undefinedDiffers[c.Op+" "+pat]++ })
						} else {
							sig := vh.M{"engine": "alias", "fam": "scalar", "op": c.Op, "pattern": pat, "what": d.What, "type": typ, "mode": mode}
							report(out, st, sig, detail([]slotFail{*d}, ff))
						}
						continue
					}
				}
				if !adef || !fdef {
					continue
				}
				if len(af) == 0 {
					if len(ff) != 0 {
						st.add(func() { st.foreign[c.Op+" fresh-only "+ff[0].What]++ })
					} else if !same {
						st.add(func() { st.notBitExact++ })
					}
					continue
				}
				if same {
					// the same wrong answer with and without aliasing: not an aliasing defect (C01 / C02)
					st.add(func() { st.foreign[c.Op+" "+af[0].What]++ })
					continue
				}
				if c.Cls == "info" {
					st.add(func() { st.infoDisagree[c.Op+" "+pat]++ })
					continue
				}
				sig := vh.M{"engine": "alias", "fam": "scalar", "op": c.Op, "pattern": pat, "what": af[0].What, "type": typ, "mode": mode}
				report(out, st, sig, detail(af, ff))
			}
		}
	}
	st.add(func() {
		st.scalarCases++
		if c.Cls == "info" {
			st.infoCases++
		}
	})
}

// noteBranch counts the branch regions of the piecewise operations actually entered,
// from the value of the first operand (and the second, for the binary ones).
func noteBranch(st *stats, c *sCase, x []float64) {
	val := func(idx int) (float64, bool) {
		if idx == 0 {
			return 0, false
		}
		env := exprlib.NewEnv(x, unitRoundoff("Real64"), +1)
		r := env.Eval(c.Objs[idx-1].t)
		return r.V, !math.IsNaN(r.V)
	}
	kind := "real"
	if c.Objs[c.Roles.R-1].K == "plain" {
		kind = "plain"
	}
	a, okA := val(c.Roles.A)
	b, okB := val(c.Roles.B)
	if !okA {
		return
	}
	key := ""
	switch c.Op {
	case "Log1pExp":
		switch {
		case a <= -37:
			key = "x<=-37"
		case a <= 18:
			key = "-37<x<=18"
		case a <= 33.3:
			key = "18<x<=33.3"
		default:
			key = "x>33.3"
		}
	case "Sigmoid", "Logistic", "Abs":
		if a >= 0 {
			key = "x>=0"
		} else {
			key = "x<0"
		}
	case "LogAdd", "LogSub", "Min", "Max":
		if !okB {
			return
		}
		switch {
		case math.IsInf(b, -1):
			key = "b=-Inf"
		case a < b:
			key = "a<b"
		case a > b:
			key = "a>b"
		default:
			key = "a=b"
		}
	case "Pow":
		if !okB {
			return
		}
		switch {
		case a == 0:
			key = "base=0"
		case b == math.Trunc(b):
			key = "integer exponent"
		default:
			key = "fractional exponent"
		}
	default:
		return
	}
	st.branches[c.Op+" "+kind+" "+key]++
}

func min(a, b int) int {
	if a < b {
		return a
	}
	return b
}
