package main

import (
	"bytes"
	"encoding/json"
	"sort"
	"sync"
	"time"

	"verifharness/vh"
)

type stats struct {
	mu               sync.Mutex
	scalarCases      int
	infoCases        int
	scalarExec       int
	contCases        int
	contExec         int
	contSkipped      int
	comparisons      int
	skippedUndefined int
	notBitExact      int
	mixedOrder       int
	mism             int
	byOp             map[string]int
	byPattern        map[string]int
	insts            map[string]int
	storage          map[string]int
	foreign          map[string]int
	infoDisagree     map[string]int
	undefinedDiffers map[string]int
	rejected         map[string]int
	acceptedCorrect  map[string]int
	sigCount         map[string]int
	reduceCases      int
	specialExec      int
	xCases           int
	xExec            int
	xPatterns        map[string]int
	intUnjudged      int
	plainRecv        map[string]int
	branches         map[string]int
	reduceExec       int
	reduceAgree      map[string]int
	reduceDisagree   map[string]int
}

func newStats() *stats {
	return &stats{byOp: map[string]int{}, byPattern: map[string]int{}, insts: map[string]int{}, storage: map[string]int{},
		foreign: map[string]int{}, infoDisagree: map[string]int{}, undefinedDiffers: map[string]int{},
		rejected: map[string]int{}, acceptedCorrect: map[string]int{}, sigCount: map[string]int{},
		reduceAgree: map[string]int{}, reduceDisagree: map[string]int{}, plainRecv: map[string]int{}, branches: map[string]int{}, xPatterns: map[string]int{}}
}

func (st *stats) add(f func()) {
	st.mu.Lock()
	f()
	st.mu.Unlock()
}

// report writes at most three mismatch records per distinct signature.
func report(out *vh.Out, st *stats, sig vh.M, detail vh.M) {
	b, _ := json.Marshal(sig)
	st.mu.Lock()
	st.mism++
	st.sigCount[string(b)]++
	n := st.sigCount[string(b)]
	st.mu.Unlock()
	if n <= 2 {
		vh.Mismatch(out, sig, detail)
	}
}

func replay(args []string) {
	if len(args) < 2 {
		vh.Fatal("usage: alias replay cases.ndjson results.ndjson")
	}
	out := vh.NewOut(args[1])
	defer out.Close()
	st := newStats()
	wd := vh.NewWatchdog(300*time.Second, out, vh.M{"engine": "alias"})
	err := vh.EachLine(args[0], func(line []byte) error {
		line = bytes.TrimSpace(line)
		var head struct {
			Fam string `json:"fam"`
		}
		if e := json.Unmarshal(line, &head); e != nil {
			return e
		}
		wd.Begin(json.RawMessage(append([]byte{}, line...)))
		defer wd.End()
		switch head.Fam {
		case "scalar":
			c, e := parseScalarCase(line)
			if e != nil {
				return e
			}
			scalarCase(c, line, out, st)
		case "reduce":
			c := &rCase{}
			if e := json.Unmarshal(line, c); e != nil {
				return e
			}
			reduceCase(c, line, out, st)
		case "xcont":
			c := &xCase{}
			if e := json.Unmarshal(line, c); e != nil {
				return e
			}
			xcontCase(c, line, out, st)
		case "cont":
			c := &cCase{}
			if e := json.Unmarshal(line, c); e != nil {
				return e
			}
			contCase(c, line, out, st)
		default:
			vh.Fatal("unknown case family", head.Fam)
		}
		return nil
	})
	if err != nil {
		vh.Fatal(err)
	}
	sigs := []string{}
	for s := range st.sigCount {
		sigs = append(sigs, s)
	}
	sort.Strings(sigs)
	vh.Summary(out, vh.M{"scalar_cases": st.scalarCases, "scalar_info_cases": st.infoCases, "scalar_executions": st.scalarExec,
		"container_cases": st.contCases, "container_executions": st.contExec, "container_skipped": st.contSkipped,
		"comparisons": st.comparisons, "skipped_undefined": st.skippedUndefined, "not_bit_exact": st.notBitExact,
		"mixed_order_executions": st.mixedOrder, "mismatches": st.mism, "by_op": st.byOp, "by_pattern": st.byPattern,
		"instantiations": st.insts, "storage": st.storage, "foreign_defects": st.foreign, "info_disagree": st.infoDisagree,
		"undefined_differs": st.undefinedDiffers, "rejected_by_panic": st.rejected, "accepted_correct": st.acceptedCorrect,
		"sig_counts": st.sigCount, "tolerance_factor": tolK, "int_unjudged": st.intUnjudged, "scalar_special_point_executions": st.specialExec, "special_cases": st.xCases, "special_executions": st.xExec,
		"special_patterns": st.xPatterns, "plain_receiver_by_op": st.plainRecv,
		"branches": st.branches, "reduce_cases": st.reduceCases, "reduce_executions": st.reduceExec,
		"reduce_elem_receiver_agrees": st.reduceAgree, "reduce_elem_receiver_disagrees": st.reduceDisagree})
}
