// Element type table: copy of harness/cmd/containers/types_gen.go (package main there, cannot be imported). DO NOT EDIT BY HAND.
package main

import . "github.com/pbenner/autodiff"

// elemType binds one element type of the library: the generic factories take
// the reflect type, the New*(indices, values) constructors are typed.
type elemType struct {
	name         string
	class        string // "float", "int", "real"
	st           ScalarType
	bits32       bool
	newDenseVec  func(vals []float64) Vector
	newSparseVec func(idx []int, vals []float64, n int) Vector
	newDenseMat  func(vals []float64, rows, cols int) Matrix
	newSparseMat func(ri, ci []int, vals []float64, rows, cols int) Matrix
	newConstVec  func(idx []int, vals []float64, n int) ConstVector // nil when the type has no SparseConst vector
}

func convFloat64(vals []float64) []float64 {
	r := make([]float64, len(vals))
	for i, v := range vals {
		r[i] = float64(v)
	}
	return r
}

func convFloat32(vals []float64) []float32 {
	r := make([]float32, len(vals))
	for i, v := range vals {
		r[i] = float32(v)
	}
	return r
}

func convInt(vals []float64) []int {
	r := make([]int, len(vals))
	for i, v := range vals {
		r[i] = int(v)
	}
	return r
}

func convInt8(vals []float64) []int8 {
	r := make([]int8, len(vals))
	for i, v := range vals {
		r[i] = int8(v)
	}
	return r
}

func convInt16(vals []float64) []int16 {
	r := make([]int16, len(vals))
	for i, v := range vals {
		r[i] = int16(v)
	}
	return r
}

func convInt32(vals []float64) []int32 {
	r := make([]int32, len(vals))
	for i, v := range vals {
		r[i] = int32(v)
	}
	return r
}

func convInt64(vals []float64) []int64 {
	r := make([]int64, len(vals))
	for i, v := range vals {
		r[i] = int64(v)
	}
	return r
}

func convReal64(vals []float64) []float64 {
	r := make([]float64, len(vals))
	for i, v := range vals {
		r[i] = float64(v)
	}
	return r
}

func convReal32(vals []float64) []float32 {
	r := make([]float32, len(vals))
	for i, v := range vals {
		r[i] = float32(v)
	}
	return r
}

var elemTypes = []*elemType{
	{name: "Float64", class: "float", st: Float64Type, bits32: false,
		newDenseVec: func(vals []float64) Vector { return NewDenseFloat64Vector(convFloat64(vals)) },
		newSparseVec: func(idx []int, vals []float64, n int) Vector {
			return NewSparseFloat64Vector(idx, convFloat64(vals), n)
		},
		newDenseMat: func(vals []float64, rows, cols int) Matrix {
			return NewDenseFloat64Matrix(convFloat64(vals), rows, cols)
		},
		newSparseMat: func(ri, ci []int, vals []float64, rows, cols int) Matrix {
			return NewSparseFloat64Matrix(ri, ci, convFloat64(vals), rows, cols)
		},
		newConstVec: func(idx []int, vals []float64, n int) ConstVector {
			return NewSparseConstFloat64Vector(idx, convFloat64(vals), n)
		}},
	{name: "Float32", class: "float", st: Float32Type, bits32: true,
		newDenseVec: func(vals []float64) Vector { return NewDenseFloat32Vector(convFloat32(vals)) },
		newSparseVec: func(idx []int, vals []float64, n int) Vector {
			return NewSparseFloat32Vector(idx, convFloat32(vals), n)
		},
		newDenseMat: func(vals []float64, rows, cols int) Matrix {
			return NewDenseFloat32Matrix(convFloat32(vals), rows, cols)
		},
		newSparseMat: func(ri, ci []int, vals []float64, rows, cols int) Matrix {
			return NewSparseFloat32Matrix(ri, ci, convFloat32(vals), rows, cols)
		},
		newConstVec: func(idx []int, vals []float64, n int) ConstVector {
			return NewSparseConstFloat32Vector(idx, convFloat32(vals), n)
		}},
	{name: "Int", class: "int", st: IntType, bits32: false,
		newDenseVec:  func(vals []float64) Vector { return NewDenseIntVector(convInt(vals)) },
		newSparseVec: func(idx []int, vals []float64, n int) Vector { return NewSparseIntVector(idx, convInt(vals), n) },
		newDenseMat:  func(vals []float64, rows, cols int) Matrix { return NewDenseIntMatrix(convInt(vals), rows, cols) },
		newSparseMat: func(ri, ci []int, vals []float64, rows, cols int) Matrix {
			return NewSparseIntMatrix(ri, ci, convInt(vals), rows, cols)
		},
		newConstVec: func(idx []int, vals []float64, n int) ConstVector {
			return NewSparseConstIntVector(idx, convInt(vals), n)
		}},
	{name: "Int8", class: "int", st: Int8Type, bits32: false,
		newDenseVec:  func(vals []float64) Vector { return NewDenseInt8Vector(convInt8(vals)) },
		newSparseVec: func(idx []int, vals []float64, n int) Vector { return NewSparseInt8Vector(idx, convInt8(vals), n) },
		newDenseMat:  func(vals []float64, rows, cols int) Matrix { return NewDenseInt8Matrix(convInt8(vals), rows, cols) },
		newSparseMat: func(ri, ci []int, vals []float64, rows, cols int) Matrix {
			return NewSparseInt8Matrix(ri, ci, convInt8(vals), rows, cols)
		},
		newConstVec: func(idx []int, vals []float64, n int) ConstVector {
			return NewSparseConstInt8Vector(idx, convInt8(vals), n)
		}},
	{name: "Int16", class: "int", st: Int16Type, bits32: false,
		newDenseVec:  func(vals []float64) Vector { return NewDenseInt16Vector(convInt16(vals)) },
		newSparseVec: func(idx []int, vals []float64, n int) Vector { return NewSparseInt16Vector(idx, convInt16(vals), n) },
		newDenseMat:  func(vals []float64, rows, cols int) Matrix { return NewDenseInt16Matrix(convInt16(vals), rows, cols) },
		newSparseMat: func(ri, ci []int, vals []float64, rows, cols int) Matrix {
			return NewSparseInt16Matrix(ri, ci, convInt16(vals), rows, cols)
		},
		newConstVec: func(idx []int, vals []float64, n int) ConstVector {
			return NewSparseConstInt16Vector(idx, convInt16(vals), n)
		}},
	{name: "Int32", class: "int", st: Int32Type, bits32: false,
		newDenseVec:  func(vals []float64) Vector { return NewDenseInt32Vector(convInt32(vals)) },
		newSparseVec: func(idx []int, vals []float64, n int) Vector { return NewSparseInt32Vector(idx, convInt32(vals), n) },
		newDenseMat:  func(vals []float64, rows, cols int) Matrix { return NewDenseInt32Matrix(convInt32(vals), rows, cols) },
		newSparseMat: func(ri, ci []int, vals []float64, rows, cols int) Matrix {
			return NewSparseInt32Matrix(ri, ci, convInt32(vals), rows, cols)
		},
		newConstVec: func(idx []int, vals []float64, n int) ConstVector {
			return NewSparseConstInt32Vector(idx, convInt32(vals), n)
		}},
	{name: "Int64", class: "int", st: Int64Type, bits32: false,
		newDenseVec:  func(vals []float64) Vector { return NewDenseInt64Vector(convInt64(vals)) },
		newSparseVec: func(idx []int, vals []float64, n int) Vector { return NewSparseInt64Vector(idx, convInt64(vals), n) },
		newDenseMat:  func(vals []float64, rows, cols int) Matrix { return NewDenseInt64Matrix(convInt64(vals), rows, cols) },
		newSparseMat: func(ri, ci []int, vals []float64, rows, cols int) Matrix {
			return NewSparseInt64Matrix(ri, ci, convInt64(vals), rows, cols)
		},
		newConstVec: func(idx []int, vals []float64, n int) ConstVector {
			return NewSparseConstInt64Vector(idx, convInt64(vals), n)
		}},
	{name: "Real64", class: "real", st: Real64Type, bits32: false,
		newDenseVec:  func(vals []float64) Vector { return NewDenseReal64Vector(convReal64(vals)) },
		newSparseVec: func(idx []int, vals []float64, n int) Vector { return NewSparseReal64Vector(idx, convReal64(vals), n) },
		newDenseMat:  func(vals []float64, rows, cols int) Matrix { return NewDenseReal64Matrix(convReal64(vals), rows, cols) },
		newSparseMat: func(ri, ci []int, vals []float64, rows, cols int) Matrix {
			return NewSparseReal64Matrix(ri, ci, convReal64(vals), rows, cols)
		},
		newConstVec: nil},
	{name: "Real32", class: "real", st: Real32Type, bits32: true,
		newDenseVec:  func(vals []float64) Vector { return NewDenseReal32Vector(convReal32(vals)) },
		newSparseVec: func(idx []int, vals []float64, n int) Vector { return NewSparseReal32Vector(idx, convReal32(vals), n) },
		newDenseMat:  func(vals []float64, rows, cols int) Matrix { return NewDenseReal32Matrix(convReal32(vals), rows, cols) },
		newSparseMat: func(ri, ci []int, vals []float64, rows, cols int) Matrix {
			return NewSparseReal32Matrix(ri, ci, convReal32(vals), rows, cols)
		},
		newConstVec: nil},
}
