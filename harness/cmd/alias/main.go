// Conformance driver for property C08 (results do not depend on the receiver
// aliasing an operand).
//
//	alias replay <cases.ndjson> <results.ndjson>
//	    executes the cases TLC enumerated from spec/Aliasing.tla on the real
//	    library TWICE: with the objects shared as the alias pattern prescribes,
//	    and with a FRESH receiver and separately built (cloned) operands.  The
//	    expectation (symbolic terms for scalars, exact contents for containers)
//	    comes out of TLC; this driver only builds objects, calls the API,
//	    projects and compares.
//	alias record <trace.ndjson> <ntraces> <nops>
//	    seeded random programs over a pool of scalars, vectors, matrices and
//	    views of them, every call with a random alias pattern; one event per
//	    call with the exact discrete observation; validated afterwards by
//	    spec/AliasingTrace.tla.
package main

import (
	"os"

	"verifharness/vh"
)

func main() {
	if len(os.Args) < 2 {
		vh.Fatal("usage: alias replay|record ...")
	}
	switch os.Args[1] {
	case "replay":
		replay(os.Args[2:])
	case "record":
		record(os.Args[2:])
	default:
		vh.Fatal("unknown sub-command", os.Args[1])
	}
}
