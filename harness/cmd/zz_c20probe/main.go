package main

import (
	"fmt"
	"os"

	. "github.com/pbenner/autodiff"
	"github.com/pbenner/autodiff/algorithm/newton"
)

func main() {
	co := []float64{0, 24, -12, 0, 3}
	it := 0
	f := func(x ConstVector) (MagicScalar, error) {
		y := NewReal64(co[len(co)-1])
		for j := len(co) - 2; j >= 0; j-- {
			y.Mul(y, x.ConstAt(0))
			y.Add(y, ConstFloat64(co[j]))
		}
		return y, nil
	}
	hook := newton.HookMin{Value: func(x, g ConstVector, h ConstMatrix, y ConstScalar) bool {
		it++
		if it < 12 || it%100000 == 0 {
			fmt.Println(it, x, g, h, y)
		}
		if it > 300000 {
			os.Exit(0)
		}
		return false
	}}
	x, err := newton.RunMin(f, NewDenseFloat64Vector([]float64{0}), hook)
	fmt.Println(x, err)
}
