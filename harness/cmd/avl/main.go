// Conformance driver for the ordered integer index (C19).
//
//	avl replay <cases.ndjson> <results.ndjson> <shapes.ndjson> <maxkey>
//	    executes TLC-generated call histories (spec/AvlTree.tla, one case per
//	    transition of the mechanism state graph) on the real AvlTree and compares
//	    the contract observation after the last call; every distinct real tree
//	    shape met on the way is written to shapes.ndjson so that TLC can evaluate
//	    the structural invariant on it.
//	avl record <trace.ndjson> <ntraces> <nops> <nkeys>
//	    seeded random histories (several trees, clones, live iterators, safe
//	    iterators) recorded as one event per public call, validated afterwards
//	    by spec/AvlTrace.tla.
package main

import (
	"encoding/json"
	"fmt"
	"math"
	"math/rand"
	"os"
	"strconv"
	"time"

	. "github.com/pbenner/autodiff"
	"verifharness/vh"
)

const done = -999999 // AvlSet!Done

type call struct {
	A string `json:"a"`
	J int    `json:"j"`
	K int    `json:"k"`
}
type itObs struct {
	Live bool `json:"live"`
	Cur  int  `json:"cur"`
}
type obs struct {
	Ret bool    `json:"ret"`
	S   []int   `json:"S"`
	Its []itObs `json:"its"`
}
type tcase struct {
	Hist []call `json:"hist"`
	Obs  obs    `json:"obs"`
}

// shape of a real tree as a JSON value in which every node is a record
func shape(n *AvlNode, parent *AvlNode, depth int) vh.M {
	if n == nil {
		return vh.M{"nil": true}
	}
	if depth > 64 {
		return vh.M{"nil": false, "v": n.Value, "b": n.Balance, "pok": false, "del": n.Deleted,
			"l": vh.M{"nil": true}, "r": vh.M{"nil": true}, "cyc": true}
	}
	return vh.M{"nil": false, "v": n.Value, "b": n.Balance, "pok": n.Parent == parent, "del": n.Deleted,
		"l": shape(n.Left, n, depth+1), "r": shape(n.Right, n, depth+1)}
}

// order-preserving key map: the contract depends only on the order of the keys, so the same
// case must hold when the model keys are embedded into the extremes of the int range
var toReal = func(k int) int { return k }
var toModel = func(r int) (int, bool) { return r, true }

func installExtremeKeys(minkey, maxkey int) {
	n := maxkey - minkey + 1
	real := make([]int, n)
	back := map[int]int{}
	for i := 0; i < n; i++ {
		switch {
		case i == 0:
			real[i] = math.MinInt64
		case i == n-1:
			real[i] = math.MaxInt64
		default:
			real[i] = (i - n/2) << 40
			if i == n/2 {
				real[i] = -2 // small keys next to huge ones
			}
		}
		back[real[i]] = minkey + i
	}
	toReal = func(k int) int { return real[k-minkey] }
	toModel = func(r int) (int, bool) { k, ok := back[r]; return k, ok }
}

func modelShape(n *AvlNode, parent *AvlNode, depth int) vh.M {
	m := shape(n, parent, depth)
	var fix func(x vh.M)
	fix = func(x vh.M) {
		if x["nil"] == true {
			return
		}
		if k, ok := toModel(x["v"].(int)); ok {
			x["v"] = k
		} else {
			x["v"] = 1 << 30 // a key that was never inserted: the structural check fails on it
		}
		fix(x["l"].(vh.M))
		fix(x["r"].(vh.M))
	}
	fix(m)
	return m
}

func shapeOf(t *AvlTree) vh.M {
	if t == nil {
		return vh.M{"nil": true}
	}
	return shape(t.Root, nil, 0)
}

func iterate(t *AvlTree, limit int) ([]int, bool) {
	r := []int{}
	n := 0
	for it := t.Iterator(); it.Ok(); it.Next() {
		r = append(r, it.Get())
		n++
		if n > limit {
			return r, false
		}
	}
	return r, true
}

func eqInts(a, b []int) bool {
	if len(a) != len(b) {
		return false
	}
	for i := range a {
		if a[i] != b[i] {
			return false
		}
	}
	return true
}

func sortedCopy(a []int) []int {
	r := append([]int{}, a...)
	for i := 1; i < len(r); i++ {
		for j := i; j > 0 && r[j-1] > r[j]; j-- {
			r[j-1], r[j] = r[j], r[j-1]
		}
	}
	return r
}

func replay(args []string) {
	if len(args) < 5 {
		vh.Fatal("usage: avl replay cases results shapes minkey maxkey")
	}
	minkey, _ := strconv.Atoi(args[3])
	maxkey, _ := strconv.Atoi(args[4])
	extreme := len(args) > 5 && args[5] == "extreme"
	if extreme {
		installExtremeKeys(minkey, maxkey)
	}
	out := vh.NewOut(args[1])
	defer out.Close()
	shapes := map[string]bool{}
	shout := vh.NewOut(args[2])
	defer shout.Close()
	ncases, nsteps, nmis := 0, 0, 0
	wd := vh.NewWatchdog(20*time.Second, out, vh.M{"engine": "replay"})
	err := vh.EachLine(args[0], func(line []byte) error {
		var c tcase
		if e := json.Unmarshal(line, &c); e != nil {
			return fmt.Errorf("bad case: %v: %.200s", e, line)
		}
		ncases++
		wd.Begin(c)
		defer wd.End()
		t := NewAvlTree()
		its := map[int]*AvlIterator{}
		var ret bool
		report := func(what string, step int, exp, got interface{}) {
			nmis++
			act := ""
			if step < len(c.Hist) {
				act = c.Hist[step].A
			}
			vh.Mismatch(out, vh.M{"engine": "replay", "what": what, "act": act},
				vh.M{"case": c, "step": step, "expected": exp, "observed": got, "tree": t.String()})
		}
		for i, st := range c.Hist {
			_ = i
			nsteps++
			msg := vh.Try(func() {
				switch st.A {
				case "ins":
					ret = t.Insert(toReal(st.K))
				case "del":
					ret = t.Delete(toReal(st.K))
				case "iter":
					its[st.J] = t.Iterator()
					ret = true
				case "from":
					its[st.J] = t.IteratorFrom(toReal(st.K))
					ret = true
				case "next":
					its[st.J].Next()
					ret = true
				case "iclone":
					c := its[st.J].Clone()
					its[st.K] = &c
					ret = true
				default:
					panic("unknown action " + st.A)
				}
			})
			if msg != "" {
				report("panic", i, "no panic", msg)
				return nil
			}
		}
		last := len(c.Hist) - 1
		{
			// every state of the model's graph is the post-state of some case, so
			// recording the shape after the last call covers every reachable shape
			sh := modelShape(t.Root, nil, 0)
			b, _ := json.Marshal(sh)
			if !shapes[string(b)] {
				shapes[string(b)] = true
				shout.Put(vh.M{"shape": sh, "hist": c.Hist})
			}
		}
		// probes one below / above the universe only make sense for the identity key map
		lo, hi := minkey-1, maxkey+1
		if extreme {
			lo, hi = minkey, maxkey
		}
		mapBack := func(rs []int) []int {
			r := make([]int, len(rs))
			for i, x := range rs {
				if k, ok := toModel(x); ok {
					r[i] = k
				} else {
					r[i] = 1 << 30
				}
			}
			return r
		}
		// 1. return value of the last call
		if c.Hist[last].A == "ins" || c.Hist[last].A == "del" {
			if ret != c.Obs.Ret {
				report("ret", last, c.Obs.Ret, ret)
				return nil
			}
		}
		// 2. membership and ascending iteration equal the set
		want := sortedCopy(c.Obs.S)
		inS := map[int]bool{}
		for _, k := range want {
			inS[k] = true
		}
		msg := vh.Try(func() {
			for k := lo; k <= hi; k++ {
				nd := t.FindNode(toReal(k))
				if (nd != nil) != inS[k] || (nd != nil && nd.Value != toReal(k)) {
					report("membership", last, vh.M{"key": k, "member": inS[k]}, vh.M{"found": nd != nil})
					return
				}
			}
			got, fin := iterate(t, 4*(maxkey-minkey+3))
			got = mapBack(got)
			if !fin || !eqInts(got, want) {
				report("iteration", last, want, got)
				return
			}
			// iteration from every lower bound
			for k := lo; k <= hi; k++ {
				exp := []int{}
				for _, x := range want {
					if x >= k {
						exp = append(exp, x)
					}
				}
				g := []int{}
				n := 0
				for it := t.IteratorFrom(toReal(k)); it.Ok() && n < 4*(maxkey-minkey+3); it.Next() {
					g = append(g, it.Get())
					n++
				}
				g = mapBack(g)
				if !eqInts(g, exp) {
					report("iteration_from", last, vh.M{"from": k, "seq": exp}, g)
					return
				}
			}
			// 3. live iterators
			for j, io := range c.Obs.Its {
				if !io.Live {
					continue
				}
				it := its[j+1]
				if it == nil {
					report("iter_missing", last, io, nil)
					return
				}
				if it.Ok() != (io.Cur != done) {
					report("iter_ok", last, io, vh.M{"ok": it.Ok(), "get": it.Get()})
					return
				}
				if it.Ok() && inS[io.Cur] && it.Get() != toReal(io.Cur) {
					report("iter_get", last, io, vh.M{"ok": it.Ok(), "get": it.Get()})
					return
				}
			}
		})
		if msg != "" {
			report("panic", last, "no panic (observation)", msg)
		}
		return nil
	})
	if err != nil {
		vh.Fatal(err)
	}
	vh.Summary(out, vh.M{"cases": ncases, "steps": nsteps, "mismatches": nmis, "distinct_shapes": len(shapes)})
}

// ---------------------------------------------------------------- recorder

type ev struct {
	E     string `json:"e"`
	T     int    `json:"t"`
	T2    int    `json:"t2"`
	J     int    `json:"j"`
	J2    int    `json:"j2"`
	K     int    `json:"k"`
	Res   bool   `json:"res"`
	Ok    bool   `json:"ok"`
	Get   int    `json:"get"`
	HasSh bool   `json:"sh"`
	Shape vh.M   `json:"shape"`
}

func record(args []string) {
	if len(args) < 4 {
		vh.Fatal("usage: avl record trace ntraces nops nkeys")
	}
	ntr, _ := strconv.Atoi(args[1])
	nops, _ := strconv.Atoi(args[2])
	nkeys, _ := strconv.Atoi(args[3])
	minkey := 0
	if len(args) > 4 {
		minkey, _ = strconv.Atoi(args[4])
	}
	seed := int64(vh.EnvInt("VERIF_SEED", 1))
	out := vh.NewOut(args[0])
	defer out.Close()
	wd := vh.NewWatchdog(20*time.Second, out, vh.M{"engine": "trace"})
	for tr := 0; tr < ntr; tr++ {
		rng := rand.New(rand.NewSource(seed*1000003 + int64(tr)))
		trees := make([]*AvlTree, NT+NI+1)
		for i := 1; i <= NT; i++ {
			trees[i] = NewAvlTree()
		}
		its := make([]*AvlIterator, NI+1)
		itTree := make([]int, NI+1)
		out.Put(ev{E: "reset", Shape: vh.M{"nil": true}})
		// phases bias towards growth, churn and shrinkage so that all rotation cases occur
		for op := 0; op < nops; op++ {
			phase := (op * 6 / nops) % 3
			pIns, pDel := 30, 25
			if phase == 0 {
				pIns, pDel = 45, 10
			} else if phase == 2 {
				pIns, pDel = 12, 43
			}
			x := rng.Intn(100)
			var cur ev
			skip := false
			wd.Begin(vh.M{"trace": tr, "op": op, "seed": seed})
			msg := vh.Try(func() { cur, skip = oneOp(rng, x, pIns, pDel, nkeys, minkey, trees, its, itTree, out) })
			wd.End()
			if msg != "" {
				// a panic of the real code is an event no action of the specification explains
				out.Put(ev{E: "panic:" + msg, Shape: vh.M{"nil": true}})
				break
			}
			if !skip {
				out.Put(cur)
			}
		}
	}
}

const NT = 3 // user-visible trees 1..3 ; snapshot trees of safe iterators are 3+j
const NI = 3

func oneOp(rng *rand.Rand, x, pIns, pDel, nkeys, minkey int, trees []*AvlTree, its []*AvlIterator, itTree []int, out *vh.Out) (ev, bool) {
	{
		{
			t := 1 + rng.Intn(NT)
			if rng.Intn(4) != 0 {
				t = 1
			}
			k := minkey + rng.Intn(nkeys)
			j := 1 + rng.Intn(NI)
			e := ev{T: t, K: k, Shape: vh.M{"nil": true}}
			switch {
			case x < pIns:
				e.E = "ins"
				e.Res = trees[t].Insert(k)
				e.HasSh, e.Shape = true, shapeOf(trees[t])
			case x < pIns+pDel:
				e.E = "del"
				e.Res = trees[t].Delete(k)
				e.HasSh, e.Shape = true, shapeOf(trees[t])
			case x < pIns+pDel+20:
				if its[j] == nil {
					return e, true
				}
				e.E, e.J, e.T = "next", j, itTree[j]
				its[j].Next()
				e.Ok, e.Get = its[j].Ok(), its[j].Get()
				if itTree[j] <= NT {
					e.HasSh, e.Shape = true, shapeOf(trees[itTree[j]])
				}
			case x < pIns+pDel+25:
				e.E, e.J = "iter", j
				its[j], itTree[j] = trees[t].Iterator(), t
				e.Ok, e.Get = its[j].Ok(), its[j].Get()
				e.HasSh, e.Shape = true, shapeOf(trees[t])
			case x < pIns+pDel+31:
				e.E, e.J = "from", j
				its[j], itTree[j] = trees[t].IteratorFrom(k), t
				e.Ok, e.Get = its[j].Ok(), its[j].Get()
				e.HasSh, e.Shape = true, shapeOf(trees[t])
			case x < pIns+pDel+34:
				t2 := 1 + rng.Intn(NT)
				if t2 == t {
					return e, true
				}
				// iterators bound to the overwritten tree object keep working on the old
				// object; the recorder retires them so that ids stay unambiguous
				for q := 1; q <= NI; q++ {
					if itTree[q] == t2 {
						its[q] = nil
					}
				}
				e.E, e.T2 = "clone", t2
				trees[t2] = trees[t].Clone()
				e.T = t
				e.HasSh, e.Shape = true, shapeOf(trees[t2])
				// the event is checked against tree t2's set, so log under t2
				return ev{E: "clone", T: t, T2: t2, HasSh: true, Shape: e.Shape}, false
			case x < pIns+pDel+37:
				// SafeIterator = Clone + Iterator on a hidden snapshot: two events
				snap := NT + j
				retireSnap(its, itTree, snap, j)
				out.Put(ev{E: "clone", T: t, T2: snap, Shape: vh.M{"nil": true}})
				its[j], itTree[j] = trees[t].SafeIterator(), snap
				e.E, e.J, e.T = "iter", j, snap
				e.Ok, e.Get = its[j].Ok(), its[j].Get()
			case x < pIns+pDel+40:
				snap := NT + j
				retireSnap(its, itTree, snap, j)
				out.Put(ev{E: "clone", T: t, T2: snap, Shape: vh.M{"nil": true}})
				its[j], itTree[j] = trees[t].SafeIteratorFrom(k), snap
				e.E, e.J, e.T = "from", j, snap
				e.Ok, e.Get = its[j].Ok(), its[j].Get()
			case x < pIns+pDel+43:
				// AvlIterator.Clone(): an independent cursor at the same position
				j2 := 1 + rng.Intn(NI)
				if j2 == j || its[j] == nil {
					return e, true
				}
				c := its[j].Clone()
				its[j2], itTree[j2] = &c, itTree[j]
				e.E, e.J, e.J2, e.T = "iclone", j, j2, itTree[j]
				e.Ok, e.Get = its[j2].Ok(), its[j2].Get()
			default:
				e.E = "find"
				nd := trees[t].FindNode(k)
				e.Res = nd != nil && nd.Value == k
				e.HasSh, e.Shape = true, shapeOf(trees[t])
			}
			return e, false
		}
	}
}

// a cloned cursor may still walk the hidden snapshot of a safe iterator whose id is about to be
// reused: the recorder retires it so that snapshot ids stay unambiguous
func retireSnap(its []*AvlIterator, itTree []int, snap, keep int) {
	for q := 1; q <= NI; q++ {
		if q != keep && itTree[q] == snap {
			its[q] = nil
		}
	}
}

func main() {
	if len(os.Args) < 2 {
		vh.Fatal("usage: avl replay|record ...")
	}
	switch os.Args[1] {
	case "replay":
		replay(os.Args[2:])
	case "record":
		record(os.Args[2:])
	default:
		vh.Fatal("unknown sub-command", os.Args[1])
	}
}
