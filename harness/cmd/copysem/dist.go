package main

// Part B, distributions and estimators: constructor arguments, evaluation
// points, parameter vectors and data handed in by the caller stay unchanged;
// clones are independent of their source (SetParameters / LogPdf / Estimate on
// one side is not visible on the other).

import (
	"fmt"

	. "github.com/pbenner/autodiff"
	. "github.com/pbenner/autodiff/statistics"
	"github.com/pbenner/autodiff/statistics/matrixDistribution"
	"github.com/pbenner/autodiff/statistics/scalarDistribution"
	"github.com/pbenner/autodiff/statistics/scalarEstimator"
	"github.com/pbenner/autodiff/statistics/vectorDistribution"
	"github.com/pbenner/autodiff/statistics/vectorEstimator"
	"github.com/pbenner/threadpool"
)

type pdf struct {
	s ScalarPdf
	v VectorPdf
	m MatrixPdf
}

func (p pdf) basic() BasicDistribution {
	switch {
	case p.s != nil:
		return p.s
	case p.v != nil:
		return p.v
	}
	return p.m
}
func (p pdf) clone() pdf {
	switch {
	case p.s != nil:
		return pdf{s: p.s.CloneScalarPdf()}
	case p.v != nil:
		return pdf{v: p.v.CloneVectorPdf()}
	}
	return pdf{m: p.m.CloneMatrixPdf()}
}
func (p pdf) logpdf(r Scalar, x interface{}) error {
	switch {
	case p.s != nil:
		return p.s.LogPdf(r, x.(ConstScalar))
	case p.v != nil:
		return p.v.LogPdf(r, x.(ConstVector))
	}
	return p.m.LogPdf(r, x.(ConstMatrix))
}

type distSpec struct {
	args []interface{}       // what the caller hands to the constructor
	mk   func() (pdf, error) // the constructor call on args
	x    interface{}         // an evaluation point inside the support
}

func f64(x float64) Scalar            { return NewFloat64(x) }
func fv(x ...float64) Vector          { return NewDenseFloat64Vector(x) }
func fm(r, c int, x ...float64) Matrix { return NewDenseFloat64Matrix(x, r, c) }

func sdist(args []interface{}, x interface{}, mk func() (ScalarPdf, error)) *distSpec {
	return &distSpec{args: args, x: x, mk: func() (pdf, error) {
		d, err := mk()
		if err != nil {
			return pdf{}, err
		}
		return pdf{s: d}, nil
	}}
}
func vdist(args []interface{}, x interface{}, mk func() (VectorPdf, error)) *distSpec {
	return &distSpec{args: args, x: x, mk: func() (pdf, error) {
		d, err := mk()
		if err != nil {
			return pdf{}, err
		}
		return pdf{v: d}, nil
	}}
}
func mdist(args []interface{}, x interface{}, mk func() (MatrixPdf, error)) *distSpec {
	return &distSpec{args: args, x: x, mk: func() (pdf, error) {
		d, err := mk()
		if err != nil {
			return pdf{}, err
		}
		return pdf{m: d}, nil
	}}
}

func newDist(name string) *distSpec {
	two := func(a, b float64, x float64, mk func(a, b Scalar) (ScalarPdf, error)) *distSpec {
		p, q := f64(a), f64(b)
		return sdist([]interface{}{p, q}, f64(x), func() (ScalarPdf, error) { return mk(p, q) })
	}
	three := func(a, b, c float64, x float64, mk func(a, b, c Scalar) (ScalarPdf, error)) *distSpec {
		p, q, r := f64(a), f64(b), f64(c)
		return sdist([]interface{}{p, q, r}, f64(x), func() (ScalarPdf, error) { return mk(p, q, r) })
	}
	one := func(a float64, x float64, mk func(a Scalar) (ScalarPdf, error)) *distSpec {
		p := f64(a)
		return sdist([]interface{}{p}, f64(x), func() (ScalarPdf, error) { return mk(p) })
	}
	switch name {
	case "beta":
		return two(2, 3, 0.4, func(a, b Scalar) (ScalarPdf, error) { return scalarDistribution.NewBetaDistribution(a, b, false) })
	case "binomial":
		return one(0.3, 2, func(a Scalar) (ScalarPdf, error) { return scalarDistribution.NewBinomialDistribution(a, 5) })
	case "categorical":
		th := fv(0.2, 0.3, 0.5)
		return sdist([]interface{}{th}, f64(1), func() (ScalarPdf, error) { return scalarDistribution.NewCategoricalDistribution(th) })
	case "cauchy":
		return two(0.5, 2, 0.7, func(a, b Scalar) (ScalarPdf, error) { return scalarDistribution.NewCauchyDistribution(a, b) })
	case "chiSquared":
		return sdist([]interface{}{}, f64(1.5), func() (ScalarPdf, error) { return scalarDistribution.NewChiSquaredDistribution(Float64Type, 3) })
	case "delta":
		return one(0.7, 0.7, func(a Scalar) (ScalarPdf, error) { return scalarDistribution.NewDeltaDistribution(a) })
	case "exponential":
		return one(1.5, 0.7, func(a Scalar) (ScalarPdf, error) { return scalarDistribution.NewExponentialDistribution(a) })
	case "gamma":
		return two(2, 1.5, 0.7, func(a, b Scalar) (ScalarPdf, error) { return scalarDistribution.NewGammaDistribution(a, b) })
	case "generalizedGamma":
		return three(2, 1.5, 1.2, 0.7, func(a, b, c Scalar) (ScalarPdf, error) {
			return scalarDistribution.NewGeneralizedGammaDistribution(a, b, c)
		})
	case "geometric":
		return one(0.3, 2, func(a Scalar) (ScalarPdf, error) { return scalarDistribution.NewGeometricDistribution(a) })
	case "gev":
		return three(0.1, 1.5, 0.2, 0.7, func(a, b, c Scalar) (ScalarPdf, error) { return scalarDistribution.NewGevDistribution(a, b, c) })
	case "gpareto":
		return three(0.1, 1.5, 0.2, 0.7, func(a, b, c Scalar) (ScalarPdf, error) { return scalarDistribution.NewGParetoDistribution(a, b, c) })
	case "laplace":
		return two(0.5, 2, 0.7, func(a, b Scalar) (ScalarPdf, error) { return scalarDistribution.NewLaplaceDistribution(a, b) })
	case "negativeBinomial":
		return two(3, 0.4, 2, func(a, b Scalar) (ScalarPdf, error) { return scalarDistribution.NewNegativeBinomialDistribution(a, b) })
	case "normal":
		return two(0.5, 2, 0.7, func(a, b Scalar) (ScalarPdf, error) { return scalarDistribution.NewNormalDistribution(a, b) })
	case "pareto":
		return two(0.5, 2, 0.7, func(a, b Scalar) (ScalarPdf, error) { return scalarDistribution.NewParetoDistribution(a, b) })
	case "poisson":
		return one(1.5, 2, func(a Scalar) (ScalarPdf, error) { return scalarDistribution.NewPoissonDistribution(a) })
	case "powerLaw":
		return two(2.5, 0.5, 0.7, func(a, b Scalar) (ScalarPdf, error) { return scalarDistribution.NewPowerLawDistribution(a, b) })
	case "mixture":
		w := fv(0.4, 0.6)
		return sdist([]interface{}{w}, f64(0.7), func() (ScalarPdf, error) {
			d1, _ := scalarDistribution.NewNormalDistribution(f64(0), f64(1))
			d2, _ := scalarDistribution.NewNormalDistribution(f64(1), f64(2))
			return scalarDistribution.NewMixture(w, []ScalarPdf{d1, d2})
		})
	case "pdfLogTransform":
		return sdist([]interface{}{}, f64(0.7), func() (ScalarPdf, error) {
			d1, _ := scalarDistribution.NewNormalDistribution(f64(0), f64(1))
			return scalarDistribution.NewPdfLogTransform(d1, 1.0)
		})
	case "pdfTranslation":
		return sdist([]interface{}{}, f64(0.7), func() (ScalarPdf, error) {
			d1, _ := scalarDistribution.NewNormalDistribution(f64(0), f64(1))
			return scalarDistribution.NewPdfTranslation(d1, 1.0)
		})
	/* vector distributions */
	case "vnormal":
		mu, sg := fv(0.5, 1), fm(2, 2, 2, 0.5, 0.5, 1)
		return vdist([]interface{}{mu, sg}, fv(0.3, 0.8), func() (VectorPdf, error) { return vectorDistribution.NewNormalDistribution(mu, sg) })
	case "vskewnormal":
		xi, om, al, sc := fv(0.5, 1), fm(2, 2, 2, 0.5, 0.5, 1), fv(0.3, -0.2), fv(1, 1.5)
		return vdist([]interface{}{xi, om, al, sc}, fv(0.3, 0.8), func() (VectorPdf, error) {
			return vectorDistribution.NewSkewNormalDistribution(xi, om, al, sc)
		})
	case "vt":
		nu, mu, sg := f64(4), fv(0.5, 1), fm(2, 2, 2, 0.5, 0.5, 1)
		return vdist([]interface{}{nu, mu, sg}, fv(0.3, 0.8), func() (VectorPdf, error) { return vectorDistribution.NewTDistribution(nu, mu, sg) })
	case "logisticRegression":
		th := fv(0.5, -1, 0.25)
		return vdist([]interface{}{th}, fv(1, 0.3, 0.8), func() (VectorPdf, error) { return vectorDistribution.NewLogisticRegression(th) })
	case "scalarId":
		return vdist([]interface{}{}, fv(0.3, 0.8), func() (VectorPdf, error) {
			d1, _ := scalarDistribution.NewNormalDistribution(f64(0), f64(1))
			d2, _ := scalarDistribution.NewGammaDistribution(f64(2), f64(1.5))
			return vectorDistribution.NewScalarId(d1, d2)
		})
	case "scalarIid":
		return vdist([]interface{}{}, fv(0.3, 0.8), func() (VectorPdf, error) {
			d1, _ := scalarDistribution.NewNormalDistribution(f64(0), f64(1))
			return vectorDistribution.NewScalarIid(d1, 2)
		})
	case "vmixture":
		w := fv(0.4, 0.6)
		return vdist([]interface{}{w}, fv(0.3, 0.8), func() (VectorPdf, error) {
			d1, _ := vectorDistribution.NewNormalDistribution(fv(0, 0), fm(2, 2, 1, 0, 0, 1))
			d2, _ := vectorDistribution.NewNormalDistribution(fv(1, 1), fm(2, 2, 2, 0.5, 0.5, 1))
			return vectorDistribution.NewMixture(w, []VectorPdf{d1, d2})
		})
	case "hmm":
		pi, tr := fv(0.6, 0.4), fm(2, 2, 0.7, 0.3, 0.2, 0.8)
		sm := []int{0, 1}
		return vdist([]interface{}{pi, tr, sm}, fv(0.3, 0.8, -0.2), func() (VectorPdf, error) {
			d1, _ := scalarDistribution.NewNormalDistribution(f64(0), f64(1))
			d2, _ := scalarDistribution.NewNormalDistribution(f64(1), f64(2))
			return vectorDistribution.NewHmm(pi, tr, sm, []ScalarPdf{d1, d2})
		})
	/* matrix distributions */
	case "inverseWishart":
		nu, s := f64(4), fm(2, 2, 2, 0.5, 0.5, 1)
		return mdist([]interface{}{nu, s}, fm(2, 2, 1.5, 0.2, 0.2, 1), func() (MatrixPdf, error) {
			return matrixDistribution.NewInverseWishartDistribution(nu, s)
		})
	case "vectorId":
		return mdist([]interface{}{}, fm(2, 2, 0.3, 0.8, 0.1, 0.4), func() (MatrixPdf, error) {
			d1, _ := vectorDistribution.NewNormalDistribution(fv(0, 0), fm(2, 2, 1, 0, 0, 1))
			d2, _ := vectorDistribution.NewNormalDistribution(fv(1, 1), fm(2, 2, 2, 0.5, 0.5, 1))
			return matrixDistribution.NewVectorId(d1, d2)
		})
	case "vectorIid":
		return mdist([]interface{}{}, fm(2, 2, 0.3, 0.8, 0.1, 0.4), func() (MatrixPdf, error) {
			d1, _ := vectorDistribution.NewNormalDistribution(fv(0, 0), fm(2, 2, 1, 0, 0, 1))
			return matrixDistribution.NewVectorIid(d1, 2)
		})
	}
	return nil
}

// source-side observation of a distribution: parameters and a density value
func paramsOf(p pdf) func() interface{} {
	return func() interface{} { return digest(p.basic().GetParameters()) }
}
func logpdfOf(p pdf, x interface{}) func() interface{} {
	return func() interface{} {
		r := NullFloat64()
		if err := p.logpdf(r, x); err != nil {
			return "error: " + err.Error()
		}
		return digest(r)
	}
}

// a second admissible parameter vector: the current one, nudged
func nudged(p pdf) Vector {
	v := p.basic().GetParameters().CloneVector()
	for i := 0; i < v.Dim(); i++ {
		x := v.At(i).GetFloat64()
		if x == float64(int(x)) && x > 1.5 {
			continue // integer-valued parameters (counts, degrees of freedom) stay as they are
		}
		v.At(i).SetFloat64(x + 0.03125*(1+float64(i%2)))
	}
	return v
}

type estSpec struct {
	sc   ScalarEstimator
	ve   VectorEstimator
	x    interface{} // ConstVector or []ConstVector
	n    int
	gamm ConstVector
}

func newEst(name string) *estSpec {
	data := fv(0.5, 1.25, 2, 0.75, 3, 1.5)
	counts := fv(0, 2, 1, 3, 1, 0)
	gamma := fv(-0.1, -0.7, -0.2, -1.2, -0.4, -0.3)
	vdata := []ConstVector{fv(0.5, 1.25), fv(2, 0.75), fv(3, 1.5), fv(1, 1)}
	vgamma := fv(-0.1, -0.7, -0.2, -1.2)
	se := func(e ScalarEstimator, err error, x ConstVector) *estSpec {
		if err != nil {
			panic(err)
		}
		return &estSpec{sc: e, x: x, n: x.Dim(), gamm: gamma}
	}
	switch name {
	case "e.categorical":
		e, err := scalarEstimator.NewCategoricalEstimator([]float64{0.25, 0.25, 0.25, 0.25})
		return se(e, err, counts)
	case "e.delta":
		e, err := scalarEstimator.NewDeltaEstimator(1.0)
		return se(e, err, data)
	case "e.exponential":
		e, err := scalarEstimator.NewExponentialEstimator(1.0, 100.0)
		return se(e, err, data)
	case "e.geometric":
		e, err := scalarEstimator.NewGeometricEstimator(0.5)
		return se(e, err, counts)
	case "e.negativeBinomial":
		e, err := scalarEstimator.NewNegativeBinomialEstimator(2, 0.5)
		return se(e, err, counts)
	case "e.normal":
		e, err := scalarEstimator.NewNormalEstimator(0, 1, 1e-8)
		return se(e, err, data)
	case "e.poisson":
		e, err := scalarEstimator.NewPoissonEstimator(1.0)
		return se(e, err, counts)
	case "e.mixture":
		e1, _ := scalarEstimator.NewNormalEstimator(0, 1, 1e-8)
		e2, _ := scalarEstimator.NewNormalEstimator(2, 1, 1e-8)
		e, err := scalarEstimator.NewMixtureEstimator([]float64{0.5, 0.5}, []ScalarEstimator{e1, e2}, 1e-6, 5)
		return se(e, err, data)
	case "e.vnormal":
		e, err := vectorEstimator.NewNormalEstimator([]float64{0, 0}, []float64{1, 0, 0, 1}, 1e-8)
		if err != nil {
			panic(err)
		}
		return &estSpec{ve: e, x: vdata, n: len(vdata), gamm: vgamma}
	case "e.scalarId":
		e1, _ := scalarEstimator.NewNormalEstimator(0, 1, 1e-8)
		e2, _ := scalarEstimator.NewNormalEstimator(2, 1, 1e-8)
		e, err := vectorEstimator.NewScalarId(e1, e2)
		if err != nil {
			panic(err)
		}
		return &estSpec{ve: e, x: vdata, n: len(vdata), gamm: vgamma}
	case "e.scalarIid":
		e1, _ := scalarEstimator.NewNormalEstimator(0, 1, 1e-8)
		e, err := vectorEstimator.NewScalarIid(e1, -1)
		if err != nil {
			panic(err)
		}
		// the vectors are concatenated: one weight per scalar observation
		return &estSpec{ve: e, x: vdata, n: len(vdata), gamm: fv(-0.1, -0.7, -0.2, -1.2, -0.4, -0.3, -0.5, -0.9)}
	}
	return nil
}

func (e *estSpec) clone() *estSpec {
	r := *e
	if e.sc != nil {
		r.sc = e.sc.CloneScalarEstimator()
	} else {
		r.ve = e.ve.CloneVectorEstimator()
	}
	return &r
}
func (e *estSpec) est() interface{} {
	if e.sc != nil {
		return e.sc
	}
	return e.ve
}
func (e *estSpec) params() func() interface{} {
	return func() interface{} {
		if e.sc != nil {
			return digest(e.sc.GetParameters())
		}
		return digest(e.ve.GetParameters())
	}
}
func (e *estSpec) setData() error {
	if e.sc != nil {
		return e.sc.SetData(e.x.(ConstVector), e.n)
	}
	return e.ve.SetData(e.x.([]ConstVector), e.n)
}
func (e *estSpec) estimateOnData() error {
	if e.sc != nil {
		return e.sc.EstimateOnData(e.x.(ConstVector), e.gamm, threadpool.ThreadPool{})
	}
	return e.ve.EstimateOnData(e.x.([]ConstVector), e.gamm, threadpool.ThreadPool{})
}

var distInfo = map[string][]string{} // information (not verdicts): undocumented sharing

// vectorDistribution.Mixture.SetParameters calls itself without bound (fatal stack overflow, which
// would kill the driver; a termination defect outside this property): never called here.
var noSetParameters = map[string]bool{"vmixture": true}

func setParameters(name string, p pdf, arg Vector) error {
	if noSetParameters[name] {
		distInfo["SetParameters_not_exercised"] = append(distInfo["SetParameters_not_exercised"], name)
		return nil
	}
	return p.basic().SetParameters(arg)
}

func buildDist(c *fcase) *frameRun {
	f := &frameRun{}
	if len(c.Entry) > 9 && c.Entry[:9] == "estimator" {
		e := newEst(c.Op)
		if e == nil {
			return nil
		}
		f.role("x", e.x)
		f.role("gamma", e.gamm)
		switch c.Entry {
		case "estimator.SetData":
			f.call = e.setData
		case "estimator.EstimateOnData":
			f.call = e.estimateOnData
		case "estimator.Clone": // work on the clone, the source keeps its parameters
			cl := e.clone()
			f.structural("source", e.est())
			f.structural("clone", cl.est())
			f.role("params", e.params())
			f.call = cl.estimateOnData
		case "estimator.CloneRev": // work on the source, the clone keeps its parameters
			cl := e.clone()
			f.structural("source", e.est())
			f.structural("clone", cl.est())
			f.role("params", cl.params())
			f.call = e.estimateOnData
		default:
			return nil
		}
		return f
	}
	d := newDist(c.Op)
	if d == nil {
		return nil
	}
	switch c.Entry {
	case "dist.New":
		// the driver modifies the arguments itself after the call (information probe), so the
		// digest "after" is taken inside the call, right after the constructor returns
		snap := ""
		f.role("params", func() interface{} {
			if snap != "" {
				return snap
			}
			return digest(d.args)
		})
		f.call = func() error {
			p, err := d.mk()
			snap = digest(d.args)
			if err == nil { // information: does the object keep a reference to what it was given?
				before := logpdfOf(p, d.x)()
				for _, a := range d.args {
					switch v := a.(type) {
					case Scalar:
						v.SetFloat64(v.GetFloat64() * 1.25)
					case Vector:
						v.At(0).SetFloat64(v.At(0).GetFloat64() * 1.25)
					case Matrix:
						v.At(0, 0).SetFloat64(v.At(0, 0).GetFloat64() * 1.25)
					}
				}
				if after := logpdfOf(p, d.x)(); before != after {
					distInfo["constructor_keeps_reference_to_arguments"] = append(distInfo["constructor_keeps_reference_to_arguments"], c.Op)
				}
			}
			return err
		}
		return f
	}
	p, err := d.mk()
	if err != nil {
		panic(fmt.Sprintf("driver: cannot construct %s: %v", c.Op, err))
	}
	switch c.Entry {
	case "dist.LogPdf":
		r := NullFloat64()
		f.role("x", d.x)
		f.role("params", paramsOf(p))
		f.role("r", r)
		f.call = func() error { return p.logpdf(r, d.x) }
	case "dist.SetParameters":
		arg := nudged(p)
		f.role("arg", arg)
		f.call = func() error { return setParameters(c.Op, p, arg) }
	case "dist.GetParameters":
		f.role("params", paramsOf(p))
		f.call = func() error {
			v := p.basic().GetParameters()
			before := paramsOf(p)()
			if v.Dim() > 0 { // information: is the returned vector the distribution's own storage?
				v.At(0).SetFloat64(v.At(0).GetFloat64() + 0.5)
				if paramsOf(p)() != before {
					distInfo["GetParameters_returns_internal_storage"] = append(distInfo["GetParameters_returns_internal_storage"], c.Op)
					v.At(0).SetFloat64(v.At(0).GetFloat64() - 0.5)
				}
			}
			return nil
		}
	case "dist.Clone": // work on the clone, the source is unchanged
		cl := p.clone()
		f.structural("source", p.basic())
		f.structural("clone", cl.basic())
		arg := nudged(cl)
		f.role("x", d.x)
		f.role("params", paramsOf(p))
		f.role("logpdf", logpdfOf(p, d.x))
		f.call = func() error {
			r := NullFloat64()
			if err := cl.logpdf(r, d.x); err != nil {
				return err
			}
			return setParameters(c.Op, cl, arg)
		}
	case "dist.CloneRev": // work on the source, the clone is unchanged
		cl := p.clone()
		f.structural("source", p.basic())
		f.structural("clone", cl.basic())
		arg := nudged(p)
		f.role("x", d.x)
		f.role("params", paramsOf(cl))
		f.role("logpdf", logpdfOf(cl, d.x))
		f.call = func() error {
			r := NullFloat64()
			if err := p.logpdf(r, d.x); err != nil {
				return err
			}
			return setParameters(c.Op, p, arg)
		}
	default:
		return nil
	}
	return f
}
